#!/bin/bash
# run every check of a tier in sequence and print one summary line each: tools_run_all.sh quick|thorough [seed]
tier=${1:-quick}; export VERIF_SEED=${2:-0}
cd "$(dirname "$0")"
for p in C01 C02 C03 C04 C05 C06 C07 C08 C09 C10 C11 C12 C13 C14 C15 C16 C17 C18 C19 C20; do
  s=$(date +%s); ./check $p --tier $tier > /tmp/runall_$p.$tier.log 2>&1; rc=$?; e=$(date +%s)
  echo "$p $tier seed=$VERIF_SEED rc=$rc t=$((e-s))s violations=$(grep -c '^VIOLATION' /tmp/runall_$p.$tier.log) known=$(grep -c '^KNOWN-FINDING' /tmp/runall_$p.$tier.log)"
done
