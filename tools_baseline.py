#!/usr/bin/env python3
"""runs the repository's pinned baseline (guard off) and compares the passing set with /root/.vp/BASELINE.json"""
import json
import subprocess
import sys
import tempfile
import xml.etree.ElementTree as ET
from pathlib import Path

base = json.load(open("/root/.vp/BASELINE.json"))
with tempfile.TemporaryDirectory() as d:
    x = Path(d) / "junit.xml"
    cmd = base["cmd"].replace("<file>", str(x))
    p = subprocess.run(cmd, shell=True, capture_output=True, text=True, timeout=3000)
    passed = set()
    for tc in ET.parse(x).getroot().iter("testcase"):
        if not any(c.tag in ("failure", "error", "skipped") for c in tc):
            passed.add(f"{tc.get('classname')}::{tc.get('name')}")
want = set(base["stable_pass"])


def norm(s):
    return s.replace("::", ".").replace(".", " ").split()


got_n = {" ".join(norm(s)) for s in passed}
missing = [w for w in want if " ".join(norm(w)) not in got_n]
print(f"baseline: {len(want)} stable tests, {len(passed)} passed now, {len(missing)} of the stable set missing")
for m in missing[:20]:
    print("  MISSING", m)
sys.exit(1 if missing else 0)
