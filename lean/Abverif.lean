import Abverif.Model.Basic
import Abverif.Model.Xor
import Abverif.Proofs.C15
