import Abverif.Drv.Xor
/-
Line-protocol driver: one request per line on stdin, one canonical answer per line on stdout.
Unknown or malformed requests answer `bad-op` (never a default value).
-/
open Abverif

def handlers : List (List String → Option String) :=
  [Drv.Xor.handle]

def dispatch (line : String) : String :=
  let toks := (line.trimAscii.toString.splitOn " ").filter (· ≠ "")
  match handlers.findSome? (fun h => h toks) with
  | some r => r
  | none => "bad-op"

partial def loop (hin : IO.FS.Stream) (hout : IO.FS.Stream) : IO Unit := do
  let line ← hin.getLine
  if line.isEmpty then return ()
  hout.putStrLn (dispatch line)
  loop hin hout

def main : IO Unit := do
  let hin ← IO.getStdin
  let hout ← IO.getStdout
  loop hin hout
  hout.flush
