import Abverif.Model.Schema
/-
The 25 message schemas, written by hand from `autobahn/wamp/message.py` (`parse`, `marshal`, `__init__` of each
class).  Type codes, the `request_type` list of ERROR, role names/features and the per-class
"forward_for loop repaired" flags come from the regenerated `Generated/WampCodes.lean`.

Field names are the public attribute names of the Python classes.
-/
namespace Abverif.Wamp
open Generated.WampCodes

namespace Schemas

def ff (fixed : Bool) (cty : CTy := .ffItems) (mm : MMode := .notNone) : OptStep :=
  { field := cs!"forward_for", key := cs!"forward_for", ty := .forwardFor fixed, cty := cty, mm := mm }

def oBool (n : Str) (mm : MMode := .notNone) : OptStep := { field := n, key := n, ty := .bool, mm := mm }
def oInt (n : Str) (min : Option Int := none) (mm : MMode := .notNone) : OptStep :=
  { field := n, key := n, ty := .int min, mm := mm }
/-- an integer option that is a WAMP id (session, subscription, registration): `check_or_raise_id` -/
def oId (n : Str) : OptStep := { field := n, key := n, ty := .id }
def oStr (n : Str) (mm : MMode := .notNone) : OptStep := { field := n, key := n, ty := .str, mm := mm }
/-- a list of WAMP session ids: `check_or_raise_id` on every item -/
def oListId (n : Str) : OptStep := { field := n, key := n, ty := .listId }
def oListStr (n : Str) : OptStep := { field := n, key := n, ty := .listStr }
/-- a detail that is a concrete URI: `type(v) != str` → ProtocolError, then `check_or_raise_uri(v)` (EVENT.topic,
INVOCATION.procedure) -/
def oUri (n : Str) : OptStep := { field := n, key := n, ty := .strUri false }

def payloadCross : List Cross := [.payloadBytes, .encTypes, .encTriple]

def matchVals : List Str := [cs!"exact", cs!"prefix", cs!"wildcard"]

def hello : Schema where
  name := cs!"Hello"
  code := code_Hello
  pos := [.uri cs!"realm" { allowNone := true }, .opts]
  opts := [
    { field := cs!"roles", key := cs!"roles", ty := .roles helloRoles roleFeatures, required := true, mm := .always },
    oListStr cs!"authmethods", oStr cs!"authid", oStr cs!"authrole",
    { field := cs!"authextra", key := cs!"authextra", ty := .dict },
    oBool cs!"resumable",
    { field := cs!"resume_session", key := cs!"resume-session", ty := .id },
    { field := cs!"resume_token", key := cs!"resume-token", ty := .str, absentErrIf := some cs!"resume-session" } ]

def welcome : Schema where
  name := cs!"Welcome"
  code := code_Welcome
  pos := [.id cs!"session", .opts]
  opts := [
    -- `details.get("realm")`, None or str (ProtocolError), then `check_or_raise_uri(realm, allow_none=True)`
    { field := cs!"realm", key := cs!"realm", ty := .strUri true, cty := .strOrNone, mm := .truthy },
    { field := cs!"authid", key := cs!"authid", ty := .strOrNull, cty := .strOrNone, mm := .truthy },
    { field := cs!"authrole", key := cs!"authrole", ty := .strOrNull, cty := .strOrNone, mm := .truthy },
    { field := cs!"authmethod", key := cs!"authmethod", ty := .strOrNull, cty := .strOrNone, mm := .truthy },
    { field := cs!"authprovider", key := cs!"authprovider", ty := .strOrNull, cty := .strOrNone, mm := .truthy },
    { field := cs!"authextra", key := cs!"authextra", ty := .dictOrNull, cty := .dictOrNone, mm := .truthy },
    oBool cs!"resumed" .truthy,
    oBool cs!"resumable" .truthy,
    { field := cs!"resume_token", key := cs!"resume_token", ty := .str, mm := .truthy, absentErrIf := some cs!"resumable" },
    { field := cs!"roles", key := cs!"roles", ty := .roles welcomeRoles roleFeatures, required := true, mm := .always } ]
  custom := true

def abort : Schema where
  name := cs!"Abort"
  code := code_Abort
  pos := [.opts, .uri cs!"reason" {}]
  opts := [oStr cs!"message" .truthy]

def challenge : Schema where
  name := cs!"Challenge"
  code := code_Challenge
  pos := [.str cs!"method", .extra cs!"extra"]

def authenticate : Schema where
  name := cs!"Authenticate"
  code := code_Authenticate
  pos := [.str cs!"signature", .extra cs!"extra"]

def goodbye : Schema where
  name := cs!"Goodbye"
  code := code_Goodbye
  pos := [.opts, .uri cs!"reason" {}]
  opts := [oStr cs!"message" .truthy, oBool cs!"resumable" .truthy]

def error : Schema where
  name := cs!"Error"
  code := code_Error
  pos := [.intEnum cs!"request_type" errorRequestTypes, .id cs!"request", .opts, .uri cs!"error" {}]
  tail := some { variant := .std }
  opts := [oId cs!"callee", oStr cs!"callee_authid", oStr cs!"callee_authrole", ff ffFixed_Error]
  cross := payloadCross

def publish : Schema where
  name := cs!"Publish"
  code := code_Publish
  pos := [.id cs!"request", .opts, .uri cs!"topic" {}]
  tail := some { variant := .publish }
  opts := [oBool cs!"acknowledge", oBool cs!"exclude_me", oListId cs!"exclude", oListStr cs!"exclude_authid",
           oListStr cs!"exclude_authrole", oListId cs!"eligible", oListStr cs!"eligible_authid",
           oListStr cs!"eligible_authrole", oBool cs!"retain", oStr cs!"transaction_hash", ff ffFixed_Publish]
  cross := payloadCross

def published : Schema where
  name := cs!"Published"
  code := code_Published
  pos := [.id cs!"request", .id cs!"publication"]

def subscribe : Schema where
  name := cs!"Subscribe"
  code := code_Subscribe
  pos := [.id cs!"request", .opts, .uri cs!"topic" { allowEmpty := true }]
  opts := [{ field := cs!"match", key := cs!"match", ty := .strEnum matchVals, dflt := .str cs!"exact",
             mm := .neqDefault cs!"exact" },
           oBool cs!"get_retained", ff ffFixed_Subscribe]

def subscribed : Schema where
  name := cs!"Subscribed"
  code := code_Subscribed
  pos := [.id cs!"request", .id cs!"subscription"]

def unsubscribe : Schema where
  name := cs!"Unsubscribe"
  code := code_Unsubscribe
  pos := [.id cs!"request", .id cs!"subscription", .opts]
  optsOptional := true
  opts := [ff ffFixed_Unsubscribe .ffItems .truthy]

def unsubscribed : Schema where
  name := cs!"Unsubscribed"
  code := code_Unsubscribed
  pos := [.id cs!"request", .opts]
  optsOptional := true
  opts := [oId cs!"subscription", { field := cs!"reason", key := cs!"reason", ty := .uri {} }]
  cross := [.zeroExcl cs!"request" cs!"subscription"]
  pcross := [.zeroExcl cs!"request" cs!"subscription"]

def event : Schema where
  name := cs!"Event"
  code := code_Event
  pos := [.id cs!"subscription", .id cs!"publication", .opts]
  tail := some { variant := .std }
  opts := [oId cs!"publisher", oStr cs!"publisher_authid", oStr cs!"publisher_authrole", oUri cs!"topic",
           oBool cs!"retained", oStr cs!"transaction_hash", oBool cs!"x_acknowledged_delivery", ff ffFixed_Event]
  cross := payloadCross

def eventReceived : Schema where
  name := cs!"EventReceived"
  code := code_EventReceived
  pos := [.id cs!"publication"]

def call : Schema where
  name := cs!"Call"
  code := code_Call
  pos := [.id cs!"request", .opts, .uri cs!"procedure" {}]
  tail := some { variant := .std }
  opts := [oInt cs!"timeout" (some 0), oBool cs!"receive_progress", oStr cs!"transaction_hash", oId cs!"caller",
           oStr cs!"caller_authid", oStr cs!"caller_authrole", ff ffFixed_Call]
  cross := payloadCross

def cancel : Schema where
  name := cs!"Cancel"
  code := code_Cancel
  pos := [.id cs!"request", .opts]
  opts := [{ field := cs!"mode", key := cs!"mode", ty := .strEnum [cs!"skip", cs!"killnowait", cs!"kill"] },
           ff ffFixed_Cancel]

def result : Schema where
  name := cs!"Result"
  code := code_Result
  pos := [.id cs!"request", .opts]
  tail := some { variant := .std }
  opts := [oBool cs!"progress", oId cs!"callee", oStr cs!"callee_authid", oStr cs!"callee_authrole", ff ffFixed_Result]
  cross := payloadCross

def register : Schema where
  name := cs!"Register"
  code := code_Register
  pos := [.id cs!"request", .opts, .uriByMatch cs!"procedure" 2 cs!"match" matchVals]
  opts := [{ field := cs!"match", key := cs!"match", ty := .strEnum matchVals, dflt := .str cs!"exact",
             mm := .neqDefault cs!"exact" },
           { field := cs!"invoke", key := cs!"invoke",
             ty := .strEnum [cs!"single", cs!"first", cs!"last", cs!"roundrobin", cs!"random"],
             dflt := .str cs!"single", mm := .neqDefault cs!"single" },
           oInt cs!"concurrency" (some 1) .truthy,
           { field := cs!"force_reregister", key := cs!"force_reregister", ty := .boolOrNull },
           ff ffFixed_Register]

def registered : Schema where
  name := cs!"Registered"
  code := code_Registered
  pos := [.id cs!"request", .id cs!"registration"]

def unregister : Schema where
  name := cs!"Unregister"
  code := code_Unregister
  pos := [.id cs!"request", .id cs!"registration", .opts]
  optsOptional := true
  -- the constructor of Unregister asserts nothing about forward_for
  opts := [ff ffFixed_Unregister .none .truthy]

def unregistered : Schema where
  name := cs!"Unregistered"
  code := code_Unregistered
  pos := [.id cs!"request", .opts]
  optsOptional := true
  opts := [oId cs!"registration", { field := cs!"reason", key := cs!"reason", ty := .uri {} }]
  cross := [.zeroExcl cs!"request" cs!"registration"]
  pcross := [.zeroExcl cs!"request" cs!"registration"]

def invocation : Schema where
  name := cs!"Invocation"
  code := code_Invocation
  pos := [.id cs!"request", .id cs!"registration", .opts]
  tail := some { variant := .std }
  opts := [oInt cs!"timeout" (some 0), oBool cs!"receive_progress", oId cs!"caller", oStr cs!"caller_authid",
           oStr cs!"caller_authrole", oUri cs!"procedure", oStr cs!"transaction_hash", ff ffFixed_Invocation]
  cross := payloadCross

def interrupt : Schema where
  name := cs!"Interrupt"
  code := code_Interrupt
  pos := [.id cs!"request", .opts]
  opts := [{ field := cs!"mode", key := cs!"mode", ty := .strEnum [cs!"kill", cs!"killnowait"] },
           { field := cs!"reason", key := cs!"reason", ty := .uri {} },
           ff ffFixed_Interrupt]

def yield : Schema where
  name := cs!"Yield"
  code := code_Yield
  pos := [.id cs!"request", .opts]
  tail := some { variant := .std }
  opts := [oBool cs!"progress", oId cs!"callee", oStr cs!"callee_authid", oStr cs!"callee_authrole", ff ffFixed_Yield]
  cross := payloadCross

end Schemas

open Schemas in
/-- all 25 message classes of message.py -/
def all25 : List Schema :=
  [hello, welcome, abort, challenge, authenticate, goodbye, error, publish, published, subscribe, subscribed,
   unsubscribe, unsubscribed, event, eventReceived, call, cancel, result, register, registered, unregister,
   unregistered, invocation, interrupt, yield]

/-- the class a type code dispatches to: `Serializer.MESSAGE_TYPE_MAP.get(code)` (the regenerated table) followed
by the schema of that name -/
def schemaOfCode (code : Int) : Option Schema :=
  match typeMap.find? (fun e => e.1 == code) with
  | none => none
  | some e => all25.find? (fun σ => σ.name == e.2)

/-- what `Serializer.unserialize` does with one deserialized object: envelope checks, dispatch, `Klass.parse` -/
def unserializeOne (O : Oracles) : WVal → Except Err (Schema × Msg)
  | .list [] => fail .protocol cs!"envelope:empty"
  | .list (.int code :: rest) =>
      match schemaOfCode code with
      | none => fail .protocol cs!"envelope:code"
      | some σ => do let m ← σ.parse O (.int code :: rest); pure (σ, m)
  | .list _ => fail .protocol cs!"envelope:code-type"
  | _ => fail .protocol cs!"envelope:not-list"

end Abverif.Wamp
