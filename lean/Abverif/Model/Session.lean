import Abverif.Generated.SessCodes
/-
The WAMP client session (autobahn/wamp/protocol.py `ApplicationSession`) as an executable state machine.
Shared by C04 and C11 (this round) and meant to be extended for C06, C10, C18, C20.

  `Sess`                      the attributes of the session object the request/event paths read or write
  `step : Sess → SEv → Sess × List SOut`
  `SEv`                       API calls, incoming messages (with the behaviour of the user code they run), pump
  `SOut`                      message handed to `ITransport.send`, completion of a Deferred/Future, user callback,
                              handler invocation, exception leaving the entry point

Conventions
  * URIs, payload values, kwargs keys, handler functions are abstract tokens (`Nat`). Key `0` is `"details"`.
  * A Deferred/Future is a write-once cell with an attempt counter (`Fut`); `FutId` = allocation order. The
    `Subscription`/`Registration` object a subscribe/register future resolves to is named by that future's id.
  * txaio scheduling is the parameter `Sess.mode`: `sync` (Twisted: callbacks run inside `resolve`/`add_callbacks`)
    or `deferred` (asyncio: callbacks are queued FIFO and run at the next loop iteration = `SEv.pump`).
  * User code that `onMessage` runs synchronously (event handlers, `on_progress`) takes its behaviour from the
    script `beh : List HAct` carried by the event: the i-th invocation performs `beh[i]` (default: returns).
  * Every place where the Python raises is an explicit `SOut.raise_`; the state changes made before the raise stay.
  * EVENT dispatch iterates over a snapshot of the handler list and skips handlers detached meanwhile; every handler
    gets its own kwargs dict (the code after the F8/F9 repairs).
  * Request tables are association lists in insertion order. Assigning an id that is already present re-appends
    it (a Python dict keeps the old position); this is only reachable after 2^53 requests and only affects the
    order in which a session end fails the outstanding requests.
  * Lifecycle (C06): `onOpen`, `join`, the pre-session branch (WELCOME / ABORT / CHALLENGE), GOODBYE, `leave`,
    `disconnect`, `onClose`, `_errback_outstanding_requests`, the default `onLeave` / `onDisconnect`. Every user hook
    takes its behaviour from an `HAct` (runs the default body or not, makes API calls, returns a value or raises).
  * Callee side (C10): INVOCATION → endpoint → `success` / `error` → YIELD / ERROR with the `send()` failure fallback,
    progressive results, INTERRUPT, pending results resolved later. The outcome of `ITransport.send` on a reply path
    is the head of the injected plan `Sess.faults` (the mock transport), or the transport's classification table.
  * What `txaio.add_callbacks` hangs on an already fired Deferred/Future runs at once on Twisted and at the next loop
    iteration on asyncio. Where such a continuation reads or writes the session it is queued as `SOut.later k`
    (`Cont`), not as a finished output; `tick` is one loop iteration, `pump` runs the loop until it is idle.
  * An exception that ends in an unhandled Deferred failure / the loop's exception handler is `SOut.lost` (not
    observable by the harness; nothing is sent).
-/
namespace Abverif.Session
open Abverif.SessCodes

abbrev ReqId := Nat
abbrev FutId := Nat
abbrev SubId := Nat
abbrev RegId := Nat
abbrev HId := Nat
abbrev Uri := Nat
abbrev Val := Nat
abbrev Key := Nat
abbrev Args := List Val
abbrev Kwargs := List (Key × Val)

/-! ## association lists -/

def alookup {β : Type} (k : Nat) : List (Nat × β) → Option β
  | [] => none
  | (k', v) :: r => if k' = k then some v else alookup k r

def adel {β : Type} (k : Nat) : List (Nat × β) → List (Nat × β)
  | [] => []
  | (k', v) :: r => if k' = k then adel k r else (k', v) :: adel k r

def aset {β : Type} (k : Nat) (v : β) (l : List (Nat × β)) : List (Nat × β) := adel k l ++ [(k, v)]

def akeys {β : Type} (l : List (Nat × β)) : List Nat := l.map (·.1)

/-! ## vocabulary -/

/-- request kinds, in the order `_errback_outstanding_requests` walks the tables -/
inductive Kind | publish | subscribe | unsubscribe | call | register | unregister
deriving DecidableEq, Repr

def Kind.all : List Kind := [.publish, .subscribe, .unsubscribe, .call, .register, .unregister]

/-- MESSAGE_TYPE of the request message of a kind (generated from wamp/message.py) -/
def Kind.code : Kind → Nat
  | .publish => tPublish | .subscribe => tSubscribe | .unsubscribe => tUnsubscribe
  | .call => tCall | .register => tRegister | .unregister => tUnregister

inductive Sched | sync | deferred
deriving DecidableEq, Repr

inductive SendRes | ok | raises
deriving DecidableEq, Repr

inductive Exc
  | protocolError      -- autobahn.wamp.exception.ProtocolError
  | transportLost      -- autobahn.wamp.exception.TransportLost
  | typeError          -- TypeError
  | attributeError     -- AttributeError (`self._transport` is None)
  | exception          -- plain `Exception(...)` ("subscription no longer active", "session already joined", …)
  | alreadyCalled      -- AlreadyCalledError / InvalidStateError: a second completion of a Deferred/Future
  | sendFailed         -- whatever `ITransport.send` raised
  | internal           -- a branch the Python cannot reach (record without future)
  | keyError           -- `del self._invocations[id]` a second time
  | assertionError     -- `message.Error(...)` refuses what `_message_from_exception` hands it
  | serializationError -- autobahn.wamp.exception.SerializationError
  | payloadExceeded    -- autobahn.exception.PayloadExceededError
  | other              -- any other class out of `ITransport.send` (ValueError, Disconnected, TypeError, …)
deriving DecidableEq, Repr

/-! ### options → wire attributes (types.py `*.message_attr()` as seen through `marshal()`) -/

inductive OVal | b (v : Bool) | n (v : Nat) | l (v : List Nat)
deriving DecidableEq, Repr

inductive Attr
  | acknowledge | excludeMe | exclude | excludeAuthid | excludeAuthrole | eligible | eligibleAuthid
  | eligibleAuthrole | retain | transactionHash | forwardFor | timeout | receiveProgress | caller
  | callerAuthid | callerAuthrole | match_ | getRetained | invoke | concurrency | forceReregister | progress
deriving DecidableEq, Repr

abbrev Attrs := List (Attr × OVal)

def optAttr {α : Type} (a : Attr) (f : α → OVal) : Option α → Attrs
  | none => []
  | some v => [(a, f v)]

/-- a `PublishOptions` black/white-list field: a scalar is sent as a one-element list -/
inductive OneOrMany | one (v : Nat) | many (vs : List Nat)
deriving DecidableEq, Repr

def OneOrMany.listify : OneOrMany → OVal
  | .one v => .l [v]
  | .many vs => .l vs

structure PubOpts where
  acknowledge : Option Bool := none
  excludeMe : Option Bool := none
  exclude : Option OneOrMany := none
  excludeAuthid : Option OneOrMany := none
  excludeAuthrole : Option OneOrMany := none
  eligible : Option OneOrMany := none
  eligibleAuthid : Option OneOrMany := none
  eligibleAuthrole : Option OneOrMany := none
  retain : Option Bool := none
  transactionHash : Option Nat := none
  forwardFor : Option Nat := none
deriving DecidableEq, Repr

def PubOpts.attrs (o : PubOpts) : Attrs :=
  optAttr .acknowledge .b o.acknowledge ++ optAttr .excludeMe .b o.excludeMe ++
  optAttr .exclude OneOrMany.listify o.exclude ++ optAttr .excludeAuthid OneOrMany.listify o.excludeAuthid ++
  optAttr .excludeAuthrole OneOrMany.listify o.excludeAuthrole ++ optAttr .eligible OneOrMany.listify o.eligible ++
  optAttr .eligibleAuthid OneOrMany.listify o.eligibleAuthid ++
  optAttr .eligibleAuthrole OneOrMany.listify o.eligibleAuthrole ++ optAttr .retain .b o.retain ++
  optAttr .transactionHash .n o.transactionHash ++ optAttr .forwardFor .n o.forwardFor

structure CallOpts where
  onProgress : Option HId := none
  timeout : Option Nat := none
  transactionHash : Option Nat := none
  caller : Option Nat := none
  callerAuthid : Option Nat := none
  callerAuthrole : Option Nat := none
  forwardFor : Option Nat := none
  details : Bool := false
deriving DecidableEq, Repr

/-- `on_progress` is client-side; on the wire it is `receive_progress = True`. `details` is client-side only. -/
def CallOpts.attrs (o : CallOpts) : Attrs :=
  optAttr .timeout .n o.timeout ++ optAttr .receiveProgress (fun _ => .b true) o.onProgress ++
  optAttr .transactionHash .n o.transactionHash ++ optAttr .forwardFor .n o.forwardFor ++
  optAttr .caller .n o.caller ++ optAttr .callerAuthid .n o.callerAuthid ++
  optAttr .callerAuthrole .n o.callerAuthrole

/-- `match`: 0 exact, 1 prefix, 2 wildcard. `Subscribe/Register.marshal_options` omit the default `exact`. -/
def matchAttr : Option Nat → Attrs
  | some 0 => []
  | some m => [(.match_, .n m)]
  | none => []

structure SubOpts where
  match_ : Option Nat := none
  getRetained : Option Bool := none
  forwardFor : Option Nat := none
  detailsArg : Option Key := none      -- `details=True` is `details_arg="details"` (key 0)
deriving DecidableEq, Repr

def SubOpts.attrs (o : SubOpts) : Attrs :=
  matchAttr o.match_ ++ optAttr .getRetained .b o.getRetained ++ optAttr .forwardFor .n o.forwardFor

/-- `invoke`: 0 single (default, omitted by `marshal_options`), 1 first, 2 last, 3 roundrobin, 4 random -/
def invokeAttr : Option Nat → Attrs
  | some 0 => []
  | some m => [(.invoke, .n m)]
  | none => []

structure RegOpts where
  match_ : Option Nat := none
  invoke : Option Nat := none
  concurrency : Option Nat := none      -- `RegisterOptions` asserts `> 0`
  forceReregister : Option Bool := none
  forwardFor : Option Nat := none
  detailsArg : Option Key := none
deriving DecidableEq, Repr

def RegOpts.attrs (o : RegOpts) : Attrs :=
  matchAttr o.match_ ++ invokeAttr o.invoke ++ optAttr .concurrency .n o.concurrency ++
  optAttr .forceReregister .b o.forceReregister ++ optAttr .forwardFor .n o.forwardFor

def optAttrs {α : Type} (f : α → Attrs) : Option α → Attrs
  | none => []
  | some o => f o

/-! ### messages -/

inductive MsgType | hello | goodbye | call | cancel | publish | subscribe | unsubscribe | register | unregister
  | abort | authenticate | yield_ | error
deriving DecidableEq, Repr

/-- a message handed to `ITransport.send`, as `marshal()` shows it (`uri` is the subscription/registration id
for UNSUBSCRIBE/UNREGISTER, the error URI for ERROR; ERROR is always `ERROR(INVOCATION, req, …)`) -/
structure OutMsg where
  typ : MsgType
  req : ReqId := 0
  opts : Attrs := []
  uri : Nat := 0
  args : Args := []
  kwargs : Kwargs := []
deriving DecidableEq, Repr

/-- application payload of an incoming message: `args`/`kwargs` are `None` when absent from the wire -/
structure Payload where
  args : Option Args := none
  kwargs : Option Kwargs := none
deriving DecidableEq, Repr

inductive InMsg
  | welcome (session : Nat)
  | goodbye
  | result (req : ReqId) (p : Payload) (progress : Bool)
  | error (reqType : Nat) (req : ReqId) (uri : Uri) (p : Payload)
  | published (req : ReqId) (publication : Nat)
  | subscribed (req : ReqId) (sub : SubId)
  | unsubscribed (req : ReqId)
  | registered (req : ReqId) (reg : RegId)
  | unregistered (req : ReqId) (reg : Option RegId)
  | event (sub : SubId) (publication : Nat) (p : Payload)
  | invocation (req : ReqId) (reg : RegId) (p : Payload) (receiveProgress : Option Bool)   -- the detail absent / true / false
  | interrupt (req : ReqId)
  | abort
  | challenge
  | other            -- any other message class (HELLO, AUTHENTICATE, YIELD, …)
deriving DecidableEq, Repr

/-! ### results -/

/-- what a request future is resolved with -/
inductive RVal
  | none_                                        -- `None` (call without payload, unregister)
  | single (v : Val)                             -- call: the one positional result
  | callResult (args : Args) (kwargs : Kwargs)   -- `types.CallResult`
  | publication (id : Nat)
  | subscription (sub : SubId)                   -- the `Subscription` (named by the future it resolves)
  | registration (reg : RegId)
  | int (n : Nat)                                -- unsubscribe: 0, or the number of handlers left
deriving DecidableEq, Repr

inductive Outcome
  | value (v : RVal)
  | error (uri : Uri) (args : Args) (kwargs : Kwargs)   -- exception built from an ERROR message (C18 refines)
  | cancelled                                            -- the user cancelled the Deferred/Future
  | closed (reason : Nat)                                -- session end: 0 GOODBYE, 1 transport lost, 2 router ABORT, 3 own ABORT
deriving DecidableEq, Repr

/-- value under a keyword of a handler call: a payload value or the `EventDetails` built for handler `obj` -/
inductive KwVal | v (x : Val) | details (obj : FutId)
  | callDetails (obj : FutId) (progress : Bool)   -- `CallDetails(registration, progress=<callable or None>)`
deriving DecidableEq, Repr

/-- how `on_progress` is called -/
inductive Prog
  | plain (args : Args) (kwargs : Kwargs)        -- `on_progress(*args, **kw)`
  | result (args : Args) (kwargs : Kwargs)       -- `on_progress(CallResult(*args, **kwargs))` (`details=True`)
deriving DecidableEq, Repr

/-! ### what user code does -/

/-- outcome of `ITransport.send` on a reply path (YIELD / ERROR of an invocation) -/
inductive SendOut | ok | serialization | payloadExceeded | transportLost | other
deriving DecidableEq, Repr

def SendOut.exc : SendOut → Exc
  | .ok => .other
  | .serialization => .serializationError
  | .payloadExceeded => .payloadExceeded
  | .transportLost => .transportLost
  | .other => .other

/-- the overridable callbacks of `ISession` -/
inductive Hook | onConnect | onJoin | onLeave | onDisconnect | onChallenge | onWelcome
deriving DecidableEq, Repr

/-- the observer events of `session.on(...)` -/
inductive ObsEv | connect | join | ready | leave | disconnect
deriving DecidableEq, Repr

/-- what a piece of user code returns (`pending`: a Deferred/Future that is completed later) -/
inductive Ret | unit | val (v : Val) | callResult (args : Args) (kwargs : Kwargs) | pending
deriving DecidableEq, Repr

/-- what a piece of user code raises, as far as `_message_from_exception` tells the classes apart -/
inductive ExcK
  | appError (uri : Uri) (args : Args) (kwargs : Kwargs)   -- `ApplicationError(uri, *args, **kwargs)`
  | mapped (uri : Uri) (args : Args)                       -- a class registered with `session.define`
  | runtime (args : Args)                                  -- any other class: `wamp.error.runtime_error`
  | unbuildable                                            -- `message.Error(...)` refuses its `args`/`kwargs`
  | cancelled                                              -- CancelledError (INTERRUPT)
  | sendExc                                                -- what a failing `details.progress(...)` raised
deriving DecidableEq, Repr

/-- error URIs the session itself names (tokens outside the range user URIs are drawn from) -/
def uRuntimeError : Uri := 900
def uInvalidPayload : Uri := 901
def uPayloadExceeded : Uri := 902
/-- the payload value that stands for Python's `None` -/
def noneVal : Val := 0

/-- the ERROR `_message_from_exception` builds (`none`: building it raises) -/
def ExcK.toError : ExcK → Option (Uri × Args × Kwargs)
  | .appError u a k => some (u, a, k)
  | .mapped u a => some (u, a, [])
  | .runtime a => some (uRuntimeError, a, [])
  | .unbuildable => none
  | .cancelled => some (uRuntimeError, [], [])
  | .sendExc => some (uRuntimeError, [], [])

/-- the ERROR the `error` closure answers with: what `_message_from_exception` builds, or — when building it raises —
`ERROR(wamp.error.invalid_payload)` with a text only -/
def ExcK.errorReply (e : ExcK) : Uri × Args × Kwargs := e.toError.getD (uInvalidPayload, [], [])

/-! ### API calls (the vocabulary; semantics below) -/

inductive Api
  | call (uri : Uri) (args : Args) (kwargs : Kwargs) (opts : Option CallOpts) (snd : SendRes)
  | publish (uri : Uri) (args : Args) (kwargs : Kwargs) (opts : Option PubOpts) (snd : SendRes)
  | subscribe (h : HId) (topic : Uri) (opts : Option SubOpts) (snd : SendRes)
  | register (h : HId) (proc : Uri) (opts : Option RegOpts) (snd : SendRes)
  | unsubscribe (obj : FutId) (snd : SendRes)      -- `Subscription.unsubscribe()` on the result of future `obj`
  | unregister (obj : FutId) (snd : SendRes)       -- `Registration.unregister()`
  | cancel (f : FutId)                             -- the user cancels a returned Deferred/Future
  | join
  | leave
  | disconnect
deriving DecidableEq, Repr

inductive HCall
  | api (a : Api)
  | unsubSelf                 -- the running event handler unsubscribes its own `Subscription`
deriving DecidableEq, Repr

/-- behaviour of one invocation of user code (event handler, `on_progress`, lifecycle hook, endpoint):
`dflt` — a lifecycle hook override calls the default body first; `progress` — an endpoint calls `details.progress`
(when it got one); `calls` — the API calls it makes (each guarded by the user's own `try/except`); then it returns
`ret` or, if `raises`, raises `exc`. -/
structure HAct where
  calls : List HCall := []
  raises : Bool := false
  dflt : Bool := true
  ret : Ret := .unit
  exc : ExcK := .runtime []
  progress : List Val := []
deriving DecidableEq, Repr

/-! ### continuations hung on an already completed Deferred/Future -/

inductive WRes | ok | deny | raised      -- `onWelcome` returned None / something else / raised
deriving DecidableEq, Repr
inductive CRes | sig | none_ | raised    -- `onChallenge` returned a signature / None / raised
deriving DecidableEq, Repr

/-- what an endpoint's result future completes with -/
inductive EOut | value (args : Args) (kwargs : Kwargs) | raised (e : ExcK)
deriving DecidableEq, Repr

inductive Cont
  | closeIfTransport                                   -- default `onLeave`: `if self._transport: self.disconnect()`
  | welcome2 (onJoin : HAct)                           -- `onJoin`, then 'ready'
  | connect (onConnect : HAct)                         -- `onOpen`: `as_future(self.onConnect)`
  | welcome1 (sid : Nat) (res : WRes) (onJoin : HAct)  -- WELCOME: the `success`/`error` pair behind `onWelcome`
  | challenge1 (res : CRes) (onLeave : HAct)           -- CHALLENGE: the `success`/`error` pair behind `onChallenge`
  | invDone (req : ReqId) (o : EOut)                   -- INVOCATION: the `success`/`error` pair behind the endpoint
deriving DecidableEq, Repr

inductive SOut
  | send (m : OutMsg)                       -- `self._transport.send(m)` was called
  | ret (f : FutId)                         -- the API call returned future `f`
  | retNone                                 -- the API call returned `None`
  | complete (f : FutId) (o : Outcome)      -- `txaio.resolve/reject` (or the user's cancel) wrote the cell of `f`
  | callback (f : FutId) (o : Outcome)      -- the user's callback/errback on `f` ran
  | invoke (obj : FutId) (h : HId) (args : Args) (kwargs : List (Key × KwVal))   -- event handler called
  | progress (h : HId) (p : Prog)           -- `on_progress` called
  | userError                               -- `onUserError` ran (user code raised; swallowed)
  | caught (e : Exc)                        -- an API call made from inside user code raised `e` to that code
  | raise_ (e : Exc)                        -- `e` left the entry point (API call or `onMessage`)
  | transportClose                          -- `self._transport.close()`
  | unmodelled                              -- a branch outside the model
  | hook (h : Hook) (arg : Nat)             -- a lifecycle callback was called (`arg`: close reason of `onLeave`)
  | fire (e : ObsEv)                        -- the observers of `e` were notified
  | endpoint (req : ReqId) (obj : FutId) (h : HId) (args : Args) (kwargs : List (Key × KwVal))   -- endpoint called
  | sendFail (m : OutMsg) (f : SendOut)     -- `self._transport.send(m)` was called and raised `f` (nothing written)
  | lost (e : Exc)                          -- `e` ended in an unhandled Deferred failure / the loop's handler
  | later (k : Cont)                        -- queue only: a continuation waiting for the next loop iteration
deriving DecidableEq, Repr

/-! ### state -/

/-- one record type for the six `*Request` classes (unused fields stay at their defaults) -/
structure Req where
  fut : FutId
  hasOpts : Bool := false             -- CallRequest.options is not None
  uri : Uri := 0                      -- CallRequest.procedure / SubscribeRequest.topic / RegisterRequest.procedure
  handler : HId := 0                  -- SubscribeRequest.handler.fn / RegisterRequest.endpoint.fn
  detailsArg : Option Key := none     -- Handler.details_arg / Endpoint.details_arg
  onProgress : Option HId := none     -- CallRequest.options.on_progress
  details : Bool := false             -- CallRequest.options.details
  target : Nat := 0                   -- UnsubscribeRequest.subscription_id / UnregisterRequest.registration_id
deriving DecidableEq, Repr

abbrev Table := List (ReqId × Req)

structure Fut where
  kind : Kind
  cell : Option Outcome := none
  count : Nat := 0                    -- number of completion attempts (resolve / reject / cancel)
  watched : Bool := true              -- the API call returned it, so the user's callbacks hang on it
deriving DecidableEq, Repr

/-- a `Subscription` object in `_subscriptions[id]` -/
structure SubRec where
  obj : FutId
  h : HId
  detailsArg : Option Key
  topic : Uri
deriving DecidableEq, Repr

structure RegRec where
  obj : FutId
  proc : Uri
  endpoint : HId
  detailsArg : Option Key
deriving DecidableEq, Repr

/-- the endpoint's result future of a running invocation: still pending, or completed/cancelled (its callback has
been scheduled) -/
inductive IState | pending | fired
deriving DecidableEq, Repr

/-- `InvocationRequest` in `_invocations[id]` -/
structure InvRec where
  reg : RegId
  st : IState
deriving DecidableEq, Repr

structure Sess where
  mode : Sched
  transport : Bool := false           -- `self._transport is not None`
  sessionId : Option Nat := none
  goodbyeSent : Bool := false
  ended : Bool := false               -- `self._session_ended`: `onLeave` has been called since the last `join()` / `onOpen`
  nextId : Nat := idInit              -- `IdGenerator._next`
  issued : Nat := 0                   -- ghost: ids drawn from this session object so far
  tPublish : Table := []
  tSubscribe : Table := []
  tUnsubscribe : Table := []
  tCall : Table := []
  tRegister : Table := []
  tUnregister : Table := []
  subs : List (SubId × List SubRec) := []
  regs : List (RegId × RegRec) := []
  invs : List (ReqId × InvRec) := []  -- `_invocations`
  faults : List SendOut := []         -- environment: outcomes of the next `send()` calls on reply paths (empty = ok)
  progs : List ReqId := []            -- ghost: invocations that were handed a `details.progress` callable
  futs : List Fut := []
  cbq : List SOut := []               -- deferred mode: callbacks waiting for the next loop iteration
deriving DecidableEq, Repr

def init (mode : Sched) : Sess := { mode := mode }

def Sess.tbl (s : Sess) : Kind → Table
  | .publish => s.tPublish | .subscribe => s.tSubscribe | .unsubscribe => s.tUnsubscribe
  | .call => s.tCall | .register => s.tRegister | .unregister => s.tUnregister

def Sess.setTbl (s : Sess) (k : Kind) (t : Table) : Sess :=
  match k with
  | .publish => { s with tPublish := t } | .subscribe => { s with tSubscribe := t }
  | .unsubscribe => { s with tUnsubscribe := t } | .call => { s with tCall := t }
  | .register => { s with tRegister := t } | .unregister => { s with tUnregister := t }

/-- `IdGenerator.next()` -/
def Sess.drawId (s : Sess) : Sess × ReqId :=
  let n := if s.nextId + 1 > idMax then idReset else s.nextId + 1
  ({ s with nextId := n, issued := s.issued + 1 }, n)

/-- `txaio.create_future()` -/
def Sess.newFut (s : Sess) (k : Kind) : Sess × FutId :=
  ({ s with futs := s.futs ++ [{ kind := k }] }, s.futs.length)

/-- `txaio.is_called(f)` -/
def Sess.called (s : Sess) (f : FutId) : Bool :=
  match s.futs[f]? with
  | some x => x.cell.isSome
  | none => false

/-- run a user callback now (Twisted) or at the next loop iteration (asyncio) -/
def emitCb (s : Sess) (o : SOut) : Sess × List SOut :=
  match s.mode with
  | .sync => (s, [o])
  | .deferred => ({ s with cbq := s.cbq ++ [o] }, [])

/-- `txaio.resolve(f, v)` / `txaio.reject(f, e)`: no guard of its own — a second call raises -/
def settle (s : Sess) (f : FutId) (o : Outcome) : Sess × List SOut :=
  match s.futs[f]? with
  | none => (s, [.raise_ .internal])
  | some x =>
    if x.cell.isSome then
      ({ s with futs := s.futs.set f { x with count := x.count + 1 } }, [.raise_ .alreadyCalled])
    else
      let s1 := { s with futs := s.futs.set f { x with cell := some o, count := x.count + 1 } }
      if x.watched then
        let r := emitCb s1 (.callback f o)
        (r.1, .complete f o :: r.2)
      else (s1, [.complete f o])

/-! ## API calls -/


/-- the tail common to all request APIs: `self._transport.send(msg)` and `return on_reply`; `keep = false` is the
`except: del self._xxx_reqs[request_id]; raise` of `call` and `publish` -/
def Sess.unwatch (s : Sess) (f : FutId) : Sess :=
  match s.futs[f]? with
  | some x => { s with futs := s.futs.set f { x with watched := false } }
  | none => s

def sendReq (s : Sess) (k : Kind) (id : ReqId) (m : OutMsg) (f : Option FutId) (keep : Bool) : SendRes → Sess × List SOut
  | .ok => (s, [.send m, match f with | some f => .ret f | none => .retNone])
  | .raises =>
    -- the future (if any) never reaches the caller
    let s := match f with | some f => s.unwatch f | none => s
    (if keep then s else s.setTbl k (adel id (s.tbl k)), [.send m, .raise_ .sendFailed])

/-- what the six request APIs share once their preconditions hold: draw the next id, create the future, record the
request under the id, hand the message to the transport, return the future -/
def request (s : Sess) (k : Kind) (mkReq : FutId → Req) (mkMsg : ReqId → OutMsg) (keep : Bool) (snd : SendRes) :
    Sess × List SOut :=
  let id := s.drawId.2
  let f := (s.drawId.1.newFut k).2
  let s1 := (s.drawId.1.newFut k).1
  sendReq (s1.setTbl k (aset id (mkReq f) (s1.tbl k))) k id (mkMsg id) (some f) keep snd

def apiCall (s : Sess) (uri : Uri) (args : Args) (kwargs : Kwargs) (opts : Option CallOpts) (snd : SendRes) :
    Sess × List SOut :=
  if !s.transport then (s, [.raise_ .transportLost]) else
  request s .call
    (fun f => { fut := f, hasOpts := opts.isSome, uri := uri, onProgress := opts.bind (·.onProgress),
                details := (opts.map (·.details)).getD false })
    (fun id => { typ := .call, req := id, opts := optAttrs CallOpts.attrs opts, uri := uri, args := args, kwargs := kwargs })
    false snd

def apiPublish (s : Sess) (uri : Uri) (args : Args) (kwargs : Kwargs) (opts : Option PubOpts) (snd : SendRes) :
    Sess × List SOut :=
  if !s.transport then (s, [.raise_ .transportLost]) else
  if (opts.bind (·.acknowledge)).getD false then
    -- only acknowledged publications expect a reply
    request s .publish (fun f => { fut := f })
      (fun id => { typ := .publish, req := id, opts := optAttrs PubOpts.attrs opts, uri := uri, args := args, kwargs := kwargs })
      false snd
  else
    let id := s.drawId.2
    sendReq s.drawId.1 .publish id
      { typ := .publish, req := id, opts := optAttrs PubOpts.attrs opts, uri := uri, args := args, kwargs := kwargs }
      none false snd

def apiSubscribe (s : Sess) (h : HId) (topic : Uri) (opts : Option SubOpts) (snd : SendRes) : Sess × List SOut :=
  if !s.transport then (s, [.raise_ .transportLost]) else
  request s .subscribe
    (fun f => { fut := f, uri := topic, handler := h, detailsArg := opts.bind (·.detailsArg) })
    (fun id => { typ := .subscribe, req := id, opts := optAttrs SubOpts.attrs opts, uri := topic })
    true snd

def apiRegister (s : Sess) (h : HId) (proc : Uri) (opts : Option RegOpts) (snd : SendRes) : Sess × List SOut :=
  if !s.transport then (s, [.raise_ .transportLost]) else
  request s .register
    (fun f => { fut := f, uri := proc, handler := h, detailsArg := opts.bind (·.detailsArg) })
    (fun id => { typ := .register, req := id, opts := optAttrs RegOpts.attrs opts, uri := proc })
    true snd

/-- the subscription id under which the (active) `Subscription` object `obj` is attached (`subscription.id`; a
`Subscription` is active iff it is in the list its id maps to) -/
def findSub (obj : FutId) (subs : List (SubId × List SubRec)) : Option SubId :=
  (akeys subs).find? (fun sid => ((alookup sid subs).getD []).any (·.obj == obj))

/-- `list.remove(subscription)`: the first (only) occurrence -/
def removeObj (obj : FutId) : List SubRec → List SubRec
  | [] => []
  | r :: rs => if r.obj = obj then rs else r :: removeObj obj rs

/-- replace the value under an existing key, in place -/
def aupd {β : Type} (k : Nat) (v : β) : List (Nat × β) → List (Nat × β)
  | [] => []
  | (k', v') :: r => if k' = k then (k, v) :: r else (k', v') :: aupd k v r

/-- `txaio.create_future_success(v)` returned to the caller -/
def futureSuccess (s : Sess) (k : Kind) (o : Outcome) : Sess × List SOut :=
  let r := emitCb { s with futs := s.futs ++ [{ kind := k, cell := some o, count := 1 }] } (.callback s.futs.length o)
  (r.1, [.complete s.futs.length o, .ret s.futs.length] ++ r.2)

/-- `Subscription.unsubscribe()` → `_unsubscribe(subscription)` -/
def apiUnsubscribe (s : Sess) (obj : FutId) (snd : SendRes) : Sess × List SOut :=
  match findSub obj s.subs with
  | none => (s, [.raise_ .exception])                 -- "subscription no longer active"
  | some sid =>
    if !s.transport then (s, [.raise_ .transportLost]) else
    let l := removeObj obj ((alookup sid s.subs).getD [])
    let s := { s with subs := aupd sid l s.subs }
    if l.isEmpty then
      -- the last handler was removed: unsubscribe from the broker; the (empty) list stays until UNSUBSCRIBED
      request s .unsubscribe (fun f => { fut := f, target := sid })
        (fun id => { typ := .unsubscribe, req := id, uri := sid }) true snd
    else
      -- `txaio.create_future_success(scount)`
      futureSuccess s .unsubscribe (.value (.int l.length))

def findReg (obj : FutId) : List (RegId × RegRec) → Option RegId
  | [] => none
  | (rid, r) :: rest => if r.obj = obj then some rid else findReg obj rest

/-- `Registration.unregister()` → `_unregister(registration)` -/
def apiUnregister (s : Sess) (obj : FutId) (snd : SendRes) : Sess × List SOut :=
  match findReg obj s.regs with
  | none => (s, [.raise_ .exception])                 -- "registration no longer active"
  | some rid =>
    if !s.transport then (s, [.raise_ .transportLost]) else
    request s .unregister (fun f => { fut := f, target := rid })
      (fun id => { typ := .unregister, req := id, uri := rid }) true snd

/-- the request id a pending call future is recorded under (the `request_id` closed over by `canceller`) -/
def findFut (f : FutId) : Table → Option ReqId
  | [] => none
  | (id, r) :: rest => if r.fut = f then some id else findFut f rest

/-- what the canceller of a future of kind `k` sends: only `call` futures have one (`CANCEL(request_id)`) -/
def cancelMsgs (s : Sess) (f : FutId) : Kind → List SOut
  | .call => (match findFut f s.tCall with
              | some id => [.send { typ := .cancel, req := id }]
              | none => [])
  | _ => []

/-- Twisted: `Deferred.cancel()` runs the canceller and then errbacks with `CancelledError`. asyncio: the future
is cancelled at once, the canceller and the user's callbacks run at the next loop iteration. -/
def cancelDo (s : Sess) (f : FutId) (x : Fut) (msgs : List SOut) : Sess × List SOut :=
  match s.mode with
  | .sync =>
    ({ s with futs := s.futs.set f { x with cell := some .cancelled, count := x.count + 1 } },
     msgs ++ [.complete f .cancelled, .callback f .cancelled])
  | .deferred =>
    ({ s with futs := s.futs.set f { x with cell := some .cancelled, count := x.count + 1 },
              cbq := s.cbq ++ msgs ++ [.callback f .cancelled] },
     [.complete f .cancelled])

/-- the user cancels a Deferred/Future obtained from an API call -/
def apiCancel (s : Sess) (f : FutId) : Sess × List SOut :=
  match s.futs[f]? with
  | none => (s, [.unmodelled])
  | some x =>
    if x.cell.isSome then (s, []) else
    if !(cancelMsgs s f x.kind).isEmpty && !s.transport then (s, [.unmodelled]) else
    cancelDo s f x (cancelMsgs s f x.kind)

/-- `join()` -/
def apiJoin (s : Sess) : Sess × List SOut :=
  if s.sessionId.isSome then (s, [.raise_ .exception]) else        -- "session already joined"
  if !s.transport then (s, [.raise_ .exception]) else              -- "no transport set for session"
  ({ s with goodbyeSent := false, ended := false }, [.send { typ := .hello }])

/-- `leave()` -/
def apiLeave (s : Sess) : Sess × List SOut :=
  if s.sessionId.isNone then (s, []) else                          -- "no session to leave"
  if s.goodbyeSent then (s, []) else                               -- "not sending GOODBYE again"
  if !s.transport then (s, [.raise_ .attributeError]) else         -- `self._transport.send` on None
  ({ s with goodbyeSent := true }, [.send { typ := .goodbye }])

/-- `disconnect()` -/
def apiDisconnect (s : Sess) : Sess × List SOut :=
  if s.transport then (s, [.transportClose]) else (s, [])

def apiStep (s : Sess) : Api → Sess × List SOut
  | .call u a k o r => apiCall s u a k o r
  | .publish u a k o r => apiPublish s u a k o r
  | .subscribe h t o r => apiSubscribe s h t o r
  | .register h p o r => apiRegister s h p o r
  | .unsubscribe obj r => apiUnsubscribe s obj r
  | .unregister obj r => apiUnregister s obj r
  | .cancel f => apiCancel s f
  | .join => apiJoin s
  | .leave => apiLeave s
  | .disconnect => apiDisconnect s

/-! ## user code run from `onMessage` -/

def toCaught : SOut → SOut
  | .raise_ e => .caught e
  | o => o

def runCalls (s : Sess) (self : Option FutId) : List HCall → Sess × List SOut
  | [] => (s, [])
  | c :: cs =>
    let a? : Option Api :=
      match c with
      | .api a => some a
      | .unsubSelf => self.map (fun o => Api.unsubscribe o .ok)
    match a? with
    | none => runCalls s self cs
    | some a =>
      let r1 := apiStep s a
      let r2 := runCalls r1.1 self cs
      (r2.1, r1.2.map toCaught ++ r2.2)

/-- run one piece of user code: its calls, then (if it raises) the `_error → onUserError` errback -/
def runAct (s : Sess) (self : Option FutId) (act : HAct) : Sess × List SOut :=
  let r1 := runCalls s self act.calls
  if act.raises then
    let r2 := emitCb r1.1 .userError
    (r2.1, r1.2 ++ r2.2)
  else r1

/-- `dict[k] = v` -/
def insertKw (k : Key) (v : KwVal) : List (Key × KwVal) → List (Key × KwVal)
  | [] => [(k, v)]
  | (k', v') :: r => if k' = k then (k, v) :: r else (k', v') :: insertKw k v r

/-- the keyword arguments one handler is called with: `invoke_kwargs[handler.details_arg] = EventDetails(…)` -/
def handlerKw (r : SubRec) (kw : List (Key × KwVal)) : List (Key × KwVal) :=
  match r.detailsArg with
  | none => kw
  | some k => insertKw k (.details r.obj) kw

/-- the EVENT loop `for subscription in list(self._subscriptions[msg.subscription]): if not subscription.active:
continue …` — over a snapshot of the handler list taken at arrival; a `Subscription` is active iff it is (still)
attached under its id; each handler gets its own copy of the message's kwargs (`dict(msg.kwargs)`). -/
def dispatch (s : Sess) (sub : SubId) (args : Args) (kw : List (Key × KwVal)) : List SubRec → List HAct → Sess × List SOut
  | [], _ => (s, [])
  | r :: rest, beh =>
    if ((alookup sub s.subs).getD []).any (·.obj == r.obj) then
      let r1 := runAct s (some r.obj) (beh.headD {})
      let r2 := dispatch r1.1 sub args kw rest beh.tail
      (r2.1, .invoke r.obj r.h args (handlerKw r kw) :: r1.2 ++ r2.2)
    else dispatch s sub args kw rest beh

def kwOfPayload (p : Payload) : List (Key × KwVal) := (p.kwargs.getD []).map (fun e => (e.1, KwVal.v e.2))

/-! ## `onMessage` -/

/-- reject every outstanding request (`_errback_outstanding_requests`), tables in `Kind.all` order -/
def rejectList (s : Sess) (o : Outcome) : List FutId → Sess × List SOut
  | [] => (s, [])
  | f :: fs =>
    if s.called f then rejectList s o fs else
    let r1 := settle s f o
    let r2 := rejectList r1.1 o fs
    (r2.1, r1.2 ++ r2.2)

def Sess.clearTables (s : Sess) : Sess :=
  { s with tPublish := [], tSubscribe := [], tUnsubscribe := [], tCall := [], tRegister := [], tUnregister := [] }

def Sess.outstanding (s : Sess) : List FutId :=
  (Kind.all.flatMap (fun k => s.tbl k)).map (·.2.fut)

/-! ### lifecycle: hooks, the default bodies, continuations -/

def isRaise : SOut → Bool
  | .raise_ _ => true
  | _ => false

def toLost : SOut → SOut
  | .raise_ e => .lost e
  | o => o

/-- a lifecycle callback as `txaio.as_future` calls it: the override runs the default body (`super()`) if it wants
to, then makes its own calls. A raise of the default body leaves through the override into the result future and is
`lost` (the rest of the override does not run). What the override itself raises (`act.raises`) is handled by the
errback the caller hangs on that future. -/
def runHook (s : Sess) (h : Hook) (arg : Nat) (act : HAct) (body : Sess → Sess × List SOut) : Sess × List SOut :=
  let r1 := if act.dflt then body s else (s, [])
  if r1.2.any isRaise then (r1.1, .hook h arg :: r1.2.map toLost)
  else
    let r2 := runCalls r1.1 none act.calls
    (r2.1, .hook h arg :: r1.2 ++ r2.2)

/-- continuations that start nothing further -/
def runLeaf (s : Sess) : Cont → Sess × List SOut
  | .closeIfTransport => if s.transport then (s, [.transportClose]) else (s, [])
  | .welcome2 act =>
    -- `onJoin`; its failure is swallowed on Twisted ("While firing onJoin") and dropped on asyncio; then 'ready'
    let r1 := runHook s .onJoin 0 act (fun s => (s, []))
    let e : List SOut :=
      if act.raises then (match s.mode with | .sync => [.userError] | .deferred => [.lost .exception]) else []
    (r1.1, r1.2 ++ e ++ [.fire .ready])
  | _ => (s, [.unmodelled])

/-- hang a continuation on an already fired Deferred/Future: now (Twisted) or at the next loop iteration (asyncio) -/
def deferLeaf (s : Sess) (k : Cont) : Sess × List SOut :=
  match s.mode with
  | .sync => runLeaf s k
  | .deferred => ({ s with cbq := s.cbq ++ [.later k] }, [])

/-- default `onLeave`: fail what is outstanding (`_errback_outstanding_requests`), then `disconnect()` if a
transport is (still) there -/
def onLeaveDefault (s : Sess) (reason : Nat) : Sess × List SOut :=
  let r1 := rejectList s.clearTables (.closed reason) s.outstanding
  let r2 := deferLeaf r1.1 .closeIfTransport
  (r2.1, r1.2 ++ r2.2)

/-- default `onDisconnect`: the backstop — fail what is *still* outstanding with TransportLost -/
def onDisconnectDefault (s : Sess) : Sess × List SOut :=
  rejectList s.clearTables (.closed 1) s.outstanding

/-- `d = as_future(self.onLeave, details)` with `success` (fire 'leave') / `_error` (swallow) hung on it -/
def leaveHook (s : Sess) (reason : Nat) (act : HAct) : Sess × List SOut :=
  let r1 := runHook s .onLeave reason act (fun s => onLeaveDefault s reason)
  let r2 := emitCb r1.1 (if act.raises then .userError else .fire .leave)
  (r2.1, r1.2 ++ r2.2)

def disconnectHook (s : Sess) (act : HAct) : Sess × List SOut :=
  let r1 := runHook s .onDisconnect 0 act onDisconnectDefault
  let r2 := emitCb r1.1 (if act.raises then .userError else .fire .disconnect)
  (r2.1, r1.2 ++ r2.2)

/-- `onClose(wasClean)`; `acts = [onLeave, onDisconnect]` -/
def onClose (s : Sess) (acts : List HAct) : Sess × List SOut :=
  let s := { s with transport := false }
  match s.sessionId with
  | some _ =>
    -- `_session_id` is cleared only after `onLeave` has been called
    let r1 := leaveHook s 1 (acts.headD {})
    let r2 := disconnectHook { r1.1 with sessionId := none } (acts.tail.headD {})
    (r2.1, r1.2 ++ r2.2)
  | none => disconnectHook s (acts.tail.headD {})

/-! ### callee side: replies of an invocation -/

/-- `self._transport.send(m)` on a reply path: the outcome is the head of the injected plan -/
def replySend (s : Sess) (m : OutMsg) : Sess × List SOut × SendOut :=
  match s.faults with
  | [] => (s, [.send m], .ok)
  | .ok :: r => ({ s with faults := r }, [.send m], .ok)
  | f :: r => ({ s with faults := r }, [.sendFail m f], f)

/-- the ERROR the `except SerializationError` / `except PayloadExceededError` clauses answer with -/
def fallbackUri : SendOut → Option Uri
  | .serialization => some uInvalidPayload
  | .payloadExceeded => some uPayloadExceeded
  | _ => none

/-- `try: send(reply) except SerializationError: send(ERROR) except PayloadExceededError: send(ERROR)`; any other
class leaves the `success`/`error` closure (and a failure of the fallback `send` does, too) -/
def sendWithFallback (s : Sess) (req : ReqId) (m : OutMsg) : Sess × List SOut :=
  let r1 := replySend s m
  if r1.2.2 = .ok then (r1.1, r1.2.1) else
  match fallbackUri r1.2.2 with
  | none => (r1.1, r1.2.1 ++ [.lost r1.2.2.exc])
  | some u =>
    let r2 := replySend r1.1 { typ := .error, req := req, uri := u }
    (r2.1, r1.2.1 ++ r2.2.1 ++ (if r2.2.2 = .ok then [] else [.lost r2.2.2.exc]))

/-- the `success(res)` / `error(err)` closures of the INVOCATION branch. (On asyncio a raise out of `success` is
routed to `error`, whose `del self._invocations[…]` then raises KeyError: nothing more is sent either way.) -/
def invDone (s : Sess) (req : ReqId) (o : EOut) : Sess × List SOut :=
  match alookup req s.invs with
  | none => (s, [.lost .keyError])
  | some _ =>
    let s := { s with invs := adel req s.invs }
    match o with
    | .value a k =>
      if !s.transport then (s, [])           -- "Skipping result … because transport disconnected"
      else sendWithFallback s req { typ := .yield_, req := req, args := a, kwargs := k }
    | .raised e =>
      -- `_message_from_exception` raising is caught: ERROR(wamp.error.invalid_payload) without the exception's payload
      if !s.transport then (s, [.userError, .lost .attributeError]) else
      let r := sendWithFallback s req
        { typ := .error, req := req, uri := e.errorReply.1, args := e.errorReply.2.1, kwargs := e.errorReply.2.2 }
      (r.1, .userError :: r.2)

/-- `details.progress(v)` -/
def progressSend (s : Sess) (req : ReqId) (v : Val) : Sess × List SOut × SendOut :=
  replySend s { typ := .yield_, req := req, opts := [(.progress, .b true)], args := [v] }

/-- the progress calls an endpoint makes; the first one that raises ends the endpoint -/
def progressLoop (s : Sess) (req : ReqId) : List Val → Sess × List SOut × Bool
  | [] => (s, [], false)
  | v :: vs =>
    if !s.transport then (s, [], true) else      -- `self._transport.send` on None
    let r := progressSend s req v
    if r.2.2 = .ok then
      let r2 := progressLoop r.1 req vs
      (r2.1, r.2.1 ++ r2.2.1, r2.2.2)
    else (r.1, r.2.1, true)

def retOut : Ret → EOut
  | .unit => .value [noneVal] []
  | .val v => .value [v] []
  | .callResult a k => .value a k
  | .pending => .value [noneVal] []

/-- the CHALLENGE `error` closure: onUserError, ABORT, the join attempt is over, `onLeave`, 'leave' -/
def challengeFail (s : Sess) (lact : HAct) : Sess × List SOut :=
  if !s.transport then (s, [.userError, .lost .attributeError]) else
  let r := leaveHook { s with ended := true } 3 lact
  (r.1, [.userError, .send { typ := .abort }] ++ r.2)

def runCont (s : Sess) : Cont → Sess × List SOut
  | .connect act =>
    -- default `onConnect` = `join(realm)`; whatever it raises is dropped with the result future
    runHook s .onConnect 0 act apiJoin
  | .welcome1 sid res jact =>
    match res with
    | .deny => if s.transport then (s, [.send { typ := .abort }]) else (s, [.lost .attributeError])
    | .raised => if s.transport then (s, [.send { typ := .abort }, .userError]) else (s, [.lost .attributeError])
    | .ok =>
      -- the session id is assigned before `self._transport` is touched
      let s1 := { s with sessionId := some sid }
      if !s.transport then (s1, [.lost .attributeError]) else
      let r := deferLeaf s1 (.welcome2 jact)
      (r.1, .fire .join :: r.2)
  | .challenge1 res lact =>
    match res with
    | .sig =>
      if s.transport then (s, [.send { typ := .authenticate }]) else
      (match s.mode with | .sync => (s, [.lost .attributeError]) | .deferred => challengeFail s lact)
    | .none_ =>
      -- "onChallenge user callback did not return a signature": raised inside `success`
      (match s.mode with | .sync => (s, [.lost .exception]) | .deferred => challengeFail s lact)
    | .raised => challengeFail s lact
  | .invDone req o => invDone s req o
  | k => runLeaf s k

def defer (s : Sess) (k : Cont) : Sess × List SOut :=
  match s.mode with
  | .sync => runCont s k
  | .deferred => ({ s with cbq := s.cbq ++ [.later k] }, [])

/-- user code completes / fails / cancels the pending result future of invocation `req` -/
def settleInv (s : Sess) (req : ReqId) (o : EOut) : Sess × List SOut :=
  match alookup req s.invs with
  | none => (s, [])
  | some r =>
    match r.st with
    | .fired => (s, [])
    | .pending => defer { s with invs := aupd req { r with st := .fired } s.invs } (.invDone req o)

/-- `onOpen(transport)`; `acts = [onConnect]` -/
def onOpen (s : Sess) (acts : List HAct) : Sess × List SOut :=
  let r := defer { s with transport := true, ended := false } (.connect (acts.headD {}))
  (r.1, .fire .connect :: r.2)

/-- the value a final RESULT resolves the call with -/
def resultValue (details : Bool) (p : Payload) : RVal :=
  let args := p.args.getD []
  let kwargs := p.kwargs.getD []
  if !kwargs.isEmpty || details then .callResult args kwargs
  else match args with
    | [] => .none_
    | [v] => .single v
    | _ => .callResult args []

/-- the six reply branches share this shape: `if id in table: req = table.pop(id); if is_called: return; …`.
`k` says what happens to the popped record when its future is still open. -/
def popReply (s : Sess) (kind : Kind) (id : ReqId) (k : Sess → Req → Sess × List SOut) : Sess × List SOut :=
  match alookup id (s.tbl kind) with
  | none => (s, [.raise_ .protocolError])
  | some r =>
    let s := s.setTbl kind (adel id (s.tbl kind))
    if s.called r.fut then (s, []) else k s r

/-- ERROR: the first kind (in the order of the `elif` chain) whose code is `request_type` and whose table holds
the id -/
def errorKind (s : Sess) (reqType : Nat) (id : ReqId) : Option Kind :=
  [Kind.call, .publish, .subscribe, .unsubscribe, .register, .unregister].find?
    (fun k => k.code == reqType && (alookup id (s.tbl k)).isSome)

/-- the INVOCATION branch: protocol checks, the endpoint call (with `details.progress` if asked for), the
`InvocationRequest` record, and the `success`/`error` pair hung on the endpoint's result -/
def onInvocation (s : Sess) (beh : List HAct) (req : ReqId) (reg : RegId) (p : Payload) (rp : Bool) : Sess × List SOut :=
  if (alookup req s.invs).isSome then (s, [.raise_ .protocolError])       -- "already invoked"
  else match alookup reg s.regs with
  | none => (s, [.raise_ .protocolError])                                  -- "non-registered registration ID"
  | some g =>
    let a := beh.headD {}
    -- `details.progress` exists iff the endpoint takes details and the caller asked for progressive results
    let hasProg := g.detailsArg.isSome && rp
    let kw := match g.detailsArg with
      | none => kwOfPayload p
      | some k => insertKw k (.callDetails g.obj hasProg) (kwOfPayload p)
    let s0 : Sess := if hasProg then { s with progs := req :: s.progs } else s
    -- the endpoint runs: progress calls, API calls, then it returns or raises
    let r1 := progressLoop s0 req (if hasProg then a.progress else [])
    let r2 := if r1.2.2 then (r1.1, []) else runCalls r1.1 none a.calls
    let outcome : Option EOut :=
      if r1.2.2 then some (.raised .sendExc)
      else if a.raises then some (.raised a.exc)
      else if a.ret = .pending then none else some (retOut a.ret)
    let s3 : Sess := { r2.1 with invs := aset req { reg := reg, st := if outcome.isSome then .fired else .pending } r2.1.invs }
    let r4 := match outcome with
      | some o => defer s3 (.invDone req o)
      | none => (s3, [])
    (r4.1, .endpoint req g.obj g.endpoint (p.args.getD []) kw :: r1.2.1 ++ r2.2 ++ r4.2)

def onEstablished (s : Sess) (beh : List HAct) : InMsg → Sess × List SOut
  | .goodbye =>
    -- reply unless this side initiated (`self._transport.send` on None raises before anything changes);
    -- the session is over; `onLeave`, then 'leave'
    if !s.goodbyeSent && !s.transport then (s, [.raise_ .attributeError]) else
    let out := if s.goodbyeSent then [] else [SOut.send { typ := .goodbye }]
    let r := leaveHook { s with sessionId := none, ended := true } 0 (beh.headD {})
    (r.1, out ++ r.2)
  | .event sub _ p =>
    match alookup sub s.subs with
    | none => (s, [.raise_ .protocolError])
    | some l => dispatch s sub (p.args.getD []) (kwOfPayload p) l beh
  | .published id pub =>
    popReply s .publish id (fun s r => settle s r.fut (.value (.publication pub)))
  | .subscribed id sub =>
    popReply s .subscribe id (fun s r =>
      let rec_ : SubRec := { obj := r.fut, h := r.handler, detailsArg := r.detailsArg, topic := r.uri }
      let subs := match alookup sub s.subs with
        | none => s.subs ++ [(sub, [rec_])]
        | some l => aupd sub (l ++ [rec_]) s.subs
      settle { s with subs := subs } r.fut (.value (.subscription sub)))
  | .unsubscribed id =>
    popReply s .unsubscribe id (fun s r =>
      settle { s with subs := adel r.target s.subs } r.fut (.value (.int 0)))
  | .result id p progress =>
    match alookup id s.tCall with
    | none => (s, [.raise_ .protocolError])
    | some r =>
      if progress then
        -- `if call_request.options and call_request.options.on_progress:` (args / kwargs defaulted to () / {})
        match r.onProgress with
        | none => (s, [])
        | some h =>
          -- `details=True`: `on_progress(CallResult(*args, **kw))`, else `on_progress(*args, **kw)`
          let r1 := runAct s none (beh.headD {})
          (r1.1, .progress h (if r.details then .result (p.args.getD []) (p.kwargs.getD [])
                              else .plain (p.args.getD []) (p.kwargs.getD [])) :: r1.2)
      else
        let s := s.setTbl .call (adel id s.tCall)
        if s.called r.fut then (s, []) else settle s r.fut (.value (resultValue r.details p))
  | .registered id reg =>
    popReply s .register id (fun s r =>
      match alookup reg s.regs with
      | none =>
        settle { s with regs := s.regs ++ [(reg, { obj := r.fut, proc := r.uri, endpoint := r.handler, detailsArg := r.detailsArg })] }
          r.fut (.value (.registration reg))
      | some _ => (s, [.raise_ .protocolError]))
  | .unregistered id reg =>
    if id = 0 then
      -- router-initiated: only checked and logged
      match reg.bind (fun g => alookup g s.regs) with
      | none => (s, [.raise_ .protocolError])
      | some _ => (s, [])
    else
      popReply s .unregister id (fun s r =>
        settle { s with regs := adel r.target s.regs } r.fut (.value .none_))
  | .error reqType id uri p =>
    match errorKind s reqType id with
    | none => (s, [.raise_ .protocolError])
    | some k =>
      match alookup id (s.tbl k) with
      | none => (s, [.raise_ .internal])
      | some r =>
        let s := s.setTbl k (adel id (s.tbl k))
        if s.called r.fut then (s, []) else settle s r.fut (.error uri (p.args.getD []) (p.kwargs.getD []))
  -- `if msg.receive_progress:` — only an explicit `true` asks for progressive results (absent and `false` do not)
  | .invocation req reg p rp => onInvocation s beh req reg p (rp == some true)
  | .interrupt req =>
    -- `txaio.cancel(on_reply)`: a pending result is cancelled (its errback sends the ERROR); a completed one is not
    settleInv s req (.raised .cancelled)
  | .welcome _ | .abort | .challenge | .other => (s, [.raise_ .protocolError])

/-- the branch `if self._session_id is None`: "the first message must be WELCOME, ABORT or CHALLENGE" — unless the
session (or the attempt to join) of this connection is already over (`_session_ended`: `onLeave` has been called and
`join()` was not called again): then every message is a protocol violation.
`beh` = `[onWelcome, onJoin]` / `[onLeave]` / `[onChallenge, onLeave]` -/
def preSessionOpen (s : Sess) (beh : List HAct) : InMsg → Sess × List SOut
  | .welcome sid =>
    let a := beh.headD {}
    let r1 := runHook s .onWelcome 0 a (fun s => (s, []))
    let res : WRes := if a.raises then .raised else if a.ret = .unit then .ok else .deny
    let r2 := defer r1.1 (.welcome1 sid res (beh.tail.headD {}))
    (r2.1, r1.2 ++ r2.2)
  | .abort => leaveHook { s with ended := true } 2 (beh.headD {})
  | .challenge =>
    let a := beh.headD {}
    let r1 := runHook s .onChallenge 0 a (fun s => (s, []))
    let res : CRes := if a.raises then .raised else if a.ret = .unit then .none_ else .sig
    let r2 := defer r1.1 (.challenge1 res (beh.tail.headD {}))
    (r2.1, r1.2 ++ r2.2)
  | _ => (s, [.raise_ .protocolError])

def preSession (s : Sess) (beh : List HAct) (m : InMsg) : Sess × List SOut :=
  if s.ended then (s, [.raise_ .protocolError]) else preSessionOpen s beh m

def onMessage (s : Sess) (m : InMsg) (beh : List HAct) : Sess × List SOut :=
  match s.sessionId with
  | none => preSession s beh m
  | some _ => onEstablished s beh m

/-! ## events -/

inductive SEv
  | api (a : Api)
  | msg (m : InMsg) (beh : List HAct)
  | pump                              -- the event loop runs until it is idle (no-op on Twisted)
  | tick                              -- exactly one loop iteration (no-op on Twisted)
  | open_ (acts : List HAct)          -- `onOpen(transport)`; `acts = [onConnect]`
  | closed (acts : List HAct)         -- `onClose(wasClean)`; `acts = [onLeave, onDisconnect]`
  | fault (l : List SendOut)          -- environment: the outcomes of the next `send()` calls on reply paths
  | resolve (req : ReqId) (r : Ret)   -- user code completes the pending result of invocation `req`
  | fail (req : ReqId) (e : ExcK)     -- … or fails it
  | lateProgress (req : ReqId) (v : Val)   -- user code calls a `details.progress` it kept (U2)
deriving DecidableEq, Repr

/-- one loop iteration: what was queued when it started, in order; what these callbacks queue waits for the next -/
def tickList : Sess → List SOut → Sess × List SOut
  | s, [] => (s, [])
  | s, .later k :: rest =>
    let r1 := runCont s k
    let r2 := tickList r1.1 rest
    (r2.1, r1.2 ++ r2.2)
  | s, o :: rest =>
    let r2 := tickList s rest
    (r2.1, o :: r2.2)

def tick (s : Sess) : Sess × List SOut := tickList { s with cbq := [] } s.cbq

/-- iterate until the queue is empty (continuations nest three deep at most) -/
def drain : Nat → Sess → Sess × List SOut
  | 0, s => (s, [])
  | n + 1, s =>
    if s.cbq.isEmpty then (s, []) else
    let r1 := tick s
    let r2 := drain n r1.1
    (r2.1, r1.2 ++ r2.2)

/-- user code calls a `details.progress` callable it kept from invocation `req` (nothing ties it to `_invocations`) -/
def lateProgress (s : Sess) (req : ReqId) (v : Val) : Sess × List SOut :=
  if !s.progs.contains req then (s, [.unmodelled]) else
  if !s.transport then (s, [.caught .attributeError]) else
  let r := progressSend s req v
  (r.1, r.2.1 ++ (if r.2.2 = .ok then [] else [.caught r.2.2.exc]))

def step (s : Sess) : SEv → Sess × List SOut
  | .api a => apiStep s a
  | .msg m beh => onMessage s m beh
  | .pump => drain 8 s
  | .tick => tick s
  | .open_ acts => onOpen s acts
  | .closed acts => onClose s acts
  | .fault l => ({ s with faults := s.faults ++ l }, [])
  | .resolve req r => settleInv s req (retOut r)
  | .fail req e => settleInv s req (.raised e)
  | .lateProgress req v => lateProgress s req v

/-- run a history; one output list per event -/
def run (s : Sess) : List SEv → Sess × List (List SOut)
  | [] => (s, [])
  | e :: es =>
    let r1 := step s e
    let r2 := run r1.1 es
    (r2.1, r1.2 :: r2.2)

def runState (s : Sess) (h : List SEv) : Sess := (run s h).1
def runOuts (s : Sess) (h : List SEv) : List SOut := (run s h).2.flatten

end Abverif.Session
