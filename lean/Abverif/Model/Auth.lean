import Abverif.Model.Crypto.Pbkdf2
import Abverif.Model.Crypto.Base64
import Abverif.Model.Crypto.Base32
import Abverif.Model.Crypto.Hex
import Abverif.Model.Utf8Spec
/-
C19 — models of the authentication helpers of `autobahn/wamp/auth.py`, `autobahn/wamp/cryptosign.py`
and `autobahn.util.xor`. Text (`str` that is ASCII by construction: base64, hex, decimal) is modelled
as its octets; a `str` that may hold any character (the fields of the SCRAM auth message) is a `Text`,
the list of its code points, and `.encode("utf8")` is `encodeUtf8` (the RFC 3629 encoder of
`Model/Utf8Spec.lean`). Every place where the Python raises is an explicit error constructor.

  Cra.sign            compute_wcs(key, challenge)
  Cra.pbkdf2          pbkdf2(data, salt, iterations, keylen)          (hashfunc = default "sha256")
  Cra.deriveKey       derive_key(secret, salt, iterations, keylen)
  Cra.onChallenge     AuthWampCra.on_challenge
  Totp.compute        the HOTP value compute_totp() derives from (key, interval)
  Totp.computeAt      compute_totp(secret, offset) at time.time() = now
  Totp.check          check_totp(secret, ticket) at time.time() = now
  Scram.*             AuthScram.on_challenge / on_welcome over abstract hash, HMAC and KDF
  Cryptosign.*        _format_challenge / _sign_challenge / CryptosignKey.sign_challenge over an abstract signer
-/
namespace Abverif.Auth
open Abverif.Crypto

inductive Err where
  | valueError          -- ValueError
  | binasciiError       -- binascii.Error (a ValueError subclass; kept apart because the code does)
  | exception           -- plain `Exception(...)` raised by the anchored code itself
  | assertionError
  | typeError
  | structError         -- struct.error
  | unicodeEncodeError
  | runtimeError
deriving Repr, DecidableEq

def Err.name : Err → String
  | .valueError => "ValueError"
  | .binasciiError => "Error"
  | .exception => "Exception"
  | .assertionError => "AssertionError"
  | .typeError => "TypeError"
  | .structError => "error"
  | .unicodeEncodeError => "UnicodeEncodeError"
  | .runtimeError => "RuntimeError"

/-- `autobahn.util.xor(d1, d2)`: raises `Exception` when the lengths differ -/
def xor (a b : Bytes) : Except Err Bytes :=
  if a.length = b.length then .ok (xorBytes a b) else .error .exception

/-- digits of `n`, least significant pushed first onto `acc` (`fuel` > number of digits) -/
def decimalAux : Nat → Nat → Bytes → Bytes
  | 0, _, acc => acc
  | fuel + 1, n, acc =>
    let acc' := UInt8.ofNat (48 + n % 10) :: acc
    if n / 10 = 0 then acc' else decimalAux fuel (n / 10) acc'

/-- `str(n)` / `f"{n}"` for a non-negative `int`, as ASCII octets -/
def decimal (n : Nat) : Bytes := decimalAux (n + 1) n []

/-- a Python `str` as the list of its code points -/
abbrev Text := List Nat

/-- the `str` whose code points are the given octets (ASCII / Latin-1 text) -/
def Text.ofOctets (bs : Bytes) : Text := bs.map (·.toNat)

/-- a literal of the source as a `str` -/
def Text.lit (s : String) : Text := Text.ofOctets (ascii s)

/-- `s.encode("utf8")`: RFC 3629 encoding of every code point; a lone surrogate (which a Python `str` may
hold, e.g. from a JSON `\ud800` escape) raises `UnicodeEncodeError`. Values above U+10FFFF are not code
points and cannot occur in a `str`; they are refused alike. -/
def encodeUtf8 (t : Text) : Except Err Bytes :=
  if t.all Utf8.isScalar then .ok (Utf8.encodeAll t) else .error .unicodeEncodeError

/-- a `str` handed to `base64.b64decode`: the octets `Base64.decodeStr` takes (code points above 255 are
clipped to 255: every non-ASCII character makes `b64decode` raise `ValueError` alike) -/
def Text.clip (t : Text) : Bytes := t.map (fun c => UInt8.ofNat (min c 255))

/-! ## WAMP-CRA -/
namespace Cra

/-- `compute_wcs(key, challenge)` on octets: `b2a_base64(hmac.new(key, challenge, sha256).digest()).strip()` -/
def sign (key challenge : Bytes) : Bytes := Base64.encode (Hmac.sha256 key challenge)

/-- `pbkdf2(data, salt, iterations, keylen)` with the default hash (`cryptography`'s PBKDF2HMAC/SHA256);
`iterations = 0` is a `ValueError`. (negative or ≥ 2^31 arguments are outside the model.) -/
def pbkdf2 (data salt : Bytes) (iterations keylen : Nat) : Except Err Bytes :=
  if iterations = 0 then .error .valueError
  else .ok (Pbkdf2.hmacSha256 data salt iterations keylen)

/-- `derive_key(secret, salt, iterations, keylen)` (arguments already UTF-8 octets) -/
def deriveKey (secret salt : Bytes) (iterations keylen : Nat) : Except Err Bytes :=
  (pbkdf2 secret salt iterations keylen).map Base64.encode

/-- the `salt/iterations/keylen` attributes of a CHALLENGE, when present -/
structure Salting where
  salt : Bytes
  iterations : Nat
  keylen : Nat

/-- `AuthWampCra.on_challenge`: the key is the secret, or — when the challenge carries a salt — the
*base64 text* of the PBKDF2-derived key. -/
def onChallenge (secret : Bytes) (salting : Option Salting) (challenge : Bytes) : Except Err Bytes :=
  match salting with
  | none => .ok (sign secret challenge)
  | some s => (deriveKey secret s.salt s.iterations s.keylen).map (fun k => sign k challenge)

end Cra

/-! ## TOTP -/
namespace Totp

/-- big-endian number of 4 octets -/
def be32val (a b c d : UInt8) : Nat := a.toNat * 2 ^ 24 + b.toNat * 2 ^ 16 + c.toNat * 2 ^ 8 + d.toNat

/-- RFC 4226 §5.3 dynamic truncation of a digest (at least 20 octets as for SHA-1; `0` otherwise —
HMAC-SHA1 digests always have 20): offset = low nibble of octet 19, 31 bits from there. -/
def dt (digest : Bytes) : Nat :=
  let o := (digest.getD 19 0).toNat % 16
  be32val (digest.getD o 0) (digest.getD (o + 1) 0) (digest.getD (o + 2) 0) (digest.getD (o + 3) 0) % 2 ^ 31

/-- six decimal digits, zero padded (`f"{token:06d}"` for `token < 10^6`) -/
def sixDigits (n : Nat) : Bytes :=
  [n / 100000 % 10, n / 10000 % 10, n / 1000 % 10, n / 100 % 10, n / 10 % 10, n % 10].map
    (fun d => UInt8.ofNat (48 + d))

/-- the numeric token for the raw key and counter -/
def token (key : Bytes) (counter : Nat) : Nat := dt (Hmac.sha1 key (be64 counter)) % 1000000

/-- HOTP(key, counter) as 6 digits -/
def compute (key : Bytes) (counter : Nat) : Bytes := sixDigits (token key counter)

/-- `compute_totp(secret, offset)` when `time.time()` returns `now` (whole seconds; the code takes `int()`):
base32 decoding may fail (`binascii.Error`), `struct.pack(">Q", interval)` fails outside `0 ≤ interval < 2^64`. -/
def computeAt (secret : Bytes) (now : Nat) (offset : Int) : Except Err Bytes :=
  match Base32.pyDecode secret with
  | none => .error .binasciiError
  | some key =>
    let interval : Int := offset + (now / 30 : Nat)
    if interval < 0 ∨ interval ≥ 2 ^ 64 then .error .structError
    else .ok (compute key interval.toNat)

/-- `check_totp(secret, ticket)`: offsets 0, +1, −1 in that order; the first error propagates -/
def check (secret : Bytes) (now : Nat) (ticket : Bytes) : Except Err Bool := do
  let t0 ← computeAt secret now 0
  if ticket = t0 then return true
  let t1 ← computeAt secret now 1
  if ticket = t1 then return true
  let t2 ← computeAt secret now (-1)
  return (ticket = t2)

/-- the window on raw key and counter (no decoding, no range errors): what `check` computes for `c ≥ 1` -/
def checkWindow (key : Bytes) (c : Nat) (ticket : Bytes) : Bool :=
  ticket = compute key c || ticket = compute key (c + 1) || ticket = compute key (c - 1)

end Totp

/-! ## WAMP-SCRAM -/
namespace Scram

/-- the primitives the exchange is built from; the theorems hold for any choice -/
structure Prims where
  hash : Bytes → Bytes
  hmac : Bytes → Bytes → Bytes

def sha256Prims : Prims := ⟨Sha256.hash, Hmac.sha256⟩

/-- the attributes of the CHALLENGE that enter the auth message, as octets (the UTF-8 octets of the
`str` values; for the base64 / decimal text the code sees in practice these are the characters) -/
structure Challenge where
  serverNonce : Bytes
  salt : Bytes          -- base64 text as received
  iterations : Nat
  channelBinding : Bytes

/-- the same attributes as the Python `str` values `on_challenge` reads from `challenge.extra` -/
structure ChallengeStr where
  serverNonce : Text
  salt : Text
  iterations : Nat
  channelBinding : Text

def comma : UInt8 := 44

def clientFirstBare (authid clientNonce : Bytes) : Bytes :=
  ascii "n=" ++ authid ++ ascii ",r=" ++ clientNonce

def serverFirst (ch : Challenge) : Bytes :=
  ascii "r=" ++ ch.serverNonce ++ ascii ",s=" ++ ch.salt ++ ascii ",i=" ++ decimal ch.iterations

def clientFinalNoProof (ch : Challenge) : Bytes :=
  ascii "c=" ++ ch.channelBinding ++ ascii ",r=" ++ ch.serverNonce

/-- the octets of the auth message for fields given as octets:
`client_first_bare , server_first , client_final_no_proof` -/
def authMessageText (authid clientNonce : Bytes) (ch : Challenge) : Bytes :=
  clientFirstBare authid clientNonce ++ comma :: (serverFirst ch ++ comma :: clientFinalNoProof ch)

/-- `"{client_first_bare},{server_first},{client_final_no_proof}".format(...)`: the `str` before it is encoded
(`authid` is the SASLprep'd authid) -/
def authMessageStr (authid clientNonce : Text) (ch : ChallengeStr) : Text :=
  Text.lit "n=" ++ authid ++ Text.lit ",r=" ++ clientNonce
    ++ Text.lit ",r=" ++ ch.serverNonce ++ Text.lit ",s=" ++ ch.salt
    ++ Text.lit ",i=" ++ Text.ofOctets (decimal ch.iterations)
    ++ Text.lit ",c=" ++ ch.channelBinding ++ Text.lit ",r=" ++ ch.serverNonce

/-- `(...).encode("utf8")` (RFC 5802 §5.1: the user name, hence the auth message, is UTF-8) -/
def authMessage (authid clientNonce : Text) (ch : ChallengeStr) : Except Err Bytes :=
  encodeUtf8 (authMessageStr authid clientNonce ch)

def clientKey (P : Prims) (saltedPassword : Bytes) : Bytes := P.hmac saltedPassword (ascii "Client Key")
def storedKey (P : Prims) (saltedPassword : Bytes) : Bytes := P.hash (clientKey P saltedPassword)
def clientSignature (P : Prims) (saltedPassword am : Bytes) : Bytes := P.hmac (storedKey P saltedPassword) am
def serverKey (P : Prims) (saltedPassword : Bytes) : Bytes := P.hmac saltedPassword (ascii "Server Key")
def serverSignature (P : Prims) (saltedPassword am : Bytes) : Bytes := P.hmac (serverKey P saltedPassword) am

/-- `client_proof = xor_array(client_key, client_signature)` (raw; `on_challenge` returns its base64) -/
def clientProof (P : Prims) (saltedPassword am : Bytes) : Except Err Bytes :=
  xor (clientKey P saltedPassword) (clientSignature P saltedPassword am)

/-- what the client keeps between CHALLENGE and WELCOME -/
structure Session where
  saltedPassword : Bytes
  authMessage : Bytes

/-- `AuthScram.on_challenge` after the KDF: the KDF output is an input (abstract KDF) -/
def onChallenge (P : Prims) (authid clientNonce : Text) (ch : ChallengeStr) (saltedPassword : Bytes) :
    Except Err (Bytes × Session) := do
  let am ← authMessage authid clientNonce ch
  let proof ← clientProof P saltedPassword am
  pure (Base64.encode proof, ⟨saltedPassword, am⟩)

/-- the KDF selection of `on_challenge`. `kdfArgon` is the abstract Argon2id (its result is *the unpadded
base64 text* of the 32-octet tag, which is what `_hash_argon2id13_secret` returns; it decodes the salt
itself). For `"pbkdf2"` the salt text is base64-decoded (`base64.b64decode(salt)`, lenient, `ValueError` /
`binascii.Error` as CPython raises them) and SaltedPassword is the raw 32-octet output of
PBKDF2-HMAC-SHA256(password, salt, iterations) — RFC 5802 §3 `Hi()` with SHA-256. -/
inductive Kdf where
  | argon2id13 (memory : Option Nat)
  | pbkdf2
  | other

/-- `_hash_pbkdf2_secret(password, base64.b64decode(salt), iterations)` -/
def pbkdf2Secret (password saltB64 : Bytes) (iterations : Nat) : Except Err Bytes :=
  match Base64.decodeStr saltB64 with
  | .ok salt => Cra.pbkdf2 password salt iterations 32
  | .valueError => .error .valueError
  | .binasciiError => .error .binasciiError

def saltedPassword (kdfArgon : Bytes → Bytes → Nat → Nat → Except Err Bytes)
    (kdf : Kdf) (password saltB64 : Bytes) (iterations : Nat) : Except Err Bytes :=
  match kdf with
  | .argon2id13 none => .error .valueError
  | .argon2id13 (some m) => kdfArgon password saltB64 iterations m
  | .pbkdf2 => pbkdf2Secret password saltB64 iterations
  | .other => .error .runtimeError

inductive Welcome where
  | accept                 -- `return None`
  | reject                 -- `return "Verification of server SCRAM signature failed"`
  | raised (e : Err)       -- base64 decoding raised
deriving Repr, DecidableEq

/-- `AuthScram.on_welcome`: `alleged` is the text of `authextra["scram_server_signature"]` -/
def onWelcome (P : Prims) (s : Session) (alleged : Bytes) : Welcome :=
  match Base64.decodeStr alleged with
  | .valueError => .raised .valueError
  | .binasciiError => .raised .binasciiError
  | .ok sig => if serverSignature P s.saltedPassword s.authMessage = sig then .accept else .reject

/-- the server side of RFC 5802 §3: recover ClientKey from the proof and compare its hash with StoredKey -/
def serverVerify (P : Prims) (storedKey am proof : Bytes) : Bool :=
  P.hash (xorBytes proof (P.hmac storedKey am)) = storedKey

end Scram

/-! ## WAMP-cryptosign -/
namespace Cryptosign

inductive Binding where
  | none          -- channel_id_type is None
  | tlsUnique     -- "tls-unique"
  | other         -- any other string
deriving Repr, DecidableEq

/-- `_format_challenge(challenge, channel_id_raw, channel_id_type)`; `challengeHex` is the text of
`challenge.extra["challenge"]` -/
def format (challengeHex : Bytes) (channelId : Option Bytes) (binding : Binding) : Except Err Bytes :=
  if challengeHex.length ≠ 64 then .error .exception
  else match HexText.decode challengeHex with
    | none => .error .binasciiError
    | some raw =>
      match binding with
      | .tlsUnique =>
        match channelId with
        | none => .error .typeError                       -- len(None)
        | some cid => if cid.length ≠ 32 then .error .assertionError else xor raw cid
      | .none => .ok raw
      | .other => .error .assertionError

/-- `_sign_challenge(data, signer)`: hex signature followed by the hex of the signed data -/
def signature (sign : Bytes → Bytes) (data : Bytes) : Bytes :=
  HexText.encode (sign data) ++ HexText.encode data

/-- `CryptosignKey.sign_challenge` -/
def signChallenge (sign : Bytes → Bytes) (challengeHex : Bytes) (channelId : Option Bytes) (binding : Binding) :
    Except Err Bytes :=
  (format challengeHex channelId binding).map (signature sign)

/-- what a router does with the 192-character answer: split, decode, verify, and compare the signed
data with what it expects for its challenge and its view of the channel -/
def routerAccepts (verify : Bytes → Bytes → Bool) (expected : Bytes) (answer : Bytes) : Bool :=
  match HexText.decode (answer.take 128), HexText.decode (answer.drop 128) with
  | some sig, some data => data = expected && verify data sig
  | _, _ => false

end Cryptosign
end Abverif.Auth
