import Abverif.Model.UriSpec
import Abverif.Generated.UriPatterns
/-
`check_or_raise_uri` (wamp/message.py): the pattern selection by (strict, allow_empty_components, allow_last_empty)
and the match against the patterns *generated from the source*.
-/
namespace Abverif.Uri
open Abverif.Rx

/-- the `if strict: … else: …` ladder of `check_or_raise_uri` -/
def pat (strict allowEmpty allowLastEmpty : Bool) : Pat :=
  if strict then
    if allowLastEmpty then _URI_PAT_STRICT_LAST_EMPTY
    else if allowEmpty then _URI_PAT_STRICT_EMPTY
    else _URI_PAT_STRICT_NON_EMPTY
  else
    if allowLastEmpty then _URI_PAT_LOOSE_LAST_EMPTY
    else if allowEmpty then _URI_PAT_LOOSE_EMPTY
    else _URI_PAT_LOOSE_NON_EMPTY

/-- `pat.match(value)` is not None, i.e. `check_or_raise_uri` does not raise (for a `str` value) -/
def check (strict allowEmpty allowLastEmpty : Bool) (s : List Char) : Bool :=
  (pat strict allowEmpty allowLastEmpty).matches s

def customAttr (s : List Char) : Bool := _CUSTOM_ATTRIBUTE.matches s

def realmName (s : List Char) : Bool := _URI_PAT_REALM_NAME.matches s
def realmEth (s : List Char) : Bool := _URI_PAT_REALM_NAME_ETH.matches s
def realmEns (s : List Char) : Bool := _URI_PAT_REALM_NAME_ENS.matches s
def realmEnsReverse (s : List Char) : Bool := _URI_PAT_REALM_NAME_ENS_REVERSE.matches s

end Abverif.Uri
