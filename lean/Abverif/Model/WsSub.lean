import Abverif.Model.Basic
import Abverif.Generated.WampTransport
/-
C13 — WAMP-over-WebSocket subprotocol negotiation (wamp/websocket.py):
`parseSubprotocolIdentifier`, `WampWebSocketServerProtocol.onConnect` (first commonly supported
`wamp.2.*` subprotocol in the client's order), `WampWebSocketClientProtocol.onConnect`, the
factory's `_protocols` list, the exception-to-close-status mapping of `onMessage` / `onOpen`.

Text is `List Char`, restricted to ASCII: Python's `int()` also accepts non-ASCII decimal digits and
non-ASCII white space; the harness generates ASCII only and says so.
-/
namespace Abverif.WsSub
open Abverif
open Abverif.Gen

abbrev Str := List Char

/-! ## Python string primitives used by the code -/

/-- `s.split(".")` -/
def splitDot : Str → List Str
  | [] => [[]]
  | c :: cs =>
    match splitDot cs with
    | [] => [[c]]                                   -- not reached: the result is never empty
    | h :: t => if c = '.' then [] :: h :: t else (c :: h) :: t

/-- `".".join(l)` -/
def joinDot : List Str → Str
  | [] => []
  | [a] => a
  | a :: b :: t => a ++ '.' :: joinDot (b :: t)

/-- white space as `int()` strips it (ASCII part of `str.isspace`) -/
def isSpace (c : Char) : Bool :=
  c = ' ' || c = '\t' || c = '\n' || c = '\r' || c.toNat = 11 || c.toNat = 12 || (28 ≤ c.toNat && c.toNat ≤ 31)

def dropSpace : Str → Str
  | [] => []
  | c :: cs => if isSpace c then dropSpace cs else c :: cs

def digitVal (c : Char) : Option Nat :=
  if '0' ≤ c ∧ c ≤ '9' then some (c.toNat - 48) else none

/-- digits with single underscores *between* digits; stops at the first other character.
`prevDigit`: the previous character was a digit. Returns value and the unread rest; `none` = malformed. -/
def digitsLoop : Nat → Bool → Str → Option (Nat × Str)
  | acc, prev, [] => if prev then some (acc, []) else none
  | acc, prev, c :: cs =>
    match digitVal c with
    | some d => digitsLoop (acc * 10 + d) true cs
    | none =>
      if c = '_' then
        (if prev then
          (match cs with
           | c2 :: _ => if (digitVal c2).isSome then digitsLoop acc false cs else none
           | [] => none)
         else none)
      else if prev then some (acc, c :: cs) else none

/-- `int(s)` for ASCII `s`; `none` = `ValueError` -/
def pyInt (s : Str) : Option Int :=
  let s1 := dropSpace s
  let (neg, s2) : Bool × Str :=
    match s1 with
    | '+' :: r => (false, r)
    | '-' :: r => (true, r)
    | r => (false, r)
  match s2 with
  | [] => none
  | c :: _ =>
    if (digitVal c).isNone then none
    else
      match digitsLoop 0 false s2 with
      | none => none
      | some (v, rest) =>
        if dropSpace rest = [] then some (if neg then - (Int.ofNat v) else Int.ofNat v) else none

/-! ## `parseSubprotocolIdentifier` -/

/-- `none` is the `(None, None)` answer (any exception inside is swallowed by the bare `except`) -/
def parseSub (s : Str) : Option (Int × Str) :=
  match splitDot s with
  | p0 :: p1 :: rest =>
    if p0 ≠ WampTransport.wsWord then none
    else
      match pyInt p1 with
      | none => none
      | some v => some (v, joinDot rest)
  | _ => none

/-! ## server: `onConnect(request)` -/

inductive Sel
  | chosen (proto : Str) (ser : Str)     -- `return subprotocol, headers`; `_serializer = copy(factory._serializers[ser])`
  | deny                                  -- `raise ConnectionDeny(BAD_REQUEST, …)` → HTTP 400
  | fallback (ser : Option Str)           -- non-strict: assume json; `none` = `KeyError` (no json serializer) → HTTP 500
deriving DecidableEq, Repr

def good (supported : List Str) (p : Str) : Option Str :=
  match parseSub p with
  | some (v, sid) => if v = Int.ofNat WampTransport.wsVersion ∧ supported.contains sid then some sid else none
  | none => none

def serverOnConnect (strict : Bool) (supported : List Str) : List Str → Sel
  | [] =>
    if strict then .deny
    else .fallback (if supported.contains ['j', 's', 'o', 'n'] then some ['j', 's', 'o', 'n'] else none)
  | p :: ps =>
    match good supported p with
    | some sid => .chosen p sid
    | none => serverOnConnect strict supported ps

/-! ## client: factory protocols and `onConnect(response)` -/

/-- `self._protocols = [f"wamp.2.{ser.SERIALIZER_ID}" for ser in serializers]` -/
def protocolsOf (sers : List Str) : List Str := sers.map (WampTransport.wsPrefix ++ ·)

inductive COut
  | attached (ser : Str)
  | refused              -- `raise Exception("The server does not speak any of …")` → connection failed
  | keyError             -- `self.factory._serializers[serializer_id]` missing
deriving DecidableEq, Repr

def clientOnConnect (strict : Bool) (mySers : List Str) (resp : Option Str) : COut :=
  let protos := protocolsOf mySers
  let inList : Bool := match resp with | some p => protos.contains p | none => false
  if ¬ inList then
    if strict then .refused
    else (if mySers.contains ['j', 's', 'o', 'n'] then .attached ['j', 's', 'o', 'n'] else .keyError)
  else
    match resp with
    | none => .refused
    | some p =>
      match parseSub p with
      | some (_, sid) => if mySers.contains sid then .attached sid else .keyError
      | none => .keyError     -- `_serializers[None]`

/-! ## framing: text for JSON, binary for the others (`IObjectSerializer.BINARY`) -/

def binaryOf (ser : Str) : Option Bool :=
  (WampTransport.serializers.find? (fun r => r.1 = ser || r.2.2.2 = ser)).map (fun r => r.2.2.1)

/-! ## Spec: "the first protocol in the client's list that is `wamp.2.<s>` with `s` supported" -/

def IsGood (supported : List Str) (p : Str) (sid : Str) : Prop :=
  parseSub p = some ((2 : Int), sid) ∧ sid ∈ supported

/-- `p` is the first good element of `l` -/
def FirstGood (supported : List Str) (l : List Str) (p : Str) (sid : Str) : Prop :=
  ∃ pre post, l = pre ++ p :: post ∧ IsGood supported p sid ∧ ∀ q ∈ pre, ∀ s, ¬ IsGood supported q s

/-! ## exception → close status (`onMessage`, `onOpen`, `abort`, `close`) -/

inductive WExc | protocolError | other
deriving DecidableEq, Repr

/-- `onMessage`: `except ProtocolError → _bailout(CLOSE_STATUS_CODE_PROTOCOL_ERROR)`,
`except Exception → _bailout(CLOSE_STATUS_CODE_INTERNAL_ERROR)` -/
def closeCodeOnMessage : WExc → Nat
  | .protocolError => WampTransport.wsCloseProtocolError
  | .other => WampTransport.wsCloseInternalError

def closeCodeOnOpen : Nat := WampTransport.wsCloseOnOpenError

end Abverif.WsSub
