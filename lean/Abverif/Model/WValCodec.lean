import Abverif.Model.WVal
/-
Line-protocol encoding of `WVal` as ONE whitespace-free ASCII token (driver ⇄ harness; see vlib/wval.py):

  n | t | f                 None / True / False
  i-12                      int (arbitrary size, decimal)
  ~1.5~                     float, Python repr between tildes
  "a b\U0001f600"      str; every char outside 0x21..0x7e and `"` `\` is escaped (\uXXXX, \UXXXXXXXX)
  <6162>                    bytes (hex)
  [v,v]                     list
  {"k":v,"l":w}             dict with str keys (order kept)
  {!"k":v}                  dict that also has non-str keys (only the str-keyed part travels)
  @Decimal:1t;              any other object: type name, truthiness 0/1, then `t`, `f` or `-` (compares equal to True, to False, to neither)
-/
namespace Abverif.Wamp.Codec

def hexDigit (n : Nat) : Char := if n < 10 then Char.ofNat (48 + n) else Char.ofNat (87 + n)

def hexN (width : Nat) (n : Nat) : List Char :=
  (List.range width).reverse.map (fun i => hexDigit (n / 16 ^ i % 16))

def escChar (c : Char) : List Char :=
  if c == '"' then ['\\', '"']
  else if c == '\\' then ['\\', '\\']
  else if 0x21 ≤ c.toNat && c.toNat ≤ 0x7e then [c]
  else if c.toNat < 0x10000 then '\\' :: 'u' :: hexN 4 c.toNat
  else '\\' :: 'U' :: hexN 8 c.toNat

def renderStr (s : Str) : List Char := '"' :: s.flatMap escChar ++ ['"']

def natDigits (n : Nat) : List Char := (toString n).toList

mutual
def render : WVal → List Char
  | .null => ['n']
  | .bool true => ['t']
  | .bool false => ['f']
  | .int i => 'i' :: (if i < 0 then '-' :: natDigits i.natAbs else natDigits i.natAbs)
  | .float r => '~' :: r ++ ['~']
  | .str s => renderStr s
  | .bytes b => '<' :: b.flatMap Hex.ofByte ++ ['>']
  | .list xs => '[' :: renderL xs ++ [']']
  | .dict kvs => '{' :: renderD kvs ++ ['}']
  | .dictNS kvs => '{' :: '!' :: renderD kvs ++ ['}']
  | .other ty t e => '@' :: ty ++ [':', if t then '1' else '0', (match e with | some true => 't' | some false => 'f' | none => '-'), ';']
def renderL : List WVal → List Char
  | [] => []
  | [x] => render x
  | x :: xs => render x ++ ',' :: renderL xs
def renderD : List (Str × WVal) → List Char
  | [] => []
  | [(k, v)] => renderStr k ++ ':' :: render v
  | (k, v) :: kvs => renderStr k ++ ':' :: render v ++ ',' :: renderD kvs
end

/-! ### parser (fuel = number of input chars; every recursive call consumes input) -/

def hexVal (c : Char) : Option Nat := Hex.val c

def parseHexN : Nat → List Char → Option (Nat × List Char)
  | 0, cs => some (0, cs)
  | n + 1, c :: cs => do
      let v ← hexVal c
      let (r, rest) ← parseHexN n cs
      pure (v * 16 ^ n + r, rest)
  | _, [] => none

/-- after the opening quote -/
def parseStrBody : Nat → List Char → List Char → Option (Str × List Char)
  | 0, _, _ => none
  | _ + 1, _, [] => none
  | _ + 1, acc, '"' :: cs => some (acc.reverse, cs)
  | fuel + 1, acc, '\\' :: '"' :: cs => parseStrBody fuel ('"' :: acc) cs
  | fuel + 1, acc, '\\' :: '\\' :: cs => parseStrBody fuel ('\\' :: acc) cs
  | fuel + 1, acc, '\\' :: 'u' :: cs => do
      let (n, rest) ← parseHexN 4 cs
      parseStrBody fuel (Char.ofNat n :: acc) rest
  | fuel + 1, acc, '\\' :: 'U' :: cs => do
      let (n, rest) ← parseHexN 8 cs
      parseStrBody fuel (Char.ofNat n :: acc) rest
  | _ + 1, _, '\\' :: _ => none
  | fuel + 1, acc, c :: cs => parseStrBody fuel (c :: acc) cs

def spanDigits : List Char → List Char × List Char
  | c :: cs => if c.isDigit then let (a, b) := spanDigits cs; (c :: a, b) else ([], c :: cs)
  | [] => ([], [])

def digitsToNat (ds : List Char) : Nat := ds.foldl (fun a c => a * 10 + (c.toNat - 48)) 0

def parseHexBytes : Nat → List Char → Option (Bytes × List Char)
  | _, '>' :: cs => some ([], cs)
  | fuel + 1, a :: b :: cs => do
      let x ← hexVal a
      let y ← hexVal b
      let (r, rest) ← parseHexBytes fuel cs
      pure (UInt8.ofNat (x * 16 + y) :: r, rest)
  | _, _ => none

def spanUntil (stop : Char) : List Char → Option (List Char × List Char)
  | [] => none
  | c :: cs => if c == stop then some ([], cs) else do
      let (a, b) ← spanUntil stop cs
      pure (c :: a, b)

mutual
def parseVal : Nat → List Char → Option (WVal × List Char)
  | 0, _ => none
  | _ + 1, 'n' :: cs => some (.null, cs)
  | _ + 1, 't' :: cs => some (.bool true, cs)
  | _ + 1, 'f' :: cs => some (.bool false, cs)
  | _ + 1, 'i' :: '-' :: cs =>
      let (ds, rest) := spanDigits cs
      if ds.isEmpty then none else some (.int (-(Int.ofNat (digitsToNat ds))), rest)
  | _ + 1, 'i' :: cs =>
      let (ds, rest) := spanDigits cs
      if ds.isEmpty then none else some (.int (Int.ofNat (digitsToNat ds)), rest)
  | _ + 1, '~' :: cs => do
      let (r, rest) ← spanUntil '~' cs
      pure (.float r, rest)
  | fuel + 1, '"' :: cs => do
      let (s, rest) ← parseStrBody fuel [] cs
      pure (.str s, rest)
  | fuel + 1, '<' :: cs => do
      let (b, rest) ← parseHexBytes fuel cs
      pure (.bytes b, rest)
  | _ + 1, '@' :: cs => do
      let (ty, rest) ← spanUntil ':' cs
      match rest with
      | t :: e :: ';' :: r =>
          let tv ← (if t == '1' then some true else if t == '0' then some false else none)
          let ev ← (if e == 't' then some (some true) else if e == 'f' then some (some false) else if e == '-' then some none else none)
          pure (.other ty tv ev, r)
      | _ => none
  | _ + 1, '[' :: ']' :: cs => some (.list [], cs)
  | fuel + 1, '[' :: cs => do
      let (xs, rest) ← parseItems fuel cs
      pure (.list xs, rest)
  | _ + 1, '{' :: '!' :: '}' :: cs => some (.dictNS [], cs)
  | fuel + 1, '{' :: '!' :: cs => do
      let (kvs, rest) ← parseEntries fuel cs
      pure (.dictNS kvs, rest)
  | _ + 1, '{' :: '}' :: cs => some (.dict [], cs)
  | fuel + 1, '{' :: cs => do
      let (kvs, rest) ← parseEntries fuel cs
      pure (.dict kvs, rest)
  | _ + 1, _ => none
/-- one or more values separated by `,` and closed by `]` -/
def parseItems : Nat → List Char → Option (List WVal × List Char)
  | 0, _ => none
  | fuel + 1, cs => do
      let (v, rest) ← parseVal fuel cs
      match rest with
      | ']' :: r => pure ([v], r)
      | ',' :: r => do
          let (vs, r') ← parseItems fuel r
          pure (v :: vs, r')
      | _ => none
/-- one or more `"k":v` separated by `,` and closed by `}` -/
def parseEntries : Nat → List Char → Option (List (Str × WVal) × List Char)
  | 0, _ => none
  | fuel + 1, '"' :: cs => do
      let (k, rest) ← parseStrBody fuel [] cs
      match rest with
      | ':' :: r => do
          let (v, r') ← parseVal fuel r
          match r' with
          | '}' :: r'' => pure ([(k, v)], r'')
          | ',' :: r'' => do
              let (kvs, r''') ← parseEntries fuel r''
              pure ((k, v) :: kvs, r''')
          | _ => none
      | _ => none
  | _ + 1, _ => none
end

def decode (s : String) : Option WVal :=
  let cs := s.toList
  match parseVal (cs.length + 1) cs with
  | some (v, []) => some v
  | _ => none

def encode (v : WVal) : String := String.ofList (render v)

end Abverif.Wamp.Codec
