import Abverif.Model.Basic
/-
C09 — UTF-8 validation.

Spec   : RFC 3629 §4 ABNF, verbatim, as the inductive `WF` and as the executable decision procedure `wf`
         (written alternative by alternative from the ABNF); `aliveB` ("some extension is well-formed"),
         `specOne` (verdict / ends-on-code-point / first offending index of one byte string), `judge`
         (does a reported per-call result sequence conform to the property for a chunk sequence?);
         code points: `encode`, `isScalar`.
Model  : `rfcStep` (hand-written 9-state automaton), `run`, and the control flow of `Utf8Validator.validate`
         (pure Python, `validateWith`) and of the NVX validator (C `_table` / `_unrolled` loops + cffi wrapper,
         `validateNvxWith`), generic in the transition function. This file does not depend on the generated tables;
         `Model/Utf8.lean` instantiates the models with the tables REGENERATED from /repo.
-/
namespace Abverif.Utf8
open Abverif

/-! ## Spec: RFC 3629 §4

```
UTF8-octets = *( UTF8-char )
UTF8-char   = UTF8-1 / UTF8-2 / UTF8-3 / UTF8-4
UTF8-1      = %x00-7F
UTF8-2      = %xC2-DF UTF8-tail
UTF8-3      = %xE0 %xA0-BF UTF8-tail / %xE1-EC 2( UTF8-tail ) /
              %xED %x80-9F UTF8-tail / %xEE-EF 2( UTF8-tail )
UTF8-4      = %xF0 %x90-BF 2( UTF8-tail ) / %xF1-F3 3( UTF8-tail ) /
              %xF4 %x80-8F 2( UTF8-tail )
UTF8-tail   = %x80-BF
```
-/

/-- `%xLO-HI` -/
def inR (lo hi : Nat) (b : UInt8) : Bool := decide (lo ≤ b.toNat) && decide (b.toNat ≤ hi)

/-- `UTF8-tail = %x80-BF` -/
def isTail (b : UInt8) : Bool := inR 0x80 0xBF b

/-- `UTF8-char` -/
inductive UChar : Bytes → Prop
  | utf8_1 (a : UInt8) : inR 0x00 0x7F a → UChar [a]
  | utf8_2 (a b : UInt8) : inR 0xC2 0xDF a → isTail b → UChar [a, b]
  | utf8_3_e0 (a b c : UInt8) : inR 0xE0 0xE0 a → inR 0xA0 0xBF b → isTail c → UChar [a, b, c]
  | utf8_3_e1_ec (a b c : UInt8) : inR 0xE1 0xEC a → isTail b → isTail c → UChar [a, b, c]
  | utf8_3_ed (a b c : UInt8) : inR 0xED 0xED a → inR 0x80 0x9F b → isTail c → UChar [a, b, c]
  | utf8_3_ee_ef (a b c : UInt8) : inR 0xEE 0xEF a → isTail b → isTail c → UChar [a, b, c]
  | utf8_4_f0 (a b c d : UInt8) : inR 0xF0 0xF0 a → inR 0x90 0xBF b → isTail c → isTail d → UChar [a, b, c, d]
  | utf8_4_f1_f3 (a b c d : UInt8) : inR 0xF1 0xF3 a → isTail b → isTail c → isTail d → UChar [a, b, c, d]
  | utf8_4_f4 (a b c d : UInt8) : inR 0xF4 0xF4 a → inR 0x80 0x8F b → isTail c → isTail d → UChar [a, b, c, d]

/-- `UTF8-octets = *( UTF8-char )` -/
inductive WF : Bytes → Prop
  | nil : WF []
  | cons (c r : Bytes) : UChar c → WF r → WF (c ++ r)

/-- executable decision procedure for `WF`, alternative by alternative from the ABNF -/
def wf : Bytes → Bool
  | [] => true
  | a :: r =>
    if inR 0x00 0x7F a then wf r
    else if inR 0xC2 0xDF a then
      match r with
      | b :: r => isTail b && wf r
      | _ => false
    else if inR 0xE0 0xE0 a then
      match r with
      | b :: c :: r => inR 0xA0 0xBF b && isTail c && wf r
      | _ => false
    else if inR 0xE1 0xEC a then
      match r with
      | b :: c :: r => isTail b && isTail c && wf r
      | _ => false
    else if inR 0xED 0xED a then
      match r with
      | b :: c :: r => inR 0x80 0x9F b && isTail c && wf r
      | _ => false
    else if inR 0xEE 0xEF a then
      match r with
      | b :: c :: r => isTail b && isTail c && wf r
      | _ => false
    else if inR 0xF0 0xF0 a then
      match r with
      | b :: c :: d :: r => inR 0x90 0xBF b && isTail c && isTail d && wf r
      | _ => false
    else if inR 0xF1 0xF3 a then
      match r with
      | b :: c :: d :: r => isTail b && isTail c && isTail d && wf r
      | _ => false
    else if inR 0xF4 0xF4 a then
      match r with
      | b :: c :: d :: r => inR 0x80 0x8F b && isTail c && isTail d && wf r
      | _ => false
    else false

/-- "the bytes so far can still be completed to well-formed UTF-8" -/
def Alive (b : Bytes) : Prop := ∃ t, WF (b ++ t)

/-- the six shapes a missing remainder of one UTF8-char can have (one witness each) -/
def completions : List Bytes :=
  [[], [0x80], [0x80, 0x80], [0xA0, 0x80], [0x90, 0x80, 0x80], [0x80, 0x80, 0x80]]

/-- executable form of `Alive` (equivalence: `aliveB_iff_Alive` in Proofs/C09) -/
def aliveB (b : Bytes) : Bool := completions.any (fun t => wf (b ++ t))

/-- index of the first byte after which the prefix can no longer be completed (`b.length` if none);
searches the prefixes from the left -/
def firstDeadFrom (b : Bytes) : Nat → Nat → Nat
  | _, 0 => b.length
  | i, fuel + 1 => if aliveB (b.take (i + 1)) then firstDeadFrom b (i + 1) fuel else i

def firstDead (b : Bytes) : Nat := firstDeadFrom b 0 b.length

/-- the 4-tuple `(valid?, endsOnCodePoint?, currentIndex, totalIndex)` -/
structure Res where
  valid : Bool
  ends : Bool
  cur : Nat
  total : Nat
deriving Repr, DecidableEq

/-- what one `validate(b)` call on a fresh validator has to answer, by the property statement -/
def specOne (b : Bytes) : Res :=
  if aliveB b then ⟨true, wf b, b.length, b.length⟩
  else ⟨false, false, firstDead b, firstDead b⟩

/-- `i` is the position of the first offending byte of `b`: everything before it can be completed, nothing
from it on can (this determines `i` uniquely since prefixes of completable strings are completable) -/
def offenderAt (b : Bytes) (i : Nat) : Bool :=
  decide (i < b.length) && aliveB (b.take i) && !aliveB (b.take (i + 1))

/-! ### conformance of a reported call sequence with the property

`judgeCall pre c r`: `pre` = all bytes fed in earlier calls, `c` = this chunk, `r` = the reported 4-tuple.
  * stream still completable after this chunk → `(true, wf (pre++c), |c|, |pre|+|c|)`
  * this chunk contains the first offender at total position `i` → `(false, false, i − |pre|, i)`
  * the stream was already rejected at total position `i` → the call must not look like progress: `ends = false`,
    `total = i`, and `valid = false` whenever the chunk is non-empty (the answer to an *empty* chunk after a reject
    and the chunk-relative index after a reject are left open by the property) -/
inductive Why
  | ok
  | rejectsWellFormedPrefix
  | endsOnCodePointWrong
  | indexWrongOnValidChunk
  | acceptsIllFormed
  | endsOnCodePointSetOnReject
  | offenderTotalIndexWrong
  | offenderChunkIndexWrong
  | forgetsRejectOnNextCall
  | endsOnCodePointSetAfterReject
  | totalIndexMovesAfterReject
  | resultCountMismatch
deriving Repr, DecidableEq

def Why.key : Why → String
  | .ok => "ok"
  | .rejectsWellFormedPrefix => "rejects-well-formed-prefix"
  | .endsOnCodePointWrong => "ends-on-code-point-wrong"
  | .indexWrongOnValidChunk => "index-wrong-on-valid-chunk"
  | .acceptsIllFormed => "accepts-ill-formed"
  | .endsOnCodePointSetOnReject => "ends-on-code-point-set-on-reject"
  | .offenderTotalIndexWrong => "offender-total-index-wrong"
  | .offenderChunkIndexWrong => "offender-chunk-index-wrong"
  | .forgetsRejectOnNextCall => "forgets-reject-on-next-call"
  | .endsOnCodePointSetAfterReject => "ends-on-code-point-set-after-reject"
  | .totalIndexMovesAfterReject => "total-index-moves-after-reject"
  | .resultCountMismatch => "result-count-mismatch"

def judgeCall (pre c : Bytes) (r : Res) : Why :=
  if aliveB (pre ++ c) then
    if !r.valid then .rejectsWellFormedPrefix
    else if r.ends != wf (pre ++ c) then .endsOnCodePointWrong
    else if r.cur != c.length || r.total != (pre ++ c).length then .indexWrongOnValidChunk
    else .ok
  else if aliveB pre then
    if r.valid then .acceptsIllFormed
    else if r.ends then .endsOnCodePointSetOnReject
    else if !offenderAt (pre ++ c) r.total then .offenderTotalIndexWrong
    else if pre.length + r.cur != r.total then .offenderChunkIndexWrong
    else .ok
  else
    if r.valid && !c.isEmpty then .forgetsRejectOnNextCall
    else if r.ends then .endsOnCodePointSetAfterReject
    else if !offenderAt pre r.total then .totalIndexMovesAfterReject
    else .ok

/-- first non-conforming call `(call index, reason)`, or `none` if every reported result conforms -/
def judge : Bytes → Nat → List Bytes → List Res → Option (Nat × Why)
  | _, _, [], [] => none
  | pre, k, c :: cs, r :: rs =>
    match judgeCall pre c r with
    | .ok => judge (pre ++ c) (k + 1) cs rs
    | why => some (k, why)
  | _, k, _, _ => some (k, .resultCountMismatch)

/-! ### code points -/

/-- Unicode scalar value: `≤ U+10FFFF` and not a surrogate -/
def isScalar (c : Nat) : Bool := decide (c ≤ 0x10FFFF) && !(decide (0xD800 ≤ c) && decide (c ≤ 0xDFFF))

/-- RFC 3629 §3 encoding table (shortest form) -/
def encode (c : Nat) : Bytes :=
  if c < 0x80 then [UInt8.ofNat c]
  else if c < 0x800 then [UInt8.ofNat (0xC0 + c / 64), UInt8.ofNat (0x80 + c % 64)]
  else if c < 0x10000 then
    [UInt8.ofNat (0xE0 + c / 4096), UInt8.ofNat (0x80 + c / 64 % 64), UInt8.ofNat (0x80 + c % 64)]
  else
    [UInt8.ofNat (0xF0 + c / 262144), UInt8.ofNat (0x80 + c / 4096 % 64), UInt8.ofNat (0x80 + c / 64 % 64),
     UInt8.ofNat (0x80 + c % 64)]

def encodeAll (cs : List Nat) : Bytes := cs.flatMap encode

/-! ## Model: automata -/

/-- hand-written from the grammar. States: 0 = on a code point boundary, 1 = reject (absorbing),
2 = one tail missing, 3 = two tails missing, 4 = after E0, 5 = after ED, 6 = after F0, 7 = after F1..F3,
8 = after F4. Anything else is not a state (left unchanged). -/
def rfcStep (s : Nat) (o : Nat) : Nat :=
  match s with
  | 0 =>
    if o ≤ 0x7F then 0
    else if 0xC2 ≤ o ∧ o ≤ 0xDF then 2
    else if o = 0xE0 then 4
    else if 0xE1 ≤ o ∧ o ≤ 0xEC then 3
    else if o = 0xED then 5
    else if 0xEE ≤ o ∧ o ≤ 0xEF then 3
    else if o = 0xF0 then 6
    else if 0xF1 ≤ o ∧ o ≤ 0xF3 then 7
    else if o = 0xF4 then 8
    else 1
  | 2 => if 0x80 ≤ o ∧ o ≤ 0xBF then 0 else 1
  | 3 => if 0x80 ≤ o ∧ o ≤ 0xBF then 2 else 1
  | 4 => if 0xA0 ≤ o ∧ o ≤ 0xBF then 2 else 1
  | 5 => if 0x80 ≤ o ∧ o ≤ 0x9F then 2 else 1
  | 6 => if 0x90 ≤ o ∧ o ≤ 0xBF then 3 else 1
  | 7 => if 0x80 ≤ o ∧ o ≤ 0xBF then 3 else 1
  | 8 => if 0x80 ≤ o ∧ o ≤ 0x8F then 3 else 1
  | _ => 1

/-- plain run of an automaton over a byte string -/
def run (step : Nat → Nat → Nat) : Nat → Bytes → Nat
  | s, [] => s
  | s, b :: r => run step (step s b.toNat) r

/-! ## Model: `Utf8Validator.validate` (pure Python)

```
l = len(ba); i = 0; state = self._state
while i < l:
    state = DFA[256 + (state << 4) + DFA[ba[i]]]
    if state == UTF8_REJECT:
        self._state = state; self._index += i
        return False, False, i, self._index
    i += 1
self._state = state; self._index += l
return True, state == UTF8_ACCEPT, l, self._index
```
-/

/-- carried between calls: `_state`, `_index` (Python) / `state`, `total_index` (C) -/
structure St where
  state : Nat
  index : Nat
deriving Repr, DecidableEq

/-- after `reset()` -/
def St.init : St := ⟨0, 0⟩

/-- the `while` loop: `(state, i, left by the reject branch?)` -/
def loop (step : Nat → Nat → Nat) (reject : Nat) : Nat → Nat → Bytes → Nat × Nat × Bool
  | s, i, [] => (s, i, false)
  | s, i, b :: r =>
    if step s b.toNat = reject then (step s b.toNat, i, true)
    else loop step reject (step s b.toNat) (i + 1) r

def validateWith (step : Nat → Nat → Nat) (accept reject : Nat) (st : St) (ba : Bytes) : Res × St :=
  match loop step reject st.state 0 ba with
  | (s, i, true) => (⟨false, false, i, st.index + i⟩, ⟨s, st.index + i⟩)
  | (s, _, false) => (⟨true, s == accept, ba.length, st.index + ba.length⟩, ⟨s, st.index + ba.length⟩)

/-- the same control flow over the hand-written automaton (reference model used in the proofs) -/
def validateRfc : St → Bytes → Res × St := validateWith rfcStep 0 1

/-! ## Model: NVX validator (`_nvx_utf8vld_validate_table` / `_unrolled` + `nvx/_utf8validator.py`)

```
int state = vld->state; size_t i = 0;
while (i < length) {                       // before /repo c2c187d5: while (i < length && state != 1)
   state = <step>;
   if (state == 1) { vld->state = state; vld->current_index = i; vld->total_index += i; return -1; }
   i++;
}
vld->state = state; vld->current_index = length; vld->total_index += length;
return state == 0 ? 0 : 1;
```
wrapper: `(res >= 0, res == 0, current_index, total_index)`. The literals `1` and `0` in this function are
literals in the C source (not the `UTF8_*` macros).

`guardsReject` is what the translator reads from the `while (...)` condition (`Generated/Utf8LoopC.lean`):
  * `false` (today's source): the loop body also runs when the call is entered with `state == 1`; the reject row of the
    automaton answers 1 at once, so a non-empty chunk is rejected at index 0 with an unchanged total index, and an
    empty chunk falls through to `(True, False, 0, total)` — exactly the pure-Python behaviour;
  * `true` (the source before the repair, finding F1): entered with `state == 1` the loop body never runs, the call
    "consumes" the whole chunk and returns 1, i.e. `(True, False, len, total + len)`.
-/
def validateNvxWith (guardsReject : Bool) (step : Nat → Nat → Nat) (st : St) (ba : Bytes) : Res × St :=
  if guardsReject && st.state == 1 then
    (⟨true, false, ba.length, st.index + ba.length⟩, ⟨1, st.index + ba.length⟩)
  else
    match loop step 1 st.state 0 ba with
    | (s, i, true) => (⟨false, false, i, st.index + i⟩, ⟨s, st.index + i⟩)
    | (s, _, false) => (⟨true, s == 0, ba.length, st.index + ba.length⟩, ⟨s, st.index + ba.length⟩)

/-- a sequence of `validate` calls on one validator object -/
def feed (v : St → Bytes → Res × St) : St → List Bytes → List Res × St
  | st, [] => ([], st)
  | st, c :: cs =>
    let (r, st1) := v st c
    let (rs, st2) := feed v st1 cs
    (r :: rs, st2)

end Abverif.Utf8
