import Abverif.Model.WVal
import Abverif.Generated.WampCodes
/-
Schema engine for WAMP messages (C03, C08).  Import-free apart from the regenerated code table.

A `Schema` describes one message class of `autobahn/wamp/message.py` declaratively:

  [code, pos₁ … pos_k]  ++  (optional trailing options dict | args/kwargs/payload tail)

* `pos`   positional fields in wire order (`id`, `uri flags`, `str`, `extra`, `intEnum`, `opts` = the
          options/details dictionary with typed entries, `uriByMatch` = REGISTER's procedure URI whose
          flags depend on the `match` option),
* `tail`  args / kwargs / transparent payload (+ the `enc_algo/enc_key/enc_serializer` triple, which is
          read from the options only in payload mode),
* `opts`  the typed entries of the options dictionary **in the order `parse` checks them**,
* `cross` constructor assertions relating several fields.

`Schema.parse` mirrors the control flow of the real `parse` + constructor: length check, positional checks
in order, payload-mode decision, `enc_*`, args, kwargs, option entries in order (these raise
`ProtocolError` / `InvalidUriError`), the cross-field checks of `parse` (`ProtocolError`), then the constructor's
`assert`s (`AssertionError`), then `_validate_kwargs` (`ProtocolError`).  Since the F3 repair every value the
constructor asserts on has been validated by `parse` before; that the assertions are unreachable from `parse` is a
theorem (`ctor_unreachable`, Proofs/Lemmas/SchemaCtor.lean), not a modelling decision.  Every exit carries the
exception class the real code raises and the field (`site`) whose check failed.
-/
namespace Abverif.Wamp

inductive ErrClass
  | protocol      -- autobahn.wamp.exception.ProtocolError
  | invalidUri    -- autobahn.wamp.exception.InvalidUriError (subclass of ProtocolError? no: of Error) — kept apart
  | assertion     -- AssertionError out of a constructor (unreachable from `parse`: theorem `ctor_unreachable`)
  deriving DecidableEq, Repr, Inhabited

structure Err where
  cls : ErrClass
  site : Str
  deriving Inhabited

def ErrClass.name : ErrClass → String
  | .protocol => "ProtocolError"
  | .invalidUri => "InvalidUriError"
  | .assertion => "AssertionError"

/-- the library's own protocol-level errors: what C08 allows `parse` to raise -/
def ErrClass.allowed : ErrClass → Bool
  | .protocol => true
  | .invalidUri => true
  | _ => false

/-- the recognisers the engine is parametric in (instantiated with the regenerated `_URI_PAT_*` /
`_CUSTOM_ATTRIBUTE` regex models in `Model/Uri.lean`) -/
structure Oracles where
  uriCheck : (strict allowEmpty allowLastEmpty : Bool) → Str → Bool
  customAttr : Str → Bool

structure UriFlags where
  strict : Bool := false
  allowEmpty : Bool := false
  allowLastEmpty : Bool := false
  allowNone : Bool := false
  deriving DecidableEq, Repr

abbrev Msg := List (Str × WVal)

/-- attribute access on a parsed message (`None` for an attribute the class does not have) -/
def Msg.get (m : Msg) (f : Str) : WVal :=
  match m.find? (fun kv => kv.1 == f) with
  | some kv => kv.2
  | none => .null

abbrev R := Except Err WVal

def fail (c : ErrClass) (site : Str) : Except Err α := .error ⟨c, site⟩

/-! ### field validators (`check_or_raise_id`, `check_or_raise_uri`, `check_or_raise_extra`) -/

def idOk (i : Int) : Bool := 0 ≤ i && i ≤ Generated.WampCodes.idBound

def checkId (site : Str) : WVal → R
  | .int i => if idOk i then .ok (.int i) else fail .protocol site
  | _ => fail .protocol site

def uriOk (O : Oracles) (fl : UriFlags) : WVal → Bool
  | .null => fl.allowNone
  | .str s => O.uriCheck fl.strict fl.allowEmpty fl.allowLastEmpty s
  | _ => false

def checkUri (O : Oracles) (fl : UriFlags) (site : Str) (v : WVal) : R :=
  if uriOk O fl v then .ok v else fail .invalidUri site

def checkExtra (site : Str) : WVal → Except Err Dict
  | .dict kvs => .ok kvs
  | _ => fail .protocol site

def checkStr (site : Str) : WVal → R
  | .str s => .ok (.str s)
  | _ => fail .protocol site

/-! ### option entry types -/

/-- items of `forward_for` as the constructors assert them:
`type(ff)==dict`, `session:int`, `authid: None|str`, `authrole:str` -/
def ffItemCtorOk : WVal → Bool
  | v => v.isDict &&
    (match v.entries.get? cs!"session" with | some (.int _) => true | _ => false) &&
    (match v.entries.get? cs!"authid" with | some .null => true | some (.str _) => true | _ => false) &&
    (match v.entries.get? cs!"authrole" with | some (.str _) => true | _ => false)

/-- items of `forward_for` as the loop in `parse` checks them (once it is a `for/else`): `session: int`,
`authrole: str`, and `authid: str` — or `None`, if the regenerated flag `ffAuthidNoneOk` says the source admits it
(`ff["authid"] is not None and type(ff["authid"]) != str`) -/
def ffItemParseOk : WVal → Bool
  | v => v.isDict &&
    (match v.entries.get? cs!"session" with | some (.int _) => true | _ => false) &&
    (match v.entries.get? cs!"authid" with
     | some (.str _) => true
     | some .null => Generated.WampCodes.ffAuthidNoneOk
     | _ => false) &&
    (match v.entries.get? cs!"authrole" with | some (.str _) => true | _ => false)

inductive OTy
  | bool
  | int (min : Option Int)
  | str
  | strEnum (vals : List Str)
  | listInt
  /-- a WAMP id: `check_or_raise_id` (int in [0, 2^53]) -/
  | id
  /-- a list of WAMP ids (PUBLISH.exclude / eligible): `check_or_raise_id` on every item -/
  | listId
  | listStr
  | dict
  | uri (fl : UriFlags)
  /-- `type(v) != str` → ProtocolError, then `check_or_raise_uri(v)` (InvalidUriError); `nullOk`: read with
  `details.get(k)` and `None` passes (WELCOME.realm), else an explicit `None` is a ProtocolError (EVENT.topic,
  INVOCATION.procedure) -/
  | strUri (nullOk : Bool)
  /-- `itemsAtParse` = the `for … break … valid = True` loop has been repaired to `for/else` (regenerated
  from the source on every run); today `false`: any list passes `parse` -/
  | forwardFor (itemsAtParse : Bool)
  /-- `options.get(k)` then `v is not None and type(v) != bool` (REGISTER.force_reregister) -/
  | boolOrNull
  /-- `details.get(k)` then `v is not None and type(v) != str` (WELCOME realm, authid, authrole, authmethod, authprovider) -/
  | strOrNull
  /-- `details.get(k)` then `v is not None and type(v) != dict` (WELCOME authextra) -/
  | dictOrNull
  /-- HELLO/WELCOME `roles`: role name ↦ `{"features": {name: bool}}`; `allowed` role names, `feats` = role.py -/
  | roles (allowed : List Str) (feats : List (Str × List Str))


def allInt : List WVal → Bool
  | [] => true
  | .int _ :: xs => allInt xs
  | _ => false

def allId : List WVal → Bool
  | [] => true
  | .int i :: xs => idOk i && allId xs
  | _ => false

def allStr : List WVal → Bool
  | [] => true
  | .str _ :: xs => allStr xs
  | _ => false

def strMem (s : Str) (vals : List Str) : Bool := vals.any (· == s)

/-! #### role features (HELLO / WELCOME) -/

/-- `_check_all_bool`: a known feature that is neither `None` nor a `bool` -/
def featBad (fd : Dict) (f : Str) : Bool :=
  match fd.get? f with
  | none => false
  | some .null => false
  | some (.bool _) => false
  | some _ => true

/-- the attributes a `Role*Features` object ends up with (known names, attribute order, `None` dropped) -/
def featCanon (fd : Dict) (known : List Str) : Dict :=
  known.filterMap (fun f => match fd.get? f with | some (.bool b) => some (f, .bool b) | _ => none)

/-- `role_cls(**features)`: unknown names (also one spelled `self`: the bound argument is positional-only) are
swallowed by `**kwargs`, then `_check_all_bool` -/
def featuresCheck (site : Str) (known : List Str) (fd : Dict) : Except Err Dict :=
  if known.any (featBad fd) then fail .protocol site
  else .ok (featCanon fd known)

def roleKnown (feats : List (Str × List Str)) (role : Str) : List Str :=
  match feats.find? (fun rf => rf.1 == role) with
  | some rf => rf.2
  | none => []

/-- the loop `for role in details_roles:` (dict order) -/
def rolesLoop (site : Str) (allowed : List Str) (feats : List (Str × List Str)) : Dict → Except Err Dict
  | [] => .ok []
  | (role, rv) :: rest =>
      if !strMem role allowed then fail .protocol site
      else
        match rv with
        | .dict drole =>
            (match Dict.get? drole cs!"features" with
             | none => do
                 let r ← rolesLoop site allowed feats rest
                 pure ((role, WVal.dict []) :: r)
             | some (.dict fd) => do
                 let fs ← featuresCheck site (roleKnown feats role) fd
                 let r ← rolesLoop site allowed feats rest
                 pure ((role, WVal.dict fs) :: r)
             | some _ => fail .protocol site)
        | _ => fail .protocol site

def rolesCheck (site : Str) (allowed : List Str) (feats : List (Str × List Str)) : WVal → R
  | .dict [] => fail .protocol site
  | .dict dr => do let r ← rolesLoop site allowed feats dr; pure (.dict r)
  | _ => fail .protocol site

/-- `marshal`: a role without any set feature is written as `{}`, otherwise `{"features": {...}}` -/
def roleEnc (fs : WVal) : WVal :=
  match fs with
  | .dict [] => .dict []
  | fs => .dict [(cs!"features", fs)]

def rolesEncode : WVal → WVal
  | .dict dr => .dict (dr.map (fun rv => (rv.1, roleEnc rv.2)))
  | v => v

/-- check of a *present* option value -/
def OTy.check (O : Oracles) (site : Str) : OTy → WVal → R
  | .bool, .bool b => .ok (.bool b)
  | .bool, _ => fail .protocol site
  | .int none, .int i => .ok (.int i)
  | .int (some lo), .int i => if i < lo then fail .protocol site else .ok (.int i)
  | .int _, _ => fail .protocol site
  | .str, .str s => .ok (.str s)
  | .str, _ => fail .protocol site
  | .strEnum vals, .str s => if strMem s vals then .ok (.str s) else fail .protocol site
  | .strEnum _, _ => fail .protocol site
  | .listInt, .list xs => if allInt xs then .ok (.list xs) else fail .protocol site
  | .listInt, _ => fail .protocol site
  | .id, .int i => if idOk i then .ok (.int i) else fail .protocol site
  | .id, _ => fail .protocol site
  | .listId, .list xs => if allId xs then .ok (.list xs) else fail .protocol site
  | .listId, _ => fail .protocol site
  | .listStr, .list xs => if allStr xs then .ok (.list xs) else fail .protocol site
  | .listStr, _ => fail .protocol site
  | .dict, .dict kvs => .ok (.dict kvs)
  | .dict, .dictNS kvs => .ok (.dictNS kvs)
  | .dict, _ => fail .protocol site
  | .uri fl, v => checkUri O fl site v
  | .strUri n, .null => if n then .ok .null else fail .protocol site
  | .strUri _, .str s => checkUri O {} site (.str s)
  | .strUri _, _ => fail .protocol site
  | .forwardFor atParse, .list xs =>
      if atParse && !(xs.all ffItemParseOk) then fail .protocol site else .ok (.list xs)
  | .forwardFor _, _ => fail .protocol site
  | .boolOrNull, .null => .ok .null
  | .boolOrNull, .bool b => .ok (.bool b)
  | .boolOrNull, _ => fail .protocol site
  | .strOrNull, .null => .ok .null
  | .strOrNull, .str s => .ok (.str s)
  | .strOrNull, _ => fail .protocol site
  | .dictOrNull, .null => .ok .null
  | .dictOrNull, .dict kvs => .ok (.dict kvs)
  | .dictOrNull, .dictNS kvs => .ok (.dictNS kvs)
  | .dictOrNull, _ => fail .protocol site
  | .roles allowed feats, v => rolesCheck site allowed feats v

/-- how `marshal` writes a field value of this type into the options (identity except for `roles`) -/
def OTy.encode : OTy → WVal → WVal
  | .roles _ _, v => rolesEncode v
  | _, v => v

/-- what the constructor asserts about a field that `parse` may hand over unvalidated -/
inductive CTy
  | none
  | strOrNone
  | dictOrNone
  | ffItems          -- every item satisfies `ffItemCtorOk`
  deriving DecidableEq

def CTy.ok : CTy → WVal → Bool
  | .none, _ => true
  | .strOrNone, v => v.isNull || v.isStr
  | .dictOrNone, v => v.isNull || v.isDict
  | .ffItems, .list xs => xs.all ffItemCtorOk
  | .ffItems, _ => true

/-- when `marshal` writes an option -/
inductive MMode
  | notNone                 -- `if self.x is not None:`
  | truthy                  -- `if self.x:`
  | neqDefault (d : Str)    -- `if self.x and self.x != DEFAULT:`
  | always                  -- written unconditionally (HELLO/WELCOME roles)


/-- `v` = the field's value -/
def MMode.emits : MMode → WVal → Bool
  | .notNone, v => !v.isNull
  | .truthy, v => v.truthy
  | .neqDefault d, v => v.truthy && !(match v with | .str s => s == d | _ => false)
  | .always, _ => true

structure OptStep where
  field : Str
  key : Str
  ty : OTy
  dflt : WVal := .null
  mm : MMode := .notNone
  cty : CTy := .none
  /-- `if key not in details: raise ProtocolError` (roles) -/
  required : Bool := false
  /-- absent ⇒ `ProtocolError` when the option with this key is truthy
  (HELLO: resume-token / resume-session, WELCOME: resume_token / resumable) -/
  absentErrIf : Option Str := none

/-- one typed entry: `if key in options: check` (absent ⇒ default) -/
def OptStep.parse (O : Oracles) (d : Dict) (s : OptStep) : R :=
  match d.get? s.key with
  | none =>
      if s.required then fail .protocol s.field
      else match s.absentErrIf with
        | none => .ok s.dflt
        | some k => if ((d.get? k).getD .null).truthy then fail .protocol s.field else .ok s.dflt
  | some v => s.ty.check O s.field v

/-! ### positional fields -/

inductive PosStep
  | id (f : Str)
  | uri (f : Str) (fl : UriFlags)
  | str (f : Str)
  | extra (f : Str)                       -- an opaque dictionary that is itself a field (CHALLENGE.extra)
  | intEnum (f : Str) (allowed : List Int)
  | opts                                  -- the options/details dictionary (typed entries in `Schema.opts`)
  /-- REGISTER.procedure: flags chosen by the (validated) `match` option read from the options at `optsPos` -/
  | uriByMatch (f : Str) (optsPos : Nat) (key : Str) (vals : List Str)


def PosStep.field? : PosStep → Option Str
  | .id f => some f
  | .uri f _ => some f
  | .str f => some f
  | .extra f => some f
  | .intEnum f _ => some f
  | .opts => none
  | .uriByMatch f _ _ _ => some f

/-- REGISTER: `exact` → plain, `prefix` → allow_last_empty, `wildcard` → allow_empty_components -/
def matchFlags (mtch : Str) : UriFlags :=
  if mtch == cs!"prefix" then { allowLastEmpty := true }
  else if mtch == cs!"wildcard" then { allowEmpty := true }
  else {}

def PosStep.parse (O : Oracles) (w : List WVal) (v : WVal) : PosStep → Except Err (Option (Str × WVal))
  | .id f => do let x ← checkId f v; pure (some (f, x))
  | .uri f fl => do let x ← checkUri O fl f v; pure (some (f, x))
  | .str f => do let x ← checkStr f v; pure (some (f, x))
  | .extra f => do let d ← checkExtra f v; pure (some (f, .dict d))
  | .intEnum f allowed =>
      match v with
      | .int i => if allowed.contains i then pure (some (f, .int i)) else fail .protocol f
      | _ => fail .protocol f
  | .opts => do let _ ← checkExtra cs!"options" v; pure none
  | .uriByMatch f optsPos key vals =>
      -- the `match` option is validated first (it decides the flags), then the URI
      let d := (w.getD optsPos .null).entries
      match d.get? key with
      | none => do let x ← checkUri O {} f v; pure (some (f, x))
      | some (.str s) =>
          if strMem s vals then do let x ← checkUri O (matchFlags s) f v; pure (some (f, x))
          else fail .protocol key
      | some _ => fail .protocol key

/-! ### args / kwargs / payload tail -/

inductive ArgsVariant
  | std        -- args: None | list ;  kwargs: dict
  | publish    -- args: list | str | bytes (None rejected) ;  kwargs: dict | str | bytes (non-dict rejected by `_validate_kwargs` in the constructor)
  deriving DecidableEq

structure TailSpec where
  variant : ArgsVariant


/-- payload mode: exactly one extra element and it is bytes (`type(wmsg[i]) == bytes`, all seven classes) -/
def payloadMode (k : Nat) (w : List WVal) : Bool :=
  w.length == k + 2 &&
    (match w.getD (k + 1) .null with
     | .bytes _ => true
     | _ => false)

/-- `is_valid_enc_algo` / `is_valid_enc_serializer` -/
def validEncAlgo (O : Oracles) : WVal → Bool
  | .str s => strMem s Generated.WampCodes.encAlgos || O.customAttr s
  | _ => false

def validEncSer (O : Oracles) : WVal → Bool
  | .str s => strMem s Generated.WampCodes.encSerializers || O.customAttr s
  | _ => false

/-- `x = d.get(k); if x is not None and not valid(x): raise ProtocolError` -/
def encGet (d : Dict) (key : Str) (valid : WVal → Bool) : R :=
  let v := (d.get? key).getD .null
  if !v.isNull && !valid v then fail .protocol key else .ok v

/-- `if enc_algo is None and (enc_key is not None or enc_serializer is not None): raise ProtocolError` -/
def encTripleGate (algo key ser : WVal) : Except Err Unit :=
  if algo.isNull && (!key.isNull || !ser.isNull) then fail .protocol cs!"enc_key" else pure ()

/-- `args = wmsg[k+1]` type check -/
def checkArgs : ArgsVariant → WVal → R
  | .std, .null => .ok .null
  | _, .list xs => .ok (.list xs)
  | .publish, .str s => .ok (.str s)
  | .publish, .bytes b => .ok (.bytes b)
  | _, _ => fail .protocol cs!"args"

/-- `kwargs = wmsg[k+2]` type check (keys are validated later, by the constructor) -/
def checkKwargs : ArgsVariant → WVal → R
  | _, .dict kvs => .ok (.dict kvs)
  | _, .dictNS kvs => .ok (.dictNS kvs)
  | .publish, .str s => .ok (.str s)
  | .publish, .bytes b => .ok (.bytes b)
  | _, _ => fail .protocol cs!"kwargs"

def argsPart (t : TailSpec) (k : Nat) (w : List WVal) : R :=
  if w.length > k + 1 then checkArgs t.variant (w.getD (k + 1) .null) else .ok .null

def kwargsPart (t : TailSpec) (k : Nat) (w : List WVal) : R :=
  if w.length > k + 2 then checkKwargs t.variant (w.getD (k + 2) .null) else .ok .null

/-- the six tail fields, in the order the real `parse` evaluates them -/
def parseTail (O : Oracles) (t : TailSpec) (k : Nat) (d : Dict) (w : List WVal) : Except Err Msg :=
  if payloadMode k w then do
    let algo ← encGet d cs!"enc_algo" (validEncAlgo O)
    let key ← encGet d cs!"enc_key" WVal.isStr
    let ser ← encGet d cs!"enc_serializer" (validEncSer O)
    encTripleGate algo key ser
    pure [(cs!"args", .null), (cs!"kwargs", .null), (cs!"payload", w.getD (k + 1) .null),
          (cs!"enc_algo", algo), (cs!"enc_key", key), (cs!"enc_serializer", ser)]
  else do
    let args ← argsPart t k w
    let kwargs ← kwargsPart t k w
    pure [(cs!"args", args), (cs!"kwargs", kwargs), (cs!"payload", .null),
          (cs!"enc_algo", .null), (cs!"enc_key", .null), (cs!"enc_serializer", .null)]

/-! ### cross-field constructor assertions

(`zeroExcl` is also checked by `parse` itself, with `ProtocolError`: `Schema.pcross`) -/

inductive Cross
  /-- `assert payload is None or type(payload) == bytes` -/
  | payloadBytes
  /-- `assert enc_algo is None or is_valid_enc_algo(enc_algo)` (and the same for enc_key: str, enc_serializer) -/
  | encTypes
  /-- `assert (enc_algo is None and enc_key is None and enc_serializer is None) or (payload is not None and enc_algo is not None)` -/
  | encTriple
  /-- UNSUBSCRIBED / UNREGISTERED: `if a is not None and b is not None: assert (a != 0 and b is None) or (a == 0 and b != 0)` -/
  | zeroExcl (a b : Str)
  deriving DecidableEq


def Cross.site : Cross → Str
  | .payloadBytes => cs!"payload"
  | .encTypes => cs!"enc_algo"
  | .encTriple => cs!"enc_key"
  | .zeroExcl _ b => b

def Cross.ok (O : Oracles) (m : Msg) : Cross → Bool
  | .payloadBytes => (m.get cs!"payload").isNull || (m.get cs!"payload").isBytes
  | .encTypes =>
      ((m.get cs!"enc_algo").isNull || validEncAlgo O (m.get cs!"enc_algo")) &&
      ((m.get cs!"enc_key").isNull || (m.get cs!"enc_key").isStr) &&
      ((m.get cs!"enc_serializer").isNull || validEncSer O (m.get cs!"enc_serializer"))
  | .encTriple =>
      ((m.get cs!"enc_algo").isNull && (m.get cs!"enc_key").isNull && (m.get cs!"enc_serializer").isNull) ||
      (!(m.get cs!"payload").isNull && !(m.get cs!"enc_algo").isNull)
  | .zeroExcl a b =>
      match m.get a, m.get b with
      | .int x, .int y => x == 0 && y != 0      -- `(a != 0 and b is None)` is impossible here: b is not None
      | _, _ => true

/-! ### the schema -/

structure Schema where
  name : Str
  code : Int
  pos : List PosStep
  /-- the last position is the options dictionary and may be missing (UNSUBSCRIBE, UNSUBSCRIBED, …);
  `marshal` writes it only when it is non-empty -/
  optsOptional : Bool := false
  tail : Option TailSpec := none
  opts : List OptStep := []
  cross : List Cross := []
  /-- the cross-field conditions that `parse` itself checks (`ProtocolError`) after the options, before it calls the
  constructor (UNSUBSCRIBED / UNREGISTERED: `subscription`/`registration` detail only with request 0 and non-zero) -/
  pcross : List Cross := []
  /-- WELCOME: every details key matching `_CUSTOM_ATTRIBUTE` is collected into the field `custom`
  and written back at top level by `marshal` -/
  custom : Bool := false
  /-- the constructor's checks are `assert`s (`AssertionError`).  Flip to `false` should a class raise `ProtocolError`
  for them instead: the checks stay, only their exception class changes. -/
  ctorAsserts : Bool := true

namespace Schema

def ctorErr (σ : Schema) : ErrClass := if σ.ctorAsserts then .assertion else .protocol


/-- number of positions after the type code -/
def k (σ : Schema) : Nat := σ.pos.length

/-- wire position (index into `wmsg`) of the options dictionary -/
def optsPos (σ : Schema) : Option Nat :=
  let i := σ.pos.findIdx (fun p => match p with | .opts => true | _ => false)
  if i < σ.pos.length then some (i + 1) else none

/-- the admissible values of `len(wmsg)` -/
def lengths (σ : Schema) : List Nat :=
  match σ.tail with
  | some _ => [σ.k + 1, σ.k + 2, σ.k + 3]
  | none => if σ.optsOptional then [σ.k, σ.k + 1] else [σ.k + 1]

/-- the options dictionary as `parse` sees it after `check_or_raise_extra` (absent ⇒ no entries) -/
def optsOf (σ : Schema) (w : List WVal) : Dict :=
  match σ.optsPos with
  | some i => (w.getD i .null).entries
  | none => []

/-- positional checks, in order, over `wmsg[1:]`; a position beyond the end of the message is skipped: after the
length check that can only be the optional trailing options dictionary (UNSUBSCRIBE, UNSUBSCRIBED, …) -/
def parsePos (O : Oracles) (w : List WVal) : List PosStep → List WVal → Except Err Msg
  | [], _ => pure []
  | _ :: ps, [] => parsePos O w ps []
  | p :: ps, v :: vs => do
      let r ← p.parse O w v
      let rest ← parsePos O w ps vs
      pure (match r with | some fv => fv :: rest | none => rest)

def parseOpts (O : Oracles) (d : Dict) : List OptStep → Except Err Msg
  | [] => pure []
  | s :: ss => do
      let v ← s.parse O d
      let rest ← parseOpts O d ss
      pure ((s.field, v) :: rest)

/-- the constructor's assertions on option values -/
def ctorOpts (cls : ErrClass) (m : Msg) : List OptStep → Except Err Unit
  | [] => pure ()
  | s :: ss => if s.cty.ok (m.get s.field) then ctorOpts cls m ss else fail cls s.field

def ctorCross (cls : ErrClass) (O : Oracles) (m : Msg) : List Cross → Except Err Unit
  | [] => pure ()
  | c :: cs => if c.ok O m then ctorCross cls O m cs else fail cls c.site

/-- `_validate_kwargs` (called from `_init_app_payload`, after all assertions) -/
def kwargsCheck (m : Msg) : Except Err Unit :=
  match m.get cs!"kwargs" with
  | .null => pure ()
  | .dict _ => pure ()
  | _ => fail .protocol cs!"kwargs"

def tailPart (σ : Schema) (O : Oracles) (w : List WVal) : Except Err Msg :=
  match σ.tail with
  | some t => parseTail O t σ.k (σ.optsOf w) w
  | none => pure []

def customPart (σ : Schema) (O : Oracles) (w : List WVal) : Msg :=
  if σ.custom then [(cs!"custom", .dict ((σ.optsOf w).filter (fun kv => O.customAttr kv.1)))] else []

/-- the field-by-field part of `Klass.parse`: length, positions, tail, options (`ProtocolError` / `InvalidUriError`) -/
def parseFields (σ : Schema) (O : Oracles) (w : List WVal) : Except Err Msg :=
  if !(σ.lengths.contains w.length) then fail .protocol cs!"length"
  else do
    let pm ← parsePos O w σ.pos w.tail
    let tm ← σ.tailPart O w
    let om ← parseOpts O (σ.optsOf w) σ.opts
    pure (pm ++ tm ++ om ++ σ.customPart O w)

/-- the body of `Klass.parse` up to the constructor call: the fields, then the cross-field checks `parse` makes
itself (`ProtocolError`) -/
def parseStage (σ : Schema) (O : Oracles) (w : List WVal) : Except Err Msg := do
  let m ← σ.parseFields O w
  ctorCross .protocol O m σ.pcross
  pure m

/-- the constructor `Klass(...)` called at the end of `parse`: its `assert`s (`AssertionError`), then
`_validate_kwargs` (`ProtocolError`) -/
def ctorStage (σ : Schema) (O : Oracles) (m : Msg) : Except Err Unit := do
  ctorOpts σ.ctorErr m σ.opts
  ctorCross σ.ctorErr O m σ.cross
  (if σ.tail.isSome then kwargsCheck m else pure ())

/-- `Klass.parse(wmsg)` for a `wmsg` whose first element is the class's type code -/
def parse (σ : Schema) (O : Oracles) (w : List WVal) : Except Err Msg := do
  let m ← σ.parseStage O w
  σ.ctorStage O m
  pure m

/-! ### marshal -/

def marshalOpt (m : Msg) (s : OptStep) : Dict :=
  if s.mm.emits (m.get s.field) then [(s.key, s.ty.encode (m.get s.field))] else []

def encEntry (m : Msg) (f : Str) : Dict := if (m.get f).isNull then [] else [(f, m.get f)]

/-- `enc_*` go into the options only together with a (truthy) payload, each `if … is not None` -/
def marshalEnc (m : Msg) : Dict :=
  if (m.get cs!"payload").truthy then
    encEntry m cs!"enc_algo" ++ (encEntry m cs!"enc_key" ++ encEntry m cs!"enc_serializer")
  else []

def marshalDict (σ : Schema) (m : Msg) : Dict :=
  (if σ.custom then (m.get cs!"custom").entries else []) ++
  σ.opts.flatMap (marshalOpt m) ++ (if σ.tail.isSome then marshalEnc m else [])

def marshalPosStep (σ : Schema) (m : Msg) : PosStep → WVal
  | .opts => .dict (σ.marshalDict m)
  | p => match p.field? with
         | some f => m.get f
         | none => .null

def marshalTail (m : Msg) : List WVal :=
  if (m.get cs!"payload").truthy then [m.get cs!"payload"]
  else if (m.get cs!"kwargs").truthy then [m.get cs!"args", m.get cs!"kwargs"]
  else if (m.get cs!"args").truthy then [m.get cs!"args"]
  else []

/-- `msg.marshal()` -/
def marshal (σ : Schema) (m : Msg) : List WVal :=
  let ps := σ.pos.map (σ.marshalPosStep m)
  let ps := if σ.optsOptional && (σ.marshalDict m).isEmpty then ps.dropLast else ps
  .int σ.code :: ps ++ (if σ.tail.isSome then marshalTail m else [])

/-- names of the fields of a parsed message, in order -/
def fieldNames (σ : Schema) : List Str :=
  σ.pos.filterMap PosStep.field? ++
  (if σ.tail.isSome then [cs!"args", cs!"kwargs", cs!"payload", cs!"enc_algo", cs!"enc_key", cs!"enc_serializer"] else []) ++
  σ.opts.map (·.field) ++ (if σ.custom then [cs!"custom"] else [])

end Schema

end Abverif.Wamp
