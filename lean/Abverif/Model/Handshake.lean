import Abverif.Model.Http
import Abverif.Model.Url
import Abverif.Model.Crypto7.Sha1
import Abverif.Model.Crypto7.Base64
/-!
C07 — model and spec of the WebSocket opening handshake (`autobahn.websocket.protocol`).  Import-free.

* `Handshake.server cfg env : Bytes → SrvOut`   `WebSocketServerProtocol.processHandshake` → `succeedHandshake` /
  `failHandshake`, the validation chain IN ORDER (each stage is one `stage…` function, early exit = `Except.error`)
* `Handshake.client cfg env key : Bytes → CliOut`  `WebSocketClientProtocol.processHandshake`
* `Handshake.clientRequest`                      `_actuallyStartHandshake`
* `ValidRequest` / `ValidResponse`               the Spec: flat conjunctions written from RFC 6455 §4.1 / §4.2
* `feed` / `feedAll`                             the `data += chunk; processHandshake()` loop

The model mirrors the code after the repairs of the handshake findings: the version header and the status code are matched
against their grammars (`versionNumeral`, `statusCode`) instead of being read with `int()`, the client compares the
server's subprotocol with the protocols its request announced, the Host header carries an IPv6 host in brackets
(`hostHeader`), and `parseUrl` (Model/Url.lean) keeps the path parameters in the resource.

Every Python operation that can raise is explicit: either the enclosing `try/except` turns it into a `fail`, or it is
`SrvOut.escapes` / `CliOut.escapes` (the exception leaves `dataReceived`).  `stuck` = `succeedHandshake` raised inside
the future callback (nothing written, still CONNECTING).

Inputs that are outside the model (`Env`): result of the user's `onConnect`; number of open connections; validity of a
bracketed IP literal (`ipaddress`); for the web-status branch what `parse_qs` + `hyperlink` + `int` made of the query.
-/
namespace Abverif.Handshake
open Abverif Abverif.Http Abverif.Url

def crlf : Bytes := [13, 10]
def crlfcrlf : Bytes := [13, 10, 13, 10]
def guid : Bytes := b!"258EAFA5-E914-47DA-95CA-C5AB0DC85B11"

/-- `base64(sha1(key + GUID))` -/
def acceptDigest (key : Bytes) : Bytes :=
  Crypto7.Base64.encode (Crypto7.Sha1.hash (key ++ guid))

/-- exception classes that can leave `dataReceived` -/
inductive Exc where
  | unicodeDecodeError
  | valueError
  | urlParseError
  | indexError
  | other
deriving DecidableEq, Repr

def Exc.name : Exc → String
  | .unicodeDecodeError => "UnicodeDecodeError"
  | .valueError => "ValueError"
  | .urlParseError => "URLParseError"
  | .indexError => "IndexError"
  | .other => "Other"

/-! ### extensions header -/

/-- parameter value: `True` (no `=`) or the text after `=` with one leading / trailing quote removed -/
abbrev PVal := Option Bytes

structure Ext where
  name : Bytes
  params : List (Bytes × PVal)     -- in header order; the dict-of-lists is recovered by `paramVals`
deriving DecidableEq, Repr

def unquote (v : Bytes) : Bytes :=
  let v := match v with | 34 :: r => r | _ => v
  match v.getLast? with
  | some 34 => v.dropLast
  | _ => v

def parseParam (p : Bytes) : Bytes × PVal :=
  match (splitOn 61 p).map strip with
  | [] => ([], none)
  | [k] => (lower k, none)
  | k :: vs => (lower k, some (unquote (join [61] vs)))

def parseExt (e : Bytes) : Ext :=
  match (splitOn 59 e).map strip with
  | [] => ⟨[], []⟩
  | n :: ps => ⟨lower n, ps.map parseParam⟩

/-- `_parseExtensionsHeader(header)` -/
def parseExtensions (header : Bytes) : List Ext :=
  (((splitOn 44 header).map strip).filter (· ≠ [])).map parseExt

def paramVals (e : Ext) (k : Bytes) : List PVal := (e.params.filter (·.1 = k)).map (·.2)

/-! ### permessage-compress parameter validation (`Offer.parse` / `Response.parse`) -/

inductive PKind where
  | flag                      -- must be valueless
  | int (lo hi : Nat)         -- `int(val)` in range; a valueless parameter is `int(True) = 1`
  | flagOrInt (lo hi : Nat)   -- valueless, or as `int`
deriving DecidableEq, Repr

def pvalOk : PKind → PVal → Bool
  | .flag, v => v.isNone
  | .int lo hi, none => decide (lo ≤ 1 ∧ 1 ≤ hi)
  | .int lo hi, some t => (match pyInt t with | some n => decide ((lo : Int) ≤ n ∧ n ≤ (hi : Int)) | none => false)
  | .flagOrInt _ _, none => true
  | .flagOrInt lo hi, some t =>
    (match pyInt t with | some n => decide ((lo : Int) ≤ n ∧ n ≤ (hi : Int)) | none => false)

/-- the parameter tables: extension name ↦ (offer table, response table) -/
def pmceTable : List (Bytes × List (Bytes × PKind) × List (Bytes × PKind)) :=
  [ (b!"permessage-deflate",
      [ (b!"client_max_window_bits", .flagOrInt 9 15), (b!"client_no_context_takeover", .flag),
        (b!"server_max_window_bits", .int 9 15), (b!"server_no_context_takeover", .flag) ],
      [ (b!"client_max_window_bits", .int 9 15), (b!"client_no_context_takeover", .flag),
        (b!"server_max_window_bits", .int 9 15), (b!"server_no_context_takeover", .flag) ]),
    (b!"permessage-bzip2",
      [ (b!"client_max_compress_level", .flag), (b!"server_max_compress_level", .int 1 9) ],
      [ (b!"client_max_compress_level", .int 1 9), (b!"server_max_compress_level", .int 1 9) ]) ]

def isPmce (name : Bytes) : Bool := pmceTable.any (·.1 = name)

def tableOf (isOffer : Bool) (name : Bytes) : List (Bytes × PKind) :=
  match pmceTable.find? (·.1 = name) with
  | some (_, o, r) => if isOffer then o else r
  | none => []

/-- `PMCE["Offer"|"Response"].parse(params)` does not raise: every key known, once, value of the right kind -/
def pmceParamsOk (isOffer : Bool) (e : Ext) : Bool :=
  e.params.all (fun kv =>
    (paramVals e kv.1).length = 1 &&
    (match (tableOf isOffer e.name).find? (·.1 = kv.1) with
     | some (_, kind) => pvalOk kind kv.2
     | none => false))

/-! ### server -/

/-- what the server's `perMessageCompressionAccept` does -/
inductive AcceptPolicy where
  | denyAll                  -- the default `lambda _: None`
  | firstDeflate             -- `PerMessageDeflateOfferAccept(first deflate offer)` with default arguments
deriving DecidableEq, Repr

structure SrvCfg where
  versions : List Nat := [8, 13]
  webStatus : Bool := true
  /-- `factory.externalPort` (0 = not set) -/
  externalPort : Nat := 0
  allowedOrigins : List Bytes := [[42]]
  allowNullOrigin : Bool := true
  maxConnections : Nat := 0
  /-- `factory.server` ([] = falsy) -/
  serverHeader : Bytes := []
  /-- `factory.headers`, values already flattened -/
  headers : List (Bytes × Bytes) := []
  flashPolicy : Bool := false
  accept : AcceptPolicy := .denyAll
  /-- asyncio: an exception raised by `succeedHandshake` reaches the errback (500); Twisted: it is lost in the Deferred -/
  aio : Bool := false
deriving Repr

inductive OnConnect where
  | accept (proto : Option Bytes) (headers : List (Bytes × Bytes))
  | deny (code : Nat)
  | raises
deriving DecidableEq, Repr

/-- the web-status query as the libraries see it (`parse_qs`, `hyperlink.URL.from_text(..).to_uri().normalize()`,
`int`) -/
inductive After where
  | absent
  | bad                       -- `int()` raises ValueError
  | val (n : Int)
deriving DecidableEq, Repr

inductive Redirect where
  | absent                              -- no non-empty `redirect` parameter
  | bad (cls : Exc)                     -- hyperlink raises
  | url (text : Bytes) (after : After)  -- normalised URL (UTF-8 octets)
deriving DecidableEq, Repr

structure SrvEnv where
  brOk : Bytes → Bool := fun _ => false
  /-- `factory.countConnections` including this connection -/
  connCount : Nat := 1
  onConnect : OnConnect := .accept none []
  redirect : Redirect := .absent

inductive SrvOut where
  | incomplete
  | fail (code : Nat) (extra : List (Bytes × Bytes))
  | statusPage (refresh : Option (Int × Bytes))
  | redirect303 (url : Bytes)
  | flash
  | opened (response : Bytes) (proto : Option Bytes) (exts : List Bytes) (rest : Bytes)
  | stuck
  | escapes (cls : Exc)
deriving DecidableEq, Repr

abbrev Stage (α : Type) := Except SrvOut α

def bad : Stage α := .error (.fail 400 [])

/-- request line: `rl = line.split()`, three parts, `GET`, `HTTP/1.1` → the request URI -/
def stageLine (line : Bytes) : Stage Bytes :=
  match splitWs line with
  | [m, uri, ver] =>
    if m ≠ b!"GET" then .error (.fail 405 [])
    else if splitOn 47 ver ≠ [b!"HTTP", b!"1.1"] then .error (.fail 505 [])
    else .ok uri
  | _ => bad

/-- `urlparse(uri)` does not raise and the fragment is empty -/
def stageUri (env : SrvEnv) (uri : Bytes) : Stage Unit :=
  match urlsplit env.brOk uri with
  | none => bad
  | some u => if u.fragment ≠ [] then bad else .ok ()

def digitVal (c : UInt8) : Nat := c.toNat - 48

/-- `_HTTP_PORT_PAT.fullmatch(p)` with the pattern `[0-9]*`, then `int(p)` unless `p` is empty
(fix 03842ff8; before it `int(p.strip())`: `+8_0`, `-1`, ` 80` were read as ports).
`none` = refused (not all digits, or more digits than `int()` converts), `some none` = empty port (treated as no port) -/
def portNumeral (p : Bytes) : Option (Option Nat) :=
  if p.all isDigit then
    if p = [] then some none
    else if p.length ≤ maxStrDigits then some (some (p.foldl (fun v c => v * 10 + digitVal c) 0)) else none
  else none

/-- exactly one Host; a port, if present, is a digit string and matches `externalPort` when that is set -/
def stageHost (cfg : SrvCfg) (hs : List Hdr) : Stage Unit :=
  match hget hs b!"host" with
  | none => bad
  | some h =>
    if h.cnt > 1 then bad else
    let host := strip h.val
    if contains 58 host && host.getLast? ≠ some 93 then
      match rcut 58 host with
      | none => bad      -- unreachable: `host` contains ':'
      | some (_, p) =>
        match portNumeral p with
        | none => bad
        | some none => .ok ()
        | some (some port) => if cfg.externalPort ≠ 0 ∧ port ≠ cfg.externalPort then bad else .ok ()
    else .ok ()

/-- no Upgrade header: status page / redirect (if `webStatus`) or 426; else it must list `websocket` -/
def stageUpgrade (cfg : SrvCfg) (env : SrvEnv) (hs : List Hdr) : Stage Unit :=
  match hget hs b!"upgrade" with
  | none =>
    if cfg.webStatus then
      match env.redirect with
      | .absent => .error (.statusPage none)
      | .bad _ => bad                              -- `except Exception: failHandshake(…)`   (fix cb4d1ff0)
      | .url u .absent => .error (.redirect303 u)
      | .url _ .bad => bad                         -- `except ValueError: failHandshake(…)`  (fix cb4d1ff0)
      | .url u (.val n) => .error (.statusPage (some (n, u)))
    else .error (.fail 426 [])
  | some h => if hasToken b!"websocket" h.val then .ok () else bad

def stageConnection (hs : List Hdr) : Stage Unit :=
  match hget hs b!"connection" with
  | none => bad
  | some h => if hasToken b!"upgrade" h.val then .ok () else bad

/-- `",".join(str(x) for x in reversed(sorted(versions)))` -/
def versionsDesc (vs : List Nat) : Bytes :=
  join [44] ((vs.mergeSort (fun a b => decide (b ≤ a))).map natDigits)

/-- `_WS_VERSION_PAT.fullmatch(v)` with the pattern `[0-9]|[1-9][0-9]|1[0-9][0-9]|2[0-4][0-9]|25[0-5]`, then `int(v)`
(fix 3f5d73c8; before it the value went through `int()` alone: `+13`, `1_3`, `013` were read as 13) -/
def versionNumeral (s : Bytes) : Option Nat :=
  match s with
  | [a] => if isDigit a then some (digitVal a) else none
  | [a, b] => if 49 ≤ a && a ≤ 57 && isDigit b then some (digitVal a * 10 + digitVal b) else none
  | [a, b, c] =>
    if (a == 49 && isDigit b && isDigit c) || (a == 50 && 48 ≤ b && b ≤ 52 && isDigit c) ||
       (a == 50 && b == 53 && 48 ≤ c && c ≤ 53)
    then some (digitVal a * 100 + digitVal b * 10 + digitVal c) else none
  | _ => none

def stageVersion (cfg : SrvCfg) (hs : List Hdr) : Stage Nat :=
  match hget hs b!"sec-websocket-version" with
  | none => bad
  | some h =>
    if h.cnt > 1 then bad else
    match versionNumeral h.val with
    | none => bad
    | some v =>
      if v ∈ cfg.versions then .ok v
      else .error (.fail 400 [(b!"Sec-WebSocket-Version", versionsDesc cfg.versions)])

def stageProtocols (hs : List Hdr) : Stage (List Bytes) :=
  match hget hs b!"sec-websocket-protocol" with
  | none => .ok []
  | some h =>
    let ps := (splitOn 44 h.val).map strip
    if ps.Nodup then .ok ps else bad

def originKey (version : Nat) : Bytes := if version < 13 then b!"sec-websocket-origin" else b!"origin"

def stageOrigin (cfg : SrvCfg) (env : SrvEnv) (hs : List Hdr) (version : Nat) : Stage Unit :=
  match hget hs (originKey version) with
  | none => .ok ()
  | some h =>
    if h.cnt > 1 then bad else
    match urlToOrigin env.brOk (strip h.val) with
    | none => bad
    | some o =>
      if (o = .null && cfg.allowNullOrigin) || isSameOrigin o cfg.allowedOrigins then .ok () else bad

def keyShapeOk (key : Bytes) : Bool :=
  key.length = 24 && key.drop 22 == b!"==" && (key.take 22).all Crypto7.Base64.isAlphabet

def stageKey (hs : List Hdr) : Stage Bytes :=
  match hget hs b!"sec-websocket-key" with
  | none => bad
  | some h =>
    if h.cnt > 1 then bad else
    let key := strip h.val
    if key.length ≠ 24 then bad
    else if key.drop 22 ≠ b!"==" then bad
    else if !(key.take 22).all Crypto7.Base64.isAlphabet then bad
    else .ok key

def stageExtensions (hs : List Hdr) : Stage (List Ext) :=
  match hget hs b!"sec-websocket-extensions" with
  | none => .ok []
  | some h => if h.cnt > 1 then bad else .ok (parseExtensions h.val)

def stageMax (cfg : SrvCfg) (env : SrvEnv) : Stage Unit :=
  if cfg.maxConnections > 0 ∧ env.connCount > cfg.maxConnections then .error (.fail 503 []) else .ok ()

structure Validated where
  version : Nat
  protocols : List Bytes
  key : Bytes
  exts : List Ext
deriving DecidableEq, Repr

/-- the validation chain of `processHandshake`, in source order -/
def validate (cfg : SrvCfg) (env : SrvEnv) (line : Bytes) (hs : List Hdr) : Stage Validated := do
  let uri ← stageLine line
  stageUri env uri
  stageHost cfg hs
  stageUpgrade cfg env hs
  stageConnection hs
  let version ← stageVersion cfg hs
  let protocols ← stageProtocols hs
  stageOrigin cfg env hs version
  let key ← stageKey hs
  let exts ← stageExtensions hs
  stageMax cfg env
  pure ⟨version, protocols, key, exts⟩

/-- `PerMessageDeflateOfferAccept(offer).get_extension_string()` with default arguments: the server grants what
the offer requests -/
def deflateAcceptString (offer : Ext) : Bytes :=
  let s := b!"permessage-deflate"
  let s := if (paramVals offer b!"server_no_context_takeover").isEmpty then s
           else s ++ b!"; server_no_context_takeover"
  match paramVals offer b!"server_max_window_bits" with
  | [some t] => (match pyInt t with | some n => s ++ b!"; server_max_window_bits=" ++ natDigits n.toNat | none => s)
  | _ => s

def renderHeaders (hs : List (Bytes × Bytes)) : Bytes :=
  hs.flatMap (fun kv => kv.1 ++ b!": " ++ kv.2 ++ crlf)

/-- the 101 response text (before `.encode("utf8")`) -/
def renderResponse (cfg : SrvCfg) (userHeaders : List (Bytes × Bytes)) (proto : Option Bytes) (key : Bytes)
    (exts : List Bytes) : Bytes :=
  b!"HTTP/1.1 101 Switching Protocols" ++ crlf
  ++ (if cfg.serverHeader.isEmpty then [] else b!"Server: " ++ cfg.serverHeader ++ crlf)
  ++ b!"Upgrade: WebSocket" ++ crlf
  ++ b!"Connection: Upgrade" ++ crlf
  ++ renderHeaders cfg.headers ++ renderHeaders userHeaders
  ++ (match proto with | some p => b!"Sec-WebSocket-Protocol: " ++ p ++ crlf | none => [])
  ++ b!"Sec-WebSocket-Accept: " ++ acceptDigest key ++ crlf
  ++ (if exts.isEmpty then [] else b!"Sec-WebSocket-Extensions: " ++ join [44] exts ++ crlf)
  ++ crlf

/-- `succeedHandshake(res)` -/
def succeed (cfg : SrvCfg) (v : Validated) (proto : Option Bytes) (userHeaders : List (Bytes × Bytes))
    (rest : Bytes) : SrvOut :=
  if (match proto with | some p => decide (p ∉ v.protocols) | none => false) then
    (if cfg.aio then .fail 500 [] else .stuck) else
  let pm := v.exts.filter (fun e => isPmce e.name)
  if !pm.all (pmceParamsOk true) then .fail 400 [] else
  let exts : List Bytes := match cfg.accept with
    | .denyAll => []
    | .firstDeflate => (match pm.find? (·.name = b!"permessage-deflate") with
        | some o => [deflateAcceptString o]
        | none => [])
  .opened (utf8Encode (renderResponse cfg userHeaders proto v.key exts)) proto exts rest

def flashRequest : Bytes := b!"<policy-file-request/>" ++ [0]

/-- `processHandshake()` on the buffered octets -/
def server (cfg : SrvCfg) (env : SrvEnv) (data : Bytes) : SrvOut :=
  match find crlfcrlf data with
  | none => if cfg.flashPolicy && (find flashRequest data).isSome then .flash else .incomplete
  | some eoh =>
    match parseHttpHeader (data.take (eoh + 4)) with
    | none => .fail 400 []
    | some (line, hs) =>
      match validate cfg env line hs with
      | .error o => o
      | .ok v =>
        match env.onConnect with
        | .deny code => .fail code []
        | .raises => .fail 500 []
        | .accept proto uh => succeed cfg v proto uh (data.drop (eoh + 4))

/-! ### client -/

inductive CliAccept where
  | denyAll      -- the default `lambda _: None`
  | acceptAll    -- accepts whatever parsed
deriving DecidableEq, Repr

structure CliCfg where
  host : Bytes := b!"localhost"
  port : Nat := 80
  resource : Bytes := b!"/"
  /-- [] = None or "" -/
  useragent : Bytes := []
  headers : List (Bytes × Bytes) := []
  /-- [] = None or "" -/
  origin : Bytes := []
  /-- the protocols the request announces (`request_options.protocols`, kept in `self.websocket_protocols`): what
  `processHandshake` compares the server's choice with (fix bbd39a59; before
  it the comparison was with `factory.protocols`, which differs when `onConnecting` returns its own request) -/
  protocols : List Bytes := []
  /-- spec (draft) version 10..18 -/
  version : Nat := 18
  /-- extension strings of `perMessageCompressionOffers` -/
  offers : List Bytes := []
  accept : CliAccept := .denyAll
deriving Repr

def specToProtocol (v : Nat) : Nat := if v ≤ 12 then 8 else 13

/-- the host as it goes into the Host header: a host containing `:` (an IPv6 address, whose brackets `parse_url`
removed) is put back into brackets (fix c9c482eb) -/
def hostHeader (host : Bytes) : Bytes :=
  if contains 58 host && host.head? != some 91 then [91] ++ host ++ [93] else host

/-- `_actuallyStartHandshake`: the request text, UTF-8 encoded -/
def clientRequest (cfg : CliCfg) (key : Bytes) : Bytes :=
  utf8Encode (
    b!"GET " ++ cfg.resource ++ b!" HTTP/1.1" ++ crlf
    ++ (if cfg.useragent.isEmpty then [] else b!"User-Agent: " ++ cfg.useragent ++ crlf)
    ++ b!"Host: " ++ hostHeader cfg.host ++ b!":" ++ natDigits cfg.port ++ crlf
    ++ b!"Upgrade: WebSocket" ++ crlf
    ++ b!"Connection: Upgrade" ++ crlf
    ++ b!"Pragma: no-cache" ++ crlf
    ++ b!"Cache-Control: no-cache" ++ crlf
    ++ renderHeaders cfg.headers
    ++ b!"Sec-WebSocket-Key: " ++ key ++ crlf
    ++ (if cfg.origin.isEmpty then []
        else (if cfg.version > 10 then b!"Origin: " else b!"Sec-WebSocket-Origin: ") ++ cfg.origin ++ crlf)
    ++ (if cfg.protocols.isEmpty then [] else b!"Sec-WebSocket-Protocol: " ++ join [44] cfg.protocols ++ crlf)
    ++ (if cfg.offers.isEmpty then [] else b!"Sec-WebSocket-Extensions: " ++ join [44] cfg.offers ++ crlf)
    ++ b!"Sec-WebSocket-Version: " ++ natDigits (specToProtocol cfg.version) ++ crlf
    ++ crlf)

inductive CliOut where
  | incomplete
  | fail
  | opened (proto : Option Bytes) (exts : List Bytes) (rest : Bytes)
  | escapes (cls : Exc)
deriving DecidableEq, Repr

abbrev CStage (α : Type) := Except CliOut α

def cbad : CStage α := .error .fail

/-- `_HTTP_STATUS_CODE_PAT.fullmatch(code)` with the pattern `[0-9]{3}`, then `int(code)`
(fix 900bd49a; before it `int()` alone: `+101`, `1_01`, `0101` were read as 101) -/
def statusCode (s : Bytes) : Option Nat :=
  match s with
  | [a, b, c] =>
    if isDigit a && isDigit b && isDigit c then some (digitVal a * 100 + digitVal b * 10 + digitVal c) else none
  | _ => none

/-- status line: at least two parts, `HTTP/1.1`, a three-digit status code that is 101 -/
def cstageStatus (line : Bytes) : CStage Unit :=
  match splitWs line with
  | ver :: code :: _ =>
    if ver ≠ b!"HTTP/1.1" then cbad
    else match statusCode code with
      | none => cbad
      | some n => if n = 101 then .ok () else cbad
  | _ => cbad

def cstageUpgrade (hs : List Hdr) : CStage Unit :=
  match hget hs b!"upgrade" with
  | none => cbad
  | some h => if lower (strip h.val) = b!"websocket" then .ok () else cbad

def cstageConnection (hs : List Hdr) : CStage Unit :=
  match hget hs b!"connection" with
  | none => cbad
  | some h => if hasToken b!"upgrade" h.val then .ok () else cbad

def cstageAccept (key : Bytes) (hs : List Hdr) : CStage Unit :=
  match hget hs b!"sec-websocket-accept" with
  | none => cbad
  | some h =>
    if h.cnt > 1 then cbad
    else if strip h.val ≠ acceptDigest key then cbad
    else .ok ()

/-- every extension must be a permessage-compress extension, at most one, parse, and be approved -/
def cextLoop (cfg : CliCfg) : List Ext → Bool → Option (List Bytes)
  | [], _ => some []
  | e :: es, have1 =>
    if isPmce e.name then
      if have1 then none
      else if !pmceParamsOk false e then none
      else if cfg.accept = .denyAll then none
      else (cextLoop cfg es true).map (e.name :: ·)
    else none

def cstageExtensions (cfg : CliCfg) (hs : List Hdr) : CStage (List Bytes) :=
  match hget hs b!"sec-websocket-extensions" with
  | none => .ok []
  | some h =>
    if h.cnt > 1 then cbad
    else match cextLoop cfg (parseExtensions h.val) false with
      | none => cbad
      | some l => .ok l

def cstageProtocol (cfg : CliCfg) (hs : List Hdr) : CStage (Option Bytes) :=
  match hget hs b!"sec-websocket-protocol" with
  | none => .ok none
  | some h =>
    if h.cnt > 1 then cbad else
    let sp := strip h.val
    if sp = [] then .ok none
    else if sp ∈ cfg.protocols then .ok (some sp) else cbad

def cvalidate (cfg : CliCfg) (key : Bytes) (line : Bytes) (hs : List Hdr) : CStage (Option Bytes × List Bytes) := do
  cstageStatus line
  cstageUpgrade hs
  cstageConnection hs
  cstageAccept key hs
  let exts ← cstageExtensions cfg hs
  let proto ← cstageProtocol cfg hs
  pure (proto, exts)

/-- client `processHandshake()` on the buffered octets; `key` = the `Sec-WebSocket-Key` this client sent -/
def client (cfg : CliCfg) (key : Bytes) (data : Bytes) : CliOut :=
  match find crlfcrlf data with
  | none => .incomplete
  | some eoh =>
    let head := data.take (eoh + 4)
    -- (the eager `.decode("utf8")` of the debug log call now uses errors="replace": fix 96829a53)
    match parseHttpHeader head with
    | none => .escapes .indexError
    | some (line, hs) =>
      match cvalidate cfg key line hs with
      | .error o => o
      | .ok (proto, exts) => .opened proto exts (data.drop (eoh + 4))

/-! ### feeding chunks -/

/-- the connection while CONNECTING: the buffer, or the verdict once one was reached -/
inductive Conn (α : Type) where
  | buffering (data : Bytes)
  | done (out : α)

/-- `dataReceived(chunk)`: `data += chunk; processHandshake()`; after a verdict the handshake code is not re-entered -/
def feedWith (judge : Bytes → α) (isIncomplete : α → Bool) : Conn α → Bytes → Conn α
  | .done o, _ => .done o
  | .buffering d, chunk =>
    let o := judge (d ++ chunk)
    if isIncomplete o then .buffering (d ++ chunk) else .done o

def feedAllWith (judge : Bytes → α) (isIncomplete : α → Bool) (c : Conn α) (chunks : List Bytes) : Conn α :=
  chunks.foldl (feedWith judge isIncomplete) c

def SrvOut.isIncomplete : SrvOut → Bool
  | .incomplete => true
  | _ => false

def CliOut.isIncomplete : CliOut → Bool
  | .incomplete => true
  | _ => false

/-- verdict after a sequence of reads (`incomplete` while still buffering) -/
def Conn.result (inc : α) : Conn α → α
  | .buffering _ => inc
  | .done o => o

def serverFeed (cfg : SrvCfg) (env : SrvEnv) (chunks : List Bytes) : SrvOut :=
  (feedAllWith (server cfg env) SrvOut.isIncomplete (.buffering []) chunks).result .incomplete

def clientFeed (cfg : CliCfg) (key : Bytes) (chunks : List Bytes) : CliOut :=
  (feedAllWith (client cfg key) CliOut.isIncomplete (.buffering []) chunks).result .incomplete

/-! ### Spec (RFC 6455 §4.2.1 / §4.1), over the parsed header block -/

/-- RFC 6455 §4.2.1 / §9.1: `version = DIGIT | (NZDIGIT DIGIT) | ("1" DIGIT DIGIT) | ("2" DIGIT DIGIT)`, 0–255 -/
def rfcVersion (s : Bytes) : Option Nat :=
  match s with
  | [a] => if isDigit a then some (a.toNat - 48) else none
  | [a, b] => if 49 ≤ a && a ≤ 57 && isDigit b then some ((a.toNat - 48) * 10 + (b.toNat - 48)) else none
  | [a, b, c] =>
    if (a == 49 || a == 50) && isDigit b && isDigit c then
      let n := (a.toNat - 48) * 100 + (b.toNat - 48) * 10 + (c.toNat - 48)
      if n ≤ 255 then some n else none
    else none
  | _ => none

def count (hs : List Hdr) (k : Bytes) : Nat := match hget hs k with | some h => h.cnt | none => 0
def value (hs : List Hdr) (k : Bytes) : Bytes := match hget hs k with | some h => h.val | none => []

/-- the request line is `GET <uri> HTTP/1.1` and the URI parses without a fragment -/
def requestLineOk (env : SrvEnv) (line : Bytes) : Bool :=
  match splitWs line with
  | [m, uri, ver] =>
    m == b!"GET" && ver == b!"HTTP/1.1" &&
      (match urlsplit env.brOk uri with | some u => u.fragment == [] | none => false)
  | _ => false

/-- RFC 7230 §5.4 / RFC 3986 §3.2.3 `port = *DIGIT`, read digit by digit (the Spec's own rule: no sign, blank or
separator; it shares nothing with the model of Python's `int()`); `none` = not a port -/
def rfcPort : Bytes → Nat → Option Nat
  | [], acc => some acc
  | c :: r, acc => if 48 ≤ c && c ≤ 57 then rfcPort r (acc * 10 + (c.toNat - 48)) else none

/-- Host value: `host`, `[v6]`, or `host:port` with `port = *DIGIT` (at most 4300 digits: longer numerals are refused,
an implementation limit of the integer conversion) that, unless empty, equals the external port if one is configured -/
def hostOk (cfg : SrvCfg) (v : Bytes) : Bool :=
  let host := strip v
  if contains 58 host && host.getLast? ≠ some 93 then
    match rcut 58 host with
    | some (_, p) =>
      (match rfcPort p 0 with
       | some port => p == [] || (p.length ≤ 4300 && (cfg.externalPort == 0 || port == cfg.externalPort))
       | none => false)
    | none => false
  else true

/-- the Origin value is allowed: a `null`-like origin when `allowNullOrigin`, otherwise some allowed pattern
matches the WHOLE `scheme://host:port` -/
def originAllowed (cfg : SrvCfg) (env : SrvEnv) (v : Bytes) : Bool :=
  match urlToOrigin env.brOk (strip v) with
  | none => false
  | some .null => cfg.allowNullOrigin
  | some (.triple s h p) => cfg.allowedOrigins.any (fun pat => Glob.fullMatch pat (originHeader s h p))

/-- at most one origin header (the one this protocol version uses), and it is allowed -/
def originOk (cfg : SrvCfg) (env : SrvEnv) (hs : List Hdr) : Bool :=
  match rfcVersion (value hs b!"sec-websocket-version") with
  | none => true
  | some v => count hs (originKey v) == 0 ||
      (count hs (originKey v) == 1 && originAllowed cfg env (value hs (originKey v)))

/-- every permessage-compress offer in the extensions value is well-formed (autobahn refuses the whole handshake
otherwise; offers for extensions it does not know are ignored) -/
def offersOk (v : Bytes) : Bool := ((parseExtensions v).filter (fun e => isPmce e.name)).all (pmceParamsOk true)

/-- RFC 6455 §4.2.1 + the server's configuration -/
structure ValidRequest (cfg : SrvCfg) (env : SrvEnv) (line : Bytes) (hs : List Hdr) : Prop where
  line : requestLineOk env line = true
  host : count hs b!"host" = 1 ∧ hostOk cfg (value hs b!"host") = true
  upgrade : count hs b!"upgrade" ≥ 1 ∧ hasToken b!"websocket" (value hs b!"upgrade") = true
  connection : count hs b!"connection" ≥ 1 ∧ hasToken b!"upgrade" (value hs b!"connection") = true
  version : count hs b!"sec-websocket-version" = 1 ∧
    ∃ v ∈ cfg.versions, rfcVersion (value hs b!"sec-websocket-version") = some v
  protocols : ((splitOn 44 (value hs b!"sec-websocket-protocol")).map strip).Nodup
  origin : originOk cfg env hs = true
  key : count hs b!"sec-websocket-key" = 1 ∧ keyShapeOk (strip (value hs b!"sec-websocket-key")) = true
  extensions : count hs b!"sec-websocket-extensions" ≤ 1 ∧
    offersOk (value hs b!"sec-websocket-extensions") = true
  capacity : cfg.maxConnections = 0 ∨ env.connCount ≤ cfg.maxConnections

instance (cfg : SrvCfg) (env : SrvEnv) (line : Bytes) (hs : List Hdr) : Decidable (ValidRequest cfg env line hs) :=
  decidable_of_iff
    (requestLineOk env line = true ∧ (count hs b!"host" = 1 ∧ hostOk cfg (value hs b!"host") = true) ∧
     (count hs b!"upgrade" ≥ 1 ∧ hasToken b!"websocket" (value hs b!"upgrade") = true) ∧
     (count hs b!"connection" ≥ 1 ∧ hasToken b!"upgrade" (value hs b!"connection") = true) ∧
     (count hs b!"sec-websocket-version" = 1 ∧
        ∃ v ∈ cfg.versions, rfcVersion (value hs b!"sec-websocket-version") = some v) ∧
     ((splitOn 44 (value hs b!"sec-websocket-protocol")).map strip).Nodup ∧
     originOk cfg env hs = true ∧
     (count hs b!"sec-websocket-key" = 1 ∧ keyShapeOk (strip (value hs b!"sec-websocket-key")) = true) ∧
     (count hs b!"sec-websocket-extensions" ≤ 1 ∧ offersOk (value hs b!"sec-websocket-extensions") = true) ∧
     (cfg.maxConnections = 0 ∨ env.connCount ≤ cfg.maxConnections))
    ⟨fun ⟨a, b, c, d, e, f, g, h, i, j⟩ => ⟨a, b, c, d, e, f, g, h, i, j⟩,
     fun ⟨a, b, c, d, e, f, g, h, i, j⟩ => ⟨a, b, c, d, e, f, g, h, i, j⟩⟩

/-- the response names no extension, or exactly one permessage-compress extension with well-formed parameters that the
client's accept policy approves -/
def responseExtensionsOk (cfg : CliCfg) (v : Bytes) : Bool :=
  match parseExtensions v with
  | [] => true
  | [e] => isPmce e.name && pmceParamsOk false e && (cfg.accept != .denyAll)
  | _ => false

/-- RFC 6455 §4.1 (client side), for the client that sent `key` and announced `cfg.protocols` -/
structure ValidResponse (cfg : CliCfg) (key : Bytes) (line : Bytes) (hs : List Hdr) : Prop where
  status : ∃ rest, splitWs line = b!"HTTP/1.1" :: b!"101" :: rest
  upgrade : count hs b!"upgrade" ≥ 1 ∧ lower (strip (value hs b!"upgrade")) = b!"websocket"
  connection : count hs b!"connection" ≥ 1 ∧ hasToken b!"upgrade" (value hs b!"connection") = true
  accept : count hs b!"sec-websocket-accept" = 1 ∧ strip (value hs b!"sec-websocket-accept") = acceptDigest key
  extensions : count hs b!"sec-websocket-extensions" ≤ 1 ∧
    responseExtensionsOk cfg (value hs b!"sec-websocket-extensions") = true
  protocol : count hs b!"sec-websocket-protocol" ≤ 1 ∧
    (strip (value hs b!"sec-websocket-protocol") = [] ∨
     strip (value hs b!"sec-websocket-protocol") ∈ cfg.protocols)

def statusOk (line : Bytes) : Bool :=
  match splitWs line with
  | a :: b :: _ => a == b!"HTTP/1.1" && b == b!"101"
  | _ => false

instance (cfg : CliCfg) (key : Bytes) (line : Bytes) (hs : List Hdr) : Decidable (ValidResponse cfg key line hs) :=
  decidable_of_iff
    (statusOk line = true ∧
     (count hs b!"upgrade" ≥ 1 ∧ lower (strip (value hs b!"upgrade")) = b!"websocket") ∧
     (count hs b!"connection" ≥ 1 ∧ hasToken b!"upgrade" (value hs b!"connection") = true) ∧
     (count hs b!"sec-websocket-accept" = 1 ∧ strip (value hs b!"sec-websocket-accept") = acceptDigest key) ∧
     (count hs b!"sec-websocket-extensions" ≤ 1 ∧
        responseExtensionsOk cfg (value hs b!"sec-websocket-extensions") = true) ∧
     (count hs b!"sec-websocket-protocol" ≤ 1 ∧
       (strip (value hs b!"sec-websocket-protocol") = [] ∨
        strip (value hs b!"sec-websocket-protocol") ∈ cfg.protocols)))
    ⟨fun ⟨a, b, c, d, e, f⟩ => ⟨by
        unfold statusOk at a
        split at a
        · next x y r h => simp at a; exact ⟨r, by rw [h, a.1, a.2]⟩
        · simp at a, b, c, d, e, f⟩,
     fun ⟨⟨r, a⟩, b, c, d, e, f⟩ => ⟨by simp [statusOk, a], b, c, d, e, f⟩⟩

/-- the Spec verdict on raw octets: the header block up to the first CRLFCRLF, parsed as Latin-1 -/
def specRequest (cfg : SrvCfg) (env : SrvEnv) (data : Bytes) : Bool :=
  match find crlfcrlf data with
  | none => false
  | some eoh =>
    match parseHttpHeader (data.take (eoh + 4)) with
    | none => false
    | some (line, hs) => decide (ValidRequest cfg env line hs)

def specResponse (cfg : CliCfg) (key : Bytes) (data : Bytes) : Bool :=
  match find crlfcrlf data with
  | none => false
  | some eoh =>
    match parseHttpHeader (data.take (eoh + 4)) with
    | none => false
    | some (line, hs) => decide (ValidResponse cfg key line hs)

end Abverif.Handshake
