import Abverif.Model.Messages
/- TEMPORARY STUB (replaced once Model/Uri.lean exists) -/
namespace Abverif.Wamp

def stubLoose (c : Char) : Bool := !(c == ' ' || c == '\n' || c == '\t' || c == '.' || c == '#')
def stubSplit : List Char → List (List Char)
  | [] => [[]]
  | c :: cs => if c == '.' then [] :: stubSplit cs else match stubSplit cs with | [] => [[c]] | p :: ps => (c :: p) :: ps
def stubUri (_strict ae ale : Bool) (s : Str) : Bool :=
  let s := if s.getLast? == some '\n' then s.dropLast else s
  let comps := stubSplit s
  comps.all (·.all stubLoose) &&
  (if ale then comps.dropLast.all (!·.isEmpty) else if ae then true else comps.all (!·.isEmpty))

def stubLow (c : Char) : Bool := ('a' ≤ c && c ≤ 'z')
def stubWord (c : Char) : Bool := stubLow c || c.isDigit || c == '_'
def stubCustom (s : Str) : Bool :=
  let s := if s.getLast? == some '\n' then s.dropLast else s
  match s with
  | ['x', '_'] => true
  | 'x' :: '_' :: c :: d :: rest => stubLow c && stubWord d && rest.all stubWord
  | _ => false
def oracles : Oracles := ⟨stubUri, stubCustom⟩

end Abverif.Wamp
