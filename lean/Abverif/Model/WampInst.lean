import Abverif.Model.Messages
import Abverif.Model.Uri
/-
The schema engine instantiated with the recognisers regenerated from message.py:
`check_or_raise_uri` ↦ `Uri.check` (the six `_URI_PAT_*`), `_CUSTOM_ATTRIBUTE.match` ↦ `Uri.customAttr`.
-/
namespace Abverif.Wamp

def oracles : Oracles := ⟨Uri.check, Uri.customAttr⟩

end Abverif.Wamp
