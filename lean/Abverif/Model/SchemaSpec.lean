import Abverif.Model.Schema
/-
Specification predicates of the schema engine (all `Bool`-valued, so concrete instances are checked by `decide`):

* `Schema.wf`      — well-formedness of a schema (distinct field names / option keys, consistent layout)
* `Schema.strict`  — what C08 calls strictness of a parsed message: every id in [0, 2^53], every URI in the grammar
                      for its flags, every option of its declared type (conclusion of `parse_strict`)
* `Schema.residual`— the additional conditions under which `marshal` loses nothing (what the round trip needs on
                      top of `strict`): options written only when truthy must be `None` or truthy, …
* `Schema.valid`   — `strict ∧ residual ∧ constructor assertions` = hypothesis of `parse_marshal`
-/
namespace Abverif.Wamp

def nodup : List Str → Bool
  | [] => true
  | x :: xs => !(xs.any (· == x)) && nodup xs

def encKeys : List Str := [cs!"enc_algo", cs!"enc_key", cs!"enc_serializer"]
def tailFields : List Str := [cs!"args", cs!"kwargs", cs!"payload", cs!"enc_algo", cs!"enc_key", cs!"enc_serializer"]

def PosStep.isOpts : PosStep → Bool
  | .opts => true
  | _ => false

/-- REGISTER's `uriByMatch` refers to the options position and to an option `match` of the schema -/
def PosStep.wf (σ : Schema) : PosStep → Bool
  | .uriByMatch _ optsPos key vals =>
      σ.optsPos == some optsPos &&
      σ.opts.any (fun s => s.key == key && s.field == key &&
        (match s.ty, s.dflt, s.mm with
         | .strEnum vs, .str d, .neqDefault d' => vs == vals && d == d' && matchFlags d == {} && strMem d vs
         | _, _, _ => false))
  | _ => true

/-- `v` is the default `d` (defaults are `None` or a string constant) -/
def isDflt : WVal → WVal → Bool
  | .null, .null => true
  | .str a, .str b => a == b
  | _, _ => false

def OptStep.wf (s : OptStep) : Bool :=
  (match s.dflt with | .null => true | .str _ => true | _ => false) &&
  (match s.ty with
   | .roles _ _ => s.required && (match s.mm with | .always => true | _ => false)
   | _ => !s.required) &&
  (match s.mm with
   | .always => s.required
   | _ => true)

namespace Schema

def wf (σ : Schema) : Bool :=
  nodup σ.fieldNames &&
  nodup (σ.opts.map (·.key) ++ (if σ.tail.isSome then encKeys else [])) &&
  -- at most one options position; present whenever there are typed entries or a tail
  ((σ.pos.filter PosStep.isOpts).length ≤ 1) &&
  ((σ.opts.isEmpty && σ.tail.isNone && !σ.custom) || σ.optsPos.isSome) &&
  -- an optional options dictionary is the last position, and there is no tail then
  (!σ.optsOptional || (σ.tail.isNone && σ.optsPos == some σ.k && σ.k ≥ 1)) &&
  -- a tail and custom attributes are never combined (only WELCOME has custom attributes)
  (!(σ.custom && σ.tail.isSome)) &&
  σ.pos.all (PosStep.wf σ) &&
  σ.opts.all OptStep.wf &&
  -- what `parse` checks across fields is among the constructor's assertions
  σ.pcross.all (fun c => σ.cross.contains c)

end Schema

/-! ### declared types of option values -/

def rolesFeatValid (known : List Str) : Dict → Bool
  | fd => fd.all (fun kv => kv.2.isBool) && (featCanon fd known).map (·.1) == fd.map (·.1) && nodup (fd.map (·.1))

/-- the value `parse` produces for `roles`: role ↦ {feature ↦ bool}, role names allowed and distinct, features a
subsequence of the known ones in attribute order -/
def rolesValid (allowed : List Str) (feats : List (Str × List Str)) : WVal → Bool
  | .dict dr => !dr.isEmpty && nodup (dr.map (·.1)) &&
      dr.all (fun rv => strMem rv.1 allowed &&
        (match rv.2 with
         | .dict fd => rolesFeatValid (roleKnown feats rv.1) fd
         | _ => false))
  | _ => false

/-- declared type of a (present) option value — `OTy.check` accepts exactly these (theorem `check_iff_valid`) -/
def OTy.valid (O : Oracles) : OTy → WVal → Bool
  | .bool, v => v.isBool
  | .int none, v => v.isInt
  | .int (some lo), .int i => lo ≤ i
  | .int (some _), _ => false
  | .str, v => v.isStr
  | .strEnum vals, .str s => strMem s vals
  | .strEnum _, _ => false
  | .listInt, .list xs => allInt xs
  | .listInt, _ => false
  | .id, .int i => idOk i
  | .id, _ => false
  | .listId, .list xs => allId xs
  | .listId, _ => false
  | .listStr, .list xs => allStr xs
  | .listStr, _ => false
  | .dict, v => v.isDict
  | .uri fl, v => uriOk O fl v
  | .strUri n, .null => n
  | .strUri _, .str s => O.uriCheck false false false s
  | .strUri _, _ => false
  | .forwardFor atParse, .list xs => !atParse || xs.all ffItemParseOk
  | .forwardFor _, _ => false
  | .boolOrNull, v => v.isNull || v.isBool
  | .strOrNull, v => v.isNull || v.isStr
  | .dictOrNull, v => v.isNull || v.isDict
  | .roles allowed feats, v => rolesValid allowed feats v

/-! ### strictness of a parsed message (C08) -/

def strOf : WVal → Str
  | .str s => s
  | _ => []

def PosStep.strict (O : Oracles) (m : Msg) : PosStep → Bool
  | .id f => (match m.get f with | .int i => idOk i | _ => false)
  | .uri f fl => uriOk O fl (m.get f)
  | .str f => (m.get f).isStr
  | .extra f => (match m.get f with | .dict _ => true | _ => false)
  | .intEnum f allowed => (match m.get f with | .int i => allowed.contains i | _ => false)
  | .opts => true
  | .uriByMatch f _ key _ => uriOk O (matchFlags (strOf (m.get key))) (m.get f)

/-- an option field holds its default (absent) or a value of its declared type -/
def OptStep.strict (O : Oracles) (m : Msg) (s : OptStep) : Bool :=
  isDflt s.dflt (m.get s.field) || s.ty.valid O (m.get s.field)

def tailStrict (O : Oracles) (t : TailSpec) (m : Msg) : Bool :=
  let payload := m.get cs!"payload"
  let args := m.get cs!"args"
  let kwargs := m.get cs!"kwargs"
  (payload.isNull || payload.isBytes) &&
  (match t.variant with
   | .std => args.isNull || args.isList
   | .publish => args.isNull || args.isList || args.isStr || args.isBytes) &&
  (match kwargs with | .null => true | .dict _ => true | _ => false) &&
  (payload.isNull || (args.isNull && kwargs.isNull)) &&
  ((m.get cs!"enc_algo").isNull || validEncAlgo O (m.get cs!"enc_algo")) &&
  ((m.get cs!"enc_key").isNull || (m.get cs!"enc_key").isStr) &&
  ((m.get cs!"enc_serializer").isNull || validEncSer O (m.get cs!"enc_serializer")) &&
  (((m.get cs!"enc_algo").isNull && (m.get cs!"enc_key").isNull && (m.get cs!"enc_serializer").isNull) ||
   (!payload.isNull && !(m.get cs!"enc_algo").isNull))

namespace Schema

def strict (σ : Schema) (O : Oracles) (m : Msg) : Bool :=
  (m.map (·.1) == σ.fieldNames) &&
  σ.pos.all (PosStep.strict O m) &&
  σ.opts.all (OptStep.strict O m) &&
  (match σ.tail with | some t => tailStrict O t m | none => true) &&
  (!σ.custom || (match m.get cs!"custom" with | .dict c => c.all (fun kv => O.customAttr kv.1) | _ => false))

end Schema

/-! ### what the round trip needs beyond strictness -/

/-- an option that `marshal` does not write must hold its default; one that it writes must have its declared
type; a `resume_token`-style entry may be absent only if its companion is not truthy on the wire -/
def OptStep.residual (O : Oracles) (σ : Schema) (m : Msg) (s : OptStep) : Bool :=
  (if s.mm.emits (m.get s.field) then s.ty.valid O (m.get s.field)
   else isDflt s.dflt (m.get s.field) &&
        (match s.absentErrIf with
         | none => true
         | some k => !(((σ.marshalDict m).get? k).getD .null).truthy)) &&
  s.cty.ok (m.get s.field)

def tailResidual (t : TailSpec) (m : Msg) : Bool :=
  let payload := m.get cs!"payload"
  let args := m.get cs!"args"
  let kwargs := m.get cs!"kwargs"
  -- an empty payload / empty kwargs / empty args (without kwargs) is not written by `marshal`
  (payload.isNull || payload.truthy) &&
  (kwargs.isNull || kwargs.truthy) &&
  (args.isNull || args.isList) &&
  (kwargs.truthy || args.isNull || args.truthy) &&
  -- PUBLISH.parse rejects `args = None` when kwargs follow
  (match t.variant with | .std => true | .publish => !kwargs.truthy || args.isList)

namespace Schema

def residual (σ : Schema) (O : Oracles) (m : Msg) : Bool :=
  σ.opts.all (OptStep.residual O σ m) &&
  (match σ.tail with | some t => tailResidual t m | none => true) &&
  σ.cross.all (Cross.ok O m)

/-- hypothesis of `parse_marshal` -/
def valid (σ : Schema) (O : Oracles) (m : Msg) : Bool := σ.strict O m && σ.residual O m

/-- the oracle-dependent part of well-formedness: no fixed option key looks like a custom attribute -/
def wfO (σ : Schema) (O : Oracles) : Bool :=
  !σ.custom || σ.opts.all (fun s => !O.customAttr s.key)

end Schema

/-! ### Spec of the HELLO / WELCOME `roles` dictionary (C08)

Written without reference to the parse loop: `roles` is a non-empty dictionary with string keys; every key is an
allowed role name; every role value is a dictionary with string keys; its `features`, if present, is a dictionary
with string keys in which **every known feature of that role** (the keyword parameters of the role's
`Role*Features.__init__`, regenerated from role.py) is absent, `null` or a JSON `bool`.  Unknown feature names are
ignored (swallowed by `**kwargs`) whatever their value — the name `self` included (no role has such a feature). -/

def featureValueOk : Option WVal → Bool
  | none => true
  | some .null => true
  | some (.bool _) => true
  | some _ => false

def featuresAccept (known : List Str) (fd : Dict) : Bool :=
  known.all (fun f => featureValueOk (fd.get? f))

def roleEntryAccept (allowed : List Str) (feats : List (Str × List Str)) (rv : Str × WVal) : Bool :=
  strMem rv.1 allowed &&
  (match rv.2 with
   | .dict drole =>
       (match Dict.get? drole cs!"features" with
        | none => true
        | some (.dict fd) => featuresAccept (roleKnown feats rv.1) fd
        | some _ => false)
   | _ => false)

def rolesAccept (allowed : List Str) (feats : List (Str × List Str)) : WVal → Bool
  | .dict [] => false
  | .dict dr => dr.all (roleEntryAccept allowed feats)
  | _ => false

/-! ### the intended strictness (Spec of C08): what an accepted message must satisfy

`specViolations` lists, for a parsed message, every field whose value C08 says must never be accepted:
an id outside [0, 2^53], a URI outside the *intended* grammar (`specUri`, not the regex), a value that is not of
the option's intended type.  On today's code the list is non-empty only for PUBLISH `args` of type `str`/`bytes`
(open finding; admitted on purpose by the constructor). -/

/-- the WAMP id range, as the protocol defines it (NOT regenerated from the code): 0 … 2^53 -/
def specIdOk (i : Int) : Bool := 0 ≤ i && i ≤ 9007199254740992

def allIdOk : List WVal → Bool
  | [] => true
  | .int i :: xs => specIdOk i && allIdOk xs
  | _ => false

/-- the message type codes of the WAMP protocol (spec table, NOT regenerated from the code) -/
def specCodes : List (Str × Int) :=
  [(cs!"Hello", 1), (cs!"Welcome", 2), (cs!"Abort", 3), (cs!"Challenge", 4), (cs!"Authenticate", 5), (cs!"Goodbye", 6),
   (cs!"Error", 8), (cs!"Publish", 16), (cs!"Published", 17), (cs!"Subscribe", 32), (cs!"Subscribed", 33),
   (cs!"Unsubscribe", 34), (cs!"Unsubscribed", 35), (cs!"Event", 36), (cs!"EventReceived", 337), (cs!"Call", 48),
   (cs!"Cancel", 49), (cs!"Result", 50), (cs!"Register", 64), (cs!"Registered", 65), (cs!"Unregister", 66),
   (cs!"Unregistered", 67), (cs!"Invocation", 68), (cs!"Interrupt", 69), (cs!"Yield", 70)]

def specUriOk (specUri : Bool → Bool → Bool → Str → Bool) (fl : UriFlags) : WVal → Bool
  | .null => fl.allowNone
  | .str s => specUri fl.strict fl.allowEmpty fl.allowLastEmpty s
  | _ => false

/-- `none` = fine, `some reason` = must not have been accepted -/
def OptStep.specViolation (specUri : Bool → Bool → Bool → Str → Bool) (m : Msg) (s : OptStep) : Option Str :=
  let v := m.get s.field
  if isDflt s.dflt v then none else
  match s.ty, v with
  | .bool, .bool _ => none
  | .bool, _ => some cs!"type"
  | .boolOrNull, .bool _ => none
  | .boolOrNull, _ => some cs!"type"
  | .int _, .int _ => none
  | .int _, _ => some cs!"type"
  | .id, .int i => if specIdOk i then none else some cs!"id-range"
  | .id, _ => some cs!"type"
  | .str, .str _ => none
  | .str, _ => some cs!"type"
  | .strEnum vals, .str x => if strMem x vals then none else some cs!"type"
  | .strEnum _, _ => some cs!"type"
  | .listInt, .list xs => if allInt xs then none else some cs!"type"
  | .listInt, _ => some cs!"type"
  | .listId, .list xs => if !allInt xs then some cs!"type" else if !allIdOk xs then some cs!"id-range" else none
  | .listId, _ => some cs!"type"
  | .listStr, .list xs => if allStr xs then none else some cs!"type"
  | .listStr, _ => some cs!"type"
  | .dict, .dict _ => none
  | .dict, .dictNS _ => none
  | .dict, _ => some cs!"type"
  | .uri fl, v => if specUriOk specUri fl v then none else some cs!"uri"
  | .strUri _, .str x => if specUri false false false x then none else some cs!"uri"
  | .strUri _, _ => some cs!"type"
  | .forwardFor _, .list xs => if xs.all ffItemCtorOk then none else some cs!"type"
  | .forwardFor _, _ => some cs!"type"
  | .strOrNull, v => if v.isStr then none else some cs!"type"
  | .dictOrNull, v => if v.isDict then none else some cs!"type"
  | .roles _ _, .dict _ => none
  | .roles _ _, _ => some cs!"type"

def PosStep.specViolation (specUri : Bool → Bool → Bool → Str → Bool) (m : Msg) : PosStep → Option (Str × Str)
  | .id f => (match m.get f with | .int i => if specIdOk i then none else some (f, cs!"id-range") | _ => some (f, cs!"type"))
  | .uri f fl => if specUriOk specUri fl (m.get f) then none else some (f, cs!"uri")
  | .str f => if (m.get f).isStr then none else some (f, cs!"type")
  | .extra f => (match m.get f with | .dict _ => none | _ => some (f, cs!"type"))
  | .intEnum f allowed => (match m.get f with | .int i => if allowed.contains i then none else some (f, cs!"type") | _ => some (f, cs!"type"))
  | .opts => none
  | .uriByMatch f _ key _ => if specUriOk specUri (matchFlags (strOf (m.get key))) (m.get f) then none else some (f, cs!"uri")

/-! ### the Spec's OWN field table

Which details/options are URIs or ids is a fact of the WAMP protocol, not of `message.py`.  The table below is written
from the WAMP specification (message definitions of the basic and advanced profile) by class name and attribute name
and is NOT read from `σ.pos` / `σ.opts`, so that a field the parser model (and the code) treats as a plain string or a
plain int is still judged as what the protocol says it is. -/

inductive SpecKind
  | uri          -- a concrete URI (loose grammar, no empty components)
  | id           -- a WAMP id, 0 … 2^53
  | idList       -- a list of WAMP ids

def specDetailTable : List (Str × Str × SpecKind) :=
  [(cs!"Welcome", cs!"realm", .uri),
   (cs!"Event", cs!"topic", .uri),
   (cs!"Invocation", cs!"procedure", .uri),
   (cs!"Unsubscribed", cs!"reason", .uri),
   (cs!"Unregistered", cs!"reason", .uri),
   (cs!"Interrupt", cs!"reason", .uri),
   (cs!"Hello", cs!"resume_session", .id),
   (cs!"Error", cs!"callee", .id),
   (cs!"Event", cs!"publisher", .id),
   (cs!"Call", cs!"caller", .id),
   (cs!"Result", cs!"callee", .id),
   (cs!"Invocation", cs!"caller", .id),
   (cs!"Yield", cs!"callee", .id),
   (cs!"Unsubscribed", cs!"subscription", .id),
   (cs!"Unregistered", cs!"registration", .id),
   (cs!"Publish", cs!"exclude", .idList),
   (cs!"Publish", cs!"eligible", .idList)]

/-- absent (`None`) is always fine; a present value must be what the protocol says -/
def specKindOk (specUri : Bool → Bool → Bool → Str → Bool) : SpecKind → WVal → Bool
  | _, .null => true
  | .uri, .str s => specUri false false false s
  | .uri, _ => false
  | .id, .int i => specIdOk i
  | .id, _ => false
  | .idList, .list xs => allIdOk xs
  | .idList, _ => false

def Schema.tableEntries (σ : Schema) : List (Str × Str × SpecKind) := specDetailTable.filter (fun e => e.1 == σ.name)

def Schema.tableViolations (σ : Schema) (specUri : Bool → Bool → Bool → Str → Bool) (m : Msg) : List (Str × Str) :=
  σ.tableEntries.filterMap (fun e => if specKindOk specUri e.2.2 (m.get e.2.1) then none else some (e.2.1, cs!"spec-table"))

def Schema.specViolations (σ : Schema) (specUri : Bool → Bool → Bool → Str → Bool) (m : Msg) : List (Str × Str) :=
  (match specCodes.find? (fun e => e.1 == σ.name) with
   | some e => if e.2 == σ.code then [] else [(cs!"type_code", cs!"code")]
   | none => [(cs!"type_code", cs!"code")]) ++
  σ.pos.filterMap (PosStep.specViolation specUri m) ++
  σ.opts.filterMap (fun s => (s.specViolation specUri m).map (fun r => (s.field, r))) ++
  (match σ.tail with
   | some _ =>
       (if (m.get cs!"payload").isNull || (m.get cs!"payload").isBytes then [] else [(cs!"payload", cs!"type")]) ++
       (if (m.get cs!"args").isNull || (m.get cs!"args").isList then [] else [(cs!"args", cs!"type")]) ++
       (match m.get cs!"kwargs" with | .null => [] | .dict _ => [] | _ => [(cs!"kwargs", cs!"type")])
   | none => []) ++
  σ.tableViolations specUri m

end Abverif.Wamp
