import Abverif.Model.Basic
import Abverif.Generated.DeflateConsts
/-
C12 — per-message compression: negotiation lattice and data path.

Mirrors (autobahn/websocket):
  compress_deflate.py   PerMessageDeflateOffer / OfferAccept / Response / ResponseAccept / PerMessageDeflate
  compress_bzip2.py     the same five classes (compression level lattice)
  compress_brotli.py    the same five classes (context takeover lattice)
  protocol.py           `_parseExtensionsHeader`, the permessage-compress parts of the server
                        `succeedHandshake` and of the client `processHandshake`, the RSV1 rules of `processData`,
                        `onFrameBegin/Data/End`, `sendMessage`, `beginMessage … endMessage`

Text is `List Char` on the ISO-8859-1 code points the handshake decodes to.  `lower` is modelled on ASCII
(the harness generates ASCII headers only; the model's domain is stated in harness/c12.py).
Everything that raises in Python is `none` here (the callers turn every exception into `failHandshake`,
so the exception class is not an observable).
The window/mem-level tables, defaults, the `[:-4]` strip length and the re-appended tail come from
`Abverif.Generated.DeflateConsts`, regenerated from the source on every run.
-/
namespace Abverif.Pmce
open Abverif.DeflateConsts

/-! ## Python `str` helpers on `List Char` -/

/-- `str.isspace` on the Latin-1 range (what `str.strip()` and `int()` skip). -/
def isWs (c : Char) : Bool :=
  let n := c.toNat
  (9 ≤ n && n ≤ 13) || (28 ≤ n && n ≤ 32) || n == 0x85 || n == 0xa0

def lstrip (s : List Char) : List Char := s.dropWhile isWs
def rstrip (s : List Char) : List Char := (s.reverse.dropWhile isWs).reverse
/-- `str.strip()` -/
def strip (s : List Char) : List Char := rstrip (lstrip s)

/-- what `int()` skips around the digits: ASCII characters are judged by C `isspace` (so 0x1c–0x1f, which
`str.strip()` removes, are NOT skipped), the Latin-1 spaces 0x85 / 0xa0 by `Py_UNICODE_ISSPACE` -/
def isIntWs (c : Char) : Bool :=
  let n := c.toNat
  (9 ≤ n && n ≤ 13) || n == 32 || n == 0x85 || n == 0xa0

/-- `str.lower()` on ASCII -/
def lowerChar (c : Char) : Char :=
  if 'A' ≤ c ∧ c ≤ 'Z' then Char.ofNat (c.toNat + 32) else c
def lower (s : List Char) : List Char := s.map lowerChar

/-- `str.split(sep)` for a one-character separator (never returns the empty list). -/
def splitOn (sep : Char) : List Char → List (List Char)
  | [] => [[]]
  | c :: cs =>
    if c = sep then [] :: splitOn sep cs
    else match splitOn sep cs with
      | [] => [[c]]
      | h :: t => (c :: h) :: t

/-- `sep.join(parts)` -/
def joinWith (sep : List Char) : List (List Char) → List Char
  | [] => []
  | [a] => a
  | a :: b :: rest => a ++ sep ++ joinWith sep (b :: rest)

def digitVal (c : Char) : Option Nat :=
  if '0' ≤ c ∧ c ≤ '9' then some (c.toNat - 48) else none

/-- digits with single underscores between them: `digit (_? digit)*`; `acc` is the value so far,
`prevDigit` says whether the previous character was a digit (an underscore must sit between two digits). -/
def pyDigits : List Char → Nat → Bool → Option Nat
  | [], acc, prevDigit => if prevDigit then some acc else none
  | c :: cs, acc, prevDigit =>
    if c = '_' then (if prevDigit ∧ cs ≠ [] then pyDigitsU cs acc else none)
    else match digitVal c with
      | some d => pyDigits cs (acc * 10 + d) true
      | none => none
where
  /-- directly after an underscore a digit must follow -/
  pyDigitsU : List Char → Nat → Option Nat
    | [], _ => none
    | c :: cs, acc => match digitVal c with
      | some d => pyDigits cs (acc * 10 + d) true
      | none => none

/-- Python `int(s)` for `str` arguments (base 10): surrounding whitespace, one optional sign, decimal digits
with single underscores. `none` = `ValueError`. -/
def pyInt (s : List Char) : Option Int :=
  match ((s.dropWhile isIntWs).reverse.dropWhile isIntWs).reverse with
  | [] => none
  | '+' :: r => (pyDigits r 0 false).map Int.ofNat
  | '-' :: r => (pyDigits r 0 false).map (fun n => - Int.ofNat n)
  | r => (pyDigits r 0 false).map Int.ofNat

/-- `int(val)` succeeded and the result is `in` the list of naturals -/
def intIn (xs : List Nat) (s : List Char) : Option Nat :=
  match pyInt s with
  | some (Int.ofNat n) => if xs.contains n then some n else none
  | _ => none

/-! ## `_parseExtensionsHeader` -/

/-- a parameter value: `none` is Python's `True` (parameter without `=`), `some s` the string after `=` -/
abbrev Val := Option (List Char)
/-- `params`: insertion-ordered dict `key ↦ list of values` -/
abbrev Params := List (List Char × List Val)

def Params.add : Params → List Char → Val → Params
  | [], k, v => [(k, [v])]
  | (k', vs) :: rest, k, v => if k' = k then (k', vs ++ [v]) :: rest else (k', vs) :: Params.add rest k v

/-- `if value[0] == '"': value = value[1:]`, then `if value[-1] == '"': value = value[:-1]` -/
def unquote (v : List Char) : List Char :=
  let v1 := match v with
    | '"' :: r => r
    | _ => v
  match v1.reverse with
  | '"' :: r => r.reverse
  | _ => v1

def parseParam (p : List Char) : List Char × Val :=
  match (splitOn '=' p).map strip with
  | [] => ([], none)                      -- unreachable: split never returns []
  | [k] => (lower k, none)
  | k :: rest => (lower k, some (unquote (joinWith ['='] rest)))

def parseExt (e : List Char) : List Char × Params :=
  match (splitOn ';' e).map strip with
  | [] => ([], [])                        -- unreachable
  | name :: ps => (lower name, ps.foldl (fun acc p => let kv := parseParam p; acc.add kv.1 kv.2) [])

/-- `_parseExtensionsHeader(header)` (with `removeQuotes=True`, the only way it is called) -/
def parseExtensionsHeader (h : List Char) : List (List Char × Params) :=
  (((splitOn ',' h).map strip).filter (· ≠ [])).map parseExt

/-- `int(val)` where `val` may be Python's `True` (`int(True) == 1`) -/
def intInV (xs : List Nat) : Val → Option Nat
  | none => if xs.contains 1 then some 1 else none
  | some s => intIn xs s

/-! ## rendering helpers -/

def natStr (n : Nat) : List Char := Nat.toDigits 10 n

def sClientNct : List Char := "client_no_context_takeover".toList
def sClientMwb : List Char := "client_max_window_bits".toList
def sServerNct : List Char := "server_no_context_takeover".toList
def sServerMwb : List Char := "server_max_window_bits".toList

def flag (b : Bool) (name : List Char) : List Char := if b then "; ".toList ++ name else []
def kv (n : Nat) (name : List Char) : List Char :=
  if n ≠ 0 then "; ".toList ++ name ++ ['='] ++ natStr n else []

def winOk (n : Nat) : Bool := windowSizePermissible.contains n
def memOk (n : Nat) : Bool := memLevelPermissible.contains n

/-! ## permessage-deflate: the four parameter classes -/

/-- `PerMessageDeflateOffer` -/
structure Offer where
  acceptNct : Bool
  acceptMwb : Bool
  reqNct : Bool
  reqMwb : Nat
deriving DecidableEq, Repr

/-- constructor guard of `PerMessageDeflateOffer.__init__` (the `type(..) != bool` guards are types here) -/
def Offer.guard (o : Offer) : Bool := o.reqMwb == 0 || winOk o.reqMwb

/-- `PerMessageDeflateOffer.get_extension_string` -/
def Offer.render (o : Offer) : List Char :=
  extensionName ++ flag o.acceptNct sClientNct ++ flag o.acceptMwb sClientMwb
    ++ flag o.reqNct sServerNct ++ kv o.reqMwb sServerMwb

/-- one step of the `for p in params` loop of `PerMessageDeflateOffer.parse` -/
def Offer.parseStep (acc : Option Offer) (kvs : List Char × List Val) : Option Offer :=
  match acc with
  | none => none
  | some o =>
    match kvs.2 with
    | [v] =>
      if kvs.1 = sClientMwb then
        match v with
        | none => some { o with acceptMwb := true }
        | some s => (intIn windowSizePermissible s).map (fun _ => { o with acceptMwb := true })
      else if kvs.1 = sClientNct then
        match v with
        | none => some { o with acceptNct := true }
        | some _ => none
      else if kvs.1 = sServerMwb then
        (intInV windowSizePermissible v).map (fun n => { o with reqMwb := n })
      else if kvs.1 = sServerNct then
        match v with
        | none => some { o with reqNct := true }
        | some _ => none
      else none
    | _ => none      -- `len(params[p]) > 1`

/-- `PerMessageDeflateOffer.parse(params)`; the defaults are those of the source
(`accept_no_context_takeover = True`: the flag is not transmitted). -/
def Offer.parse (ps : Params) : Option Offer :=
  (ps.foldl Offer.parseStep (some ⟨true, false, false, 0⟩)).bind
    (fun o => if o.guard then some o else none)

/-- `PerMessageDeflateOfferAccept` (without `max_message_size`, which belongs to C16) -/
structure OfferAccept where
  offer : Offer
  reqNct : Bool
  reqMwb : Nat
  nct : Option Bool
  wbits : Option Nat
  memLevel : Option Nat
deriving DecidableEq, Repr

/-- constructor guards of `PerMessageDeflateOfferAccept.__init__` -/
def OfferAccept.guard (a : OfferAccept) : Bool :=
  !(a.reqNct && !a.offer.acceptNct)
  && (a.reqMwb == 0 || winOk a.reqMwb)
  && !(a.reqMwb != 0 && !a.offer.acceptMwb)
  && (match a.nct with
      | some n => !(a.offer.reqNct && !n)
      | none => true)
  && (match a.wbits with
      | some w => winOk w && !(a.offer.reqMwb != 0 && decide (w > a.offer.reqMwb))
      | none => true)
  && (match a.memLevel with
      | some m => memOk m
      | none => true)

/-- `PerMessageDeflateOfferAccept.get_extension_string` -/
def OfferAccept.render (a : OfferAccept) : List Char :=
  extensionName ++ flag a.offer.reqNct sServerNct ++ kv a.offer.reqMwb sServerMwb
    ++ flag a.reqNct sClientNct ++ kv a.reqMwb sClientMwb

/-- `PerMessageDeflateResponse` -/
structure Response where
  cMwb : Nat
  cNct : Bool
  sMwb : Nat
  sNct : Bool
deriving DecidableEq, Repr

def Response.parseStep (acc : Option Response) (kvs : List Char × List Val) : Option Response :=
  match acc with
  | none => none
  | some r =>
    match kvs.2 with
    | [v] =>
      if kvs.1 = sClientMwb then
        (intInV windowSizePermissible v).map (fun n => { r with cMwb := n })
      else if kvs.1 = sClientNct then
        match v with
        | none => some { r with cNct := true }
        | some _ => none
      else if kvs.1 = sServerMwb then
        (intInV windowSizePermissible v).map (fun n => { r with sMwb := n })
      else if kvs.1 = sServerNct then
        match v with
        | none => some { r with sNct := true }
        | some _ => none
      else none
    | _ => none

/-- `PerMessageDeflateResponse.parse(params)` -/
def Response.parse (ps : Params) : Option Response :=
  ps.foldl Response.parseStep (some ⟨0, false, 0, false⟩)

/-- `PerMessageDeflateResponseAccept` -/
structure ResponseAccept where
  response : Response
  nct : Option Bool
  wbits : Option Nat
  memLevel : Option Nat
deriving DecidableEq, Repr

/-- constructor guards of `PerMessageDeflateResponseAccept.__init__` -/
def ResponseAccept.guard (a : ResponseAccept) : Bool :=
  (match a.nct with
   | some n => !(a.response.cNct && !n)
   | none => true)
  && (match a.wbits with
      | some w => winOk w && !(a.response.cMwb != 0 && decide (w > a.response.cMwb))
      | none => true)
  && (match a.memLevel with
      | some m => memOk m
      | none => true)

/-- `PerMessageDeflate`: the six effective fields held by one end -/
structure Pmce where
  isServer : Bool
  sNct : Bool
  cNct : Bool
  sMwb : Nat
  cMwb : Nat
  memLevel : Nat
deriving DecidableEq, Repr

/-- `PerMessageDeflate.__init__`: `0 ↦ DEFAULT_WINDOW_BITS`, falsy mem level `↦ DEFAULT_MEM_LEVEL` -/
def Pmce.init (isServer sNct cNct : Bool) (sMwb cMwb : Nat) (mem : Option Nat) : Pmce :=
  { isServer, sNct, cNct,
    sMwb := if sMwb ≠ 0 then sMwb else defaultWindowBits,
    cMwb := if cMwb ≠ 0 then cMwb else defaultWindowBits,
    memLevel := match mem with
      | some (m + 1) => m + 1
      | _ => defaultMemLevel }

/-- `PerMessageDeflate.create_from_offer_accept(is_server, accept)` -/
def Pmce.fromOfferAccept (isServer : Bool) (a : OfferAccept) : Pmce :=
  Pmce.init isServer (a.nct.getD a.offer.reqNct) a.reqNct (a.wbits.getD a.offer.reqMwb) a.reqMwb a.memLevel

/-- `PerMessageDeflate.create_from_response_accept(is_server, accept)` -/
def Pmce.fromResponseAccept (isServer : Bool) (a : ResponseAccept) : Pmce :=
  Pmce.init isServer a.response.sNct (a.nct.getD a.response.cNct) a.response.sMwb
    (a.wbits.getD a.response.cMwb) a.memLevel

/-- the parameters this end compresses with: `start_compress_message` -/
def Pmce.encNct (p : Pmce) : Bool := if p.isServer then p.sNct else p.cNct
def Pmce.encWbits (p : Pmce) : Nat := if p.isServer then p.sMwb else p.cMwb
/-- the parameters this end inflates with: `start_decompress_message` -/
def Pmce.decNct (p : Pmce) : Bool := if p.isServer then p.cNct else p.sNct
def Pmce.decWbits (p : Pmce) : Nat := if p.isServer then p.cMwb else p.sMwb

/-- what one direction needs (Spec): the inflater's window is at least the deflater's, and an inflater that
forgets its context between messages is only paired with a deflater that does so too. -/
def dirCompatible (enc dec : Pmce) : Prop :=
  enc.encWbits ≤ dec.decWbits ∧ (dec.decNct = true → enc.encNct = true)

instance (enc dec : Pmce) : Decidable (dirCompatible enc dec) := by unfold dirCompatible; exact inferInstance

/-- Spec (RFC 7692 §7.1): what a response may contain given the offer the client sent.
`server_*` only when requested and never above the request; requests are honoured; `client_max_window_bits`
only when the offer carried it, with a permissible value. (`client_no_context_takeover` may always be sent.) -/
def permittedBy (o : Offer) (r : Response) : Prop :=
  (r.sNct = true ↔ o.reqNct = true)
  ∧ (r.sMwb ≠ 0 → r.sMwb ≤ o.reqMwb)
  ∧ (o.reqMwb ≠ 0 → r.sMwb ≠ 0)
  ∧ (r.cMwb ≠ 0 → o.acceptMwb = true ∧ winOk r.cMwb = true)

instance (o : Offer) (r : Response) : Decidable (permittedBy o r) := by unfold permittedBy; exact inferInstance

/-- the four negotiated parameters an end holds -/
def Pmce.params (p : Pmce) : Bool × Bool × Nat × Nat := (p.sNct, p.cNct, p.sMwb, p.cMwb)

/-! ## complete enumeration of the lattice -/

def bools : List Bool := [false, true]
def optBools : List (Option Bool) := [none, some false, some true]
def winVals : List Nat := 0 :: windowSizePermissible
def optWins : List (Option Nat) := none :: windowSizePermissible.map some
def optMems : List (Option Nat) := none :: memLevelPermissible.map some

def Offer.all : List Offer :=
  bools.flatMap fun a => bools.flatMap fun b => bools.flatMap fun c => winVals.map fun w => ⟨a, b, c, w⟩

/-! ## the negotiation as the two ends run it -/

/-- everything the two ends compute from (offer, accept parameters, response-accept parameters) -/
structure Negotiated where
  offerStr : List Char
  responseStr : List Char
  server : Pmce
  client : Pmce
deriving Repr

/-- parameters the server application passes to `PerMessageDeflateOfferAccept(offer, …)` -/
structure AcceptArgs where
  reqNct : Bool
  reqMwb : Nat
  nct : Option Bool
  wbits : Option Nat
  memLevel : Option Nat
deriving DecidableEq, Repr

/-- parameters the client application passes to `PerMessageDeflateResponseAccept(response, …)` -/
structure RAcceptArgs where
  nct : Option Bool
  wbits : Option Nat
  memLevel : Option Nat
deriving DecidableEq, Repr

def AcceptArgs.on (x : AcceptArgs) (o : Offer) : OfferAccept := ⟨o, x.reqNct, x.reqMwb, x.nct, x.wbits, x.memLevel⟩
def RAcceptArgs.on (x : RAcceptArgs) (r : Response) : ResponseAccept := ⟨r, x.nct, x.wbits, x.memLevel⟩

/-- first `permessage-deflate` entry of a parsed header -/
def findDeflate : List (List Char × Params) → Option Params
  | [] => none
  | (n, ps) :: rest => if n = extensionName then some ps else findDeflate rest

/-- client renders the offer, the server parses the header and accepts, renders its response, the client
parses that and accepts. `none` when a parser or a constructor guard raises on the way. -/
def negotiate (o : Offer) (x : AcceptArgs) (y : RAcceptArgs) : Option Negotiated := do
  if !o.guard then none
  let offerStr := o.render
  let ps ← findDeflate (parseExtensionsHeader offerStr)
  let o' ← Offer.parse ps
  let a := x.on o'
  if !a.guard then none
  let responseStr := a.render
  let rps ← findDeflate (parseExtensionsHeader responseStr)
  let r ← Response.parse rps
  let ra := y.on r
  if !ra.guard then none
  pure ⟨offerStr, responseStr, Pmce.fromOfferAccept true a, Pmce.fromResponseAccept false ra⟩

/-! ## re-parsing what was rendered (used by the round-trip theorems and the driver) -/

/-- what the server's parser can know of an offer: `accept_no_context_takeover` is not transmitted when
false and defaults to `True` in `PerMessageDeflateOffer.parse` -/
def Offer.normalize (o : Offer) : Offer := { o with acceptNct := true }

/-- the header a client renders for an offer, as `_parseExtensionsHeader` + `Offer.parse` read it -/
def Offer.reparse (o : Offer) : Option Offer :=
  (findDeflate (parseExtensionsHeader o.render)).bind Offer.parse

/-- the response as the client will parse it -/
def OfferAccept.response (a : OfferAccept) : Response :=
  ⟨a.reqMwb, a.reqNct, a.offer.reqMwb, a.offer.reqNct⟩

def OfferAccept.reparse (a : OfferAccept) : Option Response :=
  (findDeflate (parseExtensionsHeader a.render)).bind Response.parse

/-- slices of the lattice (the kernel walks them in parallel) -/
def Offer.slice (a b : Bool) : List Offer :=
  bools.flatMap fun c => winVals.map fun w => ⟨a, b, c, w⟩

/-! ## permessage-bzip2 (compress_bzip2.py): compression-level lattice -/

def sClientMcl : List Char := "client_max_compress_level".toList
def sServerMcl : List Char := "server_max_compress_level".toList
def lvlOk (n : Nat) : Bool := bzip2LevelPermissible.contains n

structure BzOffer where
  acceptMcl : Bool
  reqMcl : Nat
deriving DecidableEq, Repr

def BzOffer.guard (o : BzOffer) : Bool := o.reqMcl == 0 || lvlOk o.reqMcl
def BzOffer.render (o : BzOffer) : List Char :=
  bzip2ExtensionName ++ flag o.acceptMcl sClientMcl ++ kv o.reqMcl sServerMcl

def BzOffer.parseStep (acc : Option BzOffer) (kvs : List Char × List Val) : Option BzOffer :=
  match acc with
  | none => none
  | some o =>
    match kvs.2 with
    | [v] =>
      if kvs.1 = sClientMcl then
        match v with
        | none => some { o with acceptMcl := true }
        | some _ => none
      else if kvs.1 = sServerMcl then
        (intInV bzip2LevelPermissible v).map (fun n => { o with reqMcl := n })
      else none
    | _ => none

def BzOffer.parse (ps : Params) : Option BzOffer := ps.foldl BzOffer.parseStep (some ⟨false, 0⟩)

structure BzOfferAccept where
  offer : BzOffer
  reqMcl : Nat
  level : Option Nat
deriving DecidableEq, Repr

def BzOfferAccept.guard (a : BzOfferAccept) : Bool :=
  (a.reqMcl == 0 || lvlOk a.reqMcl)
  && !(a.reqMcl != 0 && !a.offer.acceptMcl)
  && (match a.level with
      | some l => lvlOk l && !(a.offer.reqMcl != 0 && decide (l > a.offer.reqMcl))
      | none => true)

def BzOfferAccept.render (a : BzOfferAccept) : List Char :=
  bzip2ExtensionName ++ kv a.offer.reqMcl sServerMcl ++ kv a.reqMcl sClientMcl

structure BzResponse where
  cMcl : Nat
  sMcl : Nat
deriving DecidableEq, Repr

def BzResponse.parseStep (acc : Option BzResponse) (kvs : List Char × List Val) : Option BzResponse :=
  match acc with
  | none => none
  | some r =>
    match kvs.2 with
    | [v] =>
      if kvs.1 = sClientMcl then (intInV bzip2LevelPermissible v).map (fun n => { r with cMcl := n })
      else if kvs.1 = sServerMcl then (intInV bzip2LevelPermissible v).map (fun n => { r with sMcl := n })
      else none
    | _ => none

def BzResponse.parse (ps : Params) : Option BzResponse := ps.foldl BzResponse.parseStep (some ⟨0, 0⟩)

structure BzResponseAccept where
  response : BzResponse
  level : Option Nat
deriving DecidableEq, Repr

def BzResponseAccept.guard (a : BzResponseAccept) : Bool :=
  match a.level with
  | some l => lvlOk l && !(a.response.cMcl != 0 && decide (l > a.response.cMcl))
  | none => true

/-- `PerMessageBzip2`: effective fields -/
structure BzPmce where
  isServer : Bool
  sMcl : Nat
  cMcl : Nat
deriving DecidableEq, Repr

def BzPmce.init (isServer : Bool) (s c : Nat) : BzPmce :=
  ⟨isServer, if s ≠ 0 then s else bzip2DefaultLevel, if c ≠ 0 then c else bzip2DefaultLevel⟩
def BzPmce.fromOfferAccept (isServer : Bool) (a : BzOfferAccept) : BzPmce :=
  BzPmce.init isServer (a.level.getD a.offer.reqMcl) a.reqMcl
def BzPmce.fromResponseAccept (isServer : Bool) (a : BzResponseAccept) : BzPmce :=
  BzPmce.init isServer a.response.sMcl (a.level.getD a.response.cMcl)

def lvlVals : List Nat := 0 :: bzip2LevelPermissible
def BzOffer.all : List BzOffer := bools.flatMap fun a => lvlVals.map fun l => ⟨a, l⟩

/-! ## permessage-brotli (compress_brotli.py): context-takeover lattice -/

structure BrOffer where
  acceptNct : Bool
  reqNct : Bool
deriving DecidableEq, Repr

def BrOffer.render (o : BrOffer) : List Char :=
  brotliExtensionName ++ flag o.acceptNct sClientNct ++ flag o.reqNct sServerNct

def BrOffer.parseStep (acc : Option BrOffer) (kvs : List Char × List Val) : Option BrOffer :=
  match acc with
  | none => none
  | some o =>
    match kvs.2 with
    | [none] =>
      if kvs.1 = sClientNct then some { o with acceptNct := true }
      else if kvs.1 = sServerNct then some { o with reqNct := true }
      else none
    | _ => none

def BrOffer.parse (ps : Params) : Option BrOffer := ps.foldl BrOffer.parseStep (some ⟨false, false⟩)

structure BrOfferAccept where
  offer : BrOffer
  reqNct : Bool
  nct : Option Bool
deriving DecidableEq, Repr

def BrOfferAccept.guard (a : BrOfferAccept) : Bool :=
  !(a.reqNct && !a.offer.acceptNct)
  && (match a.nct with
      | some n => !(a.offer.reqNct && !n)
      | none => true)

def BrOfferAccept.render (a : BrOfferAccept) : List Char :=
  brotliExtensionName ++ flag a.offer.reqNct sServerNct ++ flag a.reqNct sClientNct

structure BrResponse where
  cNct : Bool
  sNct : Bool
deriving DecidableEq, Repr

def BrResponse.parseStep (acc : Option BrResponse) (kvs : List Char × List Val) : Option BrResponse :=
  match acc with
  | none => none
  | some r =>
    match kvs.2 with
    | [none] =>
      if kvs.1 = sClientNct then some { r with cNct := true }
      else if kvs.1 = sServerNct then some { r with sNct := true }
      else none
    | _ => none

def BrResponse.parse (ps : Params) : Option BrResponse := ps.foldl BrResponse.parseStep (some ⟨false, false⟩)

structure BrResponseAccept where
  response : BrResponse
  nct : Option Bool
deriving DecidableEq, Repr

def BrResponseAccept.guard (a : BrResponseAccept) : Bool :=
  match a.nct with
  | some n => !(a.response.cNct && !n)
  | none => true

/-- `PerMessageBrotli`: effective fields -/
structure BrPmce where
  isServer : Bool
  sNct : Bool
  cNct : Bool
deriving DecidableEq, Repr

def BrPmce.fromOfferAccept (isServer : Bool) (a : BrOfferAccept) : BrPmce :=
  ⟨isServer, a.nct.getD a.offer.reqNct, a.reqNct⟩
def BrPmce.fromResponseAccept (isServer : Bool) (a : BrResponseAccept) : BrPmce :=
  ⟨isServer, a.response.sNct, a.nct.getD a.response.cNct⟩

def BrOffer.all : List BrOffer := bools.flatMap fun a => bools.map fun b => ⟨a, b⟩

/-! ## the permessage-compress part of the two handshakes -/

inductive AnyOffer
  | deflate (o : Offer)
  | bzip2 (o : BzOffer)
  | brotli (o : BrOffer)
deriving DecidableEq, Repr

inductive AnyPmce
  | deflate (p : Pmce)
  | bzip2 (p : BzPmce)
  | brotli (p : BrPmce)
deriving DecidableEq, Repr

/-- the harness' server policy: for the first offer whose kind is enabled, construct the `…OfferAccept` with
these arguments; a constructor that raises makes the policy return `None`. -/
structure ServerPolicy where
  deflate : Option AcceptArgs
  bzip2 : Option (Nat × Option Nat)          -- request_max_compress_level, compress_level
  brotli : Option (Bool × Option Bool)       -- request_no_context_takeover, no_context_takeover

/-- `Offer.parse` of the class registered for the extension name; `none` = not a compression extension,
`some none` = the parser raised -/
def parseAnyOffer (name : List Char) (ps : Params) : Option (Option AnyOffer) :=
  if name = extensionName then some ((Offer.parse ps).map .deflate)
  else if name = bzip2ExtensionName then some ((BzOffer.parse ps).map .bzip2)
  else if name = brotliExtensionName then some ((BrOffer.parse ps).map .brotli)
  else none

/-- the `for extension, params in self.websocket_extensions` loop of `succeedHandshake`:
`none` = `failHandshake`, otherwise the offers collected (unknown extensions are skipped) -/
def collectOffers : List (List Char × Params) → Option (List AnyOffer)
  | [] => some []
  | (n, ps) :: rest =>
    match parseAnyOffer n ps with
    | none => collectOffers rest
    | some none => none
    | some (some o) => (collectOffers rest).map (o :: ·)

/-- result of applying the policy to one offer: `none` = not this one, `some none` = constructor raised -/
def acceptOne (pol : ServerPolicy) : AnyOffer → Option (Option (List Char × AnyPmce))
  | .deflate o => pol.deflate.map fun x =>
      let a := x.on o
      if a.guard then some (a.render, .deflate (Pmce.fromOfferAccept true a)) else none
  | .bzip2 o => pol.bzip2.map fun x =>
      let a : BzOfferAccept := ⟨o, x.1, x.2⟩
      if a.guard then some (a.render, .bzip2 (BzPmce.fromOfferAccept true a)) else none
  | .brotli o => pol.brotli.map fun x =>
      let a : BrOfferAccept := ⟨o, x.1, x.2⟩
      if a.guard then some (a.render, .brotli (BrPmce.fromOfferAccept true a)) else none

def applyPolicy (pol : ServerPolicy) : List AnyOffer → Option (List Char × AnyPmce)
  | [] => none
  | o :: rest =>
    match acceptOne pol o with
    | none => applyPolicy pol rest
    | some r => r

inductive HsResult
  | fail
  | ok (ext : Option (List Char)) (pmce : Option AnyPmce)
deriving DecidableEq, Repr

/-- server: `Sec-WebSocket-Extensions` request header value ↦ (response extension string, PMCE in use) -/
def serverHandshake (pol : ServerPolicy) (hdr : List Char) : HsResult :=
  match collectOffers (parseExtensionsHeader hdr) with
  | none => .fail
  | some offers =>
    match applyPolicy pol offers with
    | none => .ok none none
    | some (s, p) => .ok (some s) (some p)

/-- the harness' client policy: `none` = the application declines (`perMessageCompressionAccept` returns
`None`, the default); otherwise the `…ResponseAccept` arguments per kind -/
structure ClientPolicy where
  deflate : Option RAcceptArgs
  bzip2 : Option (Option Nat)
  brotli : Option (Option Bool)

/-- parse the response with the class registered for the name and ask the policy.
`none` = not a compression extension; `some none` = parser raised / policy declined / constructor raised -/
def acceptResponse (pol : ClientPolicy) (name : List Char) (ps : Params) : Option (Option AnyPmce) :=
  if name = extensionName then
    some ((Response.parse ps).bind fun r => pol.deflate.bind fun y =>
      let a := y.on r
      if a.guard then some (.deflate (Pmce.fromResponseAccept false a)) else none)
  else if name = bzip2ExtensionName then
    some ((BzResponse.parse ps).bind fun r => pol.bzip2.bind fun l =>
      let a : BzResponseAccept := ⟨r, l⟩
      if a.guard then some (.bzip2 (BzPmce.fromResponseAccept false a)) else none)
  else if name = brotliExtensionName then
    some ((BrResponse.parse ps).bind fun r => pol.brotli.bind fun n =>
      let a : BrResponseAccept := ⟨r, n⟩
      if a.guard then some (.brotli (BrPmce.fromResponseAccept false a)) else none)
  else none

/-- the `for extension, params in websocket_extensions` loop of the client's `processHandshake`;
`cur` is `self._perMessageCompress`. `none` = `failHandshake`. -/
def clientLoop (pol : ClientPolicy) : List (List Char × Params) → Option AnyPmce → Option (Option AnyPmce)
  | [], cur => some cur
  | (n, ps) :: rest, cur =>
    match acceptResponse pol n ps with
    | none => none                                   -- extension we did not request / do not know
    | some r =>
      match cur with
      | some _ => none                               -- multiple occurrence of a permessage-compress extension
      | none =>
        match r with
        | none => none                               -- parser raised, or the accept policy said no
        | some p => clientLoop pol rest (some p)

/-- client: `Sec-WebSocket-Extensions` response header value ↦ PMCE in use -/
def clientHandshake (pol : ClientPolicy) (hdr : List Char) : HsResult :=
  match clientLoop pol (parseExtensionsHeader hdr) none with
  | none => .fail
  | some p => .ok none p

/-! ## frames and the RSV1 rules of `processData` -/

structure Frame where
  fin : Bool
  rsv : Nat
  opcode : Nat
  payload : Bytes
deriving DecidableEq, Repr

/-- the header checks of `processData` that involve RSV, the opcode class and the fragmentation state
(`pmce` = an extension is in use, `inside` = `self.inside_message`); masking and length rules are C02's.
`false` = `_protocol_violation`. -/
def headerOk (pmce inside fin : Bool) (rsv opcode : Nat) : Bool :=
  -- RSV MUST be 0 unless an extension defines it
  (rsv == 0 || (pmce && rsv == 4))
  && (if opcode > 7 then
        fin && (opcode == 8 || opcode == 9 || opcode == 10)
        && !(pmce && rsv == 4)                                  -- control frames MUST NOT be compressed
      else
        (opcode == 0 || opcode == 1 || opcode == 2)
        && !(!inside && opcode == 0)
        && !(inside && opcode != 0)
        && !(pmce && rsv == 4 && inside))                       -- continuation MUST NOT carry the bit

/-! ## data path over an abstract stream codec -/

/-- an incremental compressor/decompressor pair (zlib's `compressobj`/`decompressobj`) -/
structure Codec where
  CSt : Type
  DSt : Type
  /-- `zlib.compressobj(level, DEFLATED, -wbits, memLevel)` -/
  freshC : Nat → Nat → CSt
  /-- `zlib.decompressobj(-wbits)` -/
  freshD : Nat → DSt
  compress : CSt → Bytes → CSt × Bytes
  /-- `flush(Z_SYNC_FLUSH)` -/
  flush : CSt → CSt × Bytes
  /-- `none` = `zlib.error` -/
  decompress : DSt → Bytes → Option (DSt × Bytes)

/-- the empty stored block a sync flush ends with (RFC 7692 §7.2.1) -/
def rfcTail : Bytes := [0x00, 0x00, 0xff, 0xff]

/-- feed chunks to a decompressor, concatenating what comes out -/
def Codec.feed (K : Codec) : K.DSt → List Bytes → Option (K.DSt × Bytes)
  | d, [] => some (d, [])
  | d, c :: cs =>
    match K.decompress d c with
    | none => none
    | some (d1, o1) =>
      match K.feed d1 cs with
      | none => none
      | some (d2, o2) => some (d2, o1 ++ o2)

/-- compress a message handed over in pieces, collecting the output of every call -/
def Codec.compressAll (K : Codec) : K.CSt → List Bytes → K.CSt × List Bytes
  | c, [] => (c, [])
  | c, p :: ps =>
    let r := K.compress c p
    let r2 := K.compressAll r.1 ps
    (r2.1, r.2 :: r2.2)

/-- send half of the extension object (`_compressor` is touched by the send path only) -/
structure Tx (K : Codec) where
  pmce : Option Pmce
  comp : Option K.CSt

/-- receive half (`_decompressor` is touched by the receive path only) -/
structure Rx (K : Codec) where
  pmce : Option Pmce
  dec : Option K.DSt
  inside : Bool
  compressed : Bool
  bin : Bool
  acc : Bytes

variable {K : Codec}

/-- `start_compress_message`: a new compressor if there is none or on no-context-takeover -/
def startCompress (p : Pmce) (comp : Option K.CSt) : K.CSt :=
  match comp with
  | some c => if p.encNct then K.freshC p.encWbits p.memLevel else c
  | none => K.freshC p.encWbits p.memLevel

/-- `end_compress_message`: `flush(Z_SYNC_FLUSH)[:-stripLen]` -/
def endCompress (c : K.CSt) : K.CSt × Bytes :=
  let r := K.flush c
  (r.1, r.2.take (r.2.length - stripLen))

/-- `start_decompress_message` -/
def startDecompress (p : Pmce) (dec : Option K.DSt) : K.DSt :=
  match dec with
  | some d => if p.decNct then K.freshD p.decWbits else d
  | none => K.freshD p.decWbits

def single (opcode rsv : Nat) (payload : Bytes) : Frame := ⟨true, rsv, opcode, payload⟩

/-- the `while not done` loop of `sendMessage` (`pfs = n + 1`); `rest = payload[i:]`.
`j > n` is `rest.length < pfs`: a payload that is a multiple of `pfs` ends with an empty final frame. -/
def fragLoop (n : Nat) (opcode rsv : Nat) (first : Bool) (rest : Bytes) : List Frame :=
  if rest.length < n + 1 then
    [⟨true, if first then rsv else 0, if first then opcode else 0, rest⟩]
  else
    ⟨false, if first then rsv else 0, if first then opcode else 0, rest.take (n + 1)⟩
      :: fragLoop n opcode rsv false (rest.drop (n + 1))
termination_by rest.length
decreasing_by simp; omega

/-- frames of one `sendMessage`; `none` = `Exception("payload fragment size must be at least 1")` -/
def fragment (frag : Option Nat) (opcode rsv : Nat) (payload : Bytes) : Option (List Frame) :=
  match frag with
  | none => some [single opcode rsv payload]
  | some pfs =>
    if payload.length ≤ pfs then some [single opcode rsv payload]
    else match pfs with
      | 0 => none
      | n + 1 => some (fragLoop n opcode rsv true payload)

inductive SendRes
  | sent (frames : List Frame)
  | refused            -- `PayloadExceededError`
  | error              -- any other exception
deriving DecidableEq, Repr

def opcodeOf (bin : Bool) : Nat := if bin then 2 else 1

/-- `sendMessage(payload, isBinary, fragmentSize, doNotCompress)` with `maxMessagePayloadSize = maxPayload`
(`frag` is the effective fragment size: the argument, else `autoFragmentSize` if positive). -/
def sendMessage (t : Tx K) (maxPayload : Nat) (bin dnc : Bool) (frag : Option Nat) (payload : Bytes) :
    Tx K × SendRes :=
  match t.pmce, dnc with
  | some p, false =>
    let c0 := startCompress p t.comp
    let r1 := K.compress c0 payload
    let r2 := endCompress r1.1
    let wire := r1.2 ++ r2.2
    let t' : Tx K := { t with comp := some r2.1 }
    -- refused after compressing: the compression context is dropped, the next message starts a fresh one
    if 0 < maxPayload ∧ maxPayload < wire.length then ({ t with comp := none }, .refused)
    else match fragment frag (opcodeOf bin) 4 wire with
      | none => (t', .error)
      | some fs => (t', .sent fs)
  | _, _ =>
    if 0 < maxPayload ∧ maxPayload < payload.length then (t, .refused)
    else match fragment frag (opcodeOf bin) 0 payload with
      | none => (t, .error)
      | some fs => (t, .sent fs)

/-- frames of `sendMessageFrame` calls after the first one: continuation frames, FIN clear -/
def contFrames (payloads : List Bytes) : List Frame := payloads.map fun p => ⟨false, 0, 0, p⟩

/-- `beginMessage(isBinary, doNotCompress)`, one `sendMessageFrame` per piece, `endMessage()`.
With no piece at all `endMessage` emits a lone continuation frame (what the code does). -/
def sendStream (t : Tx K) (bin dnc : Bool) (pieces : List Bytes) : Tx K × List Frame :=
  match t.pmce, dnc with
  | some p, false =>
    let c0 := startCompress p t.comp
    let r := K.compressAll c0 pieces
    let e := endCompress r.1
    let fs := match r.2 with
      | [] => []
      | o :: os => ⟨false, 4, opcodeOf bin, o⟩ :: contFrames os
    ({ t with comp := some e.1 }, fs ++ [⟨true, 0, 0, e.2⟩])
  | _, _ =>
    let fs := match pieces with
      | [] => []
      | o :: os => ⟨false, 0, opcodeOf bin, o⟩ :: contFrames os
    (t, fs ++ [⟨true, 0, 0, []⟩])

/-- a frame as the receiver sees it: the payload arrives in chunks (`onFrameData` per read) -/
structure WireFrame where
  fin : Bool
  rsv : Nat
  opcode : Nat
  chunks : List Bytes
deriving Repr

/-- `wf` is a segmentation of `f` -/
def Seg (f : Frame) (wf : WireFrame) : Prop :=
  wf.fin = f.fin ∧ wf.rsv = f.rsv ∧ wf.opcode = f.opcode ∧ wf.chunks.flatten = f.payload

/-- `onFrameData` on every chunk of a data frame -/
def rxData (compressed : Bool) : Option K.DSt → Bytes → List Bytes → Option (Option K.DSt × Bytes)
  | dec, acc, [] => some (dec, acc)
  | dec, acc, c :: cs =>
    if compressed then
      match dec with
      | none => none
      | some d =>
        match K.decompress d c with
        | none => none
        | some (d1, o) => rxData compressed (some d1) (acc ++ o) cs
    else rxData compressed dec (acc ++ c) cs

/-- one frame through `processData` (RSV/opcode rules) and `onFrameBegin/Data/End`.
`none` = the connection is failed; otherwise the new state and the message delivered, if one ended.
Control frames that pass the header rules are C02/C05's and leave this state alone. -/
def rxFrame (r : Rx K) (wf : WireFrame) : Option (Rx K × Option (Bool × Bytes)) :=
  if !headerOk r.pmce.isSome r.inside wf.fin wf.rsv wf.opcode then none
  else if wf.opcode > 7 then some (r, none)
  else
    -- onFrameBegin
    let r1 : Rx K :=
      if !r.inside then
        match r.pmce with
        | some p =>
          if wf.rsv == 4 then
            { r with inside := true, compressed := true, dec := some (startDecompress p r.dec),
                     bin := wf.opcode == 2, acc := [] }
          else { r with inside := true, compressed := false, bin := wf.opcode == 2, acc := [] }
        | none => { r with inside := true, compressed := false, bin := wf.opcode == 2, acc := [] }
      else r
    -- onFrameData
    match rxData r1.compressed r1.dec r1.acc wf.chunks with
    | none => none
    | some (dec2, acc2) =>
      -- onFrameEnd
      if wf.fin then
        if r1.compressed then
          match dec2 with
          | none => none
          | some d =>
            -- end_decompress_message: the output of the re-appended tail is dropped
            match K.decompress d tailBytes with
            | none => none
            | some (d3, _) =>
              some ({ r1 with dec := some d3, inside := false, acc := [] }, some (r1.bin, acc2))
        else some ({ r1 with dec := dec2, inside := false, acc := [] }, some (r1.bin, acc2))
      else some ({ r1 with dec := dec2, acc := acc2 }, none)

/-- a whole frame sequence; `none` = connection failed somewhere -/
def rxAll : Rx K → List WireFrame → Option (Rx K × List (Bool × Bytes))
  | r, [] => some (r, [])
  | r, wf :: rest =>
    match rxFrame r wf with
    | none => none
    | some (r1, m) =>
      match rxAll r1 rest with
      | none => none
      | some (r2, ms) => some (r2, m.toList ++ ms)

/-- a message as the application hands it to the sender -/
inductive Msg
  | whole (bin dnc : Bool) (frag : Option Nat) (payload : Bytes)
  | stream (bin dnc : Bool) (pieces : List Bytes)
deriving Repr

def Msg.bin : Msg → Bool
  | .whole b _ _ _ => b
  | .stream b _ _ => b
def Msg.data : Msg → Bytes
  | .whole _ _ _ p => p
  | .stream _ _ ps => ps.flatten
/-- API preconditions: a fragment size is at least 1, a streamed message has at least one frame -/
def Msg.wf : Msg → Prop
  | .whole _ _ frag _ => frag ≠ some 0
  | .stream _ _ ps => ps ≠ []

/-- send one message; refused or erroneous sends put nothing on the wire (`sent = false`) -/
def sendOne (t : Tx K) (maxPayload : Nat) : Msg → Tx K × List Frame × Bool
  | .whole b d frag p =>
    match sendMessage t maxPayload b d frag p with
    | (t', .sent fs) => (t', fs, true)
    | (t', _) => (t', [], false)
  | .stream b d ps => let r := sendStream t b d ps; (r.1, r.2, true)

/-- send a sequence; returns the final state, all frames, and the messages that were actually sent -/
def sendAll (t : Tx K) (maxPayload : Nat) : List Msg → Tx K × List Frame × List (Bool × Bytes)
  | [] => (t, [], [])
  | m :: ms =>
    let r := sendOne t maxPayload m
    let r2 := sendAll r.1 maxPayload ms
    (r2.1, r.2.1 ++ r2.2.1, (if r.2.2 then [(m.bin, m.data)] else []) ++ r2.2.2)

end Abverif.Pmce
