import Abverif.Model.Basic
/-!
C14 — model of `autobahn.wamp.component` (+ the Twisted / asyncio `_connect_transport` wrappers and
`autobahn.util.ObservableMixin.fire`).  Import-free.

* `Q`      unnormalised rationals (delays / virtual time).  All inputs are dyadic, so the float arithmetic of the
           implementation is exact on the grids the harness compares exactly.
* `Tr`     `_Transport`: configuration + retry bookkeeping (`reset`, `failed`, `can_reconnect`, `next_delay`).
* `step`   `Component._start` (the `transport_check` / `attempt_connect` / `handle_connect_error` loop over
           `itertools.cycle(self._transports)`), `_connect_once` (per-connection `done` future and its listeners),
           `Component.stop`, the write-once `_done_f`, and event bubbling from sessions to the component.
* `Spec`   the property as monitors over the observation log (what a user of the component can see).

Scheduling assumption (also what the harness does): timers that are due *now* (`call_later(0, …)`, `sleep(0)`) run
before the next external event; every connection is resolved by exactly one outcome.
-/
namespace Abverif.Comp

/-! ### rationals -/

structure Q where
  num : Int
  den : Nat
deriving DecidableEq, Repr, Inhabited

namespace Q
def zero : Q := ⟨0, 1⟩
def mul (a b : Q) : Q := ⟨a.num * b.num, a.den * b.den⟩
def add (a b : Q) : Q := ⟨a.num * b.den + b.num * a.den, a.den * b.den⟩
def lt (a b : Q) : Bool := decide (a.num * b.den < b.num * a.den)
def le (a b : Q) : Bool := decide (a.num * b.den ≤ b.num * a.den)
/-- `0 < a` (denominators are positive) -/
def pos (a : Q) : Bool := decide (0 < a.num)
def isZero (a : Q) : Bool := decide (a.num = 0)
end Q

/-! ### `_Transport` -/

structure Tr where
  maxRetries : Int
  maxDelay : Q
  initial : Q
  growth : Q
  jitter : Q
  attempts : Nat
  successes : Nat
  failures : Nat
  retryDelay : Q
  permFail : Bool
deriving DecidableEq, Repr, Inhabited

namespace Tr

/-- `_Transport.__init__` (ends with `self.reset()`) -/
def new (maxRetries : Int) (maxDelay initial growth jitter : Q) : Tr :=
  { maxRetries, maxDelay, initial, growth, jitter,
    attempts := 0, successes := 0, failures := 0, retryDelay := initial, permFail := false }

/-- `reset()` -/
def reset (t : Tr) : Tr :=
  { t with attempts := 0, successes := 0, failures := 0, retryDelay := t.initial }

/-- `failed()` -/
def failed (t : Tr) : Tr := { t with permFail := true }

/-- `can_reconnect()` -/
def canReconnect (t : Tr) : Bool :=
  if t.permFail then false
  else if t.maxRetries = -1 then true
  else decide ((t.attempts : Int) < t.maxRetries + 1)

/-- `next_delay()`; `z` is the standard-normal sample behind `random.normalvariate(mu, mu * jitter)`
(an input).  `none` = `RuntimeError("max reconnects reached")`. -/
def nextDelay (t : Tr) (z : Q) : Option (Tr × Q) :=
  if t.attempts = 0 then some (t, Q.zero)
  else if t.maxRetries ≠ -1 ∧ (t.attempts : Int) ≥ t.maxRetries + 1 then none
  else
    let mu := t.retryDelay.mul t.growth
    let r := mu.add (z.mul (mu.mul t.jitter))
    let r' := if t.maxDelay.lt r then t.maxDelay else r
    some ({ t with retryDelay := r' }, r')

end Tr

/-! ### events, observations -/

inductive Outcome
  | refused        -- connect() fails
  | hsFail         -- TCP up, transport (WebSocket / RawSocket) handshake fails, TCP dropped
  | abort          -- transport up, HELLO answered with ABORT
  | joinedLost     -- WELCOME, then the transport is lost
  | joinedLeave    -- WELCOME, then session.leave() and the router's GOODBYE
  | mainReturns    -- WELCOME, main() returns  (only with a main)
  | mainRaises     -- WELCOME, main() raises   (only with a main)
  | joined         -- WELCOME, session stays up (continued by `Event.sess`)
deriving DecidableEq, Repr

inductive SessEv
  | lost | leave | goodbye
deriving DecidableEq, Repr

inductive Event
  | start | delayElapsed | stop
  | outcome (o : Outcome) (fatal : Bool)
  | sess (e : SessEv) (fatal : Bool)
deriving DecidableEq, Repr

/-- the five session events the component re-publishes -/
inductive Ev
  | connect | join | ready | leave | disconnect
deriving DecidableEq, Repr

inductive Handler
  | onLeave | onJoin | onDisconnect    -- the closures `_connect_once` registers on every session
  | user (e : Ev)                      -- a listener registered on the component
deriving DecidableEq, Repr

/-- what can be observed from outside (harness) / what the model emits -/
inductive Obs
  | att (i : Nat) (waited : Q) (t : Q)   -- connection attempt on transport i at virtual time t, `waited` after the check
  | sess (n i : Nat)                      -- session #n created on transport i
  | sfire (ev : Ev) (n : Nat)             -- session n fires ev
  | call (ev : Ev) (n : Nat)              -- the component's listener for ev is invoked for session n
  | join (i : Nat)                        -- a session joined on transport i
  | fail (i : Nat)                        -- the connection on transport i failed or was lost
  | fatal (i : Nat)                       -- the error on transport i was classified fatal
  | mainRaised (i : Nat)
  | cleanEnd (i : Nat)                    -- normal leave / main returned (GOODBYE handshake completes)
  | stop                                  -- stop() called
  | done (ok : Bool)                      -- the future returned by start() completes
  | lateDone (ok : Bool)                  -- a further completion is attempted (raises inside the implementation)
deriving DecidableEq, Repr

/-! ### `ObservableMixin.fire` -/

/-- `_listeners`: `none` until the first `.on()` -/
abbrev Listeners := Option (List (Ev × Handler))

/-- `fire(event)` on the head of a parent chain (session :: component :: []).  Mirrors the code: an object whose
`_listeners` is still `None` returns early and does **not** consult its parent. -/
def fireChain : List Listeners → Ev → List Handler
  | [], _ => []
  | none :: _, _ => []
  | some ls :: rest, ev => ((ls.filter (fun p => p.1 = ev)).map (·.2)) ++ fireChain rest ev

/-- listeners `_connect_once.create_session` puts on each session (in registration order; `on_join` is registered
whether or not a main was given) -/
def sessionOwn : Listeners :=
  some [(Ev.leave, Handler.onLeave), (Ev.join, Handler.onJoin), (Ev.disconnect, Handler.onDisconnect)]

def compNode (ls : List Ev) : Listeners :=
  if ls.isEmpty then none else some (ls.map fun e => (e, Handler.user e))

def userCalls (n : Nat) : List Handler → List Obs
  | [] => []
  | .user e :: hs => .call e n :: userCalls n hs
  | _ :: hs => userCalls n hs

/-! ### component -/

structure Cfg where
  hasMain : Bool          -- `main=` given
  classifier : Bool       -- `is_fatal=` given (then the per-event flag is its answer)
  aio : Bool              -- asyncio flavour of txaio (see `sessionDone`, `Outcome.refused`)
  listeners : List Ev     -- events with a listener on the component
deriving Repr

inductive Phase
  | idle
  | waiting (i : Nat) (d : Q)   -- `_delay_f` pending
  | connecting (i : Nat)        -- `_connect_once` in flight
  | up (i : Nat)                -- session joined
  | closing (i : Nat)           -- stop() sent GOODBYE, reply outstanding
  | dead                        -- the reconnect loop has ended
  | crashed                     -- an exception left `transport_check` (shown unreachable)
deriving DecidableEq, Repr

structure State where
  cfg : Cfg
  trs : List Tr
  cursor : Nat            -- position of `itertools.cycle` (index the next `next()` returns)
  phase : Phase
  now : Q
  done : Option Bool      -- `_done_f`: write-once
  zs : List Q             -- jitter samples still to be consumed
  nsess : Nat
  stopping : Bool         -- `_stopping`: set by stop(), cleared by `_start`
deriving Repr

def init (cfg : Cfg) (trs : List Tr) (zs : List Q) : State :=
  { cfg, trs, cursor := 0, phase := .idle, now := Q.zero, done := none, zs, nsess := 0,
    stopping := false }

def updAt (f : Tr → Tr) : List Tr → Nat → List Tr
  | [], _ => []
  | t :: ts, 0 => f t :: ts
  | t :: ts, i + 1 => t :: updAt f ts i

def sfire (cfg : Cfg) (ev : Ev) (n : Nat) : List Obs :=
  .sfire ev n :: userCalls n (fireChain [sessionOwn, compNode cfg.listeners] ev)

/-- `txaio.resolve/reject(self._done_f, …)`: after the first completion `_done_f` is `None` (`_reset`), so a later
write raises instead of completing anything. -/
def setDone (ok : Bool) (s : State) : State × List Obs :=
  match s.done with
  | none => ({ s with done := some ok }, [.done ok])
  | some _ => (s, [.lateDone ok])

/-- `attempt_connect` → `_connect_once`: `transport.connect_attempts += 1`, then the connect call -/
def attemptConnect (i : Nat) (waited : Q) (s : State) : State × List Obs :=
  ({ s with trs := updAt (fun t => { t with attempts := t.attempts + 1 }) s.trs i, phase := .connecting i },
   [.att i waited s.now])

/-- `while True: transport = next(transport_gen); if transport.can_reconnect(): break` -/
def pick (trs : List Tr) : Nat → Nat → Option Nat
  | _, 0 => none
  | cur, fuel + 1 =>
    match trs[cur % trs.length]? with
    | none => none
    | some t => if t.canReconnect then some (cur % trs.length) else pick trs (cur + 1) fuel

/-- `transport_check` after stop(): `if self._stopping:` resolve `_done_f` if it is still open, and return — nothing is
scheduled any more -/
def stopCheck (s : State) : State × List Obs :=
  match s.done with
  | none => ({ s with done := some true, phase := .dead }, [.done true])
  | some _ => ({ s with phase := .dead }, [])

/-- `transport_check` -/
def transportCheck (s : State) : State × List Obs :=
  if s.stopping then stopCheck s
  else if !(s.trs.any Tr.canReconnect) then
    let r := setDone false s
    ({ r.1 with phase := .dead }, r.2)
  else
    match pick s.trs s.cursor s.trs.length with
    | none => ({ s with phase := .crashed }, [])
    | some i =>
      match s.trs[i]? with
      | none => ({ s with phase := .crashed }, [])
      | some t =>
        match t.nextDelay (s.zs.headD Q.zero) with
        | none => ({ s with phase := .crashed }, [])
        | some (t', d) =>
          let s1 := { s with trs := updAt (fun _ => t') s.trs i, cursor := (i + 1) % s.trs.length,
                             zs := if t.attempts = 0 then s.zs else s.zs.tail }
          if d.pos then ({ s1 with phase := .waiting i d }, [])
          else attemptConnect i Q.zero s1

/-- `connect_error` → `handle_connect_error`: classify, maybe `failed()`, `call_later(0, transport_check)` -/
def failRetry (i : Nat) (fatal : Bool) (s : State) : State × List Obs :=
  if s.cfg.classifier && fatal then
    let r := transportCheck { s with trs := updAt Tr.failed s.trs i }
    (r.1, .fatal i :: r.2)
  else transportCheck s

/-- `session_done`: the per-connection future resolved.  If `_done_f` is already gone the write raises; under
asyncio txaio then also runs the errback (`connect_error`), under Twisted the error is dropped. -/
def sessionDone (i : Nat) (fatal : Bool) (s : State) : State × List Obs :=
  match s.done with
  | none => ({ s with done := some true, phase := .dead }, [.done true])
  | some _ =>
    if s.cfg.aio then
      let r := failRetry i fatal s
      (r.1, .lateDone true :: r.2)
    else ({ s with phase := .dead }, [.lateDone true])

/-- `on_join` (registered on every session): `transport.reset(); transport.connect_sucesses += 1`; main is run
afterwards if there is one -/
def joinOn (i : Nat) (s : State) : State :=
  { s with trs := updAt (fun t => { t.reset with successes := 1 }) s.trs i }

/-- session creation up to `ready` -/
def joinedPre (c : Cfg) (n i : Nat) : List Obs :=
  [.sess n i] ++ sfire c .connect n ++ [.join i] ++ sfire c .join n ++ sfire c .ready n

def onOutcome (i : Nat) (o : Outcome) (fatal : Bool) (s : State) : State × List Obs :=
  let n := s.nsess
  let c := s.cfg
  match o with
  | .refused =>
    let r := failRetry i fatal
      { s with trs := updAt (fun t => { t with failures := t.failures + (if c.aio then 2 else 1) }) s.trs i }
    (r.1, .fail i :: r.2)
  | .hsFail =>
    let r := failRetry i fatal s
    (r.1, .fail i :: r.2)
  | .abort =>
    let r := failRetry i fatal { s with nsess := n + 1 }
    (r.1, [.fail i, .sess n i] ++ sfire c .connect n ++ sfire c .leave n ++ r.2 ++ sfire c .disconnect n)
  | .joinedLost =>
    let r := failRetry i fatal (joinOn i { s with nsess := n + 1 })
    (r.1, .fail i :: joinedPre c n i ++ sfire c .leave n ++ r.2 ++ sfire c .disconnect n)
  | .joinedLeave =>
    let r := sessionDone i fatal (joinOn i { s with nsess := n + 1 })
    (r.1, joinedPre c n i ++ [.cleanEnd i] ++ sfire c .leave n ++ r.2 ++ sfire c .disconnect n)
  | .mainReturns =>
    if c.hasMain then
      let r := sessionDone i fatal (joinOn i { s with nsess := n + 1 })
      (r.1, joinedPre c n i ++ [.cleanEnd i] ++ sfire c .leave n ++ r.2 ++ sfire c .disconnect n)
    else (s, [])
  | .mainRaises =>
    if c.hasMain then
      let r := failRetry i fatal (joinOn i { s with nsess := n + 1 })
      (r.1, joinedPre c n i ++ [.mainRaised i] ++ r.2 ++ sfire c .leave n ++ sfire c .disconnect n)
    else (s, [])
  | .joined =>
    ({ joinOn i { s with nsess := n + 1 } with phase := .up i }, joinedPre c n i)

def onSess (e : SessEv) (fatal : Bool) (s : State) : State × List Obs :=
  let c := s.cfg
  let n := s.nsess - 1
  match s.phase, e with
  | .up i, .lost | .closing i, .lost =>
    let r := failRetry i fatal s
    (r.1, .fail i :: sfire c .leave n ++ r.2 ++ sfire c .disconnect n)
  | .up i, .leave | .closing i, .goodbye =>
    let r := sessionDone i fatal s
    (r.1, [.cleanEnd i] ++ sfire c .leave n ++ r.2 ++ sfire c .disconnect n)
  | _, _ => (s, [])

/-- `Component.stop()`: `_stopping = True`, then … -/
def onStop (s : State) : State × List Obs :=
  match s.phase with
  | .idle => (s, [])        -- before start(): raises, and `_start` clears `_stopping` again
  | .waiting _ _ =>
    -- cancel `_delay_f` → `error()` → `_stopping` → resolve `_done_f`; nothing is scheduled any more
    let r := setDone true { s with stopping := true }
    ({ r.1 with phase := .dead }, .stop :: r.2)
  | .connecting _ =>
    -- neither an attached session nor a delay: `_done_f` is resolved directly; the connect in flight is not
    -- cancelled, but whatever becomes of it `transport_check` will not start another one
    match s.done with
    | none => ({ s with stopping := true, done := some true }, [.stop, .done true])
    | some _ => ({ s with stopping := true }, [.stop])
  | .up i => ({ s with stopping := true, phase := .closing i }, [.stop])      -- `session.leave()`
  | _ => ({ s with stopping := true }, [.stop])

def step (s : State) : Event → State × List Obs
  | .start =>
    match s.phase with
    | .idle => transportCheck s
    | _ => (s, [])
  | .delayElapsed =>
    match s.phase with
    | .waiting i d => attemptConnect i d { s with now := s.now.add d }
    | _ => (s, [])
  | .stop => onStop s
  | .outcome o f =>
    match s.phase with
    | .connecting i => onOutcome i o f s
    | _ => (s, [])
  | .sess e f => onSess e f s

def run (s : State) : List Event → State × List Obs
  | [] => (s, [])
  | e :: es =>
    let r1 := step s e
    let r2 := run r1.1 es
    (r2.1, r1.2 ++ r2.2)

/-- nothing scheduled, nothing in flight -/
def State.idle (s : State) : Bool :=
  match s.phase with
  | .dead | .crashed => true
  | _ => false

/-! ### Spec — the property as monitors over the observation log

`mr i` / `maxD i` are the configured `max_retries` / `max_retry_delay` of transport `i`, `n` the number of
transports.  `Core` is pure bookkeeping over what has been observed so far (attempts per transport since its last
successful join, transports whose error was classified fatal, whether stop() was called, …); every clause of the
property is a check `Chk` of the next observation against that bookkeeping plus a check `Fin` at the end of the log.
Listener bubbling has its own small monitor `Fire`. -/
namespace Spec

structure Conf where
  n : Nat
  mr : Nat → Int
  maxD : Nat → Q
  listeners : List Ev

structure Core where
  cnt : Nat → Nat := fun _ => 0        -- attempts since the last successful join
  ever : Nat → Nat := fun _ => 0       -- attempts ever
  failed : Nat → Bool := fun _ => false
  last : Option Nat := none            -- last attempted transport
  started : Bool := false
  stopped : Bool := false
  done : Option Bool := none
  pendingClean : Bool := false         -- a session ended normally and start()'s future is still open
  pendingRaise : Bool := false         -- main raised and start()'s future is still open

def upd (f : Nat → α) (i : Nat) (v : α) : Nat → α := fun j => if j = i then v else f j

def Core.feed (_c : Conf) (k : Core) : Obs → Core
  | .att i _ _ =>
    { k with cnt := upd k.cnt i (k.cnt i + 1), ever := upd k.ever i (k.ever i + 1), last := some i,
             started := true, pendingRaise := false, pendingClean := false }
  | .join i => { k with cnt := upd k.cnt i 0 }
  | .fatal i => { k with failed := upd k.failed i true }
  | .mainRaised _ => { k with pendingRaise := k.done.isNone }
  | .cleanEnd _ => { k with pendingClean := true }
  | .stop => { k with stopped := true }
  | .done ok => { k with done := some ok, pendingClean := false, pendingRaise := false }
  | .sfire _ _ | .call _ _ | .fail _ | .lateDone _ | .sess _ _ => k

def feedAll (c : Conf) (k : Core) (log : List Obs) : Core := log.foldl (Core.feed c) k

abbrev Chk := Conf → Core → Obs → Bool
abbrev Fin := Conf → Core → Bool → Bool

/-- all checks along a log, then the final check (`idle`: nothing scheduled / in flight at the end) -/
def specAll (chk : Chk) (fin : Fin) (c : Conf) (k : Core) (idle : Bool) : List Obs → Bool
  | [] => fin c k idle
  | o :: r => chk c k o && specAll chk fin c (k.feed c o) idle r

def finTrue : Fin := fun _ _ _ => true

def budgetOk (c : Conf) (k : Core) (i : Nat) : Bool :=
  c.mr i == -1 || decide ((k.cnt i : Int) < c.mr i + 1)

def elig (c : Conf) (k : Core) (i : Nat) : Bool := !(k.failed i) && budgetOk c k i

def anyElig (c : Conf) (k : Core) : Bool := (List.range c.n).any (elig c k)

/-- first eligible index in cyclic order starting at `start` -/
def firstElig (c : Conf) (k : Core) (start : Nat) : Option Nat :=
  ((List.range c.n).map (fun j => (start + j) % c.n)).find? (elig c k)

def startOf : Option Nat → Nat
  | none => 0
  | some l => l + 1

/-- at most max_retries+1 attempts per transport since its last successful join (−1: unbounded) -/
def chkBudget : Chk
  | c, k, .att i _ _ => budgetOk c k i
  | _, _, _ => true

/-- no attempt on a transport after an error classified fatal -/
def chkFatal : Chk
  | _, k, .att i _ _ => !(k.failed i)
  | _, _, _ => true

/-- the attempted transport is the first eligible one after the previously attempted, in cyclic order -/
def chkRoundRobin : Chk
  | c, k, .att i _ _ => firstElig c k (startOf k.last) == some i
  | _, _, _ => true

/-- a transport is attempted for the first time without delay -/
def chkFirst : Chk
  | _, k, .att i w _ => k.ever i != 0 || w.isZero
  | _, _, _ => true

/-- never waits longer than the configured maximum -/
def chkDelay : Chk
  | c, _, .att i w _ => w.le (c.maxD i)
  | _, _, _ => true

/-- the loop gives up only when no transport has attempts left … -/
def chkGiveUp : Chk
  | c, k, .done false => k.pendingRaise || !(anyElig c k)
  | _, _, _ => true

/-- … and is never idle with start()'s future open -/
def finProgress : Fin := fun _ k idle => !(idle && k.started && k.done.isNone)

/-- start()'s future completes at most once -/
def chkDoneOnce : Chk
  | _, k, .done _ => k.done.isNone
  | _, _, _ => true

/-- polarity: success only after a normal leave / main returned / stop(); error only after main raised or
exhaustion; a normal end or a failing main must complete the future before anything else is attempted -/
def chkPolarity : Chk
  | _, k, .done true => k.stopped || k.pendingClean
  | c, k, .done false => k.pendingRaise || !(anyElig c k)
  | _, k, .att _ _ _ => !(k.pendingRaise || (k.pendingClean && k.done.isNone))
  | _, _, _ => true

def finPolarity : Fin := fun _ k _ => !((k.pendingClean || k.pendingRaise) && k.done.isNone)

/-- no connection attempt after stop() -/
def chkStop : Chk
  | _, k, .att _ _ _ => !k.stopped
  | _, _, _ => true

def budgetSpec (c : Conf) (log : List Obs) : Bool := specAll chkBudget finTrue c {} false log
def fatalSpec (c : Conf) (log : List Obs) : Bool := specAll chkFatal finTrue c {} false log
def roundRobinSpec (c : Conf) (log : List Obs) : Bool := specAll chkRoundRobin finTrue c {} false log
def firstSpec (c : Conf) (log : List Obs) : Bool := specAll chkFirst finTrue c {} false log
def delaySpec (c : Conf) (log : List Obs) : Bool := specAll chkDelay finTrue c {} false log
def progressSpec (c : Conf) (log : List Obs) (idle : Bool) : Bool := specAll chkGiveUp finProgress c {} idle log
def doneOnceSpec (c : Conf) (log : List Obs) : Bool := specAll chkDoneOnce finTrue c {} false log
def polaritySpec (c : Conf) (log : List Obs) : Bool := specAll chkPolarity finPolarity c {} false log
def stopSpec (c : Conf) (log : List Obs) : Bool := specAll chkStop finTrue c {} false log

/-! listener bubbling: every session firing reaches the component's listener for that event exactly once before
the session fires again (the session's own handlers run first and may complete futures in between), and nothing
else is called -/

structure Fire where
  lastFire : Option (Ev × Nat) := none   -- the latest session firing …
  callsSeen : Nat := 0                    -- … and the component calls seen since

def Fire.feed (f : Fire) : Obs → Fire
  | .sfire ev n => { lastFire := some (ev, n), callsSeen := 0 }
  | .call _ _ => { f with callsSeen := f.callsSeen + 1 }
  | _ => f

def bubbleClosed (ls : List Ev) (f : Fire) : Bool :=
  match f.lastFire with
  | none => true
  | some (ev, _) => if ls.contains ev then f.callsSeen == 1 else f.callsSeen == 0

def chkBubble (ls : List Ev) (f : Fire) : Obs → Bool
  | .call ev n => f.lastFire == some (ev, n) && f.callsSeen == 0 && ls.contains ev
  | .sfire _ _ => bubbleClosed ls f
  | _ => true

def bubbleAll (ls : List Ev) (f : Fire) : List Obs → Bool
  | [] => bubbleClosed ls f
  | o :: r => chkBubble ls f o && bubbleAll ls (f.feed o) r

def bubbleSpec (c : Conf) (log : List Obs) : Bool := bubbleAll c.listeners {} log

end Spec

def confOf (trs : List Tr) (listeners : List Ev) : Spec.Conf :=
  { n := trs.length,
    mr := fun i => match trs[i]? with | some t => t.maxRetries | none => 0,
    maxD := fun i => match trs[i]? with | some t => t.maxDelay | none => Q.zero,
    listeners }

end Abverif.Comp
