import Abverif.Model.Basic
import Abverif.Model.Xor
import Abverif.Model.WsHeader
/-
The WebSocket engine model shared by C01, C02, C05, C16, C17.

Mirrors `autobahn/websocket/protocol.py` (class WebSocketProtocol) after the opening handshake:
  _dataReceived / consumeData / processData / onFrameBegin / onFrameData / onFrameEnd /
  processControlFrame / onCloseFrame / onMessage* / _fail_connection / _protocol_violation /
  _invalid_payload / dropConnection / _connectionLost / the four timeout handlers /
  sendFrame / sendMessage / beginMessage … endMessage / sendPreparedMessage / sendData / _send /
  sendPing / sendPong / _sendAutoPing / sendCloseFrame / sendClose.

All functions are `S → S` (plus a Bool where the Python returns one); everything observable is appended to
the monotone log `S.log`.  Time is virtual, in units of 2^-20 s (`sec` units per second), so that every time the
harness uses is an exact binary float on the Python side (it sets `_QUEUED_WRITE_DELAY = 2^-17 s`).  Mask keys come from a deterministic key stream
(`keyOf`), because the RNG is environment.  Compression is *not* modelled here (see Model/Pmce.lean): with a PMCE
negotiated (`cfg.pmce`) the model only applies the RSV1 header rules and tags delivered messages as compressed.
-/
namespace Abverif.Ws
open Abverif Abverif.Xor

/-! ## incremental UTF-8 acceptor (written from RFC 3629 §4, independent of the DFA table of C09) -/

inductive U8 | s0 | c1 | e0 | c2 | ed | f0 | c3 | f4 | rej
deriving DecidableEq, Repr

def between (b : UInt8) (lo hi : UInt8) : Bool := lo ≤ b && b ≤ hi

def U8.step : U8 → UInt8 → U8
  | .s0, b =>
    if b ≤ 0x7F then .s0
    else if between b 0xC2 0xDF then .c1
    else if b = 0xE0 then .e0
    else if between b 0xE1 0xEC || between b 0xEE 0xEF then .c2
    else if b = 0xED then .ed
    else if b = 0xF0 then .f0
    else if between b 0xF1 0xF3 then .c3
    else if b = 0xF4 then .f4
    else .rej
  | .c1, b => if between b 0x80 0xBF then .s0 else .rej
  | .e0, b => if between b 0xA0 0xBF then .c1 else .rej
  | .c2, b => if between b 0x80 0xBF then .c1 else .rej
  | .ed, b => if between b 0x80 0x9F then .c1 else .rej
  | .f0, b => if between b 0x90 0xBF then .c2 else .rej
  | .c3, b => if between b 0x80 0xBF then .c2 else .rej
  | .f4, b => if between b 0x80 0x8F then .c2 else .rej
  | .rej, _ => .rej

def u8run (s : U8) (bs : Bytes) : U8 := bs.foldl U8.step s

/-- whole-string validity: `Utf8Validator().validate(bs)` gives `(True, True, …)` -/
def utf8Valid (bs : Bytes) : Bool := u8run .s0 bs = .s0

/-! ## configuration, state, observations -/

inductive St | connecting | opened | closing | closed
deriving DecidableEq, Repr

def St.rank : St → Nat
  | .connecting => 0 | .opened => 1 | .closing => 2 | .closed => 3

structure Cfg where
  isServer : Bool := true
  requireMasked : Bool := true      -- requireMaskedClientFrames
  acceptMasked : Bool := false      -- acceptMaskedServerFrames
  maskClient : Bool := true         -- maskClientFrames
  maskServer : Bool := false        -- maskServerFrames
  applyMask : Bool := true
  failByDrop : Bool := true
  utf8validate : Bool := true
  echoClose : Bool := false
  maxFrame : Nat := 0
  maxMsg : Nat := 0
  autoFragment : Nat := 0
  pmce : Bool := false
  closeHsTimeout : Nat := 1048576   -- time units (2^-20 s); 0 = off
  serverDropTimeout : Nat := 1048576
  openHsTimeout : Nat := 5242880
  pingInterval : Nat := 0
  pingTimeout : Nat := 0
  pingSize : Nat := 12
  pingRestart : Bool := true        -- autoPingRestartOnAnyTraffic
  asyncio : Bool := false           -- asyncio adapter: `transport` is None after connection_lost
deriving Repr

/-- why the close is reported unclean (`wasNotCleanReason`, as a class) -/
inductive NCR
  | peerDropped | openTimeout | closeTimeout | serverDropTimeout | pingTimeout | iDropped
deriving DecidableEq, Repr

inductive Err | disconnected | payloadExceeded | exception
deriving DecidableEq, Repr

inductive Out
  | write (b : Bytes)                          -- transport.write
  | closeConn (abort : Bool)                   -- transport.abortConnection / loseConnection
  | onMessage (p : Bytes) (binary : Bool) (compressed : Bool)
  | onPing (p : Bytes)
  | onPong (p : Bytes)
  | onClose (clean : Bool) (code : Option Nat) (reason : Option Bytes) (why : Option NCR)
  | closedResolved                             -- is_closed future resolved
  | raised (e : Err)                           -- exception out of an API call
deriving DecidableEq, Repr

structure Hdr where
  opcode : Nat
  fin : Bool
  rsv : Nat
  length : Nat
  mask : Option Key
deriving DecidableEq, Repr

inductive SendSt | ground | messageBegin | insideMessage | insideFrame
deriving DecidableEq, Repr

structure S where
  cfg : Cfg
  st : St := .opened
  now : Nat := 0
  seq : Nat := 0                    -- creation order of timers
  log : List Out := []
  -- close bookkeeping
  closedByMe : Bool := false
  failedByMe : Bool := false
  droppedByMe : Bool := false
  wasClean : Bool := false
  notClean : Option NCR := none
  localCloseCode : Option Nat := none
  remoteCloseCode : Option Nat := none
  remoteCloseReason : Option Bytes := none
  lost : Bool := false              -- _connectionLost ran
  -- timers: (deadline, creation seq)
  tOpenHs : Option (Nat × Nat) := none
  tCloseHs : Option (Nat × Nat) := none
  tServerDrop : Option (Nat × Nat) := none
  tPingTimeout : Option (Nat × Nat) := none
  tPingNext : Option (Nat × Nat) := none
  tSendTick : Option (Nat × Nat) := none
  pingPending : Option Bytes := none
  pingSeq : Nat := 0
  -- send side
  sendSt : SendSt := .ground
  sendOpcode : Nat := 1
  begun : Bool := false              -- `send_compressed` attribute exists (set by the first beginMessage)
  frameLen : Nat := 0
  frameKey : Option Key := none
  frameMasking : Bool := false       -- a real masker (vs XorMaskerNull)
  framePtr : Nat := 0
  sendQueue : List Bytes := []
  triggered : Bool := false
  keyCtr : Nat := 0
  -- history variables (not part of the code's state; used only to state theorems about the frames sent)
  sentOps : List Nat := []                          -- opcode of every frame handed to sendData, in order
  closeSent : List (Option Nat × Option Bytes) := []  -- (code, reason) of every close frame sent
  -- receive side
  data : Bytes := []
  cur : Option Hdr := none
  unmask : Bool := false             -- current_frame_masker is a real masker
  ptr : Nat := 0                     -- current_frame_masker.pointer()
  insideMessage : Bool := false
  msgCompressed : Bool := false
  msgBinary : Bool := false
  utf8On : Bool := false
  utf8 : U8 := .s0
  utf8Ok : Bool := true              -- utf8validateLast[0]
  utf8Ends : Bool := true            -- utf8validateLast[1]
  messageData : Bytes := []
  frameData : Bytes := []
  totalLen : Nat := 0
  controlData : Bytes := []
deriving Repr

def S.emit (s : S) (o : Out) : S := { s with log := s.log ++ [o] }

/-! ## helpers -/

def beBytes : Nat → Nat → Bytes
  | 0, _ => []
  | k + 1, n => beBytes k (n / 256) ++ [UInt8.ofNat (n % 256)]

def beNat (bs : Bytes) : Nat := bs.foldl (fun acc b => acc * 256 + b.toNat) 0

/-- the deterministic key stream standing for `struct.pack("!I", random.getrandbits(32))` -/
def keyOf (i : Nat) : Key :=
  let v := (i + 1) * 0x01020305 % 4294967296
  ⟨UInt8.ofNat (v / 16777216 % 256), UInt8.ofNat (v / 65536 % 256), UInt8.ofNat (v / 256 % 256), UInt8.ofNat (v % 256)⟩

def Key.bytes (k : Key) : Bytes := [k.k0, k.k1, k.k2, k.k3]

/-- batched timer: `real_time = int(now + delay)` seconds -/
def sec : Nat := 1048576

def batched (now delay : Nat) : Nat := (now + delay) / sec * sec

def S.timer (s : S) (deadline : Nat) : S × (Nat × Nat) :=
  ({ s with seq := s.seq + 1 }, (deadline, s.seq))

/-- arm the closing-handshake timer (batched) -/
def armCloseHs (s : S) : S :=
  let (s, t) := s.timer (batched s.now s.cfg.closeHsTimeout)
  { s with tCloseHs := some t }

/-- arm the server-connection-drop timer (plain `call_later`: exact) -/
def armServerDrop (s : S) : S :=
  let (s, t) := s.timer (s.now + s.cfg.serverDropTimeout)
  { s with tServerDrop := some t }

/-- schedule the next automatic ping (batched) -/
def armPingNext (s : S) : S :=
  let (s, t) := s.timer (batched s.now s.cfg.pingInterval)
  { s with tPingNext := some t }

/-- arm the pong timeout (batched) -/
def armPingTimeout (s : S) : S :=
  let (s, t) := s.timer (batched s.now s.cfg.pingTimeout)
  { s with tPingTimeout := some t }

/-- payload of a close frame: optional 2-octet code, then the reason -/
def closePayload (code : Option Nat) (reason : Option Bytes) : Bytes :=
  (match code with | some c => beBytes 2 c | none => []) ++ (reason.getD [])

/-! ## sending: sendData / _trigger / _send -/

def queuedWriteDelay : Nat := 8

/-- `_send` -/
def sendTick (s : S) : S :=
  match s.sendQueue with
  | e :: rest =>
    let s := { s with sendQueue := rest }
    let s := if s.st ≠ .closed then s.emit (.write e) else s
    let (s, t) := s.timer (s.now + queuedWriteDelay)
    { s with tSendTick := some t }
  | [] => { s with triggered := false, tSendTick := none }

def trigger (s : S) : S :=
  if !s.triggered then sendTick { s with triggered := true } else s

def chop (chopsize : Nat) (fuel : Nat) (data : Bytes) : List Bytes :=
  match fuel with
  | 0 => [data]
  | fuel + 1 =>
    if chopsize ≥ data.length then [data]
    else data.take chopsize :: chop chopsize fuel (data.drop chopsize)

/-- `sendData(data, sync, chopsize)` -/
def sendData (s : S) (data : Bytes) (sync : Bool := false) (chopsize : Nat := 0) : S :=
  if chopsize > 0 then
    trigger { s with sendQueue := s.sendQueue ++ chop chopsize data.length data }
  else if sync || !s.sendQueue.isEmpty then
    trigger { s with sendQueue := s.sendQueue ++ [data] }
  else if s.lost && s.cfg.asyncio then s.emit (.raised .exception)   -- AttributeError: transport is None
  else
    s.emit (.write data)

/-! ## frame encoding (`sendFrame`, `beginMessageFrame`, `PreparedMessage`) -/

/-- second header octet (without the mask bit) and extended length octets -/
def encodeLen (l : Nat) : Option (Nat × Bytes) :=
  if l ≤ 125 then some (l, [])
  else if l ≤ 0xFFFF then some (126, beBytes 2 l)
  else if l ≤ 0x7FFFFFFFFFFFFFFF then some (127, beBytes 8 l)
  else none

def b0 (fin : Bool) (rsv opcode : Nat) : UInt8 :=
  UInt8.ofNat ((if fin then 128 else 0) + (rsv % 8) * 16 + opcode % 16)

def b1 (masked : Bool) (len7 : Nat) : UInt8 := UInt8.ofNat ((if masked then 128 else 0) + len7)

/-- the octets of one frame: header, optional key, (masked) payload -/
def encodeFrame (fin : Bool) (rsv opcode : Nat) (key : Option Key) (applyMask : Bool) (pl : Bytes) : Option Bytes :=
  match encodeLen pl.length with
  | none => none
  | some (l7, el) =>
    match key with
    | some k =>
      let plm := if pl.length > 0 && applyMask then (Xor.spec k 0 pl).1 else pl
      some ([b0 fin rsv opcode, b1 true l7] ++ el ++ Key.bytes k ++ plm)
    | none => some ([b0 fin rsv opcode, b1 false l7] ++ el ++ pl)

def S.masksFrames (s : S) : Bool :=
  (!s.cfg.isServer && s.cfg.maskClient) || (s.cfg.isServer && s.cfg.maskServer)

/-- one key from the key stream when this endpoint masks its frames -/
def drawKey (s : S) : S × Option Key :=
  if s.masksFrames then ({ s with keyCtr := s.keyCtr + 1 }, some (keyOf s.keyCtr)) else (s, none)

def recordOp (s : S) (opcode : Nat) : S := { s with sentOps := s.sentOps ++ [opcode] }

/-- `sendFrame(opcode, payload, fin, rsv, sync=…, chopsize=…)` with `mask=None`, `payload_len=None` -/
def sendFrame (s : S) (opcode : Nat) (pl : Bytes) (fin : Bool := true) (rsv : Nat := 0)
    (sync : Bool := false) (chopsize : Nat := 0) : S :=
  let r := drawKey s
  match encodeFrame fin rsv opcode r.2 r.1.cfg.applyMask pl with
  | none => r.1.emit (.raised .exception)
  | some raw => sendData (recordOp r.1 opcode) raw sync chopsize

def sendPing (s : S) (pl : Bytes) : S :=
  if s.st ≠ .opened then s
  else if pl.length > 125 then s.emit (.raised .exception)
  else sendFrame s 9 pl

def sendPong (s : S) (pl : Bytes) : S :=
  if s.st ≠ .opened then s
  else if pl.length > 125 then s.emit (.raised .exception)
  else sendFrame s 10 pl

/-- `sendCloseFrame(code, reasonUtf8, isReply)`.  When called from `_fail_connection` the human-readable reason
text is abstracted to the empty string (the harness strips it from the real frame before comparing). -/
def sendCloseFrame (s : S) (code : Option Nat) (reason : Option Bytes) (isReply : Bool) : S :=
  match s.st with
  | .closing => s
  | .closed => s
  | .connecting => s.emit (.raised .exception)
  | .opened =>
    let s := sendFrame s 8 (closePayload code reason)
    let s := { s with st := .closing, closedByMe := !isReply, localCloseCode := code,
                      closeSent := s.closeSent ++ [(code, reason)] }
    if s.closedByMe && s.cfg.closeHsTimeout > 0 then armCloseHs s else s

/-! `encode_truncate(text, 123)` on the UTF-8 encoding: cut at the limit, drop an incomplete tail. -/

def isCont (b : UInt8) : Bool := between b 0x80 0xBF

/-- drop a trailing incomplete code point from a byte string that was valid before the cut -/
def dropIncompleteTail (bs : Bytes) (fuel : Nat := 4) : Bytes :=
  match fuel with
  | 0 => bs
  | fuel + 1 =>
    if u8run .s0 bs = .s0 then bs
    else dropIncompleteTail bs.dropLast fuel

def encodeTruncate (utf8 : Bytes) (limit : Nat) : Bytes :=
  if utf8.length > limit then dropIncompleteTail (utf8.take limit) else utf8

/-- `sendClose(code, reason)`; `reason` is given as the UTF-8 encoding of the text -/
def sendCloseCodeBad (code : Option Nat) : Bool :=
  match code with
  | some c => c ≠ 1000 && !(3000 ≤ c && c ≤ 4999)
  | none => false

def sendClose (s : S) (code : Option Nat) (reason : Option Bytes) : S :=
  if sendCloseCodeBad code then s.emit (.raised .exception)
  else if reason.isSome && code.isNone then s.emit (.raised .exception)
  else sendCloseFrame s code (reason.map (encodeTruncate · 123)) false

/-! ## closing -/

/-- an orderly drop first hands the transport what is still in the send queue (chopped / synchronous writes),
our close frame included -/
def flushQueue (s : S) : S := { s with sendQueue := [], log := s.log ++ s.sendQueue.map Out.write }

/-- `dropConnection(abort)` -/
def dropConnection (s : S) (abort : Bool) : S :=
  if s.st ≠ .closed then
    let s := if abort then s else flushQueue s
    let s := { s with droppedByMe := true, st := .closed }
    (s.emit .closedResolved).emit (.closeConn abort)
  else s

/-- `_fail_connection(code, reason)` -/
def failConnection (s : S) (code : Nat) : S :=
  if s.st ≠ .closed then
    let s := { s with failedByMe := true }
    if s.cfg.failByDrop then
      dropConnection { s with wasClean := false, notClean := some .iDropped } true
    else if s.st ≠ .closing then
      sendCloseFrame s (some code) none false
    else dropConnection s false
  else s

/-- `_protocol_violation` / `_invalid_payload`: returns `failByDrop` -/
def violation (s : S) (code : Nat) : S × Bool := (failConnection s code, s.cfg.failByDrop)

def closeCodesAllowed : List Nat := [1000, 1001, 1002, 1003, 1007, 1008, 1009, 1010, 1011, 1012, 1013]

def closeCodeInvalid (code : Nat) : Bool :=
  code < 1000 || (1000 ≤ code && code ≤ 2999 && !closeCodesAllowed.contains code) || code ≥ 5000

/-- close-code check of `onCloseFrame`; the Bool says "stop processing" -/
def closeCodeStep (s : S) (code : Option Nat) : S × Bool :=
  match code with
  | some c =>
    if closeCodeInvalid c then
      let (s, stop) := violation s 1002
      if stop then (s, true) else ({ s with remoteCloseCode := some 1000 }, false)
    else ({ s with remoteCloseCode := some c }, false)
  | none => ({ s with remoteCloseCode := none }, false)

/-- close-reason check of `onCloseFrame` -/
def closeReasonStep (s : S) (reasonRaw : Option Bytes) : S × Bool :=
  match reasonRaw with
  | some r =>
    if !(utf8Valid r) then violation s 1007
    else ({ s with remoteCloseReason := some r }, false)
  | none => (s, false)

/-- our reply to a peer-initiated close: echo code/reason, or 1000 -/
def replyClose (s : S) : S :=
  if s.cfg.echoClose then
    sendCloseFrame s s.remoteCloseCode (s.remoteCloseReason.map (encodeTruncate · 123)) true
  else sendCloseFrame s (some 1000) none true

/-- after both close frames travelled: a server drops TCP, a client waits for the server to do it (with a timer) -/
def afterCloseHandshake (s : S) (abort : Bool) : S × Bool :=
  if s.cfg.isServer then (dropConnection s abort, false)
  else if s.cfg.serverDropTimeout > 0 then (armServerDrop s, false)
  else (s, false)

/-- the state-dependent part of `onCloseFrame` -/
def closeStateStep (s : S) : S × Bool :=
  match s.st with
  -- the drop is an abort only when nothing of ours is still waiting to be written (our close frame may be queued)
  | .closing => afterCloseHandshake { s with tCloseHs := none, wasClean := true } s.sendQueue.isEmpty
  | .opened => afterCloseHandshake (replyClose { s with wasClean := true }) false
  | .closed => ({ s with wasClean := false }, false)
  | .connecting => (s.emit (.raised .exception), true)

/-- `onCloseFrame(code, reasonRaw)`; returns `true` when processing must stop -/
def onCloseFrame (s : S) (code : Option Nat) (reasonRaw : Option Bytes) : S × Bool :=
  let s := { s with remoteCloseCode := none, remoteCloseReason := none }
  let r1 := closeCodeStep s code
  if r1.2 then (r1.1, true) else
  let r2 := closeReasonStep r1.1 reasonRaw
  if r2.2 then (r2.1, true) else
  closeStateStep r2.1

/-- `_connectionLost`: timers cancelled there -/
def cancelOnLost (s : S) : S :=
  { s with lost := true, tServerDrop := none, tPingNext := none, tPingTimeout := none, tOpenHs := none }

/-- `_connectionLost`: `if self.state != CLOSED: state = CLOSED; resolve(is_closed)` -/
def markClosed (s : S) : S :=
  if s.st ≠ .closed then ({ s with st := .closed }).emit .closedResolved else s

/-- `_connectionLost`: the one call of `onClose` -/
def reportClose (s : S) : S :=
  if !s.wasClean then
    let s := if !s.droppedByMe && s.notClean.isNone then { s with notClean := some .peerDropped } else s
    s.emit (.onClose false (some 1006) none s.notClean)
  else s.emit (.onClose true s.remoteCloseCode s.remoteCloseReason none)

/-- `_connectionLost`: a completed closing handshake does not count as clean when what we queued for sending
(chopped / synchronous writes) — our close frame is the last of it — never reached the transport -/
def unsentUnclean (s : S) : S :=
  if s.wasClean && !s.sendQueue.isEmpty then { s with wasClean := false } else s

/-- `_connectionLost` -/
def connectionLost (s : S) : S :=
  if s.lost then s else reportClose (unsentUnclean (markClosed (cancelOnLost s)))

/-! ## automatic ping/pong -/

def pingPayload (s : S) : Bytes :=
  beBytes 8 0 ++ beBytes 4 s.pingSeq ++ List.replicate (s.cfg.pingSize - 12) 0

/-- bookkeeping of `_sendAutoPing` before the ping goes out -/
def beginAutoPing (s : S) : S :=
  let s := { s with tPingNext := none, pingSeq := s.pingSeq + 1 }
  { s with pingPending := some (pingPayload s) }

/-- `_sendAutoPing` -/
def sendAutoPing (s : S) : S :=
  let s := beginAutoPing s
  let s := sendPing s (s.pingPending.getD [])
  if s.cfg.pingTimeout > 0 then armPingTimeout s
  -- no pong timeout configured: the next ping does not wait for this one to be answered
  else if s.cfg.pingInterval > 0 && s.st = .opened then armPingNext s
  else s

/-- `_cancelAutoPingTimeoutCall` -/
def cancelAutoPingTimeout (s : S) : S :=
  let s := { s with tPingTimeout := none, pingPending := none, tPingNext := none }
  if s.cfg.pingInterval > 0 then armPingNext s else s

/-! ## receiving -/

/-- `onMessageFrameBegin(length)` -/
def onMessageFrameBegin (s : S) (length : Nat) : S :=
  let s := { s with frameData := [], totalLen := s.totalLen + length }
  if !s.failedByMe then
    if 0 < s.cfg.maxMsg && s.cfg.maxMsg < s.totalLen then failConnection s 1009
    else if 0 < s.cfg.maxFrame && s.cfg.maxFrame < length then failConnection s 1009
    else s
  else s

/-- `onFrameBegin` -/
def onFrameBegin (s : S) (h : Hdr) : S :=
  if h.opcode > 7 then { s with controlData := [] }
  else
    let s :=
      if !s.insideMessage then
        let s := { s with insideMessage := true, msgCompressed := s.cfg.pmce && h.rsv = 4 }
        let s :=
          if h.opcode = 1 && s.cfg.utf8validate then
            { s with utf8On := true, utf8 := .s0, utf8Ok := true, utf8Ends := true }
          else { s with utf8On := false }
        -- onMessageBegin
        { s with msgBinary := h.opcode = 2, messageData := [], totalLen := 0 }
      else s
    onMessageFrameBegin s h.length

/-- `Utf8Validator.validate` only reports a reject met inside its own loop: an empty chunk is "valid" even when the
validator already sits in the reject state -/
def utf8Bad (s : S) (payload : Bytes) : Bool := u8run s.utf8 payload = .rej && !payload.isEmpty

/-- the validator state and `utf8validateLast` after one more chunk -/
def setUtf8 (s : S) (payload : Bytes) : S :=
  { s with utf8 := u8run s.utf8 payload, utf8Ok := !(utf8Bad s payload), utf8Ends := u8run s.utf8 payload = .s0 }

/-- incremental UTF-8 validation of one payload chunk of a text message; the Bool says "go on" -/
def utf8Step (s : S) (payload : Bytes) : S × Bool :=
  if s.utf8On && !s.msgCompressed then
    if utf8Bad s payload then
      ((violation (setUtf8 s payload) 1007).1, !(violation (setUtf8 s payload) 1007).2)
    else (setUtf8 s payload, true)
  else (s, true)

/-- `onMessageFrameData(payload)` -/
def onMessageFrameData (s : S) (payload : Bytes) : S :=
  if !s.failedByMe then { s with frameData := s.frameData ++ payload } else s

/-- `onFrameData(payload)`; `false` = stop processing -/
def onFrameData (s : S) (h : Hdr) (payload : Bytes) : S × Bool :=
  if h.opcode > 7 then ({ s with controlData := s.controlData ++ payload }, true)
  else
    let r := utf8Step s payload
    if !r.2 then (r.1, false)
    else (onMessageFrameData r.1 payload, true)

/-- a pong arrived: auto-ping bookkeeping -/
def onPongFrame (s : S) (payload : Bytes) : S :=
  match s.pingPending with
  | some pp =>
    if payload = pp then
      let s := { s with tPingTimeout := none, pingPending := none }
      if s.cfg.pingInterval > 0 && s.tPingNext.isNone then armPingNext s else s
    else s
  | none => s

/-- a ping arrived: deliver, and answer while OPEN -/
def onPingFrame (s : S) (payload : Bytes) : S :=
  let s := s.emit (.onPing payload)
  if s.st = .opened then sendPong s payload else s

def closeCodeOf (payload : Bytes) : Option Nat :=
  if payload.length > 1 then some (beNat (payload.take 2)) else none

def closeReasonOf (payload : Bytes) : Option Bytes :=
  if payload.length > 2 then some (payload.drop 2) else none

/-- `processControlFrame` -/
def processControlFrame (s : S) (h : Hdr) : S :=
  let payload := s.controlData
  let s := { s with controlData := [] }
  if h.opcode = 8 then (onCloseFrame s (closeCodeOf payload) (closeReasonOf payload)).1
  else if h.opcode = 9 then onPingFrame s payload
  else if h.opcode = 10 then (onPongFrame s payload).emit (.onPong payload)
  else s

/-- `onMessageFrameEnd` + the auto-ping restart on any data frame -/
def endDataFrame (s : S) : S :=
  let s := if !s.failedByMe then { s with messageData := s.messageData ++ s.frameData } else s
  let s := { s with frameData := [] }
  if s.tPingTimeout.isSome && s.cfg.pingRestart then cancelAutoPingTimeout s else s

/-- `onMessageEnd`: hand the reassembled message to the application unless the connection was failed -/
def deliverMessage (s : S) : S :=
  if !s.failedByMe then s.emit (.onMessage s.messageData s.msgBinary s.msgCompressed) else s

def resetMessage (s : S) : S := { s with messageData := [], insideMessage := false, cur := none }

/-- end of the final frame of a message: UTF-8 must end on a code point; then `onMessageEnd` -/
def endMessageStep (s : S) : S × Bool :=
  let r :=
    if s.utf8On && !s.msgCompressed && !s.utf8Ends then
      let v := violation s 1007
      (v.1, !v.2)
    else (s, true)
  if !r.2 then (r.1, false)
  else (resetMessage (deliverMessage r.1), true)

/-- `onFrameEnd`; `false` = stop processing -/
def onFrameEnd (s : S) (h : Hdr) : S × Bool :=
  if h.opcode > 7 then
    ({ processControlFrame s h with cur := none }, true)
  else
    let s := endDataFrame s
    if h.fin then endMessageStep s
    else ({ s with cur := none }, true)

/-- the rules applied to the first two header octets, in the order of `processData` (see Model/WsHeader.lean);
each yields a 1002 violation.  Returns the list of violated rules (in order). -/
def headerViolations (cfg : Cfg) (insideMessage : Bool) (fin : Bool) (rsv opcode : Nat) (masked : Bool)
    (len7 : Nat) : List HV :=
  hvFlags cfg.isServer cfg.requireMasked cfg.acceptMasked cfg.pmce insideMessage fin rsv opcode masked
    (decide (len7 > 125)) (decide (len7 = 1))

/-- apply a list of violations the way the cascade does: each calls `_protocol_violation`; the first one that
returns `True` (failByDrop) stops everything -/
def applyViolations (s : S) : List HV → S × Bool
  | [] => (s, false)
  | _ :: vs =>
    let (s, stop) := violation s 1002
    if stop then (s, true) else applyViolations s vs

def headerLen (masked : Bool) (len7 : Nat) : Nat :=
  2 + (if len7 = 126 then 2 else if len7 = 127 then 8 else 0) + (if masked then 4 else 0)

/-- the extended-payload-length rules of `processData` (applied once the whole header is buffered);
the Bool says "stop processing" -/
def extLenStep (s : S) (len7 plen : Nat) : S × Bool :=
  if len7 = 126 then
    (if plen < 126 then violation s 1002 else (s, false))
  else if len7 = 127 then
    let r := if plen > 0x7FFFFFFFFFFFFFFF then violation s 1002 else (s, false)
    if r.2 then (r.1, true)
    else if plen < 65536 then violation r.1 1002 else (r.1, false)
  else (s, false)

def maskOf (masked : Bool) (four : Bytes) : Option Key :=
  if masked then
    match four with
    | [a, b, c, d] => some ⟨a, b, c, d⟩
    | _ => none
  else none

/-- `processData()` outside a frame, with at least two octets buffered.  `buf` is `self.data`; the functions called
from here never look at the receive buffer, so it is threaded explicitly and `S.data` is only the buffer *between*
reads (see `dataReceived`). -/
def processHeader (s : S) (o0 o1 : UInt8) (buf : Bytes) : S × Bytes × Bool :=
  let fin := o0.toNat / 128 = 1
  let rsv := o0.toNat / 16 % 8
  let opcode := o0.toNat % 16
  let masked := o1.toNat / 128 = 1
  let len7 := o1.toNat % 128
  let r0 := applyViolations s (headerViolations s.cfg s.insideMessage fin rsv opcode masked len7)
  if r0.2 then (r0.1, buf, false) else
  let s := r0.1
  let hl := headerLen masked len7
  if buf.length ≥ hl then
    let ext := (buf.drop 2).take (if len7 = 126 then 2 else if len7 = 127 then 8 else 0)
    let plen := if len7 < 126 then len7 else beNat ext
    let r1 := extLenStep s len7 plen
    if r1.2 then (r1.1, buf, false) else
    let s := r1.1
    let mask := maskOf masked ((buf.drop (hl - 4)).take 4)
    let h : Hdr := { opcode := opcode, fin := fin, rsv := rsv, length := plen, mask := mask }
    let s := { s with cur := some h, ptr := 0, unmask := masked && plen > 0 && s.cfg.applyMask }
    let s := onFrameBegin s h
    (s, buf.drop hl, plen = 0 || (buf.drop hl).length > 0)
  else (s, buf, false)

def unmaskChunk (s : S) (h : Hdr) (chunk : Bytes) : Bytes :=
  if s.unmask then
    match h.mask with
    | some k => (Xor.spec k s.ptr chunk).1
    | none => chunk
  else chunk

/-- `processData()` inside a started frame -/
def processPayload (s : S) (h : Hdr) (buf : Bytes) : S × Bytes × Bool :=
  let rest := h.length - s.ptr
  let chunk := buf.take rest
  let payload := unmaskChunk s h chunk
  let s := { s with ptr := s.ptr + chunk.length }
  let r := onFrameData s h payload
  if !r.2 then (r.1, buf.drop rest, false) else
  let r2 := if r.1.ptr = h.length then onFrameEnd r.1 h else (r.1, true)
  if !r2.2 then (r2.1, buf.drop rest, false) else
  (r2.1, buf.drop rest, (buf.drop rest).length > 0)

/-- `processData()`; the Bool is its return value ("call me again") -/
def processData (s : S) (buf : Bytes) : S × Bytes × Bool :=
  match s.cur with
  | none =>
    match buf with
    | o0 :: o1 :: _ => processHeader s o0 o1 buf
    | _ => (s, buf, false)
  | some h => processPayload s h buf

/-- `while not self.wasClean and self.processData() and self.state != STATE_CLOSED: pass` — once the peer's close
frame has been taken in (`wasClean`), nothing more is processed -/
def drain : Nat → S → Bytes → S × Bytes
  | 0, s, buf => (s, buf)
  | fuel + 1, s, buf =>
    if s.wasClean then (s, buf) else
    let r := processData s buf
    if r.2.2 && r.1.st ≠ .closed then drain fuel r.1 r.2.1 else (r.1, r.2.1)

/-- enough iterations for any buffer (every iteration that returns `true` consumes a header or payload octets or
ends a zero-length frame) -/
def drainFuel (buf : Bytes) : Nat := 2 * buf.length + 4

/-- `_dataReceived(data)` after the handshake -/
def dataReceived (s : S) (d : Bytes) : S :=
  if s.lost then s else
  match s.st with
  | .opened | .closing =>
    let r := drain (drainFuel (s.data ++ d)) { s with data := [] } (s.data ++ d)
    -- `if self.wasClean: self.data = b""`: what a peer sends behind its close frame is discarded
    { r.1 with data := if r.1.wasClean then [] else r.2 }
  | _ => { s with data := s.data ++ d }

/-! ## message-level send API -/

/-- the fragment loop of `sendMessage` (`while not done: j = i + pfs; if j > n: done …`) -/
def fragments (pfs : Nat) (fuel : Nat) (pl : Bytes) : List (Bytes × Bool) :=
  match fuel with
  | 0 => [(pl, true)]
  | fuel + 1 =>
    if pfs > pl.length then [(pl, true)]
    else (pl.take pfs, false) :: fragments pfs fuel (pl.drop pfs)

def sendFrags (s : S) (opcode : Nat) (sync : Bool) : List (Bytes × Bool) → Bool → S
  | [], _ => s
  | (p, fin) :: rest, first =>
    sendFrags (sendFrame s (if first then opcode else 0) p fin 0 sync) opcode sync rest false

/-- `sendMessage(payload, isBinary, fragmentSize, sync)` without a PMCE -/
def sendMessage (s : S) (pl : Bytes) (binary : Bool) (fragmentSize : Option Nat := none) (sync : Bool := false) : S :=
  if s.st ≠ .opened then s.emit (.raised .disconnected)
  else if 0 < s.cfg.maxMsg && s.cfg.maxMsg < pl.length then s.emit (.raised .payloadExceeded)
  else
    let opcode := if binary then 2 else 1
    let pfs : Option Nat :=
      match fragmentSize with
      | some f => some f
      | none => if s.cfg.autoFragment > 0 then some s.cfg.autoFragment else none
    match pfs with
    | none => sendFrame s opcode pl true 0 sync
    | some f =>
      if pl.length ≤ f then sendFrame s opcode pl true 0 sync
      else if f < 1 then s.emit (.raised .exception)
      else sendFrags s opcode sync (fragments f pl.length pl) true

/-- `factory.prepareMessage` masks iff the factory is a client factory (`applyMask = not isServer`) -/
def prepareKey (s : S) : S × Option Key :=
  if !s.cfg.isServer then ({ s with keyCtr := s.keyCtr + 1 }, some (keyOf s.keyCtr)) else (s, none)

/-- `sendPreparedMessage(factory.prepareMessage(payload, isBinary))`: the frame is built at prepare time
with `applyMask = not isServer` and one key -/
def sendPrepared (s : S) (pl : Bytes) (binary : Bool) : S :=
  -- the key is drawn when the message is prepared (factory.prepareMessage), before the state check of the send
  let r := prepareKey s
  match encodeFrame true 0 (if binary then 2 else 1) r.2 true pl with
  | none => r.1.emit (.raised .exception)
  | some raw =>
    if r.1.st ≠ .opened then r.1.emit (.raised .disconnected)
    else sendData (recordOp r.1 (if binary then 2 else 1)) raw

/-! ## streaming send API -/

def beginMessage (s : S) (binary : Bool) : S :=
  if s.st ≠ .opened then s
  else if s.sendSt ≠ .ground then s.emit (.raised .exception)
  else { s with sendOpcode := if binary then 2 else 1, sendSt := .messageBegin, begun := true }

/-- per-frame send state set up by `beginMessageFrame` -/
def setFrameState (s : S) (length : Nat) (key : Option Key) (op : Nat) : S :=
  { s with frameLen := length, frameKey := key, framePtr := 0,
           frameMasking := key.isSome && length > 0 && s.cfg.applyMask,
           sendSt := .insideMessage, sentOps := s.sentOps ++ [op] }

def enterFrame (s : S) : S := { s with sendSt := .insideFrame }

/-- body of `beginMessageFrame` in state OPEN; `none` = it raised -/
def beginMessageFrameCore (s : S) (length : Nat) : Option S :=
  if !(s.sendSt = .messageBegin || s.sendSt = .insideMessage) then none
  else if length > 0x7FFFFFFFFFFFFFFF then none
  else
    let r := drawKey s
    let op := if r.1.sendSt = .messageBegin then r.1.sendOpcode else 0
    match encodeLen length with
    | none => none
    | some (l7, el) =>
      let header := [b0 false 0 op, b1 r.2.isSome l7] ++ el ++ (match r.2 with | some k => Key.bytes k | none => [])
      some (enterFrame (sendData (setFrameState r.1 length r.2 op) header))

def beginMessageFrame (s : S) (length : Nat) : S :=
  if s.st ≠ .opened then s
  else match beginMessageFrameCore s length with
    | some s' => s'
    | none => s.emit (.raised .exception)

def maskFrameChunk (s : S) (p : Bytes) : Bytes :=
  if s.frameMasking then
    match s.frameKey with
    | some k => (Xor.spec k s.framePtr p).1
    | none => p
  else p

def advanceFramePtr (s : S) (n : Nat) : S := { s with framePtr := s.framePtr + n }

def leaveFrameIfDone (s : S) : S :=
  if s.framePtr ≥ s.frameLen then { s with sendSt := .insideMessage } else s

def sendMessageFrameData (s : S) (pl : Bytes) (sync : Bool := false) : S :=
  if s.st ≠ .opened then s
  else if !s.begun then s.emit (.raised .exception)   -- AttributeError: send_compressed
  else if s.sendSt ≠ .insideFrame then s.emit (.raised .exception)
  else
    let p := if s.framePtr + pl.length > s.frameLen then pl.take (s.frameLen - s.framePtr) else pl
    leaveFrameIfDone (sendData (advanceFramePtr s p.length) (maskFrameChunk s p) sync)

def endMessage (s : S) : S :=
  if s.st ≠ .opened then s
  else if !s.begun then s.emit (.raised .exception)   -- AttributeError: send_compressed
  else { sendFrame s 0 [] true with sendSt := .ground }

def sendMessageFrame (s : S) (pl : Bytes) (sync : Bool := false) : S :=
  if s.st ≠ .opened then s
  else if !s.begun then s.emit (.raised .exception)   -- AttributeError: send_compressed
  else
    match beginMessageFrameCore s pl.length with
    | some s' => sendMessageFrameData s' pl sync
    | none => s.emit (.raised .exception)   -- the exception propagates; sendMessageFrameData is not reached

/-! ## timers -/

inductive TK | openHs | closeHs | serverDrop | pingTimeout | pingNext | sendTick
deriving DecidableEq, Repr

def S.timers (s : S) : List (TK × Nat × Nat) :=
  (match s.tOpenHs with | some t => [(TK.openHs, t)] | none => []) ++
  (match s.tCloseHs with | some t => [(TK.closeHs, t)] | none => []) ++
  (match s.tServerDrop with | some t => [(TK.serverDrop, t)] | none => []) ++
  (match s.tPingTimeout with | some t => [(TK.pingTimeout, t)] | none => []) ++
  (match s.tPingNext with | some t => [(TK.pingNext, t)] | none => []) ++
  (match s.tSendTick with | some t => [(TK.sendTick, t)] | none => [])

def earlier (a b : TK × Nat × Nat) : Bool :=
  a.2.1 < b.2.1 || (a.2.1 = b.2.1 && a.2.2 ≤ b.2.2)

def nextTimer (s : S) : Option (TK × Nat × Nat) :=
  s.timers.foldl (fun acc t => match acc with
    | none => some t
    | some a => if earlier a t then some a else some t) none

/-- run one timer callback -/
def fire (s : S) : TK → S
  | .openHs =>
    let s := { s with tOpenHs := none }
    if s.st = .connecting then
      dropConnection { s with wasClean := false, notClean := some .openTimeout } true
    else s
  | .closeHs =>
    let s := { s with tCloseHs := none }
    if s.st ≠ .closed then
      dropConnection { s with wasClean := false, notClean := some .closeTimeout } true
    else s
  | .serverDrop =>
    let s := { s with tServerDrop := none }
    if s.st ≠ .closed then
      dropConnection { s with wasClean := false, notClean := some .serverDropTimeout } true
    else s
  | .pingTimeout =>
    let s := { s with tPingTimeout := none }
    if s.st ≠ .closed then
      dropConnection { s with wasClean := false, notClean := some .pingTimeout } true
    else s
  | .pingNext => sendAutoPing s
  | .sendTick => sendTick { s with tSendTick := none }

/-- advance the virtual clock by `dt` time units, firing due timers in deadline order -/
def advanceTo (target : Nat) : Nat → S → S
  | 0, s => s   -- out of fuel: the clock is NOT moved (not reached in the compared runs; a sub-second ping interval can get here)
  | fuel + 1, s =>
    match nextTimer s with
    | some (k, d, _) =>
      if d ≤ target then advanceTo target fuel (fire { s with now := max s.now d } k)
      else { s with now := max s.now target }
    | none => { s with now := max s.now target }

def advance (s : S) (dt : Nat) : S := advanceTo (s.now + dt) (dt / queuedWriteDelay + 64) s

/-! ## start state: the connection right after `succeedHandshake` / client `processHandshake` -/

def start (cfg : Cfg) : S :=
  let s : S := { cfg := cfg }
  if cfg.pingInterval > 0 then armPingNext s else s

/-- a connection still in the opening handshake (only the open-handshake timer is modelled there) -/
def startConnecting (cfg : Cfg) : S :=
  let s : S := { cfg := cfg, st := .connecting }
  if cfg.openHsTimeout > 0 then
    let (s, t) := s.timer (batched s.now cfg.openHsTimeout)
    { s with tOpenHs := some t }
  else s

/-- the handshake completes (`succeedHandshake` / client `processHandshake` tail) -/
def handshakeDone (s : S) : S :=
  if s.st ≠ .connecting then s else
  let s := { s with st := .opened, tOpenHs := none }
  if s.cfg.pingInterval > 0 then armPingNext s else s

/-! ## scripted operations -/

inductive Op
  | feed (d : Bytes)
  | lost
  | advance (dt : Nat)
  | sendMessage (pl : Bytes) (binary : Bool) (frag : Option Nat) (sync : Bool)
  | sendPrepared (pl : Bytes) (binary : Bool)
  | beginMessage (binary : Bool)
  | beginFrame (len : Nat)
  | frameData (pl : Bytes) (sync : Bool)
  | endMessage
  | messageFrame (pl : Bytes) (sync : Bool)
  | ping (pl : Bytes)
  | pong (pl : Bytes)
  | close (code : Option Nat) (reason : Option Bytes)
  | hsDone
  | hsThenFeed (d : Bytes)   -- the read that completes the opening handshake also carries the first frame octets
deriving Repr

/-- the reactor runs timers that are already due (zero-delay `call_later`) before the next input -/
def pump (s : S) : S := advanceTo s.now 64 s

def stepCore (s : S) : Op → S
  | .feed d => dataReceived s d
  | .lost => connectionLost s
  | .advance dt => advance s dt
  | .sendMessage pl b f sy => sendMessage s pl b f sy
  | .sendPrepared pl b => sendPrepared s pl b
  | .beginMessage b => beginMessage s b
  | .beginFrame n => beginMessageFrame s n
  | .frameData pl sy => sendMessageFrameData s pl sy
  | .endMessage => endMessage s
  | .messageFrame pl sy => sendMessageFrame s pl sy
  | .ping pl => sendPing s pl
  | .pong pl => sendPong s pl
  | .close c r => sendClose s c r
  | .hsDone => handshakeDone s
  | .hsThenFeed d => dataReceived (handshakeDone s) d

def step (s : S) (op : Op) : S := pump (stepCore s op)

def run (s : S) (ops : List Op) : S := ops.foldl step s

end Abverif.Ws
