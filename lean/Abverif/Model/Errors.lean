/-
C18 — model of the exception ⇄ ERROR mapping of `autobahn.wamp.protocol.BaseSession`
(`define`, `_message_from_exception`, `_exception_from_message`), of `autobahn.wamp.uri.error`
(the class decorator) and of `ApplicationError.__init__` (`autobahn/wamp/exception.py`).

Import-free. Values are abstract (`V`); URIs and class identifiers are strings (only compared for equality).
Python dicts are association lists with dict semantics (`AList.put` replaces, `AList.find` finds the binding).
-/
namespace Abverif.Errors

abbrev Uri := String
abbrev Cls := String

/-! ### association lists with `dict` semantics -/
namespace AList
variable {K : Type} [DecidableEq K] {A : Type}

def find (k : K) : List (K × A) → Option A
  | [] => none
  | (k', a) :: r => if k' = k then some a else find k r

def del (k : K) : List (K × A) → List (K × A)
  | [] => []
  | (k', a) :: r => if k' = k then del k r else (k', a) :: del k r

/-- `d[k] = a` -/
def put (k : K) (a : A) (l : List (K × A)) : List (K × A) := (k, a) :: del k l

def delAll (ks : List K) (l : List (K × A)) : List (K × A) := ks.foldl (fun acc k => del k acc) l

def hasKey (k : K) (l : List (K × A)) : Bool := (find k l).isSome
end AList

abbrev Kwargs (V : Type) := List (String × V)

/-! ### exceptions -/

/-- What `_message_from_exception` reads off an exception instance. -/
structure Exc (V : Type) where
  cls : Cls
  /-- `isinstance(exc, ApplicationError)` (true for subclasses as well) with the value of `exc.error` -/
  appError : Option Uri
  /-- `list(exc.args)` if `hasattr(exc, "args")` -/
  args : Option (List V)
  /-- `exc.kwargs` if `hasattr(exc, "kwargs")` -/
  kwargs : Option (Kwargs V)
deriving Repr, DecidableEq

/-- The ERROR message as far as C18 observes it (`Error.error`, `.args`, `.kwargs`). -/
structure ErrorMsg (V : Type) where
  uri : Uri
  args : Option (List V)
  kwargs : Option (Kwargs V)
deriving Repr, DecidableEq

/-- The two dictionaries of `BaseSession`. `clsToPats` holds the `_uri` of every pattern of the class. -/
structure Registry where
  clsToPats : List (Cls × List Uri)
  uriToCls : List (Uri × Cls)
deriving Repr, DecidableEq

def RUNTIME_ERROR : Uri := "wamp.error.runtime_error"
def INVALID_PAYLOAD : Uri := "wamp.error.invalid_payload"
def PAYLOAD_SIZE_EXCEEDED : Uri := "wamp.error.payload_size_exceeded"

/-- `BaseSession.__init__` -/
def Registry.init : Registry :=
  { clsToPats := [],
    uriToCls := [(INVALID_PAYLOAD, "SerializationError"), (PAYLOAD_SIZE_EXCEEDED, "PayloadExceededError")] }

/-! ### the decorator `autobahn.wamp.uri.error` and `define`

Classes live in an environment that records which classes carry their *own* `_wampuris` list. The decorator looks
into the class's own `__dict__` (`"_wampuris" not in cls.__dict__`), so every decorated class gets a list of its own,
also when a base class is decorated; `define` reads the attribute with `hasattr` / `getattr`, which walk the MRO, so a
subclass that is not decorated itself is still seen with the list of its decorated base. -/

structure ClassEnv where
  /-- the class's MRO, itself first -/
  mro : Cls → List Cls
  /-- `_wampuris` in the class's own `__dict__` (pattern `_uri`s) -/
  own : List (Cls × List Uri)

/-- the class along the MRO whose `__dict__` holds `_wampuris` -/
def ClassEnv.owner (env : ClassEnv) (c : Cls) : Option Cls :=
  (env.mro c).find? (fun k => AList.hasKey k env.own)

/-- `getattr(cls, "_wampuris")` when `hasattr(cls, "_wampuris")` -/
def ClassEnv.wampuris (env : ClassEnv) (c : Cls) : Option (List Uri) :=
  match env.owner c with
  | some k => AList.find k env.own
  | none => none

inductive DecorateOutcome
  | ok
  | typeError            -- `Pattern(uri, …)` rejected the URI text
  | assertionError       -- `assert len(uri) > 0`
deriving Repr, DecidableEq

/-- `@error(uri)` applied to class `c`; `patOk` is `Pattern.__init__` accepting the text. -/
def decorate (patOk : Uri → Bool) (env : ClassEnv) (c : Cls) (uri : Uri) : ClassEnv × DecorateOutcome :=
  -- `if "_wampuris" not in cls.__dict__: cls._wampuris = []`
  let env1 : ClassEnv :=
    if AList.hasKey c env.own then env else { env with own := AList.put c [] env.own }
  -- (the empty list stays behind when `Pattern(...)` raises)
  if uri.isEmpty then (env1, .assertionError)
  else if !patOk uri then (env1, .typeError)
  else
    -- `cls._wampuris.append(Pattern(uri, …))`: the attribute is found in the class itself
    let cur := (AList.find c env1.own).getD []
    ({ env1 with own := AList.put c (cur ++ [uri]) env1.own }, .ok)

inductive DefineResult
  | ok (reg : Registry)
  | runtimeError
  | typeError
  | assertionError
  /-- decorated with an EMPTY `_wampuris` list (left behind by a decoration whose `Pattern(...)` raised):
  `self._ecls_to_uri_pat[exception] = exception._wampuris` is executed, then `exception._wampuris[0]` raises.
  The registry keeps the entry `cls ↦ []`. -/
  | indexError (reg : Registry)
deriving Repr, DecidableEq

/-- `BaseSession.define(exception, error=None)`; `w = env.wampuris cls`. -/
def define (patOk : Uri → Bool) (reg : Registry) (c : Cls) (w : Option (List Uri)) (error : Option Uri) : DefineResult :=
  match error with
  | none =>
    match w with
    | some pats =>
      match pats with
      | [] => .indexError { reg with clsToPats := AList.put c [] reg.clsToPats }
      | u :: _ =>
        .ok { clsToPats := AList.put c pats reg.clsToPats, uriToCls := AList.put u c reg.uriToCls }
    | none => .runtimeError
  | some e =>
    match w with
    | none =>
      if e.isEmpty then .assertionError  -- `assert len(uri) > 0` in Pattern.__init__
      else if !patOk e then .typeError
      else .ok { clsToPats := AList.put c [e] reg.clsToPats, uriToCls := AList.put e c reg.uriToCls }
    | some _ => .runtimeError

/-- no class is registered with an empty pattern list -/
def Registry.WF (reg : Registry) : Prop := ∀ c, AList.find c reg.clsToPats ≠ some []

/-! ### `_message_from_exception` -/

def TRACEBACK : String := "traceback"

/-- Python truthiness of an optional list / dict -/
def truthy {A : Type} : Option (List A) → Bool
  | some (_ :: _) => true
  | _ => false

/-- the error URI chosen for an exception -/
def errorUri {V : Type} (reg : Registry) (e : Exc V) : Uri :=
  match e.appError with
  | some u => u
  | none =>
    match AList.find e.cls reg.clsToPats with
    | some (u :: _) => u
    -- `…[exc.__class__][0]` raises IndexError here (no ERROR is sent). Only reachable after a decoration that raised
    -- TypeError AND a `define` that raised IndexError were both swallowed by the application (`Registry.WF` excludes
    -- it, `define_preserves_wf`); the value below is a totalisation, not a mirror of the code.
    | some [] => RUNTIME_ERROR
    | none => RUNTIME_ERROR

/-- `tb` is `some text` when `traceback_app` is on and the formatted traceback is non-empty (`if tb:`) -/
def toError {V : Type} (reg : Registry) (e : Exc V) (tb : Option V) : ErrorMsg V :=
  let args := e.args
  let kwargs := e.kwargs
  let kwargs : Option (Kwargs V) :=
    match tb with
    | some t => if truthy kwargs then some (AList.put TRACEBACK t (kwargs.getD [])) else some [(TRACEBACK, t)]
    | none => kwargs
  { uri := errorUri reg e, args := args, kwargs := kwargs }

/-- the ERROR built by the invocation error path: `errmsg = txaio.failure_message(err)` … `_message_from_exception`.
`failure_message` runs `str(exc)`, i.e. `ApplicationError.__unicode__`, BEFORE the message is built; it shortens a
keyword argument named "traceback" in a COPY of `self.kwargs` and leaves the instance as it is, so the message is built
from the exception as raised. -/
def invocationError {V : Type} (reg : Registry) (e : Exc V) (tb : Option V) : ErrorMsg V :=
  toError reg e tb

/-- `Error.marshal` followed by `Error.parse` on the peer: empty/absent collapse. -/
def wire {V : Type} (m : ErrorMsg V) : ErrorMsg V :=
  if truthy m.kwargs then { m with args := some (m.args.getD []) }
  else if truthy m.args then { m with kwargs := none }
  else { m with args := none, kwargs := none }

/-! ### `_exception_from_message` -/

/-- outcome of calling a registered class -/
inductive Ctor
  | ok        -- an instance (truthy)
  | raises    -- any exception out of the constructor
  | falsy     -- an instance for which `not exc` holds
deriving Repr, DecidableEq

/-- the keys `ApplicationError.__init__` pops out of its `**kwargs` -/
def RESERVED : List String := ["enc_algo", "callee", "callee_authid", "callee_authrole", "forward_for"]

/-- the exception object handed to the caller's errback -/
inductive RExc (V : Type)
  /-- a plain `ApplicationError`: `.error`, `.args`, `.kwargs` -/
  | app (uri : Uri) (args : List V) (kwargs : Kwargs V)
  /-- `cls(*args, **kwargs)` -/
  | user (cls : Cls) (args : List V) (kwargs : Kwargs V)
deriving Repr, DecidableEq

/-- `ApplicationError.__init__(error, *args, **kwargs)`, the public constructor: the five reserved names are taken
out of the keyword arguments and become attributes. (Application code building an error on the callee side goes
through it; the harness applies it when it reads `.kwargs` off such an instance.) -/
def mkApp {V : Type} (uri : Uri) (args : List V) (kwargs : Kwargs V) : RExc V :=
  .app uri args (AList.delAll RESERVED kwargs)

/-- the generic fallback of `_exception_from_message`: `exc = ApplicationError(uri, *args)` followed by
`exc.kwargs = dict(kwargs)`. The keyword arguments of the remote error do not pass through the constructor, so none of
them is taken for one of the reserved attributes (those are set from the message details afterwards). -/
def genericApp {V : Type} (uri : Uri) (args : List V) (kwargs : Kwargs V) : RExc V :=
  .app uri args kwargs

/-- positional / keyword arguments of the four-way constructor call (absent = not passed) -/
def callArgs {V : Type} (m : ErrorMsg V) : List V × Kwargs V :=
  if truthy m.kwargs then
    if truthy m.args then (m.args.getD [], m.kwargs.getD []) else ([], m.kwargs.getD [])
  else
    if truthy m.args then (m.args.getD [], []) else ([], [])

def fromError {V : Type} (reg : Registry) (ctor : Cls → List V → Kwargs V → Ctor) (m : ErrorMsg V) : RExc V :=
  let (a, k) := callArgs m
  let exc : Option (RExc V) :=
    match AList.find m.uri reg.uriToCls with
    | some c =>
      match ctor c a k with
      | .ok => some (.user c a k)
      | .raises => none
      | .falsy => none
    | none => none
  match exc with
  | some x => x
  | none => genericApp m.uri a k

/-- callee side to caller side through the wire -/
def roundtrip {V : Type} (regCallee regCaller : Registry) (ctor : Cls → List V → Kwargs V → Ctor)
    (e : Exc V) (tb : Option V) : RExc V :=
  fromError regCaller ctor (wire (toError regCallee e tb))

/-- the same, starting in the invocation error path -/
def roundtripInv {V : Type} (regCallee regCaller : Registry)
    (ctor : Cls → List V → Kwargs V → Ctor) (e : Exc V) (tb : Option V) : RExc V :=
  fromError regCaller ctor (wire (invocationError regCallee e tb))

/-! ### Spec — the property read literally -/
namespace Spec

/-- the URI the statement prescribes -/
def uri {V : Type} (reg : Registry) (e : Exc V) : Uri :=
  match e.appError with
  | some u => u
  | none => match AList.find e.cls reg.clsToPats with
    | some (u :: _) => u
    | _ => RUNTIME_ERROR

def args {V : Type} (e : Exc V) : List V := e.args.getD []

/-- the keyword arguments the statement prescribes (plus the forwarded traceback) -/
def kwargs {V : Type} (e : Exc V) (tb : Option V) : Kwargs V :=
  match tb with
  | some t => AList.put TRACEBACK t (e.kwargs.getD [])
  | none => e.kwargs.getD []

/-- what the caller must see: the registered class built from (args, kwargs) when that works, else a generic
application error carrying URI, args and kwargs -/
def caller {V : Type} (regCallee regCaller : Registry) (ctor : Cls → List V → Kwargs V → Ctor)
    (e : Exc V) (tb : Option V) : RExc V :=
  let u := uri regCallee e
  match AList.find u regCaller.uriToCls with
  | some c => if ctor c (args e) (kwargs e tb) = .ok then .user c (args e) (kwargs e tb) else .app u (args e) (kwargs e tb)
  | none => .app u (args e) (kwargs e tb)

end Spec

end Abverif.Errors
