/-
Shared vocabulary of all models. Import-free (core Lean only) so that the line-protocol
driver can be linked as a `lean_exe`.
-/
namespace Abverif

abbrev Bytes := List UInt8

namespace Hex

def digit (n : Nat) : Char :=
  if n < 10 then Char.ofNat (48 + n) else Char.ofNat (87 + n)

def ofByte (b : UInt8) : List Char := [digit (b.toNat / 16), digit (b.toNat % 16)]

def encode (bs : Bytes) : String := String.ofList (bs.flatMap ofByte)

def val (c : Char) : Option Nat :=
  if '0' ≤ c ∧ c ≤ '9' then some (c.toNat - 48)
  else if 'a' ≤ c ∧ c ≤ 'f' then some (c.toNat - 87)
  else if 'A' ≤ c ∧ c ≤ 'F' then some (c.toNat - 55)
  else none

def decodeChars : List Char → Option Bytes
  | [] => some []
  | [_] => none
  | a :: b :: rest => do
      let x ← val a
      let y ← val b
      let r ← decodeChars rest
      pure (UInt8.ofNat (x * 16 + y) :: r)

/-- `-` denotes the empty byte string on the wire of the line protocol. -/
def decode (s : String) : Option Bytes :=
  if s = "-" then some [] else decodeChars s.toList

def render (bs : Bytes) : String := if bs.isEmpty then "-" else encode bs

end Hex

def boolStr (b : Bool) : String := if b then "1" else "0"

end Abverif
