import Abverif.Model.Ws
/-
Spec for C01 / C02 / C16: a frame-by-frame RFC 6455 judge of a whole octet stream, written from the RFC text
(§5.2 framing, §5.4 fragmentation, §5.5 control frames, §7.4 status codes, RFC 7692 §6 RSV1), *not* from
`processData`: it walks complete frames; only the unfinished tail is looked at octet-wise (a receiver must fail at
the first violation, i.e. as soon as the offending octets are there).

`judge ctx stream = (events, verdict)`:
  events  — what the endpoint must deliver / answer, in order
  verdict — still `ok`, `closedByPeer` (a valid close frame was received: the rest of the stream is discarded,
            RFC 6455 §1.4), or `fail code` (1002 protocol error, 1007 invalid payload, 1009 too big).
-/
namespace Abverif.WsSpec
open Abverif Abverif.Xor Abverif.Ws

structure Ctx where
  isServer : Bool := true          -- role of the judging endpoint
  requireMasked : Bool := true     -- a server insists on masked client frames
  acceptMasked : Bool := false     -- a client tolerates masked server frames
  applyMask : Bool := true         -- payloads are XORed with the key (false only in fuzzing setups)
  utf8validate : Bool := true
  pmce : Bool := false
  maxFrame : Nat := 0
  maxMsg : Nat := 0
deriving Repr

def Ctx.ofCfg (c : Cfg) : Ctx :=
  { isServer := c.isServer, requireMasked := c.requireMasked, acceptMasked := c.acceptMasked,
    applyMask := c.applyMask, utf8validate := c.utf8validate, pmce := c.pmce, maxFrame := c.maxFrame, maxMsg := c.maxMsg }

inductive Ev
  | message (p : Bytes) (binary : Bool) (compressed : Bool)
  | ping (p : Bytes)            -- deliver onPing and answer with a pong carrying `p`
  | pong (p : Bytes)
  | close (code : Option Nat) (reason : Option Bytes)
deriving DecidableEq, Repr

inductive Verdict
  | ok
  | closedByPeer
  | fail (code : Nat)
deriving DecidableEq, Repr

/-- RFC 6455 §5.2/§5.4/§5.5 and RFC 7692 §6 on the first two header octets (`okFlags`, Model/WsHeader.lean). -/
def headerOk (c : Ctx) (insideMessage : Bool) (fin : Bool) (rsv opcode : Nat) (masked : Bool) (len7 : Nat) : Bool :=
  okFlags c.isServer c.requireMasked c.acceptMasked c.pmce insideMessage fin rsv opcode masked
    (decide (len7 > 125)) (decide (len7 = 1))

/-- §5.2: minimal length encoding, most significant bit of the 64-bit form zero -/
def extLenOk (len7 plen : Nat) : Bool :=
  if len7 = 126 then 126 ≤ plen
  else if len7 = 127 then 65536 ≤ plen && plen ≤ 0x7FFFFFFFFFFFFFFF
  else true

/-- §7.4: codes that may appear in a close frame on the wire -/
def closeCodeOk (code : Nat) : Bool :=
  (1000 ≤ code && code ≤ 1003) || (1007 ≤ code && code ≤ 1013) || (3000 ≤ code && code ≤ 4999)

structure J where
  inside : Bool := false
  binary : Bool := false
  compressed : Bool := false
  validate : Bool := false
  utf8 : U8 := .s0
  acc : Bytes := []
  total : Nat := 0        -- declared payload octets of the open message
  evs : List Ev := []

/-- judge from a frame boundary.  `fuel` bounds the number of frames (each consumes ≥ 2 octets). -/
def judgeFrom (c : Ctx) : Nat → J → Bytes → List Ev × Verdict × Nat
  | 0, j, bs => (j.evs, .ok, bs.length)
  | fuel + 1, j, bs =>
    match bs with
    | o0 :: o1 :: rest2 =>
      let fin := o0.toNat / 128 = 1
      let rsv := o0.toNat / 16 % 8
      let opcode := o0.toNat % 16
      let masked := o1.toNat / 128 = 1
      let len7 := o1.toNat % 128
      if !headerOk c j.inside fin rsv opcode masked len7 then (j.evs, .fail 1002, bs.length) else
      let extN := if len7 = 126 then 2 else if len7 = 127 then 8 else 0
      if rest2.length < extN + (if masked then 4 else 0) then (j.evs, .ok, bs.length) else   -- header incomplete: no verdict yet
      let plen := if len7 < 126 then len7 else beNat (rest2.take extN)
      if !extLenOk len7 plen then (j.evs, .fail 1002, bs.length) else
      let key : Option Key :=
        if masked then
          match (rest2.drop extN).take 4 with
          | [a, b, k2, d] => some ⟨a, b, k2, d⟩
          | _ => none
        else none
      let body := rest2.drop (extN + (if masked then 4 else 0))
      let avail := body.take plen
      let unmasked := match key with
        | some k => if c.applyMask then (Xor.spec k 0 avail).1 else avail
        | none => avail
      let complete := body.length ≥ plen
      if opcode ≥ 8 then
        -- control frame: acts only when complete
        if !complete then (j.evs, .ok, bs.length) else
        let after := body.drop plen
        if opcode = 9 then judgeFrom c fuel { j with evs := j.evs ++ [.ping unmasked] } after
        else if opcode = 10 then judgeFrom c fuel { j with evs := j.evs ++ [.pong unmasked] } after
        else
          -- close
          let code := if unmasked.length ≥ 2 then some (beNat (unmasked.take 2)) else none
          let reason := if unmasked.length > 2 then some (unmasked.drop 2) else none
          match code with
          | some cd => if !closeCodeOk cd then (j.evs, .fail 1002, bs.length) else
            (match reason with
             | some r => if !utf8Valid r then (j.evs, .fail 1007, bs.length) else (j.evs ++ [.close code reason], .closedByPeer, after.length)
             | none => (j.evs ++ [.close code none], .closedByPeer, after.length))
          | none => (j.evs ++ [.close none none], .closedByPeer, after.length)
      else
        -- data frame
        let j := if !j.inside then
            { j with inside := true, binary := opcode = 2, compressed := c.pmce && rsv = 4,
                     validate := opcode = 1 && c.utf8validate, utf8 := .s0, acc := [], total := 0 }
          else j
        let j := { j with total := j.total + plen }
        -- limits are judged on the declared length, as soon as the header is complete
        if 0 < c.maxMsg && c.maxMsg < j.total then (j.evs, .fail 1009, bs.length) else
        if 0 < c.maxFrame && c.maxFrame < plen then (j.evs, .fail 1009, bs.length) else
        let u := if j.validate && !j.compressed then u8run j.utf8 unmasked else j.utf8
        if u = .rej then (j.evs, .fail 1007, bs.length) else     -- fail fast: no continuation can repair it
        if !complete then (j.evs, .ok, bs.length) else
        let j := { j with utf8 := u, acc := j.acc ++ unmasked }
        let after := body.drop plen
        if fin then
          if j.validate && !j.compressed && u ≠ .s0 then (j.evs, .fail 1007, bs.length) else   -- ends inside a code point
          judgeFrom c fuel { j with inside := false, acc := [], evs := j.evs ++ [.message j.acc j.binary j.compressed] } after
        else judgeFrom c fuel j after
    | _ => (j.evs, .ok, bs.length)

def judge (c : Ctx) (stream : Bytes) : List Ev × Verdict × Nat := judgeFrom c (stream.length / 2 + 1) {} stream

/-- the messages a well-formed stream carries (C01) -/
def messagesOf (evs : List Ev) : List (Bytes × Bool) :=
  evs.filterMap (fun e => match e with | .message p b _ => some (p, b) | _ => none)

/-! ### projection of a model/implementation log to the same vocabulary (used by the theorems and the harness) -/

def evOfOut : Out → Option Ev
  | .onMessage p b cmp => some (.message p b cmp)
  | .onPing p => some (.ping p)
  | .onPong p => some (.pong p)
  | _ => none

end Abverif.WsSpec
