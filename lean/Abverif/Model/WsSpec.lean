import Abverif.Model.Ws
/-
Spec for C01 / C02 / C16: a frame-by-frame RFC 6455 judge of a whole octet stream, written from the RFC text
(§5.2 framing, §5.4 fragmentation, §5.5 control frames, §7.4 status codes, RFC 7692 §6 RSV1), *not* from
`processData`: it walks complete frames; only the unfinished tail is looked at octet-wise (a receiver must fail at
the first violation, i.e. as soon as the offending octets are there).

`judge ctx stream = (events, verdict)`:
  events  — what the endpoint must deliver / answer, in order
  verdict — still `ok`, `closedByPeer` (a valid close frame was received: the rest of the stream is discarded,
            RFC 6455 §1.4), or `fail code` (1002 protocol error, 1007 invalid payload, 1009 too big).
-/
namespace Abverif.WsSpec
open Abverif Abverif.Xor Abverif.Ws

structure Ctx where
  isServer : Bool := true          -- role of the judging endpoint
  requireMasked : Bool := true     -- a server insists on masked client frames
  acceptMasked : Bool := false     -- a client tolerates masked server frames
  applyMask : Bool := true         -- payloads are XORed with the key (false only in fuzzing setups)
  utf8validate : Bool := true
  pmce : Bool := false
  maxFrame : Nat := 0
  maxMsg : Nat := 0
deriving Repr

def Ctx.ofCfg (c : Cfg) : Ctx :=
  { isServer := c.isServer, requireMasked := c.requireMasked, acceptMasked := c.acceptMasked,
    applyMask := c.applyMask, utf8validate := c.utf8validate, pmce := c.pmce, maxFrame := c.maxFrame, maxMsg := c.maxMsg }

inductive Ev
  | message (p : Bytes) (binary : Bool) (compressed : Bool)
  | ping (p : Bytes)            -- deliver onPing and answer with a pong carrying `p`
  | pong (p : Bytes)
  | close (code : Option Nat) (reason : Option Bytes)
deriving DecidableEq, Repr

inductive Verdict
  | ok
  | closedByPeer
  | fail (code : Nat)
deriving DecidableEq, Repr

/-- RFC 6455 §5.2/§5.4/§5.5 and RFC 7692 §6 on the first two header octets (`okFlags`, Model/WsHeader.lean). -/
def headerOk (c : Ctx) (insideMessage : Bool) (fin : Bool) (rsv opcode : Nat) (masked : Bool) (len7 : Nat) : Bool :=
  okFlags c.isServer c.requireMasked c.acceptMasked c.pmce insideMessage fin rsv opcode masked
    (decide (len7 > 125)) (decide (len7 = 1))

/-- §5.2: minimal length encoding, most significant bit of the 64-bit form zero -/
def extLenOk (len7 plen : Nat) : Bool :=
  if len7 = 126 then 126 ≤ plen
  else if len7 = 127 then 65536 ≤ plen && plen ≤ 0x7FFFFFFFFFFFFFFF
  else true

/-- §7.4: codes that may appear in a close frame on the wire -/
def closeCodeOk (code : Nat) : Bool :=
  (1000 ≤ code && code ≤ 1003) || (1007 ≤ code && code ≤ 1013) || (3000 ≤ code && code ≤ 4999)

structure J where
  inside : Bool := false
  binary : Bool := false
  compressed : Bool := false
  validate : Bool := false
  utf8 : U8 := .s0
  acc : Bytes := []
  total : Nat := 0        -- declared payload octets of the open message
  evs : List Ev := []

/-- outcome of judging one frame: go on behind it, or a final verdict -/
inductive JStep
  | next (j : J) (rest : Bytes)
  | done (evs : List Ev) (v : Verdict) (restlen : Nat)

/-- the parsed fixed part of a frame header -/
structure Hd where
  fin : Bool
  rsv : Nat
  opcode : Nat
  masked : Bool
  len7 : Nat

def Hd.ofOctets (o0 o1 : UInt8) : Hd :=
  { fin := o0.toNat / 128 = 1, rsv := o0.toNat / 16 % 8, opcode := o0.toNat % 16,
    masked := o1.toNat / 128 = 1, len7 := o1.toNat % 128 }

def Hd.extN (h : Hd) : Nat := if h.len7 = 126 then 2 else if h.len7 = 127 then 8 else 0
def Hd.keyN (h : Hd) : Nat := if h.masked then 4 else 0

/-- declared payload length, from the octets behind the first two -/
def Hd.plen (h : Hd) (rest2 : Bytes) : Nat := if h.len7 < 126 then h.len7 else beNat (rest2.take h.extN)

def Hd.key (h : Hd) (rest2 : Bytes) : Option Key :=
  if h.masked then
    match (rest2.drop h.extN).take 4 with
    | [a, b, k2, d] => some ⟨a, b, k2, d⟩
    | _ => none
  else none

/-- the payload octets present, unmasked -/
def unmaskAvail (c : Ctx) (key : Option Key) (avail : Bytes) : Bytes :=
  match key with
  | some k => if c.applyMask then (Xor.spec k 0 avail).1 else avail
  | none => avail

/-- a complete control frame (§5.5) -/
def judgeControl (j : J) (bslen : Nat) (opcode : Nat) (unmasked after : Bytes) : JStep :=
  if opcode = 9 then .next { j with evs := j.evs ++ [.ping unmasked] } after
  else if opcode = 10 then .next { j with evs := j.evs ++ [.pong unmasked] } after
  else
    -- close
    let code := if unmasked.length ≥ 2 then some (beNat (unmasked.take 2)) else none
    let reason := if unmasked.length > 2 then some (unmasked.drop 2) else none
    match code with
    | some cd => if !closeCodeOk cd then .done j.evs (.fail 1002) bslen else
      (match reason with
       | some r => if !utf8Valid r then .done j.evs (.fail 1007) bslen
                   else .done (j.evs ++ [.close code reason]) .closedByPeer after.length
       | none => .done (j.evs ++ [.close code none]) .closedByPeer after.length)
    | none => .done (j.evs ++ [.close none none]) .closedByPeer after.length

/-- the message bookkeeping when a data frame header arrives -/
def J.enter (c : Ctx) (j : J) (h : Hd) (plen : Nat) : J :=
  let j := if !j.inside then
      { j with inside := true, binary := h.opcode = 2, compressed := c.pmce && h.rsv = 4,
               validate := h.opcode = 1 && c.utf8validate, utf8 := .s0, acc := [], total := 0 }
    else j
  { j with total := j.total + plen }

/-- a data frame (§5.4, §5.6), possibly with only a part of its payload present -/
def judgeData (c : Ctx) (j0 : J) (bslen : Nat) (h : Hd) (plen : Nat) (unmasked : Bytes) (complete : Bool)
    (after : Bytes) : JStep :=
  let j := j0.enter c h plen
  -- limits are judged on the declared length, as soon as the header is complete
  if 0 < c.maxMsg && c.maxMsg < j.total then .done j.evs (.fail 1009) bslen else
  if 0 < c.maxFrame && c.maxFrame < plen then .done j.evs (.fail 1009) bslen else
  let u := if j.validate && !j.compressed then u8run j.utf8 unmasked else j.utf8
  if u = .rej then .done j.evs (.fail 1007) bslen else     -- fail fast: no continuation can repair it
  if !complete then .done j.evs .ok bslen else
  let j := { j with utf8 := u, acc := j.acc ++ unmasked }
  if h.fin then
    if j.validate && !j.compressed && u ≠ .s0 then .done j.evs (.fail 1007) bslen else   -- ends inside a code point
    .next { j with inside := false, acc := [], evs := j.evs ++ [.message j.acc j.binary j.compressed] } after
  else .next j after

/-- judge the frame at the front of `bs` -/
def judgeStep (c : Ctx) (j : J) (bs : Bytes) : JStep :=
  match bs with
  | o0 :: o1 :: rest2 =>
    let h := Hd.ofOctets o0 o1
    if !headerOk c j.inside h.fin h.rsv h.opcode h.masked h.len7 then .done j.evs (.fail 1002) bs.length else
    if rest2.length < h.extN + h.keyN then .done j.evs .ok bs.length else   -- header incomplete: no verdict yet
    let plen := h.plen rest2
    if !extLenOk h.len7 plen then .done j.evs (.fail 1002) bs.length else
    let body := rest2.drop (h.extN + h.keyN)
    let unmasked := unmaskAvail c (h.key rest2) (body.take plen)
    let complete := body.length ≥ plen
    if h.opcode ≥ 8 then
      -- control frame: acts only when complete
      if !complete then .done j.evs .ok bs.length
      else judgeControl j bs.length h.opcode unmasked (body.drop plen)
    else judgeData c j bs.length h plen unmasked complete (body.drop plen)
  | _ => .done j.evs .ok bs.length

/-- judge from a frame boundary.  `fuel` bounds the number of frames (each consumes ≥ 2 octets). -/
def judgeFrom (c : Ctx) : Nat → J → Bytes → List Ev × Verdict × Nat
  | 0, j, bs => (j.evs, .ok, bs.length)
  | fuel + 1, j, bs =>
    match judgeStep c j bs with
    | .next j' rest => judgeFrom c fuel j' rest
    | .done evs v r => (evs, v, r)

def judge (c : Ctx) (stream : Bytes) : List Ev × Verdict × Nat := judgeFrom c (stream.length / 2 + 1) {} stream

/-- the messages a well-formed stream carries (C01) -/
def messagesOf (evs : List Ev) : List (Bytes × Bool) :=
  evs.filterMap (fun e => match e with | .message p b _ => some (p, b) | _ => none)

/-! ### projection of a model/implementation log to the same vocabulary (used by the theorems and the harness) -/

def evOfOut : Out → Option Ev
  | .onMessage p b cmp => some (.message p b cmp)
  | .onPing p => some (.ping p)
  | .onPong p => some (.pong p)
  | _ => none

end Abverif.WsSpec
