import Abverif.Model.Basic
import Abverif.Generated.WampTransport
/-
C13 — WAMP-over-RawSocket: opening handshake (both roles, Twisted and asyncio variants), the
4-octet accumulator across reads, length-prefixed framing (asyncio `PrefixProtocol.data_received`
and the contract of Twisted's `Int32StringReceiver` as `twisted/rawsocket.py` uses it), the
send-side size guard, the exception ladders of `stringReceived`, and the transport-gone notification.

Every numeric constant of the *models* comes from `Abverif.Gen.WampTransport` (regenerated from the
source on every run); the *Specs* use the literals of the WAMP RawSocket specification (0x7F, 2^(9+n), …).

Environment assumption (stated once, used by every `feed` below): after the protocol called
`transport.abortConnection()/abort()/close()/loseConnection()` from inside `dataReceived`, or after an
exception left `dataReceived`/`data_received`, the framework delivers no further reads (Twisted and
asyncio both stop reading at once; an exception in `data_received` makes asyncio force-close the
transport, Twisted's reactor drops the connection). The models therefore carry a `dead` flag and ignore
input once it is set. The harness delivers reads the same way.
-/
namespace Abverif.RawSocket
open Abverif
open Abverif.Gen

inductive Variant | twisted | asyncio
deriving DecidableEq, Repr

inductive Role | server | client
deriving DecidableEq, Repr

/-- exception classes that matter to the property (class names, never texts) -/
inductive Exc
  | transportLost | notImplemented | payloadExceeded | valueError | serializationError
  | protocolError | invalidUri | cancelled | other
deriving DecidableEq, Repr

def Exc.name : Exc → String
  | .transportLost => "TransportLost"
  | .notImplemented => "NotImplementedError"
  | .payloadExceeded => "PayloadExceededError"
  | .valueError => "ValueError"
  | .serializationError => "SerializationError"
  | .protocolError => "ProtocolError"
  | .invalidUri => "InvalidUriError"
  | .cancelled => "CancelledError"
  | .other => "Exception"

/-- what the protocol did to its transport -/
inductive TClose | none | abort | close
deriving DecidableEq, Repr

def TClose.name : TClose → String
  | .none => "open" | .abort => "abort" | .close => "close"

/-! ## Spec: the WAMP RawSocket handshake

first octet 0x7F; second octet: high nibble = length exponent `n` (the sender of the octet is willing
to *receive* up to `2^(9+n)` octets), low nibble = serializer; octets 3 and 4 reserved (zero). -/

/-- `2^(9+n)`, the maximum message length announced by exponent `n` -/
def maxLenOfExp (n : Nat) : Nat := 2 ^ (9 + n)

def hiNibble (o : UInt8) : Nat := o.toNat / 16
def loNibble (o : UInt8) : Nat := o.toNat % 16

/-- A handshake is acceptable iff the magic octet is right and the serializer is one the receiving
side supports (server: any of its serializers; client: the one it asked for). The asyncio variant
additionally insists on zero reserved octets; the Twisted variant does not look at them. -/
def acceptSpec (v : Variant) (supported : List Nat) (o1 o2 o3 o4 : UInt8) : Prop :=
  o1 = 0x7F ∧ loNibble o2 ∈ supported ∧ (v = .asyncio → o3 = 0 ∧ o4 = 0)

instance (v : Variant) (supported : List Nat) (o1 o2 o3 o4 : UInt8) :
    Decidable (acceptSpec v supported o1 o2 o3 o4) := by
  unfold acceptSpec; exact inferInstance

/-! ## Model: the handshake as the code evaluates it once 4 octets are there -/

structure HsOut where
  accepted : Bool
  ser : Nat               -- serializer id read from octet 2 (meaningful when the magic octet was right)
  maxSend : Option Nat    -- `_max_len_send` (Twisted; `None` until set) / `max_length_send` (asyncio) afterwards
  written : Bytes         -- octets written in reply
  tclose : TClose         -- abortConnection / transport.close() / nothing
  exc : Option Exc        -- exception that left `dataReceived` / `data_received`
deriving DecidableEq, Repr

/-- `bytes(bytearray([(exp << 4) | ser]))`: `ValueError` unless the value fits one octet -/
def replyOctet (exp ser : Nat) : Option UInt8 :=
  let v := (exp <<< 4) ||| ser
  if v < 256 then some (UInt8.ofNat v) else none

/-- `WampRawSocketServerProtocol.dataReceived` (twisted/rawsocket.py), the part run when 4 octets are in -/
def twServerHs (supported : List Nat) (exp : Nat) (o1 o2 _o3 _o4 : UInt8) : HsOut :=
  if o1.toNat ≠ WampTransport.twServerMagic then
    { accepted := false, ser := 0, maxSend := none, written := [], tclose := .abort, exc := none }
  else
    let maxSend := WampTransport.twServerPowBase ^ (WampTransport.twServerExpAdd + (o2.toNat >>> WampTransport.twServerShift))
    let ser := o2.toNat &&& WampTransport.twServerSerMask
    if supported.contains ser then
      match replyOctet exp ser with
      | some r =>
        { accepted := true, ser := ser, maxSend := some maxSend, written := [0x7F, r, 0, 0], tclose := .none, exc := none }
      | none =>
        { accepted := false, ser := ser, maxSend := some maxSend, written := [], tclose := .none, exc := some .valueError }
    else
      { accepted := false, ser := ser, maxSend := some maxSend, written := [], tclose := .abort, exc := none }

/-- `WampRawSocketClientProtocol.dataReceived` (twisted/rawsocket.py) -/
def twClientHs (mySer : Nat) (o1 o2 _o3 _o4 : UInt8) : HsOut :=
  if o1.toNat ≠ WampTransport.twClientMagic then
    { accepted := false, ser := 0, maxSend := none, written := [], tclose := .abort, exc := none }
  else
    let maxSend := WampTransport.twClientPowBase ^ (WampTransport.twClientExpAdd + (o2.toNat >>> WampTransport.twClientShift))
    let ser := o2.toNat &&& WampTransport.twClientSerMask
    if ser ≠ mySer then
      { accepted := false, ser := ser, maxSend := some maxSend, written := [], tclose := .abort, exc := none }
    else
      { accepted := true, ser := ser, maxSend := some maxSend, written := [], tclose := .none, exc := none }

/-- `RawSocketProtocol.parse_handshake` (asyncio/rawsocket.py): `Except` = `HandshakeError`;
`max_length_send` is assigned *before* the reserved octets are looked at. -/
def aioParseHandshake (o1 o2 o3 o4 : UInt8) : Except Unit (Nat × Nat) × Option Nat :=
  if o1.toNat ≠ WampTransport.aioMagic then (.error (), none)
  else
    let ser := o2.toNat &&& WampTransport.aioSerMask
    let lexp := o2.toNat >>> WampTransport.aioShift
    let ms := WampTransport.aioPowBase ^ (lexp + WampTransport.aioExpAdd)
    if o3.toNat ≠ 0 ∨ o4.toNat ≠ 0 then (.error (), some ms)
    else (.ok (ser, lexp), some ms)

def aioMaxSend (m : Option Nat) : Option Nat :=
  match m with
  | some x => some x
  | none => some WampTransport.aioDefaultMaxLength    -- class attribute `max_length_send = max_length`

/-- asyncio `RawSocketServerProtocol.process_handshake` + `WampRawSocketServerProtocol.supports_serializer`
+ the `HandshakeError → protocol_error → transport.close()` handler of `RawSocketProtocol.data_received`.
For an unsupported serializer `process_handshake` writes the error reply `7F | ERR_SERIALIZER_UNSUPPORTED << 4 | 00 00`
and raises `HandshakeError` (→ `transport.close()`).
Legacy (F12, repaired in /repo 77273b88): `supports_serializer` used to call `self.abort()`, which raises
`TransportLost` because no session is attached yet — the exception left `data_received`, nothing was written,
nothing closed. The translator reads whether that call is present (`aioServerAbortsOnUnsupported`), so
re-introducing it makes the model exhibit it again and `rs_refuse_clean` stops checking. -/
def aioServerHs (supported : List Nat) (exp : Nat) (o1 o2 o3 o4 : UInt8) : HsOut :=
  match aioParseHandshake o1 o2 o3 o4 with
  | (.error _, ms) =>
    { accepted := false, ser := 0, maxSend := aioMaxSend ms, written := [], tclose := .close, exc := none }
  | (.ok (ser, _), ms) =>
    if supported.contains ser then
      match replyOctet exp (ser &&& 0x0F) with
      | some r =>
        { accepted := true, ser := ser, maxSend := aioMaxSend ms, written := [UInt8.ofNat WampTransport.aioMagic, r, 0, 0], tclose := .none, exc := none }
      | none =>
        { accepted := false, ser := ser, maxSend := aioMaxSend ms, written := [], tclose := .none, exc := some .valueError }
    else if WampTransport.aioServerAbortsOnUnsupported then
      { accepted := false, ser := ser, maxSend := aioMaxSend ms, written := [], tclose := .none, exc := some .transportLost }
    else
      match replyOctet WampTransport.aioErrSerUnsupported (0 &&& 0x0F) with
      | some r =>
        { accepted := false, ser := ser, maxSend := aioMaxSend ms, written := [UInt8.ofNat WampTransport.aioMagic, r, 0, 0], tclose := .close, exc := none }
      | none =>
        { accepted := false, ser := ser, maxSend := aioMaxSend ms, written := [], tclose := .none, exc := some .valueError }

/-- asyncio `RawSocketClientProtocol.process_handshake` -/
def aioClientHs (mySer : Nat) (o1 o2 o3 o4 : UInt8) : HsOut :=
  match aioParseHandshake o1 o2 o3 o4 with
  | (.error _, ms) =>
    { accepted := false, ser := 0, maxSend := aioMaxSend ms, written := [], tclose := .close, exc := none }
  | (.ok (ser, _), ms) =>
    if ser = 0 then   -- "Server returned handshake error"
      { accepted := false, ser := ser, maxSend := aioMaxSend ms, written := [], tclose := .close, exc := none }
    else if mySer ≠ ser then
      { accepted := false, ser := ser, maxSend := aioMaxSend ms, written := [], tclose := .close, exc := none }
    else
      { accepted := true, ser := ser, maxSend := aioMaxSend ms, written := [], tclose := .none, exc := none }

/-- connection configuration the handshake reads -/
structure Cfg where
  variant : Variant
  role : Role
  supported : List Nat    -- server: keys of `factory._serializers`; client: `[own RAWSOCKET_SERIALIZER_ID]`
  exp : Nat               -- exponent announced in our reply (server); asyncio: `_length_exp`
  maxRecv : Nat           -- `MAX_LENGTH` / `max_length` in force once the handshake is complete
deriving Repr

def Cfg.mySer (c : Cfg) : Nat := c.supported.headD 0

def hsEval (c : Cfg) (o1 o2 o3 o4 : UInt8) : HsOut :=
  match c.variant, c.role with
  | .twisted, .server => twServerHs c.supported c.exp o1 o2 o3 o4
  | .twisted, .client => twClientHs c.mySer o1 o2 o3 o4
  | .asyncio, .server => aioServerHs c.supported c.exp o1 o2 o3 o4
  | .asyncio, .client => aioClientHs c.mySer o1 o2 o3 o4

/-! ### what each side announces

Twisted: `exp = ceil(log2(_max_message_size))`, `MAX_LENGTH = 2**exp`, octet `((exp - 9) << 4) | ser`.
asyncio: `_length_exp = 15`, `max_length = 2**24` (the `max_size` branch is dead code). -/

/-- `int(math.ceil(math.log(n, 2)))` for `n ≥ 1` (the harness checks the float formula against this
for every `512 ≤ n ≤ 2^24` in the thorough tier) -/
def clog2 (n : Nat) : Nat := if n ≤ 1 then 0 else Nat.log2 (n - 1) + 1

/-- the exponent nibble a Twisted endpoint with `_max_message_size = size` announces -/
def twAnnounceExp (size : Nat) : Nat := clog2 size - 9

/-- `MAX_LENGTH` of a Twisted endpoint after (client: before) the handshake -/
def twMaxRecv (size : Nat) : Nat := 2 ^ clog2 size

/-- the request the client writes in `connectionMade`/`connection_made` -/
def clientRequest (v : Variant) (exp ser : Nat) : Option Bytes :=
  match v with
  | .twisted => (replyOctet exp ser).map fun r => [0x7F, r, 0, 0]
  | .asyncio => (replyOctet exp ser).map fun r => [UInt8.ofNat WampTransport.aioMagic, r, 0, 0]

/-! ## Length-prefixed framing -/

inductive Ev
  | written (b : Bytes)                 -- octets written by the handshake
  | attach (ser : Nat) (maxSend : Nat)  -- session created, `onOpen(transport)`
  | string (p : Bytes)                  -- `stringReceived(p)`
  | tclose (k : TClose)                 -- transport closed / aborted by the protocol
  | raised (e : Exc)                    -- exception left `dataReceived`
deriving DecidableEq, Repr

/-- judgement of a 4-octet frame header -/
inductive Verdict
  | frame (kind len : Nat)
  | reject (evs : List Ev)
deriving DecidableEq, Repr

/-- the two framings share the receive loop and differ in how a header is judged and how a complete
frame is dispatched (`Bool` = the dispatch raised, i.e. control left `data_received`) -/
structure Framing where
  judge : UInt8 → UInt8 → UInt8 → UInt8 → Verdict
  dispatch : Nat → Bytes → List Ev × Bool

def be24 (b1 b2 b3 : UInt8) : Nat := b1.toNat * 65536 + b2.toNat * 256 + b3.toNat
def be32 (b0 b1 b2 b3 : UInt8) : Nat := b0.toNat * 16777216 + be24 b1 b2 b3

def be32enc (n : Nat) : Bytes :=
  [UInt8.ofNat (n / 16777216 % 256), UInt8.ofNat (n / 65536 % 256), UInt8.ofNat (n / 256 % 256), UInt8.ofNat (n % 256)]

/-- asyncio `PrefixProtocol.ping(data)`: `header = struct.pack("!L", len(data))`;
`transport.write(bytes(bytearray([FRAME_TYPE_PONG])) + header[1:]); transport.write(data)` — one frame of the type the
source names (read into `aioPingReplyType`), 24-bit length, the same payload. -/
def aioPingReply (p : Bytes) : Bytes :=
  UInt8.ofNat WampTransport.aioPingReplyType :: (be32enc p.length).drop 1 ++ p

/-- what `PrefixProtocol.data_received` does with a complete frame (`Bool` = an exception left `data_received`):
a data frame goes to `stringReceived`; a PING is answered with one PONG carrying the same payload; a PONG is consumed.
Legacy (F13, repaired in /repo 4c355c2c): `ping()`/`pong()` were `raise NotImplementedError()`;
the translator reads which it is (`aioPingRaises`, `aioPongRaises`), so re-introducing the `raise` makes the model raise
again and `prefix_never_raises` / `aio_serves` stop checking. -/
def aioDispatch (kind : Nat) (p : Bytes) : List Ev × Bool :=
  if kind = WampTransport.aioTypeData then ([.string p], false)
  else if kind = WampTransport.aioTypePing then
    (if WampTransport.aioPingRaises then ([.raised .notImplemented], true) else ([.written (aioPingReply p)], false))
  else
    (if WampTransport.aioPongRaises then ([.raised .notImplemented], true) else ([], false))

/-- asyncio `PrefixProtocol.data_received`: `frame_type = header[0] & 0b111`; `> FRAME_TYPE_PONG` →
`protocol_error("Invalid frame type")` (= `transport.close()`); 24-bit length `> max_length` →
`protocol_error("Frame too big")`. -/
def aioFraming (maxLength : Nat) : Framing where
  judge b0 b1 b2 b3 :=
    let ty := b0.toNat &&& WampTransport.aioTypeMask
    if ty > WampTransport.aioTypePong then .reject [.tclose .close]
    else
      let len := be24 b1 b2 b3
      if len > maxLength then .reject [.tclose .close] else .frame ty len
  dispatch := aioDispatch

/-- what the `lengthLimitExceeded(length)` override of twisted/rawsocket.py does (`twLengthLimitAction`, read from the
source): 0 — logs and calls `self.abort()` (`transport.abortConnection()`); 1 — legacy (N1, repaired in /repo
3817d6f2): `raise PayloadExceededError`, which left `dataReceived`;
otherwise — the base class behaviour `transport.loseConnection()`. -/
def twLimitEvents : List Ev :=
  if WampTransport.twLengthLimitAction = 0 then [.tclose .abort]
  else if WampTransport.twLengthLimitAction = 1 then [.raised .payloadExceeded]
  else [.tclose .close]

/-- Twisted `Int32StringReceiver.dataReceived` as used by `WampRawSocketProtocol`: 32-bit big-endian
length; `length > MAX_LENGTH` → `lengthLimitExceeded(length)` *before* the string is waited for, then `return`. -/
def twFraming (maxLength : Nat) : Framing where
  judge b0 b1 b2 b3 :=
    let len := be32 b0 b1 b2 b3
    if len > maxLength then .reject twLimitEvents else .frame 0 len
  dispatch _ p := ([.string p], false)

/-- the first four octets of a buffer and what follows them (`none`: fewer than four) -/
def split4 : Bytes → Option (UInt8 × UInt8 × UInt8 × UInt8 × Bytes)
  | b0 :: b1 :: b2 :: b3 :: rest => some (b0, b1, b2, b3, rest)
  | _ => none

/-- receive state of a live connection: `_buffer` / `_unprocessed` and the saved `_header`.
A connection that was closed / whose `data_received` raised is `none` (no further reads, see the
environment assumption at the top). -/
structure PSt where
  buf : Bytes
  hdr : Option (Nat × Nat)
deriving DecidableEq, Repr

def PSt.init : PSt := ⟨[], none⟩

/-- "do not recalculate header if available from previous call" -/
def verdict (F : Framing) (h : Option (Nat × Nat)) (b0 b1 b2 b3 : UInt8) : Verdict :=
  match h with
  | some (k, l) => .frame k l
  | none => F.judge b0 b1 b2 b3

/-- the `while remaining >= prefix_length` loop. `fuel` bounds the iterations (each consumes ≥ 4 octets). -/
def loop (F : Framing) : Nat → Option (Nat × Nat) → Bytes → Option PSt × List Ev
  | 0, h, buf => (some ⟨buf, h⟩, [])
  | fuel + 1, h, buf =>
    match split4 buf with
    | some (b0, b1, b2, b3, rest) =>
      match verdict F h b0 b1 b2 b3 with
      | .reject evs => (none, evs)                -- `protocol_error(..); return` / `lengthLimitExceeded`
      | .frame k l =>
        if l ≤ rest.length then
          let r := F.dispatch k (rest.take l)
          if r.2 then (none, r.1)                 -- the callback raised
          else
            let t := loop F fuel none (rest.drop l)
            (t.1, r.1 ++ t.2)
        else (some ⟨buf, some (k, l)⟩, [])        -- "save header"
    | none => (some ⟨buf, h⟩, [])

/-- `data_received(data)` once the handshake is done -/
def feed (F : Framing) (s : PSt) (d : Bytes) : Option PSt × List Ev :=
  loop F ((s.buf ++ d).length + 1) s.hdr (s.buf ++ d)

def feedAll (F : Framing) : Option PSt → List Bytes → Option PSt × List Ev
  | none, _ => (none, [])
  | some s, [] => (some s, [])
  | some s, c :: cs =>
    let t := feed F s c
    let u := feedAll F t.1 cs
    (u.1, t.2 ++ u.2)

/-! ### Spec: whole-stream length-prefix parser (no state, no saved header) -/

/-- parse complete frames off the front of `s`; returns the events and the unconsumed rest
(`none`: the stream was refused — header rejected or the callback raised) -/
def parse (F : Framing) : Nat → Bytes → List Ev × Option Bytes
  | 0, s => ([], some s)
  | fuel + 1, s =>
    match split4 s with
    | some (b0, b1, b2, b3, rest) =>
      match F.judge b0 b1 b2 b3 with
      | .reject evs => (evs, none)
      | .frame k l =>
        if l ≤ rest.length then
          let r := F.dispatch k (rest.take l)
          if r.2 then (r.1, none)
          else
            let t := parse F fuel (rest.drop l)
            (r.1 ++ t.1, t.2)
        else ([], some s)
    | none => ([], some s)

def parseStream (F : Framing) (s : Bytes) : List Ev × Option Bytes := parse F (s.length + 1) s

/-- wire form of one RawSocket frame of type `ty` (0 data, 1 ping, 2 pong) with a payload shorter than 2^24 -/
def frameHeader (ty len : Nat) : Bytes :=
  [UInt8.ofNat ty, UInt8.ofNat (len / 65536 % 256), UInt8.ofNat (len / 256 % 256), UInt8.ofNat (len % 256)]

def encodeFrame (ty : Nat) (p : Bytes) : Bytes := frameHeader ty p.length ++ p

/-! ## The connection: 4-octet accumulator, then framing -/

inductive Phase
  | handshake (acc : Bytes)     -- `_handshake_bytes` / `_buffer`, fewer than 4 octets
  | established (p : PSt)
  | dead                        -- closed, aborted, or an exception left `dataReceived`
deriving DecidableEq, Repr

def framingOf (c : Cfg) : Framing :=
  match c.variant with
  | .twisted => twFraming c.maxRecv
  | .asyncio => aioFraming c.maxRecv

def hsEvents (o : HsOut) : List Ev :=
  (if o.written.isEmpty then [] else [Ev.written o.written])
  ++ (if o.accepted then [Ev.attach o.ser (o.maxSend.getD 0)] else [])
  ++ (match o.tclose with | .none => [] | k => [Ev.tclose k])
  ++ (match o.exc with | none => [] | some e => [Ev.raised e])

def phaseOf : Option PSt → Phase
  | some p => .established p
  | none => .dead

/-- evaluate the handshake on the 4 accumulated octets and hand the rest of the read to the framing
(`if data: self.dataReceived(data)` / `if data: PrefixProtocol.data_received(self, data)`) -/
def finishHs (c : Cfg) (o1 o2 o3 o4 : UInt8) (rest : Bytes) : Phase × List Ev :=
  let o := hsEval c o1 o2 o3 o4
  if o.accepted then
    if rest.isEmpty then (.established PSt.init, hsEvents o)
    else
      let t := feed (framingOf c) PSt.init rest
      (phaseOf t.1, hsEvents o ++ t.2)
  else (.dead, hsEvents o)

/-- Twisted: `remaining = 4 - len(_handshake_bytes); _handshake_bytes += data[:remaining]; … data = data[remaining:]` -/
def twAccumulate (acc data : Bytes) : Bytes × Bytes :=
  let remaining := 4 - acc.length
  (acc ++ data.take remaining, data.drop remaining)

/-- asyncio: `_buffer += data; if len(_buffer) >= 4: … buf = _buffer[:4]; data = _buffer[4:]` -/
def aioAccumulate (acc data : Bytes) : Bytes × Bytes :=
  let b := acc ++ data
  if b.length ≥ 4 then (b.take 4, b.drop 4) else (b, [])

def accumulate (v : Variant) (acc data : Bytes) : Bytes × Bytes :=
  match v with
  | .twisted => twAccumulate acc data
  | .asyncio => aioAccumulate acc data

/-- one `dataReceived(data)` / `data_received(data)` call on a connection -/
def connFeed (c : Cfg) (ph : Phase) (data : Bytes) : Phase × List Ev :=
  match ph with
  | .dead => (.dead, [])
  | .established p =>
    let t := feed (framingOf c) p data
    (phaseOf t.1, t.2)
  | .handshake acc =>
    let a := accumulate c.variant acc data
    match split4 a.1 with                       -- `len(self._handshake_bytes) == 4` / `len(self._buffer) >= 4`
    | some (o1, o2, o3, o4, _) => finishHs c o1 o2 o3 o4 a.2
    | none => (.handshake a.1, [])

def connFeedAll (c : Cfg) : Phase → List Bytes → Phase × List Ev
  | ph, [] => (ph, [])
  | ph, d :: ds =>
    let t := connFeed c ph d
    let u := connFeedAll c t.1 ds
    (u.1, t.2 ++ u.2)

def Phase.init : Phase := .handshake []

/-! ## Send side -/

inductive SendOut
  | sent (wire : Bytes)     -- octets written: prefix + payload
  | error (e : Exc)         -- exception from `ITransport.send()`, nothing written
deriving DecidableEq, Repr

/-- exception class named by the generated code (0 `PayloadExceededError`, 1 `ValueError`, else other) -/
def excOfCode : Nat → Exc
  | 0 => .payloadExceeded
  | 1 => .valueError
  | _ => .other

/-- `min(limit, C)` as the send guards write it; `cap = 0` stands for "no `min` in the source" (legacy N2) -/
def capped (limit cap : Nat) : Nat := if cap = 0 then limit else min limit cap

/-- Twisted `send()`: `max_len_send = min(self._max_len_send, 2**24 - 1); if 0 < max_len_send < payload_len: raise
PayloadExceededError` else `sendString` (`struct.pack("!I", len) + data`).
asyncio `WampRawSocketMixinGeneral.send()`: `max_length_send = min(self.max_length_send, 2**24 - 1);
if payload_len > max_length_send: raise PayloadExceededError`
(legacy F14, repaired in /repo 11645fb6: only `sendString` checked and raised `ValueError("Data too big")`; the
translator reads the class raised on this path into `aioSendOverLimitExc`). `none` = the payload goes out.
Legacy (N2, repaired in /repo 8cc5721d): the guards compared with the announced limit alone, so
with exponent 15 a payload of exactly 2^24 octets went out with prefix `01 00 00 00`. The caps are read from the source
(`twSendFrameCap`, `aioSendFrameCap`, `aioSendStringFrameCap`; 0 = no cap). -/
def sendGuard (v : Variant) (maxLenSend len : Nat) : Option Exc :=
  match v with
  | .twisted =>
    let m := capped maxLenSend WampTransport.twSendFrameCap
    if 0 < m ∧ m < len then some .payloadExceeded else none
  | .asyncio =>
    if len > capped maxLenSend WampTransport.aioSendFrameCap then some (excOfCode WampTransport.aioSendOverLimitExc) else none

/-- asyncio `PrefixProtocol.sendString(data)` called directly (the second line of defence below `send()`):
`if l > min(self.max_length_send, 2**24 - 1): raise ValueError("Data too big")`, else prefix + data are written -/
def aioSendStringGuard (maxLenSend len : Nat) : Option Exc :=
  if len > capped maxLenSend WampTransport.aioSendStringFrameCap then some .valueError else none

def send (v : Variant) (maxLenSend : Nat) (payload : Bytes) : SendOut :=
  match sendGuard v maxLenSend payload.length with
  | some e => .error e
  | none => .sent (be32enc payload.length ++ payload)

/-- the longest payload a RawSocket frame can carry: its length field has 24 bits -/
def frameMax : Nat := 16777215

/-- Spec of the send side: a payload within the peer's announced maximum *that fits the 24-bit length field* goes out as
one data frame (type octet 0, 24-bit length, payload); any other is refused with `PayloadExceededError` and nothing is
written. (Exponent 15 announces 2^24, one more than a frame can carry.) -/
def sendGuardSpec (peerMax len : Nat) : Option Exc :=
  if len ≤ peerMax ∧ len ≤ frameMax then none else some .payloadExceeded

def sendSpec (peerMax : Nat) (payload : Bytes) : SendOut :=
  match sendGuardSpec peerMax payload.length with
  | some e => .error e
  | none => .sent (encodeFrame 0 payload)

/-! ## `stringReceived` exception ladders, and the transport-gone notification -/

inductive Action | carryOn | abort
deriving DecidableEq, Repr

/-- what `stringReceived` does when `unserialize` / `session.onMessage` raises `e`
(twisted: `CancelledError` is logged and the connection continues; everything else aborts;
asyncio: `ProtocolError` and `Exception` both abort) -/
def ladder (v : Variant) (e : Exc) : Action :=
  match v, e with
  | .twisted, .cancelled => .carryOn
  | _, _ => .abort

/-- lifecycle events of one transport object -/
inductive LEv | attach | lost
deriving DecidableEq, Repr

structure LSt where
  session : Bool     -- `_session is not None`
  told : Nat         -- how often `session.onClose` was called
deriving DecidableEq, Repr

/-- `connectionLost` / `_on_connection_lost` / `onClose`: `if self._session: self._session.onClose(..)`;
`self._session = None` -/
def lstep (s : LSt) : LEv → LSt
  | .attach => { s with session := true }
  | .lost => if s.session then { session := false, told := s.told + 1 } else s

def lrun (s : LSt) (h : List LEv) : LSt := h.foldl lstep s

end Abverif.RawSocket
