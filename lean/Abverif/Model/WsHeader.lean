import Abverif.Model.Basic
/-
The rules `processData` applies to the first two header octets (in its order), with the four configuration bits and
the two facts about `len7` they use made explicit — and the RFC 6455 §5.2–5.5 / RFC 7692 §6 predicate they are
compared with.  Kept in a file of its own so that the 65 536-row table proof is rebuilt only when these change.
-/
namespace Abverif.Ws

inductive HV
  | rsv | unmasked | masked | ctlFragmented | ctlTooLong | ctlReserved | closeLen1 | ctlCompressed
  | dataReserved | contOutside | nonContInside | contCompressed
deriving DecidableEq, Repr

/-- the cascade with the four configuration bits and the two facts about `len7` it uses made explicit -/
def hvFlags (isServer requireMasked acceptMasked pmce insideMessage fin : Bool) (rsv opcode : Nat) (masked : Bool)
    (tooLong isOne : Bool) : List HV :=
  (if rsv ≠ 0 && !(pmce && rsv = 4) then [HV.rsv] else []) ++
  (if isServer && requireMasked && !masked then [HV.unmasked] else []) ++
  (if !isServer && !acceptMasked && masked then [HV.masked] else []) ++
  (if opcode > 7 then
    (if !fin then [HV.ctlFragmented] else []) ++
    (if tooLong then [HV.ctlTooLong] else []) ++
    (if !(opcode = 8 || opcode = 9 || opcode = 10) then [HV.ctlReserved] else []) ++
    (if opcode = 8 && isOne then [HV.closeLen1] else []) ++
    (if pmce && rsv = 4 then [HV.ctlCompressed] else [])
   else
    (if !(opcode = 0 || opcode = 1 || opcode = 2) then [HV.dataReserved] else []) ++
    (if !insideMessage && opcode = 0 then [HV.contOutside] else []) ++
    (if insideMessage && opcode ≠ 0 then [HV.nonContInside] else []) ++
    (if pmce && rsv = 4 && insideMessage then [HV.contCompressed] else []))

/-- RFC 6455 §5.2/§5.4/§5.5 and RFC 7692 §6 on the first two header octets (the Spec):
reserved bits zero except RSV1 on the first frame of a data message when a PMCE is negotiated; masking as the role
demands; defined opcodes only; control frames unfragmented, ≤ 125 octets, close body not of length 1;
continuation iff a message is open. -/
def okFlags (isServer requireMasked acceptMasked pmce insideMessage fin : Bool) (rsv opcode : Nat) (masked : Bool)
    (tooLong isOne : Bool) : Bool :=
  (rsv = 0 || (pmce && rsv = 4 && (opcode = 1 || opcode = 2) && !insideMessage)) &&
  (if isServer then (masked || !requireMasked) else (!masked || acceptMasked)) &&
  (opcode = 0 || opcode = 1 || opcode = 2 || opcode = 8 || opcode = 9 || opcode = 10) &&
  (opcode < 8 || (fin && !tooLong && !(opcode = 8 && isOne))) &&
  (opcode ≥ 8 || ((opcode = 0) = insideMessage))

end Abverif.Ws
