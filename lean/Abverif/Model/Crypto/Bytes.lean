import Abverif.Model.Basic
/-
C19 — byte-string helpers shared by the reference implementations of the primitives.
Import-free (core Lean only).
-/
namespace Abverif.Crypto

/-- big-endian 4 octets of a 32-bit word -/
def be32 (w : UInt32) : Bytes :=
  [(w >>> 24).toUInt8, (w >>> 16).toUInt8, (w >>> 8).toUInt8, w.toUInt8]

/-- `struct.pack(">Q", n)` for `n < 2^64` (the callers check the range) -/
def be64 (n : Nat) : Bytes :=
  [UInt8.ofNat (n / 2 ^ 56), UInt8.ofNat (n / 2 ^ 48), UInt8.ofNat (n / 2 ^ 40), UInt8.ofNat (n / 2 ^ 32),
   UInt8.ofNat (n / 2 ^ 24), UInt8.ofNat (n / 2 ^ 16), UInt8.ofNat (n / 2 ^ 8), UInt8.ofNat n]

/-- `struct.pack(">I", n)` for `n < 2^32` -/
def be32n (n : Nat) : Bytes :=
  [UInt8.ofNat (n / 2 ^ 24), UInt8.ofNat (n / 2 ^ 16), UInt8.ofNat (n / 2 ^ 8), UInt8.ofNat n]

def word (a b c d : UInt8) : UInt32 :=
  (a.toUInt32 <<< 24) ||| (b.toUInt32 <<< 16) ||| (c.toUInt32 <<< 8) ||| d.toUInt32

/-- big-endian words of a byte string whose length is a multiple of 4 (a shorter rest is dropped;
the padded messages below never have one) -/
def toWords : Bytes → List UInt32
  | a :: b :: c :: d :: rest => word a b c d :: toWords rest
  | _ => []

/-- Merkle–Damgård padding with a 64-bit big-endian bit length (SHA-1, SHA-256): `0x80`, zeros up to
56 mod 64, length. -/
def mdPad (msg : Bytes) : Bytes :=
  msg ++ 0x80 :: (List.replicate ((119 - msg.length % 64) % 64) 0 ++ be64 (8 * msg.length))

def rotl (x : UInt32) (n : UInt32) : UInt32 := (x <<< n) ||| (x >>> (32 - n))
def rotr (x : UInt32) (n : UInt32) : UInt32 := (x >>> n) ||| (x <<< (32 - n))

/-- octet-wise XOR; the result has the length of the shorter argument (callers that mirror
`autobahn.util.xor` check the lengths first) -/
def xorBytes (a b : Bytes) : Bytes := List.zipWith (· ^^^ ·) a b

/-- ASCII / Latin-1 octets of a literal -/
def ascii (s : String) : Bytes := s.toList.map (fun c => UInt8.ofNat c.toNat)

end Abverif.Crypto
