import Abverif.Model.Crypto.Sha1
import Abverif.Model.Crypto.Sha256
/-
HMAC (RFC 2104) over an arbitrary hash, and the two instances the anchored code uses.
-/
namespace Abverif.Crypto

/-- a hash function with its block size `B` and output length `L` (octets) -/
structure HashAlg where
  hash : Bytes → Bytes
  blockSize : Nat
  outLen : Nat

def sha1Alg : HashAlg := ⟨Sha1.hash, 64, 20⟩
def sha256Alg : HashAlg := ⟨Sha256.hash, 64, 32⟩

namespace Hmac

/-- RFC 2104 §2 step 1–2: keys longer than `B` are hashed, then zero-padded to `B` -/
def blockKey (A : HashAlg) (key : Bytes) : Bytes :=
  let k0 := if key.length > A.blockSize then A.hash key else key
  k0 ++ List.replicate (A.blockSize - k0.length) 0

/-- `H(K ⊕ opad ‖ H(K ⊕ ipad ‖ text))` -/
def hmac (A : HashAlg) (key msg : Bytes) : Bytes :=
  let k := blockKey A key
  A.hash (k.map (· ^^^ 0x5c) ++ A.hash (k.map (· ^^^ 0x36) ++ msg))

def sha1 (key msg : Bytes) : Bytes := hmac sha1Alg key msg
def sha256 (key msg : Bytes) : Bytes := hmac sha256Alg key msg

end Hmac
end Abverif.Crypto
