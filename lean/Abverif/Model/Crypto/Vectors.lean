import Abverif.Model.Auth
/-
C19 — TESTS OF THE REFERENCE implementations (not property theorems): the executable Lean
`Sha1`, `Sha256`, `Hmac`, `Pbkdf2`, `Base64`, `Base32`, `HexText`, `Totp` evaluated by the Lean kernel
(`decide +kernel`, no axioms beyond the audited three, no `native_decide`) on the published vectors of
RFC 3174, RFC 6234, RFC 4231, RFC 2202, RFC 6070, RFC 7914 §11, RFC 4648 §10, RFC 4226 app. D, RFC 6238 app. B.
GENERATED once by a script that also cross-checked every expected value with Python's hashlib; committed.
The long vectors (640 octets, one million 'a', PBKDF2 with 4096 iterations) are evaluated through the compiled driver by
harness/c19.py instead (kernel evaluation would take minutes).
-/
namespace Abverif.Crypto.Vectors
open Abverif Abverif.Crypto Abverif.Auth

/-- hex literal → octets (`[]` if malformed; the literals below are well-formed) -/
def hx (s : String) : Bytes := (Hex.decode s).getD []

/-- RFC 3174 TEST1 -/
theorem vec_sha1_1 : Sha1.hash (ascii "abc") = hx "a9993e364706816aba3e25717850c26c9cd0d89d" := by decide +kernel

/-- RFC 3174 TEST2 -/
theorem vec_sha1_2 : Sha1.hash (ascii "abcdbcdecdefdefgefghfghighijhijkijkljklmklmnlmnomnopnopq") = hx "84983e441c3bd26ebaae4aa1f95129e5e54670f1" := by decide +kernel

/-- FIPS 180 empty message -/
theorem vec_sha1_3 : Sha1.hash (ascii "") = hx "da39a3ee5e6b4b0d3255bfef95601890afd80709" := by decide +kernel

/-- RFC 6234 TEST1 -/
theorem vec_sha256_1 : Sha256.hash (ascii "abc") = hx "ba7816bf8f01cfea414140de5dae2223b00361a396177a9cb410ff61f20015ad" := by decide +kernel

/-- RFC 6234 TEST2 -/
theorem vec_sha256_2 : Sha256.hash (ascii "abcdbcdecdefdefgefghfghighijhijkijkljklmklmnlmnomnopnopq") = hx "248d6a61d20638b8e5c026930c3e6039a33ce45964ff2167f6ecedd419db06c1" := by decide +kernel

/-- FIPS 180 empty message -/
theorem vec_sha256_3 : Sha256.hash (ascii "") = hx "e3b0c44298fc1c149afbf4c8996fb92427ae41e4649b934ca495991b7852b855" := by decide +kernel

/-- RFC 4231 test case 1 -/
theorem vec_hmac_sha256_1 : Hmac.sha256 (List.replicate 20 0x0b) (ascii "Hi There") = hx "b0344c61d8db38535ca8afceaf0bf12b881dc200c9833da726e9376c2e32cff7" := by decide +kernel

/-- RFC 4231 test case 2 -/
theorem vec_hmac_sha256_2 : Hmac.sha256 (ascii "Jefe") (ascii "what do ya want for nothing?") = hx "5bdcc146bf60754e6a042426089575c75a003f089d2739839dec58b964ec3843" := by decide +kernel

/-- RFC 4231 test case 3 -/
theorem vec_hmac_sha256_3 : Hmac.sha256 (List.replicate 20 0xaa) (List.replicate 50 0xdd) = hx "773ea91e36800e46854db8ebd09181a72959098b3ef8c122d9635514ced565fe" := by decide +kernel

/-- RFC 4231 test case 4 -/
theorem vec_hmac_sha256_4 : Hmac.sha256 (hx "0102030405060708090a0b0c0d0e0f10111213141516171819") (List.replicate 50 0xcd) = hx "82558a389a443c0ea4cc819899f2083a85f0faa3e578f8077a2e3ff46729665b" := by decide +kernel

/-- RFC 4231 test case 6 -/
theorem vec_hmac_sha256_6 : Hmac.sha256 (List.replicate 131 0xaa) (ascii "Test Using Larger Than Block-Size Key - Hash Key First") = hx "60e431591ee0b67f0d8a26aacbf5b77f8e0bc6213728c5140546040f0ee37f54" := by decide +kernel

/-- RFC 4231 test case 7 -/
theorem vec_hmac_sha256_7 : Hmac.sha256 (List.replicate 131 0xaa) (ascii "This is a test using a larger than block-size key and a larger than block-size data. The key needs to be hashed before being used by the HMAC algorithm.") = hx "9b09ffa71b942fcb27635fbcd5b0e944bfdc63644f0713938a7f51535c3a35e2" := by decide +kernel

/-- RFC 2202 HMAC-SHA-1 test case 1 -/
theorem vec_hmac_sha1_1 : Hmac.sha1 (List.replicate 20 0x0b) (ascii "Hi There") = hx "b617318655057264e28bc0b6fb378c8ef146be00" := by decide +kernel

/-- RFC 2202 HMAC-SHA-1 test case 2 -/
theorem vec_hmac_sha1_2 : Hmac.sha1 (ascii "Jefe") (ascii "what do ya want for nothing?") = hx "effcdf6ae5eb2fa2d27416d5f184df9c259a7c79" := by decide +kernel

/-- RFC 2202 HMAC-SHA-1 test case 6 -/
theorem vec_hmac_sha1_6 : Hmac.sha1 (List.replicate 80 0xaa) (ascii "Test Using Larger Than Block-Size Key - Hash Key First") = hx "aa4ae5e15272d00e95705637ce8a3b55ed402112" := by decide +kernel

/-- RFC 6070 vector 1 -/
theorem vec_pbkdf2_sha1_1 : Pbkdf2.hmacSha1 (ascii "password") (ascii "salt") 1 20 = hx "0c60c80f961f0e71f3a9b524af6012062fe037a6" := by decide +kernel

/-- RFC 6070 vector 2 -/
theorem vec_pbkdf2_sha1_2 : Pbkdf2.hmacSha1 (ascii "password") (ascii "salt") 2 20 = hx "ea6c014dc72d6f8ccd1ed92ace1d41f0d8de8957" := by decide +kernel

/-- RFC 7914 section 11, PBKDF2-HMAC-SHA-256 (P=passwd, S=salt, c=1, dkLen=64) -/
theorem vec_pbkdf2_sha256_1 : Pbkdf2.hmacSha256 (ascii "passwd") (ascii "salt") 1 64 = hx "55ac046e56e3089fec1691c22544b605f94185216dde0465e68b9d57c20dacbc49ca9cccf179b645991664b39d77ef317c71b845b1e30bd509112041d3a19783" := by decide +kernel

/-- PBKDF2-HMAC-SHA-256 password/salt c=2 dkLen=32 (widely published companion of RFC 6070: ae4d0c95…) -/
theorem vec_pbkdf2_sha256_2 : Pbkdf2.hmacSha256 (ascii "password") (ascii "salt") 2 32 = hx "ae4d0c95af6b46d32d0adff928f06dd02a303f8ef3c251dfd6e2d85a95474c43" := by decide +kernel

/-- RFC 4648 section 10 -/
theorem vec_base64_0 : (Base64.encode (ascii ""), Base64.pyDecode (ascii "")) = (ascii "", some (ascii "")) := by decide +kernel

/-- RFC 4648 section 10 -/
theorem vec_base32_0 : (Base32.encode (ascii ""), Base32.pyDecode (ascii "")) = (ascii "", some (ascii "")) := by decide +kernel

/-- RFC 4648 section 10 -/
theorem vec_base64_1 : (Base64.encode (ascii "f"), Base64.pyDecode (ascii "Zg==")) = (ascii "Zg==", some (ascii "f")) := by decide +kernel

/-- RFC 4648 section 10 -/
theorem vec_base32_1 : (Base32.encode (ascii "f"), Base32.pyDecode (ascii "MY======")) = (ascii "MY======", some (ascii "f")) := by decide +kernel

/-- RFC 4648 section 10 -/
theorem vec_base64_2 : (Base64.encode (ascii "fo"), Base64.pyDecode (ascii "Zm8=")) = (ascii "Zm8=", some (ascii "fo")) := by decide +kernel

/-- RFC 4648 section 10 -/
theorem vec_base32_2 : (Base32.encode (ascii "fo"), Base32.pyDecode (ascii "MZXQ====")) = (ascii "MZXQ====", some (ascii "fo")) := by decide +kernel

/-- RFC 4648 section 10 -/
theorem vec_base64_3 : (Base64.encode (ascii "foo"), Base64.pyDecode (ascii "Zm9v")) = (ascii "Zm9v", some (ascii "foo")) := by decide +kernel

/-- RFC 4648 section 10 -/
theorem vec_base32_3 : (Base32.encode (ascii "foo"), Base32.pyDecode (ascii "MZXW6===")) = (ascii "MZXW6===", some (ascii "foo")) := by decide +kernel

/-- RFC 4648 section 10 -/
theorem vec_base64_4 : (Base64.encode (ascii "foob"), Base64.pyDecode (ascii "Zm9vYg==")) = (ascii "Zm9vYg==", some (ascii "foob")) := by decide +kernel

/-- RFC 4648 section 10 -/
theorem vec_base32_4 : (Base32.encode (ascii "foob"), Base32.pyDecode (ascii "MZXW6YQ=")) = (ascii "MZXW6YQ=", some (ascii "foob")) := by decide +kernel

/-- RFC 4648 section 10 -/
theorem vec_base64_5 : (Base64.encode (ascii "fooba"), Base64.pyDecode (ascii "Zm9vYmE=")) = (ascii "Zm9vYmE=", some (ascii "fooba")) := by decide +kernel

/-- RFC 4648 section 10 -/
theorem vec_base32_5 : (Base32.encode (ascii "fooba"), Base32.pyDecode (ascii "MZXW6YTB")) = (ascii "MZXW6YTB", some (ascii "fooba")) := by decide +kernel

/-- RFC 4648 section 10 -/
theorem vec_base64_6 : (Base64.encode (ascii "foobar"), Base64.pyDecode (ascii "Zm9vYmFy")) = (ascii "Zm9vYmFy", some (ascii "foobar")) := by decide +kernel

/-- RFC 4648 section 10 -/
theorem vec_base32_6 : (Base32.encode (ascii "foobar"), Base32.pyDecode (ascii "MZXW6YTBOI======")) = (ascii "MZXW6YTBOI======", some (ascii "foobar")) := by decide +kernel

/-- binascii.b2a_hex / a2b_hex -/
theorem vec_hex_1 : (HexText.encode (hx "00ff10a5"), HexText.decode (ascii "00Ff10a5"), HexText.decode (ascii "0"), HexText.decode (ascii "0g")) = (ascii "00ff10a5", some (hx "00ff10a5"), none, none) := by decide +kernel

/-- RFC 4226 appendix D: the ten HOTP values for counters 0..9 -/
theorem vec_hotp_rfc4226 : (List.range 10).map (fun c => Totp.compute (ascii "12345678901234567890") c) = [ascii "755224", ascii "287082", ascii "359152", ascii "969429", ascii "338314", ascii "254676", ascii "287922", ascii "162583", ascii "399871", ascii "520489"] := by decide +kernel

/-- RFC 4226 appendix D: intermediate truncated value for counter 0 (0x4c93cf18) -/
theorem vec_hotp_dt_rfc4226 : Totp.dt (Hmac.sha1 (ascii "12345678901234567890") (be64 0)) = 1284755224 := by decide +kernel

/-- RFC 6238 appendix B, SHA-1 rows: the 8-digit values at the six test times -/
theorem vec_totp_rfc6238_8digits : [59, 1111111109, 1111111111, 1234567890, 2000000000, 20000000000].map (fun t => Totp.dt (Hmac.sha1 (ascii "12345678901234567890") (be64 (t / 30))) % 100000000) = [94287082, 7081804, 14050471, 89005924, 69279037, 65353130] := by decide +kernel

/-- the first two rows through `computeAt` (base32 secret, 6 digits = the low six digits of the RFC values) -/
theorem vec_totp_rfc6238_6digits : [59, 1111111109].map (fun t => (Totp.computeAt (ascii "GEZDGNBVGY3TQOJQGEZDGNBVGY3TQOJQ") t 0).toOption) = [some (ascii "287082"), some (ascii "081804")] := by decide +kernel

end Abverif.Crypto.Vectors
