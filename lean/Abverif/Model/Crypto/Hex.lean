import Abverif.Model.Crypto.Bytes
/-
Hex text as ASCII octets: `binascii.b2a_hex` (lower case) and `binascii.a2b_hex`
(either case, even length; `none` = `binascii.Error`).
-/
namespace Abverif.Crypto.HexText
open Abverif.Crypto

def digit (n : Nat) : UInt8 := if n < 10 then UInt8.ofNat (48 + n) else UInt8.ofNat (87 + n)

def encode : Bytes → Bytes
  | [] => []
  | b :: bs => digit (b.toNat / 16) :: digit (b.toNat % 16) :: encode bs

def val (c : UInt8) : Option Nat :=
  let n := c.toNat
  if 48 ≤ n ∧ n ≤ 57 then some (n - 48)
  else if 97 ≤ n ∧ n ≤ 102 then some (n - 87)
  else if 65 ≤ n ∧ n ≤ 70 then some (n - 55)
  else none

def decode : Bytes → Option Bytes
  | [] => some []
  | [_] => none
  | a :: b :: rest =>
    match val a, val b, decode rest with
    | some x, some y, some r => some (UInt8.ofNat (x * 16 + y) :: r)
    | _, _, _ => none

end Abverif.Crypto.HexText
