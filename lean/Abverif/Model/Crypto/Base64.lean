import Abverif.Model.Crypto.Bytes
/-
Base64 (RFC 4648 §4). Text is modelled as its ASCII octets (`Bytes`).

* `encode`  = `binascii.b2a_base64(x).strip()` = `base64.b64encode(x)` (standard alphabet, padded)
* `pyDecode` = `binascii.a2b_base64(s)` in its default, non-strict mode as CPython 3.12 implements it
  (this is what `base64.b64decode(s)` calls): characters outside the alphabet are skipped, a pad
  character ends the input once the current quad is complete, left-over bits are dropped,
  an incomplete quad at the end is an error. Arithmetic is written with `/ % * +` on `Nat`
  instead of shifts and masks (equal on the ranges that occur; this keeps the round-trip
  theorem within `omega`).
* `decodeStr` = `base64.b64decode(s)` for a `str` argument: non-ASCII characters raise `ValueError` first.
-/
namespace Abverif.Crypto.Base64
open Abverif.Crypto

/-- the alphabet character of a sextet `n < 64` -/
def encChar (n : Nat) : UInt8 :=
  if n < 26 then UInt8.ofNat (65 + n)
  else if n < 52 then UInt8.ofNat (71 + n)       -- 'a' = 97 = 71 + 26
  else if n < 62 then UInt8.ofNat (n - 4)        -- '0' = 48 = 52 - 4
  else if n = 62 then 43 else 47                  -- '+', '/'

/-- sextet of an alphabet character (`table_a2b_base64`) -/
def val (c : UInt8) : Option Nat :=
  let n := c.toNat
  if 65 ≤ n ∧ n ≤ 90 then some (n - 65)
  else if 97 ≤ n ∧ n ≤ 122 then some (n - 71)
  else if 48 ≤ n ∧ n ≤ 57 then some (n + 4)
  else if n = 43 then some 62
  else if n = 47 then some 63
  else none

def pad : UInt8 := 61

def encode : Bytes → Bytes
  | [] => []
  | [a] => [encChar (a.toNat / 4), encChar (a.toNat % 4 * 16), pad, pad]
  | [a, b] => [encChar (a.toNat / 4), encChar (a.toNat % 4 * 16 + b.toNat / 16), encChar (b.toNat % 16 * 4), pad]
  | a :: b :: c :: rest =>
    encChar (a.toNat / 4) :: encChar (a.toNat % 4 * 16 + b.toNat / 16)
      :: encChar (b.toNat % 16 * 4 + c.toNat / 64) :: encChar (c.toNat % 64) :: encode rest

/-- the non-strict CPython decoder loop. `qp` = `quad_pos`, `left` = `leftchar`, `pads` = `pads`. -/
def dec : Nat → Nat → Nat → Bytes → Option Bytes
  | qp, _, _, [] => if qp = 0 then some [] else none
  | qp, left, pads, c :: cs =>
    if c = pad then
      if qp ≥ 2 then
        (if qp + (pads + 1) ≥ 4 then some [] else dec qp left (pads + 1) cs)
      else dec qp left pads cs
    else
      match val c with
      | none => dec qp left pads cs
      | some v =>
        match qp with
        | 0 => dec 1 v 0 cs
        | 1 => (dec 2 (v % 16) 0 cs).map (UInt8.ofNat (left * 4 + v / 16) :: ·)
        | 2 => (dec 3 (v % 4) 0 cs).map (UInt8.ofNat (left * 16 + v / 4) :: ·)
        | _ => (dec 0 0 0 cs).map (UInt8.ofNat (left * 64 + v) :: ·)

/-- `binascii.a2b_base64(s)`; `none` = `binascii.Error` -/
def pyDecode (s : Bytes) : Option Bytes := dec 0 0 0 s

inductive DecodeResult where
  | ok (b : Bytes)
  | binasciiError
  | valueError
deriving Repr, DecidableEq

/-- `base64.b64decode(s)` for a `str` whose code points (≤ 255 here) are given as octets -/
def decodeStr (s : Bytes) : DecodeResult :=
  if s.any (· ≥ 128) then .valueError
  else match pyDecode s with
    | some b => .ok b
    | none => .binasciiError

end Abverif.Crypto.Base64
