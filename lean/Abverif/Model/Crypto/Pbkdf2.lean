import Abverif.Model.Crypto.Hmac
/-
PBKDF2 (RFC 8018 §5.2 / RFC 2898) over an arbitrary PRF with output length `hLen`.
-/
namespace Abverif.Crypto.Pbkdf2
open Abverif.Crypto

/-- `U_2 … U_c` folded into the accumulator: `n` further iterations from `u` -/
def iter (prf : Bytes → Bytes → Bytes) (pw : Bytes) : Nat → Bytes → Bytes → Bytes
  | 0, _, acc => acc
  | n + 1, u, acc =>
    let u' := prf pw u
    iter prf pw n u' (xorBytes acc u')

/-- `F(P, S, c, i) = U_1 ⊕ … ⊕ U_c`, `U_1 = PRF(P, S ‖ INT(i))` (for `c ≥ 1`) -/
def block (prf : Bytes → Bytes → Bytes) (pw salt : Bytes) (c i : Nat) : Bytes :=
  let u1 := prf pw (salt ++ be32n i)
  iter prf pw (c - 1) u1 u1

/-- `T_1 ‖ … ‖ T_l` truncated to `dkLen`, `l = ⌈dkLen / hLen⌉` -/
def derive (prf : Bytes → Bytes → Bytes) (hLen : Nat) (pw salt : Bytes) (c dkLen : Nat) : Bytes :=
  (((List.range ((dkLen + hLen - 1) / hLen)).map (fun i => block prf pw salt c (i + 1))).flatten).take dkLen

def hmacSha256 (pw salt : Bytes) (c dkLen : Nat) : Bytes := derive Hmac.sha256 32 pw salt c dkLen
def hmacSha1 (pw salt : Bytes) (c dkLen : Nat) : Bytes := derive Hmac.sha1 20 pw salt c dkLen

end Abverif.Crypto.Pbkdf2
