import Abverif.Model.Auth
/-
C19 — (Hotp) TESTS OF THE REFERENCE implementations (not property theorems): the executable Lean
`Sha1`, `Sha256`, `Hmac`, `Pbkdf2`, `Base64`, `Base32`, `HexText`, `Totp` evaluated by the Lean kernel
(`decide +kernel`, no axioms beyond the audited three, no `native_decide`) on the published vectors of
RFC 3174, RFC 6234, RFC 4231, RFC 2202, RFC 6070, RFC 7914 §11, RFC 4648 §10, RFC 4226 app. D, RFC 6238 app. B.
All octet strings are written as explicit lists (string literals are slow to evaluate in the kernel; the text is
shown in a comment next to each). GENERATED once by a script that also cross-checked every expected value with Python's hashlib; committed.
The long vectors (640 octets, one million 'a', PBKDF2 with 4096 iterations) are evaluated through the compiled driver by
harness/c19.py instead (kernel evaluation would take minutes).
-/
namespace Abverif.Crypto.Vectors
open Abverif Abverif.Crypto Abverif.Auth

/-- RFC 4226 appendix D: the ten HOTP values for counters 0..9 -/
theorem vec_hotp_rfc4226 : (List.range 10).map (fun c => Totp.compute ((/- "12345678901234567890" -/ [0x31, 0x32, 0x33, 0x34, 0x35, 0x36, 0x37, 0x38, 0x39, 0x30, 0x31, 0x32, 0x33, 0x34, 0x35, 0x36, 0x37, 0x38, 0x39, 0x30])) c) = [(/- "755224" -/ [0x37, 0x35, 0x35, 0x32, 0x32, 0x34]), (/- "287082" -/ [0x32, 0x38, 0x37, 0x30, 0x38, 0x32]), (/- "359152" -/ [0x33, 0x35, 0x39, 0x31, 0x35, 0x32]), (/- "969429" -/ [0x39, 0x36, 0x39, 0x34, 0x32, 0x39]), (/- "338314" -/ [0x33, 0x33, 0x38, 0x33, 0x31, 0x34]), (/- "254676" -/ [0x32, 0x35, 0x34, 0x36, 0x37, 0x36]), (/- "287922" -/ [0x32, 0x38, 0x37, 0x39, 0x32, 0x32]), (/- "162583" -/ [0x31, 0x36, 0x32, 0x35, 0x38, 0x33]), (/- "399871" -/ [0x33, 0x39, 0x39, 0x38, 0x37, 0x31]), (/- "520489" -/ [0x35, 0x32, 0x30, 0x34, 0x38, 0x39])] := by decide +kernel

/-- RFC 4226 appendix D: intermediate truncated value for counter 0 (0x4c93cf18) -/
theorem vec_hotp_dt_rfc4226 : Totp.dt (Hmac.sha1 ((/- "12345678901234567890" -/ [0x31, 0x32, 0x33, 0x34, 0x35, 0x36, 0x37, 0x38, 0x39, 0x30, 0x31, 0x32, 0x33, 0x34, 0x35, 0x36, 0x37, 0x38, 0x39, 0x30])) (be64 0)) = 1284755224 := by decide +kernel

end Abverif.Crypto.Vectors
