import Abverif.Model.Auth
/-
C19 — (Totp) TESTS OF THE REFERENCE implementations (not property theorems): the executable Lean
`Sha1`, `Sha256`, `Hmac`, `Pbkdf2`, `Base64`, `Base32`, `HexText`, `Totp` evaluated by the Lean kernel
(`decide +kernel`, no axioms beyond the audited three, no `native_decide`) on the published vectors of
RFC 3174, RFC 6234, RFC 4231, RFC 2202, RFC 6070, RFC 7914 §11, RFC 4648 §10, RFC 4226 app. D, RFC 6238 app. B.
All octet strings are written as explicit lists (string literals are slow to evaluate in the kernel; the text is
shown in a comment next to each). GENERATED once by a script that also cross-checked every expected value with Python's hashlib; committed.
The long vectors (640 octets, one million 'a', PBKDF2 with 4096 iterations) are evaluated through the compiled driver by
harness/c19.py instead (kernel evaluation would take minutes).
-/
namespace Abverif.Crypto.Vectors
open Abverif Abverif.Crypto Abverif.Auth

/-- RFC 6238 appendix B, SHA-1 rows: the 8-digit values at the six test times -/
theorem vec_totp_rfc6238_8digits : [59, 1111111109, 1111111111, 1234567890, 2000000000, 20000000000].map (fun t => Totp.dt (Hmac.sha1 ((/- "12345678901234567890" -/ [0x31, 0x32, 0x33, 0x34, 0x35, 0x36, 0x37, 0x38, 0x39, 0x30, 0x31, 0x32, 0x33, 0x34, 0x35, 0x36, 0x37, 0x38, 0x39, 0x30])) (be64 (t / 30))) % 100000000) = [94287082, 7081804, 14050471, 89005924, 69279037, 65353130] := by decide +kernel

/-- the first two rows through `computeAt` (base32 secret, 6 digits = the low six digits of the RFC values) -/
theorem vec_totp_rfc6238_6digits : [59, 1111111109].map (fun t => (Totp.computeAt ((/- "GEZDGNBVGY3TQOJQGEZDGNBVGY3TQOJQ" -/ [0x47, 0x45, 0x5a, 0x44, 0x47, 0x4e, 0x42, 0x56, 0x47, 0x59, 0x33, 0x54, 0x51, 0x4f, 0x4a, 0x51, 0x47, 0x45, 0x5a, 0x44, 0x47, 0x4e, 0x42, 0x56, 0x47, 0x59, 0x33, 0x54, 0x51, 0x4f, 0x4a, 0x51])) t 0).toOption) = [some ((/- "287082" -/ [0x32, 0x38, 0x37, 0x30, 0x38, 0x32])), some ((/- "081804" -/ [0x30, 0x38, 0x31, 0x38, 0x30, 0x34]))] := by decide +kernel

end Abverif.Crypto.Vectors
