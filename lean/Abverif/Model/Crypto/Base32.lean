import Abverif.Model.Crypto.Bytes
/-
Base32 (RFC 4648 §6), text as ASCII octets.
* `encode`   = `base64.b32encode`
* `pyDecode` = `base64.b32decode(s)` (casefold=False) as CPython 3.12's `_b32decode` does it:
  length must be a multiple of 8, all trailing `=` stripped and counted, every remaining character
  must be in `A–Z2–7`, the pad count must be one of 0,1,3,4,6; the last quantum is shifted as if
  padded with zeros and cut to `(43 − 5·pads) / 8` octets.
-/
namespace Abverif.Crypto.Base32
open Abverif.Crypto

def encChar (n : Nat) : UInt8 := if n < 26 then UInt8.ofNat (65 + n) else UInt8.ofNat (24 + n)

def val (c : UInt8) : Option Nat :=
  let n := c.toNat
  if 65 ≤ n ∧ n ≤ 90 then some (n - 65)
  else if 50 ≤ n ∧ n ≤ 55 then some (n - 24)
  else none

def pad : UInt8 := 61

/-- the 40-bit number of up to 5 octets (missing ones count as zero) and how many there were -/
def group (bs : Bytes) : Nat := (bs ++ List.replicate (5 - bs.length) 0).foldl (fun (a : Nat) (b : UInt8) => a * 256 + b.toNat) 0

def chars8 (n : Nat) : Bytes :=
  [encChar (n / 2 ^ 35 % 32), encChar (n / 2 ^ 30 % 32), encChar (n / 2 ^ 25 % 32), encChar (n / 2 ^ 20 % 32),
   encChar (n / 2 ^ 15 % 32), encChar (n / 2 ^ 10 % 32), encChar (n / 2 ^ 5 % 32), encChar (n % 32)]

/-- number of significant characters for a last group of 1..4 octets: 2, 4, 5, 7 -/
def sigChars (k : Nat) : Nat := (8 * k + 4) / 5

def encodeFuel : Nat → Bytes → Bytes
  | 0, _ => []
  | fuel + 1, bs =>
    if bs.isEmpty then []
    else if bs.length ≥ 5 then chars8 (group (bs.take 5)) ++ encodeFuel fuel (bs.drop 5)
    else (chars8 (group bs)).take (sigChars bs.length) ++ List.replicate (8 - sigChars bs.length) pad

def encode (bs : Bytes) : Bytes := encodeFuel (bs.length + 1) bs

def to5 (n : Nat) : Bytes :=
  [UInt8.ofNat (n / 2 ^ 32), UInt8.ofNat (n / 2 ^ 24), UInt8.ofNat (n / 2 ^ 16), UInt8.ofNat (n / 2 ^ 8), UInt8.ofNat n]

def rstripPad (s : Bytes) : Bytes := (s.reverse.dropWhile (· = pad)).reverse

/-- `acc = (acc << 5) + b32rev[c]` over one quantum; `none` = non-base32 digit -/
def accum (q : Bytes) : Option Nat :=
  q.foldlM (fun acc c => (val c).map (fun v => acc * 32 + v)) 0

/-- the per-quantum accumulators of the stripped text -/
def quanta : Nat → Bytes → Option (List Nat)
  | 0, _ => some []
  | fuel + 1, s =>
    if s.isEmpty then some []
    else do
      let a ← accum (s.take 8)
      let r ← quanta fuel (s.drop 8)
      pure (a :: r)

/-- `base64.b32decode(s)`; `none` = `binascii.Error` -/
def pyDecode (s : Bytes) : Option Bytes :=
  if s.length % 8 ≠ 0 then none
  else
    let body := rstripPad s
    let padchars := s.length - body.length
    match quanta (body.length + 1) body with
    | none => none
    | some accs =>
      if ¬ (padchars = 0 ∨ padchars = 1 ∨ padchars = 3 ∨ padchars = 4 ∨ padchars = 6) then none
      else
        let decoded := accs.flatMap to5
        if padchars ≠ 0 ∧ ¬ decoded.isEmpty then
          let last := accs.getLast?.getD 0 * 2 ^ (5 * padchars)
          some (decoded.take (decoded.length - 5) ++ (to5 last).take ((43 - 5 * padchars) / 8))
        else some decoded

end Abverif.Crypto.Base32
