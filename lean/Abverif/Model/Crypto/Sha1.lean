import Abverif.Model.Crypto.Bytes
/-
Reference SHA-1 (FIPS 180-4 / RFC 3174) over `Bytes`. Structural recursion only.
-/
namespace Abverif.Crypto.Sha1
open Abverif.Crypto

structure State where
  a : UInt32
  b : UInt32
  c : UInt32
  d : UInt32
  e : UInt32

def init : State := ⟨0x67452301, 0xefcdab89, 0x98badcfe, 0x10325476, 0xc3d2e1f0⟩

/-- `f(t; B, C, D)` and `K(t)` of RFC 3174 §5 -/
def f (t : Nat) (b c d : UInt32) : UInt32 :=
  if t < 20 then (b &&& c) ||| (~~~b &&& d)
  else if t < 40 then b ^^^ c ^^^ d
  else if t < 60 then (b &&& c) ||| (b &&& d) ||| (c &&& d)
  else b ^^^ c ^^^ d

def k (t : Nat) : UInt32 :=
  if t < 20 then 0x5a827999 else if t < 40 then 0x6ed9eba1 else if t < 60 then 0x8f1bbcdc else 0xca62c1d6

def round (s : State) (t : Nat) (w : UInt32) : State :=
  ⟨rotl s.a 5 + f t s.b s.c s.d + s.e + w + k t, s.a, rotl s.b 30, s.c, s.d⟩

/-- `n` rounds starting at round `t`; the schedule is a sliding window of the last 16 words:
`W[t+16] = rotl1 (W[t+13] ^ W[t+8] ^ W[t+2] ^ W[t])`. -/
def rounds : Nat → Nat → List UInt32 → State → State
  | 0, _, _, s => s
  | n + 1, t, win, s =>
    match win with
    | w0 :: w1 :: w2 :: w3 :: w4 :: w5 :: w6 :: w7 :: w8 :: w9 :: w10 :: w11 :: w12 :: w13 :: w14 :: w15 :: _ =>
      rounds n (t + 1) [w1, w2, w3, w4, w5, w6, w7, w8, w9, w10, w11, w12, w13, w14, w15,
                        rotl (w13 ^^^ w8 ^^^ w2 ^^^ w0) 1] (round s t w0)
    | _ => s

def compress (s : State) (block : List UInt32) : State :=
  let r := rounds 80 0 block s
  ⟨s.a + r.a, s.b + r.b, s.c + r.c, s.d + r.d, s.e + r.e⟩

def blocks : Nat → List UInt32 → State → State
  | 0, _, s => s
  | n + 1, ws, s => blocks n (ws.drop 16) (compress s (ws.take 16))

def State.toBytes (s : State) : Bytes :=
  be32 s.a ++ be32 s.b ++ be32 s.c ++ be32 s.d ++ be32 s.e

def hash (msg : Bytes) : Bytes :=
  let ws := toWords (mdPad msg)
  (blocks (ws.length / 16) ws init).toBytes

end Abverif.Crypto.Sha1
