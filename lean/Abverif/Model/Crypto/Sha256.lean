import Abverif.Model.Crypto.Bytes
/-
Reference SHA-256 (FIPS 180-4 / RFC 6234) over `Bytes`. Structural recursion only, so that the
kernel can evaluate it on the RFC vectors (Model/Crypto/Vectors.lean).
-/
namespace Abverif.Crypto.Sha256
open Abverif.Crypto

def K : List UInt32 := [
  0x428a2f98, 0x71374491, 0xb5c0fbcf, 0xe9b5dba5, 0x3956c25b, 0x59f111f1, 0x923f82a4, 0xab1c5ed5,
  0xd807aa98, 0x12835b01, 0x243185be, 0x550c7dc3, 0x72be5d74, 0x80deb1fe, 0x9bdc06a7, 0xc19bf174,
  0xe49b69c1, 0xefbe4786, 0x0fc19dc6, 0x240ca1cc, 0x2de92c6f, 0x4a7484aa, 0x5cb0a9dc, 0x76f988da,
  0x983e5152, 0xa831c66d, 0xb00327c8, 0xbf597fc7, 0xc6e00bf3, 0xd5a79147, 0x06ca6351, 0x14292967,
  0x27b70a85, 0x2e1b2138, 0x4d2c6dfc, 0x53380d13, 0x650a7354, 0x766a0abb, 0x81c2c92e, 0x92722c85,
  0xa2bfe8a1, 0xa81a664b, 0xc24b8b70, 0xc76c51a3, 0xd192e819, 0xd6990624, 0xf40e3585, 0x106aa070,
  0x19a4c116, 0x1e376c08, 0x2748774c, 0x34b0bcb5, 0x391c0cb3, 0x4ed8aa4a, 0x5b9cca4f, 0x682e6ff3,
  0x748f82ee, 0x78a5636f, 0x84c87814, 0x8cc70208, 0x90befffa, 0xa4506ceb, 0xbef9a3f7, 0xc67178f2]

structure State where
  a : UInt32
  b : UInt32
  c : UInt32
  d : UInt32
  e : UInt32
  f : UInt32
  g : UInt32
  h : UInt32

def init : State :=
  ⟨0x6a09e667, 0xbb67ae85, 0x3c6ef372, 0xa54ff53a, 0x510e527f, 0x9b05688c, 0x1f83d9ab, 0x5be0cd19⟩

def bsig0 (x : UInt32) : UInt32 := rotr x 2 ^^^ rotr x 13 ^^^ rotr x 22
def bsig1 (x : UInt32) : UInt32 := rotr x 6 ^^^ rotr x 11 ^^^ rotr x 25
def ssig0 (x : UInt32) : UInt32 := rotr x 7 ^^^ rotr x 18 ^^^ (x >>> 3)
def ssig1 (x : UInt32) : UInt32 := rotr x 17 ^^^ rotr x 19 ^^^ (x >>> 10)
def ch (x y z : UInt32) : UInt32 := (x &&& y) ^^^ (~~~x &&& z)
def maj (x y z : UInt32) : UInt32 := (x &&& y) ^^^ (x &&& z) ^^^ (y &&& z)

/-- one round: the working variables, the word `w` of the schedule and the constant `k` -/
def round (s : State) (w k : UInt32) : State :=
  let t1 := s.h + bsig1 s.e + ch s.e s.f s.g + k + w
  let t2 := bsig0 s.a + maj s.a s.b s.c
  ⟨t1 + t2, s.a, s.b, s.c, s.d + t1, s.e, s.f, s.g⟩

/-- the 64 rounds; the message schedule is a sliding window of the last 16 words:
`W[t+16] = ssig1 W[t+14] + W[t+9] + ssig0 W[t+1] + W[t]`. -/
def rounds : List UInt32 → List UInt32 → State → State
  | [], _, s => s
  | k :: ks, win, s =>
    match win with
    | w0 :: w1 :: w2 :: w3 :: w4 :: w5 :: w6 :: w7 :: w8 :: w9 :: w10 :: w11 :: w12 :: w13 :: w14 :: w15 :: _ =>
      rounds ks [w1, w2, w3, w4, w5, w6, w7, w8, w9, w10, w11, w12, w13, w14, w15,
                 ssig1 w14 + w9 + ssig0 w1 + w0] (round s w0 k)
    | _ => s

def compress (s : State) (block : List UInt32) : State :=
  let r := rounds K block s
  ⟨s.a + r.a, s.b + r.b, s.c + r.c, s.d + r.d, s.e + r.e, s.f + r.f, s.g + r.g, s.h + r.h⟩

/-- all blocks of 16 words; `n` = number of blocks -/
def blocks : Nat → List UInt32 → State → State
  | 0, _, s => s
  | n + 1, ws, s => blocks n (ws.drop 16) (compress s (ws.take 16))

def State.toBytes (s : State) : Bytes :=
  be32 s.a ++ be32 s.b ++ be32 s.c ++ be32 s.d ++ be32 s.e ++ be32 s.f ++ be32 s.g ++ be32 s.h

def hash (msg : Bytes) : Bytes :=
  let ws := toWords (mdPad msg)
  (blocks (ws.length / 16) ws init).toBytes

end Abverif.Crypto.Sha256
