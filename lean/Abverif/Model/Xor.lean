import Abverif.Model.Basic
/-
C15 — frame masking. Spec and four executable models:
  * `simple`      : `XorMaskerSimple.process`   (websocket/xormasker.py) and
                    `_nvx_xormask_process_simple` (nvx/_xormasker.c)
  * `shifted1`    : `XorMaskerShifted1.process` (websocket/xormasker.py)
  * `sse2`        : `_nvx_xormask_process_sse2` (nvx/_xormasker.c); the buffer address enters
                    as `align = (uintptr_t)data`
  * `create`      : `create_xor_masker(mask, length)` selection at 128
-/
namespace Abverif.Xor

structure Key where
  k0 : UInt8
  k1 : UInt8
  k2 : UInt8
  k3 : UInt8
deriving Repr, DecidableEq

/-- `mask[i]` for `i < 4`; the callers below always index with `… &&& 3` or `… % 4`. -/
def Key.get (k : Key) (i : Nat) : UInt8 :=
  match i % 4 with
  | 0 => k.k0
  | 1 => k.k1
  | 2 => k.k2
  | _ => k.k3

/-! ## Spec: byte `i` of the payload is XORed with `key[(p + i) mod 4]`. -/

def specBytes (k : Key) : Nat → Bytes → Bytes
  | _, [] => []
  | p, b :: bs => (b ^^^ k.get (p % 4)) :: specBytes k (p + 1) bs

def spec (k : Key) (p : Nat) (d : Bytes) : Bytes × Nat := (specBytes k p d, p + d.length)

/-! ## `XorMaskerSimple.process` / `_nvx_xormask_process_simple`
`for k in range(dlen): payload[k] ^= msk[ptr & 3]; ptr += 1` -/

def simpleLoop (k : Key) : Nat → Bytes → Bytes → Bytes × Nat
  | ptr, acc, [] => (acc.reverse, ptr)
  | ptr, acc, b :: bs => simpleLoop k (ptr + 1) ((b ^^^ k.get (ptr &&& 3)) :: acc) bs

def simple (k : Key) (ptr : Nat) (d : Bytes) : Bytes × Nat := simpleLoop k ptr [] d

/-! ## `XorMaskerShifted1`
`_mskarray[r][j] = mask[(j + r) & 3]`; `msk = _mskarray[ptr & 3]`; `payload[k] ^= msk[k & 3]`;
`ptr += dlen`. -/

def mskarray (k : Key) (r : Nat) (j : Nat) : UInt8 := k.get ((j + r) &&& 3)

def shiftedLoop (k : Key) (r : Nat) : Nat → Bytes → Bytes
  | _, [] => []
  | i, b :: bs => (b ^^^ mskarray k r (i &&& 3)) :: shiftedLoop k r (i + 1) bs

def shifted1 (k : Key) (ptr : Nat) (d : Bytes) : Bytes × Nat :=
  (shiftedLoop k (ptr &&& 3) 0 d, ptr + d.length)

/-! ## `_nvx_xormask_process_sse2` -/

/-- `mask16_bytes[i] = mask[(ptr + i) & 3]`, `i = 0..15`. -/
def pattern16 (k : Key) (ptr : Nat) : Bytes :=
  (List.range 16).map (fun i => k.get ((ptr + i) &&& 3))

/-- `_mm_xor_si128` on one 16-byte block. -/
def xorBlock (blk pat : Bytes) : Bytes := List.zipWith (· ^^^ ·) blk pat

/-- the aligned middle: `chunks` blocks of 16 bytes, all XORed with the same pattern. -/
def sse2Body (pat : Bytes) : Nat → Bytes → Bytes
  | 0, _ => []
  | n + 1, d => xorBlock (d.take 16) pat ++ sse2Body pat n (d.drop 16)

def sse2 (k : Key) (ptr : Nat) (align : Nat) (d : Bytes) : Bytes × Nat :=
  let length := d.length
  -- head
  let h0 := align % 16
  let headLen :=
    if length ≥ 16 then
      (if h0 ≠ 0 then (if 16 - h0 > length then length else 16 - h0) else 0)
    else 0
  let (headOut, ptr1) := simple k ptr (d.take headLen)
  let rest := d.drop headLen
  let pat := pattern16 k ptr1
  let chunks := rest.length / 16
  let body := sse2Body pat chunks rest
  let ptr2 := ptr1 + chunks * 16
  let (tailOut, ptr3) := simple k ptr2 (rest.drop (chunks * 16))
  (headOut ++ body ++ tailOut, ptr3)

/-! ## `create_xor_masker(mask, length)` (pure-Python selection) -/

inductive Impl | simple | shifted1
deriving Repr, DecidableEq

def create (length : Option Nat) : Impl :=
  match length with
  | none => .simple
  | some n => if n < 128 then .simple else .shifted1

def process (i : Impl) (k : Key) (ptr : Nat) (d : Bytes) : Bytes × Nat :=
  match i with
  | .simple => simple k ptr d
  | .shifted1 => shifted1 k ptr d

/-- a stream of `process` calls on one masker object -/
def processAll (f : Key → Nat → Bytes → Bytes × Nat) (k : Key) : Nat → List Bytes → List Bytes × Nat
  | p, [] => ([], p)
  | p, c :: cs =>
    let (o, p1) := f k p c
    let (os, p2) := processAll f k p1 cs
    (o :: os, p2)

end Abverif.Xor
