import Abverif.Model.Http
/-!
C07 — the part of `urllib.parse.urlsplit` (CPython 3.12) the handshake depends on, on Latin-1 strings:
scheme detection, netloc extraction, bracket rules, fragment / query split, `hostname`, `port`;
`_url_to_origin` and `_is_same_origin` of `autobahn.websocket.protocol`.

NOT modelled (an input, `brOk`): whether the text between `[` and `]` of a netloc is an IPv6 / IPvFuture literal
(`ipaddress` internals).  `_checknetloc` (NFKC) never raises on Latin-1 input — checked exhaustively per character
by the harness, not proved.
-/
namespace Abverif.Url
open Abverif Abverif.Http

structure Split where
  scheme : Bytes
  netloc : Bytes
  path : Bytes
  query : Bytes
  fragment : Bytes
deriving DecidableEq, Repr

def isSchemeChar (c : UInt8) : Bool :=
  isAlphaAscii c || isDigit c || c == 43 || c == 45 || c == 46

/-- `url.lstrip(C0 control or space)` then removal of TAB / CR / LF anywhere -/
def sanitize (url : Bytes) : Bytes :=
  (url.dropWhile (· ≤ 32)).filter (fun c => !(c == 9 || c == 10 || c == 13))

/-- (scheme, rest) -/
def splitScheme (url : Bytes) : Bytes × Bytes :=
  match findB 58 url with
  | some i =>
    if i > 0 && (url.head?.map isAlphaAscii).getD false && (url.take i).all isSchemeChar
    then (lower (url.take i), url.drop (i + 1)) else ([], url)
  | none => ([], url)

def isNetlocEnd (c : UInt8) : Bool := c == 47 || c == 63 || c == 35

/-- `_splitnetloc(url, 2)` for `url` starting with `//` -/
def splitNetloc (afterSlashes : Bytes) : Bytes × Bytes :=
  (afterSlashes.takeWhile (!isNetlocEnd ·), afterSlashes.dropWhile (!isNetlocEnd ·))

/-- `netloc.partition('[')[2].partition(']')[0]` -/
def bracketed (netloc : Bytes) : Bytes :=
  match cut 91 netloc with
  | some (_, after) => (match cut 93 after with | some (inner, _) => inner | none => after)
  | none => []

/-- for a URL (after the scheme) that starts with `//`: (netloc, rest, bracket rules respected) -/
def splitAuthority (brOk : Bytes → Bool) (url : Bytes) : Bytes × Bytes × Bool :=
  match url with
  | 47 :: 47 :: r =>
    let n := (splitNetloc r).1
    (n, (splitNetloc r).2,
      if contains 91 n != contains 93 n then false else if contains 91 n then brOk (bracketed n) else true)
  | _ => ([], url, true)

/-- `url.split('#', 1)` / `url.split('?', 1)` when the separator occurs -/
def splitAt1 (c : UInt8) (url : Bytes) : Bytes × Bytes :=
  match cut c url with
  | some (a, b) => (a, b)
  | none => (url, [])

/-- `urlsplit(url)`; `none` = ValueError -/
def urlsplit (brOk : Bytes → Bool) (url0 : Bytes) : Option Split :=
  let sp := splitScheme (sanitize url0)
  let au := splitAuthority brOk sp.2
  if !au.2.2 then none else
  let fr := splitAt1 35 au.2.1
  let qu := splitAt1 63 fr.1
  some ⟨sp.1, au.1, qu.1, qu.2, fr.2⟩

/-- `netloc.rpartition('@')[2]` -/
def afterUserinfo (netloc : Bytes) : Bytes :=
  match rcut 64 netloc with
  | some p => p.2
  | none => netloc

/-- `SplitResult._hostinfo` : (hostname text, port text) -/
def hostinfo (netloc : Bytes) : Bytes × Bytes :=
  let hi := afterUserinfo netloc
  match cut 91 hi with
  | some p =>
    let hp := splitAt1 93 p.2
    (hp.1, (splitAt1 58 hp.2).2)
  | none => splitAt1 58 hi

/-- `.hostname` (`none` = None): lowered up to a `%` zone separator -/
def hostname (netloc : Bytes) : Option Bytes :=
  let h := (hostinfo netloc).1
  if h.isEmpty then none else
  match cut 37 h with
  | some (a, z) => some (lower a ++ [37] ++ z)
  | none => some (lower h)

/-- `.port`: `none` = ValueError, `some none` = None -/
def port (netloc : Bytes) : Option (Option Nat) :=
  let p := (hostinfo netloc).2
  if p.isEmpty then some none else
  match strictNat p with
  | some n => if n ≤ 65535 && p.length ≤ maxStrDigits then some (some n) else none
  | none => none

inductive Origin where
  | null
  | triple (scheme host : Bytes) (port : Option Nat)
deriving DecidableEq, Repr

/-- `_url_to_origin(url)`; `none` = ValueError -/
def urlToOrigin (brOk : Bytes → Bool) (url : Bytes) : Option Origin :=
  if lower url = b!"null" then some .null else
  match urlsplit brOk url with
  | none => none
  | some u =>
    if u.scheme = b!"file" then some .null else
    match port u.netloc with
    | none => none
    | some p =>
      let p := match p with
        | some n => some n
        | none => if u.scheme = b!"https" then some 443 else if u.scheme = b!"http" then some 80 else none
      match hostname u.netloc with
      | none => none
      | some h => some (.triple u.scheme h p)

/-- `"{scheme}://{host}:{port}".format(...)` -/
def originHeader (scheme host : Bytes) (port : Option Nat) : Bytes :=
  scheme ++ b!"://" ++ host ++ b!":" ++ (match port with | some n => natDigits n | none => b!"None")

/-- `_is_same_origin(origin, …, allowedOriginsPatterns)` -/
def isSameOrigin (o : Origin) (patterns : List Bytes) : Bool :=
  match o with
  | .null => false
  | .triple s h p => patterns.any (fun pat => Glob.reMatch pat (originHeader s h p))

/-! ### `autobahn.websocket.util.parse_url` (TCP form; `ws://unix:…` is not modelled) -/

structure WsUrl where
  secure : Bool
  host : Bytes
  port : Nat
  resource : Bytes
deriving DecidableEq, Repr

/-- `parse_url(url)`; `none` = ValueError -/
def parseUrl (brOk : Bytes → Bool) (url : Bytes) : Option WsUrl :=
  match urlsplit brOk url with
  | none => none
  | some u =>
    if u.scheme ≠ b!"ws" ∧ u.scheme ≠ b!"wss" then none else
    match hostname u.netloc with
    | none => none
    | some h =>
      if u.fragment ≠ [] then none else
      if h = b!"unix" then none else
      -- the resource is built from the path as `urlsplit` returns it, `;parameters` of the last segment included
      -- (fix 08167c09; before it from `urlparse().path`, which cuts them off)
      let rpath := if u.path = [] then b!"/" else u.path
      let resource := if u.query ≠ [] then rpath ++ b!"?" ++ u.query else rpath
      match port u.netloc with
      | none => none
      | some p =>
        let tcp := match p with | some n => n | none => if u.scheme = b!"ws" then 80 else 443
        if tcp < 1 ∨ tcp > 65535 then none else some ⟨u.scheme = b!"wss", h, tcp, resource⟩

end Abverif.Url
