import Abverif.Model.Http
/-!
C07 — the part of `urllib.parse.urlsplit` (CPython 3.12) the handshake depends on, on Latin-1 strings:
scheme detection, netloc extraction, bracket rules, fragment / query split, `hostname`, `port`;
`_url_to_origin` and `_is_same_origin` of `autobahn.websocket.protocol`.

NOT modelled (an input, `brOk`): whether the text between `[` and `]` of a netloc is an IPv6 / IPvFuture literal
(`ipaddress` internals).  `_checknetloc` (NFKC) never raises on Latin-1 input — checked exhaustively per character
by the harness, not proved.
-/
namespace Abverif.Url
open Abverif Abverif.Http

structure Split where
  scheme : Bytes
  netloc : Bytes
  path : Bytes
  query : Bytes
  fragment : Bytes
deriving DecidableEq, Repr

def isSchemeChar (c : UInt8) : Bool :=
  isAlphaAscii c || isDigit c || c == 43 || c == 45 || c == 46

/-- `url.lstrip(C0 control or space)` then removal of TAB / CR / LF anywhere -/
def sanitize (url : Bytes) : Bytes :=
  (url.dropWhile (· ≤ 32)).filter (fun c => !(c == 9 || c == 10 || c == 13))

/-- (scheme, rest) -/
def splitScheme (url : Bytes) : Bytes × Bytes :=
  match findB 58 url with
  | some i =>
    if i > 0 && (url.head?.map isAlphaAscii).getD false && (url.take i).all isSchemeChar
    then (lower (url.take i), url.drop (i + 1)) else ([], url)
  | none => ([], url)

def isNetlocEnd (c : UInt8) : Bool := c == 47 || c == 63 || c == 35

/-- `_splitnetloc(url, 2)` for `url` starting with `//` -/
def splitNetloc (afterSlashes : Bytes) : Bytes × Bytes :=
  (afterSlashes.takeWhile (!isNetlocEnd ·), afterSlashes.dropWhile (!isNetlocEnd ·))

/-- `netloc.partition('[')[2].partition(']')[0]` -/
def bracketed (netloc : Bytes) : Bytes :=
  match cut 91 netloc with
  | some (_, after) => (match cut 93 after with | some (inner, _) => inner | none => after)
  | none => []

/-- `urlsplit(url)`; `none` = ValueError -/
def urlsplit (brOk : Bytes → Bool) (url0 : Bytes) : Option Split :=
  let url := sanitize url0
  let (scheme, url) := splitScheme url
  let (netloc, url, ok) : Bytes × Bytes × Bool :=
    match url with
    | 47 :: 47 :: r =>
      let (n, rest) := splitNetloc r
      let o := contains 91 n
      let c := contains 93 n
      (n, rest, if o != c then false else if o then brOk (bracketed n) else true)
    | _ => ([], url, true)
  if !ok then none else
  let (url, fragment) := match cut 35 url with | some (a, b) => (a, b) | none => (url, [])
  let (url, query) := match cut 63 url with | some (a, b) => (a, b) | none => (url, [])
  some ⟨scheme, netloc, url, query, fragment⟩

/-- `SplitResult._hostinfo` : (hostname text, port text) -/
def hostinfo (netloc : Bytes) : Bytes × Bytes :=
  let hi := match rcut 64 netloc with | some (_, b) => b | none => netloc
  match cut 91 hi with
  | some (_, br) =>
    let (h, after) := match cut 93 br with | some (a, b) => (a, b) | none => (br, [])
    let p := match cut 58 after with | some (_, b) => b | none => []
    (h, p)
  | none =>
    match cut 58 hi with | some (a, b) => (a, b) | none => (hi, [])

/-- `.hostname` (`none` = None): lowered up to a `%` zone separator -/
def hostname (netloc : Bytes) : Option Bytes :=
  let h := (hostinfo netloc).1
  if h.isEmpty then none else
  match cut 37 h with
  | some (a, z) => some (lower a ++ [37] ++ z)
  | none => some (lower h)

/-- `.port`: `none` = ValueError, `some none` = None -/
def port (netloc : Bytes) : Option (Option Nat) :=
  let p := (hostinfo netloc).2
  if p.isEmpty then some none else
  match strictNat p with
  | some n => if n ≤ 65535 && p.length ≤ maxStrDigits then some (some n) else none
  | none => none

inductive Origin where
  | null
  | triple (scheme host : Bytes) (port : Option Nat)
deriving DecidableEq, Repr

/-- `_url_to_origin(url)`; `none` = ValueError -/
def urlToOrigin (brOk : Bytes → Bool) (url : Bytes) : Option Origin :=
  if lower url = b!"null" then some .null else
  match urlsplit brOk url with
  | none => none
  | some u =>
    if u.scheme = b!"file" then some .null else
    match port u.netloc with
    | none => none
    | some p =>
      let p := match p with
        | some n => some n
        | none => if u.scheme = b!"https" then some 443 else if u.scheme = b!"http" then some 80 else none
      match hostname u.netloc with
      | none => none
      | some h => some (.triple u.scheme h p)

/-- `"{scheme}://{host}:{port}".format(...)` -/
def originHeader (scheme host : Bytes) (port : Option Nat) : Bytes :=
  scheme ++ b!"://" ++ host ++ b!":" ++ (match port with | some n => natDigits n | none => b!"None")

/-- `_is_same_origin(origin, …, allowedOriginsPatterns)` -/
def isSameOrigin (o : Origin) (patterns : List Bytes) : Bool :=
  match o with
  | .null => false
  | .triple s h p => patterns.any (fun pat => Glob.reMatch pat (originHeader s h p))

/-! ### `autobahn.websocket.util.parse_url` (TCP form; `ws://unix:…` is not modelled) -/

structure WsUrl where
  secure : Bool
  host : Bytes
  port : Nat
  resource : Bytes
deriving DecidableEq, Repr

/-- `_splitparams(path)`: the `;params` of the LAST path segment are cut off (`urlparse` does this for ws/wss because
`autobahn.websocket.util` registers them in `uses_params`) -/
def splitParams (path : Bytes) : Bytes :=
  match rcut 47 path with
  | some (dir, last) => (match cut 59 last with | some (a, _) => dir ++ [47] ++ a | none => path)
  | none => (match cut 59 path with | some (a, _) => a | none => path)

/-- `parse_url(url)`; `none` = ValueError -/
def parseUrl (brOk : Bytes → Bool) (url : Bytes) : Option WsUrl :=
  match urlsplit brOk url with
  | none => none
  | some u =>
    if u.scheme ≠ b!"ws" ∧ u.scheme ≠ b!"wss" then none else
    match hostname u.netloc with
    | none => none
    | some h =>
      if u.fragment ≠ [] then none else
      if h = b!"unix" then none else
      let path := splitParams u.path
      let ppath := if path = [] then b!"/" else path
      let resource := if u.query ≠ [] then ppath ++ b!"?" ++ u.query else ppath
      match port u.netloc with
      | none => none
      | some p =>
        let tcp := match p with | some n => n | none => if u.scheme = b!"ws" then 80 else 443
        if tcp < 1 ∨ tcp > 65535 then none else some ⟨u.scheme = b!"wss", h, tcp, resource⟩

end Abverif.Url
