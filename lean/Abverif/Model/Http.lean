import Abverif.Model.Basic
/-!
C07 — the string layer of the opening handshake.  Import-free.

Everything is over **Latin-1 code units**: `parseHttpHeader` starts with `data.decode("iso-8859-1")`, which maps
octet `b` to the code point `b`, so a Python `str` in the handshake is a `List UInt8` here and the `str` methods the
handshake calls are re-modelled on that subset:

* `isSpace`      `str.isspace()` on U+0000..U+00FF  (what `strip()` / `split()` remove)
* `isBrk`        the line boundaries `str.splitlines()` honours that exist in Latin-1 (eight of them; CR LF is one break)
* `lowerC`       `str.lower()` (A–Z and À–Þ except ×; every Latin-1 character lowers to one Latin-1 character)
* `pyInt`        `int(s)`: whitespace of `int` (NOT the same set as `isspace`: FS/GS/RS/US are refused), sign,
                 single underscores between digits, the 4300-digit limit
* `parseHttpHeader`
* `Glob`         wildcard patterns (`*`), whole-string match; `reMatch` = what `re.compile("^"+…+"$").match` does

These are tied to the real `str` methods by exhaustive small-string correspondence (harness/c07.py, part S).
-/
namespace Abverif.Http

/-- `b!"GET"` — an ASCII literal as a list of code units (expanded at elaboration time to a list literal) -/
syntax:max "b!" str : term
macro_rules
  | `(b! $s:str) => do
    let cs := s.getString.toList
    let elems ← cs.mapM (fun c => `(($(Lean.Syntax.mkNumLit (toString c.toNat)) : UInt8)))
    `(([$(elems.toArray),*] : List UInt8))

/-! ### character classes -/

/-- `chr(c).isspace()` for `c < 256` -/
def isSpace (c : UInt8) : Bool :=
  (9 ≤ c && c ≤ 13) || (28 ≤ c && c ≤ 32) || c == 0x85 || c == 0xA0

/-- the characters at which `str.splitlines()` breaks (Latin-1 part of the table in the Python docs) -/
def isBrk (c : UInt8) : Bool :=
  (10 ≤ c && c ≤ 13) || (28 ≤ c && c ≤ 30) || c == 0x85

/-- the whitespace `int()` skips around a literal: ASCII `isspace` of C, plus NEL and NBSP (which the
decimal/space transform of non-ASCII strings turns into blanks). FS, GS, RS, US are *not* accepted. -/
def isIntSpace (c : UInt8) : Bool :=
  (9 ≤ c && c ≤ 13) || c == 32 || c == 0x85 || c == 0xA0

def isDigit (c : UInt8) : Bool := 48 ≤ c && c ≤ 57
def isUpper (c : UInt8) : Bool := 65 ≤ c && c ≤ 90
def isAlphaAscii (c : UInt8) : Bool := (65 ≤ c && c ≤ 90) || (97 ≤ c && c ≤ 122)

/-- `chr(c).lower()` -/
def lowerC (c : UInt8) : UInt8 :=
  if isUpper c then c + 32
  else if 0xC0 ≤ c && c ≤ 0xDE && c != 0xD7 then c + 32
  else c

def lower (s : Bytes) : Bytes := s.map lowerC

/-! ### strip -/

def lstripBy (p : UInt8 → Bool) (s : Bytes) : Bytes := s.dropWhile p
def rstripBy (p : UInt8 → Bool) (s : Bytes) : Bytes := (s.reverse.dropWhile p).reverse
def stripBy (p : UInt8 → Bool) (s : Bytes) : Bytes := rstripBy p (lstripBy p s)

/-- `s.strip()` -/
def strip (s : Bytes) : Bytes := stripBy isSpace s
def lstrip (s : Bytes) : Bytes := lstripBy isSpace s

/-! ### find / cut -/

/-- first index `≥ i0` (counting from `i0` at the head) where `pat` starts -/
def findGo (pat : Bytes) : Bytes → Nat → Option Nat
  | [], i => if pat.isEmpty then some i else none
  | c :: rest, i => if pat.isPrefixOf (c :: rest) then some i else findGo pat rest (i + 1)

/-- `s.find(pat)` (`none` for −1) -/
def find (pat : Bytes) (s : Bytes) : Option Nat := findGo pat s 0

/-- `s.find(chr(c))` -/
def findB (c : UInt8) : Bytes → Option Nat
  | [] => none
  | d :: rest => if d = c then some 0 else (findB c rest).map (· + 1)

/-- `s.partition(chr(c))` when the separator occurs: (before, after) -/
def cut (c : UInt8) : Bytes → Option (Bytes × Bytes)
  | [] => none
  | d :: rest => if d = c then some ([], rest) else (cut c rest).map (fun p => (d :: p.1, p.2))

/-- `s.rpartition(chr(c))` / `s.rsplit(chr(c), 1)` when the separator occurs: (before, after) -/
def rcut (c : UInt8) (s : Bytes) : Option (Bytes × Bytes) :=
  (cut c s.reverse).map (fun p => (p.2.reverse, p.1.reverse))

def contains (c : UInt8) (s : Bytes) : Bool := s.any (· == c)

/-! ### split -/

/-- `s.split(chr(sep))` — never empty -/
def splitOn (sep : UInt8) : Bytes → List Bytes
  | [] => [[]]
  | c :: rest =>
    if c = sep then [] :: splitOn sep rest
    else match splitOn sep rest with
      | [] => [[c]]
      | h :: t => (c :: h) :: t

def splitWsGo : Bytes → Bytes → List Bytes
  | [], cur => if cur.isEmpty then [] else [cur.reverse]
  | c :: rest, cur =>
    if isSpace c then (if cur.isEmpty then splitWsGo rest [] else cur.reverse :: splitWsGo rest [])
    else splitWsGo rest (c :: cur)

/-- `s.split()` — maximal runs of non-whitespace -/
def splitWs (s : Bytes) : List Bytes := splitWsGo s []

/-- `sep.join(parts)` -/
def join (sep : Bytes) : List Bytes → Bytes
  | [] => []
  | [x] => x
  | x :: y :: rest => x ++ sep ++ join sep (y :: rest)

/-! ### splitlines -/

/-- `prevCR`: the previous character was a CR that ended a line (an LF now belongs to that break) -/
def splitlinesGo : Bool → Bytes → Bytes → List Bytes
  | _, [], cur => if cur.isEmpty then [] else [cur.reverse]
  | prevCR, c :: rest, cur =>
    if prevCR && c == 10 then splitlinesGo false rest cur
    else if isBrk c then cur.reverse :: splitlinesGo (c == 13) rest []
    else splitlinesGo false rest (c :: cur)

/-- `s.splitlines()` -/
def splitlines (s : Bytes) : List Bytes := splitlinesGo false s []

/-! ### int() -/

/-- after the sign: digits, single underscores only between digits. `need` = a digit must come next.
returns (value, number of digits) -/
def digs : Bool → Bytes → Nat → Nat → Option (Nat × Nat)
  | need, [], v, n => if need then none else some (v, n)
  | need, c :: rest, v, n =>
    if isDigit c then digs false rest (v * 10 + (c.toNat - 48)) (n + 1)
    else if c == 95 && !need then digs true rest v n
    else none

def maxStrDigits : Nat := 4300

/-- `int(s)`; `none` = ValueError -/
def pyInt (s : Bytes) : Option Int :=
  let t := stripBy isIntSpace s
  let (neg, body) : Bool × Bytes := match t with
    | 43 :: r => (false, r)
    | 45 :: r => (true, r)
    | _ => (false, t)
  match digs true body 0 0 with
  | none => none
  | some (v, n) => if n > maxStrDigits then none else some (if neg then -(v : Int) else (v : Int))

/-- what RFC 6455 / RFC 7230 call a number: one or more ASCII digits, nothing else -/
def strictNat (s : Bytes) : Option Nat :=
  if s.isEmpty || !s.all isDigit then none else some (s.foldl (fun v c => v * 10 + (c.toNat - 48)) 0)

/-- decimal rendering (`str(n)`), most significant digit first; `fuel` bounds the number of digits -/
def natDigitsGo : Nat → Nat → Bytes → Bytes
  | 0, _, acc => acc
  | fuel + 1, n, acc =>
    if n < 10 then UInt8.ofNat (48 + n) :: acc
    else natDigitsGo fuel (n / 10) (UInt8.ofNat (48 + n % 10) :: acc)

def natDigits (n : Nat) : Bytes := natDigitsGo (n + 1) n []

/-! ### UTF-8 (what `bytes.decode("utf8")` accepts, and `str.encode("utf8")` of a Latin-1 string) -/

def isCont (c : UInt8) : Bool := 0x80 ≤ c && c ≤ 0xBF

/-- strict UTF-8 as CPython decodes it: no overlongs, no surrogates, nothing above U+10FFFF -/
def utf8Valid : Bytes → Bool
  | [] => true
  | a :: rest =>
    if a < 0x80 then utf8Valid rest
    else if 0xC2 ≤ a && a ≤ 0xDF then
      match rest with
      | b :: r => isCont b && utf8Valid r
      | _ => false
    else if 0xE0 ≤ a && a ≤ 0xEF then
      match rest with
      | b :: c :: r =>
        isCont b && isCont c && (a != 0xE0 || 0xA0 ≤ b) && (a != 0xED || b ≤ 0x9F) && utf8Valid r
      | _ => false
    else if 0xF0 ≤ a && a ≤ 0xF4 then
      match rest with
      | b :: c :: d :: r =>
        isCont b && isCont c && isCont d && (a != 0xF0 || 0x90 ≤ b) && (a != 0xF4 || b ≤ 0x8F) && utf8Valid r
      | _ => false
    else false

/-- `s.encode("utf8")` for a string of code points below 256 -/
def utf8Encode (s : Bytes) : Bytes :=
  s.flatMap (fun c => if c < 0x80 then [c] else [(0xC0 : UInt8) ||| (c >>> 6), (0x80 : UInt8) ||| (c &&& 0x3F)])

/-! ### parseHttpHeader -/

structure Hdr where
  key : Bytes
  val : Bytes
  cnt : Nat
deriving DecidableEq, Repr

/-- `http_headers[key] += ", " + value; cnt += 1` or a new entry (dict insertion order) -/
def hdrInsert : List Hdr → Bytes → Bytes → List Hdr
  | [], k, v => [⟨k, v, 1⟩]
  | h :: hs, k, v => if h.key = k then ⟨k, h.val ++ b!", " ++ v, h.cnt + 1⟩ :: hs else h :: hdrInsert hs k v

def hget : List Hdr → Bytes → Option Hdr
  | [], _ => none
  | h :: hs, k => if h.key = k then some h else hget hs k

/-- one header line: `i = h.find(":")`, `i > 0`, key stripped and lowered, value stripped -/
def parseLine (h : Bytes) : Option (Bytes × Bytes) :=
  match findB 58 h with
  | some i => if i > 0 then some (lower (strip (h.take i)), strip (h.drop (i + 1))) else none
  | none => none

def addLines : List Hdr → List Bytes → List Hdr
  | hs, [] => hs
  | hs, l :: ls =>
    match parseLine l with
    | some (k, v) => addLines (hdrInsert hs k v) ls
    | none => addLines hs ls

/-- `parseHttpHeader(data)`: (status line, headers with counts); `none` = IndexError on `raw[0]` -/
def parseHttpHeader (data : Bytes) : Option (Bytes × List Hdr) :=
  match splitlines data with
  | [] => none
  | l0 :: ls => some (strip l0, addLines [] ls)

/-- some element of the comma-separated list `v`, stripped and lowered, equals `tok` -/
def hasToken (tok : Bytes) (v : Bytes) : Bool :=
  (splitOn 44 v).any (fun u => lower (strip u) == tok)

/-! ### wildcard patterns -/
namespace Glob

/-- `k` accepts some suffix of the subject (what is left after `*` swallowed a prefix) -/
def anySuffix (k : Bytes → Bool) : Bytes → Bool
  | [] => k []
  | c :: cs => k (c :: cs) || anySuffix k cs

/-- as `anySuffix`, but the swallowed characters must not be LF (regex `.` without DOTALL) -/
def anySuffixNoNl (k : Bytes → Bool) : Bytes → Bool
  | [] => k []
  | c :: cs => k (c :: cs) || (c != 10 && anySuffixNoNl k cs)

/-- `*` (42) matches any string, every other character itself; the WHOLE subject must be consumed -/
def fullMatch : Bytes → Bytes → Bool
  | [], s => s.isEmpty
  | p :: ps, s =>
    if p == 42 then anySuffix (fullMatch ps) s
    else match s with
      | [] => false
      | c :: cs => p == c && fullMatch ps cs

/-- as `fullMatch`, but `*` does not cross a newline -/
def matchNoNl : Bytes → Bytes → Bool
  | [], s => s.isEmpty
  | p :: ps, s =>
    if p == 42 then anySuffixNoNl (matchNoNl ps) s
    else match s with
      | [] => false
      | c :: cs => p == c && matchNoNl ps cs

/-- `re.compile("^" + wc.replace(".", "\\.").replace("*", ".*") + "$").match(s)` for a wildcard without other
regex metacharacters: `$` also matches before a final newline -/
def reMatch (p s : Bytes) : Bool :=
  matchNoNl p s || (match s.getLast? with
    | some 10 => matchNoNl p s.dropLast
    | _ => false)

/-- characters of a wildcard that `wildcards2patterns` leaves unescaped and `re` would interpret -/
def isMeta (c : UInt8) : Bool :=
  c == 92 || c == 94 || c == 36 || c == 43 || c == 63 || c == 123 || c == 125 || c == 91 || c == 93 ||
  c == 40 || c == 41 || c == 124

def plain (p : Bytes) : Bool := !p.any isMeta

end Glob

end Abverif.Http
