import Abverif.Model.Session
/-
Abstract specification of the request/reply and publish/subscribe behaviour of a WAMP client session — what
properties C04 and C11 say, written as the simplest executable definition:

  * `pending : ReqId → Option (Kind × Req)`   ONE map of outstanding requests (the code keeps six tables),
  * `handlers : SubId → List H`                the handlers attached to a subscription id, in subscription order,
  * request ids are `1, 2, 3, …` (wrapping after 2^53) *within a WAMP session*: a new `join` starts at 1 again,
  * a reply `(type, id)` completes exactly the future recorded under `id` if its kind is the one `type` answers;
    anything else is a protocol violation and completes nothing,
  * a progressive RESULT calls the `on_progress` of its own call — `CallResult(*args, **kwargs)` with absent
    args/kwargs read as empty when `details` was requested — and completes nothing,
  * EVENT(sub): the handlers attached at arrival are called once each, in subscription order, with the event's
    args/kwargs plus the `EventDetails` under the handler's *own* `details_arg` only; a handler that has been
    unsubscribed in the meantime (by an earlier handler of the same dispatch) is not called; EVENT for an id with
    an UNSUBSCRIBE outstanding (empty handler list) is dropped; for an unknown id it is a protocol violation,
  * UNSUBSCRIBE is sent exactly when the last handler of an id is removed.

The Spec speaks about these observables only: request messages handed to `send`, what the API call returned,
completions of futures, handler and `on_progress` invocations, exceptions leaving the entry point
(`observable`). It has no scheduling mode, no callback queue, no kwargs aliasing and no list cursor.
-/
namespace Abverif.SessSpec
open Abverif.Session

/-- 2^53, the bound the property names (deliberately a literal, not the constant generated from the source) -/
def idBound : Nat := 9007199254740992

structure Spec where
  up : Bool := false                        -- a transport is attached
  joined : Bool := false
  goodbyeSent : Bool := false
  seq : Nat := 0                            -- requests issued in the *current* WAMP session
  nfut : Nat := 0                           -- futures created so far (names the next one)
  kinds : List Kind := []                   -- kind of every future created so far
  pending : List (ReqId × (Kind × Req)) := []
  done : List FutId := []                   -- futures that have completed (reply, error, user cancel, session end)
  handlers : List (SubId × List SubRec) := []
  regs : List (RegId × RegRec) := []
deriving DecidableEq, Repr

/-- the observables the Spec speaks about -/
def observable : SOut → Bool
  | .send m => (match m.typ with
      | .call | .publish | .subscribe | .unsubscribe | .register | .unregister => true
      | _ => false)
  | .ret _ | .retNone | .complete _ _ | .invoke _ _ _ _ | .progress _ _ | .raise_ _ => true
  | _ => false

def Spec.newFut (sp : Spec) (k : Kind) : Spec × FutId :=
  ({ sp with nfut := sp.nfut + 1, kinds := sp.kinds ++ [k] }, sp.nfut)

def Spec.isDone (sp : Spec) (f : FutId) : Bool := sp.done.contains f

def Spec.complete (sp : Spec) (f : FutId) (o : Outcome) : Spec × List SOut :=
  ({ sp with done := f :: sp.done }, [.complete f o])

/-- the k-th request of a session carries id `((k − 1) mod 2^53) + 1` -/
def Spec.nextId (sp : Spec) : ReqId := sp.seq % idBound + 1

/-- a request API: one message with the next id; the request is recorded under that id before the send; when
the send raises the call raises (and `call`/`publish` forget the request) -/
def Spec.request (sp : Spec) (k : Kind) (mk : ReqId → OutMsg) (rec_ : Option (FutId → Req)) (forget : Bool)
    (snd : SendRes) : Spec × List SOut :=
  if !sp.up then (sp, [.raise_ .transportLost]) else
  let id := sp.nextId
  let sp := { sp with seq := sp.seq + 1 }
  match rec_ with
  | none =>
    (sp, [.send (mk id), match snd with | .ok => .retNone | .raises => .raise_ .sendFailed])
  | some mkReq =>
    let (sp, f) := sp.newFut k
    match snd with
    | .ok => ({ sp with pending := aset id (k, mkReq f) sp.pending }, [.send (mk id), .ret f])
    | .raises =>
      ({ sp with pending := if forget then adel id sp.pending else aset id (k, mkReq f) sp.pending },
       [.send (mk id), .raise_ .sendFailed])

def Spec.api (sp : Spec) : Api → Spec × List SOut
  | .call u a k o r =>
    sp.request .call (fun id => { typ := .call, req := id, opts := optAttrs CallOpts.attrs o, uri := u, args := a, kwargs := k })
      (some fun f => { fut := f, uri := u, onProgress := o.bind (·.onProgress), details := (o.map (·.details)).getD false })
      true r
  | .publish u a k o r =>
    sp.request .publish (fun id => { typ := .publish, req := id, opts := optAttrs PubOpts.attrs o, uri := u, args := a, kwargs := k })
      (if (o.bind (·.acknowledge)).getD false then some fun f => { fut := f } else none) true r
  | .subscribe h t o r =>
    sp.request .subscribe (fun id => { typ := .subscribe, req := id, opts := optAttrs SubOpts.attrs o, uri := t })
      (some fun f => { fut := f, uri := t, handler := h, detailsArg := o.bind (·.detailsArg) }) false r
  | .register h p o r =>
    sp.request .register (fun id => { typ := .register, req := id, opts := optAttrs RegOpts.attrs o, uri := p })
      (some fun f => { fut := f, uri := p, handler := h, detailsArg := o.bind (·.detailsArg) }) false r
  | .unsubscribe obj r =>
    match findSub obj sp.handlers with
    | none => (sp, [.raise_ .exception])
    | some sid =>
      if !sp.up then (sp, [.raise_ .transportLost]) else
      let l := removeObj obj ((alookup sid sp.handlers).getD [])
      let sp := { sp with handlers := aupd sid l sp.handlers }
      if l.isEmpty then
        -- UNSUBSCRIBE goes out exactly when the last handler is removed
        sp.request .unsubscribe (fun id => { typ := .unsubscribe, req := id, uri := sid })
          (some fun f => { fut := f, target := sid }) false r
      else
        let (sp, f) := sp.newFut .unsubscribe
        ({ sp with done := f :: sp.done }, [.complete f (.value (.int l.length)), .ret f])
  | .unregister obj r =>
    match findReg obj sp.regs with
    | none => (sp, [.raise_ .exception])
    | some rid =>
      sp.request .unregister (fun id => { typ := .unregister, req := id, uri := rid })
        (some fun f => { fut := f, target := rid }) false r
  | .cancel f =>
    if f < sp.nfut && !sp.isDone f then sp.complete f .cancelled else (sp, [])
  | .join =>
    if sp.joined || !sp.up then (sp, [.raise_ .exception]) else ({ sp with goodbyeSent := false }, [])
  | .leave =>
    if sp.joined && !sp.goodbyeSent then ({ sp with goodbyeSent := true }, []) else (sp, [])
  | .disconnect => (sp, [])

def Spec.runCalls (sp : Spec) (self : Option FutId) : List HCall → Spec × List SOut
  | [] => (sp, [])
  | c :: cs =>
    let a? : Option Api :=
      match c with
      | .api a => some a
      | .unsubSelf => self.map (fun o => Api.unsubscribe o .ok)
    match a? with
    | none => Spec.runCalls sp self cs
    | some a =>
      let r1 := sp.api a
      let r2 := Spec.runCalls r1.1 self cs
      (r2.1, (r1.2.map toCaught).filter observable ++ r2.2)

def attached (sp : Spec) (sub : SubId) (obj : FutId) : Bool :=
  ((alookup sub sp.handlers).getD []).any (·.obj == obj)

/-- EVENT fan-out over the handlers attached at arrival (`snapshot`) -/
def Spec.dispatch (sp : Spec) (sub : SubId) (args : Args) (kw : List (Key × KwVal)) :
    List SubRec → List HAct → Spec × List SOut
  | [], _ => (sp, [])
  | r :: rest, beh =>
    if attached sp sub r.obj then
      let r1 := Spec.runCalls sp (some r.obj) (beh.headD {}).calls
      let r2 := Spec.dispatch r1.1 sub args kw rest beh.tail
      (r2.1, .invoke r.obj r.h args (handlerKw r kw) :: r1.2 ++ r2.2)
    else Spec.dispatch sp sub args kw rest beh

/-- the kind of request a reply message type answers -/
def replyKind : InMsg → Option Kind
  | .result _ _ _ => some .call
  | .published _ _ => some .publish
  | .subscribed _ _ => some .subscribe
  | .unsubscribed _ => some .unsubscribe
  | .registered _ _ => some .register
  | .unregistered _ _ => some .unregister
  | _ => none

def kindOfCode (c : Nat) : Option Kind := Kind.all.find? (fun k => k.code == c)

/-- routing: the pending request a reply `(kind, id)` belongs to -/
def Spec.route (sp : Spec) (k : Kind) (id : ReqId) : Option Req :=
  match alookup id sp.pending with
  | some (k', r) => if k' = k then some r else none
  | none => none

/-- a final reply: the request leaves `pending`; its future completes unless the user already cancelled it -/
def Spec.finish (sp : Spec) (id : ReqId) (r : Req) (o : Outcome) : Spec × List SOut :=
  let sp := { sp with pending := adel id sp.pending }
  if sp.isDone r.fut then (sp, []) else sp.complete r.fut o

/-- session end: everything still pending fails -/
def Spec.failAll (sp : Spec) (reason : Nat) : Spec × List SOut :=
  let fs := ((Kind.all.flatMap fun k => sp.pending.filter (·.2.1 == k)).map (·.2.2.fut)).filter (!sp.isDone ·)
  ({ sp with pending := [], done := fs.reverse ++ sp.done }, fs.map (.complete · (.closed reason)))

def Spec.msg (sp : Spec) (beh : List HAct) (m : InMsg) : Spec × List SOut :=
  if !sp.joined then
    match m with
    | .welcome _ => ({ sp with joined := true, seq := 0 }, [])     -- a new WAMP session: ids start at 1 again
    | .abort => Spec.failAll sp 2                                     -- the router refuses: what is pending fails
    | .challenge => (sp, [])
    | _ => (sp, [.raise_ .protocolError])
  else
  match m with
  | .goodbye => Spec.failAll { sp with joined := false } 0
  | .event sub _ p =>
    match alookup sub sp.handlers with
    | none => (sp, [.raise_ .protocolError])
    | some l => Spec.dispatch sp sub (p.args.getD []) (kwOfPayload p) l beh
  | .result id p progress =>
    match sp.route .call id with
    | none => (sp, [.raise_ .protocolError])
    | some r =>
      if progress then
        match r.onProgress with
        | none => (sp, [])
        | some h =>
          let r1 := Spec.runCalls sp none (beh.headD {}).calls
          (r1.1, .progress h (if r.details then .result (p.args.getD []) (p.kwargs.getD [])
                              else .plain (p.args.getD []) (p.kwargs.getD [])) :: r1.2)
      else sp.finish id r (.value (resultValue r.details p))
  | .published id pub =>
    match sp.route .publish id with
    | none => (sp, [.raise_ .protocolError])
    | some r => sp.finish id r (.value (.publication pub))
  | .subscribed id sub =>
    match sp.route .subscribe id with
    | none => (sp, [.raise_ .protocolError])
    | some r =>
      if sp.isDone r.fut then ({ sp with pending := adel id sp.pending }, []) else
      let rec_ : SubRec := { obj := r.fut, h := r.handler, detailsArg := r.detailsArg, topic := r.uri }
      let hs := match alookup sub sp.handlers with
        | none => sp.handlers ++ [(sub, [rec_])]
        | some l => aupd sub (l ++ [rec_]) sp.handlers
      Spec.finish { sp with handlers := hs } id r (.value (.subscription sub))
  | .unsubscribed id =>
    match sp.route .unsubscribe id with
    | none => (sp, [.raise_ .protocolError])
    | some r =>
      if sp.isDone r.fut then ({ sp with pending := adel id sp.pending }, []) else
      Spec.finish { sp with handlers := adel r.target sp.handlers } id r (.value (.int 0))
  | .registered id reg =>
    match sp.route .register id with
    | none => (sp, [.raise_ .protocolError])
    | some r =>
      if sp.isDone r.fut then ({ sp with pending := adel id sp.pending }, []) else
      match alookup reg sp.regs with
      | some _ => ({ sp with pending := adel id sp.pending }, [.raise_ .protocolError])
      | none =>
        Spec.finish { sp with regs := sp.regs ++ [(reg, { obj := r.fut, proc := r.uri, endpoint := r.handler, detailsArg := r.detailsArg })] }
          id r (.value (.registration reg))
  | .unregistered id reg =>
    if id = 0 then
      match reg.bind (fun g => alookup g sp.regs) with
      | none => (sp, [.raise_ .protocolError])
      | some _ => (sp, [])
    else
      match sp.route .unregister id with
      | none => (sp, [.raise_ .protocolError])
      | some r =>
        if sp.isDone r.fut then ({ sp with pending := adel id sp.pending }, []) else
        Spec.finish { sp with regs := adel r.target sp.regs } id r (.value .none_)
  | .error reqType id uri p =>
    match (kindOfCode reqType).bind (fun k => sp.route k id) with
    | none => (sp, [.raise_ .protocolError])
    | some r => sp.finish id r (.error uri (p.args.getD []) (p.kwargs.getD []))
  | .invocation _ reg _ _ =>
    if (alookup reg sp.regs).isNone then (sp, [.raise_ .protocolError]) else (sp, [])
  | .interrupt _ => (sp, [])
  | .welcome _ | .abort | .challenge | .other => (sp, [.raise_ .protocolError])

def Spec.step (sp : Spec) : SEv → Spec × List SOut
  | .api a => let r := sp.api a; (r.1, r.2.filter observable)
  | .msg m beh => sp.msg beh m
  | .pump | .tick => (sp, [])
  | .open_ _ => ({ sp with up := true, goodbyeSent := false }, [])
  | .closed _ => Spec.failAll { sp with up := false, joined := false } 1
  | .fault _ | .resolve _ _ | .fail _ _ | .lateProgress _ _ => (sp, [])

def Spec.run (sp : Spec) : List SEv → Spec × List (List SOut)
  | [] => (sp, [])
  | e :: es =>
    let r1 := sp.step e
    let r2 := Spec.run r1.1 es
    (r2.1, r1.2 :: r2.2)

/-- the Spec's EVENT fan-out (`Spec.dispatch`: the handlers attached at arrival, in order, each still attached at its
turn, with the event's kwargs plus its own details only) run on a *model* state, with the model's semantics for what
the user code does -/
def fanout (s : Sess) (sub : SubId) (args : Args) (kw : List (Key × KwVal)) : List SubRec → List HAct → Sess × List SOut
  | [], _ => (s, [])
  | r :: rest, beh =>
    if ((alookup sub s.subs).getD []).any (·.obj == r.obj) then
      let r1 := runAct s (some r.obj) (beh.headD {})
      let r2 := fanout r1.1 sub args kw rest beh.tail
      (r2.1, .invoke r.obj r.h args (handlerKw r kw) :: r1.2 ++ r2.2)
    else fanout s sub args kw rest beh

/-! ## abstraction: the Spec state a model state stands for -/

/-- the six request tables read as one map `id ↦ (kind, request)` -/
def absPending (s : Sess) : List (ReqId × (Kind × Req)) :=
  Kind.all.flatMap (fun k => (s.tbl k).map (fun e => (e.1, (k, e.2))))

def abs (s : Sess) : Spec :=
  { up := s.transport, joined := s.sessionId.isSome, goodbyeSent := s.goodbyeSent, seq := s.issued,
    nfut := s.futs.length, kinds := s.futs.map (·.kind), pending := absPending s,
    done := (List.range s.futs.length).filter s.called, handlers := s.subs, regs := s.regs }

end Abverif.SessSpec
