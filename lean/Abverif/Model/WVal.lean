import Abverif.Model.Basic
/-
WVal — the value domain of deserialized WAMP messages (what `json.loads` / `msgpack.unpackb` /
`cbor2.loads` / `bjdata.loadb` hand to `Message.parse`).  Import-free (core Lean only).

* text is `List Char` (`Str`), bytes are `List UInt8`;
* floats are carried opaquely as their Python `repr` (never used in arithmetic; only truthiness and
  the `== True/False` comparison of `Register.force_reregister` look at them);
* `dict` has string keys (association list, insertion order kept because `Hello.parse` iterates `roles`
  in dict order); `dictNS` is a dict that has at least one non-`str` key (only the str-keyed part is
  retained: every consumer either rejects such a dict outright or looks up string keys only);
* `other` stands for any other Python object a binary serializer can produce (Decimal, datetime, CBORTag,
  set, …): the code under verification only ever asks such a value for its type, its truthiness and (REGISTER's
  `force_reregister in [True, False, None]`) whether it compares equal to `True` / `False` (`eqb`).
-/
namespace Abverif.Wamp

abbrev Str := List Char

/-- `cs!"abc"` = `['a','b','c']` (string literals as char lists, so that `decide`/`rfl` can see them). -/
macro:max "cs!" s:str : term => do
  let cs := s.getString.toList
  let elems := cs.toArray.map fun c => Lean.Syntax.mkCharLit c
  `(([$elems,*] : List Char))

inductive WVal
  | null
  | bool (b : Bool)
  | int (i : Int)
  | float (repr : Str)
  | str (s : Str)
  | bytes (b : Bytes)
  | list (xs : List WVal)
  | dict (kvs : List (Str × WVal))
  | dictNS (kvs : List (Str × WVal))
  | other (tyname : Str) (truthy : Bool) (eqb : Option Bool)
  deriving Inhabited

abbrev Dict := List (Str × WVal)

namespace WVal

def isNull : WVal → Bool | null => true | _ => false
def isBool : WVal → Bool | bool _ => true | _ => false
def isInt : WVal → Bool | int _ => true | _ => false
def isStr : WVal → Bool | str _ => true | _ => false
def isBytes : WVal → Bool | bytes _ => true | _ => false
def isList : WVal → Bool | list _ => true | _ => false
/-- `type(v) == dict` (string keys or not) -/
def isDict : WVal → Bool | dict _ => true | dictNS _ => true | _ => false

/-- Python `repr` of the floats that compare equal to 0 -/
def floatIsZero (r : Str) : Bool := r == cs!"0.0" || r == cs!"-0.0"
/-- Python `repr` of the float that compares equal to 1 -/
def floatIsOne (r : Str) : Bool := r == cs!"1.0"

/-- Python truthiness (`if v:`) -/
def truthy : WVal → Bool
  | null => false
  | bool b => b
  | int i => i != 0
  | float r => !floatIsZero r
  | str s => !s.isEmpty
  | bytes b => !b.isEmpty
  | list xs => !xs.isEmpty
  | dict kvs => !kvs.isEmpty
  | dictNS _ => true
  | other _ t _ => t

/-- `v == True` in Python (bool True, int 1, float 1.0) -/
def eqTrue : WVal → Bool
  | bool b => b
  | int i => i == 1
  | float r => floatIsOne r
  | other _ _ (some b) => b
  | _ => false

/-- `v == False` in Python (bool False, int 0, float 0.0 / -0.0) -/
def eqFalse : WVal → Bool
  | bool b => !b
  | int i => i == 0
  | float r => floatIsZero r
  | other _ _ (some b) => !b
  | _ => false

end WVal

/-- `key in d` / `d[key]` / `d.get(key)` on the string-keyed part -/
def Dict.get? (d : Dict) (k : Str) : Option WVal := (d.find? (fun kv => kv.1 == k)).map (·.2)

/-- the string-keyed entries of a value of type dict (`[]` for anything else) -/
def WVal.entries : WVal → Dict
  | .dict kvs => kvs
  | .dictNS kvs => kvs
  | _ => []

/-! ### structural equality as a `Bool` (nested inductive: no derived `DecidableEq`) -/
mutual
def WVal.beq : WVal → WVal → Bool
  | .null, .null => true
  | .bool a, .bool b => a == b
  | .int a, .int b => a == b
  | .float a, .float b => a == b
  | .str a, .str b => a == b
  | .bytes a, .bytes b => a == b
  | .list a, .list b => beqL a b
  | .dict a, .dict b => beqD a b
  | .dictNS a, .dictNS b => beqD a b
  | .other a s e, .other b t f => a == b && s == t && e == f
  | _, _ => false
def beqL : List WVal → List WVal → Bool
  | [], [] => true
  | x :: xs, y :: ys => x.beq y && beqL xs ys
  | _, _ => false
def beqD : Dict → Dict → Bool
  | [], [] => true
  | (k, x) :: xs, (l, y) :: ys => k == l && x.beq y && beqD xs ys
  | _, _ => false
end

instance : BEq WVal := ⟨WVal.beq⟩

end Abverif.Wamp
