import Abverif.Model.Basic
/-
C07 — Base64 reference oracle (RFC 4648 §4: standard alphabet `A–Z a–z 0–9 + /`, `=` padding).

Text is carried as ASCII code units in `Bytes`. `encode` is structurally recursive over 3-byte
groups, `decode` over 4-character groups; `decode` is strict about length and padding position
but does not require the unused low bits of a padded group to be zero (non-canonical accepted).
-/
namespace Abverif.Crypto7.Base64

/-- ASCII code units of a string literal. -/
def asc (s : String) : Bytes := s.toList.map (fun c => UInt8.ofNat c.toNat)

/-- The pad character `=`. -/
abbrev padChar : UInt8 := 61

/-- Alphabet character of a 6-bit value (`n < 64`; larger `n` map to `/`). -/
def enc6 (n : UInt8) : UInt8 :=
  if n < 26 then n + 65        -- 'A' …
  else if n < 52 then n + 71   -- 'a' … (97 - 26)
  else if n < 62 then n - 4    -- '0' … (48 - 52)
  else if n = 62 then 43       -- '+'
  else 47                      -- '/'

/-- The 64 alphabet characters (excludes `=`). -/
def isAlphabet (c : UInt8) : Bool :=
  (65 ≤ c && c ≤ 90) || (97 ≤ c && c ≤ 122) || (48 ≤ c && c ≤ 57) || c == 43 || c == 47

/-- 6-bit value of an alphabet character. -/
def dec6 (c : UInt8) : Option UInt8 :=
  if 65 ≤ c ∧ c ≤ 90 then some (c - 65)
  else if 97 ≤ c ∧ c ≤ 122 then some (c - 71)
  else if 48 ≤ c ∧ c ≤ 57 then some (c + 4)
  else if c = 43 then some 62
  else if c = 47 then some 63
  else none

def encode : Bytes → Bytes
  | a :: b :: c :: rest =>
    enc6 (a >>> 2) ::
    enc6 (((a &&& 3) <<< 4) ||| (b >>> 4)) ::
    enc6 (((b &&& 15) <<< 2) ||| (c >>> 6)) ::
    enc6 (c &&& 63) :: encode rest
  | [a, b] =>
    [enc6 (a >>> 2), enc6 (((a &&& 3) <<< 4) ||| (b >>> 4)), enc6 ((b &&& 15) <<< 2), padChar]
  | [a] => [enc6 (a >>> 2), enc6 ((a &&& 3) <<< 4), padChar, padChar]
  | [] => []

/-- Three bytes from four characters without padding. -/
def decodeFull (w x y z : UInt8) : Option Bytes := do
  let p ← dec6 w
  let q ← dec6 x
  let r ← dec6 y
  let s ← dec6 z
  pure [(p <<< 2) ||| (q >>> 4), (q <<< 4) ||| (r >>> 2), (r <<< 6) ||| s]

/-- The final group `w x y =` (two bytes) or `w x = =` (one byte). -/
def decodePadded (w x y : UInt8) : Option Bytes :=
  if y = padChar then do
    let p ← dec6 w
    let q ← dec6 x
    pure [(p <<< 2) ||| (q >>> 4)]
  else do
    let p ← dec6 w
    let q ← dec6 x
    let r ← dec6 y
    pure [(p <<< 2) ||| (q >>> 4), (q <<< 4) ||| (r >>> 2)]

/-- Strict decoder: the length is a multiple of four, every character is in the alphabet, and
`=` occurs only as the last one or two characters of the last group. -/
def decode : Bytes → Option Bytes
  | [] => some []
  | w :: x :: y :: z :: rest =>
    if z = padChar then
      if rest.isEmpty then decodePadded w x y else none
    else do
      let g ← decodeFull w x y z
      let r ← decode rest
      pure (g ++ r)
  | _ => none

/-! ## Facts about single characters (by exhaustive evaluation over the 256 bytes) -/

/-- Bounded universal quantification over `UInt8` is decidable. -/
instance decForallUInt8 (P : UInt8 → Prop) [DecidablePred P] : Decidable (∀ a, P a) :=
  @decidable_of_iff _ (∀ n, n < 256 → P (UInt8.ofNat n))
    ⟨fun h a => by have := h a.toNat a.toNat_lt; simpa using this, fun h n _ => h _⟩
    (Nat.decidableBallLT 256 (fun n _ => P (UInt8.ofNat n)))

theorem isAlphabet_enc6 : ∀ n : UInt8, isAlphabet (enc6 n) = true := by decide +kernel

theorem dec6_enc6 : ∀ n : UInt8, n >>> 6 = 0 → dec6 (enc6 n) = some n := by decide +kernel

theorem enc6_ne_pad : ∀ n : UInt8, enc6 n ≠ padChar := by decide +kernel

theorem isAlphabet_iff_dec6 : ∀ c : UInt8, isAlphabet c = (dec6 c).isSome := by decide +kernel

/-! ## Bit-level identities (extensionality over the eight bit positions) -/

set_option hygiene false in
/-- Proves an equation between `UInt8` bit-operator terms bit by bit. -/
local macro "bits" : tactic =>
  `(tactic| (
    apply UInt8.eq_of_toBitVec_eq
    simp
    ext i hi
    have : i = 0 ∨ i = 1 ∨ i = 2 ∨ i = 3 ∨ i = 4 ∨ i = 5 ∨ i = 6 ∨ i = 7 := by omega
    rcases this with rfl | rfl | rfl | rfl | rfl | rfl | rfl | rfl <;> simp))

theorem s0_lt (a : UInt8) : (a >>> 2) >>> 6 = 0 := by bits
theorem s1_lt (a b : UInt8) : (((a &&& 3) <<< 4) ||| (b >>> 4)) >>> 6 = 0 := by bits
theorem s1'_lt (a : UInt8) : ((a &&& 3) <<< 4) >>> 6 = 0 := by bits
theorem s2_lt (b c : UInt8) : (((b &&& 15) <<< 2) ||| (c >>> 6)) >>> 6 = 0 := by bits
theorem s2'_lt (b : UInt8) : ((b &&& 15) <<< 2) >>> 6 = 0 := by bits
theorem s3_lt (c : UInt8) : (c &&& 63) >>> 6 = 0 := by bits

theorem byte0 (a b : UInt8) :
    ((a >>> 2) <<< 2) ||| ((((a &&& 3) <<< 4) ||| (b >>> 4)) >>> 4) = a := by bits
theorem byte0' (a : UInt8) : ((a >>> 2) <<< 2) ||| (((a &&& 3) <<< 4) >>> 4) = a := by bits
theorem byte1 (a b c : UInt8) :
    ((((a &&& 3) <<< 4) ||| (b >>> 4)) <<< 4) ||| ((((b &&& 15) <<< 2) ||| (c >>> 6)) >>> 2) = b := by
  bits
theorem byte1' (a b : UInt8) :
    ((((a &&& 3) <<< 4) ||| (b >>> 4)) <<< 4) ||| (((b &&& 15) <<< 2) >>> 2) = b := by bits
theorem byte2 (b c : UInt8) :
    ((((b &&& 15) <<< 2) ||| (c >>> 6)) <<< 6) ||| (c &&& 63) = c := by bits

/-! ## Theorems -/

theorem encode_length : ∀ b : Bytes, (encode b).length = 4 * ((b.length + 2) / 3)
  | [] => by simp [encode]
  | [_] => by simp [encode]
  | [_, _] => by simp [encode]
  | _ :: _ :: _ :: rest => by
    have ih := encode_length rest
    simp only [encode, List.length_cons, ih]
    omega

theorem encode_alphabet : ∀ (b : Bytes) (c : UInt8), c ∈ encode b → isAlphabet c = true ∨ c = 61
  | [], c, h => by simp [encode] at h
  | [_], c, h => by
    simp only [encode, List.mem_cons, List.not_mem_nil, or_false] at h
    rcases h with rfl | rfl | rfl | rfl <;> simp [isAlphabet_enc6]
  | [_, _], c, h => by
    simp only [encode, List.mem_cons, List.not_mem_nil, or_false] at h
    rcases h with rfl | rfl | rfl | rfl <;> simp [isAlphabet_enc6]
  | _ :: _ :: _ :: rest, c, h => by
    simp only [encode, List.mem_cons] at h
    rcases h with rfl | rfl | rfl | rfl | h
    · simp [isAlphabet_enc6]
    · simp [isAlphabet_enc6]
    · simp [isAlphabet_enc6]
    · simp [isAlphabet_enc6]
    · exact encode_alphabet rest c h

theorem decode_encode : ∀ b : Bytes, decode (encode b) = some b
  | [] => rfl
  | [a] => by
    simp [encode, decode, decodePadded, dec6_enc6, s0_lt, s1'_lt, byte0']
  | [a, b] => by
    simp [encode, decode, decodePadded, enc6_ne_pad, dec6_enc6, s0_lt, s1_lt, s2'_lt, byte0, byte1']
  | a :: b :: c :: rest => by
    have ih := decode_encode rest
    simp [encode, decode, decodeFull, enc6_ne_pad, dec6_enc6, s0_lt, s1_lt, s2_lt, s3_lt,
      byte0, byte1, byte2, ih]

end Abverif.Crypto7.Base64
