import Abverif.Model.Basic
/-
C07 — SHA-1 reference oracle (RFC 3174 / FIPS 180-4 §6.1).

Plain structural recursion over `List`/`Nat` fuel only, so that the kernel can evaluate `hash`
on short messages (`by decide +kernel`), and the compiled driver runs it in linear time.
-/
namespace Abverif.Crypto7.Sha1

/-- Circular left shift `S^n(x)`, `0 < n < 32`. -/
def rotl (x : UInt32) (n : UInt32) : UInt32 := (x <<< n) ||| (x >>> (32 - n))

/-- Big-endian 32-bit word from four bytes. -/
def word (a b c d : UInt8) : UInt32 :=
  (a.toUInt32 <<< 24) ||| (b.toUInt32 <<< 16) ||| (c.toUInt32 <<< 8) ||| d.toUInt32

/-- Big-endian bytes of a 32-bit word. -/
def wordBytes (w : UInt32) : Bytes :=
  [(w >>> 24).toUInt8, (w >>> 16).toUInt8, (w >>> 8).toUInt8, w.toUInt8]

/-- Group bytes into big-endian words (a trailing partial group is dropped; the padded message
never has one). -/
def toWords : Bytes → List UInt32
  | a :: b :: c :: d :: rest => word a b c d :: toWords rest
  | _ => []

/-- Number of zero bytes after the `0x80` marker: the smallest `k` with
`(len + 1 + k) % 64 = 56`. -/
def zeroPad (len : Nat) : Nat := (119 - len % 64) % 64

/-- The 64-bit big-endian encoding of the message length in bits. -/
def lengthBytes (len : Nat) : Bytes :=
  let n := len * 8
  [UInt8.ofNat (n >>> 56), UInt8.ofNat (n >>> 48), UInt8.ofNat (n >>> 40), UInt8.ofNat (n >>> 32),
   UInt8.ofNat (n >>> 24), UInt8.ofNat (n >>> 16), UInt8.ofNat (n >>> 8), UInt8.ofNat n]

/-- RFC 3174 §4: message ‖ `0x80` ‖ zeros ‖ 64-bit bit length; a multiple of 64 bytes. -/
def pad (msg : Bytes) : Bytes :=
  msg ++ (0x80 :: (List.replicate (zeroPad msg.length) 0 ++ lengthBytes msg.length))

/-- The five chaining words `H0 … H4`. -/
structure State where
  h0 : UInt32
  h1 : UInt32
  h2 : UInt32
  h3 : UInt32
  h4 : UInt32
deriving Repr, DecidableEq

def init : State :=
  { h0 := 0x67452301, h1 := 0xEFCDAB89, h2 := 0x98BADCFE, h3 := 0x10325476, h4 := 0xC3D2E1F0 }

/-- RFC 3174 §5: `f(t; B, C, D)`. -/
def f (t : Nat) (b c d : UInt32) : UInt32 :=
  if t < 20 then (b &&& c) ||| ((~~~ b) &&& d)
  else if t < 40 then b ^^^ c ^^^ d
  else if t < 60 then (b &&& c) ||| (b &&& d) ||| (c &&& d)
  else b ^^^ c ^^^ d

/-- RFC 3174 §5: `K(t)`. -/
def k (t : Nat) : UInt32 :=
  if t < 20 then 0x5A827999
  else if t < 40 then 0x6ED9EBA1
  else if t < 60 then 0x8F1BBCDC
  else 0xCA62C1D6

/-- Message schedule, newest word first: `rev = [W(t-1), W(t-2), …]`. Appends `n` more words
`W(t) = S^1(W(t-3) ^ W(t-8) ^ W(t-14) ^ W(t-16))`. Only the first 16 entries are inspected. -/
def expand : Nat → List UInt32 → List UInt32
  | 0, rev => rev
  | n + 1, rev =>
    let w := rotl (rev.getD 2 0 ^^^ rev.getD 7 0 ^^^ rev.getD 13 0 ^^^ rev.getD 15 0) 1
    expand n (w :: rev)

/-- `W(0) … W(79)` from the 16 words of one block. -/
def schedule (block : List UInt32) : List UInt32 := (expand 64 block.reverse).reverse

/-- Rounds `t, t+1, …` over the remaining schedule words (RFC 3174 §6.1 step (d)). -/
def rounds : Nat → List UInt32 → State → State
  | _, [], s => s
  | t, w :: ws, s =>
    let temp := rotl s.h0 5 + f t s.h1 s.h2 s.h3 + s.h4 + w + k t
    rounds (t + 1) ws { h0 := temp, h1 := s.h0, h2 := rotl s.h1 30, h3 := s.h2, h4 := s.h3 }

/-- Process one 16-word block (RFC 3174 §6.1 steps (a)–(e)). -/
def compress (h : State) (block : List UInt32) : State :=
  let s := rounds 0 (schedule block) h
  { h0 := h.h0 + s.h0, h1 := h.h1 + s.h1, h2 := h.h2 + s.h2, h3 := h.h3 + s.h3, h4 := h.h4 + s.h4 }

/-- Fold `compress` over consecutive 16-word blocks; `fuel` bounds the number of blocks. -/
def blocks : Nat → State → List UInt32 → State
  | 0, h, _ => h
  | fuel + 1, h, ws =>
    match ws with
    | [] => h
    | _ :: _ => blocks fuel (compress h (ws.take 16)) (ws.drop 16)

/-- The 20-byte digest `H0 ‖ H1 ‖ H2 ‖ H3 ‖ H4`, big-endian. -/
def serialize (s : State) : Bytes :=
  [(s.h0 >>> 24).toUInt8, (s.h0 >>> 16).toUInt8, (s.h0 >>> 8).toUInt8, s.h0.toUInt8,
   (s.h1 >>> 24).toUInt8, (s.h1 >>> 16).toUInt8, (s.h1 >>> 8).toUInt8, s.h1.toUInt8,
   (s.h2 >>> 24).toUInt8, (s.h2 >>> 16).toUInt8, (s.h2 >>> 8).toUInt8, s.h2.toUInt8,
   (s.h3 >>> 24).toUInt8, (s.h3 >>> 16).toUInt8, (s.h3 >>> 8).toUInt8, s.h3.toUInt8,
   (s.h4 >>> 24).toUInt8, (s.h4 >>> 16).toUInt8, (s.h4 >>> 8).toUInt8, s.h4.toUInt8]

/-- SHA-1 of a byte string. -/
def hash (msg : Bytes) : Bytes :=
  let ws := toWords (pad msg)
  serialize (blocks (ws.length / 16 + 1) init ws)

theorem serialize_length (s : State) : (serialize s).length = 20 := rfl

theorem hash_length (m : Bytes) : (hash m).length = 20 := rfl

end Abverif.Crypto7.Sha1
