import Abverif.Model.Utf8Spec
import Abverif.Generated.Utf8TablePy
import Abverif.Generated.Utf8TableC
import Abverif.Generated.Utf8UnrolledC
/-
C09 — the validator models of `Model/Utf8Spec.lean` instantiated with the tables and the macro that
translate/utf8.py REGENERATES from /repo on every run (`Abverif/Generated/Utf8*.lean`).
-/
namespace Abverif.Utf8
open Abverif

/-- `UTF8VALIDATOR_DFA_S[256 + (state << 4) + UTF8VALIDATOR_DFA_S[ba[i]]]` (utf8validator.py) -/
def pyStep (s o : Nat) : Nat := Gen.tablePy (256 + (s <<< 4) + Gen.tablePy o)

/-- `UTF8VALIDATOR_DFA[256 + state * 16 + UTF8VALIDATOR_DFA[data[i]]]` (_utf8validator.c) -/
def cTableStep (s o : Nat) : Nat := Gen.tableC (256 + s * 16 + Gen.tableC o)

/-- `DFA_TRANSITION(state, octet)` (_utf8validator.c) -/
def cUnrolledStep (s o : Nat) : Nat := Gen.unrolledC s o

/-- pure-Python `Utf8Validator.validate` over the regenerated table and constants -/
def validatePy : St → Bytes → Res × St := validateWith pyStep Gen.pyAccept Gen.pyReject

/-- `nvx_utf8vld_validate`: `impl == 2` runs the unrolled automaton, every other value (1 = table, 3 = SSE2,
4 = SSE4.1, anything else) runs the table automaton -/
def validateNvx (impl : Nat) : St → Bytes → Res × St :=
  if impl = 2 then validateNvxWith cUnrolledStep else validateNvxWith cTableStep

/-- the intended NVX behaviour once F1 is repaired (a rejected validator keeps rejecting, exactly like the
pure-Python one); used by the harness to recognise a repaired source -/
def validateNvxFixed (impl : Nat) : St → Bytes → Res × St :=
  if impl = 2 then validateWith cUnrolledStep 0 1 else validateWith cTableStep 0 1

end Abverif.Utf8
