import Abverif.Model.Utf8Spec
import Abverif.Generated.Utf8TablePy
import Abverif.Generated.Utf8TableC
import Abverif.Generated.Utf8UnrolledC
import Abverif.Generated.Utf8LoopC
/-
C09 — the validator models of `Model/Utf8Spec.lean` instantiated with the tables and the macro that
translate/utf8.py REGENERATES from /repo on every run (`Abverif/Generated/Utf8*.lean`).
-/
namespace Abverif.Utf8
open Abverif

/-- `UTF8VALIDATOR_DFA_S[256 + (state << 4) + UTF8VALIDATOR_DFA_S[ba[i]]]` (utf8validator.py) -/
def pyStep (s o : Nat) : Nat := Gen.tablePy (256 + (s <<< 4) + Gen.tablePy o)

/-- `UTF8VALIDATOR_DFA[256 + state * 16 + UTF8VALIDATOR_DFA[data[i]]]` (_utf8validator.c) -/
def cTableStep (s o : Nat) : Nat := Gen.tableC (256 + s * 16 + Gen.tableC o)

/-- `DFA_TRANSITION(state, octet)` (_utf8validator.c) -/
def cUnrolledStep (s o : Nat) : Nat := Gen.unrolledC s o

/-- pure-Python `Utf8Validator.validate` over the regenerated table and constants -/
def validatePy : St → Bytes → Res × St := validateWith pyStep Gen.pyAccept Gen.pyReject

/-- `nvx_utf8vld_validate`: `impl == 2` runs the unrolled automaton, every other value (1 = table, 3 = SSE2,
4 = SSE4.1, anything else) runs the table automaton; the loop-guard flags are read from the C source on every run -/
def validateNvx (impl : Nat) : St → Bytes → Res × St :=
  if impl = 2 then validateNvxWith Gen.unrolledLoopGuardsReject cUnrolledStep
  else validateNvxWith Gen.tableLoopGuardsReject cTableStep

/-- HISTORICAL: the NVX validator as shipped before /repo commit c2c187d5 (loops guarded by `&& state != 1`, finding
F1). Kept only for the negation witness `not_NvxLegacyEqPy` and so that the harness can name a regression. -/
def validateNvxLegacy (impl : Nat) : St → Bytes → Res × St :=
  if impl = 2 then validateNvxWith true cUnrolledStep else validateNvxWith true cTableStep

end Abverif.Utf8
