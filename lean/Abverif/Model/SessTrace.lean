import Abverif.Model.Session
/-
What properties C06 ("WAMP sessions end cleanly on every path and leave nothing pending") and C10 ("every invocation
gets exactly one terminal reply") say, as executable predicates over a *trace*: the events a session object was given
together with what it was observed to do for each of them.

  `Trace = List (SEv × List SOut)`
  `check mode tr : List (Nat × Viol)`       the violations, each with the index of the event it was seen at

The reader (`Scan`) remembers only what the properties talk about: is a transport attached, has the router welcomed
this side (between a WELCOME that `onWelcome` accepted and the GOODBYE / end of the connection — the router's view of
"the session is established"), whether the session / the attempt to join is over (`onLeave` has run and no HELLO was sent
since), which lifecycle callbacks / observers fired on this transport
connection, was a GOODBYE sent in this session, which futures were handed to the user / completed, which invocations
were accepted and are still owed their terminal reply. It knows nothing of tables, queues or scheduling; the only thing
it is told about the framework is *when the loop is idle* (`quiet`): after every event on Twisted, after `pump` on
asyncio — obligations that may be met by a queued callback ("onLeave after a failed challenge", "the reply of an
invocation") are due at the next idle point.

The same function judges the traces of the model (theorems in Proofs/C06.lean, C10.lean) and the traces observed on
the real code (harness/c06.py, c10.py through the driver: the failing-input search).
-/
namespace Abverif.SessTrace
open Abverif.Session

abbrev Trace := List (SEv × List SOut)

inductive Viol
  -- C06
  | hookOrder (h : Hook)          -- a lifecycle callback out of order, or a second time on one transport connection
  | obsOrder (e : ObsEv)          -- the same for the observer notifications
  | leaveUnexpected               -- `onLeave` although no joined session ended and nothing aborted the join
  | leaveMissing                  -- a joined session ended / the router aborted and `onLeave` did not follow
  | gate                          -- a message illegal in the current phase was not (only) rejected as a protocol violation
  | goodbyeTwice                  -- a second GOODBYE in one session
  | goodbyeUnanswered             -- the peer's GOODBYE was not answered although this side had not initiated closing
  | goodbyeEchoed                 -- … or was answered although this side had
  | pending (f : FutId)           -- a request handed out earlier is still pending after the end
  | apiAfterEnd                   -- an API call made without a transport did not raise TransportLost at once
  -- C10
  | replyUnsolicited (req : ReqId)   -- a terminal reply for an invocation that is not owed one (a second reply)
  | noReply (req : ReqId)            -- the endpoint's outcome is known, the loop is idle, the transport is up: no reply
  | lateProgress (req : ReqId)       -- a progressive result after the terminal reply
  | progressUnasked (req : ReqId)    -- a progressive result the caller did not ask for
  | endpointArgs (req : ReqId)       -- the endpoint was not called with exactly the caller's args/kwargs (+ details if asked)
  | invocationNotRejected (req : ReqId)   -- duplicate request id / unknown registration: not (only) a protocol violation
  | cancelledYields (req : ReqId)    -- an interrupted invocation was answered with YIELD
deriving DecidableEq, Repr

/-- an accepted invocation that is owed its terminal reply -/
structure Owed where
  asked : Bool        -- the caller asked for progressive results
  known : Bool        -- the endpoint's outcome is known (returned / raised / its result future completed or cancelled)
  cancelled : Bool    -- INTERRUPT arrived while the result was pending
deriving DecidableEq, Repr

structure Scan where
  up : Bool := false                 -- between `open` and `closed`
  welcomed : Bool := false           -- between a WELCOME `onWelcome` accepted and GOODBYE / the end of the connection
  ended : Bool := false              -- `onLeave` has run on this connection and this side has not sent HELLO again since:
                                     -- the session (or the attempt to join) is over, the router has nothing more to say
  rank : Nat := 0                    -- last lifecycle callback of this connection: 1 connect, 2 join, 3 leave, 4 disconnect
  orank : Nat := 0                   -- last observer notification: 1 connect, 2 join, 3 ready, 4 leave, 5 disconnect
  owedLeave : Nat := 0               -- ends of a session / aborted joins not yet followed by `onLeave`
  gb : Bool := false                 -- a GOODBYE was sent in this session
  rets : List FutId := []            -- futures handed to the user
  dones : List FutId := []           -- futures completed
  regOpts : List (FutId × Option Key) := []    -- `register()` calls: the future ↦ the endpoint's details_arg
  regIds : List (RegId × FutId × HId) := []    -- REGISTERED: registration id ↦ (its future, endpoint)
  regReq : List (FutId × HId) := []            -- `register()` calls: the future ↦ endpoint
  unregging : List FutId := []                 -- registrations `unregister()` was called on: no promise either way
  owed : List (ReqId × Owed) := []             -- accepted invocations without terminal reply
deriving DecidableEq, Repr

def hookRank : Hook → Nat
  | .onConnect => 1 | .onJoin => 2 | .onLeave => 3 | .onDisconnect => 4 | _ => 0

def obsRank : ObsEv → Nat
  | .connect => 1 | .join => 2 | .ready => 3 | .leave => 4 | .disconnect => 5

def isProgressive (m : OutMsg) : Bool := m.opts.any (fun e => e.1 == .progress)

/-- read one observation -/
def scanOut (σ : Scan) : SOut → Scan × List Viol
  | .hook h _ =>
    let r := hookRank h
    if r = 0 then (σ, []) else
    let v1 := if r ≤ σ.rank then [Viol.hookOrder h] else []
    let σ := { σ with rank := max r σ.rank }
    if h = .onLeave then
      let σ := { σ with ended := true }
      if σ.owedLeave = 0 then (σ, v1 ++ [.leaveUnexpected])
      else ({ σ with owedLeave := σ.owedLeave - 1 }, v1)
    else (σ, v1)
  | .fire e =>
    let r := obsRank e
    let v := if r ≤ σ.orank then [Viol.obsOrder e] else []
    let σ := { σ with orank := max r σ.orank }
    if e = .join then ({ σ with gb := false }, v) else (σ, v)
  | .send m =>
    match m.typ with
    | .hello => ({ σ with ended := false }, [])          -- `join()`: a new attempt
    | .goodbye => ({ σ with gb := true }, if σ.gb then [.goodbyeTwice] else [])
    | .yield_ =>
      if isProgressive m then
        match alookup m.req σ.owed with
        | none => (σ, [.lateProgress m.req])
        | some o => (σ, if o.asked then [] else [.progressUnasked m.req])
      else
        match alookup m.req σ.owed with
        | none => (σ, [.replyUnsolicited m.req])
        | some o => ({ σ with owed := adel m.req σ.owed }, if o.cancelled then [.cancelledYields m.req] else [])
    | .error =>
      match alookup m.req σ.owed with
      | none => (σ, [.replyUnsolicited m.req])
      | some _ => ({ σ with owed := adel m.req σ.owed }, [])
    | _ => (σ, [])
  | .ret f => ({ σ with rets := f :: σ.rets }, [])
  | .complete f o =>
    let σ := { σ with dones := f :: σ.dones }
    match o with
    | .value (.registration rid) =>
      (match alookup f σ.regReq with
       | some h => ({ σ with regIds := (rid, f, h) :: σ.regIds }, [])
       | none => (σ, []))
    | _ => (σ, [])
  | _ => (σ, [])

def scanOuts (σ : Scan) : List SOut → Scan × List Viol
  | [] => (σ, [])
  | o :: os =>
    let r1 := scanOut σ o
    let r2 := scanOuts r1.1 os
    (r2.1, r1.2 ++ r2.2)

/-- what the harness can see (`lost`: an exception that ended in an unhandled Deferred failure / the loop's handler;
`later`: a queue item) -/
def visible : SOut → Bool
  | .lost _ | .later _ => false
  | _ => true

/-- `welcomed`: the session is established; `ended`: the session or the attempt to join is over (`onLeave` has run) and
no new HELLO was sent — from then on nothing the router sends is legal, a handshake message least of all -/
def isIllegal (welcomed ended : Bool) : InMsg → Bool
  | .welcome _ | .abort | .challenge => welcomed || ended
  | .other => true          -- HELLO, AUTHENTICATE, … are never legal for a client session
  | _ => !welcomed

def isRequestApi : Api → Bool
  | .call _ _ _ _ _ | .publish _ _ _ _ _ | .subscribe _ _ _ _ | .register _ _ _ _ => true
  | _ => false

/-- is the loop idle after this event? (Twisted: callbacks run synchronously) -/
def quiet (mode : Sched) : SEv → Bool
  | .pump => true
  | _ => mode == .sync

/-- futures handed out that are still pending -/
def stillPending (σ : Scan) : List Viol :=
  (σ.rets.reverse.filter (fun f => !σ.dones.contains f)).map Viol.pending

def lookupReg (σ : Scan) (reg : RegId) : Option (FutId × HId) :=
  (σ.regIds.find? (fun e => e.1 == reg)).map (·.2)

/-- the keyword arguments property C10 says the endpoint gets -/
def expectedKw (σ : Scan) (obj : FutId) (p : Payload) (rp : Bool) : List (Key × KwVal) :=
  match (alookup obj σ.regOpts).join with
  | none => kwOfPayload p
  | some k => insertKw k (.callDetails obj rp) (kwOfPayload p)

def sameKw (a b : List (Key × KwVal)) : Bool :=
  a.length == b.length && a.all (fun e => b.contains e)

/-- what an event obliges, before looking at the observations (`outs`: the visible ones) -/
def preCheck (σ : Scan) (e : SEv) (outs : List SOut) : Scan × List Viol :=
  match e with
  | .open_ _ => ({ σ with up := true, welcomed := false, ended := false, rank := 0, orank := 0, owedLeave := 0 }, [])
  | .closed _ => ({ σ with owedLeave := σ.owedLeave + (if σ.welcomed then 1 else 0) }, [])
  | .msg m beh =>
    if isIllegal σ.welcomed σ.ended m then (σ, if outs = [.raise_ .protocolError] then [] else [.gate]) else
    match m with
    | .welcome _ =>
      let a := beh.headD {}
      ({ σ with welcomed := σ.up && !a.raises && a.ret == .unit }, [])
    | .goodbye => ({ σ with owedLeave := σ.owedLeave + 1, welcomed := false }, [])
    | .abort => ({ σ with owedLeave := σ.owedLeave + 1 }, [])
    | .challenge => ({ σ with owedLeave := σ.owedLeave + (if (beh.headD {}).raises then 1 else 0) }, [])
    | .invocation req reg p rp =>
      if (alookup req σ.owed).isSome then
        (σ, if outs = [.raise_ .protocolError] then [] else [.invocationNotRejected req])
      else
        match lookupReg σ reg with
        | none => (σ, if outs = [.raise_ .protocolError] then [] else [.invocationNotRejected req])
        | some (obj, h) =>
          let a := beh.headD {}
          -- the caller asked for progressive results iff the detail is there and is `true`
          let asked := rp == some true
          let hasProg := ((alookup obj σ.regOpts).join).isSome && asked
          let called := match outs.head? with
            | some (.endpoint req' _ _ _ _) => req' == req
            | _ => false
          let okCall := match outs.head? with
            | some (.endpoint req' obj' h' args kw) =>
              req' == req && obj' == obj && h' == h && args == p.args.getD [] && sameKw kw (expectedKw σ obj p hasProg)
            | _ => false
          let σ' := { σ with owed := aset req { asked := asked, known := a.raises || a.ret != .pending, cancelled := false } σ.owed }
          if σ.unregging.contains obj then
            -- UNREGISTER is under way: the registration may or may not be active any more
            (if called then σ' else σ, if called || outs = [.raise_ .protocolError] then [] else [.invocationNotRejected req])
          else (σ', if okCall then [] else [.endpointArgs req])
    | .interrupt req =>
      match alookup req σ.owed with
      | some o => if o.known then (σ, []) else ({ σ with owed := aupd req { o with known := true, cancelled := true } σ.owed }, [])
      | none => (σ, [])
    | _ => (σ, [])
  | .api a =>
    if isRequestApi a && !σ.up then (σ, if outs = [.raise_ .transportLost] then [] else [.apiAfterEnd]) else
    (match a, outs with
     | .register h _ o _, [.send _, .ret f] =>
       ({ σ with regOpts := (f, o.bind (·.detailsArg)) :: σ.regOpts, regReq := (f, h) :: σ.regReq }, [])
     | .unregister obj _, _ => ({ σ with unregging := obj :: σ.unregging }, [])
     | _, _ => (σ, []))
  | .resolve req _ | .fail req _ =>
    (match alookup req σ.owed with
     | some o => ({ σ with owed := aupd req { o with known := true } σ.owed }, [])
     | none => (σ, []))
  | _ => (σ, [])

/-- judge one event with its observations -/
def stepCheck (mode : Sched) (σ : Scan) (e : SEv) (outs : List SOut) : Scan × List Viol :=
  let outs := outs.filter visible
  -- what the event obliges, before looking at the observations
  let pre : Scan × List Viol := preCheck σ e outs
  let wasGb := σ.gb
  let wasJoined := σ.welcomed
  let wasEnded := σ.ended
  -- the observations, in order
  let r := scanOuts pre.1 outs
  let σ1 := r.1
  -- what must hold once the event is over
  let vGoodbye : List Viol :=
    match e with
    | .msg .goodbye _ =>
      if !wasJoined then [] else
      let replied := outs.any (fun o => match o with | .send m => m.typ == .goodbye | _ => false)
      if !wasGb && !replied then [.goodbyeUnanswered] else if wasGb && replied then [.goodbyeEchoed] else []
    | _ => []
  let q := quiet mode e
  let vLeave : List Viol := if q && σ1.owedLeave > 0 then [.leaveMissing] else []
  let σ2 : Scan := if q then { σ1 with owedLeave := 0 } else σ1
  -- the end of the connection fails whatever is pending; so does the end of the session when the default `onLeave` runs
  let vPending : List Viol :=
    match e with
    | .closed _ => stillPending σ2
    | .msg .goodbye beh => if wasJoined && (beh.headD {}).dflt then stillPending σ2 else []
    -- (an ABORT after the end is not handled at all: it is a protocol violation, see `gate`)
    | .msg .abort beh => if !wasJoined && !wasEnded && (beh.headD {}).dflt then stillPending σ2 else []
    | _ => []
  let σ3 : Scan := match e with | .closed _ => { σ2 with up := false, welcomed := false } | _ => σ2
  let vReply : List Viol :=
    if q && σ3.up then (σ3.owed.filter (fun x => x.2.known)).map (fun x => Viol.noReply x.1) else []
  let σ4 : Scan := if q && σ3.up then { σ3 with owed := σ3.owed.filter (fun x => !x.2.known) } else σ3
  (σ4, pre.2 ++ r.2 ++ vGoodbye ++ vLeave ++ vPending ++ vReply)

def checkFrom (mode : Sched) : Nat → Scan → Trace → List (Nat × Viol)
  | _, _, [] => []
  | i, σ, (e, outs) :: rest =>
    let r := stepCheck mode σ e outs
    r.2.map (fun v => (i, v)) ++ checkFrom mode (i + 1) r.1 rest

def check (mode : Sched) (tr : Trace) : List (Nat × Viol) := checkFrom mode 0 {} tr

/-- the violations property C06 owns / property C10 owns -/
def Viol.isC10 : Viol → Bool
  | .replyUnsolicited _ | .noReply _ | .lateProgress _ | .progressUnasked _ | .endpointArgs _
  | .invocationNotRejected _ | .cancelledYields _ => true
  | _ => false

/-- the trace of a history of the model -/
def traceOf (s : Sess) : List SEv → Trace
  | [] => []
  | e :: es => (e, (step s e).2) :: traceOf (step s e).1 es

end Abverif.SessTrace
