import Abverif.Model.Basic
/-
Batching of serialized WAMP messages (serializer.py, `*ObjectSerializer.serialize/unserialize` with `batched=True`).

* JSON: every message is followed by the octet 0x18 (`b"\30"`); `unserialize` does `payload.split(b"\30")[:-1]`
  and raises "batch format error" if that list is empty.
* MessagePack / CBOR / UBJSON: every message is preceded by its length as a big-endian u32 (`struct.pack("!L", n)`);
  `unserialize` walks the buffer with three error exits.
-/
namespace Abverif.Batch

def SEP : UInt8 := 0x18

/-- `b"".join(m + b"\30" for m in ms)` -/
def batchJson : List Bytes → Bytes
  | [] => []
  | m :: ms => m ++ SEP :: batchJson ms

/-- Python `payload.split(b"\30")` (always at least one piece) -/
def splitSep : Bytes → List Bytes
  | [] => [[]]
  | b :: bs =>
      if b == SEP then [] :: splitSep bs
      else match splitSep bs with
        | [] => [[b]]          -- unreachable: splitSep never returns []
        | p :: ps => (b :: p) :: ps

inductive BatchErr
  | empty        -- "batch format error"      (JSON: no 0x18 at all)
  | prefixShort  -- "batch format error [1]"  (fewer than 4 octets left for a length prefix)
  | dataShort    -- "batch format error [2]"  (length prefix points beyond the buffer)
  | trailing     -- "batch format error [3]"  (unreachable in the real loop as well)
  deriving DecidableEq, Repr

/-- `chunks = payload.split(b"\30")[:-1]; if len(chunks) == 0: raise` -/
def unbatchJson (p : Bytes) : Except BatchErr (List Bytes) :=
  let chunks := (splitSep p).dropLast
  if chunks.isEmpty then .error .empty else .ok chunks

/-- `struct.pack("!L", n)` for n < 2^32 -/
def u32be (n : Nat) : Bytes :=
  [UInt8.ofNat (n / 16777216 % 256), UInt8.ofNat (n / 65536 % 256), UInt8.ofNat (n / 256 % 256), UInt8.ofNat (n % 256)]

/-- `struct.unpack("!L", b)[0]` -/
def u32dec (a b c d : UInt8) : Nat := a.toNat * 16777216 + b.toNat * 65536 + c.toNat * 256 + d.toNat

def batchBin : List Bytes → Bytes
  | [] => []
  | m :: ms => u32be m.length ++ m ++ batchBin ms

/-- the `while i < N` loop; `fuel` bounds the number of iterations (every iteration consumes ≥ 4 octets) -/
def unbatchBinAux : Nat → Bytes → Except BatchErr (List Bytes)
  | _, [] => .ok []                                  -- i == N: loop ends, `i != N` check passes
  | 0, _ => .error .trailing
  | fuel + 1, a :: b :: c :: d :: rest =>
      let l := u32dec a b c d
      if l > rest.length then .error .dataShort      -- i + 4 + l > N
      else
        match unbatchBinAux fuel (rest.drop l) with
        | .ok ms => .ok (rest.take l :: ms)
        | .error e => .error e
  | _ + 1, _ => .error .prefixShort                  -- i + 4 > N

def unbatchBin (p : Bytes) : Except BatchErr (List Bytes) := unbatchBinAux (p.length + 1) p

end Abverif.Batch
