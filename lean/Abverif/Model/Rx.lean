import Abverif.Generated.UnicodeTables
/-
A mini model of Python `re` on `str` (no flags), restricted to the syntax used by the URI / realm / attribute
patterns of `autobahn/wamp/message.py`:  character classes (with `\d`, `\s` as the *Unicode* sets of `re`),
concatenation, alternation, `* + ? {m,n}`, the implicit start anchor and the end anchors `$` / `\Z`.
Groups carry no semantics for `.match(...) is not None`.  Text is `List Char`.

The matcher is a position-set ("bit mask") simulation: a mask `m : List Bool` is aligned with the tails of the
subject `s` (`m[i] = true` ⇔ position `i` is alive); `run r s m` is the set of positions reachable from `m` by
consuming one word of `r`.  Every operation is a linear pass, loops are bounded by `s.length` (every useful
iteration consumes a character) and stop as soon as the frontier is empty, so matching is polynomial
(`{2,254}` on a 255-character realm: 252 passes over the mask).  Everything is structurally recursive, hence
evaluable by `decide`.  Correctness against the denotational semantics: `Proofs/Lemmas/RxTheory.lean`.
-/
namespace Abverif.Rx

inductive CItem where
  | ch (c : Char)
  | range (lo hi : Char)
  | digit
  | space
deriving Repr, DecidableEq

structure CClass where
  neg : Bool
  items : List CItem
deriving Repr, DecidableEq

inductive Rx where
  | eps
  | cls (c : CClass)
  | seq (a b : Rx)
  | alt (a b : Rx)
  | star (a : Rx)
  | plus (a : Rx)
  | opt (a : Rx)
  | rep (a : Rx) (m n : Nat)
deriving Repr, DecidableEq

inductive EndAnchor where
  | dollar
  | absEnd
deriving Repr, DecidableEq

structure Pat where
  body : Rx
  anchor : EndAnchor
deriving Repr, DecidableEq

/-! ## character classes -/

def inRanges (rs : List (Nat × Nat)) (n : Nat) : Bool :=
  rs.any (fun r => decide (r.1 ≤ n) && decide (n ≤ r.2))

/-- `re.match(r"\d", c)` on a one-character `str` (Unicode category Nd). -/
def isDigit (c : Char) : Bool := inRanges digitRanges c.toNat

/-- `re.match(r"\s", c)` on a one-character `str`. -/
def isSpace (c : Char) : Bool := inRanges spaceRanges c.toNat

def CItem.contains : CItem → Char → Bool
  | .ch a, c => decide (c = a)
  | .range lo hi, c => decide (lo ≤ c) && decide (c ≤ hi)
  | .digit, c => isDigit c
  | .space, c => isSpace c

def CClass.contains (C : CClass) (c : Char) : Bool :=
  if C.neg then !(C.items.any (·.contains c)) else C.items.any (·.contains c)

/-! ## position sets -/

abbrev Mask := List Bool

/-- pointwise or (a missing entry is `false`) -/
def Mask.union : Mask → Mask → Mask
  | [], ys => ys
  | xs, [] => xs
  | x :: xs, y :: ys => (x || y) :: Mask.union xs ys

def stepGo (C : CClass) : List Char → Mask → Mask
  | c :: cs, b :: bs => (b && C.contains c) :: stepGo C cs bs
  | _, _ => []

/-- consume one character of class `C`: position `i+1` is alive iff `i` was and `s[i] ∈ C` -/
def step (C : CClass) (s : List Char) (m : Mask) : Mask := false :: stepGo C s m

/-- `f` applied exactly `k` times -/
def iterN (f : Mask → Mask) : Nat → Mask → Mask
  | 0, m => m
  | k + 1, m => iterN f k (f m)

/-- union of `f^0 m, …, f^k m`; stops early on an empty frontier -/
def iterU (f : Mask → Mask) : Nat → Mask → Mask
  | 0, m => m
  | k + 1, m => if m.any id then Mask.union m (iterU f k (f m)) else m

def run : Rx → List Char → Mask → Mask
  | .eps, _, m => m
  | .cls C, s, m => step C s m
  | .seq a b, s, m => run b s (run a s m)
  | .alt a b, s, m => Mask.union (run a s m) (run b s m)
  | .star a, s, m => iterU (run a s) s.length m
  | .plus a, s, m => iterU (run a s) s.length (run a s m)
  | .opt a, s, m => Mask.union m (run a s m)
  | .rep a lo hi, s, m => if hi < lo then [] else iterU (run a s) (hi - lo) (iterN (run a s) lo m)

/-- is the end position alive? -/
def accepts : List Char → Mask → Bool
  | _, [] => false
  | [], b :: _ => b
  | _ :: cs, _ :: bs => accepts cs bs

/-- whole-string match -/
def Rx.matchesFull (r : Rx) (s : List Char) : Bool := accepts s (run r s [true])

/-- `re.compile("^" body anchor).match(s) is not None`; `$` (no MULTILINE) also matches just before a
trailing `"\n"`, `\Z` only at the very end. -/
def Pat.matches (p : Pat) (s : List Char) : Bool :=
  match p.anchor with
  | .absEnd => p.body.matchesFull s
  | .dollar => p.body.matchesFull s || (s.getLast? == some '\n' && p.body.matchesFull s.dropLast)

end Abverif.Rx
