import Abverif.Model.Session
import Abverif.Generated.SendTable
/-
What the `send()` of each of the four WAMP transports does with an endpoint result that is unfit for the wire: the table
regenerated from the source (translate/sendtab.py), read as outcomes of the session model's `replySend`.
-/
namespace Abverif.Session

inductive Transport | wsTwisted | wsAsyncio | rsTwisted | rsAsyncio
deriving DecidableEq, Repr

def Transport.all : List Transport := [.wsTwisted, .wsAsyncio, .rsTwisted, .rsAsyncio]

def Transport.row : Transport → Nat
  | .wsTwisted => 0 | .wsAsyncio => 1 | .rsTwisted => 2 | .rsAsyncio => 3

/-- why a result cannot go out as it is -/
inductive Cause | unserializable | oversize
deriving DecidableEq, Repr

def Cause.col : Cause → Nat
  | .unserializable => 0 | .oversize => 1

def classOut : Nat → SendOut
  | 0 => .ok
  | 1 => .serialization
  | 2 => .payloadExceeded
  | _ => .other

/-- what `send()` of transport `t` raises for a result that is unfit for the wire because of `c` -/
def sendTable (t : Transport) (c : Cause) : SendOut := classOut (Abverif.SendTable.sendClass t.row c.col)

end Abverif.Session
