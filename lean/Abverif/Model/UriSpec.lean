import Abverif.Model.Rx
/-
The *intended* grammars, written without any regex machinery (only `isSpace` is shared with `Model/Rx.lean`,
because "whitespace" in the loose URI rule means the `\s` of `re`).

WAMP URI (`check_or_raise_uri`): components separated by '.', each character of each component satisfies the
mode's character predicate (strict: ASCII `[0-9a-z_]`; loose: anything except whitespace, '.', '#'), and
  nonEmpty  : every component is non-empty
  lastEmpty : every component except the last is non-empty
  empty     : no constraint on emptiness
-/
namespace Abverif.Uri
open Abverif.Rx (isSpace)

def consHead (c : Char) : List (List Char) → List (List Char)
  | [] => [[c]]
  | h :: t => (c :: h) :: t

/-- split on '.'; `splitDot [] = [[]]`, `splitDot "a..b" = ["a", "", "b"]` -/
def splitDot : List Char → List (List Char)
  | [] => [[]]
  | c :: cs => if c = '.' then [] :: splitDot cs else consHead c (splitDot cs)

def asciiDigit (c : Char) : Bool := decide ('0' ≤ c) && decide (c ≤ '9')
def lowerChar (c : Char) : Bool := decide ('a' ≤ c) && decide (c ≤ 'z')
def upperChar (c : Char) : Bool := decide ('A' ≤ c) && decide (c ≤ 'Z')

/-- ASCII only — the intended meaning of `[\da-z_]` -/
def strictChar (c : Char) : Bool := asciiDigit c || lowerChar c || decide (c = '_')

def looseChar (c : Char) : Bool := !isSpace c && decide (c ≠ '.') && decide (c ≠ '#')

inductive Mode where
  | nonEmpty
  | lastEmpty
  | empty
deriving Repr, DecidableEq

/-- selection precedence of `check_or_raise_uri`: `allow_last_empty` wins over `allow_empty_components` -/
def mode (allowEmpty allowLastEmpty : Bool) : Mode :=
  if allowLastEmpty then .lastEmpty else if allowEmpty then .empty else .nonEmpty

def Spec.okWith (P : Char → Bool) (md : Mode) (s : List Char) : Bool :=
  let comps := splitDot s
  comps.all (fun comp => comp.all P) &&
  match md with
  | .nonEmpty => comps.all (fun comp => !comp.isEmpty)
  | .lastEmpty => comps.dropLast.all (fun comp => !comp.isEmpty)
  | .empty => true

def charPred (strict : Bool) : Char → Bool := if strict then strictChar else looseChar

def Spec.ok (strict allowEmpty allowLastEmpty : Bool) (s : List Char) : Bool :=
  Spec.okWith (charPred strict) (mode allowEmpty allowLastEmpty) s

/-! ## custom attribute: "x_" optionally followed by `[a-z][0-9a-z_]+`
(the `…With` forms are parametrised by the character predicates; the Spec instantiates them with the ASCII sets) -/

def CustomAttr.Spec.okWith (first rest : Char → Bool) (s : List Char) : Bool :=
  match s with
  | a :: b :: tl =>
    decide (a = 'x') && decide (b = '_') &&
      (match tl with
       | [] => true
       | c :: cs => first c && !cs.isEmpty && cs.all rest)
  | _ => false

def CustomAttr.Spec.ok (s : List Char) : Bool := CustomAttr.Spec.okWith lowerChar strictChar s

/-! ## realm names -/

def alphaChar (c : Char) : Bool := upperChar c || lowerChar c
def punctChar (c : Char) : Bool := decide (c = '_') || decide (c = '-') || decide (c = '@') || decide (c = '.')
def realmChar (c : Char) : Bool := alphaChar c || asciiDigit c || punctChar c
def hexChar (c : Char) : Bool :=
  (decide ('A' ≤ c) && decide (c ≤ 'F')) || (decide ('a' ≤ c) && decide (c ≤ 'f')) || asciiDigit c
def ensChar (c : Char) : Bool := lowerChar c || asciiDigit c || punctChar c

def Realm.Spec.nameWith (first rest : Char → Bool) (s : List Char) : Bool :=
  match s with
  | c :: cs => first c && decide (2 ≤ cs.length) && decide (cs.length ≤ 254) && cs.all rest
  | [] => false

/-- standalone realm: a letter, then 2..254 of `[A-Za-z0-9_\-@.]` -/
def Realm.Spec.name (s : List Char) : Bool := Realm.Spec.nameWith alphaChar realmChar s

def Realm.Spec.ethWith (hex : Char → Bool) (s : List Char) : Bool :=
  decide (s.take 2 = ['0', 'x']) && decide ((s.drop 2).length = 40) && (s.drop 2).all hex

/-- "0x" + 40 hex digits -/
def Realm.Spec.eth (s : List Char) : Bool := Realm.Spec.ethWith hexChar s

def Realm.Spec.ensWith (P : Char → Bool) (s : List Char) : Bool :=
  let body := s.take (s.length - 4)
  decide (s.drop (s.length - 4) = ['.', 'e', 't', 'h']) &&
    decide (2 ≤ body.length) && decide (body.length ≤ 250) && body.all P

/-- 2..250 of `[a-z0-9_\-@.]` followed by ".eth" -/
def Realm.Spec.ens (s : List Char) : Bool := Realm.Spec.ensWith ensChar s

def Realm.Spec.ensReverseWith (P : Char → Bool) (s : List Char) : Bool :=
  let body := s.drop 4
  decide (s.take 4 = ['e', 't', 'h', '.']) &&
    decide (2 ≤ body.length) && decide (body.length ≤ 250) && body.all P

/-- "eth." followed by 2..250 of `[a-z0-9_\-@.]` -/
def Realm.Spec.ensReverse (s : List Char) : Bool := Realm.Spec.ensReverseWith ensChar s

end Abverif.Uri
