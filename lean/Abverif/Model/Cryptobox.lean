/-
C20 — model of WAMP-cryptobox payload encryption:
  `autobahn.wamp.cryptobox` (Key, KeyRing.set_key, `_get_box`, encode, decode) and the payload-transparency branches
  of `autobahn.wamp.protocol.ApplicationSession` (publish / EVENT, call / INVOCATION, YIELD / RESULT, ERROR both ways).

Import-free. The NaCl box is an ABSTRACT authenticated encryption `Box` (its laws are hypotheses of the theorems, see
`BoxLaws`; never axioms), the inner JSON envelope `{uri, args, kwargs}` is an abstract `InnerCodec` (law: what was
serialised is read back; serialisation may FAIL, e.g. on a `datetime`). URIs are `List Char` (prefix matching of
`pytrie.StringTrie` is on characters, not on URI components).
-/
namespace Abverif.Cryptobox

abbrev Uri := List Char

/-! ### abstract AEAD -/

structure Box (K N P C : Type) where
  lock : K → N → P → C
  unlock : K → C → Option P

/-- The assumptions on the primitive (hypotheses of theorems). -/
structure BoxLaws {K N P C : Type} (b : Box K N P C) : Prop where
  /-- correctness -/
  unlock_lock : ∀ k n p, b.unlock k (b.lock k n p) = some p
  /-- ciphertext integrity: whatever opens under `k` was sealed under `k` -/
  integrity : ∀ k c p, b.unlock k c = some p → ∃ n, c = b.lock k n p
  /-- a different key does not open -/
  wrong_key : ∀ k k' n p, k' ≠ k → b.unlock k' (b.lock k n p) = none

/-! ### keys and the key ring -/

/-- `cryptobox.Key`: the two NaCl boxes (each is a precomputed shared key, or absent). `Box(a_priv, b_pub)` and
`Box(b_priv, a_pub)` hold the same shared key; that is what "matching key roles" means below. -/
structure Key (K : Type) where
  originatorBox : Option K
  responderBox : Option K
deriving Repr, DecidableEq

structure KeyRing (K : Type) where
  /-- `_uri_to_key` (a trie used as a dict: one entry per URI) -/
  keys : List (Uri × Key K)
  /-- `_default_key` -/
  default : Option (Key K)
deriving Repr

def lookup {A : Type} (u : Uri) : List (Uri × A) → Option A
  | [] => none
  | (p, a) :: r => if p = u then some a else lookup u r

def remove {A : Type} (u : Uri) : List (Uri × A) → List (Uri × A)
  | [] => []
  | (p, a) :: r => if p = u then remove u r else (p, a) :: remove u r

/-- `KeyRing.set_key(uri, key)` -/
def KeyRing.setKey {K : Type} (ring : KeyRing K) (u : Uri) (key : Option (Key K)) : KeyRing K :=
  if u = [] then { ring with default := key }
  else match key with
    | none => { ring with keys := remove u ring.keys }
    | some k => { ring with keys := (u, k) :: remove u ring.keys }

/-- `StringTrie.longest_prefix_value(uri)` (`none` = KeyError) -/
def longestPrefix {A : Type} : List (Uri × A) → Uri → Option (Uri × A)
  | [], _ => none
  | (p, a) :: r, u =>
    match longestPrefix r u with
    | some (bp, ba) => if p.isPrefixOf u ∧ bp.length < p.length then some (p, a) else some (bp, ba)
    | none => if p.isPrefixOf u then some (p, a) else none

/-- `KeyRing._get_box(is_originating, uri, match_exact)` -/
def getBox {K : Type} (ring : KeyRing K) (isOriginating : Bool) (u : Uri) (matchExact : Bool := false) : Option K :=
  let found : Option (Key K) :=
    if matchExact then lookup u ring.keys else (longestPrefix ring.keys u).map (·.2)
  let key : Option (Key K) :=
    match found with
    | some k => some k
    | none => ring.default            -- `except KeyError: if self._default_key: …`
  match key with
  | some k => if isOriginating then k.originatorBox else k.responderBox
  | none => none

/-! ### the inner envelope -/

structure Inner (X Y : Type) where
  uri : Option Uri
  args : Option X
  kwargs : Option Y
deriving Repr, DecidableEq

/-- `_json_dumps(...).encode("utf8")` / `_json_loads(...decode("utf8"))` + `payload.get(...)` + the type checks of the
`msg.args` / `msg.kwargs` setters (all inside the same `try`). -/
structure InnerCodec (X Y P : Type) where
  ser : Inner X Y → Option P
  deser : P → Option (Inner X Y)

def InnerCodec.Laws {X Y P : Type} (c : InnerCodec X Y P) : Prop :=
  ∀ i p, c.ser i = some p → c.deser p = some i

/-! ### the 6-set of a payload-carrying message -/

inductive Algo | cryptobox | other
deriving Repr, DecidableEq
inductive Ser | json | other
deriving Repr, DecidableEq

structure AppPayload (X Y C : Type) where
  args : Option X
  kwargs : Option Y
  payload : Option C
  encAlgo : Option Algo
  encSerializer : Option Ser
deriving Repr, DecidableEq

def clearMsg {X Y C : Type} (a : Option X) (k : Option Y) : AppPayload X Y C :=
  { args := a, kwargs := k, payload := none, encAlgo := none, encSerializer := none }

/-- `Msg(…, payload=encoded.payload, enc_algo="cryptobox", enc_key=None, enc_serializer="json")` -/
def sealedMsg {X Y C : Type} (c : C) : AppPayload X Y C :=
  { args := none, kwargs := none, payload := some c, encAlgo := some .cryptobox, encSerializer := some .json }

/-! ### encode / decode -/

inductive Enc (C : Type)
  | clear            -- `return None`: "the payload travels unencrypted (normal)"
  | sealed (c : C)
  | raised           -- the inner serialisation raised
deriving Repr, DecidableEq

variable {K N P C X Y : Type}

/-- `KeyRing.encode(is_originating, uri, args, kwargs)` -/
def encode (b : Box K N P C) (codec : InnerCodec X Y P) (ring : KeyRing K) (isOriginating : Bool) (u : Uri)
    (a : Option X) (kw : Option Y) (nonce : N) : Enc C :=
  match getBox ring isOriginating u with
  | none => .clear
  | some k =>
    match codec.ser { uri := some u, args := a, kwargs := kw } with
    | none => .raised
    | some p => .sealed (b.lock k nonce p)

inductive Dec (X Y : Type)
  | ok (uri : Option Uri) (args : Option X) (kwargs : Option Y)
  | raised
deriving Repr, DecidableEq

/-- `KeyRing.decode(is_originating, uri, EncodedPayload(msg.payload, msg.enc_algo, msg.enc_serializer, msg.enc_key))` -/
def decode (b : Box K N P C) (codec : InnerCodec X Y P) (ring : KeyRing K) (isOriginating : Bool) (u : Uri)
    (m : AppPayload X Y C) : Dec X Y :=
  if m.encAlgo ≠ some .cryptobox then .raised        -- assert
  else
    match getBox ring isOriginating u with
    | none => .raised                                  -- "can't find key!"
    | some k =>
      match m.payload with
      | none => .raised
      | some c =>
        match b.unlock k c with
        | none => .raised                              -- CryptoError
        | some p =>
          if m.encSerializer ≠ some Ser.json then .raised
          else
            match codec.deser p with
            | none => .raised
            | some i => .ok i.uri i.args i.kwargs

/-! ### session branches -/

/-- a session as far as C20 is concerned: its payload codec -/
abbrev Codec (K : Type) := Option (KeyRing K)

inductive Sent (M : Type)
  | msg (m : M)
  | raised           -- the exception leaves the API call / the errback: nothing is sent
deriving Repr, DecidableEq

/-- `publish(topic, *args, **kwargs)` and `call(procedure, *args, **kwargs)`: `encode(True, uri, args, kwargs)` -/
def originate (b : Box K N P C) (codec : InnerCodec X Y P) (s : Codec K) (u : Uri) (a : Option X) (kw : Option Y)
    (nonce : N) : Sent (AppPayload X Y C) :=
  match s with
  | none => .msg (clearMsg a kw)
  | some ring =>
    match encode b codec ring true u a kw nonce with
    | .clear => .msg (clearMsg a kw)
    | .sealed c => .msg (sealedMsg c)
    | .raised => .raised

inductive EncErr
  | noPayloadCodec        -- wamp.error.no_payload_codec
  | decryptError          -- wamp.error.encryption.decrypt_error
  | trustedUriMismatch    -- wamp.error.encryption.trusted_uri_mismatch
deriving Repr, DecidableEq

/-- the common receive pattern: `if msg.enc_algo: (no codec | try decode except | URI comparison)` -/
inductive Recv (X Y : Type)
  | plain (args : Option X) (kwargs : Option Y)       -- not encoded: `msg.args`, `msg.kwargs` as they are
  | decoded (args : Option X) (kwargs : Option Y)
  | rejected (e : EncErr)
deriving Repr, DecidableEq

def receive (b : Box K N P C) (codec : InnerCodec X Y P) (s : Codec K) (isOriginating : Bool) (envelope : Uri)
    (m : AppPayload X Y C) : Recv X Y :=
  match m.encAlgo with
  | none => .plain m.args m.kwargs
  | some _ =>
    match s with
    | none => .rejected .noPayloadCodec
    | some ring =>
      match decode b codec ring isOriginating envelope m with
      | .raised => .rejected .decryptError
      | .ok u a kw => if u ≠ some envelope then .rejected .trustedUriMismatch else .decoded a kw

/-- EVENT at the subscriber (`decode(False, topic, …)`): the handler is invoked or the event is silently ignored -/
inductive EventOut (X Y : Type)
  | invoked (args : Option X) (kwargs : Option Y) (encrypted : Bool)
  | ignored (why : EncErr)
deriving Repr, DecidableEq

def onEvent (b : Box K N P C) (codec : InnerCodec X Y P) (s : Codec K) (topic : Uri) (m : AppPayload X Y C) : EventOut X Y :=
  match receive b codec s false topic m with
  | .plain a kw => .invoked a kw false
  | .decoded a kw => .invoked a kw true
  | .rejected e => .ignored e

/-- INVOCATION at the callee (`decode(False, proc, …)`): the endpoint is invoked, or an ERROR reply is produced from
`ApplicationError(ENC_…)` by `_message_from_exception` -/
inductive InvOut (X Y : Type)
  | invoked (args : Option X) (kwargs : Option Y) (encrypted : Bool)
  | encError (e : EncErr)
deriving Repr, DecidableEq

def onInvocation (b : Box K N P C) (codec : InnerCodec X Y P) (s : Codec K) (proc : Uri) (m : AppPayload X Y C) : InvOut X Y :=
  match receive b codec s false proc m with
  | .plain a kw => .invoked a kw false
  | .decoded a kw => .invoked a kw true
  | .rejected e => .encError e

/-- the fixed texts of the replies that stand in for a payload which may not be sent. Each is an `args` list holding
one string built from the procedure / error URI (and, for the last, the text of the codec's exception) — never from
the payload; here: parameters that the reply functions cannot compute from `args` / `kwargs`. -/
structure Notes (X : Type) where
  /-- 'success return value from invoked procedure "…" could not be encrypted' -/
  resultNotEncrypted : X
  /-- 'arguments of error "…" not sent: the request was encrypted, but there is no key to encrypt the error' -/
  errorArgsNotSent : X
  /-- 'error return value from invoked procedure "…" could not be turned into a WAMP error message: …' -/
  errorNotEncodable : X
deriving Repr, DecidableEq

def invalidPayloadUri : Uri := "wamp.error.invalid_payload".toList

/-- what the callee sends in answer to an INVOCATION -/
inductive Reply (X Y C : Type)
  | yield (m : AppPayload X Y C)
  | error (uri : Uri) (m : AppPayload X Y C)
deriving Repr, DecidableEq

def Reply.msg {X Y C : Type} : Reply X Y C → AppPayload X Y C
  | .yield m => m
  | .error _ m => m

/-- the success path of an invocation: `if msg.enc_algo: … try: encode(False, proc, …) except: log`, then
`if encoded_payload: Yield(payload=…) elif msg.enc_algo: Error(INVALID_PAYLOAD, [text]) else: Yield(args, kwargs)` —
the result of an encrypted invocation leaves sealed or not at all -/
def yieldReply (b : Box K N P C) (codec : InnerCodec X Y P) (t : Notes X) (s : Codec K) (invocationEncrypted : Bool)
    (proc : Uri) (a : Option X) (kw : Option Y) (nonce : N) : Reply X Y C :=
  if invocationEncrypted then
    let sealed : Option C :=
      match s with
      | none => none                            -- "trying to send encrypted payload, but no keyring active"
      | some ring =>
        match encode b codec ring false proc a kw nonce with
        | .sealed c => some c
        | .clear => none
        | .raised => none                       -- "failed to encrypt application payload" (logged)
    match sealed with
    | some c => .yield (sealedMsg c)
    | none => .error invalidPayloadUri (clearMsg (some t.resultNotEncrypted) none)
  else .yield (clearMsg a kw)

/-- `_message_from_exception(…, enc_algo)`: `if self._payload_codec: encode(False, error, args, kwargs)` — keyed by the
ERROR URI; `elif enc_algo:` (the request was encrypted, nothing covers the error URI) the ERROR keeps its URI and
carries the fixed text instead of the exception's arguments -/
def errorMsg (b : Box K N P C) (codec : InnerCodec X Y P) (t : Notes X) (s : Codec K) (requestEncrypted : Bool)
    (errorUri : Uri) (a : Option X) (kw : Option Y) (nonce : N) : Sent (AppPayload X Y C) :=
  let unsealed : AppPayload X Y C :=
    if requestEncrypted then clearMsg (some t.errorArgsNotSent) none else clearMsg a kw
  match s with
  | none => .msg unsealed
  | some ring =>
    match encode b codec ring false errorUri a kw nonce with
    | .sealed c => .msg (sealedMsg c)
    | .clear => .msg unsealed
    | .raised => .raised

/-- the errback of an invocation: `try: reply = _message_from_exception(…, msg.enc_algo) except Exception: reply =
Error(INVALID_PAYLOAD, [text])` — an ERROR is always sent -/
def invocationErrorReply (b : Box K N P C) (codec : InnerCodec X Y P) (t : Notes X) (s : Codec K)
    (invocationEncrypted : Bool) (errorUri : Uri) (a : Option X) (kw : Option Y) (nonce : N) : Reply X Y C :=
  match errorMsg b codec t s invocationEncrypted errorUri a kw nonce with
  | .msg m => .error errorUri m
  | .raised => .error invalidPayloadUri (clearMsg (some t.errorNotEncodable) none)

/-- outcome of the caller's pending call -/
inductive CallOut (X Y : Type)
  | result (args : Option X) (kwargs : Option Y)
  | appError (uri : Uri) (args : Option X) (kwargs : Option Y)
  /-- the exception class the CALLER registered for the error URI (`define` / `@wamp.error`), built from the arguments -/
  | userError (cls : String) (args : Option X) (kwargs : Option Y)
  | encFailed (e : EncErr)
deriving Repr, DecidableEq

/-- RESULT at the caller: `decode(True, call_request.procedure, …)` -/
def onResult (b : Box K N P C) (codec : InnerCodec X Y P) (s : Codec K) (proc : Uri) (m : AppPayload X Y C) : CallOut X Y :=
  match receive b codec s true proc m with
  | .plain a kw => .result a kw
  | .decoded a kw => .result a kw
  | .rejected e => .encFailed e

/-- ERROR at the caller (`_exception_from_message`): `decode(True, msg.error, …)` -/
def onError (b : Box K N P C) (codec : InnerCodec X Y P) (s : Codec K) (errorUri : Uri) (m : AppPayload X Y C) : CallOut X Y :=
  match receive b codec s true errorUri m with
  | .plain a kw => .appError errorUri a kw
  | .decoded a kw => .appError errorUri a kw
  | .rejected e => .encFailed e

/-- ERROR at the caller with the caller's URI → class registry (`_uri_to_ecls`) and constructors:
`if enc_err: return enc_err` comes BEFORE the registry lookup, so an encryption failure is never replaced by a mapped
class; otherwise the registered class is built when its constructor accepts (args, kwargs), else the generic
application error (C18). -/
def onErrorMapped (b : Box K N P C) (codec : InnerCodec X Y P) (s : Codec K) (mapped : Uri → Option String)
    (ctorOk : String → Option X → Option Y → Bool) (errorUri : Uri) (m : AppPayload X Y C) : CallOut X Y :=
  match receive b codec s true errorUri m with
  | .rejected e => .encFailed e
  | .plain a kw =>
    match mapped errorUri with
    | some c => if ctorOk c a kw then .userError c a kw else .appError errorUri a kw
    | none => .appError errorUri a kw
  | .decoded a kw =>
    match mapped errorUri with
    | some c => if ctorOk c a kw then .userError c a kw else .appError errorUri a kw
    | none => .appError errorUri a kw

/-- the entries every session's `_uri_to_ecls` starts with (`BaseSession.__init__`): the caller sees
`wamp.error.invalid_payload` as `SerializationError(*args)` and `wamp.error.payload_size_exceeded` as
`PayloadExceededError(*args)`; entries the application adds with `define` come first -/
def defaultMapped (u : Uri) : Option String :=
  if u = invalidPayloadUri then some "SerializationError"
  else if u = "wamp.error.payload_size_exceeded".toList then some "PayloadExceededError"
  else none

def EncErr.uri : EncErr → Uri
  | .noPayloadCodec => "wamp.error.no_payload_codec".toList
  | .decryptError => "wamp.error.encryption.decrypt_error".toList
  | .trustedUriMismatch => "wamp.error.encryption.trusted_uri_mismatch".toList

/-! ### a toy instance (used by the driver and by the non-vacuity examples): a "ciphertext" is either a record of
what was sealed, or garbage -/
namespace Toy

inductive Ct (K N P : Type)
  | sealed (k : K) (n : N) (p : P)
  | garbage (tag : Nat)
deriving Repr, DecidableEq

def box (K N P : Type) [DecidableEq K] : Box K N P (Ct K N P) where
  lock k n p := .sealed k n p
  unlock k c := match c with
    | .sealed k' _ p => if k' = k then some p else none
    | .garbage _ => none

/-- inner codec: the envelope itself; values for which `bad` holds cannot be serialised -/
def codec (X Y : Type) (bad : Option X → Option Y → Bool) : InnerCodec X Y (Inner X Y) where
  ser i := if bad i.args i.kwargs then none else some i
  deser p := some p

end Toy

end Abverif.Cryptobox
