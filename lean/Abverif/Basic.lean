def hello := "world"
