import Abverif.Proofs.Lemmas.SessGone
/-
C11 — events reach exactly the handlers subscribed at that moment.

Statements about `Model/Session.lean` (EVENT branch = `dispatch`, with the live-list cursor and the aliased kwargs
dict explicit; `apiUnsubscribe`; the Subscribed/Unsubscribed branches) for every state / history, both scheduling modes
and every behaviour of the handlers. The reference fan-out is `SessSpec.fanout`.
-/
namespace Abverif.Session
open Abverif.SessCodes Abverif.SessSpec

/-! ## unsubscribe_sent_iff_last -/

theorem findSub_some {o : Nat} {subs : List (SubId × List SubRec)} {sid : SubId} (h : findSub o subs = some sid) :
    ∃ l, alookup sid subs = some l ∧ ∃ r ∈ l, r.obj = o := by
  have := List.find?_some h
  cases hl : alookup sid subs with
  | none => simp [hl] at this
  | some l =>
    refine ⟨l, rfl, ?_⟩
    simp only [hl, Option.getD_some, List.any_eq_true, beq_iff_eq] at this
    exact this

/-- `unsubscribe_sent_iff_last`: `Subscription.unsubscribe()` on an attached handler (transport up) removes exactly that
handler from the list of its subscription id, and hands an UNSUBSCRIBE (for that id, with the next request id) to the
transport **iff** the list is empty afterwards, i.e. iff it was the last handler; otherwise nothing is sent and the call
returns an already completed future carrying the number of handlers left. -/
theorem unsubscribe_sent_iff_last (s : Sess) (o : Nat) (snd : SendRes) (sid : SubId) (l : List SubRec)
    (hf : findSub o s.subs = some sid) (hl : alookup sid s.subs = some l) (ht : s.transport = true) :
    let res := apiStep s (.unsubscribe o snd)
    alookup sid res.1.subs = some (removeObj o l) ∧
    (removeObj o l = [] → sends res.2 = [{ typ := .unsubscribe, req := s.drawId.2, uri := sid }]) ∧
    (removeObj o l ≠ [] → sends res.2 = [] ∧
      completions res.2 = [(s.futs.length, .value (.int (removeObj o l).length))]) := by
  have hsub : ∀ s1 : Sess, s1.subs = aupd sid (removeObj o l) s.subs → alookup sid s1.subs = some (removeObj o l) := by
    intro s1 e; rw [e, alookup_aupd_self, hl]; rfl
  have hnt : (!s.transport) = false := by simp [ht]
  simp only [apiStep, apiUnsubscribe, hf, hnt, hl, Option.getD_some, Bool.false_eq_true, ↓reduceIte]
  by_cases he : (removeObj o l).isEmpty = true
  · simp only [he, ↓reduceIte]
    have he' : removeObj o l = [] := by simpa using he
    refine ⟨?_, ?_, fun h => absurd he' h⟩
    · apply hsub; exact (request_fields _ _ _ _ _ _).2.1
    · intro _; cases snd <;> simp [request, sendReq, sends, Sess.drawId]
  · have he' : removeObj o l ≠ [] := by simpa using he
    simp only [he, Bool.false_eq_true, ↓reduceIte]
    refine ⟨?_, fun h => absurd h he', fun _ => ?_⟩
    · apply hsub
      unfold futureSuccess
      exact (emitCb_fields _ _).2.1
    · unfold futureSuccess
      obtain ⟨_, _, _, _, f5, _⟩ := emitCb_fields
        { ({ s with subs := aupd sid (removeObj o l) s.subs } : Sess) with
          futs := s.futs ++ [{ kind := .unsubscribe, cell := some (.value (.int (removeObj o l).length)), count := 1 }] }
        (.callback s.futs.length (.value (.int (removeObj o l).length)))
      rcases f5 with e | e <;> simp [sends, completions, e]

/-- non-vacuity: three handlers on id 77; only the third removal sends UNSUBSCRIBE -/
example : sends (runOuts (init .sync) [.open_, .msg (.welcome 1) [], .api (.subscribe 1 9 none .ok), .api (.subscribe 2 9 none .ok),
      .api (.subscribe 3 9 none .ok), .msg (.subscribed 1 77) [], .msg (.subscribed 2 77) [], .msg (.subscribed 3 77) [],
      .api (.unsubscribe 1 .ok), .api (.unsubscribe 0 .ok), .api (.unsubscribe 2 .ok)]) =
    [{ typ := .hello }, { typ := .subscribe, req := 1, uri := 9 }, { typ := .subscribe, req := 2, uri := 9 },
     { typ := .subscribe, req := 3, uri := 9 }, { typ := .unsubscribe, req := 4, uri := 77 }] := by decide

/-! ## event_during_unsubscribe_dropped / event_unknown_sub_is_violation -/

/-- `event_during_unsubscribe_dropped`: while the UNSUBSCRIBE of an id is outstanding (its handler list is empty but
still there) an EVENT for that id is dropped silently: no output, no state change. -/
theorem event_during_unsubscribe_dropped (s : Sess) (sid : Nat) (hs : s.sessionId = some sid) (sub : SubId) (pub : Nat)
    (p : Payload) (beh : List HAct) (h : alookup sub s.subs = some []) :
    step s (.msg (.event sub pub p) beh) = (s, []) := by
  simp [step, onMessage, hs, onEstablished, h, dispatch]

/-- `event_unknown_sub_is_violation`: an EVENT for an id the session does not hold raises `ProtocolError` out of
`onMessage` and changes nothing. -/
theorem event_unknown_sub_is_violation (s : Sess) (sid : Nat) (hs : s.sessionId = some sid) (sub : SubId) (pub : Nat)
    (p : Payload) (beh : List HAct) (h : alookup sub s.subs = none) :
    step s (.msg (.event sub pub p) beh) = (s, [.raise_ .protocolError]) := by
  simp [step, onMessage, hs, onEstablished, h]

/-- the race, on a concrete history: EVENT between `unsubscribe()` and UNSUBSCRIBED is dropped, after UNSUBSCRIBED it
is a violation -/
example : (run (init .sync) [.open_, .msg (.welcome 1) [], .api (.subscribe 1 9 none .ok), .msg (.subscribed 1 77) [],
      .msg (.event 77 1 { args := some [5] }) [], .api (.unsubscribe 0 .ok), .msg (.event 77 2 {}) [],
      .msg (.unsubscribed 2) [], .msg (.event 77 3 {}) [], .msg (.event 78 4 {}) []]).2.drop 4 =
    [[.invoke 0 1 [5] []], [.send { typ := .unsubscribe, req := 2, uri := 77 }, .ret 1], [],
     [.complete 1 (.value (.int 0)), .callback 1 (.value (.int 0))], [.raise_ .protocolError], [.raise_ .protocolError]] := by decide


/-! ## no_call_after_unsubscribe -/

theorem count_objsOf_aupd_gen (x : Nat) {subs : List (SubId × List SubRec)} {sid : SubId} {l : List SubRec} (l' : List SubRec)
    (h : alookup sid subs = some l) :
    (objsOf (aupd sid l' subs)).count x + (l.map (·.obj)).count x = (objsOf subs).count x + (l'.map (·.obj)).count x := by
  induction subs with
  | nil => simp at h
  | cons e t ih =>
    obtain ⟨k, v⟩ := e
    simp only [alookup_cons] at h
    by_cases hk : k = sid
    · subst hk
      simp at h; subst h
      simp only [aupd, if_true, objsOf, List.flatMap_cons, List.count_append]
      omega
    · simp only [hk, if_false] at h
      have := ih h
      simp only [aupd, hk, if_false, objsOf, List.flatMap_cons, List.count_append] at this ⊢
      omega

theorem count_removeObj {o : Nat} {l : List SubRec} (h : ∃ r ∈ l, r.obj = o) :
    ((removeObj o l).map (·.obj)).count o + 1 = (l.map (·.obj)).count o := by
  induction l with
  | nil => simp at h
  | cons r l ih =>
    simp only [removeObj]
    split
    · next e => simp only [List.map_cons, count_cons', e]; simp
    · next ne =>
      obtain ⟨r', hr', e'⟩ := h
      rcases List.mem_cons.mp hr' with h1 | h1
      · subst h1; exact absurd e' ne
      · have := ih ⟨r', h1, e'⟩
        simp only [List.map_cons, count_cons'] at this ⊢
        omega

/-- a successful `unsubscribe()` leaves the `Subscription` attached nowhere -/
theorem unsubscribe_makes_gone {s : Sess} (hi : Inv s) {o : Nat} {sid : SubId} (hf : findSub o s.subs = some sid)
    (ht : s.transport = true) (snd : SendRes) : Gone o (apiStep s (.unsubscribe o snd)).1 := by
  obtain ⟨l, hl, hm⟩ := findSub_some hf
  have hocc := hi.2.subs.1 o
  have hpos : 0 < (objsOf s.subs).count o := by
    obtain ⟨r, hr, e⟩ := hm
    exact List.count_pos_iff.mpr (e ▸ mem_objsOf hl hr)
  have hcnt := count_objsOf_aupd_gen o (removeObj o l) hl
  have hrem := count_removeObj hm
  simp only [occ] at hocc
  have h1 : Gone o { s with subs := aupd sid (removeObj o l) s.subs } := by
    refine ⟨by simp only []; omega, by show (futsOf (s.tbl .subscribe)).count o = 0; omega, ?_, fun x hx => (hi.2.cbq x hx).2⟩
    exact hi.2.subs.2 o (by simp only [occ]; omega)
  have hnt : (!s.transport) = false := by simp [ht]
  simp only [apiStep, apiUnsubscribe, hf, hnt, hl, Option.getD_some, Bool.false_eq_true, ↓reduceIte]
  split
  · exact (request_gone h1 _ _ _ (fun _ => rfl) _ _).1
  · unfold futureSuccess
    have h2 : Gone o { ({ s with subs := aupd sid (removeObj o l) s.subs } : Sess) with
        futs := s.futs ++ [{ kind := .unsubscribe, cell := some (.value (.int (removeObj o l).length)), count := 1 }] } :=
      h1.of (fun _ => Nat.le_refl _) (List.Sublist.refl _) (by simp) (fun x hx => Or.inl hx)
    exact (emitCb_gone h2 (x := .callback s.futs.length (.value (.int (removeObj o l).length))) rfl).1

/-- `no_call_after_unsubscribe`: after any history `h1`, once `Subscription.unsubscribe()` has been called on an
attached handler `o`, **no** continuation `h2` of the history — events for any id, further subscribes and replies in
any order, wrap-arounds of ids, anything user code does — ever invokes the handler of `o` again. -/
theorem no_call_after_unsubscribe (mode : Sched) (h1 : List SEv) (o : Nat) (snd : SendRes) (h2 : List SEv) :
    let s := runState (init mode) h1
    findSub o s.subs ≠ none → s.transport = true →
    ∀ x ∈ runOuts (apiStep s (.unsubscribe o snd)).1 h2, invokesObj o x = false := by
  intro s hf ht
  cases hfs : findSub o s.subs with
  | none => exact absurd hfs hf
  | some sid =>
    have hi : Inv s := (run_inv (init_inv mode) h1).post
    exact (run_gone (unsubscribe_makes_gone hi hfs ht snd) h2).2

/-- the same inside one EVENT dispatch: when a handler synchronously unsubscribes a sibling `o`, the rest of the
fan-out (from any cursor position) does not call `o` -/
theorem no_call_after_synchronous_unsubscribe {s : Sess} (hi : Inv s) {o : Nat} (hf : findSub o s.subs ≠ none)
    (ht : s.transport = true) (fuel : Nat) (sub : SubId) (idx : Nat) (args : Args) (kw : List (Key × KwVal)) (beh : List HAct) :
    ∀ x ∈ (dispatch fuel (apiStep s (.unsubscribe o .ok)).1 sub idx args kw beh).2, invokesObj o x = false := by
  cases hfs : findSub o s.subs with
  | none => exact absurd hfs hf
  | some sid => exact ((goneLift o).dispatch fuel (unsubscribe_makes_gone hi hfs ht .ok) sub idx args kw beh).2

/-- non-vacuity: handler 1 is called for the first event, unsubscribed, and not called for the second -/
example : (runOuts (init .sync) [.open_, .msg (.welcome 1) [], .api (.subscribe 1 9 none .ok), .api (.subscribe 2 9 none .ok),
      .msg (.subscribed 1 77) [], .msg (.subscribed 2 77) [], .msg (.event 77 1 {}) [], .api (.unsubscribe 0 .ok),
      .msg (.event 77 2 {}) []]).filter isInvoke =
    [.invoke 0 1 [] [], .invoke 1 2 [] [], .invoke 1 2 [] []] := by decide


/-! ## dispatch_exact -/

/-- `dispatch_exact`, full statement: on EVENT(sub, …) the model's loop over the live handler list does exactly what the
Spec's fan-out does — the handlers attached at arrival, once each, in subscription order (skipping one that an earlier
handler of this dispatch detached), each with the event's args/kwargs plus the details under its *own* `details_arg`
only — whatever the handlers do. -/
def DispatchExact : Prop :=
  ∀ (s : Sess) (sub : SubId) (l : List SubRec) (args : Args) (kw : List (Key × KwVal)) (beh : List HAct),
    alookup sub s.subs = some l → dispatch l.length s sub 0 args kw beh = fanout s sub args kw l beh

/-- the state after: h1 subscribed with `details_arg="details"`, h2 without, both attached under id 77 -/
def sF8 : Sess := runState (init .sync) [.open_, .msg (.welcome 1) [], .api (.subscribe 1 9 (some { detailsArg := some 0 }) .ok),
  .api (.subscribe 2 9 none .ok), .msg (.subscribed 1 77) [], .msg (.subscribed 2 77) []]

/-- it fails (F8): the kwargs dict of the message is shared, so with kwargs `{5: 2}` h2 is called with h1's details -/
theorem dispatch_exact_fails_F8 : ¬ DispatchExact := by
  intro h
  have := h sF8 77 [{ obj := 0, h := 1, detailsArg := some 0, topic := 9 }, { obj := 1, h := 2, detailsArg := none, topic := 9 }]
    [1] [(5, .v 2)] [] (by decide)
  revert this
  decide

/-- the state after: handlers a, b, c attached under id 77 -/
def sF9 : Sess := runState (init .sync) [.open_, .msg (.welcome 1) [], .api (.subscribe 1 9 none .ok), .api (.subscribe 2 9 none .ok),
  .api (.subscribe 3 9 none .ok), .msg (.subscribed 1 77) [], .msg (.subscribed 2 77) [], .msg (.subscribed 3 77) []]

/-- it fails (F9): a unsubscribes itself synchronously; the live list shifts under the cursor and b is not called -/
theorem dispatch_exact_fails_F9 : ¬ DispatchExact := by
  intro h
  have := h sF9 77 [{ obj := 0, h := 1, detailsArg := none, topic := 9 }, { obj := 1, h := 2, detailsArg := none, topic := 9 },
      { obj := 2, h := 3, detailsArg := none, topic := 9 }]
    [1] [] [{ calls := [.unsubSelf] }] (by decide)
  revert this
  decide

/-- what the model does on these two inputs (the defects themselves) -/
example : (dispatch 2 sF8 77 0 [1] [(5, .v 2)] []).2 =
    [.invoke 0 1 [1] [(5, .v 2), (0, .details 0)], .invoke 1 2 [1] [(5, .v 2), (0, .details 0)]] := by decide
example : ((dispatch 3 sF9 77 0 [1] [] [{ calls := [.unsubSelf] }]).2.filter isInvoke) =
    [.invoke 0 1 [1] [], .invoke 2 3 [1] []] := by decide

/-- no handler of the dispatch calls `unsubscribe()` synchronously (on any subscription) -/
def QuietAct (a : HAct) : Prop := ∀ c ∈ a.calls, c ≠ .unsubSelf ∧ ∀ o r, c ≠ .api (.unsubscribe o r)

/-- the kwargs dict cannot carry one handler's details to another: it is empty, or no handler asks for details, or all
ask for them under the same key (then each overwrites its predecessor's) -/
def NoLeak (l : List SubRec) (kw : List (Key × KwVal)) : Prop :=
  kw = [] ∨ (∀ r ∈ l, r.detailsArg = none) ∨ (∃ k, ∀ r ∈ l, r.detailsArg = some k)

theorem apiStep_subs {s : Sess} {a : Api} (h : ∀ o r, a ≠ .unsubscribe o r) : (apiStep s a).1.subs = s.subs := by
  cases a with
  | call u a k o r =>
    simp only [apiStep, apiCall]; split
    · rfl
    · exact (request_fields _ _ _ _ _ _).2.1
  | publish u a k o r =>
    simp only [apiStep, apiPublish]; split
    · rfl
    · split
      · exact (request_fields _ _ _ _ _ _).2.1
      · cases r <;> simp [sendReq]
  | subscribe hh t o r =>
    simp only [apiStep, apiSubscribe]; split
    · rfl
    · exact (request_fields _ _ _ _ _ _).2.1
  | register hh t o r =>
    simp only [apiStep, apiRegister]; split
    · rfl
    · exact (request_fields _ _ _ _ _ _).2.1
  | unsubscribe o r => exact absurd rfl (h o r)
  | unregister o r =>
    simp only [apiStep, apiUnregister]; split
    · rfl
    · split
      · rfl
      · exact (request_fields _ _ _ _ _ _).2.1
  | cancel f =>
    simp only [apiStep, apiCancel]; split
    · rfl
    · split
      · rfl
      · split
        · rfl
        · unfold cancelDo; split <;> rfl
  | join => simp only [apiStep, apiJoin]; split <;> (try split) <;> rfl
  | leave => simp only [apiStep, apiLeave]; split <;> (try split) <;> rfl

theorem runCalls_subs {s : Sess} (self : Option FutId) {cs : List HCall}
    (h : ∀ c ∈ cs, c ≠ .unsubSelf ∧ ∀ o r, c ≠ .api (.unsubscribe o r)) : (runCalls s self cs).1.subs = s.subs := by
  induction cs generalizing s with
  | nil => rfl
  | cons c cs ih =>
    have hc := h c List.mem_cons_self
    have ht := fun c' hc' => h c' (List.mem_cons_of_mem _ hc')
    cases c with
    | unsubSelf => exact absurd rfl hc.1
    | api a =>
      rw [runCalls_api]
      simp only []
      rw [ih ht, apiStep_subs (fun o r e => hc.2 o r (e ▸ rfl))]

theorem runAct_subs {s : Sess} (self : Option FutId) {a : HAct} (h : QuietAct a) : (runAct s self a).1.subs = s.subs := by
  unfold runAct
  split
  · simp only []; rw [(emitCb_fields _ _).2.1, runCalls_subs self h]
  · exact runCalls_subs self h

theorem insertKw_insertKw (k : Key) (v1 v2 : KwVal) (kw : List (Key × KwVal)) :
    insertKw k v2 (insertKw k v1 kw) = insertKw k v2 kw := by
  induction kw with
  | nil => simp [insertKw]
  | cons e t ih =>
    obtain ⟨k', v'⟩ := e
    simp only [insertKw]
    split
    · next e => simp [insertKw]
    · next ne => simp [insertKw, ne, ih]

theorem insertKw_ne_nil (k : Key) (v : KwVal) (kw : List (Key × KwVal)) : insertKw k v kw ≠ [] := by
  cases kw with
  | nil => simp [insertKw]
  | cons e t => obtain ⟨k', v'⟩ := e; simp only [insertKw]; split <;> simp

/-- what the loop keeps true about the (possibly mutated) kwargs dict `kw` relative to the message's own `kw0` -/
def KwInv (l : List SubRec) (kw0 kw : List (Key × KwVal)) : Prop :=
  (kw0 = [] → kw = []) ∧ ∀ r ∈ l, handlerKw r kw = handlerKw r kw0

theorem KwInv.next {l : List SubRec} {kw0 kw : List (Key × KwVal)} (hn : NoLeak l kw0) (h : KwInv l kw0 kw)
    {r : SubRec} (hr : r ∈ l) : KwInv l kw0 (if kw.isEmpty then kw else handlerKw r kw) := by
  split
  · exact h
  · next hne =>
    rcases hn with h0 | hnone | ⟨k, hk⟩
    · have := h.1 h0; subst this; simp at hne
    · have : handlerKw r kw = kw := by simp [handlerKw, hnone r hr]
      rw [this]; exact h
    · refine ⟨fun h0 => ?_, fun r' hr' => ?_⟩
      · have := h.1 h0; subst this; simp at hne
      · have e1 : handlerKw r kw = insertKw k (.details r.obj) kw := by simp [handlerKw, hk r hr]
        have e2 : ∀ kw', handlerKw r' kw' = insertKw k (.details r'.obj) kw' := fun kw' => by simp [handlerKw, hk r' hr']
        rw [e1, e2, insertKw_insertKw, ← e2, h.2 r' hr']

theorem dispatch_eq_fanout (l : List SubRec) (sub : SubId) (args : Args) (kw0 : List (Key × KwVal)) (hn : NoLeak l kw0) :
    ∀ (n : Nat) (fuel idx : Nat) (s : Sess) (kw : List (Key × KwVal)) (beh : List HAct),
      l.length - idx ≤ n → n ≤ fuel → alookup sub s.subs = some l → KwInv l kw0 kw → (∀ a ∈ beh, QuietAct a) →
      dispatch fuel s sub idx args kw beh = fanout s sub args kw0 (l.drop idx) beh := by
  intro n
  induction n with
  | zero =>
    intro fuel idx s kw beh hle _ hl _ _
    have hdrop : l.drop idx = [] := List.drop_eq_nil_of_le (by omega)
    rw [hdrop]
    cases fuel with
    | zero => rfl
    | succ f =>
      have : (alookup sub s.subs).bind (·[idx]?) = none := by
        rw [hl]; simp only [Option.bind_some]; exact List.getElem?_eq_none (by omega)
      simp [dispatch, this, fanout]
  | succ n ih =>
    intro fuel idx s kw beh hle hfuel hl hkw hq
    by_cases hidx : l.length ≤ idx
    · exact ih fuel idx s kw beh (by omega) (by omega) hl hkw hq |>.trans rfl |> fun h => by
        have hdrop : l.drop idx = [] := List.drop_eq_nil_of_le hidx
        rw [hdrop]
        cases fuel with
        | zero => rfl
        | succ f =>
          have : (alookup sub s.subs).bind (·[idx]?) = none := by
            rw [hl]; simp only [Option.bind_some]; exact List.getElem?_eq_none hidx
          simp [dispatch, this, fanout]
    · have hlt : idx < l.length := by omega
      obtain ⟨f, rfl⟩ : ∃ f, fuel = f + 1 := ⟨fuel - 1, by omega⟩
      have hget : (alookup sub s.subs).bind (·[idx]?) = some l[idx] := by
        rw [hl]; simp only [Option.bind_some]; exact List.getElem?_eq_getElem hlt
      have hmem : l[idx] ∈ l := List.getElem_mem hlt
      have hdrop : l.drop idx = l[idx] :: l.drop (idx + 1) := List.drop_eq_getElem_cons hlt
      have hqa : QuietAct (beh.headD {}) := by
        cases beh with
        | nil => intro c hc; simp at hc
        | cons a t => exact hq a List.mem_cons_self
      have hqt : ∀ a ∈ beh.tail, QuietAct a := fun a ha => hq a (List.mem_of_mem_tail ha)
      have hsubs := runAct_subs (s := s) (some l[idx].obj) hqa
      have hl' : alookup sub (runAct s (some l[idx].obj) (beh.headD {})).1.subs = some l := by rw [hsubs]; exact hl
      have hrec := ih f (idx + 1) (runAct s (some l[idx].obj) (beh.headD {})).1
        (if kw.isEmpty then kw else handlerKw l[idx] kw) beh.tail (by omega) (by omega) hl' (hkw.next hn hmem) hqt
      have hatt : ((alookup sub s.subs).getD []).any (·.obj == l[idx].obj) = true := by
        rw [hl]; simp only [Option.getD_some, List.any_eq_true, beq_iff_eq]; exact ⟨l[idx], hmem, rfl⟩
      rw [hdrop]
      simp only [dispatch, hget, fanout, hatt, if_true]
      rw [hrec, hkw.2 _ hmem]

/-- `dispatch_exact_partial`: outside the two defect shapes — no handler of this dispatch unsubscribes synchronously
(F9), and the kwargs cannot leak details (F8: empty kwargs, or no `details_arg`, or one common `details_arg`) — the
model's EVENT loop *is* the Spec's fan-out: same final state, same outputs in the same order. Handlers may return,
raise, subscribe new handlers, call, publish, register, cancel. -/
theorem dispatch_exact_partial (s : Sess) (sub : SubId) (l : List SubRec) (args : Args) (kw : List (Key × KwVal))
    (beh : List HAct) (hl : alookup sub s.subs = some l) (hleak : NoLeak l kw) (hquiet : ∀ a ∈ beh, QuietAct a) :
    dispatch l.length s sub 0 args kw beh = fanout s sub args kw l beh := by
  have := dispatch_eq_fanout l sub args kw hleak l.length l.length 0 s kw beh (by omega) (Nat.le_refl _) hl
    ⟨fun h => h, fun _ _ => rfl⟩ hquiet
  simpa using this


/-! ## handler_error_isolated -/

def isRaise : SOut → Bool
  | .raise_ _ => true
  | _ => false

theorem runCalls_no_raise (s : Sess) (self : Option FutId) (cs : List HCall) : ∀ x ∈ (runCalls s self cs).2, isRaise x = false := by
  induction cs generalizing s with
  | nil => intro x hx; simp [runCalls_nil] at hx
  | cons c cs ih =>
    have hmap : ∀ (o : List SOut), ∀ x ∈ o.map toCaught, isRaise x = false := by
      intro o x hx
      obtain ⟨y, _, rfl⟩ := List.mem_map.mp hx
      cases y <;> rfl
    cases c with
    | api a =>
      rw [runCalls_api]; intro x hx
      rcases List.mem_append.mp hx with h | h
      · exact hmap _ x h
      · exact ih _ x h
    | unsubSelf =>
      cases self with
      | none => rw [runCalls_self_none]; exact ih s
      | some o =>
        rw [runCalls_self_some]; intro x hx
        rcases List.mem_append.mp hx with h | h
        · exact hmap _ x h
        · exact ih _ x h

theorem runAct_no_raise (s : Sess) (self : Option FutId) (a : HAct) : ∀ x ∈ (runAct s self a).2, isRaise x = false := by
  unfold runAct
  split
  · intro x hx
    rcases List.mem_append.mp hx with h | h
    · exact runCalls_no_raise _ _ _ x h
    · obtain ⟨_, _, _, _, f5, _⟩ := emitCb_fields (runCalls s self a.calls).1 .userError
      rcases f5 with e | e <;> rw [e] at h <;> simp at h
      subst h; rfl
  · exact runCalls_no_raise _ _ _

/-- `handler_error_isolated` (1): whatever the handlers of an EVENT do — raise, or have their own API calls raise —
no exception leaves `onMessage`: the dispatch outputs no `raise_`. -/
theorem handler_raise_never_escapes (fuel : Nat) (s : Sess) (sub : SubId) (idx : Nat) (args : Args) (kw : List (Key × KwVal))
    (beh : List HAct) : ∀ x ∈ (dispatch fuel s sub idx args kw beh).2, isRaise x = false := by
  induction fuel generalizing s idx kw beh with
  | zero => intro x hx; simp [dispatch] at hx
  | succ n ih =>
    unfold dispatch
    split
    · intro x hx; simp at hx
    · intro x hx
      rcases List.mem_cons.mp hx with h | h
      · rw [h]; rfl
      · rcases List.mem_append.mp h with h | h
        · exact runAct_no_raise _ _ _ x h
        · exact ih _ _ _ _ x h

/-- a handler's behaviour with the "raises" bit cleared -/
def HAct.calm (a : HAct) : HAct := { a with raises := false }

theorem apiStep_mode (s : Sess) (a : Api) : (apiStep s a).1.mode = s.mode := by
  have hreq : ∀ (s : Sess) k mkReq mkMsg keep snd, (request s k mkReq mkMsg keep snd).1.mode = s.mode := by
    intro s k mkReq mkMsg keep snd
    cases snd <;> cases keep <;> simp [request, sendReq_ok, sendReq_fail_keep, sendReq_fail_forget, Sess.unwatch] <;>
      (try split) <;> simp [Sess.newFut, Sess.drawId]
  cases a with
  | call u a k o r =>
    simp only [apiStep, apiCall]; split
    · rfl
    · exact hreq _ _ _ _ _ _
  | publish u a k o r =>
    simp only [apiStep, apiPublish]; split
    · rfl
    · split
      · exact hreq _ _ _ _ _ _
      · cases r <;> simp [sendReq, Sess.drawId]
  | subscribe hh t o r =>
    simp only [apiStep, apiSubscribe]; split
    · rfl
    · exact hreq _ _ _ _ _ _
  | register hh t o r =>
    simp only [apiStep, apiRegister]; split
    · rfl
    · exact hreq _ _ _ _ _ _
  | unsubscribe o r =>
    simp only [apiStep, apiUnsubscribe]; split
    · rfl
    · split
      · rfl
      · split
        · exact hreq _ _ _ _ _ _
        · unfold futureSuccess emitCb; split <;> simp_all
  | unregister o r =>
    simp only [apiStep, apiUnregister]; split
    · rfl
    · split
      · rfl
      · exact hreq _ _ _ _ _ _
  | cancel f =>
    simp only [apiStep, apiCancel]; split
    · rfl
    · split
      · rfl
      · split
        · rfl
        · unfold cancelDo; split <;> rfl
  | join => simp only [apiStep, apiJoin]; split <;> (try split) <;> rfl
  | leave => simp only [apiStep, apiLeave]; split <;> (try split) <;> rfl

theorem runCalls_mode (s : Sess) (self : Option FutId) (cs : List HCall) : (runCalls s self cs).1.mode = s.mode := by
  induction cs generalizing s with
  | nil => rfl
  | cons c cs ih =>
    cases c with
    | api a => rw [runCalls_api]; simp only []; rw [ih, apiStep_mode]
    | unsubSelf =>
      cases self with
      | none => rw [runCalls_self_none]; exact ih s
      | some o => rw [runCalls_self_some]; simp only []; rw [ih, apiStep_mode]

theorem runAct_sync {s : Sess} (hm : s.mode = .sync) (self : Option FutId) (a : HAct) :
    (runAct s self a).1 = (runAct s self a.calm).1 ∧
    (runAct s self a).2.filter (· != .userError) = (runAct s self a.calm).2.filter (· != .userError) ∧
    (runAct s self a).1.mode = .sync := by
  have hmode : (runCalls s self a.calls).1.mode = .sync := by rw [runCalls_mode, hm]
  have hcalm : runAct s self a.calm = runCalls s self a.calls := by simp [runAct, HAct.calm]
  rw [hcalm]
  by_cases hr : a.raises = true
  · have : runAct s self a = ((runCalls s self a.calls).1, (runCalls s self a.calls).2 ++ [.userError]) := by
      simp [runAct, hr, emitCb, hmode]
    rw [this]
    refine ⟨rfl, ?_, hmode⟩
    simp [List.filter_append]
  · have : runAct s self a = runCalls s self a.calls := by simp [runAct, hr]
    rw [this]
    exact ⟨rfl, rfl, hmode⟩

/-- `handler_error_isolated` (2) — `_partial`: proved for the Twisted scheduling (on asyncio the `onUserError` notification is
queued instead of emitted, so the two runs differ in the callback queue; that the rest of the state and the outputs are
equal there too is not proved, only observed by the correspondence runs): clearing (or setting) the "raises" bit of any handlers of an EVENT
changes nothing but the `onUserError` notifications — same final state (handler lists, tables, futures), same
invocations with the same arguments in the same order, same messages sent. A raising handler neither prevents
delivery to the others nor harms the session. -/
theorem handler_error_isolated_partial (fuel : Nat) (s : Sess) (hm : s.mode = .sync) (sub : SubId) (idx : Nat) (args : Args)
    (kw : List (Key × KwVal)) (beh : List HAct) :
    (dispatch fuel s sub idx args kw beh).1 = (dispatch fuel s sub idx args kw (beh.map HAct.calm)).1 ∧
    (dispatch fuel s sub idx args kw beh).2.filter (· != .userError) =
      (dispatch fuel s sub idx args kw (beh.map HAct.calm)).2.filter (· != .userError) := by
  induction fuel generalizing s idx kw beh with
  | zero => exact ⟨rfl, rfl⟩
  | succ n ih =>
    unfold dispatch
    split
    · exact ⟨rfl, rfl⟩
    · next r _ =>
      have hhead : (beh.map HAct.calm).headD {} = (beh.headD {}).calm := by cases beh <;> rfl
      have htail : (beh.map HAct.calm).tail = beh.tail.map HAct.calm := by cases beh <;> rfl
      obtain ⟨e1, e2, e3⟩ := runAct_sync hm (some r.obj) (beh.headD {})
      obtain ⟨i1, i2⟩ := ih (runAct s (some r.obj) (beh.headD {})).1 e3 (idx + 1) (if kw.isEmpty then kw else handlerKw r kw) beh.tail
      simp only [hhead, htail]
      rw [← e1]
      refine ⟨i1, ?_⟩
      simp only [List.filter_cons, List.filter_append]
      rw [e2, i2]

/-- non-vacuity: three handlers, the first and third raise; all three are called, nothing escapes -/
example : runOuts sF9 [.msg (.event 77 1 { args := some [4] }) [{ raises := true }, {}, { raises := true }]] =
    [.invoke 0 1 [4] [], .userError, .invoke 1 2 [4] [], .invoke 2 3 [4] [], .userError] := by decide


/-! ## "an id the session never held" -/

theorem alookup_aupd_none {β : Type} {k k' : Nat} (v : β) {l : List (Nat × β)} (h : alookup k l = none) :
    alookup k (aupd k' v l) = none := by
  by_cases e : k = k'
  · subst e; rw [alookup_aupd_self, h]; rfl
  · rw [alookup_aupd_ne e]; exact h

theorem alookup_adel_none {β : Type} {k k' : Nat} {l : List (Nat × β)} (h : alookup k l = none) :
    alookup k (adel k' l) = none := by
  by_cases e : k = k'
  · subst e; exact alookup_adel_self _ _
  · rw [alookup_adel_ne e]; exact h

theorem apiStep_nosub {s : Sess} {sub : SubId} (a : Api) (h : alookup sub s.subs = none) :
    alookup sub (apiStep s a).1.subs = none := by
  cases a with
  | unsubscribe o r =>
    simp only [apiStep, apiUnsubscribe]
    split
    · exact h
    · split
      · exact h
      · split
        · rw [(request_fields _ _ _ _ _ _).2.1]; exact alookup_aupd_none _ h
        · unfold futureSuccess; rw [(emitCb_fields _ _).2.1]; exact alookup_aupd_none _ h
  | call u a k o r => rw [apiStep_subs (fun _ _ e => by cases e)]; exact h
  | publish u a k o r => rw [apiStep_subs (fun _ _ e => by cases e)]; exact h
  | subscribe hh t o r => rw [apiStep_subs (fun _ _ e => by cases e)]; exact h
  | register hh t o r => rw [apiStep_subs (fun _ _ e => by cases e)]; exact h
  | unregister o r => rw [apiStep_subs (fun _ _ e => by cases e)]; exact h
  | cancel f => rw [apiStep_subs (fun _ _ e => by cases e)]; exact h
  | join => rw [apiStep_subs (fun _ _ e => by cases e)]; exact h
  | leave => rw [apiStep_subs (fun _ _ e => by cases e)]; exact h

/-- `NoSubRel sub`: a step relation that only says "afterwards id `sub` is (still) not held" -/
def NoSubRel (sub : SubId) (_ : Sess) (_ : List SOut) (s' : Sess) : Prop := alookup sub s'.subs = none

theorem noSubLift (sub : SubId) : Lift (NoSubRel sub) (fun s => alookup sub s.subs = none) where
  refl := fun h => h
  trans := fun _ h2 => h2
  post := fun _ r => r
  caught := fun r => r
  api := fun a h => apiStep_nosub a h
  userError := fun h => by show alookup sub (emitCb _ _).1.subs = none; rw [(emitCb_fields _ _).2.1]; exact h
  invoke := fun _ _ h _ => h

theorem rejectList_subs (s : Sess) (o : Outcome) (fs : List FutId) : (rejectList s o fs).1.subs = s.subs := by
  induction fs generalizing s with
  | nil => rfl
  | cons f fs ih =>
    rw [rejectList_cons]; split
    · exact ih s
    · simp only []; rw [ih, (settle_fields _ _ _).1]

theorem onLeaveDefault_subs (s : Sess) (reason : Nat) : (onLeaveDefault s reason).1.subs = s.subs := by
  unfold onLeaveDefault
  simp only []
  split
  · simp only []; rw [(emitCb_fields _ _).2.1, rejectList_subs]; rfl
  · rw [rejectList_subs]; rfl

/-- a step that is not "SUBSCRIBED naming `sub`" cannot make the session hold `sub` -/
theorem step_nosub {s : Sess} {sub : SubId} (e : SEv) (he : ∀ id beh, e ≠ .msg (.subscribed id sub) beh)
    (h : alookup sub s.subs = none) : alookup sub (step s e).1.subs = none := by
  cases e with
  | api a => exact apiStep_nosub a h
  | pump => exact h
  | open_ => simp only [step]; rw [(emitCb_fields _ _).2.1]; exact h
  | closed =>
    simp only [step]; split
    · rw [onLeaveDefault_subs]; exact h
    · rw [rejectList_subs]; exact h
  | msg m beh =>
    simp only [step, onMessage]
    split
    · split <;> exact h
    · have hpop : ∀ (kind : Kind) (id : ReqId) (k : Sess → Req → Sess × List SOut),
          (∀ s1 r, alookup sub s1.subs = none → alookup sub (k s1 r).1.subs = none) →
          alookup sub (popReply s kind id k).1.subs = none := by
        intro kind id k hk
        unfold popReply; split
        · exact h
        · simp only []; split
          · simpa using h
          · exact hk _ _ (by simpa using h)
      cases m with
      | subscribed id sub' =>
        simp only [onEstablished]
        refine hpop _ _ _ (fun s1 r h1 => ?_)
        rw [(settle_fields _ _ _).1]
        have hne : sub ≠ sub' := fun e => he id beh (e ▸ rfl)
        simp only []
        split
        · rw [alookup_append, h1]; simp [alookup_cons, Ne.symm hne]
        · exact alookup_aupd_none _ h1
      | goodbye => simp only [onEstablished]; rw [onLeaveDefault_subs]; exact h
      | event sub' pub p =>
        simp only [onEstablished]; split
        · exact h
        · exact (noSubLift sub).dispatch _ h _ _ _ _ _
      | published id pub =>
        simp only [onEstablished]
        exact hpop _ _ _ (fun s1 r h1 => by rw [(settle_fields _ _ _).1]; exact h1)
      | unsubscribed id =>
        simp only [onEstablished]
        exact hpop _ _ _ (fun s1 r h1 => by rw [(settle_fields _ _ _).1]; exact alookup_adel_none h1)
      | result id p progress =>
        simp only [onEstablished]; split
        · exact h
        · split
          · split
            · exact h
            · split
              · exact h
              · split
                · split
                  · exact (noSubLift sub).runAct h none _
                  · exact h
                · exact (noSubLift sub).runAct h none _
          · split
            · exact h
            · rw [(settle_fields _ _ _).1]; exact h
      | registered id reg =>
        simp only [onEstablished]
        refine hpop _ _ _ (fun s1 r h1 => ?_)
        split
        · rw [(settle_fields _ _ _).1]; exact h1
        · exact h1
      | unregistered id reg =>
        simp only [onEstablished]; split
        · split <;> exact h
        · exact hpop _ _ _ (fun s1 r h1 => by rw [(settle_fields _ _ _).1]; exact h1)
      | error t id uri p =>
        simp only [onEstablished]; split
        · exact h
        · split
          · exact h
          · split
            · simpa using h
            · rw [(settle_fields _ _ _).1]; simpa using h
      | invocation id reg p =>
        simp only [onEstablished]; split
        · exact h
        · split <;> exact h
      | interrupt id => exact h
      | welcome sid => exact h
      | abort => exact h
      | challenge => exact h
      | other => exact h

/-- `event_unknown_sub_is_violation`, as the property words it: after any history in which no SUBSCRIBED ever named
the id `sub` — whatever else happened — an EVENT for `sub` on the joined session raises `ProtocolError` and changes
nothing. (After UNSUBSCRIBED removed an id it is "not held" again, see `event_unknown_sub_is_violation`.) -/
theorem event_for_never_held_id_is_violation (mode : Sched) (h : List SEv) (sub : SubId)
    (hnever : ∀ e ∈ h, ∀ id beh, e ≠ .msg (.subscribed id sub) beh)
    (sid : Nat) (hs : (runState (init mode) h).sessionId = some sid) (pub : Nat) (p : Payload) (beh : List HAct) :
    step (runState (init mode) h) (.msg (.event sub pub p) beh) = (runState (init mode) h, [.raise_ .protocolError]) := by
  have key : ∀ (s : Sess) (hist : List SEv), alookup sub s.subs = none →
      (∀ e ∈ hist, ∀ id beh, e ≠ .msg (.subscribed id sub) beh) → alookup sub (runState s hist).subs = none := by
    intro s hist
    induction hist generalizing s with
    | nil => intro h0 _; exact h0
    | cons e es ih =>
      intro h0 hn
      rw [runState_cons]
      exact ih _ (step_nosub e (hn e List.mem_cons_self) h0) (fun e' he' => hn e' (List.mem_cons_of_mem _ he'))
  exact event_unknown_sub_is_violation _ sid hs sub pub p beh (key (init mode) h rfl hnever)

end Abverif.Session
