import Abverif.Proofs.Lemmas.SessGone
/-
C11 — events reach exactly the handlers subscribed at that moment.

Statements about `Model/Session.lean` (EVENT branch = `dispatch`, with the live-list cursor and the aliased kwargs
dict explicit; `apiUnsubscribe`; the Subscribed/Unsubscribed branches) for every state / history, both scheduling modes
and every behaviour of the handlers. The reference fan-out is `SessSpec.fanout`.
-/
namespace Abverif.Session
open Abverif.SessCodes Abverif.SessSpec

/-! ## unsubscribe_sent_iff_last -/

theorem findSub_some {o : Nat} {subs : List (SubId × List SubRec)} {sid : SubId} (h : findSub o subs = some sid) :
    ∃ l, alookup sid subs = some l ∧ ∃ r ∈ l, r.obj = o := by
  have := List.find?_some h
  cases hl : alookup sid subs with
  | none => simp [hl] at this
  | some l =>
    refine ⟨l, rfl, ?_⟩
    simp only [hl, Option.getD_some, List.any_eq_true, beq_iff_eq] at this
    exact this

/-- `unsubscribe_sent_iff_last`: `Subscription.unsubscribe()` on an attached handler (transport up) removes exactly that
handler from the list of its subscription id, and hands an UNSUBSCRIBE (for that id, with the next request id) to the
transport **iff** the list is empty afterwards, i.e. iff it was the last handler; otherwise nothing is sent and the call
returns an already completed future carrying the number of handlers left. -/
theorem unsubscribe_sent_iff_last (s : Sess) (o : Nat) (snd : SendRes) (sid : SubId) (l : List SubRec)
    (hf : findSub o s.subs = some sid) (hl : alookup sid s.subs = some l) (ht : s.transport = true) :
    let res := apiStep s (.unsubscribe o snd)
    alookup sid res.1.subs = some (removeObj o l) ∧
    (removeObj o l = [] → sends res.2 = [{ typ := .unsubscribe, req := s.drawId.2, uri := sid }]) ∧
    (removeObj o l ≠ [] → sends res.2 = [] ∧
      completions res.2 = [(s.futs.length, .value (.int (removeObj o l).length))]) := by
  have hsub : ∀ s1 : Sess, s1.subs = aupd sid (removeObj o l) s.subs → alookup sid s1.subs = some (removeObj o l) := by
    intro s1 e; rw [e, alookup_aupd_self, hl]; rfl
  have hnt : (!s.transport) = false := by simp [ht]
  simp only [apiStep, apiUnsubscribe, hf, hnt, hl, Option.getD_some, Bool.false_eq_true, ↓reduceIte]
  by_cases he : (removeObj o l).isEmpty = true
  · simp only [he, ↓reduceIte]
    have he' : removeObj o l = [] := by simpa using he
    refine ⟨?_, ?_, fun h => absurd he' h⟩
    · apply hsub; exact (request_fields _ _ _ _ _ _).2.1
    · intro _; cases snd <;> simp [request, sendReq, sends, Sess.drawId]
  · have he' : removeObj o l ≠ [] := by simpa using he
    simp only [he, Bool.false_eq_true, ↓reduceIte]
    refine ⟨?_, fun h => absurd h he', fun _ => ?_⟩
    · apply hsub
      unfold futureSuccess
      exact (emitCb_fields _ _).2.1
    · unfold futureSuccess
      obtain ⟨_, _, _, _, f5, _⟩ := emitCb_fields
        { ({ s with subs := aupd sid (removeObj o l) s.subs } : Sess) with
          futs := s.futs ++ [{ kind := .unsubscribe, cell := some (.value (.int (removeObj o l).length)), count := 1 }] }
        (.callback s.futs.length (.value (.int (removeObj o l).length)))
      rcases f5 with e | e <;> simp [sends, completions, e]

/-- non-vacuity: three handlers on id 77; only the third removal sends UNSUBSCRIBE -/
example : sends (runOuts (init .sync) [.open_, .msg (.welcome 1) [], .api (.subscribe 1 9 none .ok), .api (.subscribe 2 9 none .ok),
      .api (.subscribe 3 9 none .ok), .msg (.subscribed 1 77) [], .msg (.subscribed 2 77) [], .msg (.subscribed 3 77) [],
      .api (.unsubscribe 1 .ok), .api (.unsubscribe 0 .ok), .api (.unsubscribe 2 .ok)]) =
    [{ typ := .hello }, { typ := .subscribe, req := 1, uri := 9 }, { typ := .subscribe, req := 2, uri := 9 },
     { typ := .subscribe, req := 3, uri := 9 }, { typ := .unsubscribe, req := 4, uri := 77 }] := by decide

/-! ## event_during_unsubscribe_dropped / event_unknown_sub_is_violation -/

/-- `event_during_unsubscribe_dropped`: while the UNSUBSCRIBE of an id is outstanding (its handler list is empty but
still there) an EVENT for that id is dropped silently: no output, no state change. -/
theorem event_during_unsubscribe_dropped (s : Sess) (sid : Nat) (hs : s.sessionId = some sid) (sub : SubId) (pub : Nat)
    (p : Payload) (beh : List HAct) (h : alookup sub s.subs = some []) :
    step s (.msg (.event sub pub p) beh) = (s, []) := by
  simp [step, onMessage, hs, onEstablished, h, dispatch]

/-- `event_unknown_sub_is_violation`: an EVENT for an id the session does not hold raises `ProtocolError` out of
`onMessage` and changes nothing. -/
theorem event_unknown_sub_is_violation (s : Sess) (sid : Nat) (hs : s.sessionId = some sid) (sub : SubId) (pub : Nat)
    (p : Payload) (beh : List HAct) (h : alookup sub s.subs = none) :
    step s (.msg (.event sub pub p) beh) = (s, [.raise_ .protocolError]) := by
  simp [step, onMessage, hs, onEstablished, h]

/-- the race, on a concrete history: EVENT between `unsubscribe()` and UNSUBSCRIBED is dropped, after UNSUBSCRIBED it
is a violation -/
example : (run (init .sync) [.open_, .msg (.welcome 1) [], .api (.subscribe 1 9 none .ok), .msg (.subscribed 1 77) [],
      .msg (.event 77 1 { args := some [5] }) [], .api (.unsubscribe 0 .ok), .msg (.event 77 2 {}) [],
      .msg (.unsubscribed 2) [], .msg (.event 77 3 {}) [], .msg (.event 78 4 {}) []]).2.drop 4 =
    [[.invoke 0 1 [5] []], [.send { typ := .unsubscribe, req := 2, uri := 77 }, .ret 1], [],
     [.complete 1 (.value (.int 0)), .callback 1 (.value (.int 0))], [.raise_ .protocolError], [.raise_ .protocolError]] := by decide


/-! ## no_call_after_unsubscribe -/

theorem count_objsOf_aupd_gen (x : Nat) {subs : List (SubId × List SubRec)} {sid : SubId} {l : List SubRec} (l' : List SubRec)
    (h : alookup sid subs = some l) :
    (objsOf (aupd sid l' subs)).count x + (l.map (·.obj)).count x = (objsOf subs).count x + (l'.map (·.obj)).count x := by
  induction subs with
  | nil => simp at h
  | cons e t ih =>
    obtain ⟨k, v⟩ := e
    simp only [alookup_cons] at h
    by_cases hk : k = sid
    · subst hk
      simp at h; subst h
      simp only [aupd, if_true, objsOf, List.flatMap_cons, List.count_append]
      omega
    · simp only [hk, if_false] at h
      have := ih h
      simp only [aupd, hk, if_false, objsOf, List.flatMap_cons, List.count_append] at this ⊢
      omega

theorem count_removeObj {o : Nat} {l : List SubRec} (h : ∃ r ∈ l, r.obj = o) :
    ((removeObj o l).map (·.obj)).count o + 1 = (l.map (·.obj)).count o := by
  induction l with
  | nil => simp at h
  | cons r l ih =>
    simp only [removeObj]
    split
    · next e => simp only [List.map_cons, count_cons', e]; simp
    · next ne =>
      obtain ⟨r', hr', e'⟩ := h
      rcases List.mem_cons.mp hr' with h1 | h1
      · subst h1; exact absurd e' ne
      · have := ih ⟨r', h1, e'⟩
        simp only [List.map_cons, count_cons'] at this ⊢
        omega

/-- a successful `unsubscribe()` leaves the `Subscription` attached nowhere -/
theorem unsubscribe_makes_gone {s : Sess} (hi : Inv s) {o : Nat} {sid : SubId} (hf : findSub o s.subs = some sid)
    (ht : s.transport = true) (snd : SendRes) : Gone o (apiStep s (.unsubscribe o snd)).1 := by
  obtain ⟨l, hl, hm⟩ := findSub_some hf
  have hocc := hi.2.subs.1 o
  have hpos : 0 < (objsOf s.subs).count o := by
    obtain ⟨r, hr, e⟩ := hm
    exact List.count_pos_iff.mpr (e ▸ mem_objsOf hl hr)
  have hcnt := count_objsOf_aupd_gen o (removeObj o l) hl
  have hrem := count_removeObj hm
  simp only [occ] at hocc
  have h1 : Gone o { s with subs := aupd sid (removeObj o l) s.subs } := by
    refine ⟨by simp only []; omega, by show (futsOf (s.tbl .subscribe)).count o = 0; omega, ?_, fun x hx => (hi.2.cbq x hx).2⟩
    exact hi.2.subs.2 o (by simp only [occ]; omega)
  have hnt : (!s.transport) = false := by simp [ht]
  simp only [apiStep, apiUnsubscribe, hf, hnt, hl, Option.getD_some, Bool.false_eq_true, ↓reduceIte]
  split
  · exact (request_gone h1 _ _ _ (fun _ => rfl) _ _).1
  · unfold futureSuccess
    have h2 : Gone o { ({ s with subs := aupd sid (removeObj o l) s.subs } : Sess) with
        futs := s.futs ++ [{ kind := .unsubscribe, cell := some (.value (.int (removeObj o l).length)), count := 1 }] } :=
      h1.of (fun _ => Nat.le_refl _) (List.Sublist.refl _) (by simp) (fun x hx => Or.inl hx)
    exact (emitCb_gone h2 (x := .callback s.futs.length (.value (.int (removeObj o l).length))) rfl).1

/-- `no_call_after_unsubscribe`: after any history `h1`, once `Subscription.unsubscribe()` has been called on an
attached handler `o`, **no** continuation `h2` of the history — events for any id, further subscribes and replies in
any order, wrap-arounds of ids, anything user code does — ever invokes the handler of `o` again. -/
theorem no_call_after_unsubscribe (mode : Sched) (h1 : List SEv) (o : Nat) (snd : SendRes) (h2 : List SEv) :
    let s := runState (init mode) h1
    findSub o s.subs ≠ none → s.transport = true →
    ∀ x ∈ runOuts (apiStep s (.unsubscribe o snd)).1 h2, invokesObj o x = false := by
  intro s hf ht
  cases hfs : findSub o s.subs with
  | none => exact absurd hfs hf
  | some sid =>
    have hi : Inv s := (run_inv (init_inv mode) h1).post
    exact (run_gone (unsubscribe_makes_gone hi hfs ht snd) h2).2

/-- the same inside one EVENT dispatch: when a handler synchronously unsubscribes a sibling `o`, the rest of the
fan-out (from any cursor position) does not call `o` -/
theorem no_call_after_synchronous_unsubscribe {s : Sess} (hi : Inv s) {o : Nat} (hf : findSub o s.subs ≠ none)
    (ht : s.transport = true) (fuel : Nat) (sub : SubId) (idx : Nat) (args : Args) (kw : List (Key × KwVal)) (beh : List HAct) :
    ∀ x ∈ (dispatch fuel (apiStep s (.unsubscribe o .ok)).1 sub idx args kw beh).2, invokesObj o x = false := by
  cases hfs : findSub o s.subs with
  | none => exact absurd hfs hf
  | some sid => exact ((goneLift o).dispatch fuel (unsubscribe_makes_gone hi hfs ht .ok) sub idx args kw beh).2

/-- non-vacuity: handler 1 is called for the first event, unsubscribed, and not called for the second -/
example : (runOuts (init .sync) [.open_, .msg (.welcome 1) [], .api (.subscribe 1 9 none .ok), .api (.subscribe 2 9 none .ok),
      .msg (.subscribed 1 77) [], .msg (.subscribed 2 77) [], .msg (.event 77 1 {}) [], .api (.unsubscribe 0 .ok),
      .msg (.event 77 2 {}) []]).filter isInvoke =
    [.invoke 0 1 [] [], .invoke 1 2 [] [], .invoke 1 2 [] []] := by decide

end Abverif.Session
