import Abverif.Proofs.Lemmas.SessGone
/-
C11 — events reach exactly the handlers subscribed at that moment.

Statements about `Model/Session.lean` (EVENT branch = `dispatch`: a snapshot of the handler list, inactive
subscriptions skipped, one kwargs dict per handler — the code after the repairs of F8 and F9; `apiUnsubscribe`; the
Subscribed/Unsubscribed branches) for every state / history, both scheduling modes and every behaviour of the
handlers. The reference fan-out is `SessSpec.fanout`.
-/
namespace Abverif.Session
open Abverif.SessCodes Abverif.SessSpec

/-! ## unsubscribe_sent_iff_last -/

theorem findSub_some {o : Nat} {subs : List (SubId × List SubRec)} {sid : SubId} (h : findSub o subs = some sid) :
    ∃ l, alookup sid subs = some l ∧ ∃ r ∈ l, r.obj = o := by
  have := List.find?_some h
  cases hl : alookup sid subs with
  | none => simp [hl] at this
  | some l =>
    refine ⟨l, rfl, ?_⟩
    simp only [hl, Option.getD_some, List.any_eq_true, beq_iff_eq] at this
    exact this

/-- `unsubscribe_sent_iff_last`: `Subscription.unsubscribe()` on an attached handler (transport up) removes exactly that
handler from the list of its subscription id, and hands an UNSUBSCRIBE (for that id, with the next request id) to the
transport **iff** the list is empty afterwards, i.e. iff it was the last handler; otherwise nothing is sent and the call
returns an already completed future carrying the number of handlers left. -/
theorem unsubscribe_sent_iff_last (s : Sess) (o : Nat) (snd : SendRes) (sid : SubId) (l : List SubRec)
    (hf : findSub o s.subs = some sid) (hl : alookup sid s.subs = some l) (ht : s.transport = true) :
    let res := apiStep s (.unsubscribe o snd)
    alookup sid res.1.subs = some (removeObj o l) ∧
    (removeObj o l = [] → sends res.2 = [{ typ := .unsubscribe, req := s.drawId.2, uri := sid }]) ∧
    (removeObj o l ≠ [] → sends res.2 = [] ∧
      completions res.2 = [(s.futs.length, .value (.int (removeObj o l).length))]) := by
  have hsub : ∀ s1 : Sess, s1.subs = aupd sid (removeObj o l) s.subs → alookup sid s1.subs = some (removeObj o l) := by
    intro s1 e; rw [e, alookup_aupd_self, hl]; rfl
  have hnt : (!s.transport) = false := by simp [ht]
  simp only [apiStep, apiUnsubscribe, hf, hnt, hl, Option.getD_some, Bool.false_eq_true, ↓reduceIte]
  by_cases he : (removeObj o l).isEmpty = true
  · simp only [he, ↓reduceIte]
    have he' : removeObj o l = [] := by simpa using he
    refine ⟨?_, ?_, fun h => absurd he' h⟩
    · apply hsub; exact (request_fields _ _ _ _ _ _).2.1
    · intro _; cases snd <;> simp [request, sendReq, sends, Sess.drawId]
  · have he' : removeObj o l ≠ [] := by simpa using he
    simp only [he, Bool.false_eq_true, ↓reduceIte]
    refine ⟨?_, fun h => absurd h he', fun _ => ?_⟩
    · apply hsub
      unfold futureSuccess
      exact (emitCb_fields _ _).2.1
    · unfold futureSuccess
      obtain ⟨_, _, _, _, f5, _⟩ := emitCb_fields
        { ({ s with subs := aupd sid (removeObj o l) s.subs } : Sess) with
          futs := s.futs ++ [{ kind := .unsubscribe, cell := some (.value (.int (removeObj o l).length)), count := 1 }] }
        (.callback s.futs.length (.value (.int (removeObj o l).length)))
      rcases f5 with e | e <;> simp [sends, completions, e]

/-- non-vacuity: three handlers on id 77; only the third removal sends UNSUBSCRIBE -/
example : sends (runOuts (init .sync) [.open_ [], .msg (.welcome 1) [], .api (.subscribe 1 9 none .ok), .api (.subscribe 2 9 none .ok),
      .api (.subscribe 3 9 none .ok), .msg (.subscribed 1 77) [], .msg (.subscribed 2 77) [], .msg (.subscribed 3 77) [],
      .api (.unsubscribe 1 .ok), .api (.unsubscribe 0 .ok), .api (.unsubscribe 2 .ok)]) =
    [{ typ := .hello }, { typ := .subscribe, req := 1, uri := 9 }, { typ := .subscribe, req := 2, uri := 9 },
     { typ := .subscribe, req := 3, uri := 9 }, { typ := .unsubscribe, req := 4, uri := 77 }] := by decide

/-! ## event_during_unsubscribe_dropped / event_unknown_sub_is_violation -/

/-- `event_during_unsubscribe_dropped`: while the UNSUBSCRIBE of an id is outstanding (its handler list is empty but
still there) an EVENT for that id is dropped silently: no output, no state change. -/
theorem event_during_unsubscribe_dropped (s : Sess) (sid : Nat) (hs : s.sessionId = some sid) (sub : SubId) (pub : Nat)
    (p : Payload) (beh : List HAct) (h : alookup sub s.subs = some []) :
    step s (.msg (.event sub pub p) beh) = (s, []) := by
  simp [step, onMessage, hs, onEstablished, h, dispatch]

/-- `event_unknown_sub_is_violation`: an EVENT for an id the session does not hold raises `ProtocolError` out of
`onMessage` and changes nothing. -/
theorem event_unknown_sub_is_violation (s : Sess) (sid : Nat) (hs : s.sessionId = some sid) (sub : SubId) (pub : Nat)
    (p : Payload) (beh : List HAct) (h : alookup sub s.subs = none) :
    step s (.msg (.event sub pub p) beh) = (s, [.raise_ .protocolError]) := by
  simp [step, onMessage, hs, onEstablished, h]

/-- the race, on a concrete history: EVENT between `unsubscribe()` and UNSUBSCRIBED is dropped, after UNSUBSCRIBED it
is a violation -/
example : (run (init .sync) [.open_ [], .msg (.welcome 1) [], .api (.subscribe 1 9 none .ok), .msg (.subscribed 1 77) [],
      .msg (.event 77 1 { args := some [5] }) [], .api (.unsubscribe 0 .ok), .msg (.event 77 2 {}) [],
      .msg (.unsubscribed 2) [], .msg (.event 77 3 {}) [], .msg (.event 78 4 {}) []]).2.drop 4 =
    [[.invoke 0 1 [5] []], [.send { typ := .unsubscribe, req := 2, uri := 77 }, .ret 1], [],
     [.complete 1 (.value (.int 0)), .callback 1 (.value (.int 0))], [.raise_ .protocolError], [.raise_ .protocolError]] := by decide


/-! ## no_call_after_unsubscribe -/

theorem count_objsOf_aupd_gen (x : Nat) {subs : List (SubId × List SubRec)} {sid : SubId} {l : List SubRec} (l' : List SubRec)
    (h : alookup sid subs = some l) :
    (objsOf (aupd sid l' subs)).count x + (l.map (·.obj)).count x = (objsOf subs).count x + (l'.map (·.obj)).count x := by
  induction subs with
  | nil => simp at h
  | cons e t ih =>
    obtain ⟨k, v⟩ := e
    simp only [alookup_cons] at h
    by_cases hk : k = sid
    · subst hk
      simp at h; subst h
      simp only [aupd, if_true, objsOf, List.flatMap_cons, List.count_append]
      omega
    · simp only [hk, if_false] at h
      have := ih h
      simp only [aupd, hk, if_false, objsOf, List.flatMap_cons, List.count_append] at this ⊢
      omega

theorem count_removeObj {o : Nat} {l : List SubRec} (h : ∃ r ∈ l, r.obj = o) :
    ((removeObj o l).map (·.obj)).count o + 1 = (l.map (·.obj)).count o := by
  induction l with
  | nil => simp at h
  | cons r l ih =>
    simp only [removeObj]
    split
    · next e => simp only [List.map_cons, count_cons', e]; simp
    · next ne =>
      obtain ⟨r', hr', e'⟩ := h
      rcases List.mem_cons.mp hr' with h1 | h1
      · subst h1; exact absurd e' ne
      · have := ih ⟨r', h1, e'⟩
        simp only [List.map_cons, count_cons'] at this ⊢
        omega

/-- a successful `unsubscribe()` leaves the `Subscription` attached nowhere -/
theorem unsubscribe_makes_gone {s : Sess} (hi : Inv s) {o : Nat} {sid : SubId} (hf : findSub o s.subs = some sid)
    (ht : s.transport = true) (snd : SendRes) : Gone o (apiStep s (.unsubscribe o snd)).1 := by
  obtain ⟨l, hl, hm⟩ := findSub_some hf
  have hocc := hi.2.subs.1 o
  have hpos : 0 < (objsOf s.subs).count o := by
    obtain ⟨r, hr, e⟩ := hm
    exact List.count_pos_iff.mpr (e ▸ mem_objsOf hl hr)
  have hcnt := count_objsOf_aupd_gen o (removeObj o l) hl
  have hrem := count_removeObj hm
  simp only [occ] at hocc
  have h1 : Gone o { s with subs := aupd sid (removeObj o l) s.subs } := by
    refine ⟨by simp only []; omega, by show (futsOf (s.tbl .subscribe)).count o = 0; omega, ?_, fun x hx => (hi.2.cbq x hx).2⟩
    exact hi.2.subs.2 o (by simp only [occ]; omega)
  have hnt : (!s.transport) = false := by simp [ht]
  simp only [apiStep, apiUnsubscribe, hf, hnt, hl, Option.getD_some, Bool.false_eq_true, ↓reduceIte]
  split
  · exact (request_gone h1 _ _ _ (fun _ => rfl) _ _).1
  · unfold futureSuccess
    have h2 : Gone o { ({ s with subs := aupd sid (removeObj o l) s.subs } : Sess) with
        futs := s.futs ++ [{ kind := .unsubscribe, cell := some (.value (.int (removeObj o l).length)), count := 1 }] } :=
      h1.of (fun _ => Nat.le_refl _) (List.Sublist.refl _) (by simp) (fun x hx => Or.inl hx)
    exact (emitCb_gone h2 (x := .callback s.futs.length (.value (.int (removeObj o l).length))) rfl).1

/-- `no_call_after_unsubscribe`: after any history `h1`, once `Subscription.unsubscribe()` has been called on an
attached handler `o`, **no** continuation `h2` of the history — events for any id, further subscribes and replies in
any order, wrap-arounds of ids, anything user code does — ever invokes the handler of `o` again. -/
theorem no_call_after_unsubscribe (mode : Sched) (h1 : List SEv) (o : Nat) (snd : SendRes) (h2 : List SEv) :
    let s := runState (init mode) h1
    findSub o s.subs ≠ none → s.transport = true →
    ∀ x ∈ runOuts (apiStep s (.unsubscribe o snd)).1 h2, invokesObj o x = false := by
  intro s hf ht
  cases hfs : findSub o s.subs with
  | none => exact absurd hfs hf
  | some sid =>
    have hi : Inv s := (run_inv (init_inv mode) h1).post
    exact (run_gone (unsubscribe_makes_gone hi hfs ht snd) h2).2

/-- the same inside one EVENT dispatch: when a handler synchronously unsubscribes a sibling `o`, the rest of the
fan-out (over whatever is left of the snapshot) does not call `o` -/
theorem no_call_after_synchronous_unsubscribe {s : Sess} (hi : Inv s) {o : Nat} (hf : findSub o s.subs ≠ none)
    (ht : s.transport = true) (sub : SubId) (args : Args) (kw : List (Key × KwVal)) (l : List SubRec) (beh : List HAct) :
    ∀ x ∈ (dispatch (apiStep s (.unsubscribe o .ok)).1 sub args kw l beh).2, invokesObj o x = false := by
  cases hfs : findSub o s.subs with
  | none => exact absurd hfs hf
  | some sid => exact ((goneLift o).dispatch (unsubscribe_makes_gone hi hfs ht .ok) sub args kw l beh).2

/-- non-vacuity: handler 1 is called for the first event, unsubscribed, and not called for the second -/
example : (runOuts (init .sync) [.open_ [], .msg (.welcome 1) [], .api (.subscribe 1 9 none .ok), .api (.subscribe 2 9 none .ok),
      .msg (.subscribed 1 77) [], .msg (.subscribed 2 77) [], .msg (.event 77 1 {}) [], .api (.unsubscribe 0 .ok),
      .msg (.event 77 2 {}) []]).filter isInvoke =
    [.invoke 0 1 [] [], .invoke 1 2 [] [], .invoke 1 2 [] []] := by decide


/-! ## dispatch_exact -/

/-- `dispatch_exact`, full statement: on EVENT(sub, …) the model's loop does exactly what the Spec's fan-out does — the
handlers attached at arrival, once each, in subscription order (skipping one that an earlier handler of this dispatch
detached), each with the event's args/kwargs plus the details under its *own* `details_arg` only — whatever the
handlers do. -/
def DispatchExact : Prop :=
  ∀ (s : Sess) (sub : SubId) (l : List SubRec) (args : Args) (kw : List (Key × KwVal)) (beh : List HAct),
    dispatch s sub args kw l beh = fanout s sub args kw l beh

/-- `dispatch_exact` holds in full (since the repairs of F8 — one kwargs dict per handler — and F9 — iteration over a
snapshot, inactive subscriptions skipped). -/
theorem dispatch_exact : DispatchExact := by
  intro s sub l args kw beh
  induction l generalizing s beh with
  | nil => rfl
  | cons r rest ih =>
    unfold dispatch fanout
    split
    · simp only [ih]
    · exact ih s beh

/-- … so the EVENT branch of `onMessage` is the Spec's fan-out over the handlers attached at arrival -/
theorem event_is_fanout (s : Sess) (sid : Nat) (hs : s.sessionId = some sid) (sub : SubId) (pub : Nat) (p : Payload)
    (beh : List HAct) (l : List SubRec) (hl : alookup sub s.subs = some l) :
    step s (.msg (.event sub pub p) beh) = fanout s sub (p.args.getD []) (kwOfPayload p) l beh := by
  simp only [step, onMessage, hs, onEstablished, hl]
  exact dispatch_exact _ _ _ _ _ _

/-- the state after: h1 subscribed with `details_arg="details"`, h2 without, both attached under id 77 -/
def sF8 : Sess := runState (init .sync) [.open_ [], .msg (.welcome 1) [], .api (.subscribe 1 9 (some { detailsArg := some 0 }) .ok),
  .api (.subscribe 2 9 none .ok), .msg (.subscribed 1 77) [], .msg (.subscribed 2 77) []]

/-- the state after: handlers a, b, c attached under id 77 -/
def sF9 : Sess := runState (init .sync) [.open_ [], .msg (.welcome 1) [], .api (.subscribe 1 9 none .ok), .api (.subscribe 2 9 none .ok),
  .api (.subscribe 3 9 none .ok), .msg (.subscribed 1 77) [], .msg (.subscribed 2 77) [], .msg (.subscribed 3 77) []]

/-- non-vacuity, on the two inputs that broke the code before the repairs (ledger F8, F9): with kwargs `{5: 2}` h2 is
called *without* h1's details; when a unsubscribes itself synchronously b and c are still called -/
example : (runOuts sF8 [.msg (.event 77 1 { args := some [1], kwargs := some [(5, 2)] }) []]) =
    [.invoke 0 1 [1] [(5, .v 2), (0, .details 0)], .invoke 1 2 [1] [(5, .v 2)]] := by decide
example : ((runOuts sF9 [.msg (.event 77 1 { args := some [1] }) [{ calls := [.unsubSelf] }]]).filter isInvoke) =
    [.invoke 0 1 [1] [], .invoke 1 2 [1] [], .invoke 2 3 [1] []] := by decide
/-- a handler detached by an earlier handler of the same dispatch is not called (no call after unsubscribe wins over
"attached at arrival") -/
example : ((runOuts sF9 [.msg (.event 77 1 {}) [{ calls := [.api (.unsubscribe 1 .ok)] }]]).filter isInvoke) =
    [.invoke 0 1 [] [], .invoke 2 3 [] []] := by decide

theorem apiStep_subs {s : Sess} {a : Api} (h : ∀ o r, a ≠ .unsubscribe o r) : (apiStep s a).1.subs = s.subs := by
  cases a with
  | call u a k o r =>
    simp only [apiStep, apiCall]; split
    · rfl
    · exact (request_fields _ _ _ _ _ _).2.1
  | publish u a k o r =>
    simp only [apiStep, apiPublish]; split
    · rfl
    · split
      · exact (request_fields _ _ _ _ _ _).2.1
      · cases r <;> simp [sendReq]
  | subscribe hh t o r =>
    simp only [apiStep, apiSubscribe]; split
    · rfl
    · exact (request_fields _ _ _ _ _ _).2.1
  | register hh t o r =>
    simp only [apiStep, apiRegister]; split
    · rfl
    · exact (request_fields _ _ _ _ _ _).2.1
  | unsubscribe o r => exact absurd rfl (h o r)
  | unregister o r =>
    simp only [apiStep, apiUnregister]; split
    · rfl
    · split
      · rfl
      · exact (request_fields _ _ _ _ _ _).2.1
  | cancel f =>
    simp only [apiStep, apiCancel]; split
    · rfl
    · split
      · rfl
      · split
        · rfl
        · unfold cancelDo; split <;> rfl
  | join => simp only [apiStep, apiJoin]; split <;> (try split) <;> rfl
  | leave => simp only [apiStep, apiLeave]; split <;> (try split) <;> (try split) <;> rfl
  | disconnect => simp only [apiStep, apiDisconnect]; split <;> rfl


/-! ## handler_error_isolated -/

theorem runCalls_no_raise (s : Sess) (self : Option FutId) (cs : List HCall) : ∀ x ∈ (runCalls s self cs).2, isRaise x = false := by
  induction cs generalizing s with
  | nil => intro x hx; simp [runCalls_nil] at hx
  | cons c cs ih =>
    have hmap : ∀ (o : List SOut), ∀ x ∈ o.map toCaught, isRaise x = false := by
      intro o x hx
      obtain ⟨y, _, rfl⟩ := List.mem_map.mp hx
      cases y <;> rfl
    cases c with
    | api a =>
      rw [runCalls_api]; intro x hx
      rcases List.mem_append.mp hx with h | h
      · exact hmap _ x h
      · exact ih _ x h
    | unsubSelf =>
      cases self with
      | none => rw [runCalls_self_none]; exact ih s
      | some o =>
        rw [runCalls_self_some]; intro x hx
        rcases List.mem_append.mp hx with h | h
        · exact hmap _ x h
        · exact ih _ x h

theorem runAct_no_raise (s : Sess) (self : Option FutId) (a : HAct) : ∀ x ∈ (runAct s self a).2, isRaise x = false := by
  unfold runAct
  split
  · intro x hx
    rcases List.mem_append.mp hx with h | h
    · exact runCalls_no_raise _ _ _ x h
    · obtain ⟨_, _, _, _, f5, _⟩ := emitCb_fields (runCalls s self a.calls).1 .userError
      rcases f5 with e | e <;> rw [e] at h <;> simp at h
      subst h; rfl
  · exact runCalls_no_raise _ _ _

/-- `handler_error_isolated` (1): whatever the handlers of an EVENT do — raise, or have their own API calls raise —
no exception leaves `onMessage`: the dispatch outputs no `raise_`. -/
theorem handler_raise_never_escapes (s : Sess) (sub : SubId) (args : Args) (kw : List (Key × KwVal)) (l : List SubRec)
    (beh : List HAct) : ∀ x ∈ (dispatch s sub args kw l beh).2, isRaise x = false := by
  induction l generalizing s beh with
  | nil => intro x hx; simp [dispatch] at hx
  | cons r rest ih =>
    unfold dispatch
    split
    · intro x hx
      rcases List.mem_cons.mp hx with h | h
      · rw [h]; rfl
      · rcases List.mem_append.mp h with h | h
        · exact runAct_no_raise _ _ _ x h
        · exact ih _ _ x h
    · exact ih s beh

/-- a handler's behaviour with the "raises" bit cleared -/
def HAct.calm (a : HAct) : HAct := { a with raises := false }

theorem apiStep_mode (s : Sess) (a : Api) : (apiStep s a).1.mode = s.mode := by
  have hreq : ∀ (s : Sess) k mkReq mkMsg keep snd, (request s k mkReq mkMsg keep snd).1.mode = s.mode := by
    intro s k mkReq mkMsg keep snd
    cases snd <;> cases keep <;> simp [request, sendReq_ok, sendReq_fail_keep, sendReq_fail_forget, Sess.unwatch] <;>
      (try split) <;> simp [Sess.newFut, Sess.drawId]
  cases a with
  | call u a k o r =>
    simp only [apiStep, apiCall]; split
    · rfl
    · exact hreq _ _ _ _ _ _
  | publish u a k o r =>
    simp only [apiStep, apiPublish]; split
    · rfl
    · split
      · exact hreq _ _ _ _ _ _
      · cases r <;> simp [sendReq, Sess.drawId]
  | subscribe hh t o r =>
    simp only [apiStep, apiSubscribe]; split
    · rfl
    · exact hreq _ _ _ _ _ _
  | register hh t o r =>
    simp only [apiStep, apiRegister]; split
    · rfl
    · exact hreq _ _ _ _ _ _
  | unsubscribe o r =>
    simp only [apiStep, apiUnsubscribe]; split
    · rfl
    · split
      · rfl
      · split
        · exact hreq _ _ _ _ _ _
        · unfold futureSuccess emitCb; split <;> simp_all
  | unregister o r =>
    simp only [apiStep, apiUnregister]; split
    · rfl
    · split
      · rfl
      · exact hreq _ _ _ _ _ _
  | cancel f =>
    simp only [apiStep, apiCancel]; split
    · rfl
    · split
      · rfl
      · split
        · rfl
        · unfold cancelDo; split <;> rfl
  | join => simp only [apiStep, apiJoin]; split <;> (try split) <;> rfl
  | leave => simp only [apiStep, apiLeave]; split <;> (try split) <;> (try split) <;> rfl
  | disconnect => simp only [apiStep, apiDisconnect]; split <;> rfl

theorem runCalls_mode (s : Sess) (self : Option FutId) (cs : List HCall) : (runCalls s self cs).1.mode = s.mode := by
  induction cs generalizing s with
  | nil => rfl
  | cons c cs ih =>
    cases c with
    | api a => rw [runCalls_api]; simp only []; rw [ih, apiStep_mode]
    | unsubSelf =>
      cases self with
      | none => rw [runCalls_self_none]; exact ih s
      | some o => rw [runCalls_self_some]; simp only []; rw [ih, apiStep_mode]

theorem runAct_sync {s : Sess} (hm : s.mode = .sync) (self : Option FutId) (a : HAct) :
    (runAct s self a).1 = (runAct s self a.calm).1 ∧
    (runAct s self a).2.filter (· != .userError) = (runAct s self a.calm).2.filter (· != .userError) ∧
    (runAct s self a).1.mode = .sync := by
  have hmode : (runCalls s self a.calls).1.mode = .sync := by rw [runCalls_mode, hm]
  have hcalm : runAct s self a.calm = runCalls s self a.calls := by simp [runAct, HAct.calm]
  rw [hcalm]
  by_cases hr : a.raises = true
  · have : runAct s self a = ((runCalls s self a.calls).1, (runCalls s self a.calls).2 ++ [.userError]) := by
      simp [runAct, hr, emitCb, hmode]
    rw [this]
    refine ⟨rfl, ?_, hmode⟩
    simp [List.filter_append]
  · have : runAct s self a = runCalls s self a.calls := by simp [runAct, hr]
    rw [this]
    exact ⟨rfl, rfl, hmode⟩

/-- `handler_error_isolated` (2) — `_partial`: proved for the Twisted scheduling (on asyncio the `onUserError` notification is
queued instead of emitted, so the two runs differ in the callback queue; that the rest of the state and the outputs are
equal there too is not proved, only observed by the correspondence runs): clearing (or setting) the "raises" bit of any handlers of an EVENT
changes nothing but the `onUserError` notifications — same final state (handler lists, tables, futures), same
invocations with the same arguments in the same order, same messages sent. A raising handler neither prevents
delivery to the others nor harms the session. -/
theorem handler_error_isolated_partial (s : Sess) (hm : s.mode = .sync) (sub : SubId) (args : Args)
    (kw : List (Key × KwVal)) (l : List SubRec) (beh : List HAct) :
    (dispatch s sub args kw l beh).1 = (dispatch s sub args kw l (beh.map HAct.calm)).1 ∧
    (dispatch s sub args kw l beh).2.filter (· != .userError) =
      (dispatch s sub args kw l (beh.map HAct.calm)).2.filter (· != .userError) := by
  induction l generalizing s beh with
  | nil => exact ⟨rfl, rfl⟩
  | cons r rest ih =>
    have hhead : (beh.map HAct.calm).headD {} = (beh.headD {}).calm := by cases beh <;> rfl
    have htail : (beh.map HAct.calm).tail = beh.tail.map HAct.calm := by cases beh <;> rfl
    unfold dispatch
    split
    · obtain ⟨e1, e2, e3⟩ := runAct_sync hm (some r.obj) (beh.headD {})
      obtain ⟨i1, i2⟩ := ih (runAct s (some r.obj) (beh.headD {})).1 e3 beh.tail
      simp only [hhead, htail]
      rw [← e1]
      refine ⟨i1, ?_⟩
      simp only [List.filter_cons, List.filter_append]
      rw [e2, i2]
    · exact ih s hm beh

/-- non-vacuity: three handlers, the first and third raise; all three are called, nothing escapes -/
example : runOuts sF9 [.msg (.event 77 1 { args := some [4] }) [{ raises := true }, {}, { raises := true }]] =
    [.invoke 0 1 [4] [], .userError, .invoke 1 2 [4] [], .invoke 2 3 [4] [], .userError] := by decide


/-! ## "an id the session never held" -/

theorem alookup_aupd_none {β : Type} {k k' : Nat} (v : β) {l : List (Nat × β)} (h : alookup k l = none) :
    alookup k (aupd k' v l) = none := by
  by_cases e : k = k'
  · subst e; rw [alookup_aupd_self, h]; rfl
  · rw [alookup_aupd_ne e]; exact h

theorem alookup_adel_none {β : Type} {k k' : Nat} {l : List (Nat × β)} (h : alookup k l = none) :
    alookup k (adel k' l) = none := by
  by_cases e : k = k'
  · subst e; exact alookup_adel_self _ _
  · rw [alookup_adel_ne e]; exact h

theorem apiStep_nosub {s : Sess} {sub : SubId} (a : Api) (h : alookup sub s.subs = none) :
    alookup sub (apiStep s a).1.subs = none := by
  cases a with
  | unsubscribe o r =>
    simp only [apiStep, apiUnsubscribe]
    split
    · exact h
    · split
      · exact h
      · split
        · rw [(request_fields _ _ _ _ _ _).2.1]; exact alookup_aupd_none _ h
        · unfold futureSuccess; rw [(emitCb_fields _ _).2.1]; exact alookup_aupd_none _ h
  | call u a k o r => rw [apiStep_subs (fun _ _ e => by cases e)]; exact h
  | publish u a k o r => rw [apiStep_subs (fun _ _ e => by cases e)]; exact h
  | subscribe hh t o r => rw [apiStep_subs (fun _ _ e => by cases e)]; exact h
  | register hh t o r => rw [apiStep_subs (fun _ _ e => by cases e)]; exact h
  | unregister o r => rw [apiStep_subs (fun _ _ e => by cases e)]; exact h
  | cancel f => rw [apiStep_subs (fun _ _ e => by cases e)]; exact h
  | join => rw [apiStep_subs (fun _ _ e => by cases e)]; exact h
  | leave => rw [apiStep_subs (fun _ _ e => by cases e)]; exact h
  | disconnect => rw [apiStep_subs (fun _ _ e => by cases e)]; exact h

/-- `NoSubRel sub`: a step relation that only says "afterwards id `sub` is (still) not held" -/
def NoSubRel (sub : SubId) (_ : Sess) (_ : List SOut) (s' : Sess) : Prop := alookup sub s'.subs = none

theorem noSubLift (sub : SubId) : Lift (NoSubRel sub) (fun s => alookup sub s.subs = none) where
  refl := fun h => h
  trans := fun _ h2 => h2
  post := fun _ r => r
  caught := fun r => r
  api := fun a h => apiStep_nosub a h
  userError := fun h => by show alookup sub (emitCb _ _).1.subs = none; rw [(emitCb_fields _ _).2.1]; exact h
  invoke := fun _ _ h _ => h

theorem rejectList_subs (s : Sess) (o : Outcome) (fs : List FutId) : (rejectList s o fs).1.subs = s.subs := by
  induction fs generalizing s with
  | nil => rfl
  | cons f fs ih =>
    rw [rejectList_cons]; split
    · exact ih s
    · simp only []; rw [ih, (settle_fields _ _ _).1]

theorem noSubLiftX (sub : SubId) : LiftX (NoSubRel sub) (fun s => alookup sub s.subs = none) (fun _ => true) where
  toLift := noSubLift sub
  okOf := fun _ _ => rfl
  lc := fun h hc => by show alookup sub _ = none; rw [(core_fields hc).2.2.1]; exact h
  out := fun h _ => h
  emit := fun h _ => by show alookup sub (emitCb _ _).1.subs = none; rw [(emitCb_fields _ _).2.1]; exact h
  enq := fun _ h => h
  lostMap := fun r => r
  cbqOk := fun _ _ _ => rfl
  clearQ := fun h => h
  rejectAll := fun o h => by show alookup sub (rejectList _ _ _).1.subs = none; rw [rejectList_subs]; exact h

/-- a step that is not "SUBSCRIBED naming `sub`" cannot make the session hold `sub` -/
theorem step_nosub {s : Sess} {sub : SubId} (e : SEv) (he : ∀ id beh, e ≠ .msg (.subscribed id sub) beh)
    (h : alookup sub s.subs = none) : alookup sub (step s e).1.subs = none := by
  cases e with
  | api a => exact apiStep_nosub a h
  | pump => exact (noSubLiftX sub).drain 8 h
  | tick => exact (noSubLiftX sub).tick h
  | open_ acts => exact (noSubLiftX sub).onOpen h acts
  | closed acts => exact (noSubLiftX sub).onClose h acts
  | fault l => exact h
  | resolve req r => exact (noSubLiftX sub).settleInv h req _
  | fail req e => exact (noSubLiftX sub).settleInv h req _
  | lateProgress req v => exact (noSubLiftX sub).lateProgress h req v
  | msg m beh =>
    simp only [step, onMessage]
    split
    · exact (noSubLiftX sub).preSession h beh m
    · have hpop : ∀ (kind : Kind) (id : ReqId) (k : Sess → Req → Sess × List SOut),
          (∀ s1 r, alookup sub s1.subs = none → alookup sub (k s1 r).1.subs = none) →
          alookup sub (popReply s kind id k).1.subs = none := by
        intro kind id k hk
        unfold popReply; split
        · exact h
        · simp only []; split
          · simpa using h
          · exact hk _ _ (by simpa using h)
      cases m with
      | subscribed id sub' =>
        simp only [onEstablished]
        refine hpop _ _ _ (fun s1 r h1 => ?_)
        rw [(settle_fields _ _ _).1]
        have hne : sub ≠ sub' := fun e => he id beh (e ▸ rfl)
        simp only []
        split
        · rw [alookup_append, h1]; simp [alookup_cons, Ne.symm hne]
        · exact alookup_aupd_none _ h1
      | goodbye =>
        simp only [onEstablished]
        split
        · exact h
        · exact (noSubLiftX sub).goodbye h _
      | event sub' pub p =>
        simp only [onEstablished]; split
        · exact h
        · exact (noSubLift sub).dispatch h _ _ _ _ _
      | published id pub =>
        simp only [onEstablished]
        exact hpop _ _ _ (fun s1 r h1 => by rw [(settle_fields _ _ _).1]; exact h1)
      | unsubscribed id =>
        simp only [onEstablished]
        exact hpop _ _ _ (fun s1 r h1 => by rw [(settle_fields _ _ _).1]; exact alookup_adel_none h1)
      | result id p progress =>
        simp only [onEstablished]; split
        · exact h
        · split
          · split
            · exact h
            · exact (noSubLift sub).runAct h none _
          · split
            · exact h
            · rw [(settle_fields _ _ _).1]; exact h
      | registered id reg =>
        simp only [onEstablished]
        refine hpop _ _ _ (fun s1 r h1 => ?_)
        split
        · rw [(settle_fields _ _ _).1]; exact h1
        · exact h1
      | unregistered id reg =>
        simp only [onEstablished]; split
        · split <;> exact h
        · exact hpop _ _ _ (fun s1 r h1 => by rw [(settle_fields _ _ _).1]; exact h1)
      | error t id uri p =>
        simp only [onEstablished]; split
        · exact h
        · split
          · exact h
          · split
            · simpa using h
            · rw [(settle_fields _ _ _).1]; simpa using h
      | invocation id reg p rp => exact (noSubLiftX sub).onInvocation h beh id reg p _
      | interrupt id => exact (noSubLiftX sub).settleInv h id _
      | welcome sid => exact h
      | abort => exact h
      | challenge => exact h
      | other => exact h

/-- `event_unknown_sub_is_violation`, as the property words it: after any history in which no SUBSCRIBED ever named
the id `sub` — whatever else happened — an EVENT for `sub` on the joined session raises `ProtocolError` and changes
nothing. (After UNSUBSCRIBED removed an id it is "not held" again, see `event_unknown_sub_is_violation`.) -/
theorem event_for_never_held_id_is_violation (mode : Sched) (h : List SEv) (sub : SubId)
    (hnever : ∀ e ∈ h, ∀ id beh, e ≠ .msg (.subscribed id sub) beh)
    (sid : Nat) (hs : (runState (init mode) h).sessionId = some sid) (pub : Nat) (p : Payload) (beh : List HAct) :
    step (runState (init mode) h) (.msg (.event sub pub p) beh) = (runState (init mode) h, [.raise_ .protocolError]) := by
  have key : ∀ (s : Sess) (hist : List SEv), alookup sub s.subs = none →
      (∀ e ∈ hist, ∀ id beh, e ≠ .msg (.subscribed id sub) beh) → alookup sub (runState s hist).subs = none := by
    intro s hist
    induction hist generalizing s with
    | nil => intro h0 _; exact h0
    | cons e es ih =>
      intro h0 hn
      rw [runState_cons]
      exact ih _ (step_nosub e (hn e List.mem_cons_self) h0) (fun e' he' => hn e' (List.mem_cons_of_mem _ he'))
  exact event_unknown_sub_is_violation _ sid hs sub pub p beh (key (init mode) h rfl hnever)

end Abverif.Session
