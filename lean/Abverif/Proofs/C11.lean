import Abverif.Model.SessSpec
namespace Abverif.Session
theorem placeholder_c11 : True := trivial
end Abverif.Session
