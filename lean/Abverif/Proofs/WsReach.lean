import Abverif.Proofs.WsRoundtrip
import Abverif.Proofs.C05
/-
# The side condition of the segmentation theorem holds in every reachable state

`LiveWF` (the frame pointer is within the current frame while the connection lives) is an invariant of EVERY
operation of the model — API calls, timers, transport loss, reads — so `segmentation_independent` applies in every
state reachable from a fresh connection by any history, not only after reads.
-/
namespace Abverif.Ws

/-- the receive-side frame position is untouched -/
def RecvSame (a b : S) : Prop := b.cur = a.cur ∧ b.ptr = a.ptr

theorem RecvSame.refl (a : S) : RecvSame a a := ⟨rfl, rfl⟩
theorem RecvSame.trans {a b c : S} (h1 : RecvSame a b) (h2 : RecvSame b c) : RecvSame a c :=
  ⟨h2.1.trans h1.1, h2.2.trans h1.2⟩

theorem RecvSame.of_SendEq {a b : S} (h : SendEq a b) : RecvSame a b := by
  unfold SendEq at h
  constructor <;> rw [h]

theorem dropConnection_RecvSame (s : S) (a : Bool) : RecvSame s (dropConnection s a) := by
  unfold dropConnection flushQueue; split
  · cases a <;> exact ⟨rfl, rfl⟩
  · exact ⟨rfl, rfl⟩

theorem sendCloseFrame_RecvSame (s : S) (c : Option Nat) (r : Option Bytes) (i : Bool) :
    RecvSame s (sendCloseFrame s c r i) := by
  unfold sendCloseFrame
  split
  · exact RecvSame.refl s
  · exact RecvSame.refl s
  · exact ⟨rfl, rfl⟩
  · have h := RecvSame.of_SendEq (sendFrame_SendEq s 8 (closePayload c r) true 0 false 0)
    dsimp only
    split
    · exact ⟨h.1, h.2⟩
    · exact ⟨h.1, h.2⟩

theorem sendClose_RecvSame (s : S) (c : Option Nat) (r : Option Bytes) : RecvSame s (sendClose s c r) := by
  unfold sendClose
  split
  · exact ⟨rfl, rfl⟩
  · split
    · exact ⟨rfl, rfl⟩
    · exact sendCloseFrame_RecvSame _ _ _ _

theorem connectionLost_RecvSame (s : S) : RecvSame s (connectionLost s) := by
  unfold connectionLost
  split
  · exact RecvSame.refl s
  · unfold reportClose unsentUnclean markClosed cancelOnLost
    split <;> split <;> (try split) <;> (try split) <;> exact ⟨rfl, rfl⟩

theorem sendAutoPing_RecvSame (s : S) : RecvSame s (sendAutoPing s) := by
  unfold sendAutoPing
  dsimp only
  have h := RecvSame.of_SendEq (sendPing_SendEq (beginAutoPing s) ((beginAutoPing s).pingPending.getD []))
  split
  · exact ⟨h.1, h.2⟩
  · split
    · exact ⟨h.1, h.2⟩
    · exact ⟨h.1, h.2⟩

theorem fire_RecvSame (s : S) (k : TK) : RecvSame s (fire s k) := by
  cases k <;> simp only [fire]
  · split
    · exact dropConnection_RecvSame _ _
    · exact ⟨rfl, rfl⟩
  · split
    · exact dropConnection_RecvSame _ _
    · exact ⟨rfl, rfl⟩
  · split
    · exact dropConnection_RecvSame _ _
    · exact ⟨rfl, rfl⟩
  · split
    · exact dropConnection_RecvSame _ _
    · exact ⟨rfl, rfl⟩
  · exact sendAutoPing_RecvSame s
  · exact RecvSame.of_SendEq (sendTick_SendEq _)

theorem advanceTo_RecvSame (target : Nat) : ∀ (fuel : Nat) (s : S), RecvSame s (advanceTo target fuel s) := by
  intro fuel
  induction fuel with
  | zero => intro s; exact RecvSame.refl s
  | succ n ih =>
    intro s
    unfold advanceTo
    split
    · split
      · exact (RecvSame.trans (by exact ⟨rfl, rfl⟩) (fire_RecvSame _ _)).trans (ih _)
      · exact ⟨rfl, rfl⟩
    · exact ⟨rfl, rfl⟩

theorem sendPrepared_RecvSame (s : S) (pl : Bytes) (b : Bool) : RecvSame s (sendPrepared s pl b) := by
  unfold sendPrepared
  have hk : RecvSame s (prepareKey s).1 := by unfold prepareKey; split <;> exact ⟨rfl, rfl⟩
  dsimp only
  split
  · exact ⟨hk.1, hk.2⟩
  · split
    · exact ⟨hk.1, hk.2⟩
    · exact hk.trans (RecvSame.trans (by exact ⟨rfl, rfl⟩) (RecvSame.of_SendEq (sendData_SendEq _ _ _ _)))

theorem beginMessage_RecvSame (s : S) (b : Bool) : RecvSame s (beginMessage s b) := by
  unfold beginMessage
  split
  · exact RecvSame.refl s
  · split <;> exact ⟨rfl, rfl⟩

theorem setFrameState_RecvSame (s : S) (n : Nat) (k : Option Abverif.Xor.Key) (op : Nat) :
    RecvSame s (setFrameState s n k op) := ⟨rfl, rfl⟩
theorem enterFrame_RecvSame (s : S) : RecvSame s (enterFrame s) := ⟨rfl, rfl⟩
theorem advanceFramePtr_RecvSame (s : S) (n : Nat) : RecvSame s (advanceFramePtr s n) := ⟨rfl, rfl⟩
theorem leaveFrameIfDone_RecvSame (s : S) : RecvSame s (leaveFrameIfDone s) := by
  unfold leaveFrameIfDone; split <;> exact ⟨rfl, rfl⟩

theorem beginMessageFrameCore_RecvSame (s s' : S) (n : Nat) (h : beginMessageFrameCore s n = some s') : RecvSame s s' := by
  unfold beginMessageFrameCore at h
  split at h
  · cases h
  · split at h
    · cases h
    · dsimp only at h
      split at h
      · cases h
      · simp only [Option.some.injEq] at h
        subst h
        have hk : RecvSame s (drawKey s).1 := RecvSame.of_SendEq (drawKey_SendEq s)
        exact ((hk.trans (setFrameState_RecvSame _ _ _ _)).trans
          (RecvSame.of_SendEq (sendData_SendEq _ _ _ _))).trans (enterFrame_RecvSame _)

theorem beginMessageFrame_RecvSame (s : S) (n : Nat) : RecvSame s (beginMessageFrame s n) := by
  unfold beginMessageFrame
  split
  · exact RecvSame.refl s
  · split
    · rename_i s' h; exact beginMessageFrameCore_RecvSame s s' n h
    · exact ⟨rfl, rfl⟩

theorem sendMessageFrameData_RecvSame (s : S) (pl : Bytes) (sync : Bool) : RecvSame s (sendMessageFrameData s pl sync) := by
  unfold sendMessageFrameData
  split
  · exact RecvSame.refl s
  · split
    · exact ⟨rfl, rfl⟩
    · split
      · exact ⟨rfl, rfl⟩
      · dsimp only
        exact ((advanceFramePtr_RecvSame s _).trans (RecvSame.of_SendEq (sendData_SendEq _ _ _ _))).trans
          (leaveFrameIfDone_RecvSame _)

theorem endMessage_RecvSame (s : S) : RecvSame s (endMessage s) := by
  unfold endMessage
  split
  · exact RecvSame.refl s
  · split
    · exact ⟨rfl, rfl⟩
    · have h := RecvSame.of_SendEq (sendFrame_SendEq s 0 [] true 0 false 0)
      exact ⟨h.1, h.2⟩

theorem sendMessageFrame_RecvSame (s : S) (pl : Bytes) (sync : Bool) : RecvSame s (sendMessageFrame s pl sync) := by
  unfold sendMessageFrame
  split
  · exact RecvSame.refl s
  · split
    · exact ⟨rfl, rfl⟩
    · split
      · rename_i s' h
        exact (beginMessageFrameCore_RecvSame s s' _ h).trans (sendMessageFrameData_RecvSame _ _ _)
      · exact ⟨rfl, rfl⟩

theorem handshakeDone_RecvSame (s : S) : RecvSame s (handshakeDone s) := by
  unfold handshakeDone
  split
  · exact RecvSame.refl s
  · dsimp only
    split <;> exact ⟨rfl, rfl⟩

/-- every operation but a read leaves the receive-side frame position alone -/
theorem stepCore_RecvSame (s : S) (op : Op) (h1 : ∀ d, op ≠ .feed d) (h2 : ∀ d, op ≠ .hsThenFeed d) :
    RecvSame s (stepCore s op) := by
  cases op with
  | feed d => exact absurd rfl (h1 d)
  | hsThenFeed d => exact absurd rfl (h2 d)
  | lost => exact connectionLost_RecvSame s
  | advance dt => exact advanceTo_RecvSame _ _ _
  | sendMessage pl b f sy => exact RecvSame.of_SendEq (sendMessage_SendEq s pl b f sy)
  | sendPrepared pl b => exact sendPrepared_RecvSame s pl b
  | beginMessage b => exact beginMessage_RecvSame s b
  | beginFrame n => exact beginMessageFrame_RecvSame s n
  | frameData pl sy => exact sendMessageFrameData_RecvSame s pl sy
  | endMessage => exact endMessage_RecvSame s
  | messageFrame pl sy => exact sendMessageFrame_RecvSame s pl sy
  | ping pl => exact RecvSame.of_SendEq (sendPing_SendEq s pl)
  | pong pl => exact RecvSame.of_SendEq (sendPong_SendEq s pl)
  | close c r => exact sendClose_RecvSame s c r
  | hsDone => exact handshakeDone_RecvSame s

theorem LiveWF.of_RecvSame {a b : S} (h : LiveWF a) (hr : RecvSame a b) (hrank : a.st.rank ≤ b.st.rank) : LiveWF b := by
  intro hb
  have ha : a.st ≠ .closed := by
    intro hc
    rw [hc] at hrank
    cases hbs : b.st <;> simp [hbs, St.rank] at hrank
    exact hb hbs
  intro hd hcur
  rw [hr.1] at hcur
  rw [hr.2]
  exact h ha hd hcur

theorem pump_RecvSame (s : S) : RecvSame s (pump s) := advanceTo_RecvSame _ _ _

/-- **`LiveWF` is an invariant of every operation** -/
theorem step_LiveWF (s : S) (op : Op) (hf : s.cfg.failByDrop = true) (h : LiveWF s) : LiveWF (step s op) := by
  unfold step
  have hcore : LiveWF (stepCore s op) := by
    cases op with
    | feed d => exact dataReceived_LiveWF s d h hf
    | hsThenFeed d =>
      have h1 : LiveWF (handshakeDone s) := h.of_RecvSame (handshakeDone_RecvSame s) (handshakeDone_Ext s).rank
      exact dataReceived_LiveWF _ d h1 (by rw [(handshakeDone_Ext s).cfg]; exact hf)
    | lost => exact h.of_RecvSame (stepCore_RecvSame s .lost (fun _ => by simp) (fun _ => by simp)) (connectionLost_rank s)
    | advance dt => exact h.of_RecvSame (stepCore_RecvSame s (.advance dt) (fun _ => by simp) (fun _ => by simp)) (stepCore_Ext s _ (by simp)).rank
    | sendMessage pl b f sy => exact h.of_RecvSame (stepCore_RecvSame s (.sendMessage pl b f sy) (fun _ => by simp) (fun _ => by simp)) (stepCore_Ext s _ (by simp)).rank
    | sendPrepared pl b => exact h.of_RecvSame (stepCore_RecvSame s (.sendPrepared pl b) (fun _ => by simp) (fun _ => by simp)) (stepCore_Ext s _ (by simp)).rank
    | beginMessage b => exact h.of_RecvSame (stepCore_RecvSame s (.beginMessage b) (fun _ => by simp) (fun _ => by simp)) (stepCore_Ext s _ (by simp)).rank
    | beginFrame n => exact h.of_RecvSame (stepCore_RecvSame s (.beginFrame n) (fun _ => by simp) (fun _ => by simp)) (stepCore_Ext s _ (by simp)).rank
    | frameData pl sy => exact h.of_RecvSame (stepCore_RecvSame s (.frameData pl sy) (fun _ => by simp) (fun _ => by simp)) (stepCore_Ext s _ (by simp)).rank
    | endMessage => exact h.of_RecvSame (stepCore_RecvSame s .endMessage (fun _ => by simp) (fun _ => by simp)) (stepCore_Ext s _ (by simp)).rank
    | messageFrame pl sy => exact h.of_RecvSame (stepCore_RecvSame s (.messageFrame pl sy) (fun _ => by simp) (fun _ => by simp)) (stepCore_Ext s _ (by simp)).rank
    | ping pl => exact h.of_RecvSame (stepCore_RecvSame s (.ping pl) (fun _ => by simp) (fun _ => by simp)) (stepCore_Ext s _ (by simp)).rank
    | pong pl => exact h.of_RecvSame (stepCore_RecvSame s (.pong pl) (fun _ => by simp) (fun _ => by simp)) (stepCore_Ext s _ (by simp)).rank
    | close c r => exact h.of_RecvSame (stepCore_RecvSame s (.close c r) (fun _ => by simp) (fun _ => by simp)) (stepCore_Ext s _ (by simp)).rank
    | hsDone => exact h.of_RecvSame (stepCore_RecvSame s .hsDone (fun _ => by simp) (fun _ => by simp)) (stepCore_Ext s _ (by simp)).rank
  exact hcore.of_RecvSame (pump_RecvSame _) (pump_Ext _).rank

theorem connectionLost_cfg (s : S) : (connectionLost s).cfg = s.cfg := by
  unfold connectionLost
  split
  · rfl
  · unfold reportClose unsentUnclean markClosed cancelOnLost
    split <;> split <;> (try split) <;> (try split) <;> rfl

theorem step_cfg' (s : S) (op : Op) : (step s op).cfg = s.cfg := by
  unfold step
  rw [(pump_Ext _).cfg]
  by_cases h : op = .lost
  · subst h; exact connectionLost_cfg s
  · exact (stepCore_Ext s op h).cfg

theorem run_LiveWF (ops : List Op) : ∀ (s : S), s.cfg.failByDrop = true → LiveWF s →
    LiveWF (run s ops) ∧ (run s ops).cfg = s.cfg := by
  induction ops with
  | nil => intro s _ h; exact ⟨h, rfl⟩
  | cons op rest ih =>
    intro s hf h
    have hc : (step s op).cfg = s.cfg := step_cfg' s op
    have := ih (step s op) (by rw [hc]; exact hf) (step_LiveWF s op hf h)
    exact ⟨this.1, this.2.trans hc⟩

theorem start_LiveWF (cfg : Cfg) : LiveWF (start cfg) := by
  intro _ h hh
  unfold start at hh
  simp only [] at hh
  split at hh <;> simp [armPingNext, S.timer] at hh

/-- **segmentation independence in every reachable state**: after ANY history of operations on a fresh connection
(failing by drop), how the next octets are cut into reads does not matter -/
theorem segmentation_independent_reachable (cfg : Cfg) (hf : cfg.failByDrop = true) (ops : List Op)
    (xs ys : List Bytes) (hx : ∀ c ∈ xs, c ≠ []) (hy : ∀ c ∈ ys, c ≠ []) (he : xs.flatten = ys.flatten) :
    Sim (feed (run (start cfg) ops) xs) (feed (run (start cfg) ops) ys) := by
  have hs : (start cfg).cfg = cfg := by unfold start; simp only []; split <;> rfl
  have h := run_LiveWF ops (start cfg) (by rw [hs]; exact hf) (start_LiveWF cfg)
  exact segmentation_independent _ h.1 (by rw [h.2, hs]; exact hf) xs ys hx hy he

end Abverif.Ws
