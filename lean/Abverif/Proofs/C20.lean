import Abverif.Model.Cryptobox
/-!
C20 — End-to-end encrypted payloads are recovered exactly or rejected.

Level: proof RELATIVE to the AEAD hypotheses `BoxLaws` (correctness, ciphertext integrity, wrong key fails) and to
`InnerCodec.Laws` (the inner JSON envelope reads back what was written, on the values it can serialise). They are
hypotheses of the theorems; NaCl and the serializers are trusted, not verified. The tie to the code is harness/c20.py.

`WireHasNoClearPayload` (the full statement) is a theorem with no hypothesis since the U1 repairs: the success path of an
encrypted invocation sends a sealed YIELD or an ERROR with a fixed text (never the result), the error path sends a
sealed ERROR, or — when no key covers the ERROR URI — the ERROR URI with a fixed text instead of the exception's
arguments; when building the ERROR fails an ERROR with a fixed text is sent all the same (`error_reply_always_sent`).
-/
namespace Abverif.Cryptobox

variable {K N P C X Y : Type}

/-! ### decode ∘ encode -/

theorem decode_sealed_some (b : Box K N P C) (codec : InnerCodec X Y P) (ring : KeyRing K) (o : Bool) (u : Uri) (c : C)
    (k : K) (p : P) (i : Inner X Y) (hk : getBox ring o u = some k) (hu : b.unlock k c = some p)
    (hd : codec.deser p = some i) :
    decode b codec ring o u (sealedMsg c) = .ok i.uri i.args i.kwargs := by
  simp [decode, sealedMsg, hk, hu, hd]

theorem decode_sealed_none (b : Box K N P C) (codec : InnerCodec X Y P) (ring : KeyRing K) (o : Bool) (u : Uri) (c : C)
    (k : K) (hk : getBox ring o u = some k) (hu : b.unlock k c = none) :
    decode b codec ring o u (sealedMsg c) = .raised := by
  simp [decode, sealedMsg, hk, hu]

/-- `decode dir' uri (encode dir uri a k) = (uri, a, k)` for matching key roles: the sender's box for its role and the
receiver's box for the opposite role hold the same shared key. -/
theorem decode_encode (b : Box K N P C) (hb : BoxLaws b) (codec : InnerCodec X Y P) (hc : codec.Laws)
    (ringS ringR : KeyRing K) (o : Bool) (u : Uri) (a : Option X) (kw : Option Y) (n : N) (k : K) (p : P)
    (hS : getBox ringS o u = some k) (hR : getBox ringR (!o) u = some k)
    (hser : codec.ser { uri := some u, args := a, kwargs := kw } = some p) :
    encode b codec ringS o u a kw n = .sealed (b.lock k n p) ∧
    decode b codec ringR (!o) u (sealedMsg (b.lock k n p)) = .ok (some u) a kw := by
  refine ⟨by simp [encode, hS, hser], ?_⟩
  exact decode_sealed_some b codec ringR (!o) u _ k p _ hR (hb.unlock_lock k n p) (hc _ _ hser)

/-- non-vacuity: the toy box satisfies the laws -/
theorem toy_laws (K N P : Type) [DecidableEq K] : BoxLaws (Toy.box K N P) where
  unlock_lock := by intro k n p; simp [Toy.box]
  integrity := by
    intro k c p h
    cases c with
    | sealed k' n p' =>
      simp only [Toy.box] at h
      split at h
      · rename_i hk; cases h; exact ⟨n, by subst hk; rfl⟩
      · cases h
    | garbage t => simp [Toy.box] at h
  wrong_key := by intro k k' n p h; simp [Toy.box, Ne.symm h]

theorem toy_codec_laws (X Y : Type) (bad : Option X → Option Y → Bool) : (Toy.codec X Y bad).Laws := by
  intro i p h
  simp only [Toy.codec] at h ⊢
  split at h
  · cases h
  · cases h; rfl

/-- receive of a sealed message whose key the receiver shares and whose inner URI is the envelope URI -/
theorem receive_sealed_ok (b : Box K N P C) (hb : BoxLaws b) (codec : InnerCodec X Y P) (hc : codec.Laws)
    (ring : KeyRing K) (o : Bool) (u : Uri) (a : Option X) (kw : Option Y) (n : N) (k : K) (p : P)
    (hR : getBox ring o u = some k) (hser : codec.ser { uri := some u, args := a, kwargs := kw } = some p) :
    receive b codec (some ring) o u (sealedMsg (b.lock k n p)) = .decoded a kw := by
  have hd := decode_sealed_some b codec ring o u (b.lock k n p) k p _ hR (hb.unlock_lock k n p) (hc _ _ hser)
  simp only [receive, sealedMsg] at hd ⊢
  simp [hd]

/-- publish → EVENT: the handler receives exactly the published args/kwargs -/
theorem event_recovered (b : Box K N P C) (hb : BoxLaws b) (codec : InnerCodec X Y P) (hc : codec.Laws)
    (ringA ringB : KeyRing K) (topic : Uri) (a : Option X) (kw : Option Y) (n : N) (k : K) (p : P)
    (hA : getBox ringA true topic = some k) (hB : getBox ringB false topic = some k)
    (hser : codec.ser { uri := some topic, args := a, kwargs := kw } = some p) :
    ∃ m, originate b codec (some ringA) topic a kw n = .msg m ∧ m.args = none ∧ m.kwargs = none ∧
      onEvent b codec (some ringB) topic m = .invoked a kw true := by
  refine ⟨sealedMsg (b.lock k n p), by simp [originate, encode, hA, hser], rfl, rfl, ?_⟩
  simp [onEvent, receive_sealed_ok b hb codec hc ringB false topic a kw n k p hB hser]

/-- call → INVOCATION: the endpoint receives exactly the call's args/kwargs -/
theorem invocation_recovered (b : Box K N P C) (hb : BoxLaws b) (codec : InnerCodec X Y P) (hc : codec.Laws)
    (ringA ringB : KeyRing K) (proc : Uri) (a : Option X) (kw : Option Y) (n : N) (k : K) (p : P)
    (hA : getBox ringA true proc = some k) (hB : getBox ringB false proc = some k)
    (hser : codec.ser { uri := some proc, args := a, kwargs := kw } = some p) :
    ∃ m, originate b codec (some ringA) proc a kw n = .msg m ∧ m.args = none ∧ m.kwargs = none ∧
      onInvocation b codec (some ringB) proc m = .invoked a kw true := by
  refine ⟨sealedMsg (b.lock k n p), by simp [originate, encode, hA, hser], rfl, rfl, ?_⟩
  simp [onInvocation, receive_sealed_ok b hb codec hc ringB false proc a kw n k p hB hser]

/-- YIELD → RESULT: the caller receives exactly the endpoint's result -/
theorem result_recovered (b : Box K N P C) (hb : BoxLaws b) (codec : InnerCodec X Y P) (hc : codec.Laws) (t : Notes X)
    (ringA ringB : KeyRing K) (proc : Uri) (a : Option X) (kw : Option Y) (n : N) (k : K) (p : P)
    (hB : getBox ringB false proc = some k) (hA : getBox ringA true proc = some k)
    (hser : codec.ser { uri := some proc, args := a, kwargs := kw } = some p) :
    ∃ m, yieldReply b codec t (some ringB) true proc a kw n = .yield m ∧
      m.args = none ∧ m.kwargs = none ∧ onResult b codec (some ringA) proc m = .result a kw := by
  refine ⟨sealedMsg (b.lock k n p), by simp [yieldReply, encode, hB, hser], rfl, rfl, ?_⟩
  simp [onResult, receive_sealed_ok b hb codec hc ringA true proc a kw n k p hA hser]

/-- ERROR → caller: the error's args/kwargs arrive exactly (when a key covers the error URI on both sides), whether or
not the invocation was encrypted -/
theorem error_recovered (b : Box K N P C) (hb : BoxLaws b) (codec : InnerCodec X Y P) (hc : codec.Laws) (t : Notes X)
    (ringA ringB : KeyRing K) (enc : Bool) (eu : Uri) (a : Option X) (kw : Option Y) (n : N) (k : K) (p : P)
    (hB : getBox ringB false eu = some k) (hA : getBox ringA true eu = some k)
    (hser : codec.ser { uri := some eu, args := a, kwargs := kw } = some p) :
    ∃ m, invocationErrorReply b codec t (some ringB) enc eu a kw n = .error eu m ∧ m.args = none ∧ m.kwargs = none ∧
      onError b codec (some ringA) eu m = .appError eu a kw := by
  refine ⟨sealedMsg (b.lock k n p), by simp [invocationErrorReply, errorMsg, encode, hB, hser], rfl, rfl, ?_⟩
  simp [onError, receive_sealed_ok b hb codec hc ringA true eu a kw n k p hA hser]

/-- non-vacuity of the recovery theorems: concrete ring layouts with a matching default key -/
def ringDefault : KeyRing Nat := { keys := [], default := some { originatorBox := some 5, responderBox := some 5 } }

example : originate (Toy.box Nat Nat (Inner Nat Nat)) (Toy.codec Nat Nat (fun _ _ => false)) (some ringDefault)
    "com.a.b".toList (some 1) (some 2) 77 = .msg (sealedMsg (.sealed 5 77 ⟨some "com.a.b".toList, some 1, some 2⟩)) := by
  decide

example : onEvent (Toy.box Nat Nat (Inner Nat Nat)) (Toy.codec Nat Nat (fun _ _ => false)) (some ringDefault)
    "com.a.b".toList (sealedMsg (.sealed 5 77 ⟨some "com.a.b".toList, some 1, some 2⟩)) = .invoked (some 1) (some 2) true := by
  decide

/-! ### wire_has_no_clear_payload -/

/-- what a sealed message looks like: `args`/`kwargs` absent, payload = the ciphertext of the inner envelope -/
theorem sealed_shape (b : Box K N P C) (codec : InnerCodec X Y P) (s : Codec K) (u : Uri) (a : Option X) (kw : Option Y)
    (n : N) (m : AppPayload X Y C) (h : originate b codec s u a kw n = .msg m) (hp : m.payload ≠ none) :
    m.args = none ∧ m.kwargs = none ∧ m.encAlgo = some .cryptobox ∧
    ∃ ring k p, s = some ring ∧ getBox ring true u = some k ∧
      codec.ser { uri := some u, args := a, kwargs := kw } = some p ∧ m.payload = some (b.lock k n p) := by
  unfold originate at h
  cases s with
  | none => simp only [Sent.msg.injEq] at h; subst h; simp [clearMsg] at hp
  | some ring =>
    simp only [encode] at h
    cases hk : getBox ring true u with
    | none => rw [hk] at h; simp only [Sent.msg.injEq] at h; subst h; simp [clearMsg] at hp
    | some k =>
      rw [hk] at h
      cases hs : codec.ser { uri := some u, args := a, kwargs := kw } with
      | none => rw [hs] at h; cases h
      | some p =>
        rw [hs] at h; simp only [Sent.msg.injEq] at h; subst h
        exact ⟨rfl, rfl, rfl, ring, k, p, rfl, hk, rfl, rfl⟩

/-- the full statement:
 (1) publish/call to a URI for which the ring holds an originator box never put args/kwargs on the wire;
 (2) the reply of the success path to an encrypted INVOCATION is a sealed YIELD without args/kwargs, or an ERROR whose
     only content is the fixed text — for every payload codec state (key ring present or not, key found or not) and
     every result, serialisable by the inner envelope or not;
 (3) the reply of the error path to an encrypted INVOCATION is a sealed ERROR without args/kwargs, or an ERROR whose
     only content is one of the two fixed texts — likewise for every codec state, ERROR URI and exception payload. -/
def WireHasNoClearPayload (b : Box K N P C) (codec : InnerCodec X Y P) : Prop :=
  (∀ (ring : KeyRing K) u a kw n m, getBox ring true u ≠ none →
      originate b codec (some ring) u a kw n = .msg m → m.args = none ∧ m.kwargs = none) ∧
  (∀ (t : Notes X) (s : Codec K) proc a kw n,
      (∃ c, yieldReply b codec t s true proc a kw n = .yield (sealedMsg c)) ∨
      yieldReply b codec t s true proc a kw n = .error invalidPayloadUri (clearMsg (some t.resultNotEncrypted) none)) ∧
  (∀ (t : Notes X) (s : Codec K) eu a kw n,
      (∃ c, invocationErrorReply b codec t s true eu a kw n = .error eu (sealedMsg c)) ∨
      invocationErrorReply b codec t s true eu a kw n = .error eu (clearMsg (some t.errorArgsNotSent) none) ∨
      invocationErrorReply b codec t s true eu a kw n = .error invalidPayloadUri (clearMsg (some t.errorNotEncodable) none))

/-- part (1) holds for all inputs: with a box for the URI, publish/call send a sealed message or raise -/
theorem wire_has_no_clear_payload_originator (b : Box K N P C) (codec : InnerCodec X Y P) (ring : KeyRing K) (u : Uri)
    (a : Option X) (kw : Option Y) (n : N) (m : AppPayload X Y C)
    (hk : getBox ring true u ≠ none) (h : originate b codec (some ring) u a kw n = .msg m) :
    m.args = none ∧ m.kwargs = none ∧ m.payload ≠ none := by
  simp only [originate, encode] at h
  cases hg : getBox ring true u with
  | none => exact absurd hg hk
  | some k =>
    rw [hg] at h
    cases hs : codec.ser { uri := some u, args := a, kwargs := kw } with
    | none => rw [hs] at h; cases h
    | some p => rw [hs] at h; simp only [Sent.msg.injEq] at h; subst h; simp [sealedMsg]

/-- part (2): the result of an encrypted invocation leaves sealed or not at all — no hypothesis -/
theorem yield_reply_sealed_or_refused (b : Box K N P C) (codec : InnerCodec X Y P) (t : Notes X) (s : Codec K) (proc : Uri)
    (a : Option X) (kw : Option Y) (n : N) :
    (∃ c, yieldReply b codec t s true proc a kw n = .yield (sealedMsg c)) ∨
    yieldReply b codec t s true proc a kw n = .error invalidPayloadUri (clearMsg (some t.resultNotEncrypted) none) := by
  unfold yieldReply
  cases s with
  | none => right; rfl
  | some ring =>
    cases he : encode b codec ring false proc a kw n with
    | sealed c => left; exact ⟨c, by simp [he]⟩
    | clear => right; simp [he]
    | raised => right; simp [he]

/-- part (3): the ERROR answering an encrypted invocation is sealed, or carries a fixed text — no hypothesis -/
theorem error_reply_sealed_or_withheld (b : Box K N P C) (codec : InnerCodec X Y P) (t : Notes X) (s : Codec K) (eu : Uri)
    (a : Option X) (kw : Option Y) (n : N) :
    (∃ c, invocationErrorReply b codec t s true eu a kw n = .error eu (sealedMsg c)) ∨
    invocationErrorReply b codec t s true eu a kw n = .error eu (clearMsg (some t.errorArgsNotSent) none) ∨
    invocationErrorReply b codec t s true eu a kw n = .error invalidPayloadUri (clearMsg (some t.errorNotEncodable) none) := by
  unfold invocationErrorReply errorMsg
  cases s with
  | none => right; left; rfl
  | some ring =>
    cases he : encode b codec ring false eu a kw n with
    | sealed c => left; exact ⟨c, by simp [he]⟩
    | clear => right; left; simp [he]
    | raised => right; right; simp [he]

/-- **No clear payload on the wire**, the full statement, for every box, inner codec, key ring and payload -/
theorem wire_has_no_clear_payload (b : Box K N P C) (codec : InnerCodec X Y P) : WireHasNoClearPayload b codec :=
  ⟨fun ring u a kw n m hk h => by
      have := wire_has_no_clear_payload_originator b codec ring u a kw n m hk h
      exact ⟨this.1, this.2.1⟩,
   fun t s proc a kw n => yield_reply_sealed_or_refused b codec t s proc a kw n,
   fun t s eu a kw n => error_reply_sealed_or_withheld b codec t s eu a kw n⟩

/-- in the vocabulary of the message fields: what an encrypted invocation is answered with has no `kwargs`, and its
`args` are absent (then a ciphertext is present) or one of the three fixed texts — which are parameters of the reply
functions, not functions of the result / exception payload -/
theorem reply_fields_carry_no_payload (b : Box K N P C) (codec : InnerCodec X Y P) (t : Notes X) (s : Codec K) (u : Uri)
    (a : Option X) (kw : Option Y) (n : N) (r : Reply X Y C)
    (hr : r = yieldReply b codec t s true u a kw n ∨ r = invocationErrorReply b codec t s true u a kw n) :
    r.msg.kwargs = none ∧
    ((r.msg.args = none ∧ r.msg.payload ≠ none) ∨
     (r.msg.payload = none ∧ (r.msg.args = some t.resultNotEncrypted ∨ r.msg.args = some t.errorArgsNotSent ∨
        r.msg.args = some t.errorNotEncodable))) := by
  rcases hr with hr | hr
  · rcases yield_reply_sealed_or_refused b codec t s u a kw n with ⟨c, h⟩ | h <;> rw [hr, h] <;>
      simp [Reply.msg, sealedMsg, clearMsg]
  · rcases error_reply_sealed_or_withheld b codec t s u a kw n with ⟨c, h⟩ | h | h <;> rw [hr, h] <;>
      simp [Reply.msg, sealedMsg, clearMsg]

/-- the error path always produces an ERROR (the last-resort reply when `_message_from_exception` raises), and the
success path always produces a YIELD or an ERROR: every invocation is answered -/
theorem error_reply_always_sent (b : Box K N P C) (codec : InnerCodec X Y P) (t : Notes X) (s : Codec K) (enc : Bool)
    (eu : Uri) (a : Option X) (kw : Option Y) (n : N) :
    ∃ u m, invocationErrorReply b codec t s enc eu a kw n = .error u m ∧
      (u = eu ∨ (u = invalidPayloadUri ∧ errorMsg b codec t s enc eu a kw n = .raised)) := by
  unfold invocationErrorReply
  cases h : errorMsg b codec t s enc eu a kw n with
  | msg m => exact ⟨eu, m, rfl, Or.inl rfl⟩
  | raised => exact ⟨invalidPayloadUri, _, rfl, Or.inr ⟨rfl, rfl⟩⟩

/-- the repairs change nothing for an invocation that was not encrypted: plain YIELD; ERROR keyed by the error URI,
clear with the exception's arguments when no key covers it -/
theorem unencrypted_invocation_unchanged (b : Box K N P C) (codec : InnerCodec X Y P) (t : Notes X) (s : Codec K) (u : Uri)
    (a : Option X) (kw : Option Y) (n : N) :
    yieldReply b codec t s false u a kw n = .yield (clearMsg a kw) ∧
    (s = none → invocationErrorReply b codec t s false u a kw n = .error u (clearMsg a kw)) ∧
    (∀ ring, s = some ring → getBox ring false u = none →
        invocationErrorReply b codec t s false u a kw n = .error u (clearMsg a kw)) := by
  refine ⟨by simp [yieldReply], fun h => by subst h; rfl, fun ring h hk => ?_⟩
  subst h
  simp [invocationErrorReply, errorMsg, encode, hk]

/-- when a key covers the URI used for the lookup and the inner envelope can hold the payload, both replies are the
sealed ones -/
theorem reply_sealed_when_encodable (b : Box K N P C) (codec : InnerCodec X Y P) (t : Notes X) (ring : KeyRing K)
    (enc : Bool) (u : Uri) (a : Option X) (kw : Option Y) (n : N) (k : K) (p : P)
    (hk : getBox ring false u = some k)
    (hser : codec.ser { uri := some u, args := a, kwargs := kw } = some p) :
    yieldReply b codec t (some ring) true u a kw n = .yield (sealedMsg (b.lock k n p)) ∧
    invocationErrorReply b codec t (some ring) enc u a kw n = .error u (sealedMsg (b.lock k n p)) := by
  simp [yieldReply, invocationErrorReply, errorMsg, encode, hk, hser]

/-- an ERROR that stands in for a result / for an exception's arguments reaches the caller as a failed call carrying
the fixed text (as the generic application error or as the class mapped to the URI — `wamp.error.invalid_payload` is
mapped to `SerializationError` by default): the call never resolves, and never with something other than that text -/
theorem refusal_fails_the_call (b : Box K N P C) (codec : InnerCodec X Y P) (sA : Codec K) (mapped : Uri → Option String)
    (ctorOk : String → Option X → Option Y → Bool) (u : Uri) (x : X) :
    onErrorMapped b codec sA mapped ctorOk u (clearMsg (some x) none) = .appError u (some x) none ∨
    ∃ c, onErrorMapped b codec sA mapped ctorOk u (clearMsg (some x) none) = .userError c (some x) none := by
  simp only [onErrorMapped, receive, clearMsg]
  cases mapped u with
  | none => left; rfl
  | some c =>
    simp only
    split
    · right; exact ⟨c, rfl⟩
    · left; rfl

/-- per-prefix key ring of the U1 replay: one key for `com.secret`, no default -/
def ringPrefix : KeyRing Nat :=
  { keys := [("com.secret".toList, { originatorBox := some 5, responderBox := some 5 })], default := none }

def toyNotes : Notes Nat := { resultNotEncrypted := 100, errorArgsNotSent := 101, errorNotEncodable := 102 }

/-- the input of the former negation witness (U1, first half): the endpoint's result (13) cannot be serialised by the
inner codec → now an ERROR with the fixed text, the 13 is nowhere in it -/
example : yieldReply (Toy.box Nat Nat (Inner Nat Nat)) (Toy.codec Nat Nat (fun a _ => a == some 13)) toyNotes
    (some ringPrefix) true "com.secret.proc".toList (some 13) none 0 =
    .error invalidPayloadUri (clearMsg (some 100) none) := by decide

/-- the input of the former negation witness (U1, second half): the ERROR URI `wamp.error.runtime_error` is not under
`com.secret` → now the ERROR URI with the fixed text, the 42 is nowhere in it; for an invocation that was not encrypted
the same exception still travels with its arguments -/
example : invocationErrorReply (Toy.box Nat Nat (Inner Nat Nat)) (Toy.codec Nat Nat (fun _ _ => false)) toyNotes
    (some ringPrefix) true "wamp.error.runtime_error".toList (some 42) none 0 =
    .error "wamp.error.runtime_error".toList (clearMsg (some 101) none) := by decide

example : invocationErrorReply (Toy.box Nat Nat (Inner Nat Nat)) (Toy.codec Nat Nat (fun _ _ => false)) toyNotes
    (some ringPrefix) false "wamp.error.runtime_error".toList (some 42) none 0 =
    .error "wamp.error.runtime_error".toList (clearMsg (some 42) none) := by decide

/-- the input of the finding `error-path:encode-raises:no-reply`: a covered ERROR URI, arguments the inner codec cannot
serialise → the last-resort ERROR -/
example : invocationErrorReply (Toy.box Nat Nat (Inner Nat Nat)) (Toy.codec Nat Nat (fun a _ => a == some 13)) toyNotes
    (some ringPrefix) true "com.secret.error.bad".toList (some 13) none 0 =
    .error invalidPayloadUri (clearMsg (some 102) none) := by decide

/-- non-vacuity of `reply_sealed_when_encodable`: the same ring, an ERROR URI under the prefix -/
example : getBox ringPrefix false "com.secret.error.bad".toList = some 5 := by decide

/-! ### rejection -/

/-- A payload that is not a ciphertext sealed under the receiver's key for this lookup (any alteration of nonce, tag or
body — by ciphertext integrity) is rejected with `ENC_DECRYPT_ERROR`; so is any payload when the receiver has no key. -/
theorem tamper_rejected (b : Box K N P C) (hb : BoxLaws b) (codec : InnerCodec X Y P) (ring : KeyRing K) (o : Bool)
    (env : Uri) (m : AppPayload X Y C) (halgo : m.encAlgo ≠ none)
    (hforged : ∀ k c, getBox ring o env = some k → m.payload = some c → ∀ n p, c ≠ b.lock k n p) :
    receive b codec (some ring) o env m = .rejected .decryptError := by
  unfold receive
  cases ha : m.encAlgo with
  | none => exact absurd ha halgo
  | some al =>
    simp only
    have hd : decode b codec ring o env m = .raised := by
      unfold decode
      split
      · rfl
      · cases hk : getBox ring o env with
        | none => rfl
        | some k =>
          simp only
          cases hp : m.payload with
          | none => rfl
          | some c =>
            simp only
            cases hu : b.unlock k c with
            | none => rfl
            | some p =>
              obtain ⟨n, hn⟩ := hb.integrity k c p hu
              exact absurd hn (hforged k c hk hp n p)
    rw [hd]

/-- consequences at the four receiving branches -/
theorem tamper_rejected_branches (b : Box K N P C) (hb : BoxLaws b) (codec : InnerCodec X Y P) (ring : KeyRing K)
    (env : Uri) (m : AppPayload X Y C) (halgo : m.encAlgo ≠ none) :
    ((∀ k c, getBox ring false env = some k → m.payload = some c → ∀ n p, c ≠ b.lock k n p) →
        onEvent b codec (some ring) env m = .ignored .decryptError ∧
        onInvocation b codec (some ring) env m = .encError .decryptError) ∧
    ((∀ k c, getBox ring true env = some k → m.payload = some c → ∀ n p, c ≠ b.lock k n p) →
        onResult b codec (some ring) env m = .encFailed .decryptError ∧
        onError b codec (some ring) env m = .encFailed .decryptError) := by
  refine ⟨fun h => ?_, fun h => ?_⟩
  · have := tamper_rejected b hb codec ring false env m halgo h
    simp [onEvent, onInvocation, this]
  · have := tamper_rejected b hb codec ring true env m halgo h
    simp [onResult, onError, this]

/-- non-vacuity: a garbage ciphertext is not sealed under any key -/
example : ∀ (k : Nat) (n : Nat) (p : Inner Nat Nat), (Toy.Ct.garbage 3 : Toy.Ct Nat Nat (Inner Nat Nat)) ≠
    (Toy.box Nat Nat (Inner Nat Nat)).lock k n p := by
  intro k n p h; cases h

/-- a genuine ciphertext whose inner URI differs from the envelope URI is rejected with `ENC_TRUSTED_URI_MISMATCH` -/
theorem uri_mismatch_rejected (b : Box K N P C) (hb : BoxLaws b) (codec : InnerCodec X Y P) (hc : codec.Laws)
    (ring : KeyRing K) (o : Bool) (env : Uri) (k : K) (n : N) (i : Inner X Y) (p : P)
    (hk : getBox ring o env = some k) (hser : codec.ser i = some p) (hne : i.uri ≠ some env) :
    receive b codec (some ring) o env (sealedMsg (b.lock k n p)) = .rejected .trustedUriMismatch := by
  have hd := decode_sealed_some b codec ring o env (b.lock k n p) k p i hk (hb.unlock_lock k n p) (hc _ _ hser)
  simp only [receive, sealedMsg] at hd ⊢
  simp [hd, hne]

/-- in particular: a payload encoded for URI `u'` delivered under envelope `u ≠ u'` (swapped envelopes, same key) -/
theorem swapped_envelope_rejected (b : Box K N P C) (hb : BoxLaws b) (codec : InnerCodec X Y P) (hc : codec.Laws)
    (ringS ringR : KeyRing K) (o : Bool) (u u' : Uri) (a : Option X) (kw : Option Y) (n : N) (k : K) (c : C)
    (hS : getBox ringS o u' = some k) (hR : getBox ringR (!o) u = some k) (hne : u' ≠ u)
    (henc : encode b codec ringS o u' a kw n = .sealed c) :
    receive b codec (some ringR) (!o) u (sealedMsg c) = .rejected .trustedUriMismatch := by
  simp only [encode, hS] at henc
  cases hs : codec.ser { uri := some u', args := a, kwargs := kw } with
  | none => rw [hs] at henc; cases henc
  | some p =>
    rw [hs] at henc; simp only [Enc.sealed.injEq] at henc; subst henc
    exact uri_mismatch_rejected b hb codec hc ringR (!o) u k n _ p hR hs (by simp [hne])

/-- a ciphertext sealed under another key is rejected with `ENC_DECRYPT_ERROR` -/
theorem wrong_key_rejected (b : Box K N P C) (hb : BoxLaws b) (codec : InnerCodec X Y P) (ring : KeyRing K) (o : Bool)
    (env : Uri) (k k' : K) (n : N) (p : P) (hk : getBox ring o env = some k') (hne : k' ≠ k) :
    receive b codec (some ring) o env (sealedMsg (b.lock k n p)) = .rejected .decryptError := by
  have hd := decode_sealed_none b codec ring o env (b.lock k n p) k' hk (hb.wrong_key k k' n p hne)
  simp only [receive, sealedMsg] at hd ⊢
  simp [hd]

/-- no key for the lookup (e.g. an originator-only key used by a responder): rejected; no codec at all:
`ENC_NO_PAYLOAD_CODEC` -/
theorem no_key_rejected (b : Box K N P C) (codec : InnerCodec X Y P) (ring : KeyRing K) (o : Bool) (env : Uri)
    (m : AppPayload X Y C) (halgo : m.encAlgo ≠ none) (hk : getBox ring o env = none) :
    receive b codec (some ring) o env m = .rejected .decryptError ∧
    receive b codec none o env m = .rejected .noPayloadCodec := by
  cases ha : m.encAlgo with
  | none => exact absurd ha halgo
  | some al =>
    refine ⟨?_, by simp [receive, ha]⟩
    have hd : decode b codec ring o env m = .raised := by
      unfold decode; split
      · rfl
      · simp [hk]
    simp [receive, ha, hd]

/-- non-vacuity of the three rejection theorems on the toy box: inner URI ≠ envelope; key 6 ≠ 5; no key; no codec -/
example : receive (Toy.box Nat Nat (Inner Nat Nat)) (Toy.codec Nat Nat (fun _ _ => false)) (some ringDefault) false
    "com.x".toList (sealedMsg (.sealed 5 1 ⟨some "com.y".toList, some 1, none⟩)) = .rejected .trustedUriMismatch := by decide

example : receive (Toy.box Nat Nat (Inner Nat Nat)) (Toy.codec Nat Nat (fun _ _ => false)) (some ringDefault) false
    "com.x".toList (sealedMsg (.sealed 6 1 ⟨some "com.x".toList, some 1, none⟩)) = .rejected .decryptError := by decide

example : receive (Toy.box Nat Nat (Inner Nat Nat)) (Toy.codec Nat Nat (fun _ _ => false)) (some ringPrefix) false
    "com.public.x".toList (sealedMsg (.sealed 5 1 ⟨some "com.public.x".toList, some 1, none⟩)) = .rejected .decryptError := by decide

example : receive (Toy.box Nat Nat (Inner Nat Nat)) (Toy.codec Nat Nat (fun _ _ => false)) none false
    "com.x".toList (sealedMsg (.sealed 5 1 ⟨some "com.x".toList, some 1, none⟩)) = .rejected .noPayloadCodec := by decide

/-- Safety, all inputs: whenever a handler / endpoint / pending call is given a *decoded* payload, that payload is the
content of a ciphertext sealed under the receiver's key for this envelope URI, and its inner URI is the envelope's.
(An altered payload is never delivered.) -/
theorem invoked_only_authentic (b : Box K N P C) (hb : BoxLaws b) (codec : InnerCodec X Y P) (s : Codec K) (o : Bool)
    (env : Uri) (m : AppPayload X Y C) (a : Option X) (kw : Option Y)
    (h : receive b codec s o env m = .decoded a kw) :
    ∃ ring k c n p, s = some ring ∧ getBox ring o env = some k ∧ m.payload = some c ∧ c = b.lock k n p ∧
      codec.deser p = some { uri := some env, args := a, kwargs := kw } := by
  cases ha : m.encAlgo with
  | none => simp [receive, ha] at h
  | some al =>
    cases s with
    | none => simp [receive, ha] at h
    | some ring =>
      by_cases hal : al = .cryptobox
      · subst hal
        cases hk : getBox ring o env with
        | none => simp [receive, decode, ha, hk] at h
        | some k =>
          cases hp : m.payload with
          | none => simp [receive, decode, ha, hk, hp] at h
          | some c =>
            cases hu : b.unlock k c with
            | none => simp [receive, decode, ha, hk, hp, hu] at h
            | some p =>
              by_cases hs : m.encSerializer = some Ser.json
              · cases hd : codec.deser p with
                | none => simp [receive, decode, ha, hk, hp, hu, hs, hd] at h
                | some i =>
                  obtain ⟨iu, ia, ik⟩ := i
                  obtain ⟨n, hn⟩ := hb.integrity k c p hu
                  by_cases hi : iu = some env
                  · simp [receive, decode, ha, hk, hp, hu, hs, hd, hi] at h
                    exact ⟨ring, k, c, n, p, rfl, hk, rfl, hn, by rw [hd, hi, h.1, h.2]⟩
                  · simp [receive, decode, ha, hk, hp, hu, hs, hd, hi] at h
              · simp [receive, decode, ha, hk, hp, hu, hs] at h
      · simp [receive, decode, ha, hal] at h

/-! ### the ERROR branch with a caller-side URI → class registry (mapped error URIs) -/

theorem onError_eq_unmapped (b : Box K N P C) (codec : InnerCodec X Y P) (s : Codec K)
    (ctorOk : String → Option X → Option Y → Bool) (eu : Uri) (m : AppPayload X Y C) :
    onErrorMapped b codec s (fun _ => none) ctorOk eu m = onError b codec s eu m := by
  unfold onErrorMapped onError; cases receive b codec s true eu m <;> rfl

/-- whatever the caller registered for the envelope error URI and whatever its constructor accepts: a rejected
payload surfaces as the explicit encryption error, never as the mapped class -/
theorem rejected_is_enc_error_mapped (b : Box K N P C) (codec : InnerCodec X Y P) (s : Codec K)
    (mapped : Uri → Option String) (ctorOk : String → Option X → Option Y → Bool) (eu : Uri) (m : AppPayload X Y C)
    (e : EncErr) (h : receive b codec s true eu m = .rejected e) :
    onErrorMapped b codec s mapped ctorOk eu m = .encFailed e := by
  simp [onErrorMapped, h]

theorem tamper_rejected_mapped (b : Box K N P C) (hb : BoxLaws b) (codec : InnerCodec X Y P) (ring : KeyRing K)
    (mapped : Uri → Option String) (ctorOk : String → Option X → Option Y → Bool)
    (env : Uri) (m : AppPayload X Y C) (halgo : m.encAlgo ≠ none)
    (hforged : ∀ k c, getBox ring true env = some k → m.payload = some c → ∀ n p, c ≠ b.lock k n p) :
    onErrorMapped b codec (some ring) mapped ctorOk env m = .encFailed .decryptError :=
  rejected_is_enc_error_mapped b codec _ mapped ctorOk env m _ (tamper_rejected b hb codec ring true env m halgo hforged)

theorem uri_mismatch_rejected_mapped (b : Box K N P C) (hb : BoxLaws b) (codec : InnerCodec X Y P) (hc : codec.Laws)
    (ring : KeyRing K) (mapped : Uri → Option String) (ctorOk : String → Option X → Option Y → Bool)
    (env : Uri) (k : K) (n : N) (i : Inner X Y) (p : P)
    (hk : getBox ring true env = some k) (hser : codec.ser i = some p) (hne : i.uri ≠ some env) :
    onErrorMapped b codec (some ring) mapped ctorOk env (sealedMsg (b.lock k n p)) = .encFailed .trustedUriMismatch :=
  rejected_is_enc_error_mapped b codec _ mapped ctorOk env _ _ (uri_mismatch_rejected b hb codec hc ring true env k n i p hk hser hne)

theorem wrong_key_rejected_mapped (b : Box K N P C) (hb : BoxLaws b) (codec : InnerCodec X Y P) (ring : KeyRing K)
    (mapped : Uri → Option String) (ctorOk : String → Option X → Option Y → Bool)
    (env : Uri) (k k' : K) (n : N) (p : P) (hk : getBox ring true env = some k') (hne : k' ≠ k) :
    onErrorMapped b codec (some ring) mapped ctorOk env (sealedMsg (b.lock k n p)) = .encFailed .decryptError :=
  rejected_is_enc_error_mapped b codec _ mapped ctorOk env _ _ (wrong_key_rejected b hb codec ring true env k k' n p hk hne)

/-- conversely the mapped class is only ever built from an authentic payload sealed for this very error URI (or from a
clear ERROR) -/
theorem mapped_class_only_authentic (b : Box K N P C) (hb : BoxLaws b) (codec : InnerCodec X Y P) (s : Codec K)
    (mapped : Uri → Option String) (ctorOk : String → Option X → Option Y → Bool) (eu : Uri) (m : AppPayload X Y C)
    (c : String) (a : Option X) (kw : Option Y)
    (h : onErrorMapped b codec s mapped ctorOk eu m = .userError c a kw) (henc : m.encAlgo ≠ none) :
    mapped eu = some c ∧ ∃ ring k ct n p, s = some ring ∧ getBox ring true eu = some k ∧ m.payload = some ct ∧
      ct = b.lock k n p ∧ codec.deser p = some { uri := some eu, args := a, kwargs := kw } := by
  unfold onErrorMapped at h
  cases hr : receive b codec s true eu m with
  | rejected e => rw [hr] at h; cases h
  | plain a' kw' =>
    exfalso
    unfold receive at hr
    cases ha : m.encAlgo with
    | none => exact henc ha
    | some al =>
      rw [ha] at hr; simp only at hr
      cases s with
      | none => cases hr
      | some ring =>
        simp only at hr
        cases hd : decode b codec ring true eu m with
        | raised => rw [hd] at hr; cases hr
        | ok u a2 k2 => rw [hd] at hr; simp only at hr; split at hr <;> cases hr
  | decoded a' kw' =>
    rw [hr] at h; simp only at h
    cases hm : mapped eu with
    | none => rw [hm] at h; cases h
    | some c' =>
      rw [hm] at h; simp only at h
      split at h
      · simp only [CallOut.userError.injEq] at h
        obtain ⟨h1, h2, h3⟩ := h
        subst h1 h2 h3
        exact ⟨rfl, invoked_only_authentic b hb codec s true eu m a' kw' hr⟩
      · cases h

/-- non-vacuity: mapped URI, garbage payload → explicit encryption error; genuine payload → the mapped class -/
example : onErrorMapped (Toy.box Nat Nat (Inner Nat Nat)) (Toy.codec Nat Nat (fun _ _ => false)) (some ringDefault)
    (fun _ => some "MyError") (fun _ _ _ => true) "com.err".toList (sealedMsg (.garbage 1)) = .encFailed .decryptError := by
  decide

example : onErrorMapped (Toy.box Nat Nat (Inner Nat Nat)) (Toy.codec Nat Nat (fun _ _ => false)) (some ringDefault)
    (fun _ => some "MyError") (fun _ _ _ => true) "com.err".toList
    (sealedMsg (.sealed 5 1 ⟨some "com.err".toList, some 1, none⟩)) = .userError "MyError" (some 1) none := by
  decide

/-- What the laws do NOT give (noted, not part of the property): a ciphertext is accepted from whoever holds the
shared key, in either direction — the CALL's own ciphertext reflected as RESULT payload is accepted by the caller,
because `Box(a_priv, b_pub)` and `Box(b_priv, a_pub)` are the same key and the inner envelope has no direction. -/
example : onResult (Toy.box Nat Nat (Inner Nat Nat)) (Toy.codec Nat Nat (fun _ _ => false)) (some ringDefault)
    "com.a.b".toList (sealedMsg (.sealed 5 77 ⟨some "com.a.b".toList, some 1, some 2⟩)) = .result (some 1) (some 2) := by
  decide

/-! ### longest_prefix_key -/

theorem longestPrefix_spec {A : Type} (keys : List (Uri × A)) (u : Uri) :
    match longestPrefix keys u with
    | some (p, a) => (p, a) ∈ keys ∧ p <+: u ∧ ∀ q aq, (q, aq) ∈ keys → q <+: u → q.length ≤ p.length
    | none => ∀ q aq, (q, aq) ∈ keys → ¬ q <+: u := by
  induction keys with
  | nil => simp [longestPrefix]
  | cons hd r ih =>
    obtain ⟨p, a⟩ := hd
    simp only [longestPrefix]
    cases hr : longestPrefix r u with
    | none =>
      rw [hr] at ih; simp only at ih ⊢
      by_cases hp : p.isPrefixOf u = true
      · rw [if_pos hp]
        have hp' : p <+: u := List.isPrefixOf_iff_prefix.mp hp
        refine ⟨by simp, hp', fun q aq hq hqu => ?_⟩
        rcases List.mem_cons.mp hq with h | h
        · cases h; exact Nat.le_refl _
        · exact absurd hqu (ih q aq h)
      · rw [if_neg hp]
        intro q aq hq hqu
        rcases List.mem_cons.mp hq with h | h
        · cases h; exact hp (List.isPrefixOf_iff_prefix.mpr hqu)
        · exact ih q aq h hqu
    | some best =>
      obtain ⟨bp, ba⟩ := best
      rw [hr] at ih; simp only at ih ⊢
      obtain ⟨hmem, hpre, hmax⟩ := ih
      by_cases hc : p.isPrefixOf u = true ∧ bp.length < p.length
      · rw [if_pos hc]
        refine ⟨by simp, List.isPrefixOf_iff_prefix.mp hc.1, fun q aq hq hqu => ?_⟩
        rcases List.mem_cons.mp hq with h | h
        · cases h; exact Nat.le_refl _
        · exact Nat.le_trans (hmax q aq h hqu) (Nat.le_of_lt hc.2)
      · rw [if_neg hc]
        refine ⟨by simp [hmem], hpre, fun q aq hq hqu => ?_⟩
        rcases List.mem_cons.mp hq with h | h
        · cases h
          by_cases hp : p.isPrefixOf u = true
          · exact Nat.le_of_not_lt (fun hlt => hc ⟨hp, hlt⟩)
          · exact absurd (List.isPrefixOf_iff_prefix.mpr hqu) hp
        · exact hmax q aq h hqu

/-- two registered prefixes of the same URI with the same length are the same prefix (so, in a dict, the same key) -/
theorem prefix_unique (p q u : Uri) (hp : p <+: u) (hq : q <+: u) (hl : p.length = q.length) : p = q := by
  obtain ⟨s, hs⟩ := hp
  obtain ⟨t, ht⟩ := hq
  have := List.append_inj (hs.trans ht.symm) hl
  exact this.1

/-- Which key a URI selects: the key registered for the LONGEST registered prefix of the URI; the default key only if
no registered prefix matches; the originator / responder box of that key according to the role — and nothing else
(a matching key without a box for the role gives `none`, it does not fall back to the default key). -/
theorem longest_prefix_key (ring : KeyRing K) (o : Bool) (u : Uri) :
    (∀ p key, longestPrefix ring.keys u = some (p, key) →
        (p, key) ∈ ring.keys ∧ p <+: u ∧
        (∀ q kq, (q, kq) ∈ ring.keys → q <+: u → q.length ≤ p.length) ∧
        getBox ring o u = if o then key.originatorBox else key.responderBox) ∧
    (longestPrefix ring.keys u = none →
        (∀ q kq, (q, kq) ∈ ring.keys → ¬ q <+: u) ∧
        getBox ring o u = match ring.default with
          | some key => if o then key.originatorBox else key.responderBox
          | none => none) := by
  have hs := longestPrefix_spec ring.keys u
  refine ⟨fun p key h => ?_, fun h => ?_⟩
  · rw [h] at hs; simp only at hs
    refine ⟨hs.1, hs.2.1, hs.2.2, ?_⟩
    simp [getBox, h]
  · rw [h] at hs; simp only at hs
    refine ⟨hs, ?_⟩
    simp only [getBox, h]
    cases ring.default <;> simp

/-- non-vacuity: `com.secret.deep.x` selects the deeper key, `com.secretive` the shallower one (character prefix),
`com.public` the default -/
def ringLayers : KeyRing Nat :=
  { keys := [("com.secret".toList, { originatorBox := some 1, responderBox := some 1 }),
             ("com.secret.deep".toList, { originatorBox := some 2, responderBox := none })],
    default := some { originatorBox := some 9, responderBox := some 9 } }

example : getBox ringLayers true "com.secret.deep.x".toList = some 2 ∧
    getBox ringLayers false "com.secret.deep.x".toList = none ∧
    getBox ringLayers true "com.secretive".toList = some 1 ∧
    getBox ringLayers false "com.public".toList = some 9 := by decide

end Abverif.Cryptobox
