import Abverif.Proofs.Lemmas.WsData
/-
# Segmentation independence of the WebSocket receive path (C01, C02, C16: "however the octet stream is segmented")

For an endpoint that fails by dropping (`failByDrop = true`, autobahn's default) the result of feeding an octet
stream to `dataReceived` does not depend on how the stream is cut into (non-empty) reads: the delivered events, the
frames written, the close outcome and the whole engine state are the same — or, when the stream makes the endpoint
fail the connection, both runs end CLOSED with the same history (`DeadSim`; the runs may differ only in private
fields of the dead connection such as the unprocessed rest of the buffer).

Also proved here: the `processData` loop terminates (`drain_fuel`, Lemmas/WsSeg2.lean): the fuel `drainFuel` of the
model's `drain` is never exhausted, so the model's bounded loop *is* the code's `while` loop.

Not covered (stated, not proved): `failByDrop = false` (the endpoint answers a violation with a close frame and
keeps reading; the segmentation then shows in *which* octets are still looked at after the failure).
-/
namespace Abverif.Ws

theorem dataReceived_lost (s : S) (d : Bytes) (hl : s.lost = true) : dataReceived s d = s := by
  unfold dataReceived; simp [hl]

theorem dataReceived_live (s : S) (d : Bytes) (hl : s.lost = false) (hs : s.st = .opened ∨ s.st = .closing) :
    dataReceived s d =
      { (drain (drainFuel (s.data ++ d)) { s with data := [] } (s.data ++ d)).1 with
        data := (drain (drainFuel (s.data ++ d)) { s with data := [] } (s.data ++ d)).2 } := by
  unfold dataReceived
  rcases hs with h | h <;> simp [hl, h]

theorem dataReceived_idle (s : S) (d : Bytes) (hl : s.lost = false) (hs : s.st = .connecting ∨ s.st = .closed) :
    dataReceived s d = { s with data := s.data ++ d } := by
  unfold dataReceived
  rcases hs with h | h <;> simp [hl, h]

theorem mu_lt_drainFuel (s : S) (buf : Bytes) : mu s buf < drainFuel buf := by
  unfold mu drainFuel; split <;> omega

theorem setData_self (s : S) (h : s.data = []) : { s with data := [] } = s := by
  cases s; simp at h; subst h; rfl

theorem DeadSim.setData (a b : S) (x y : Bytes) (h : DeadSim a b) :
    DeadSim { a with data := x } { b with data := y } := h

/-- the frame pointer is within the current frame for as long as the connection lives -/
def LiveWF (s : S) : Prop := s.st ≠ .closed → WF s

/-- **two reads or one** -/
theorem dataReceived_append (s : S) (a b : Bytes) (hwf : LiveWF s) (hf : s.cfg.failByDrop = true)
    (ha : a ≠ []) (hb : b ≠ []) :
    Sim (dataReceived (dataReceived s a) b) (dataReceived s (a ++ b)) := by
  cases hl : s.lost with
  | true => rw [dataReceived_lost s a hl, dataReceived_lost s b hl, dataReceived_lost s _ hl]; exact Sim.refl s
  | false =>
    by_cases hs : s.st = .opened ∨ s.st = .closing
    · -- the engine is reading
      have hne : s.data ++ a ≠ [] := by
        intro h; exact ha (List.append_eq_nil_iff.mp h).2
      have hst0 : ({ s with data := [] } : S).st ≠ .closed := by
        rcases hs with h | h <;> simp [h]
      have A := drain_seg (drainFuel (s.data ++ a)) { s with data := [] } (s.data ++ a) b
        (drainFuel (s.data ++ a ++ b)) (hwf hst0) hf hst0 hb (fun h => absurd h hne)
        (mu_lt_drainFuel _ _) (mu_lt_drainFuel _ _)
      have hE := drain_Ext (drainFuel (s.data ++ a)) { s with data := [] } (s.data ++ a)
      have hD := drain_data (drainFuel (s.data ++ a)) { s with data := [] } (s.data ++ a)
      rw [dataReceived_live s a hl hs, dataReceived_live s (a ++ b) hl hs, ← List.append_assoc]
      generalize drain (drainFuel (s.data ++ a)) { s with data := [] } (s.data ++ a) = r1 at A hE hD
      generalize drain (drainFuel (s.data ++ a ++ b)) { s with data := [] } (s.data ++ a ++ b) = r3 at A
      have hl1 : r1.1.lost = false := by rw [hE.lost]; exact hl
      by_cases hc : r1.1.st = .closed
      · rw [dataReceived_idle { r1.1 with data := r1.2 } b hl1 (Or.inr hc)]
        exact Or.inr (A.1 hc)
      · have hlive : r1.1.st = .opened ∨ r1.1.st = .closing := by
          have hr := hE.rank
          cases h1 : r1.1.st with
          | connecting =>
            rw [h1] at hr
            rcases hs with h | h <;> simp [h, St.rank] at hr
          | opened => exact Or.inl rfl
          | closing => exact Or.inr rfl
          | closed => exact absurd h1 hc
        rw [dataReceived_live { r1.1 with data := r1.2 } b hl1 hlive]
        simp only
        have hself : ({ r1.1 with data := [] } : S) = r1.1 := setData_self _ (by rw [hD])
        rw [hself]
        rcases A.2 hc (drainFuel (r1.2 ++ b)) (mu_lt_drainFuel _ _) with e | d
        · rw [e]; exact Sim.refl _
        · exact Or.inr d
    · -- not reading: the octets are only buffered
      have hs' : s.st = .connecting ∨ s.st = .closed := by
        cases h1 : s.st with
        | connecting => exact Or.inl rfl
        | opened => exact absurd (Or.inl h1) hs
        | closing => exact absurd (Or.inr h1) hs
        | closed => exact Or.inr rfl
      rw [dataReceived_idle s a hl hs', dataReceived_idle s (a ++ b) hl hs',
        dataReceived_idle { s with data := s.data ++ a } b hl hs']
      simp only [List.append_assoc]
      exact Sim.refl _

theorem Sim.symm {a b : S} (h : Sim a b) : Sim b a := by
  rcases h with h | h
  · exact Or.inl h.symm
  · exact Or.inr ⟨h.2.1, h.1, h.2.2.1.symm, h.2.2.2.symm⟩

theorem Sim.trans {a b c : S} (h1 : Sim a b) (h2 : Sim b c) : Sim a c := by
  rcases h1 with h1 | h1
  · rw [h1]; exact h2
  · rcases h2 with h2 | h2
    · rw [← h2]; exact Or.inr h1
    · exact Or.inr ⟨h1.1, h2.2.1, h1.2.2.1.trans h2.2.2.1, h1.2.2.2.trans h2.2.2.2⟩

/-- further reads keep two similar states similar -/
theorem Sim.dataReceived {x y : S} (h : Sim x y) (d : Bytes) : Sim (dataReceived x d) (dataReceived y d) := by
  rcases h with h | h
  · rw [h]; exact Sim.refl _
  · cases hl : x.lost with
    | true =>
      rw [dataReceived_lost x d hl, dataReceived_lost y d (by rw [← h.2.2.2]; exact hl)]
      exact Or.inr h
    | false =>
      rw [dataReceived_idle x d hl (Or.inr h.1), dataReceived_idle y d (by rw [← h.2.2.2]; exact hl) (Or.inr h.2.1)]
      exact Or.inr h

/-- feeding a list of reads, one `dataReceived` call each -/
def feed (s : S) (chunks : List Bytes) : S := chunks.foldl dataReceived s

theorem Sim.feed {x y : S} (h : Sim x y) (chunks : List Bytes) : Sim (feed x chunks) (feed y chunks) := by
  induction chunks generalizing x y with
  | nil => exact h
  | cons c cs ih => exact ih (h.dataReceived c)

/-- **C01/C02/C16, segmentation**: any way of cutting an octet stream into non-empty reads has the effect of one
read of the whole stream (`Sim`: the same state, or both runs closed the connection with the same history) -/
theorem feed_eq_single (s : S) (hwf : LiveWF s) (hf : s.cfg.failByDrop = true) :
    ∀ (n : Nat) (chunks : List Bytes), chunks.length = n + 1 → (∀ c ∈ chunks, c ≠ []) →
      Sim (feed s chunks) (dataReceived s chunks.flatten) := by
  intro n
  induction n with
  | zero =>
    intro chunks hlen _
    match chunks, hlen with
    | [c], _ => simp [feed]; exact Sim.refl _
  | succ n ih =>
    intro chunks hlen hne
    match chunks, hlen with
    | c1 :: c2 :: rest, hlen =>
      have h1 : c1 ≠ [] := hne c1 (by simp)
      have h2 : c2 ≠ [] := hne c2 (by simp)
      have step : Sim (dataReceived (dataReceived s c1) c2) (dataReceived s (c1 ++ c2)) :=
        dataReceived_append s c1 c2 hwf hf h1 h2
      have hrest : Sim (feed s (c1 :: c2 :: rest)) (feed s ((c1 ++ c2) :: rest)) := by
        have := step.feed rest
        simpa [feed] using this
      have hih := ih ((c1 ++ c2) :: rest) (by simp at hlen ⊢; omega) (by
        intro c hc
        rcases List.mem_cons.mp hc with e | e
        · rw [e]; intro h; exact h1 (List.append_eq_nil_iff.mp h).1
        · exact hne c (by simp [e]))
      have hflat : ((c1 ++ c2) :: rest).flatten = (c1 :: c2 :: rest).flatten := by simp
      rw [hflat] at hih
      exact hrest.trans hih

/-- two segmentations of one stream are indistinguishable -/
theorem segmentation_independent (s : S) (hwf : LiveWF s) (hf : s.cfg.failByDrop = true)
    (xs ys : List Bytes) (hx : ∀ c ∈ xs, c ≠ []) (hy : ∀ c ∈ ys, c ≠ []) (he : xs.flatten = ys.flatten) :
    Sim (feed s xs) (feed s ys) := by
  match xs, ys with
  | [], [] => exact Sim.refl _
  | [], y :: ys =>
    exfalso
    have : y = [] := by
      have h : (y :: ys).flatten = [] := by rw [← he]; rfl
      simp at h; exact h.1
    exact hy y (by simp) this
  | x :: xs, [] =>
    exfalso
    have : x = [] := by
      have h : (x :: xs).flatten = [] := by rw [he]; rfl
      simp at h; exact h.1
    exact hx x (by simp) this
  | x :: xs, y :: ys =>
    have a := feed_eq_single s hwf hf xs.length (x :: xs) (by simp) hx
    have b := feed_eq_single s hwf hf ys.length (y :: ys) (by simp) hy
    rw [he] at a
    exact a.trans b.symm

/-- the observable history (events delivered, octets written, close outcome) and the connection state do not depend
on the segmentation -/
theorem segmentation_independent_log (s : S) (hwf : LiveWF s) (hf : s.cfg.failByDrop = true)
    (xs ys : List Bytes) (hx : ∀ c ∈ xs, c ≠ []) (hy : ∀ c ∈ ys, c ≠ []) (he : xs.flatten = ys.flatten) :
    (feed s xs).log = (feed s ys).log ∧ (feed s xs).st = (feed s ys).st :=
  ⟨(segmentation_independent s hwf hf xs ys hx hy he).log, (segmentation_independent s hwf hf xs ys hx hy he).st⟩

/-- `LiveWF` is an invariant of reading, so the theorems apply again after every read -/
theorem dataReceived_LiveWF (s : S) (d : Bytes) (hwf : LiveWF s) (hf : s.cfg.failByDrop = true) :
    LiveWF (dataReceived s d) := by
  cases hl : s.lost with
  | true => rw [dataReceived_lost s d hl]; exact hwf
  | false =>
    by_cases hs : s.st = .opened ∨ s.st = .closing
    · have hst0 : ({ s with data := [] } : S).st ≠ .closed := by
        rcases hs with h | h <;> simp [h]
      rw [dataReceived_live s d hl hs]
      rcases drain_WF (drainFuel (s.data ++ d)) { s with data := [] } (s.data ++ d) (hwf hst0) hf hst0 with h | h
      · intro hx; exact absurd h hx
      · intro _; exact h
    · have hs' : s.st = .connecting ∨ s.st = .closed := by
        cases h1 : s.st with
        | connecting => exact Or.inl rfl
        | opened => exact absurd (Or.inl h1) hs
        | closing => exact absurd (Or.inr h1) hs
        | closed => exact Or.inr rfl
      rw [dataReceived_idle s d hl hs']
      exact hwf

theorem feed_LiveWF (s : S) (chunks : List Bytes) (hwf : LiveWF s) (hf : s.cfg.failByDrop = true) :
    LiveWF (feed s chunks) ∧ (feed s chunks).cfg = s.cfg := by
  induction chunks generalizing s with
  | nil => exact ⟨hwf, rfl⟩
  | cons c cs ih =>
    have hc : (dataReceived s c).cfg = s.cfg := (dataReceived_Ext s c).cfg
    have := ih (dataReceived s c) (dataReceived_LiveWF s c hwf hf) (by rw [hc]; exact hf)
    exact ⟨this.1, by rw [← hc]; exact this.2⟩

/-- the hypotheses are met by a freshly opened connection -/
example : LiveWF (start {}) ∧ (start {}).cfg.failByDrop = true := by
  refine ⟨?_, rfl⟩
  intro _ h hh
  simp [start] at hh

end Abverif.Ws
