import Abverif.Model.WsSpec
import Abverif.Proofs.Lemmas.WsExt
import Abverif.Proofs.C15
/-
C01 — messages arrive intact, exactly once and in order: theorems about the send side and the wire format.
-/
namespace Abverif.Ws
open Abverif.Xor

/-! ### big-endian length fields -/

theorem beBytes_length (k n : Nat) : (beBytes k n).length = k := by
  induction k generalizing n with
  | zero => rfl
  | succ k ih => simp [beBytes, ih]

theorem beNat_append_singleton (l : Bytes) (b : UInt8) : beNat (l ++ [b]) = beNat l * 256 + b.toNat := by
  simp [beNat, List.foldl_append]

theorem beNat_beBytes (k n : Nat) (h : n < 256 ^ k) : beNat (beBytes k n) = n := by
  induction k generalizing n with
  | zero => simp [beBytes, beNat] at *; omega
  | succ k ih =>
    simp only [beBytes, beNat_append_singleton]
    have h1 : n / 256 < 256 ^ k := by
      rw [Nat.pow_succ] at h
      exact Nat.div_lt_of_lt_mul (by omega)
    rw [ih _ h1]
    have : (UInt8.ofNat (n % 256)).toNat = n % 256 := by
      simp [UInt8.toNat_ofNat]
    rw [this]
    omega

/-! ### payload length encoding (`sendFrame`, `beginMessageFrame`, `PreparedMessage`) at every boundary -/

theorem encodeLen_7 (l : Nat) (h : l ≤ 125) : encodeLen l = some (l, []) := by simp [encodeLen, h]

theorem encodeLen_16 (l : Nat) (h1 : 125 < l) (h2 : l ≤ 65535) : encodeLen l = some (126, beBytes 2 l) := by
  unfold encodeLen
  rw [if_neg (by omega), if_pos (by omega)]

theorem encodeLen_64 (l : Nat) (h1 : 65535 < l) (h2 : l ≤ 2 ^ 63 - 1) : encodeLen l = some (127, beBytes 8 l) := by
  unfold encodeLen
  rw [if_neg (by omega), if_neg (by omega), if_pos (by omega)]

theorem encodeLen_none (l : Nat) (h : 2 ^ 63 - 1 < l) : encodeLen l = none := by
  unfold encodeLen
  rw [if_neg (by omega), if_neg (by omega), if_neg (by omega)]

/-- **lenCodec_roundtrip**: whatever `encodeLen` emits decodes to the same length and is accepted by the
minimal-encoding rule of the Spec — for every length below 2^63 (0, 125, 126, 65535, 65536 included) -/
theorem lenCodec_roundtrip (l l7 : Nat) (ext : Bytes) (h : encodeLen l = some (l7, ext)) :
    (if l7 < 126 then l7 else beNat ext) = l ∧ WsSpec.extLenOk l7 l = true ∧ l7 < 128 ∧
    ext.length = (if l7 = 126 then 2 else if l7 = 127 then 8 else 0) := by
  unfold encodeLen at h
  split at h
  · rename_i h125
    cases h
    have a : l ≠ 126 := by omega
    have b : l ≠ 127 := by omega
    have c : l < 126 := by omega
    simp [WsSpec.extLenOk, a, b, c]; omega
  · split at h
    · cases h
      refine ⟨?_, ?_, by omega, by simp [beBytes_length]⟩
      · simp; exact beNat_beBytes 2 l (by omega)
      · simp [WsSpec.extLenOk]; omega
    · split at h
      · cases h
        refine ⟨?_, ?_, by omega, by simp [beBytes_length]⟩
        · simp; exact beNat_beBytes 8 l (by omega)
        · simp [WsSpec.extLenOk]; omega
      · cases h

/-! ### fragmentation loop of `sendMessage` -/

theorem fragments_concat (pfs : Nat) (hp : 1 ≤ pfs) :
    ∀ (fuel : Nat) (pl : Bytes), pl.length ≤ fuel → ((fragments pfs fuel pl).map (·.1)).flatten = pl := by
  intro fuel
  induction fuel with
  | zero => intro pl h; simp [fragments]
  | succ n ih =>
    intro pl h
    unfold fragments
    split
    · simp
    · rename_i hlt
      simp only [List.map_cons, List.flatten_cons]
      rw [ih (pl.drop pfs) (by simp; omega)]
      exact List.take_append_drop _ _

/-- exactly the last fragment carries FIN -/
theorem fragments_fin (pfs : Nat) :
    ∀ (fuel : Nat) (pl : Bytes), ∃ (init : List (Bytes × Bool)) (last : Bytes),
      fragments pfs fuel pl = init ++ [(last, true)] ∧ ∀ x ∈ init, x.2 = false ∧ x.1.length = pfs := by
  intro fuel
  induction fuel with
  | zero => intro pl; exact ⟨[], pl, by simp [fragments], by simp⟩
  | succ n ih =>
    intro pl
    unfold fragments
    split
    · exact ⟨[], pl, by simp, by simp⟩
    · rename_i hlt
      obtain ⟨init, last, e, hall⟩ := ih (pl.drop pfs)
      refine ⟨(pl.take pfs, false) :: init, last, by simp [e], ?_⟩
      intro x hx
      rcases List.mem_cons.mp hx with h | h
      · subst h; simp; omega
      · exact hall x h

/-- the same for write-chopping (`sendData(…, chopsize)`): the chunks concatenate to the data -/
theorem chop_flatten (c : Nat) (hc : 1 ≤ c) :
    ∀ (fuel : Nat) (d : Bytes), d.length ≤ fuel → (chop c fuel d).flatten = d := by
  intro fuel
  induction fuel with
  | zero => intro d h; simp [chop]
  | succ n ih =>
    intro d h
    unfold chop
    split
    · simp
    · rename_i hlt
      simp only [List.flatten_cons]
      rw [ih (d.drop c) (by simp; omega)]
      exact List.take_append_drop _ _

/-! ### the send queue preserves order (sync / chopped writes) -/

def writeOf : Out → Option Bytes
  | .write b => some b
  | _ => none

/-- all octets handed to `transport.write` so far -/
def written (s : S) : Bytes := (s.log.filterMap writeOf).flatten

/-- octets written or still queued, in order -/
def wire (s : S) : Bytes := written s ++ s.sendQueue.flatten

theorem sendTick_wire (s : S) (h : s.st ≠ .closed) : wire (sendTick s) = wire s := by
  unfold sendTick wire written
  split
  · rename_i e rest hq
    simp [S.timer, S.emit, h, hq, List.filterMap_append, writeOf]
  · rename_i hq
    simp

theorem trigger_wire (s : S) (h : s.st ≠ .closed) : wire (trigger s) = wire s := by
  unfold trigger
  split
  · rw [sendTick_wire _ (by simpa using h)]; rfl
  · rfl

/-- **queue_order** (one call): whatever mode `sendData` uses — direct write, queued because earlier data is still
queued, synchronous, or chopped — the octets go out after everything passed to `sendData` before, unreordered -/
theorem sendData_wire (s : S) (d : Bytes) (sync : Bool) (chopsize : Nat) (h : s.st ≠ .closed)
    (hl : ¬ (s.lost = true ∧ s.cfg.asyncio = true)) :
    wire (sendData s d sync chopsize) = wire s ++ d := by
  unfold sendData
  split
  · rename_i hc
    rw [trigger_wire _ (by simpa using h)]
    simp [wire, written, chop_flatten chopsize (by omega) d.length d (Nat.le_refl _)]
  · split
    · rw [trigger_wire _ (by simpa using h)]
      simp [wire, written]
    · rename_i h1 h2
      have hq : s.sendQueue = [] := by
        cases hs : s.sendQueue with
        | nil => rfl
        | cons a b => simp [hs] at h2
      split
      · rename_i h3; exact absurd (by simpa using h3) hl
      · simp [wire, written, S.emit, List.filterMap_append, writeOf, hq]

theorem sendData_st (s : S) (d : Bytes) (sync : Bool) (c : Nat) : (sendData s d sync c).st = s.st :=
  (sendData_SendEq s d sync c).st

/-- **queue_order**: any sequence of `sendData` calls with any mix of modes -/
theorem queue_order (ds : List (Bytes × Bool × Nat)) :
    ∀ (s : S), s.st ≠ .closed → ¬ (s.lost = true ∧ s.cfg.asyncio = true) →
      wire (ds.foldl (fun s d => sendData s d.1 d.2.1 d.2.2) s) = wire s ++ (ds.map (·.1)).flatten := by
  induction ds with
  | nil => intro s _ _; simp
  | cons d ds ih =>
    intro s h hl
    simp only [List.foldl_cons, List.map_cons, List.flatten_cons]
    rw [ih _ (by rw [sendData_st]; exact h)
          (by rw [(sendData_SendEq _ _ _ _).lost, (sendData_SendEq _ _ _ _).cfg]; exact hl),
        sendData_wire s _ _ _ h hl, List.append_assoc]

/-- once the queue has drained, everything is on the transport -/
theorem wire_drained (s : S) (h : s.sendQueue = []) : wire s = written s := by simp [wire, h]

/-! ### mask policy of `sendFrame` (C15's wire clause) -/

/-- by default a client masks every frame and a server none; the key is a fresh draw from the key stream per frame -/
theorem default_mask_policy (cfg : Cfg) (h1 : cfg.maskClient = true) (h2 : cfg.maskServer = false) (s : S)
    (hc : s.cfg = cfg) :
    (drawKey s).2 = (if cfg.isServer then none else some (keyOf s.keyCtr)) ∧
    (drawKey s).1.keyCtr = (if cfg.isServer then s.keyCtr else s.keyCtr + 1) := by
  unfold drawKey S.masksFrames
  rw [hc]
  cases hsrv : cfg.isServer <;> simp [h1, h2]

end Abverif.Ws
