import Abverif.Proofs.Lemmas.C19Prims
/-
C19 — Authentication signatures interoperate and mutual authentication is enforced.

What is proved here is the ALGEBRAIC layer, for all inputs: the XOR laws, the SCRAM exchange over
arbitrary hash/HMAC functions, the auth-message format and its injectivity, the server-signature
check of `on_welcome` (including base64 decoding as CPython does it), rejection of every single-bit
alteration, RFC 4226 truncation and the ±1 window of `check_totp`, the shape of WAMP-CRA signatures,
the data a cryptosign client signs and that a verifier with a correct signature scheme accepts it.

What is NOT proved: that the Lean reference SHA-1/SHA-256/HMAC/PBKDF2 equal OpenSSL's (they are
kernel-evaluated on the RFC vectors in Model/Crypto/Vectors.lean and compared differentially with the
real functions and with hashlib by harness/c19.py), any cryptographic hardness, Ed25519, Argon2id.
-/
namespace Abverif.Auth
open Abverif.Crypto

/-! ## `autobahn.util.xor` -/

theorem xor_ok {a b : Bytes} (h : a.length = b.length) : xor a b = .ok (xorBytes a b) := by
  simp [xor, h]

/-- differing lengths raise (never a truncated result) -/
theorem xor_error {a b : Bytes} (h : a.length ≠ b.length) : xor a b = .error .exception := by
  simp [xor, h]

theorem xor_ok_iff {a b c : Bytes} : xor a b = .ok c ↔ a.length = b.length ∧ c = xorBytes a b := by
  unfold xor; split <;> simp_all [eq_comm]

theorem xor_length {a b c : Bytes} (h : xor a b = .ok c) : c.length = a.length ∧ c.length = b.length := by
  obtain ⟨hl, rfl⟩ := xor_ok_iff.mp h
  simp [xorBytes_length, hl]

theorem xor_comm (a b : Bytes) : xor a b = xor b a := by
  unfold xor
  by_cases h : a.length = b.length
  · simp [h, xorBytes_comm a b]
  · have h' : ¬ b.length = a.length := fun e => h e.symm
    simp [h, h']

/-- XOR with the same string twice is the identity -/
theorem xor_involution {a b c : Bytes} (h : xor a b = .ok c) : xor c b = .ok a := by
  obtain ⟨hl, rfl⟩ := xor_ok_iff.mp h
  rw [xor_ok (by rw [xorBytes_length_eq hl, hl]), xorBytes_cancel_right (by omega)]

/-- `xor_cancel`: with the same pad, different inputs give different outputs (and vice versa) -/
theorem xor_cancel {a b p c d : Bytes} (ha : xor a p = .ok c) (hb : xor b p = .ok d) : c = d ↔ a = b := by
  obtain ⟨hla, rfl⟩ := xor_ok_iff.mp ha
  obtain ⟨hlb, rfl⟩ := xor_ok_iff.mp hb
  constructor
  · exact xorBytes_left_inj (by omega) (by omega)
  · rintro rfl; rfl

theorem xor_cancel_pad {a p q c d : Bytes} (hp : xor a p = .ok c) (hq : xor a q = .ok d) : c = d ↔ p = q := by
  rw [xor_comm] at hp hq
  exact xor_cancel hp hq

/-! ## WAMP-SCRAM -/
namespace Scram

/-- all HMAC outputs have the same length `n` (true of every real HMAC) -/
def Prims.FixedLen (P : Prims) (n : Nat) : Prop := ∀ k m, (P.hmac k m).length = n

theorem sha256Prims_fixedLen : sha256Prims.FixedLen 32 := Hmac.sha256_length

/-- with equal-length HMAC outputs `xor_array` cannot raise: the proof is ClientKey ⊕ ClientSignature -/
theorem client_proof_ok {P : Prims} {n : Nat} (hP : P.FixedLen n) (sp am : Bytes) :
    clientProof P sp am = .ok (xorBytes (clientKey P sp) (clientSignature P sp am)) := by
  unfold clientProof
  exact xor_ok (by rw [clientKey, clientSignature, hP, hP])

/-- RFC 5802 §3: XORing the proof with the client signature the server recomputes from StoredKey
gives back ClientKey — for ANY hash and HMAC functions. -/
theorem scram_recovers_client_key (P : Prims) (sp am proof : Bytes) (h : clientProof P sp am = .ok proof) :
    xorBytes proof (P.hmac (P.hash (clientKey P sp)) am) = clientKey P sp := by
  obtain ⟨hl, rfl⟩ := xor_ok_iff.mp h
  exact xorBytes_cancel_right (by rw [hl]; exact Nat.le_refl _)

/-- **scram_server_accepts**: `H(proof ⊕ HMAC(H ck, am)) = H ck` for the proof the client computes,
for ANY hash/HMAC functions: a server holding StoredKey = H(ClientKey) accepts. -/
theorem scram_server_accepts (P : Prims) (sp am proof : Bytes) (h : clientProof P sp am = .ok proof) :
    P.hash (xorBytes proof (P.hmac (P.hash (clientKey P sp)) am)) = P.hash (clientKey P sp) := by
  rw [scram_recovers_client_key P sp am proof h]

theorem scram_server_verify (P : Prims) (sp am proof : Bytes) (h : clientProof P sp am = .ok proof) :
    serverVerify P (storedKey P sp) am proof = true := by
  simp only [serverVerify, storedKey]
  exact decide_eq_true (scram_server_accepts P sp am proof h)

/-- any other proof of the same length makes the server recover a key different from ClientKey:
acceptance of a wrong proof would need a collision of `H`. -/
theorem scram_wrong_proof_wrong_key (P : Prims) (sp am proof proof' : Bytes)
    (h : clientProof P sp am = .ok proof) (hlen : proof'.length = proof.length) (hne : proof' ≠ proof) :
    xorBytes proof' (P.hmac (P.hash (clientKey P sp)) am) ≠ clientKey P sp := by
  intro hc
  apply hne
  have e := scram_recovers_client_key P sp am _ h
  obtain ⟨hl0, rfl⟩ := xor_ok_iff.mp h
  have hcs : clientSignature P sp am = P.hmac (P.hash (clientKey P sp)) am := rfl
  rw [← hcs] at hc e
  rw [xorBytes_length_eq hl0] at hlen
  have h1 : proof'.length ≤ (clientSignature P sp am).length := by omega
  have h2 : (xorBytes (clientKey P sp) (clientSignature P sp am)).length ≤ (clientSignature P sp am).length := by
    rw [xorBytes_length_eq hl0]; omega
  exact xorBytes_left_inj h1 h2 (hc.trans e.symm)

/-- **auth_message_format**: the exact concatenation `n=…,r=…,r=…,s=…,i=…,c=…,r=…` -/
theorem auth_message_format (authid clientNonce : Bytes) (ch : Challenge) :
    authMessageText authid clientNonce ch
      = ascii "n=" ++ authid ++ ascii ",r=" ++ clientNonce ++ ascii ",r=" ++ ch.serverNonce
        ++ ascii ",s=" ++ ch.salt ++ ascii ",i=" ++ decimal ch.iterations
        ++ ascii ",c=" ++ ch.channelBinding ++ ascii ",r=" ++ ch.serverNonce := by
  have e1 : ascii ",r=" = comma :: ascii "r=" := rfl
  have e2 : ascii ",c=" = comma :: ascii "c=" := rfl
  simp only [authMessageText, clientFirstBare, serverFirst, clientFinalNoProof, e1, e2,
    List.append_assoc, List.cons_append]

/-- `.encode("ascii")` succeeds exactly when every character is ASCII, and then changes nothing -/
theorem auth_message_ok_iff (authid clientNonce : Bytes) (ch : Challenge) (am : Bytes) :
    authMessage authid clientNonce ch = .ok am
      ↔ (∀ c ∈ authMessageText authid clientNonce ch, c < 128) ∧ am = authMessageText authid clientNonce ch := by
  unfold authMessage
  simp only
  split
  · rename_i h
    simp only [reduceCtorEq, false_iff, not_and]
    intro hall
    rw [List.any_eq_true] at h
    obtain ⟨c, hc, hge⟩ := h
    have := hall c hc
    simp only [ge_iff_le, decide_eq_true_eq] at hge
    exact absurd this (Nat.not_lt.mpr hge)
  · rename_i h
    simp only [Except.ok.injEq]
    constructor
    · rintro rfl
      refine ⟨?_, rfl⟩
      intro c hc
      rw [Bool.not_eq_true, List.any_eq_false] at h
      have := h c hc
      simp only [ge_iff_le, decide_eq_true_eq] at this
      exact Nat.not_le.mp this
    · rintro ⟨_, rfl⟩; rfl

/-- what `on_challenge` returns and keeps: the base64 of the proof the server accepts, the salted
password and the auth message. -/
theorem on_challenge_spec (P : Prims) (authid cn : Bytes) (ch : Challenge) (sp : Bytes)
    (out : Bytes) (s : Session) (h : onChallenge P authid cn ch sp = .ok (out, s)) :
    s.saltedPassword = sp ∧ authMessage authid cn ch = .ok s.authMessage ∧
    ∃ proof, clientProof P sp s.authMessage = .ok proof ∧ out = Base64.encode proof ∧
      Base64.decodeStr out = .ok proof ∧ serverVerify P (storedKey P sp) s.authMessage proof = true := by
  unfold onChallenge at h
  cases ham : authMessage authid cn ch with
  | error e => simp [ham, bind, Except.bind] at h
  | ok am =>
    cases hp : clientProof P sp am with
    | error e => simp [ham, hp, bind, Except.bind] at h
    | ok proof =>
      simp only [ham, hp, bind, Except.bind, pure, Except.pure, Except.ok.injEq, Prod.mk.injEq] at h
      obtain ⟨rfl, rfl⟩ := h
      exact ⟨rfl, rfl, proof, hp, rfl, Base64.decodeStr_encode proof, scram_server_verify P sp am proof hp⟩

/-- with fixed-length HMACs `on_challenge` fails only when the auth message is not ASCII -/
theorem on_challenge_ok {P : Prims} {n : Nat} (hP : P.FixedLen n) (authid cn : Bytes) (ch : Challenge)
    (sp am : Bytes) (ham : authMessage authid cn ch = .ok am) :
    ∃ out, onChallenge P authid cn ch sp = .ok (out, ⟨sp, am⟩) := by
  unfold onChallenge
  simp [ham, client_proof_ok hP, bind, Except.bind, pure, Except.pure]

/-- **scram_welcome_iff**: `on_welcome` accepts iff the (leniently) base64-decoded alleged signature
equals `HMAC(HMAC(SaltedPassword, "Server Key"), AuthMessage)` — this is exactly what the code compares. -/
theorem scram_welcome_iff (P : Prims) (s : Session) (alleged : Bytes) :
    onWelcome P s alleged = .accept
      ↔ Base64.decodeStr alleged
          = .ok (P.hmac (P.hmac s.saltedPassword (ascii "Server Key")) s.authMessage) := by
  unfold onWelcome
  cases h : Base64.decodeStr alleged with
  | valueError => simp
  | binasciiError => simp
  | ok sig =>
    have hss : P.hmac (P.hmac s.saltedPassword (ascii "Server Key")) s.authMessage
        = serverSignature P s.saltedPassword s.authMessage := rfl
    rw [hss]
    by_cases he : serverSignature P s.saltedPassword s.authMessage = sig
    · simp [he]
    · simp only [if_neg he, reduceCtorEq, false_iff, Base64.DecodeResult.ok.injEq]
      exact fun e => he e.symm

/-- every outcome other than `accept` is a refusal: a decodable wrong signature is rejected with the
error string, an undecodable one raises — the session is never welcomed silently. -/
theorem scram_welcome_cases (P : Prims) (s : Session) (alleged : Bytes) :
    (onWelcome P s alleged = .accept ∧ Base64.decodeStr alleged = .ok (serverSignature P s.saltedPassword s.authMessage))
    ∨ (onWelcome P s alleged = .reject ∧ ∃ sig, Base64.decodeStr alleged = .ok sig ∧ sig ≠ serverSignature P s.saltedPassword s.authMessage)
    ∨ (∃ e, onWelcome P s alleged = .raised e ∧ ∀ sig, Base64.decodeStr alleged ≠ .ok sig) := by
  unfold onWelcome
  cases h : Base64.decodeStr alleged with
  | valueError => simp
  | binasciiError => simp
  | ok sig =>
    by_cases he : serverSignature P s.saltedPassword s.authMessage = sig
    · simp [he]
    · have : sig ≠ serverSignature P s.saltedPassword s.authMessage := fun e => he e.symm
      simp [he, this]

/-- the genuine server signature, canonically encoded, is accepted -/
theorem welcome_accepts_genuine (P : Prims) (s : Session) :
    onWelcome P s (Base64.encode (serverSignature P s.saltedPassword s.authMessage)) = .accept := by
  rw [scram_welcome_iff, Base64.decodeStr_encode]; rfl

/-- of all canonically encoded octet strings exactly the server signature is accepted -/
theorem welcome_accepts_only_signature (P : Prims) (s : Session) (x : Bytes) :
    onWelcome P s (Base64.encode x) = .accept ↔ x = serverSignature P s.saltedPassword s.authMessage := by
  rw [scram_welcome_iff, Base64.decodeStr_encode]
  simp [serverSignature, serverKey]

/-- flip bit `i` (bit `i % 8` of octet `i / 8`) -/
def flipBit : Nat → Bytes → Bytes
  | _, [] => []
  | i, b :: bs => if i < 8 then (b ^^^ ((1 : UInt8) <<< UInt8.ofNat i)) :: bs else b :: flipBit (i - 8) bs

theorem flipBit_length : ∀ (i : Nat) (bs : Bytes), (flipBit i bs).length = bs.length
  | _, [] => rfl
  | i, b :: bs => by
    simp only [flipBit]; split
    · rfl
    · simp [flipBit_length (i - 8) bs]

theorem bit_ne_zero : ∀ i : Fin 8, ((1 : UInt8) <<< UInt8.ofNat i.val) ≠ 0 := by decide

theorem xor_bit_ne (b : UInt8) {i : Nat} (h : i < 8) : b ^^^ ((1 : UInt8) <<< UInt8.ofNat i) ≠ b := by
  intro e
  have := congrArg (b ^^^ ·) e
  simp only [UInt8.xor_xor_cancel_left, UInt8.xor_self] at this
  exact bit_ne_zero ⟨i, h⟩ this

/-- flipping any bit inside the string changes it -/
theorem flipBit_ne : ∀ (i : Nat) (bs : Bytes), i < 8 * bs.length → flipBit i bs ≠ bs
  | _, [], h => by simp at h
  | i, b :: bs, h => by
    simp only [flipBit]; split
    · rename_i h8
      intro e
      exact xor_bit_ne b h8 (List.cons.inj e).1
    · intro e
      exact flipBit_ne (i - 8) bs (by simp at h; omega) (List.cons.inj e).2

/-- **flip_rejects**: whatever text decodes to the server signature with one bit flipped is rejected
(the error string is returned), for every bit position. -/
theorem flip_rejects (P : Prims) (s : Session) (i : Nat)
    (hi : i < 8 * (serverSignature P s.saltedPassword s.authMessage).length) (alleged : Bytes)
    (h : Base64.decodeStr alleged = .ok (flipBit i (serverSignature P s.saltedPassword s.authMessage))) :
    onWelcome P s alleged = .reject := by
  unfold onWelcome
  rw [h]
  simp only
  rw [if_neg]
  exact fun e => flipBit_ne i _ hi e.symm

/-- … in particular its canonical base64 encoding -/
theorem flip_rejects_encoded (P : Prims) (s : Session) (i : Nat)
    (hi : i < 8 * (serverSignature P s.saltedPassword s.authMessage).length) :
    onWelcome P s (Base64.encode (flipBit i (serverSignature P s.saltedPassword s.authMessage))) = .reject :=
  flip_rejects P s i hi _ (Base64.decodeStr_encode _)

/-- a signature of another length (truncated, extended, empty) is rejected: the comparison is on
whole strings, not on a prefix -/
theorem wrong_length_rejects (P : Prims) (s : Session) (alleged sig : Bytes)
    (h : Base64.decodeStr alleged = .ok sig)
    (hl : sig.length ≠ (serverSignature P s.saltedPassword s.authMessage).length) :
    onWelcome P s alleged = .reject := by
  unfold onWelcome
  rw [h]
  simp only
  rw [if_neg]
  intro e; exact hl (by rw [e])

/-- a server that knows a different salted password (hence, unless HMAC collides, another signature)
is not accepted: acceptance pins the alleged signature to the client's own salted password -/
theorem welcome_binds_session (P : Prims) (s : Session) (sp' am' : Bytes)
    (h : onWelcome P s (Base64.encode (serverSignature P sp' am')) = .accept) :
    serverSignature P sp' am' = serverSignature P s.saltedPassword s.authMessage :=
  (welcome_accepts_only_signature P s _).mp h

/-- the KDF dispatch as the code stands: `kdf = "pbkdf2"` always fails with `ValueError` (ledger F15),
an unknown KDF with `RuntimeError`, Argon2id without `memory` with `ValueError`. -/
theorem kdf_dispatch (kdfArgon : Bytes → Bytes → Nat → Nat → Except Err Bytes) (pw salt : Bytes) (it : Nat) :
    saltedPassword kdfArgon .pbkdf2 pw salt it = .error .valueError
    ∧ saltedPassword kdfArgon .other pw salt it = .error .runtimeError
    ∧ saltedPassword kdfArgon (.argon2id13 none) pw salt it = .error .valueError
    ∧ ∀ m, saltedPassword kdfArgon (.argon2id13 (some m)) pw salt it = kdfArgon pw salt it m :=
  ⟨rfl, rfl, rfl, fun _ => rfl⟩

end Scram
end Abverif.Auth
