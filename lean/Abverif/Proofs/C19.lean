import Abverif.Proofs.Lemmas.C19Prims
/-
C19 — Authentication signatures interoperate and mutual authentication is enforced.

What is proved here is the ALGEBRAIC layer, for all inputs: the XOR laws, the SCRAM exchange over
arbitrary hash/HMAC functions, the auth-message format and its injectivity, the server-signature
check of `on_welcome` (including base64 decoding as CPython does it), rejection of every single-bit
alteration, RFC 4226 truncation and the ±1 window of `check_totp`, the shape of WAMP-CRA signatures,
the data a cryptosign client signs and that a verifier with a correct signature scheme accepts it.

What is NOT proved: that the Lean reference SHA-1/SHA-256/HMAC/PBKDF2 equal OpenSSL's (they are
kernel-evaluated on the RFC vectors in Model/Crypto/Vectors/*.lean and compared differentially with the
real functions and with hashlib by harness/c19.py), any cryptographic hardness, Ed25519, Argon2id.
-/
namespace Abverif.Auth
open Abverif.Crypto

/-! ## `autobahn.util.xor` -/

theorem xor_ok {a b : Bytes} (h : a.length = b.length) : xor a b = .ok (xorBytes a b) := by
  simp [xor, h]

/-- differing lengths raise (never a truncated result) -/
theorem xor_error {a b : Bytes} (h : a.length ≠ b.length) : xor a b = .error .exception := by
  simp [xor, h]

theorem xor_ok_iff {a b c : Bytes} : xor a b = .ok c ↔ a.length = b.length ∧ c = xorBytes a b := by
  unfold xor; split <;> simp_all [eq_comm]

theorem xor_length {a b c : Bytes} (h : xor a b = .ok c) : c.length = a.length ∧ c.length = b.length := by
  obtain ⟨hl, rfl⟩ := xor_ok_iff.mp h
  simp [xorBytes_length, hl]

theorem xor_comm (a b : Bytes) : xor a b = xor b a := by
  unfold xor
  by_cases h : a.length = b.length
  · simp [h, xorBytes_comm a b]
  · have h' : ¬ b.length = a.length := fun e => h e.symm
    simp [h, h']

/-- XOR with the same string twice is the identity -/
theorem xor_involution {a b c : Bytes} (h : xor a b = .ok c) : xor c b = .ok a := by
  obtain ⟨hl, rfl⟩ := xor_ok_iff.mp h
  rw [xor_ok (by rw [xorBytes_length_eq hl, hl]), xorBytes_cancel_right (by omega)]

/-- `xor_cancel`: with the same pad, different inputs give different outputs (and vice versa) -/
theorem xor_cancel {a b p c d : Bytes} (ha : xor a p = .ok c) (hb : xor b p = .ok d) : c = d ↔ a = b := by
  obtain ⟨hla, rfl⟩ := xor_ok_iff.mp ha
  obtain ⟨hlb, rfl⟩ := xor_ok_iff.mp hb
  constructor
  · exact xorBytes_left_inj (by omega) (by omega)
  · rintro rfl; rfl

theorem xor_cancel_pad {a p q c d : Bytes} (hp : xor a p = .ok c) (hq : xor a q = .ok d) : c = d ↔ p = q := by
  rw [xor_comm] at hp hq
  exact xor_cancel hp hq

/-! ## WAMP-SCRAM -/
namespace Scram

/-- all HMAC outputs have the same length `n` (true of every real HMAC) -/
def Prims.FixedLen (P : Prims) (n : Nat) : Prop := ∀ k m, (P.hmac k m).length = n

theorem sha256Prims_fixedLen : sha256Prims.FixedLen 32 := Hmac.sha256_length

/-- with equal-length HMAC outputs `xor_array` cannot raise: the proof is ClientKey ⊕ ClientSignature -/
theorem client_proof_ok {P : Prims} {n : Nat} (hP : P.FixedLen n) (sp am : Bytes) :
    clientProof P sp am = .ok (xorBytes (clientKey P sp) (clientSignature P sp am)) := by
  unfold clientProof
  exact xor_ok (by rw [clientKey, clientSignature, hP, hP])

/-- RFC 5802 §3: XORing the proof with the client signature the server recomputes from StoredKey
gives back ClientKey — for ANY hash and HMAC functions. -/
theorem scram_recovers_client_key (P : Prims) (sp am proof : Bytes) (h : clientProof P sp am = .ok proof) :
    xorBytes proof (P.hmac (P.hash (clientKey P sp)) am) = clientKey P sp := by
  obtain ⟨hl, rfl⟩ := xor_ok_iff.mp h
  exact xorBytes_cancel_right (by rw [hl]; exact Nat.le_refl _)

/-- **scram_server_accepts**: `H(proof ⊕ HMAC(H ck, am)) = H ck` for the proof the client computes,
for ANY hash/HMAC functions: a server holding StoredKey = H(ClientKey) accepts. -/
theorem scram_server_accepts (P : Prims) (sp am proof : Bytes) (h : clientProof P sp am = .ok proof) :
    P.hash (xorBytes proof (P.hmac (P.hash (clientKey P sp)) am)) = P.hash (clientKey P sp) := by
  rw [scram_recovers_client_key P sp am proof h]

theorem scram_server_verify (P : Prims) (sp am proof : Bytes) (h : clientProof P sp am = .ok proof) :
    serverVerify P (storedKey P sp) am proof = true := by
  simp only [serverVerify, storedKey]
  exact decide_eq_true (scram_server_accepts P sp am proof h)

/-- any other proof of the same length makes the server recover a key different from ClientKey:
acceptance of a wrong proof would need a collision of `H`. -/
theorem scram_wrong_proof_wrong_key (P : Prims) (sp am proof proof' : Bytes)
    (h : clientProof P sp am = .ok proof) (hlen : proof'.length = proof.length) (hne : proof' ≠ proof) :
    xorBytes proof' (P.hmac (P.hash (clientKey P sp)) am) ≠ clientKey P sp := by
  intro hc
  apply hne
  have e := scram_recovers_client_key P sp am _ h
  obtain ⟨hl0, rfl⟩ := xor_ok_iff.mp h
  have hcs : clientSignature P sp am = P.hmac (P.hash (clientKey P sp)) am := rfl
  rw [← hcs] at hc e
  rw [xorBytes_length_eq hl0] at hlen
  have h1 : proof'.length ≤ (clientSignature P sp am).length := by omega
  have h2 : (xorBytes (clientKey P sp) (clientSignature P sp am)).length ≤ (clientSignature P sp am).length := by
    rw [xorBytes_length_eq hl0]; omega
  exact xorBytes_left_inj h1 h2 (hc.trans e.symm)

/-- **auth_message_format**: the exact concatenation `n=…,r=…,r=…,s=…,i=…,c=…,r=…` -/
theorem auth_message_format (authid clientNonce : Bytes) (ch : Challenge) :
    authMessageText authid clientNonce ch
      = ascii "n=" ++ authid ++ ascii ",r=" ++ clientNonce ++ ascii ",r=" ++ ch.serverNonce
        ++ ascii ",s=" ++ ch.salt ++ ascii ",i=" ++ decimal ch.iterations
        ++ ascii ",c=" ++ ch.channelBinding ++ ascii ",r=" ++ ch.serverNonce := by
  have e1 : ascii ",r=" = comma :: ascii "r=" := rfl
  have e2 : ascii ",c=" = comma :: ascii "c=" := rfl
  simp only [authMessageText, clientFirstBare, serverFirst, clientFinalNoProof, e1, e2,
    List.append_assoc, List.cons_append]

/-! ### `.encode("utf8")` of the auth message -/

/-- every code point of the text is a Unicode scalar value (no lone surrogate) -/
def Scalar (t : Text) : Prop := ∀ c ∈ t, Utf8.isScalar c = true

instance (t : Text) : Decidable (Scalar t) := by unfold Scalar; infer_instance

/-- `.encode("utf8")` succeeds exactly on texts without lone surrogates and then is the RFC 3629 encoding,
code point by code point -/
theorem encodeUtf8_ok_iff {t : Text} {z : Bytes} :
    encodeUtf8 t = .ok z ↔ Scalar t ∧ z = Utf8.encodeAll t := by
  unfold encodeUtf8 Scalar
  by_cases h : t.all Utf8.isScalar = true
  · rw [if_pos h]
    rw [List.all_eq_true] at h
    constructor
    · intro e; injection e with e; exact ⟨h, e.symm⟩
    · rintro ⟨_, rfl⟩; rfl
  · rw [if_neg h]
    rw [List.all_eq_true] at h
    constructor
    · intro e; cases e
    · rintro ⟨h', _⟩; exact absurd h' h

/-- the only way `.encode("utf8")` fails: `UnicodeEncodeError` on a lone surrogate -/
theorem encodeUtf8_error_iff {t : Text} {e : Err} :
    encodeUtf8 t = .error e ↔ e = .unicodeEncodeError ∧ ¬ Scalar t := by
  unfold encodeUtf8 Scalar
  by_cases h : t.all Utf8.isScalar = true
  · rw [if_pos h]
    rw [List.all_eq_true] at h
    constructor
    · intro e; cases e
    · rintro ⟨_, h'⟩; exact absurd h h'
  · rw [if_neg h]
    rw [List.all_eq_true] at h
    constructor
    · intro e; injection e with e; exact ⟨e.symm, h⟩
    · rintro ⟨rfl, _⟩; rfl

theorem encodeUtf8_scalar {t : Text} (h : Scalar t) : encodeUtf8 t = .ok (Utf8.encodeAll t) :=
  encodeUtf8_ok_iff.mpr ⟨h, rfl⟩

theorem scalar_append {a b : Text} : Scalar (a ++ b) ↔ Scalar a ∧ Scalar b := by
  unfold Scalar
  simp only [List.mem_append]
  constructor
  · intro h; exact ⟨fun c hc => h c (Or.inl hc), fun c hc => h c (Or.inr hc)⟩
  · rintro ⟨ha, hb⟩ c (hc | hc)
    · exact ha c hc
    · exact hb c hc

theorem encodeAll_append (a b : Text) : Utf8.encodeAll (a ++ b) = Utf8.encodeAll a ++ Utf8.encodeAll b := by
  simp [Utf8.encodeAll]

/-- ASCII text is encoded as itself: one octet per character, the same octet `.encode("ascii")` gave -/
theorem ofOctets_ascii : ∀ {bs : Bytes}, (∀ b ∈ bs, b < 128) →
    Scalar (Text.ofOctets bs) ∧ Utf8.encodeAll (Text.ofOctets bs) = bs
  | [], _ => ⟨(by intro c hc; cases hc), rfl⟩
  | b :: bs, h => by
    have hb : b < 128 := h b (by simp)
    have hb' : b.toNat < 128 := hb
    obtain ⟨ih1, ih2⟩ := ofOctets_ascii (bs := bs) (fun c hc => h c (by simp [hc]))
    constructor
    · intro c hc
      simp only [Text.ofOctets, List.map_cons, List.mem_cons] at hc
      rcases hc with rfl | hc
      · simp [Utf8.isScalar]; omega
      · exact ih1 c hc
    · have e : Utf8.encodeAll (Text.ofOctets (b :: bs)) = Utf8.encode b.toNat ++ Utf8.encodeAll (Text.ofOctets bs) := by
        simp [Utf8.encodeAll, Text.ofOctets]
      rw [e, ih2]
      have : Utf8.encode b.toNat = [b] := by
        unfold Utf8.encode
        rw [if_pos (by omega)]
        simp
      rw [this]; rfl

theorem decimalAux_ascii : ∀ (fuel n : Nat) (acc : Bytes), (∀ b ∈ acc, b < 128) → ∀ b ∈ decimalAux fuel n acc, b < 128
  | 0, _, _, h => h
  | fuel + 1, n, acc, h => by
    have hd : ∀ b ∈ UInt8.ofNat (48 + n % 10) :: acc, b < 128 := by
      intro b hb
      simp only [List.mem_cons] at hb
      rcases hb with rfl | hb
      · show (UInt8.ofNat (48 + n % 10)).toNat < 128
        have : (UInt8.ofNat (48 + n % 10)).toNat = 48 + n % 10 := by
          simp only [UInt8.toNat_ofNat']; omega
        omega
      · exact h b hb
    simp only [decimalAux]
    split
    · exact hd
    · exact decimalAux_ascii fuel (n / 10) _ hd

/-- `str(n)` is ASCII -/
theorem decimal_ascii (n : Nat) : ∀ b ∈ decimal n, b < 128 :=
  decimalAux_ascii _ _ _ (by simp)

/-- **auth_message_utf8**: when no field holds a lone surrogate the auth message is the exact concatenation
`n=…,r=…,r=…,s=…,i=…,c=…,r=…` of the UTF-8 encodings of the fields (the literals and the decimal iteration
count are ASCII) — RFC 5802 §5.1 / §3 `AuthMessage` -/
theorem auth_message_utf8 (authid cn : Text) (ch : ChallengeStr)
    (ha : Scalar authid) (hc : Scalar cn) (hsn : Scalar ch.serverNonce) (hs : Scalar ch.salt)
    (hcb : Scalar ch.channelBinding) :
    authMessage authid cn ch = .ok (authMessageText (Utf8.encodeAll authid) (Utf8.encodeAll cn)
      ⟨Utf8.encodeAll ch.serverNonce, Utf8.encodeAll ch.salt, ch.iterations, Utf8.encodeAll ch.channelBinding⟩) := by
  have l1 := ofOctets_ascii (bs := ascii "n=") (by decide)
  have l2 := ofOctets_ascii (bs := ascii ",r=") (by decide)
  have l3 := ofOctets_ascii (bs := ascii ",s=") (by decide)
  have l4 := ofOctets_ascii (bs := ascii ",i=") (by decide)
  have l5 := ofOctets_ascii (bs := ascii ",c=") (by decide)
  have l6 := ofOctets_ascii (decimal_ascii ch.iterations)
  unfold authMessage
  rw [encodeUtf8_ok_iff]
  unfold authMessageStr Text.lit
  refine ⟨?_, ?_⟩
  · simp only [scalar_append]
    exact ⟨⟨⟨⟨⟨⟨⟨⟨⟨⟨⟨⟨⟨l1.1, ha⟩, l2.1⟩, hc⟩, l2.1⟩, hsn⟩, l3.1⟩, hs⟩, l4.1⟩, l6.1⟩, l5.1⟩, hcb⟩, l2.1⟩, hsn⟩
  · rw [auth_message_format]
    simp only [encodeAll_append, l1.2, l2.2, l3.2, l4.2, l5.2, l6.2]

/-- **auth_message_ok_iff**: `on_challenge` gets an auth message exactly when no field holds a lone surrogate
(the one thing `.encode("utf8")` refuses); a non-ASCII authid, nonce, salt or binding is no obstacle -/
theorem auth_message_ok_iff (authid cn : Text) (ch : ChallengeStr) (am : Bytes) :
    authMessage authid cn ch = .ok am
      ↔ (Scalar authid ∧ Scalar cn ∧ Scalar ch.serverNonce ∧ Scalar ch.salt ∧ Scalar ch.channelBinding)
        ∧ am = authMessageText (Utf8.encodeAll authid) (Utf8.encodeAll cn)
            ⟨Utf8.encodeAll ch.serverNonce, Utf8.encodeAll ch.salt, ch.iterations, Utf8.encodeAll ch.channelBinding⟩ := by
  constructor
  · intro h
    have hs : Scalar (authMessageStr authid cn ch) := by
      unfold authMessage at h
      exact (encodeUtf8_ok_iff.mp h).1
    unfold authMessageStr at hs
    simp only [scalar_append] at hs
    obtain ⟨⟨⟨⟨⟨⟨⟨⟨⟨⟨⟨⟨⟨_, ha⟩, _⟩, hc⟩, _⟩, hsn⟩, _⟩, hs⟩, _⟩, _⟩, _⟩, hcb⟩, _⟩, _⟩ := hs
    refine ⟨⟨ha, hc, hsn, hs, hcb⟩, ?_⟩
    rw [auth_message_utf8 authid cn ch ha hc hsn hs hcb] at h
    injection h with h; exact h.symm
  · rintro ⟨⟨ha, hc, hsn, hs, hcb⟩, rfl⟩
    exact auth_message_utf8 authid cn ch ha hc hsn hs hcb

/-- the only failure is `UnicodeEncodeError`, and only for a lone surrogate in some field -/
theorem auth_message_error_iff (authid cn : Text) (ch : ChallengeStr) (e : Err) :
    authMessage authid cn ch = .error e
      ↔ e = .unicodeEncodeError
        ∧ ¬ (Scalar authid ∧ Scalar cn ∧ Scalar ch.serverNonce ∧ Scalar ch.salt ∧ Scalar ch.channelBinding) := by
  constructor
  · intro h
    have h' := h
    unfold authMessage at h'
    refine ⟨(encodeUtf8_error_iff.mp h').1, ?_⟩
    rintro ⟨ha, hc, hsn, hs, hcb⟩
    rw [auth_message_utf8 authid cn ch ha hc hsn hs hcb] at h
    cases h
  · rintro ⟨rfl, hn⟩
    cases hr : authMessage authid cn ch with
    | ok am => exact absurd ((auth_message_ok_iff authid cn ch am).mp hr).1 hn
    | error e' =>
      unfold authMessage at hr
      rw [(encodeUtf8_error_iff.mp hr).1]

/-- for all-ASCII fields (every exchange that worked before the auth message was encoded as UTF-8) the
octets are the characters themselves — what `.encode("ascii")` produced: nothing changes for them -/
theorem auth_message_ascii (a cn sn s cb : Bytes) (it : Nat)
    (ha : ∀ b ∈ a, b < 128) (hc : ∀ b ∈ cn, b < 128) (hsn : ∀ b ∈ sn, b < 128) (hs : ∀ b ∈ s, b < 128)
    (hcb : ∀ b ∈ cb, b < 128) :
    authMessage (Text.ofOctets a) (Text.ofOctets cn) ⟨Text.ofOctets sn, Text.ofOctets s, it, Text.ofOctets cb⟩
      = .ok (authMessageText a cn ⟨sn, s, it, cb⟩) := by
  have h1 := ofOctets_ascii ha
  have h2 := ofOctets_ascii hc
  have h3 := ofOctets_ascii hsn
  have h4 := ofOctets_ascii hs
  have h5 := ofOctets_ascii hcb
  rw [auth_message_utf8 _ _ _ h1.1 h2.1 h3.1 h4.1 h5.1]
  simp only [h1.2, h2.2, h3.2, h4.2, h5.2]

/-! ### the auth message determines every field of the exchange -/

/-- value of a decimal string continuing from `init` -/
def val10From (init : Nat) (s : Bytes) : Nat := s.foldl (fun a d => a * 10 + (d.toNat - 48)) init

theorem digit_toNat (n : Nat) : (UInt8.ofNat (48 + n % 10)).toNat = 48 + n % 10 := by
  rw [UInt8.toNat_ofNat']; omega

theorem val10_decimalAux : ∀ (fuel n : Nat) (acc : Bytes), n < fuel →
    val10From 0 (decimalAux fuel n acc) = val10From n acc
  | 0, _, _, h => by omega
  | fuel + 1, n, acc, h => by
    simp only [decimalAux]
    split
    · rename_i h0
      simp only [val10From, List.foldl_cons, digit_toNat]
      congr 1; omega
    · rename_i h0
      rw [val10_decimalAux fuel (n / 10) _ (by omega)]
      simp only [val10From, List.foldl_cons, digit_toNat]
      congr 1; omega

/-- `str(n)` reads back as `n` -/
theorem val10_decimal (n : Nat) : val10From 0 (decimal n) = n := by
  rw [decimal, val10_decimalAux _ _ _ (by omega)]; rfl

theorem decimal_injective {m n : Nat} (h : decimal m = decimal n) : m = n := by
  rw [← val10_decimal m, ← val10_decimal n, h]

theorem decimalAux_no_comma : ∀ (fuel n : Nat) (acc : Bytes), comma ∉ acc → comma ∉ decimalAux fuel n acc
  | 0, _, _, h => h
  | fuel + 1, n, acc, h => by
    have hd : comma ∉ UInt8.ofNat (48 + n % 10) :: acc := by
      simp only [List.mem_cons, not_or]
      refine ⟨?_, h⟩
      intro e
      have := congrArg UInt8.toNat e
      rw [digit_toNat] at this
      simp [comma] at this
      omega
    simp only [decimalAux]
    split
    · exact hd
    · exact decimalAux_no_comma fuel (n / 10) _ hd

theorem decimal_no_comma (n : Nat) : comma ∉ decimal n :=
  decimalAux_no_comma _ _ _ (by simp)

/-- two comma-free fields followed by a comma and a rest: the split is unique -/
theorem split_comma : ∀ {x y r r' : Bytes}, comma ∉ x → comma ∉ y →
    x ++ comma :: r = y ++ comma :: r' → x = y ∧ r = r'
  | [], [], _, _, _, _, h => by simpa using h
  | [], b :: y, _, _, _, hy, h => by
    simp only [List.nil_append, List.cons_append, List.cons.injEq] at h
    exact absurd (by simp [h.1]) hy
  | a :: x, [], _, _, hx, _, h => by
    simp only [List.nil_append, List.cons_append, List.cons.injEq] at h
    exact absurd (by simp [h.1]) hx
  | a :: x, b :: y, _, _, hx, hy, h => by
    simp only [List.cons_append, List.cons.injEq] at h
    have := split_comma (x := x) (y := y) (by simp at hx; exact hx.2) (by simp at hy; exact hy.2) h.2
    exact ⟨by rw [h.1, this.1], this.2⟩

theorem no_comma_append {x y : Bytes} (hx : comma ∉ x) (hy : comma ∉ y) : comma ∉ x ++ y := by
  simp [hx, hy]

/-- the fields of a challenge that enter the auth message contain no comma (base64 / saslprep'd
authid without comma — RFC 5802 would escape it as `=2C`; the code does not, see the harness) -/
structure CommaFree (authid cn : Bytes) (ch : Challenge) : Prop where
  authid : comma ∉ authid
  cn : comma ∉ cn
  sn : comma ∉ ch.serverNonce
  salt : comma ∉ ch.salt
  cb : comma ∉ ch.channelBinding

/-- **auth_message_injective**: for comma-free fields, equal auth messages mean equal authid, nonces,
salt, iteration count and channel binding — i.e. altering any of them alters the string both
signatures are computed over. -/
theorem auth_message_injective (a a' cn cn' : Bytes) (ch ch' : Challenge)
    (hf : CommaFree a cn ch) (hf' : CommaFree a' cn' ch')
    (h : authMessageText a cn ch = authMessageText a' cn' ch') :
    a = a' ∧ cn = cn' ∧ ch = ch' := by
  have e1 : ascii ",r=" = comma :: ascii "r=" := rfl
  have e2 : ascii ",s=" = comma :: ascii "s=" := rfl
  have e3 : ascii ",i=" = comma :: ascii "i=" := rfl
  have n1 : comma ∉ ascii "n=" := by decide
  have n2 : comma ∉ ascii "r=" := by decide
  have n3 : comma ∉ ascii "s=" := by decide
  have n4 : comma ∉ ascii "i=" := by decide
  have n5 : comma ∉ ascii "c=" := by decide
  have norm : ∀ (a cn : Bytes) (ch : Challenge), authMessageText a cn ch
      = (ascii "n=" ++ a) ++ comma :: ((ascii "r=" ++ cn) ++ comma :: ((ascii "r=" ++ ch.serverNonce)
        ++ comma :: ((ascii "s=" ++ ch.salt) ++ comma :: ((ascii "i=" ++ decimal ch.iterations)
        ++ comma :: ((ascii "c=" ++ ch.channelBinding) ++ comma :: (ascii "r=" ++ ch.serverNonce)))))) := by
    intro a cn ch
    simp only [authMessageText, clientFirstBare, serverFirst, clientFinalNoProof, e1, e2, e3,
      List.append_assoc, List.cons_append]
  rw [norm, norm] at h
  obtain ⟨h1, h⟩ := split_comma (no_comma_append n1 hf.authid) (no_comma_append n1 hf'.authid) h
  obtain ⟨h2, h⟩ := split_comma (no_comma_append n2 hf.cn) (no_comma_append n2 hf'.cn) h
  obtain ⟨h3, h⟩ := split_comma (no_comma_append n2 hf.sn) (no_comma_append n2 hf'.sn) h
  obtain ⟨h4, h⟩ := split_comma (no_comma_append n3 hf.salt) (no_comma_append n3 hf'.salt) h
  obtain ⟨h5, h⟩ := split_comma (no_comma_append n4 (decimal_no_comma _)) (no_comma_append n4 (decimal_no_comma _)) h
  obtain ⟨h6, _⟩ := split_comma (no_comma_append n5 hf.cb) (no_comma_append n5 hf'.cb) h
  have h1 := List.append_cancel_left h1
  have h2 := List.append_cancel_left h2
  have h3 := List.append_cancel_left h3
  have h4 := List.append_cancel_left h4
  have h5 := decimal_injective (List.append_cancel_left h5)
  have h6 := List.append_cancel_left h6
  refine ⟨h1, h2, ?_⟩
  cases ch; cases ch'
  simp only at h3 h4 h5 h6
  simp [h3, h4, h5, h6]

/-! ### … also as text: UTF-8 is injective -/

theorem ofNat_inj {a b : Nat} (ha : a < 256) (hb : b < 256) (h : UInt8.ofNat a = UInt8.ofNat b) : a = b := by
  have := congrArg UInt8.toNat h
  simp only [UInt8.toNat_ofNat'] at this
  omega

theorem isScalar_iff (c : Nat) : Utf8.isScalar c = true ↔ c ≤ 0x10FFFF ∧ ¬ (0xD800 ≤ c ∧ c ≤ 0xDFFF) := by
  simp [Utf8.isScalar]
  omega

/-- RFC 3629 encodings are prefix-free: the first octet tells the length, the octets tell the code point -/
theorem encode_prefix_free {c d : Nat} (hc : Utf8.isScalar c = true) (hd : Utf8.isScalar d = true) {x y : Bytes}
    (h : Utf8.encode c ++ x = Utf8.encode d ++ y) : c = d ∧ x = y := by
  rw [isScalar_iff] at hc hd
  unfold Utf8.encode at h
  by_cases c1 : c < 0x80 <;> by_cases c2 : c < 0x800 <;> by_cases c3 : c < 0x10000 <;>
  by_cases d1 : d < 0x80 <;> by_cases d2 : d < 0x800 <;> by_cases d3 : d < 0x10000 <;>
  simp only [c1, c2, c3, d1, d2, d3, if_true, if_false, List.cons_append, List.nil_append, List.cons.injEq] at h <;>
  first
  | (exfalso; omega)
  | (obtain ⟨h1, h2, h3, h4, hr⟩ := h
     have e1 := ofNat_inj (by omega) (by omega) h1
     have e2 := ofNat_inj (by omega) (by omega) h2
     have e3 := ofNat_inj (by omega) (by omega) h3
     have e4 := ofNat_inj (by omega) (by omega) h4
     exact ⟨by omega, hr⟩)
  | (obtain ⟨h1, h2, h3, hr⟩ := h
     have e1 := ofNat_inj (by omega) (by omega) h1
     have e2 := ofNat_inj (by omega) (by omega) h2
     have e3 := ofNat_inj (by omega) (by omega) h3
     first | (exfalso; omega) | exact ⟨by omega, hr⟩)
  | (obtain ⟨h1, h2, hr⟩ := h
     have e1 := ofNat_inj (by omega) (by omega) h1
     have e2 := ofNat_inj (by omega) (by omega) h2
     first | (exfalso; omega) | exact ⟨by omega, hr⟩)
  | (obtain ⟨h1, hr⟩ := h
     have e1 := ofNat_inj (by omega) (by omega) h1
     first | (exfalso; omega) | exact ⟨by omega, hr⟩)


theorem encode_ne_nil (c : Nat) : Utf8.encode c ≠ [] := by
  unfold Utf8.encode
  split
  · simp
  · split
    · simp
    · split <;> simp

/-- **utf8_injective**: different texts have different UTF-8 encodings -/
theorem encodeAll_injective : ∀ {s t : Text}, Scalar s → Scalar t → Utf8.encodeAll s = Utf8.encodeAll t → s = t
  | [], [], _, _, _ => rfl
  | [], d :: t, _, _, h => by
    have e : Utf8.encodeAll (d :: t) = Utf8.encode d ++ Utf8.encodeAll t := by simp [Utf8.encodeAll]
    rw [e] at h
    have : Utf8.encode d = [] := (List.append_eq_nil_iff.mp h.symm).1
    exact absurd this (encode_ne_nil d)
  | c :: s, [], _, _, h => by
    have e : Utf8.encodeAll (c :: s) = Utf8.encode c ++ Utf8.encodeAll s := by simp [Utf8.encodeAll]
    rw [e] at h
    have : Utf8.encode c = [] := (List.append_eq_nil_iff.mp h).1
    exact absurd this (encode_ne_nil c)
  | c :: s, d :: t, hs, ht, h => by
    have e1 : Utf8.encodeAll (c :: s) = Utf8.encode c ++ Utf8.encodeAll s := by simp [Utf8.encodeAll]
    have e2 : Utf8.encodeAll (d :: t) = Utf8.encode d ++ Utf8.encodeAll t := by simp [Utf8.encodeAll]
    rw [e1, e2] at h
    obtain ⟨hcd, hr⟩ := encode_prefix_free (hs c (by simp)) (ht d (by simp)) h
    have := encodeAll_injective (fun x hx => hs x (by simp [hx])) (fun x hx => ht x (by simp [hx])) hr
    rw [hcd, this]

/-- a text without U+002C has no comma octet in its encoding (every octet of a multi-octet sequence is ≥ 0x80) -/
theorem comma_not_mem_encodeAll : ∀ {t : Text}, Scalar t → 44 ∉ t → comma ∉ Utf8.encodeAll t
  | [], _, _ => by simp [Utf8.encodeAll]
  | c :: t, hs, hn => by
    have e1 : Utf8.encodeAll (c :: t) = Utf8.encode c ++ Utf8.encodeAll t := by simp [Utf8.encodeAll]
    rw [e1]
    have hc := (isScalar_iff c).mp (hs c (by simp))
    have hne : c ≠ 44 := fun e => hn (by simp [e])
    have ih := comma_not_mem_encodeAll (t := t) (fun x hx => hs x (by simp [hx])) (fun hx => hn (by simp [hx]))
    refine no_comma_append ?_ ih
    intro hm
    unfold Utf8.encode at hm
    by_cases c1 : c < 0x80 <;> by_cases c2 : c < 0x800 <;> by_cases c3 : c < 0x10000 <;>
    simp only [c1, c2, c3, if_true, if_false, List.mem_cons, List.not_mem_nil, or_false] at hm <;>
    first
    | (exfalso; omega)
    | (rcases hm with hm | hm | hm | hm <;>
       · have := ofNat_inj (a := 44) (by omega) (by omega) hm; omega)
    | (rcases hm with hm | hm | hm <;>
       · have := ofNat_inj (a := 44) (by omega) (by omega) hm; omega)
    | (rcases hm with hm | hm <;>
       · have := ofNat_inj (a := 44) (by omega) (by omega) hm; omega)
    | (have := ofNat_inj (a := 44) (by omega) (by omega) hm; omega)


/-- the fields, as Python `str`, contain no U+002C (base64 text, a SASLprep'd authid without comma) -/
structure CommaFreeStr (authid cn : Text) (ch : ChallengeStr) : Prop where
  authid : 44 ∉ authid
  cn : 44 ∉ cn
  sn : 44 ∉ ch.serverNonce
  salt : 44 ∉ ch.salt
  cb : 44 ∉ ch.channelBinding

/-- **auth_message_injective_str**: the same statement for the `str` values the code handles — two exchanges
with the same auth message octets have the same authid, nonces, salt, iteration count and channel binding,
character by character, non-ASCII text included (UTF-8 is injective and never produces a comma octet inside
a multi-octet sequence) -/
theorem auth_message_injective_str (a a' cn cn' : Text) (ch ch' : ChallengeStr) (am : Bytes)
    (hf : CommaFreeStr a cn ch) (hf' : CommaFreeStr a' cn' ch')
    (h : authMessage a cn ch = .ok am) (h' : authMessage a' cn' ch' = .ok am) :
    a = a' ∧ cn = cn' ∧ ch = ch' := by
  obtain ⟨⟨s1, s2, s3, s4, s5⟩, e⟩ := (auth_message_ok_iff a cn ch am).mp h
  obtain ⟨⟨t1, t2, t3, t4, t5⟩, e'⟩ := (auth_message_ok_iff a' cn' ch' am).mp h'
  have hcf : CommaFree (Utf8.encodeAll a) (Utf8.encodeAll cn)
      ⟨Utf8.encodeAll ch.serverNonce, Utf8.encodeAll ch.salt, ch.iterations, Utf8.encodeAll ch.channelBinding⟩ :=
    ⟨comma_not_mem_encodeAll s1 hf.authid, comma_not_mem_encodeAll s2 hf.cn, comma_not_mem_encodeAll s3 hf.sn,
     comma_not_mem_encodeAll s4 hf.salt, comma_not_mem_encodeAll s5 hf.cb⟩
  have hcf' : CommaFree (Utf8.encodeAll a') (Utf8.encodeAll cn')
      ⟨Utf8.encodeAll ch'.serverNonce, Utf8.encodeAll ch'.salt, ch'.iterations, Utf8.encodeAll ch'.channelBinding⟩ :=
    ⟨comma_not_mem_encodeAll t1 hf'.authid, comma_not_mem_encodeAll t2 hf'.cn, comma_not_mem_encodeAll t3 hf'.sn,
     comma_not_mem_encodeAll t4 hf'.salt, comma_not_mem_encodeAll t5 hf'.cb⟩
  obtain ⟨h1, h2, h3⟩ := auth_message_injective _ _ _ _ _ _ hcf hcf' (e.symm.trans e')
  injection h3 with g1 g2 g3 g4
  refine ⟨encodeAll_injective s1 t1 h1, encodeAll_injective s2 t2 h2, ?_⟩
  cases ch; cases ch'
  simp only at s3 s4 s5 t3 t4 t5 g1 g2 g3 g4
  rw [encodeAll_injective s3 t3 g1, encodeAll_injective s4 t4 g2, g3, encodeAll_injective s5 t5 g4]

/-- what `on_challenge` returns and keeps: the base64 of the proof the server accepts, the salted
password and the auth message. -/
theorem on_challenge_spec (P : Prims) (authid cn : Text) (ch : ChallengeStr) (sp : Bytes)
    (out : Bytes) (s : Session) (h : onChallenge P authid cn ch sp = .ok (out, s)) :
    s.saltedPassword = sp ∧ authMessage authid cn ch = .ok s.authMessage ∧
    ∃ proof, clientProof P sp s.authMessage = .ok proof ∧ out = Base64.encode proof ∧
      Base64.decodeStr out = .ok proof ∧ serverVerify P (storedKey P sp) s.authMessage proof = true := by
  unfold onChallenge at h
  cases ham : authMessage authid cn ch with
  | error e => simp [ham, bind, Except.bind] at h
  | ok am =>
    cases hp : clientProof P sp am with
    | error e => simp [ham, hp, bind, Except.bind] at h
    | ok proof =>
      simp only [ham, hp, bind, Except.bind, pure, Except.pure, Except.ok.injEq, Prod.mk.injEq] at h
      obtain ⟨rfl, rfl⟩ := h
      exact ⟨rfl, rfl, proof, hp, rfl, Base64.decodeStr_encode proof, scram_server_verify P sp am proof hp⟩

/-- with fixed-length HMACs `on_challenge` succeeds whenever the auth message can be encoded -/
theorem on_challenge_ok {P : Prims} {n : Nat} (hP : P.FixedLen n) (authid cn : Text) (ch : ChallengeStr)
    (sp am : Bytes) (ham : authMessage authid cn ch = .ok am) :
    ∃ out, onChallenge P authid cn ch sp = .ok (out, ⟨sp, am⟩) := by
  unfold onChallenge
  simp [ham, client_proof_ok hP, bind, Except.bind, pure, Except.pure]

/-- **on_challenge_total**: with fixed-length HMACs (every real HMAC) `on_challenge` produces a proof for every
authid, nonce, salt and binding that are proper Unicode text — in particular for an authid that is still
non-ASCII after SASLprep (SASLprep itself prohibits surrogates, RFC 3454 C.5) -/
theorem on_challenge_total {P : Prims} {n : Nat} (hP : P.FixedLen n) (authid cn : Text) (ch : ChallengeStr)
    (sp : Bytes) (ha : Scalar authid) (hc : Scalar cn) (hsn : Scalar ch.serverNonce) (hs : Scalar ch.salt)
    (hcb : Scalar ch.channelBinding) :
    ∃ out s, onChallenge P authid cn ch sp = .ok (out, s) :=
  let ⟨out, h⟩ := on_challenge_ok hP authid cn ch sp _ (auth_message_utf8 authid cn ch ha hc hsn hs hcb)
  ⟨out, _, h⟩

/-- **scram_welcome_iff**: `on_welcome` accepts iff the (leniently) base64-decoded alleged signature
equals `HMAC(HMAC(SaltedPassword, "Server Key"), AuthMessage)` — this is exactly what the code compares. -/
theorem scram_welcome_iff (P : Prims) (s : Session) (alleged : Bytes) :
    onWelcome P s alleged = .accept
      ↔ Base64.decodeStr alleged
          = .ok (P.hmac (P.hmac s.saltedPassword (ascii "Server Key")) s.authMessage) := by
  unfold onWelcome
  cases h : Base64.decodeStr alleged with
  | valueError => simp
  | binasciiError => simp
  | ok sig =>
    have hss : P.hmac (P.hmac s.saltedPassword (ascii "Server Key")) s.authMessage
        = serverSignature P s.saltedPassword s.authMessage := rfl
    rw [hss]
    by_cases he : serverSignature P s.saltedPassword s.authMessage = sig
    · simp [he]
    · simp only [if_neg he, reduceCtorEq, false_iff, Base64.DecodeResult.ok.injEq]
      exact fun e => he e.symm

/-- every outcome other than `accept` is a refusal: a decodable wrong signature is rejected with the
error string, an undecodable one raises — the session is never welcomed silently. -/
theorem scram_welcome_cases (P : Prims) (s : Session) (alleged : Bytes) :
    (onWelcome P s alleged = .accept ∧ Base64.decodeStr alleged = .ok (serverSignature P s.saltedPassword s.authMessage))
    ∨ (onWelcome P s alleged = .reject ∧ ∃ sig, Base64.decodeStr alleged = .ok sig ∧ sig ≠ serverSignature P s.saltedPassword s.authMessage)
    ∨ (∃ e, onWelcome P s alleged = .raised e ∧ ∀ sig, Base64.decodeStr alleged ≠ .ok sig) := by
  unfold onWelcome
  cases h : Base64.decodeStr alleged with
  | valueError => simp
  | binasciiError => simp
  | ok sig =>
    by_cases he : serverSignature P s.saltedPassword s.authMessage = sig
    · simp [he]
    · have : sig ≠ serverSignature P s.saltedPassword s.authMessage := fun e => he e.symm
      simp [he, this]

/-- the genuine server signature, canonically encoded, is accepted -/
theorem welcome_accepts_genuine (P : Prims) (s : Session) :
    onWelcome P s (Base64.encode (serverSignature P s.saltedPassword s.authMessage)) = .accept := by
  rw [scram_welcome_iff, Base64.decodeStr_encode]; rfl

/-- of all canonically encoded octet strings exactly the server signature is accepted -/
theorem welcome_accepts_only_signature (P : Prims) (s : Session) (x : Bytes) :
    onWelcome P s (Base64.encode x) = .accept ↔ x = serverSignature P s.saltedPassword s.authMessage := by
  rw [scram_welcome_iff, Base64.decodeStr_encode]
  simp [serverSignature, serverKey]

/-- flip bit `i` (bit `i % 8` of octet `i / 8`) -/
def flipBit : Nat → Bytes → Bytes
  | _, [] => []
  | i, b :: bs => if i < 8 then (b ^^^ ((1 : UInt8) <<< UInt8.ofNat i)) :: bs else b :: flipBit (i - 8) bs

theorem flipBit_length : ∀ (i : Nat) (bs : Bytes), (flipBit i bs).length = bs.length
  | _, [] => rfl
  | i, b :: bs => by
    simp only [flipBit]; split
    · rfl
    · simp [flipBit_length (i - 8) bs]

theorem bit_ne_zero : ∀ i : Fin 8, ((1 : UInt8) <<< UInt8.ofNat i.val) ≠ 0 := by decide

theorem xor_bit_ne (b : UInt8) {i : Nat} (h : i < 8) : b ^^^ ((1 : UInt8) <<< UInt8.ofNat i) ≠ b := by
  intro e
  have := congrArg (b ^^^ ·) e
  simp only [UInt8.xor_xor_cancel_left, UInt8.xor_self] at this
  exact bit_ne_zero ⟨i, h⟩ this

/-- flipping any bit inside the string changes it -/
theorem flipBit_ne : ∀ (i : Nat) (bs : Bytes), i < 8 * bs.length → flipBit i bs ≠ bs
  | _, [], h => by simp at h
  | i, b :: bs, h => by
    simp only [flipBit]; split
    · rename_i h8
      intro e
      exact xor_bit_ne b h8 (List.cons.inj e).1
    · intro e
      exact flipBit_ne (i - 8) bs (by simp at h; omega) (List.cons.inj e).2

/-- **flip_rejects**: whatever text decodes to the server signature with one bit flipped is rejected
(the error string is returned), for every bit position. -/
theorem flip_rejects (P : Prims) (s : Session) (i : Nat)
    (hi : i < 8 * (serverSignature P s.saltedPassword s.authMessage).length) (alleged : Bytes)
    (h : Base64.decodeStr alleged = .ok (flipBit i (serverSignature P s.saltedPassword s.authMessage))) :
    onWelcome P s alleged = .reject := by
  unfold onWelcome
  rw [h]
  simp only
  rw [if_neg]
  exact fun e => flipBit_ne i _ hi e.symm

/-- … in particular its canonical base64 encoding -/
theorem flip_rejects_encoded (P : Prims) (s : Session) (i : Nat)
    (hi : i < 8 * (serverSignature P s.saltedPassword s.authMessage).length) :
    onWelcome P s (Base64.encode (flipBit i (serverSignature P s.saltedPassword s.authMessage))) = .reject :=
  flip_rejects P s i hi _ (Base64.decodeStr_encode _)

/-- a signature of another length (truncated, extended, empty) is rejected: the comparison is on
whole strings, not on a prefix -/
theorem wrong_length_rejects (P : Prims) (s : Session) (alleged sig : Bytes)
    (h : Base64.decodeStr alleged = .ok sig)
    (hl : sig.length ≠ (serverSignature P s.saltedPassword s.authMessage).length) :
    onWelcome P s alleged = .reject := by
  unfold onWelcome
  rw [h]
  simp only
  rw [if_neg]
  intro e; exact hl (by rw [e])

/-- a server that knows a different salted password (hence, unless HMAC collides, another signature)
is not accepted: acceptance pins the alleged signature to the client's own salted password -/
theorem welcome_binds_session (P : Prims) (s : Session) (sp' am' : Bytes)
    (h : onWelcome P s (Base64.encode (serverSignature P sp' am')) = .accept) :
    serverSignature P sp' am' = serverSignature P s.saltedPassword s.authMessage :=
  (welcome_accepts_only_signature P s _).mp h

/-- the KDF dispatch: `kdf = "pbkdf2"` decodes the salt and runs PBKDF2-HMAC-SHA256 for 32 octets, an unknown
KDF raises `RuntimeError`, Argon2id without `memory` raises `ValueError`. -/
theorem kdf_dispatch (kdfArgon : Bytes → Bytes → Nat → Nat → Except Err Bytes) (pw salt : Bytes) (it : Nat) :
    saltedPassword kdfArgon .pbkdf2 pw salt it = pbkdf2Secret pw salt it
    ∧ saltedPassword kdfArgon .other pw salt it = .error .runtimeError
    ∧ saltedPassword kdfArgon (.argon2id13 none) pw salt it = .error .valueError
    ∧ ∀ m, saltedPassword kdfArgon (.argon2id13 (some m)) pw salt it = kdfArgon pw salt it m :=
  ⟨rfl, rfl, rfl, fun _ => rfl⟩

/-- **scram_pbkdf2_salted_password**: for the PBKDF2 flavour SaltedPassword is
`PBKDF2-HMAC-SHA256(password, salt, iterations, 32)` over the *decoded* salt — RFC 5802 §3
`SaltedPassword := Hi(Normalize(password), salt, i)` with SHA-256 (`Hi` is PBKDF2 with one block) -/
theorem scram_pbkdf2_salted_password (kdfArgon : Bytes → Bytes → Nat → Nat → Except Err Bytes)
    (pw saltText salt : Bytes) (it : Nat) (hs : Base64.decodeStr saltText = .ok salt) (hi : 1 ≤ it) :
    saltedPassword kdfArgon .pbkdf2 pw saltText it = .ok (Pbkdf2.hmacSha256 pw salt it 32) := by
  have : ¬ it = 0 := by omega
  simp [saltedPassword, pbkdf2Secret, hs, Cra.pbkdf2, this]

/-- … in particular for the canonical base64 text of any salt a router sends -/
theorem scram_pbkdf2_salted_password_encoded (kdfArgon : Bytes → Bytes → Nat → Nat → Except Err Bytes)
    (pw salt : Bytes) (it : Nat) (hi : 1 ≤ it) :
    saltedPassword kdfArgon .pbkdf2 pw (Base64.encode salt) it = .ok (Pbkdf2.hmacSha256 pw salt it 32) :=
  scram_pbkdf2_salted_password kdfArgon pw _ salt it (Base64.decodeStr_encode salt) hi

/-- the salted password of the PBKDF2 flavour has 32 octets -/
theorem scram_pbkdf2_salted_password_length (kdfArgon : Bytes → Bytes → Nat → Nat → Except Err Bytes)
    (pw saltText sp : Bytes) (it : Nat) (h : saltedPassword kdfArgon .pbkdf2 pw saltText it = .ok sp) :
    sp.length = 32 := by
  simp only [saltedPassword, pbkdf2Secret] at h
  split at h
  · simp only [Cra.pbkdf2] at h
    split at h
    · cases h
    · injection h with h; rw [← h]; exact Pbkdf2.hmacSha256_length _ _ _ _
  · cases h
  · cases h

/-- when the PBKDF2 flavour fails: an undecodable salt (`binascii.Error`), a non-ASCII salt text
(`ValueError`) or an iteration count of 0 (`ValueError`) — never for a decodable salt and `iterations ≥ 1` -/
theorem scram_pbkdf2_error_iff (kdfArgon : Bytes → Bytes → Nat → Nat → Except Err Bytes)
    (pw saltText : Bytes) (it : Nat) (e : Err) :
    saltedPassword kdfArgon .pbkdf2 pw saltText it = .error e
      ↔ (Base64.decodeStr saltText = .binasciiError ∧ e = .binasciiError)
        ∨ (Base64.decodeStr saltText = .valueError ∧ e = .valueError)
        ∨ ((∃ salt, Base64.decodeStr saltText = .ok salt) ∧ it = 0 ∧ e = .valueError) := by
  simp only [saltedPassword, pbkdf2Secret]
  cases hd : Base64.decodeStr saltText with
  | ok salt =>
    by_cases hi : it = 0
    · subst hi
      simp only [Cra.pbkdf2, if_true]
      constructor
      · intro h; injection h with h
        refine Or.inr (Or.inr ⟨?_, ?_, ?_⟩)
        · first | trivial | exact ⟨salt, rfl⟩
        · first | trivial | rfl
        · first | exact h.symm | (subst h; trivial)
      · rintro (⟨h, _⟩ | ⟨h, _⟩ | ⟨_, _, rfl⟩)
        · cases h
        · cases h
        · rfl
    · simp only [Cra.pbkdf2, if_neg hi]
      constructor
      · intro h; cases h
      · rintro (⟨h, _⟩ | ⟨h, _⟩ | ⟨_, h, _⟩)
        · cases h
        · cases h
        · exact absurd h hi
  | binasciiError =>
    constructor
    · intro h; injection h with h; exact Or.inl ⟨rfl, h.symm⟩
    · rintro (⟨_, rfl⟩ | ⟨h, _⟩ | ⟨⟨_, h⟩, _⟩)
      · rfl
      · cases h
      · cases h
  | valueError =>
    constructor
    · intro h; injection h with h; exact Or.inr (Or.inl ⟨rfl, h.symm⟩)
    · rintro (⟨h, _⟩ | ⟨_, rfl⟩ | ⟨⟨_, h⟩, _⟩)
      · cases h
      · rfl
      · cases h

/-- **scram_pbkdf2_interoperates**: the whole PBKDF2 flavour against an RFC 5802 server. The server knows only
`StoredKey = H(HMAC(SaltedPassword, "Client Key"))` and `ServerKey = HMAC(SaltedPassword, "Server Key")` derived
from `SaltedPassword = PBKDF2-HMAC-SHA256(password, salt, i, 32)` (RFC 5802 §3), sends the base64 text of the
salt and sees the same auth message octets. Then, for every password, salt, `i ≥ 1` and every text without lone
surrogates (non-ASCII authid included): `on_challenge` answers, the answer decodes to a proof the server
accepts, and `on_welcome` accepts that server's signature. -/
theorem scram_pbkdf2_interoperates (kdfArgon : Bytes → Bytes → Nat → Nat → Except Err Bytes)
    (pw salt : Bytes) (it : Nat) (hi : 1 ≤ it) (authid cn : Text) (ch : ChallengeStr)
    (ha : Scalar authid) (hc : Scalar cn) (hsn : Scalar ch.serverNonce) (hs : Scalar ch.salt)
    (hcb : Scalar ch.channelBinding) :
    let spServer := Pbkdf2.hmacSha256 pw salt it 32
    ∃ sp out s proof,
      saltedPassword kdfArgon .pbkdf2 pw (Base64.encode salt) it = .ok sp ∧ sp = spServer
      ∧ onChallenge sha256Prims authid cn ch sp = .ok (out, s)
      ∧ authMessage authid cn ch = .ok s.authMessage
      ∧ Base64.decodeStr out = .ok proof
      ∧ serverVerify sha256Prims (storedKey sha256Prims spServer) s.authMessage proof = true
      ∧ onWelcome sha256Prims s (Base64.encode (serverSignature sha256Prims spServer s.authMessage)) = .accept := by
  intro spServer
  obtain ⟨out, s, h⟩ := on_challenge_total sha256Prims_fixedLen authid cn ch spServer ha hc hsn hs hcb
  obtain ⟨hsp, ham, proof, _, _, hdec, hver⟩ := on_challenge_spec sha256Prims authid cn ch spServer out s h
  refine ⟨spServer, out, s, proof, scram_pbkdf2_salted_password_encoded kdfArgon pw salt it hi, rfl, h, ham, hdec, hver, ?_⟩
  have := welcome_accepts_genuine sha256Prims s
  rw [hsp] at this
  exact this

end Scram

/-! ## TOTP -/
namespace Totp

theorem dt_lt (d : Bytes) : dt d < 2 ^ 31 := by
  unfold dt; exact Nat.mod_lt _ (by decide)

theorem token_lt (key : Bytes) (c : Nat) : token key c < 1000000 := by
  unfold token; exact Nat.mod_lt _ (by decide)

/-- value of a string of decimal digits -/
def digitsValue (s : Bytes) : Nat := s.foldl (fun acc d => acc * 10 + (d.toNat - 48)) 0

theorem ofNat_digit_toNat {d : Nat} (h : d < 10) : (UInt8.ofNat (48 + d)).toNat = 48 + d := by
  rw [UInt8.toNat_ofNat']; omega

theorem sixDigits_spec (n : Nat) (h : n < 1000000) :
    (sixDigits n).length = 6 ∧ (∀ d ∈ sixDigits n, 48 ≤ d.toNat ∧ d.toNat ≤ 57) ∧ digitsValue (sixDigits n) = n := by
  refine ⟨rfl, ?_, ?_⟩
  · intro d hd
    simp only [sixDigits, List.map_cons, List.map_nil, List.mem_cons, List.not_mem_nil, or_false] at hd
    rcases hd with rfl | rfl | rfl | rfl | rfl | rfl <;>
      (rw [ofNat_digit_toNat (Nat.mod_lt _ (by decide))]; omega)
  · simp only [sixDigits, digitsValue, List.map_cons, List.map_nil, List.foldl_cons, List.foldl_nil]
    repeat rw [ofNat_digit_toNat (Nat.mod_lt _ (by decide))]
    omega

/-- **totp_range_format**: the result is six decimal digits whose value is
`DT(HMAC-SHA1(key, counter as 8 big-endian octets)) mod 10^6`, DT = RFC 4226 dynamic truncation. -/
theorem totp_range_format (key : Bytes) (c : Nat) :
    (compute key c).length = 6 ∧ (∀ d ∈ compute key c, 48 ≤ d.toNat ∧ d.toNat ≤ 57)
    ∧ digitsValue (compute key c) = dt (Hmac.sha1 key (be64 c)) % 1000000 := by
  have := sixDigits_spec (token key c) (token_lt key c)
  exact this

/-- the dynamic truncation reads 31 bits at the offset given by the low nibble of the last octet -/
theorem dt_spec (d : Bytes) (hd : d.length = 20) :
    ∃ o, o = (d.getD 19 0).toNat % 16 ∧ o + 3 < d.length ∧
      dt d = ((d.getD o 0).toNat * 2 ^ 24 + (d.getD (o + 1) 0).toNat * 2 ^ 16
              + (d.getD (o + 2) 0).toNat * 2 ^ 8 + (d.getD (o + 3) 0).toNat) % 2 ^ 31 := by
  refine ⟨_, rfl, by omega, rfl⟩

theorem sixDigits_injective {m n : Nat} (hm : m < 1000000) (hn : n < 1000000)
    (h : sixDigits m = sixDigits n) : m = n := by
  rw [← (sixDigits_spec m hm).2.2, ← (sixDigits_spec n hn).2.2, h]

/-- two tickets are equal iff the numeric tokens are -/
theorem compute_eq_iff (key key' : Bytes) (c c' : Nat) :
    compute key c = compute key' c' ↔ token key c = token key' c' :=
  ⟨sixDigits_injective (token_lt _ _) (token_lt _ _), fun h => by simp [compute, h]⟩

theorem computeAt_ok {secret key : Bytes} (hk : Base32.pyDecode secret = some key) (now : Nat) (offset : Int)
    (h0 : 0 ≤ offset + (now / 30 : Nat)) (h1 : offset + (now / 30 : Nat) < 2 ^ 64) :
    computeAt secret now offset = .ok (compute key (offset + (now / 30 : Nat)).toNat) := by
  unfold computeAt
  simp only [hk]
  rw [if_neg (by omega)]

/-- **check_totp_window**: with a decodable secret and the current step `c = now / 30 ≥ 1`,
`check_totp` accepts exactly the tickets of the counters `c − 1`, `c`, `c + 1`. -/
theorem check_totp_window {secret key : Bytes} (hk : Base32.pyDecode secret = some key) (now : Nat)
    (hlo : 1 ≤ now / 30) (hhi : now / 30 + 1 < 2 ^ 64) (ticket : Bytes) :
    check secret now ticket = .ok (checkWindow key (now / 30) ticket)
    ∧ (checkWindow key (now / 30) ticket = true
        ↔ ticket = compute key (now / 30 - 1) ∨ ticket = compute key (now / 30) ∨ ticket = compute key (now / 30 + 1)) := by
  constructor
  · unfold check
    rw [computeAt_ok hk now 0 (by omega) (by omega), computeAt_ok hk now 1 (by omega) (by omega),
      computeAt_ok hk now (-1) (by omega) (by omega)]
    have e0 : ((0 : Int) + (now / 30 : Nat)).toNat = now / 30 := by omega
    have e1 : ((1 : Int) + (now / 30 : Nat)).toNat = now / 30 + 1 := by omega
    have e2 : ((-1 : Int) + (now / 30 : Nat)).toNat = now / 30 - 1 := by omega
    rw [e0, e1, e2]
    simp only [checkWindow, bind, Except.bind, pure, Except.pure]
    by_cases h0 : ticket = compute key (now / 30)
    · simp [h0]
    · by_cases h1 : ticket = compute key (now / 30 + 1)
      · simp [h1]
      · simp [h0, h1]
  · simp only [checkWindow, Bool.or_eq_true, decide_eq_true_eq]
    constructor
    · rintro ((h | h) | h)
      · exact Or.inr (Or.inl h)
      · exact Or.inr (Or.inr h)
      · exact Or.inl h
    · rintro (h | h | h)
      · exact Or.inr h
      · exact Or.inl (Or.inl h)
      · exact Or.inl (Or.inr h)

/-- a ticket is refused iff its token differs from the three tokens of the window -/
theorem check_totp_rejects (key key' : Bytes) (c c' : Nat)
    (h0 : token key' c' ≠ token key c) (h1 : token key' c' ≠ token key (c + 1))
    (h2 : token key' c' ≠ token key (c - 1)) :
    checkWindow key c (compute key' c') = false := by
  simp only [checkWindow, Bool.or_eq_false_iff, decide_eq_false_iff_not, compute_eq_iff]
  exact ⟨⟨h0, h1⟩, h2⟩

/-- an undecodable secret raises `binascii.Error` (never `True`) -/
theorem check_bad_secret {secret : Bytes} (hk : Base32.pyDecode secret = none) (now : Nat) (ticket : Bytes) :
    check secret now ticket = .error .binasciiError := by
  simp [check, computeAt, hk, bind, Except.bind]

end Totp

/-! ## WAMP-CRA -/
namespace Cra

/-- **cra_is_hmac**: `compute_wcs` = base64 ∘ HMAC-SHA256 (RFC 2104 over the reference SHA-256) -/
theorem cra_is_hmac (key challenge : Bytes) :
    sign key challenge
      = Base64.encode (Sha256.hash ((Hmac.blockKey sha256Alg key).map (· ^^^ 0x5c)
          ++ Sha256.hash ((Hmac.blockKey sha256Alg key).map (· ^^^ 0x36) ++ challenge))) := rfl

/-- a WAMP-CRA signature is always 44 ASCII characters that decode to the 32-octet MAC -/
theorem sign_format (key challenge : Bytes) :
    (sign key challenge).length = 44 ∧ Base64.decodeStr (sign key challenge) = .ok (Hmac.sha256 key challenge) := by
  refine ⟨?_, Base64.decodeStr_encode _⟩
  rw [sign, Base64.encode_length, Hmac.sha256_length]

/-- a verifier that recomputes the MAC accepts exactly the signature: two signatures are equal iff the MACs are -/
theorem sign_eq_iff (k k' c c' : Bytes) : sign k c = sign k' c' ↔ Hmac.sha256 k c = Hmac.sha256 k' c' :=
  ⟨Base64.encode_injective, fun h => by simp [sign, h]⟩

/-- **derive_key_is_pbkdf2**: `derive_key` = base64 ∘ PBKDF2-HMAC-SHA256 (for `iterations ≥ 1`) -/
theorem derive_key_is_pbkdf2 (secret salt : Bytes) (iterations keylen : Nat) (h : 1 ≤ iterations) :
    deriveKey secret salt iterations keylen
      = .ok (Base64.encode (Pbkdf2.derive (Hmac.hmac sha256Alg) 32 secret salt iterations keylen)) := by
  have : iterations ≠ 0 := by omega
  simp [deriveKey, pbkdf2, this, Pbkdf2.hmacSha256, Except.map]
  rfl

theorem pbkdf2_zero_iterations (data salt : Bytes) (keylen : Nat) :
    pbkdf2 data salt 0 keylen = .error .valueError := rfl

/-- the derived key decodes to exactly `keylen` octets -/
theorem derive_key_length (secret salt : Bytes) (iterations keylen : Nat) (h : 1 ≤ iterations) :
    ∃ k, deriveKey secret salt iterations keylen = .ok (Base64.encode k) ∧ k.length = keylen :=
  ⟨_, derive_key_is_pbkdf2 secret salt iterations keylen h, Pbkdf2.hmacSha256_length secret salt iterations keylen⟩

/-- `AuthWampCra.on_challenge`: unsalted = HMAC under the secret; salted = HMAC under the *base64 text*
of the PBKDF2 key (WAMP advanced profile, WAMP-CRA with salted secrets) -/
theorem on_challenge_spec (secret challenge : Bytes) :
    onChallenge secret none challenge = .ok (Base64.encode (Hmac.sha256 secret challenge))
    ∧ ∀ (s : Salting), 1 ≤ s.iterations →
        onChallenge secret (some s) challenge
          = .ok (Base64.encode (Hmac.sha256
              (Base64.encode (Pbkdf2.hmacSha256 secret s.salt s.iterations s.keylen)) challenge)) := by
  refine ⟨rfl, fun s hs => ?_⟩
  have : s.iterations ≠ 0 := by omega
  simp [onChallenge, deriveKey, pbkdf2, this, Except.map, sign]

end Cra

/-! ## WAMP-cryptosign -/
namespace Cryptosign

/-- **cryptosign_data** (no binding): the signed data is the decoded challenge -/
theorem format_none (ch : Bytes) (cid : Option Bytes) (d : Bytes) :
    format ch cid .none = .ok d ↔ ch.length = 64 ∧ HexText.decode ch = some d := by
  unfold format
  by_cases hl : ch.length = 64
  · cases hd : HexText.decode ch with
    | none => simp [hl]
    | some raw => simp [hl]
  · simp [hl]

/-- **cryptosign_data** (tls-unique): the signed data is challenge ⊕ channel id, both 32 octets;
no other input produces signed data -/
theorem format_tls (ch : Bytes) (cid : Option Bytes) (d : Bytes) :
    format ch cid .tlsUnique = .ok d
      ↔ ∃ raw c, ch.length = 64 ∧ HexText.decode ch = some raw ∧ cid = some c ∧ c.length = 32
          ∧ raw.length = 32 ∧ d = xorBytes raw c := by
  unfold format
  by_cases hl : ch.length = 64
  · cases hd : HexText.decode ch with
    | none => simp [hl]
    | some raw =>
      have hr : raw.length = 32 := by have := HexText.decode_length ch raw hd; omega
      cases cid with
      | none => simp [hl]
      | some c =>
        by_cases hc : c.length = 32
        · simp [hl, hc, hr, xor, eq_comm]
        · simp [hl, hc]
  · simp [hl]

/-- an unknown binding type never yields signed data -/
theorem format_other (ch : Bytes) (cid : Option Bytes) : ∀ d, format ch cid .other ≠ .ok d := by
  intro d
  unfold format
  by_cases hl : ch.length = 64
  · cases hd : HexText.decode ch <;> simp [hl]
  · simp [hl]

/-- the signed data always has 32 octets -/
theorem format_length (ch : Bytes) (cid : Option Bytes) (b : Binding) (d : Bytes) (h : format ch cid b = .ok d) :
    d.length = 32 := by
  cases b with
  | none =>
    obtain ⟨hl, hd⟩ := (format_none ch cid d).mp h
    have := HexText.decode_length ch d hd; omega
  | tlsUnique =>
    obtain ⟨raw, c, _, _, _, hc, hr, rfl⟩ := (format_tls ch cid d).mp h
    rw [xorBytes_length]; omega
  | other => exact absurd h (format_other ch cid d)

/-- result = hex(signature) ++ hex(signed data) -/
theorem answer_format (sign : Bytes → Bytes) (data : Bytes) :
    signature sign data = HexText.encode (sign data) ++ HexText.encode data
    ∧ (signature sign data).length = 2 * (sign data).length + 2 * data.length := by
  refine ⟨rfl, ?_⟩
  simp [signature, HexText.encode_length]

/-- **an abstract verifier accepts it**: for any signature scheme with `verify m (sign m) = true` and
64-octet signatures, a router that expects `data` accepts the client's answer. -/
theorem router_accepts (sign : Bytes → Bytes) (verify : Bytes → Bytes → Bool)
    (hv : ∀ m, verify m (sign m) = true) (hlen : ∀ m, (sign m).length = 64) (data : Bytes) :
    routerAccepts verify data (signature sign data) = true := by
  unfold routerAccepts signature
  have hl : (HexText.encode (sign data)).length = 128 := by rw [HexText.encode_length, hlen]
  rw [List.take_left' hl, List.drop_left' hl, HexText.decode_encode, HexText.decode_encode]
  simp [hv]

/-- end to end: the answer to a challenge under tls-unique is accepted by a router that XORs its own
challenge with its own view of the channel id — iff both views agree, whatever the signature scheme. -/
theorem router_accepts_iff_same_channel (sign : Bytes → Bytes) (verify : Bytes → Bytes → Bool)
    (hv : ∀ m, verify m (sign m) = true) (hlen : ∀ m, (sign m).length = 64)
    (raw cid cid' : Bytes) (hr : raw.length = 32) (hc : cid.length = 32) (hc' : cid'.length = 32) :
    routerAccepts verify (xorBytes raw cid') (signature sign (xorBytes raw cid)) = true ↔ cid = cid' := by
  constructor
  · intro h
    unfold routerAccepts signature at h
    have hl : (HexText.encode (sign (xorBytes raw cid))).length = 128 := by rw [HexText.encode_length, hlen]
    rw [List.take_left' hl, List.drop_left' hl, HexText.decode_encode, HexText.decode_encode] at h
    simp only [Bool.and_eq_true, decide_eq_true_eq] at h
    exact xorBytes_right_inj (by omega) (by omega) h.1
  · rintro rfl
    exact router_accepts sign verify hv hlen _

/-- **xor_cancel** for the binding: under tls-unique, altering the challenge or the channel id
changes the signed data -/
theorem binding_changes_data (ch ch' : Bytes) (cid cid' d d' : Bytes)
    (h : format ch (some cid) .tlsUnique = .ok d) (h' : format ch' (some cid') .tlsUnique = .ok d') :
    (cid = cid' → (d = d' ↔ HexText.decode ch = HexText.decode ch'))
    ∧ (HexText.decode ch = HexText.decode ch' → (d = d' ↔ cid = cid')) := by
  obtain ⟨raw, c, _, hd, hc, hcl, hrl, rfl⟩ := (format_tls ch _ d).mp h
  obtain ⟨raw', c', _, hd', hc', hcl', hrl', rfl⟩ := (format_tls ch' _ d').mp h'
  cases hc; cases hc'
  constructor
  · rintro rfl
    rw [hd, hd', Option.some.injEq]
    exact ⟨xorBytes_left_inj (by omega) (by omega), fun e => by rw [e]⟩
  · intro e
    rw [hd, hd', Option.some.injEq] at e
    subst e
    exact ⟨xorBytes_right_inj (by omega) (by omega), fun e => by rw [e]⟩

/-- the binding matters: the data signed with tls-unique differs from the unbound data unless the
channel id is all zero -/
theorem bound_differs_from_unbound (ch cid d d0 : Bytes)
    (h : format ch (some cid) .tlsUnique = .ok d) (h0 : format ch none .none = .ok d0) :
    d = d0 ↔ cid = List.replicate 32 0 := by
  obtain ⟨raw, c, _, hd, hc, hcl, hrl, rfl⟩ := (format_tls ch _ d).mp h
  obtain ⟨_, hd0⟩ := (format_none ch _ d0).mp h0
  cases hc
  rw [hd, Option.some.injEq] at hd0
  subst hd0
  constructor
  · intro e
    have h1 : xorBytes raw cid = xorBytes raw (List.replicate 32 0) := by
      rw [e]
      have : xorBytes raw (xorBytes raw raw) = raw := xorBytes_cancel_left (Nat.le_refl _)
      rw [xorBytes_self, hrl] at this
      exact this.symm
    exact xorBytes_right_inj (by omega) (by simp; omega) h1
  · rintro rfl
    have : xorBytes raw (xorBytes raw raw) = raw := xorBytes_cancel_left (Nat.le_refl _)
    rw [xorBytes_self, hrl] at this
    exact this

/-- **cryptosign_data** (summary of the above for a well-formed challenge `ch` decoding to `raw`):
without binding the client signs `raw`; with tls-unique and a 32-octet channel id it signs `raw ⊕ cid`;
the answer is `hex(sig) ++ hex(data)`; a router with any correct signature scheme accepts it; and a
different channel id gives different signed data. -/
theorem cryptosign_data (sign : Bytes → Bytes) (verify : Bytes → Bytes → Bool)
    (hv : ∀ m, verify m (sign m) = true) (hlen : ∀ m, (sign m).length = 64)
    (ch raw : Bytes) (hl : ch.length = 64) (hd : HexText.decode ch = some raw) :
    signChallenge sign ch none .none = .ok (HexText.encode (sign raw) ++ HexText.encode raw)
    ∧ routerAccepts verify raw (signature sign raw) = true
    ∧ ∀ cid, cid.length = 32 →
        signChallenge sign ch (some cid) .tlsUnique
          = .ok (HexText.encode (sign (xorBytes raw cid)) ++ HexText.encode (xorBytes raw cid))
        ∧ routerAccepts verify (xorBytes raw cid) (signature sign (xorBytes raw cid)) = true
        ∧ ∀ cid', cid'.length = 32 → cid' ≠ cid → xorBytes raw cid' ≠ xorBytes raw cid := by
  have hr : raw.length = 32 := by have := HexText.decode_length ch raw hd; omega
  refine ⟨?_, router_accepts sign verify hv hlen raw, fun cid hc => ⟨?_, router_accepts sign verify hv hlen _, ?_⟩⟩
  · have : format ch none .none = .ok raw := (format_none ch none raw).mpr ⟨hl, hd⟩
    simp [signChallenge, this, Except.map, signature]
  · have : format ch (some cid) .tlsUnique = .ok (xorBytes raw cid) :=
      (format_tls ch (some cid) _).mpr ⟨raw, cid, hl, hd, rfl, hc, hr, rfl⟩
    simp [signChallenge, this, Except.map, signature]
  · intro cid' hc' hne e
    exact hne (xorBytes_right_inj (by omega) (by omega) e)

end Cryptosign

/-! ## non-vacuity: concrete instances satisfy the hypotheses used above -/
section Examples
open Scram Totp Cryptosign
deriving instance DecidableEq for Except

/-- toy primitives with 3-octet outputs (the theorems quantify over all primitives; SHA-256 is one) -/
def toyPrims : Prims := ⟨fun x => (x ++ [7, 7, 7]).take 3, fun k m => (xorBytes k m ++ k ++ [1, 2, 3]).take 3⟩

example : toyPrims.FixedLen 3 := by
  intro k m; simp [toyPrims]; omega
example : clientProof toyPrims [9, 8] [5] = .ok [5, 46, 109] := by decide
example : serverVerify toyPrims (storedKey toyPrims [9, 8]) [5] [5, 46, 109] = true := by decide
example : serverVerify toyPrims (storedKey toyPrims [9, 8]) [5] [5, 46, 108] = false := by decide
-- the real primitives satisfy the length hypothesis
example : sha256Prims.FixedLen 32 := sha256Prims_fixedLen
example : ∃ p, clientProof sha256Prims [1] [2] = .ok p := ⟨_, client_proof_ok sha256Prims_fixedLen _ _⟩

-- on_welcome on a toy session: genuine accepted; flipped, truncated, extended, garbage, non-ASCII refused
def toySession : Session := ⟨[9, 8], ascii "n=u,r=c"⟩
example : serverSignature toyPrims toySession.saltedPassword toySession.authMessage = [52, 80, 124] := by decide
example : onWelcome toyPrims toySession (ascii "NFB8") = .accept := by decide
example : onWelcome toyPrims toySession (ascii "NFB9") = .reject := by decide
example : onWelcome toyPrims toySession (ascii "NFA=") = .reject := by decide
example : onWelcome toyPrims toySession (ascii "NFB8AA==") = .reject := by decide
example : onWelcome toyPrims toySession (ascii "NFB") = .raised .binasciiError := by decide
example : onWelcome toyPrims toySession [78, 70, 66, 200] = .raised .valueError := by decide
-- the lenient decoder skips foreign characters: same signature, still accepted (not an alteration of the signature)
example : onWelcome toyPrims toySession (ascii "NF!B8") = .accept := by decide
example : flipBit 9 [0, 0] = [0, 2] := by decide
example : (9 : Nat) < 8 * (serverSignature toyPrims toySession.saltedPassword toySession.authMessage).length := by decide

-- auth message of the exchange in autobahn's own test-suite shape
example : authMessageText (ascii "user") (ascii "Y2xpZW50") ⟨ascii "c2VydmVy", ascii "c2FsdA==", 4096, []⟩
    = ascii "n=user,r=Y2xpZW50,r=c2VydmVy,s=c2FsdA==,i=4096,c=,r=c2VydmVy" := by decide
example : CommaFree (ascii "user") (ascii "Y2xpZW50") ⟨ascii "c2VydmVy", ascii "c2FsdA==", 4096, []⟩ :=
  ⟨by decide, by decide, by decide, by decide, by decide⟩
-- a non-ASCII authid ('é', '€', U+1F511) is encoded, not refused; a lone surrogate is what `.encode("utf8")` refuses
example : authMessage [0xe9, 0x20ac, 0x1f511] [] ⟨[], [], 1, []⟩
    = .ok (ascii "n=" ++ [0xc3, 0xa9, 0xe2, 0x82, 0xac, 0xf0, 0x9f, 0x94, 0x91] ++ ascii ",r=,r=,s=,i=1,c=,r=") := by decide
example : authMessage [0xd800] [] ⟨[], [], 1, []⟩ = .error .unicodeEncodeError := by decide
example : authMessage [117] [] ⟨[0xdfff], [], 1, []⟩ = .error .unicodeEncodeError := by decide
example : Scalar [0xe9, 0x20ac, 0x1f511] := by decide
example : ¬ Scalar [0xd800] := by decide
example : CommaFreeStr [0xfc, 115] (Text.lit "Y2xpZW50") ⟨Text.lit "c2VydmVy", Text.lit "c2FsdA==", 4096, []⟩ :=
  ⟨by decide, by decide, by decide, by decide, by decide⟩
example : authMessage (Text.lit "user") (Text.lit "Y2xpZW50") ⟨Text.lit "c2VydmVy", Text.lit "c2FsdA==", 4096, []⟩
    = .ok (ascii "n=user,r=Y2xpZW50,r=c2VydmVy,s=c2FsdA==,i=4096,c=,r=c2VydmVy") := by decide
-- the PBKDF2 flavour: the salt text is decoded (RFC 6070-style inputs, 1 iteration; value = the published
-- PBKDF2-HMAC-SHA256 vector for password/salt/1/32), undecodable or non-ASCII salt text and 0 iterations raise
example : Base64.decodeStr (ascii "c2FsdA==") = .ok (ascii "salt") := by decide
example : saltedPassword (fun _ _ _ _ => .error .runtimeError) .pbkdf2 (ascii "password") (ascii "c2FsdA==") 1
    = .ok (Pbkdf2.hmacSha256 (ascii "password") (ascii "salt") 1 32) :=
  scram_pbkdf2_salted_password _ _ _ _ 1 (by decide) (by decide)
example : saltedPassword (fun _ _ _ _ => .error .runtimeError) .pbkdf2 (ascii "pw") (ascii "c2F") 1 = .error .binasciiError := by
  decide
example : saltedPassword (fun _ _ _ _ => .error .runtimeError) .pbkdf2 (ascii "pw") [0xe9] 1 = .error .valueError := by decide
example : saltedPassword (fun _ _ _ _ => .error .runtimeError) .pbkdf2 (ascii "pw") (ascii "c2FsdA==") 0 = .error .valueError := by
  decide

-- TOTP: the RFC 6238 secret decodes, and time 59 is step 1 ≥ 1
example : Base32.pyDecode (ascii "GEZDGNBVGY3TQOJQGEZDGNBVGY3TQOJQ") = some (ascii "12345678901234567890") := by
  decide +kernel
example : 1 ≤ 59 / 30 ∧ 59 / 30 + 1 < 2 ^ 64 := by decide
example : sixDigits 7 = ascii "000007" := by decide
example : digitsValue (ascii "287082") = 287082 := by decide
example : computeAt (ascii "GEZDGNBVGY3TQOJQGEZDGNBVGY3TQOJQ") 0 (-1) = .error .structError := by decide +kernel
example : computeAt (ascii "gezdgnbv") 0 0 = .error .binasciiError := by decide +kernel

-- cryptosign: a toy signature scheme satisfying the two hypotheses, and concrete signed data
def toySign (m : Bytes) : Bytes := (m ++ List.replicate 64 0).take 64
def toyVerify (m s : Bytes) : Bool := s = toySign m
example : (∀ m, toyVerify m (toySign m) = true) ∧ ∀ m, (toySign m).length = 64 := by
  refine ⟨fun m => by simp [toyVerify], fun m => ?_⟩
  simp [toySign]
example : format (List.replicate 64 48) (some (List.replicate 32 0xff)) .tlsUnique = .ok (List.replicate 32 0xff) := by
  decide +kernel
example : format (List.replicate 64 48) none .none = .ok (List.replicate 32 0) := by decide +kernel
example : format (List.replicate 64 48) none .tlsUnique = .error .typeError := by decide +kernel
example : format (List.replicate 64 48) (some [1]) .tlsUnique = .error .assertionError := by decide +kernel
example : format (List.replicate 63 48) none .none = .error .exception := by decide +kernel
example : format (List.replicate 64 120) none .none = .error .binasciiError := by decide +kernel

end Examples
end Abverif.Auth
