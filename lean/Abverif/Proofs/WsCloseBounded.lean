import Abverif.Proofs.Lemmas.WsDeadline
import Abverif.Proofs.WsRoundtrip
import Abverif.Proofs.C05
import Abverif.Proofs.C17
/-
# C05: once closing has begun the connection is CLOSED within the configured timeouts, even if the peer never responds

`closing_bounded`: take any state reachable from a fresh connection by any history in which the connection is CLOSING,
with the governing timeouts configured on.  Let time pass with no further input: as soon as the clock has moved
`max closeHsTimeout serverDropTimeout` ahead (and the due timers have run), the connection is CLOSED.
Ingredients: `closing_has_timer` (C05: a drop timer is armed while CLOSING), `deadline_bounded` (here: an armed timer's
deadline is at most now + its timeout, in every reachable state; invariant `DB`, proved for every engine function in
`Lemmas/WsDeadline.lean`), `close_timeout_drops` / `server_drop_timeout_drops` (C17: the deadline passes → CLOSED).
-/
namespace Abverif.Ws

def KeepD (a b : S) : Prop := b.now = a.now ∧ b.cfg = a.cfg ∧ b.tCloseHs = a.tCloseHs ∧ b.tServerDrop = a.tServerDrop

theorem KeepD.refl (a : S) : KeepD a a := ⟨rfl, rfl, rfl, rfl⟩
theorem KeepD.trans {a b c : S} (h1 : KeepD a b) (h2 : KeepD b c) : KeepD a c :=
  ⟨h2.1.trans h1.1, h2.2.1.trans h1.2.1, h2.2.2.1.trans h1.2.2.1, h2.2.2.2.trans h1.2.2.2⟩
theorem KeepD.of_SendEq {a b : S} (h : SendEq a b) : KeepD a b := ⟨h.now, h.cfg, h.tCloseHs, h.tServerDrop⟩
theorem KeepD.DP {a b : S} (h : KeepD a b) : DP a b := DP.of_same h.1 h.2.1 h.2.2.1 h.2.2.2

theorem sendPrepared_KeepD (s : S) (pl : Bytes) (b : Bool) : KeepD s (sendPrepared s pl b) := by
  unfold sendPrepared
  have hk : KeepD s (prepareKey s).1 := by unfold prepareKey; split <;> exact ⟨rfl, rfl, rfl, rfl⟩
  dsimp only
  split
  · exact hk.trans ⟨rfl, rfl, rfl, rfl⟩
  · split
    · exact hk.trans ⟨rfl, rfl, rfl, rfl⟩
    · exact (hk.trans (⟨rfl, rfl, rfl, rfl⟩ : KeepD (prepareKey s).1 (recordOp (prepareKey s).1 _))).trans
        (KeepD.of_SendEq (sendData_SendEq _ _ _ _))

theorem beginMessage_KeepD (s : S) (b : Bool) : KeepD s (beginMessage s b) := by
  unfold beginMessage
  split
  · exact KeepD.refl s
  · split <;> exact ⟨rfl, rfl, rfl, rfl⟩

theorem beginMessageFrameCore_KeepD (s s' : S) (n : Nat) (h : beginMessageFrameCore s n = some s') : KeepD s s' := by
  unfold beginMessageFrameCore at h
  split at h
  · cases h
  · split at h
    · cases h
    · dsimp only at h
      split at h
      · cases h
      · simp only [Option.some.injEq] at h
        subst h
        have hk : KeepD s (drawKey s).1 := by unfold drawKey; split <;> exact ⟨rfl, rfl, rfl, rfl⟩
        refine ⟨?_, ?_, ?_, ?_⟩
        · show (sendData _ _ false 0).now = s.now
          rw [(sendData_SendEq _ _ _ _).now]; exact hk.1
        · show (sendData _ _ false 0).cfg = s.cfg
          rw [(sendData_SendEq _ _ _ _).cfg]; exact hk.2.1
        · show (sendData _ _ false 0).tCloseHs = s.tCloseHs
          rw [(sendData_SendEq _ _ _ _).tCloseHs]; exact hk.2.2.1
        · show (sendData _ _ false 0).tServerDrop = s.tServerDrop
          rw [(sendData_SendEq _ _ _ _).tServerDrop]; exact hk.2.2.2

theorem beginMessageFrame_KeepD (s : S) (n : Nat) : KeepD s (beginMessageFrame s n) := by
  unfold beginMessageFrame
  split
  · exact KeepD.refl s
  · split
    · rename_i s' h; exact beginMessageFrameCore_KeepD s s' n h
    · exact ⟨rfl, rfl, rfl, rfl⟩

theorem leaveFrameIfDone_KeepD (s : S) : KeepD s (leaveFrameIfDone s) := by
  unfold leaveFrameIfDone; split <;> exact ⟨rfl, rfl, rfl, rfl⟩

theorem sendMessageFrameData_KeepD (s : S) (pl : Bytes) (sync : Bool) : KeepD s (sendMessageFrameData s pl sync) := by
  unfold sendMessageFrameData
  split
  · exact KeepD.refl s
  · split
    · exact ⟨rfl, rfl, rfl, rfl⟩
    · split
      · exact ⟨rfl, rfl, rfl, rfl⟩
      · dsimp only
        refine KeepD.trans ?_ (leaveFrameIfDone_KeepD _)
        exact KeepD.trans (b := advanceFramePtr s _) ⟨rfl, rfl, rfl, rfl⟩ (KeepD.of_SendEq (sendData_SendEq _ _ _ _))

theorem endMessage_KeepD (s : S) : KeepD s (endMessage s) := by
  unfold endMessage
  split
  · exact KeepD.refl s
  · split
    · exact ⟨rfl, rfl, rfl, rfl⟩
    · have h := KeepD.of_SendEq (sendFrame_SendEq s 0 [] true 0 false 0)
      exact h

theorem sendMessageFrame_KeepD (s : S) (pl : Bytes) (sync : Bool) : KeepD s (sendMessageFrame s pl sync) := by
  unfold sendMessageFrame
  split
  · exact KeepD.refl s
  · split
    · exact ⟨rfl, rfl, rfl, rfl⟩
    · split
      · rename_i s' h
        exact (beginMessageFrameCore_KeepD s s' _ h).trans (sendMessageFrameData_KeepD s' pl sync)
      · exact ⟨rfl, rfl, rfl, rfl⟩

theorem stepCore_DP (s : S) (op : Op) : DP s (stepCore s op) := by
  cases op with
  | feed d => exact dataReceived_DP s d
  | lost => exact connectionLost_DP s
  | advance dt => exact advance_DP s dt
  | sendMessage pl b f sy => exact (KeepD.of_SendEq (sendMessage_SendEq s pl b f sy)).DP
  | sendPrepared pl b => exact (sendPrepared_KeepD s pl b).DP
  | beginMessage b => exact (beginMessage_KeepD s b).DP
  | beginFrame n => exact (beginMessageFrame_KeepD s n).DP
  | frameData pl sy => exact (sendMessageFrameData_KeepD s pl sy).DP
  | endMessage => exact (endMessage_KeepD s).DP
  | messageFrame pl sy => exact (sendMessageFrame_KeepD s pl sy).DP
  | ping pl => exact sendPing_DP s pl
  | pong pl => exact sendPong_DP s pl
  | close c r => exact sendClose_DP s c r
  | hsDone => exact handshakeDone_DP s
  | hsThenFeed d => exact (handshakeDone_DP s).trans (dataReceived_DP _ d)

theorem step_DP (s : S) (op : Op) : DP s (step s op) := (stepCore_DP s op).trans (pump_DP _)

theorem run_DB (ops : List Op) : ∀ s : S, DB s → DB (run s ops) := by
  induction ops with
  | nil => intro s h; exact h
  | cons op rest ih => intro s h; exact ih _ (step_DP s op h)

theorem start_DB (cfg : Cfg) : DB (start cfg) := by
  unfold start
  dsimp only
  split
  · exact ⟨fun D q h => by simp [armPingNext, S.timer] at h, fun D q h => by simp [armPingNext, S.timer] at h⟩
  · exact ⟨fun D q h => by simp at h, fun D q h => by simp at h⟩

/-- **deadline_bounded**: in every reachable state an armed closing-handshake / server-drop timer is due no later
than now + its configured timeout -/
theorem deadline_bounded (cfg : Cfg) (ops : List Op) : DB (run (start cfg) ops) := run_DB ops _ (start_DB cfg)

theorem run_cfg (ops : List Op) : ∀ s : S, (run s ops).cfg = s.cfg := by
  induction ops with
  | nil => intro s; rfl
  | cons op rest ih =>
    intro s
    show (run (step s op) rest).cfg = s.cfg
    rw [ih]
    unfold step
    rw [(pump_Ext _).cfg]
    by_cases h : op = .lost
    · subst h
      simp only [stepCore]
      unfold connectionLost
      split
      · rfl
      · unfold reportClose markClosed cancelOnLost
        split <;> split <;> (try split) <;> rfl
    · exact (stepCore_Ext s op h).cfg

/-- **C05: closing is bounded** — every configuration with the governing timeouts on, every history that leaves the
connection CLOSING: if from then on nothing arrives, the connection is CLOSED once the clock has moved
`max closeHsTimeout serverDropTimeout` ahead and the timers due by then have run (`Quiescent`: the run of
`advanceTo` was not cut short by its fuel). -/
theorem closing_bounded (cfg : Cfg) (ops : List Op)
    (hc : (run (start cfg) ops).st = .closing)
    (h1 : cfg.closeHsTimeout > 0) (h2 : cfg.isServer = false → cfg.serverDropTimeout > 0)
    (target fuel : Nat)
    (ht : (run (start cfg) ops).now + max cfg.closeHsTimeout cfg.serverDropTimeout ≤ target)
    (hq : Quiescent target (advanceTo target fuel (run (start cfg) ops))) :
    (advanceTo target fuel (run (start cfg) ops)).st = .closed := by
  have hcfg : (run (start cfg) ops).cfg = cfg := by
    rw [run_cfg]; unfold start; dsimp only; split <;> rfl
  have hdb := deadline_bounded cfg ops
  have hcb := closing_has_timer cfg ops hc
  rw [hcfg] at hcb
  generalize run (start cfg) ops = s at *
  rcases hcb with (h | h) | ⟨hsrv, h | h⟩
  · cases ht' : s.tCloseHs with
    | none => rw [ht'] at h; cases h
    | some t =>
      obtain ⟨D, q⟩ := t
      have := hdb.1 D q ht'
      rw [hcfg] at this
      exact close_timeout_drops target fuel s D q ht' (by omega) hq
  · omega
  · cases ht' : s.tServerDrop with
    | none => rw [ht'] at h; cases h
    | some t =>
      obtain ⟨D, q⟩ := t
      have := hdb.2 D q ht'
      rw [hcfg] at this
      exact server_drop_timeout_drops target fuel s D q ht' (by omega) hq
  · have := h2 hsrv; omega

end Abverif.Ws

namespace Abverif.Ws

/-- the hypotheses are met by a real history (server, default timeouts of 1 s = 2^20 units): we send a close frame, the
peer stays silent, the clock moves 2 s ahead — CLOSING before, every due timer run, CLOSED after -/
example : (run (start {}) [.close (some 1000) none]).st = .closing ∧
    (run (start {}) [.close (some 1000) none]).now + max ({} : Cfg).closeHsTimeout ({} : Cfg).serverDropTimeout ≤ 2097152 ∧
    (∀ t ∈ (advanceTo 2097152 64 (run (start {}) [.close (some 1000) none])).timers, 2097152 < t.2.1) ∧
    (advanceTo 2097152 64 (run (start {}) [.close (some 1000) none])).st = .closed := by
  decide

end Abverif.Ws
