import Abverif.Proofs.Lemmas.WsPing
import Abverif.Proofs.WsRoundtrip
/-
# C17: automatic pings keep being sent for as long as the connection is open

`pings_keep_coming`: in every state reachable from a fresh connection (or from one still in its opening handshake) by
any history of reads, API calls, clock advances and loss: if the connection is OPEN and a ping interval is configured,
then the next automatic ping is scheduled and due no later than now + interval, or a ping is outstanding and its pong
deadline is due no later than now + timeout.  What happens at those deadlines is local: `sendAutoPing_rearms`,
`pong_rearms`, `fire_pingTimeout_drops` (C17.lean).  Before the repair cde7fa2e this was false with
autoPingTimeout = 0 (after one unanswered ping nothing was armed any more).
-/
namespace Abverif.Ws

def KeepP (a b : S) : Prop :=
  b.st = a.st ∧ b.now = a.now ∧ b.cfg = a.cfg ∧ b.tPingNext = a.tPingNext ∧ b.tPingTimeout = a.tPingTimeout

theorem KeepP.refl (a : S) : KeepP a a := ⟨rfl, rfl, rfl, rfl, rfl⟩
theorem KeepP.trans {a b c : S} (h1 : KeepP a b) (h2 : KeepP b c) : KeepP a c :=
  ⟨h2.1.trans h1.1, h2.2.1.trans h1.2.1, h2.2.2.1.trans h1.2.2.1, h2.2.2.2.1.trans h1.2.2.2.1,
    h2.2.2.2.2.trans h1.2.2.2.2⟩
theorem KeepP.of_SendEq {a b : S} (h : SendEq a b) : KeepP a b := ⟨h.st, h.now, h.cfg, h.tPingNext, h.tPingTimeout⟩
theorem KeepP.PP {a b : S} (h : KeepP a b) : PP a b := PP.of_same h.1 h.2.1 h.2.2.1 h.2.2.2.1 h.2.2.2.2

theorem sendPrepared_KeepP (s : S) (pl : Bytes) (b : Bool) : KeepP s (sendPrepared s pl b) := by
  unfold sendPrepared
  have hk : KeepP s (prepareKey s).1 := by unfold prepareKey; split <;> exact ⟨rfl, rfl, rfl, rfl, rfl⟩
  dsimp only
  split
  · exact hk.trans ⟨rfl, rfl, rfl, rfl, rfl⟩
  · split
    · exact hk.trans ⟨rfl, rfl, rfl, rfl, rfl⟩
    · exact (hk.trans (⟨rfl, rfl, rfl, rfl, rfl⟩ : KeepP (prepareKey s).1 (recordOp (prepareKey s).1 _))).trans
        (KeepP.of_SendEq (sendData_SendEq _ _ _ _))

theorem beginMessage_KeepP (s : S) (b : Bool) : KeepP s (beginMessage s b) := by
  unfold beginMessage
  split
  · exact KeepP.refl s
  · split <;> exact ⟨rfl, rfl, rfl, rfl, rfl⟩

theorem beginMessageFrameCore_KeepP (s s' : S) (n : Nat) (h : beginMessageFrameCore s n = some s') : KeepP s s' := by
  unfold beginMessageFrameCore at h
  split at h
  · cases h
  · split at h
    · cases h
    · dsimp only at h
      split at h
      · cases h
      · simp only [Option.some.injEq] at h
        subst h
        have hk : KeepP s (drawKey s).1 := by unfold drawKey; split <;> exact ⟨rfl, rfl, rfl, rfl, rfl⟩
        refine ⟨?_, ?_, ?_, ?_, ?_⟩
        · show (sendData _ _ false 0).st = s.st
          rw [(sendData_SendEq _ _ _ _).st]; exact hk.1
        · show (sendData _ _ false 0).now = s.now
          rw [(sendData_SendEq _ _ _ _).now]; exact hk.2.1
        · show (sendData _ _ false 0).cfg = s.cfg
          rw [(sendData_SendEq _ _ _ _).cfg]; exact hk.2.2.1
        · show (sendData _ _ false 0).tPingNext = s.tPingNext
          rw [(sendData_SendEq _ _ _ _).tPingNext]; exact hk.2.2.2.1
        · show (sendData _ _ false 0).tPingTimeout = s.tPingTimeout
          rw [(sendData_SendEq _ _ _ _).tPingTimeout]; exact hk.2.2.2.2

theorem beginMessageFrame_KeepP (s : S) (n : Nat) : KeepP s (beginMessageFrame s n) := by
  unfold beginMessageFrame
  split
  · exact KeepP.refl s
  · split
    · rename_i s' h; exact beginMessageFrameCore_KeepP s s' n h
    · exact ⟨rfl, rfl, rfl, rfl, rfl⟩

theorem leaveFrameIfDone_KeepP (s : S) : KeepP s (leaveFrameIfDone s) := by
  unfold leaveFrameIfDone; split <;> exact ⟨rfl, rfl, rfl, rfl, rfl⟩

theorem sendMessageFrameData_KeepP (s : S) (pl : Bytes) (sync : Bool) : KeepP s (sendMessageFrameData s pl sync) := by
  unfold sendMessageFrameData
  split
  · exact KeepP.refl s
  · split
    · exact ⟨rfl, rfl, rfl, rfl, rfl⟩
    · split
      · exact ⟨rfl, rfl, rfl, rfl, rfl⟩
      · dsimp only
        refine KeepP.trans ?_ (leaveFrameIfDone_KeepP _)
        exact KeepP.trans (b := advanceFramePtr s _) ⟨rfl, rfl, rfl, rfl, rfl⟩ (KeepP.of_SendEq (sendData_SendEq _ _ _ _))

theorem endMessage_KeepP (s : S) : KeepP s (endMessage s) := by
  unfold endMessage
  split
  · exact KeepP.refl s
  · split
    · exact ⟨rfl, rfl, rfl, rfl, rfl⟩
    · have h := KeepP.of_SendEq (sendFrame_SendEq s 0 [] true 0 false 0)
      exact h

theorem sendMessageFrame_KeepP (s : S) (pl : Bytes) (sync : Bool) : KeepP s (sendMessageFrame s pl sync) := by
  unfold sendMessageFrame
  split
  · exact KeepP.refl s
  · split
    · exact ⟨rfl, rfl, rfl, rfl, rfl⟩
    · split
      · rename_i s' h
        exact (beginMessageFrameCore_KeepP s s' _ h).trans (sendMessageFrameData_KeepP s' pl sync)
      · exact ⟨rfl, rfl, rfl, rfl, rfl⟩

theorem stepCore_PP (s : S) (op : Op) : PP s (stepCore s op) := by
  cases op with
  | feed d => exact dataReceived_PP s d
  | lost => exact connectionLost_PP s
  | advance dt => exact advance_PP s dt
  | sendMessage pl b f sy => exact (KeepP.of_SendEq (sendMessage_SendEq s pl b f sy)).PP
  | sendPrepared pl b => exact (sendPrepared_KeepP s pl b).PP
  | beginMessage b => exact (beginMessage_KeepP s b).PP
  | beginFrame n => exact (beginMessageFrame_KeepP s n).PP
  | frameData pl sy => exact (sendMessageFrameData_KeepP s pl sy).PP
  | endMessage => exact (endMessage_KeepP s).PP
  | messageFrame pl sy => exact (sendMessageFrame_KeepP s pl sy).PP
  | ping pl => exact sendPing_PP s pl
  | pong pl => exact sendPong_PP s pl
  | close c r => exact sendClose_PP s c r
  | hsDone => exact handshakeDone_PP s
  | hsThenFeed d => exact (handshakeDone_PP s).trans (dataReceived_PP _ d)

theorem step_PP (s : S) (op : Op) : PP s (step s op) := (stepCore_PP s op).trans (pump_PP _)

theorem run_PK (ops : List Op) : ∀ s : S, PK s → PK (run s ops) := by
  induction ops with
  | nil => intro s h; exact h
  | cons op rest ih => intro s h; exact ih _ (step_PP s op h)

theorem start_PK (cfg : Cfg) : PK (start cfg) := by
  unfold start
  dsimp only
  split
  · exact armPingNext_PK _ (fun D q h => by cases h)
  · rename_i hc
    exact ⟨fun _ hi => absurd hi hc, fun D q h => (by cases h), fun D q h => (by cases h)⟩

theorem startConnecting_PK (cfg : Cfg) : PK (startConnecting cfg) := by
  unfold startConnecting
  dsimp only
  split
  · exact ⟨fun h => by simp [S.timer] at h, fun D q h => (by simp [S.timer] at h), fun D q h => (by simp [S.timer] at h)⟩
  · exact ⟨fun h => by simp at h, fun D q h => (by cases h), fun D q h => (by cases h)⟩

/-- **C17: pings keep coming** — every configuration, every history -/
theorem pings_keep_coming (cfg : Cfg) (ops : List Op) : PK (run (start cfg) ops) := run_PK ops _ (start_PK cfg)

theorem pings_keep_coming_connecting (cfg : Cfg) (ops : List Op) : PK (run (startConnecting cfg) ops) :=
  run_PK ops _ (startConnecting_PK cfg)

/-- the same, spelled out -/
theorem open_connection_has_ping_or_pong_deadline (cfg : Cfg) (ops : List Op)
    (ho : (run (start cfg) ops).st = .opened) (hi : (run (start cfg) ops).cfg.pingInterval > 0) :
    (∃ D q, (run (start cfg) ops).tPingNext = some (D, q) ∧
        D ≤ (run (start cfg) ops).now + (run (start cfg) ops).cfg.pingInterval) ∨
    (∃ D q, (run (start cfg) ops).tPingTimeout = some (D, q) ∧
        D ≤ (run (start cfg) ops).now + (run (start cfg) ops).cfg.pingTimeout) := by
  have k := pings_keep_coming cfg ops
  generalize run (start cfg) ops = s at *
  rcases k.1 ho hi with h | h
  · cases hn : s.tPingNext with
    | none => rw [hn] at h; cases h
    | some t => obtain ⟨D, q⟩ := t; exact Or.inl ⟨D, q, rfl, k.2.1 D q hn⟩
  · cases hn : s.tPingTimeout with
    | none => rw [hn] at h; cases h
    | some t => obtain ⟨D, q⟩ := t; exact Or.inr ⟨D, q, rfl, k.2.2 D q hn⟩

end Abverif.Ws

namespace Abverif.Ws

/-- a history the theorem speaks about (and the scenario of the repaired defect cde7fa2e): ping interval 1 s, no pong
deadline configured, the peer never answers; three seconds later the connection is still OPEN, three pings have gone
out and the next one is scheduled -/
example : (run (start { pingInterval := 1048576, pingTimeout := 0 }) [.advance 3145728]).st = .opened ∧
    (run (start { pingInterval := 1048576, pingTimeout := 0 }) [.advance 3145728]).sentOps = [9, 9, 9] ∧
    (run (start { pingInterval := 1048576, pingTimeout := 0 }) [.advance 3145728]).tPingNext.isSome = true := by
  decide

end Abverif.Ws
