import Abverif.Proofs.C09
import Abverif.Model.Ws
/-
# The UTF-8 automaton of the WebSocket engine model is the RFC 3629 grammar (bridge C02/C05 ↔ C09)

The engine model and the frame-by-frame judge share the hand-written nine-state automaton `Ws.U8` (`utf8Valid`);
`delivered_text_valid` and `encodeTruncate_valid` speak about it.  C09 proves that the automaton `rfcStep` accepts
exactly the RFC 3629 ABNF (`dfa_accepts_iff_WF`) and that the tables of the real validators equal it.  Here the two
automata are shown to be the same machine (state by state, for all 256 octets), so `Ws.utf8Valid bs ↔ Utf8.WF bs`.
-/
namespace Abverif.Ws

/-- state correspondence -/
def U8.enc : U8 → Nat
  | .s0 => 0 | .rej => 1 | .c1 => 2 | .c2 => 3 | .e0 => 4 | .ed => 5 | .f0 => 6 | .c3 => 7 | .f4 => 8

def allU8 : List U8 := [.s0, .c1, .e0, .c2, .ed, .f0, .c3, .f4, .rej]

theorem step_table : allU8.all (fun st => (List.range 256).all (fun n =>
    (st.step (UInt8.ofNat n)).enc == Abverif.Utf8.rfcStep st.enc n)) = true := by
  decide +kernel

theorem step_enc (st : U8) (b : UInt8) : (st.step b).enc = Abverif.Utf8.rfcStep st.enc b.toNat := by
  have h := step_table
  rw [List.all_eq_true] at h
  have hst : st ∈ allU8 := by cases st <;> simp [allU8]
  have h2 := h st hst
  rw [List.all_eq_true] at h2
  have h3 := h2 b.toNat (List.mem_range.mpr (UInt8.toNat_lt b))
  simp only [beq_iff_eq] at h3
  rw [UInt8.ofNat_toNat] at h3
  exact h3

theorem run_enc (bs : Bytes) : ∀ st : U8, (u8run st bs).enc = Abverif.Utf8.run Abverif.Utf8.rfcStep st.enc bs := by
  induction bs with
  | nil => intro st; rfl
  | cons b bs ih =>
    intro st
    show (u8run (st.step b) bs).enc = _
    rw [ih, step_enc]
    rfl

theorem enc_eq_zero (st : U8) : st.enc = 0 ↔ st = .s0 := by cases st <;> simp [U8.enc]

/-- **the engine's validity notion is RFC 3629** -/
theorem utf8Valid_iff_WF (bs : Bytes) : utf8Valid bs = true ↔ Abverif.Utf8.WF bs := by
  rw [← Abverif.Utf8.dfa_accepts_iff_WF]
  have h := run_enc bs .s0
  have h0 : U8.s0.enc = 0 := rfl
  rw [h0] at h
  rw [← h]
  unfold utf8Valid
  simp only [decide_eq_true_eq]
  exact (enc_eq_zero _).symm

/-- so the text messages the engine delivers are RFC 3629 strings, and the close reason it sends stays one -/
example : utf8Valid [0xE2, 0x82, 0xAC] = true ∧ utf8Valid [0xC0, 0x80] = false := by decide

end Abverif.Ws
