import Abverif.Proofs.Lemmas.SessInvWalk
/-
C04 — each WAMP request completes exactly once with its own reply.

All statements are about `Model/Session.lean` (`step`, `run`), for every history `h : List SEv` (no length bound),
every scheduling mode (`Sched.sync` = Twisted, `Sched.deferred` = asyncio) and every behaviour of user code.
The reference notions (`route`, `nextId`) are those of `Model/SessSpec.lean`.
Helper lemmas: `Proofs/Lemmas/Sess*.lean`.
-/
namespace Abverif.Session
open Abverif.SessCodes Abverif.SessSpec

/-! ## constants read from the source (translate/sess.py): ids start at 1 and wrap after 2^53 -/

theorem id_constants : idInit = 0 ∧ idReset = 1 ∧ idMax = 2 ^ 53 ∧ idMax = idBound := by decide

theorem idOf_eq (k : Nat) : idOf k = k % 2 ^ 53 + 1 := by
  unfold idOf; rw [id_constants.2.2.1]

/-! ## ids_sequential -/

/-- `ids_sequential` (per session *object*): the k-th request message (k = 1, 2, …) a session object hands to its
transport — whatever API produced it, at top level or from inside an event handler — carries id
`((k − 1) mod 2^53) + 1`. -/
theorem ids_sequential (mode : Sched) (h : List SEv) :
    reqIds (runOuts (init mode) h) =
      (List.range (reqIds (runOuts (init mode) h)).length).map (fun k => k % 2 ^ 53 + 1) := by
  have r := (run_idrel (init_idinv mode) h).2.2
  have e : (init mode).issued = 0 := rfl
  rw [e, Nat.sub_zero] at r
  have hl : (reqIds (runOuts (init mode) h)).length = (runState (init mode) h).issued := by
    rw [r]; simp [idsFrom]
  rw [hl, r]
  simp only [idsFrom, List.range_eq_range']
  apply List.map_congr_left
  intro k _; exact idOf_eq k

/-- every request id lies in `1 .. 2^53` -/
theorem ids_in_range (mode : Sched) (h : List SEv) : ∀ id ∈ reqIds (runOuts (init mode) h), 1 ≤ id ∧ id ≤ 2 ^ 53 := by
  intro id hid
  rw [ids_sequential] at hid
  obtain ⟨k, _, rfl⟩ := List.mem_map.mp hid
  have : k % 2 ^ 53 < 2 ^ 53 := Nat.mod_lt _ (by decide)
  omega

/-- the number of ids drawn so far is the number of request messages sent so far -/
theorem issued_eq_requests (mode : Sched) (h : List SEv) :
    (runState (init mode) h).issued = (reqIds (runOuts (init mode) h)).length := by
  have r := (run_idrel (init_idinv mode) h).2.2
  have e : (init mode).issued = 0 := rfl
  rw [e, Nat.sub_zero] at r
  rw [r]; simp [idsFrom]

/-- `ids_sequential`, as the property words it ("sequential from 1 *within the session*"): the requests sent after a
WELCOME are numbered 1, 2, 3, … -/
def IdsSequentialPerSession : Prop :=
  ∀ (mode : Sched) (h1 : List SEv) (sid : Nat) (beh : List HAct) (h2 : List SEv),
    (∀ e ∈ h2, ∀ sid' beh', e ≠ .msg (.welcome sid') beh') →
    let s := runState (init mode) (h1 ++ [.msg (.welcome sid) beh])
    reqIds (runOuts s h2) = (List.range (reqIds (runOuts s h2)).length).map (fun k => k % 2 ^ 53 + 1)

/-- … which holds for the first session of an object (no request was sent before its WELCOME) — `_partial` — -/
theorem ids_sequential_per_session_partial (mode : Sched) (h1 : List SEv) (sid : Nat) (beh : List HAct) (h2 : List SEv)
    (hfirst : reqIds (runOuts (init mode) (h1 ++ [.msg (.welcome sid) beh])) = []) :
    let s := runState (init mode) (h1 ++ [.msg (.welcome sid) beh])
    reqIds (runOuts s h2) = (List.range (reqIds (runOuts s h2)).length).map (fun k => k % 2 ^ 53 + 1) := by
  intro s
  have h0 : s.issued = 0 := by
    have := issued_eq_requests mode (h1 ++ [.msg (.welcome sid) beh])
    rw [hfirst] at this; exact this
  have hinv : IdInv s := (run_idrel (init_idinv mode) _).1
  have r := (run_idrel hinv h2).2.2
  rw [h0, Nat.sub_zero] at r
  have hl : (reqIds (runOuts s h2)).length = (runState s h2).issued := by rw [r]; simp [idsFrom]
  rw [hl, r]
  simp only [idsFrom, List.range_eq_range']
  apply List.map_congr_left
  intro k _; exact idOf_eq k

/-- … and fails for a second join on the same object (U5): join, one call, GOODBYE, WELCOME again, one call — the
second session's first request carries id 2. -/
theorem ids_sequential_per_session_fails : ¬ IdsSequentialPerSession := by
  intro h
  have := h .sync [.open_ [], .msg (.welcome 7) [], .api (.call 1 [] [] none .ok), .msg .goodbye []] 8 []
    [.api (.call 1 [] [] none .ok)] (by intro e he; simp at he; subst he; intro _ _ hne; cases hne)
  revert this
  decide


/-! ## ids_fresh -/

/-- `ids_fresh`: as long as a session object has sent at most 2^53 requests, the ids of its outstanding requests are
pairwise distinct — within each table and across the six tables. (After 2^53 requests the generator wraps and an id
that is still outstanding is reused; the bound is the property's own range.) -/
theorem ids_fresh (mode : Sched) (h : List SEv) (hn : (reqIds (runOuts (init mode) h)).length ≤ 2 ^ 53) :
    let s := runState (init mode) h
    (∀ k, (akeys (s.tbl k)).Nodup) ∧ ∀ k1 k2 id, id ∈ akeys (s.tbl k1) → id ∈ akeys (s.tbl k2) → k1 = k2 := by
  have hi := (run_inv (init_inv mode) h).post
  have := hi.2.keys (by rw [issued_eq_requests, id_constants.2.2.1]; exact hn)
  exact this.2

/-- and they are exactly ids that were handed out: `1 ≤ id ≤ number of requests sent` -/
theorem ids_pending_were_issued (mode : Sched) (h : List SEv) (hn : (reqIds (runOuts (init mode) h)).length ≤ 2 ^ 53) :
    ∀ k, ∀ id ∈ akeys ((runState (init mode) h).tbl k), 1 ≤ id ∧ id ≤ (reqIds (runOuts (init mode) h)).length := by
  have hi := (run_inv (init_inv mode) h).post
  have := (hi.2.keys (by rw [issued_eq_requests, id_constants.2.2.1]; exact hn)).1
  intro k id hid
  rw [← issued_eq_requests]; exact this k id hid

example : (reqIds (runOuts (init .sync) [.open_ [], .msg (.welcome 1) [], .api (.call 1 [] [] none .ok),
    .api (.subscribe 1 2 none .ok), .api (.publish 1 [] [] (some { acknowledge := some true }) .ok)])) = [1, 2, 3] := by decide

/-! ## one_message_per_call -/

/-- `one_message_per_call`: on an attached transport each request API hands exactly one message to `send()` —
of the call's type, with the id just drawn, the given URI / args / kwargs and the options' `message_attr()` —
whether or not `send()` then raises. -/
theorem one_message_per_call (s : Sess) (ht : s.transport = true) :
    (∀ u a k o r, sends (apiStep s (.call u a k o r)).2 =
      [{ typ := .call, req := s.drawId.2, opts := optAttrs CallOpts.attrs o, uri := u, args := a, kwargs := k }]) ∧
    (∀ u a k o r, sends (apiStep s (.publish u a k o r)).2 =
      [{ typ := .publish, req := s.drawId.2, opts := optAttrs PubOpts.attrs o, uri := u, args := a, kwargs := k }]) ∧
    (∀ h t o r, sends (apiStep s (.subscribe h t o r)).2 =
      [{ typ := .subscribe, req := s.drawId.2, opts := optAttrs SubOpts.attrs o, uri := t }]) ∧
    (∀ h p o r, sends (apiStep s (.register h p o r)).2 =
      [{ typ := .register, req := s.drawId.2, opts := optAttrs RegOpts.attrs o, uri := p }]) ∧
    (∀ obj rid r, findReg obj s.regs = some rid → sends (apiStep s (.unregister obj r)).2 =
      [{ typ := .unregister, req := s.drawId.2, uri := rid }]) := by
  refine ⟨?_, ?_, ?_, ?_, ?_⟩
  · intro u a k o r; cases r <;> simp [apiStep, apiCall, ht, request, sendReq, sends]
  · intro u a k o r
    by_cases hack : (o.bind fun x => x.acknowledge).getD false = true <;>
      cases r <;> simp [apiStep, apiPublish, ht, hack, request, sendReq, sends]
  · intro h t o r; cases r <;> simp [apiStep, apiSubscribe, ht, request, sendReq, sends]
  · intro h p o r; cases r <;> simp [apiStep, apiRegister, ht, request, sendReq, sends]
  · intro obj rid r hf; cases r <;> simp [apiStep, apiUnregister, ht, hf, request, sendReq, sends]

/-- without a transport nothing is sent and no id is consumed: the call raises `TransportLost` -/
theorem no_transport_no_message (s : Sess) (ht : s.transport = false) (a : Api)
    (ha : ∀ f, a ≠ .cancel f) (hj : a ≠ .join) (hl : a ≠ .leave) (hd : a ≠ .disconnect) (hu : ∀ o r, a = .unsubscribe o r → findSub o s.subs ≠ none)
    (hg : ∀ o r, a = .unregister o r → findReg o s.regs ≠ none) :
    apiStep s a = (s, [.raise_ .transportLost]) := by
  cases a with
  | call u a k o r => simp [apiStep, apiCall, ht]
  | publish u a k o r => simp [apiStep, apiPublish, ht]
  | subscribe h t o r => simp [apiStep, apiSubscribe, ht]
  | register h t o r => simp [apiStep, apiRegister, ht]
  | unsubscribe o r =>
    have := hu o r rfl
    cases hf : findSub o s.subs with
    | none => exact absurd hf this
    | some sid => simp [apiStep, apiUnsubscribe, hf, ht]
  | unregister o r =>
    have := hg o r rfl
    cases hf : findReg o s.regs with
    | none => exact absurd hf this
    | some rid => simp [apiStep, apiUnregister, hf, ht]
  | cancel f => exact absurd rfl (ha f)
  | join => exact absurd rfl hj
  | leave => exact absurd rfl hl
  | disconnect => exact absurd rfl hd

/-! the option → wire attribute tables, field by field (`types.py` `message_attr()` through `marshal()`) -/

example : CallOpts.attrs { onProgress := some 7, timeout := some 5, details := true } =
    [(.timeout, .n 5), (.receiveProgress, .b true)] := rfl
example : CallOpts.attrs { transactionHash := some 1, caller := some 2, callerAuthid := some 3, callerAuthrole := some 4, forwardFor := some 5 } =
    [(.transactionHash, .n 1), (.forwardFor, .n 5), (.caller, .n 2), (.callerAuthid, .n 3), (.callerAuthrole, .n 4)] := rfl
example : PubOpts.attrs { acknowledge := some true, excludeMe := some false, exclude := some (.one 5), eligible := some (.many [1, 2]) } =
    [(.acknowledge, .b true), (.excludeMe, .b false), (.exclude, .l [5]), (.eligible, .l [1, 2])] := rfl
example : PubOpts.attrs { excludeAuthid := some (.one 1), excludeAuthrole := some (.many []), eligibleAuthid := some (.many [3]) } =
    [(.excludeAuthid, .l [1]), (.excludeAuthrole, .l []), (.eligibleAuthid, .l [3])] := rfl
example : PubOpts.attrs { eligibleAuthrole := some (.one 4), retain := some true, transactionHash := some 9, forwardFor := some 2 } =
    [(.eligibleAuthrole, .l [4]), (.retain, .b true), (.transactionHash, .n 9), (.forwardFor, .n 2)] := rfl
example : SubOpts.attrs { match_ := some 0, getRetained := some true, detailsArg := some 0 } = [(.getRetained, .b true)] := rfl
example : SubOpts.attrs { match_ := some 2, forwardFor := some 3 } = [(.match_, .n 2), (.forwardFor, .n 3)] := rfl
example : RegOpts.attrs { match_ := some 1, invoke := some 0, concurrency := some 2, forceReregister := some true } =
    [(.match_, .n 1), (.concurrency, .n 2), (.forceReregister, .b true)] := rfl
example : RegOpts.attrs { invoke := some 3, forwardFor := some 1, detailsArg := some 4 } = [(.invoke, .n 3), (.forwardFor, .n 1)] := rfl

/-! ## completes_at_most_once -/

/-- `completes_at_most_once`: after any history every Deferred/Future has been completed at most once
(`count` counts every `resolve` / `reject` / user cancel), and its cell is written iff that happened. -/
theorem completes_at_most_once (mode : Sched) (h : List SEv) :
    ∀ x ∈ (runState (init mode) h).futs, x.count ≤ 1 ∧ (x.cell.isSome = true ↔ x.count = 1) := by
  intro x hx
  have := (run_inv (init_inv mode) h).post.2.count x hx
  simp only [Fut.ok] at this
  by_cases hc : x.cell.isSome = true <;> simp [hc] at this ⊢ <;> omega

/-- … and no history makes `txaio.resolve/reject` hit a future that is already called (`AlreadyCalledError` /
`InvalidStateError`), at top level or inside user code; nor does the model reach a record without a future. -/
theorem never_completes_twice (mode : Sched) (h : List SEv) :
    ∀ o ∈ runOuts (init mode) h, o ≠ .raise_ .alreadyCalled ∧ o ≠ .caught .alreadyCalled ∧
      o ≠ .raise_ .internal ∧ o ≠ .caught .internal :=
  (run_inv (init_inv mode) h).2.2.1

/-- what a session object outputs while it opens and joins (Twisted scheduling, default hooks) -/
def started : List SOut :=
  [.fire .connect, .hook .onConnect 0, .send { typ := .hello }, .hook .onWelcome 0, .fire .join, .hook .onJoin 0, .fire .ready]

/-- non-vacuity: a duplicate RESULT and a RESULT after the user's cancel are histories of the theorem; the second
reply finds no record (ProtocolError), the reply after cancel is swallowed -/
example : runOuts (init .sync) [.open_ [], .msg (.welcome 1) [], .api (.call 1 [] [] none .ok),
      .msg (.result 1 { args := some [5] } false) [], .msg (.result 1 { args := some [5] } false) []] =
    started ++ [.send { typ := .call, req := 1, uri := 1 }, .ret 0,
     .complete 0 (.value (.single 5)), .callback 0 (.value (.single 5)), .raise_ .protocolError] := by decide
example : runOuts (init .sync) [.open_ [], .msg (.welcome 1) [], .api (.call 1 [] [] none .ok), .api (.cancel 0),
      .msg (.result 1 { args := some [5] } false) []] =
    started ++ [.send { typ := .call, req := 1, uri := 1 }, .ret 0,
     .send { typ := .cancel, req := 1 }, .complete 0 .cancelled, .callback 0 .cancelled] := by decide


/-! ## table_iff_pending — the refinement invariant between the six tables and the Spec's single `pending` map -/

theorem alookup_map_kind (id : Nat) (k : Kind) (t : Table) :
    alookup id (t.map (fun e => (e.1, (k, e.2)))) = (alookup id t).map (fun r => (k, r)) := by
  induction t with
  | nil => rfl
  | cons e t ih =>
    obtain ⟨k', v⟩ := e
    simp only [List.map_cons, alookup_cons]
    split <;> simp [ih]

theorem alookup_of_mem_nodup {id : Nat} {r : Req} {t : Table} (hn : (akeys t).Nodup) (hm : (id, r) ∈ t) :
    alookup id t = some r := by
  induction t with
  | nil => simp at hm
  | cons e t ih =>
    obtain ⟨k', v⟩ := e
    simp only [akeys, List.map_cons, List.nodup_cons] at hn
    simp only [alookup_cons]
    rcases List.mem_cons.mp hm with h | h
    · simp at h; obtain ⟨h1, h2⟩ := h; subst h1; subst h2; simp
    · split
      · next hk =>
        subst hk
        exact absurd (List.mem_map.mpr ⟨(k', r), h, rfl⟩) hn.1
      · exact ih hn.2 h

/-- `table_iff_pending`: in every reachable state (≤ 2^53 requests sent) the Spec's single map of pending requests
— `abs s` reads the six tables as one map `id ↦ (kind, request)` — routes `(kind, id)` to a request exactly when the
table of that kind holds it under that id: the six tables never disagree and never shadow one another. -/
theorem table_iff_pending (mode : Sched) (h : List SEv) (hn : (reqIds (runOuts (init mode) h)).length ≤ 2 ^ 53) :
    let s := runState (init mode) h
    ∀ k id r, (abs s).route k id = some r ↔ alookup id (s.tbl k) = some r := by
  intro s k id r
  obtain ⟨hnd, hdis⟩ := ids_fresh mode h hn
  have key : alookup id (absPending s) = some (k, r) ↔ alookup id (s.tbl k) = some r := by
    constructor
    · intro ha
      have hm := alookup_some_mem ha
      simp only [absPending, List.mem_flatMap, List.mem_map] at hm
      obtain ⟨k0, _, e, he, heq⟩ := hm
      simp only [Prod.mk.injEq] at heq
      obtain ⟨h1, h2, h3⟩ := heq
      subst h2
      have : (id, r) ∈ s.tbl k0 := by rw [← h1, ← h3]; exact he
      exact alookup_of_mem_nodup (hnd k0) this
    · intro ha
      have hnone : ∀ k', k' ≠ k → alookup id (s.tbl k') = none := by
        intro k' hk'
        rw [alookup_none_iff]
        intro hmem
        have hk : id ∈ akeys (s.tbl k) := List.mem_map.mpr ⟨(id, r), alookup_some_mem ha, rfl⟩
        exact hk' (hdis k' k id hmem hk)
      cases k <;>
        simp [absPending, Kind.all, alookup_append, alookup_map_kind, ha,
          hnone .publish, hnone .subscribe, hnone .unsubscribe, hnone .call, hnone .register, hnone .unregister]
  simp only [Spec.route, abs]
  constructor
  · intro hr
    cases hl : alookup id (absPending s) with
    | none => simp [hl] at hr
    | some v =>
      obtain ⟨k', r'⟩ := v
      simp only [hl] at hr
      split at hr
      · next e => subst e; simp at hr; subst hr; exact key.mp hl
      · simp at hr
  · intro ha
    rw [key.mpr ha]; simp

/-! ## reply_routing -/

/-- the request a reply message answers, and what it completes that request with -/
def replyOf (s : Sess) : InMsg → Option (Kind × ReqId × (Req → Outcome))
  | .published id pub => some (.publish, id, fun _ => .value (.publication pub))
  | .subscribed id sub => some (.subscribe, id, fun _ => .value (.subscription sub))
  | .unsubscribed id => some (.unsubscribe, id, fun _ => .value (.int 0))
  | .result id p false => some (.call, id, fun r => .value (resultValue r.details p))
  | .registered id reg => if (alookup reg s.regs).isNone then some (.register, id, fun _ => .value (.registration reg)) else none
  | .unregistered id _ => if id = 0 then none else some (.unregister, id, fun _ => .value .none_)
  | .error t id uri p => (kindOfCode t).map (fun k => (k, id, fun _ => .error uri (p.args.getD []) (p.kwargs.getD [])))
  | _ => none

theorem kindOfCode_code (k : Kind) : kindOfCode k.code = some k := by cases k <;> decide

theorem kindOfCode_some {t : Nat} {k : Kind} (h : kindOfCode t = some k) : k.code = t := by
  have := List.find?_some h
  simpa using this

theorem errorKind_eq {s : Sess} {t : Nat} {id : ReqId} {k : Kind} {r : Req} (hk : kindOfCode t = some k)
    (hr : alookup id (s.tbl k) = some r) : errorKind s t id = some k := by
  have hc := kindOfCode_some hk
  subst hc
  cases k <;> simp [errorKind, hr, Kind.code, tCall, tPublish, tSubscribe, tUnsubscribe, tRegister, tUnregister]

theorem completions_settle {s : Sess} {f : Nat} {x : Fut} (hx : s.futs[f]? = some x) (hc : x.cell.isSome = false) (o : Outcome) :
    completions (settle s f o).2 = [(f, o)] := by
  rw [settle_open hx hc]
  split
  · obtain ⟨_, _, _, _, f5, _⟩ := emitCb_fields { s with futs := s.futs.set f { x with cell := some o, count := x.count + 1 } } (.callback f o)
    rcases f5 with e | e <;> simp [completions, e]
  · simp [completions]

/-- `reply_routing`: in any state, a reply `(type, id)` whose kind's table holds a still-open request `r` under `id`
completes exactly the future of `r` — no other — with that reply's content (for ERROR: the exception built from it),
removes `r` from its table and leaves the other five tables alone. This holds whatever else is outstanding, so for
every interleaving with events, invocations and other replies. -/
theorem reply_routing (s : Sess) (sid : Nat) (hs : s.sessionId = some sid) (beh : List HAct) (m : InMsg)
    (k : Kind) (id : ReqId) (content : Req → Outcome) (hm : replyOf s m = some (k, id, content))
    (r : Req) (hr : alookup id (s.tbl k) = some r) (x : Fut) (hx : s.futs[r.fut]? = some x) (hopen : x.cell.isSome = false) :
    let res := step s (.msg m beh)
    completions res.2 = [(r.fut, content r)] ∧
    res.1.tbl k = adel id (s.tbl k) ∧ (∀ k', k' ≠ k → res.1.tbl k' = s.tbl k') := by
  have hcalled : ∀ s1 : Sess, s1.futs = s.futs → s1.called r.fut = false := by
    intro s1 e; rw [called_eq, e, hx]; exact hopen
  simp only [step, onMessage, hs]
  cases m with
  | published id' pub =>
    simp only [replyOf, Option.some.injEq, Prod.mk.injEq] at hm
    obtain ⟨rfl, rfl, rfl⟩ := hm
    simp only [onEstablished, popReply, hr, hcalled _ (setTbl_futs _ _ _), Bool.false_eq_true, ↓reduceIte]
    refine ⟨completions_settle (by simpa using hx) hopen _, by simp [settle_tbl], fun k' hk' => by simp [settle_tbl, setTbl_tbl_ne hk']⟩
  | subscribed id' sub =>
    simp only [replyOf, Option.some.injEq, Prod.mk.injEq] at hm
    obtain ⟨rfl, rfl, rfl⟩ := hm
    simp only [onEstablished, popReply, hr, hcalled _ (setTbl_futs _ _ _), Bool.false_eq_true, ↓reduceIte]
    refine ⟨completions_settle (by simpa using hx) hopen _, ?_, fun k' hk' => ?_⟩
    · rw [settle_tbl]; first | exact setTbl_tbl_self _ _ _ | (rw [tbl_subs_update]; exact setTbl_tbl_self _ _ _)
    · rw [settle_tbl]; first | exact setTbl_tbl_ne hk' _ _ | (rw [tbl_subs_update]; exact setTbl_tbl_ne hk' _ _)
  | unsubscribed id' =>
    simp only [replyOf, Option.some.injEq, Prod.mk.injEq] at hm
    obtain ⟨rfl, rfl, rfl⟩ := hm
    simp only [onEstablished, popReply, hr, hcalled _ (setTbl_futs _ _ _), Bool.false_eq_true, ↓reduceIte]
    refine ⟨completions_settle (by simpa using hx) hopen _, ?_, fun k' hk' => ?_⟩
    · rw [settle_tbl]; first | exact setTbl_tbl_self _ _ _ | (rw [tbl_subs_update]; exact setTbl_tbl_self _ _ _)
    · rw [settle_tbl]; first | exact setTbl_tbl_ne hk' _ _ | (rw [tbl_subs_update]; exact setTbl_tbl_ne hk' _ _)
  | result id' p progress =>
    cases progress with
    | true => simp [replyOf] at hm
    | false =>
      simp only [replyOf, Option.some.injEq, Prod.mk.injEq] at hm
      obtain ⟨rfl, rfl, rfl⟩ := hm
      have hr' : alookup id' s.tCall = some r := hr
      simp only [onEstablished, hr', hcalled _ (setTbl_futs _ _ _), Bool.false_eq_true, ↓reduceIte]
      refine ⟨completions_settle (by simpa using hx) hopen _, ?_, fun k' hk' => ?_⟩
      · rw [settle_tbl]; first | exact setTbl_tbl_self _ _ _ | (rw [tbl_regs_update]; exact setTbl_tbl_self _ _ _)
      · rw [settle_tbl]; first | exact setTbl_tbl_ne hk' _ _ | (rw [tbl_regs_update]; exact setTbl_tbl_ne hk' _ _)
  | registered id' reg =>
    simp only [replyOf] at hm
    split at hm
    · next hnone =>
      simp only [Option.some.injEq, Prod.mk.injEq] at hm
      obtain ⟨rfl, rfl, rfl⟩ := hm
      have hn : alookup reg (s.setTbl Kind.register (adel id' (s.tbl Kind.register))).regs = none := by
        simpa using hnone
      simp only [onEstablished, popReply, hr, hcalled _ (setTbl_futs _ _ _), hn, Bool.false_eq_true, ↓reduceIte]
      refine ⟨completions_settle (by simpa using hx) hopen _, ?_, fun k' hk' => ?_⟩
      · rw [settle_tbl]; first | exact setTbl_tbl_self _ _ _ | (rw [tbl_regs_update]; exact setTbl_tbl_self _ _ _)
      · rw [settle_tbl]; first | exact setTbl_tbl_ne hk' _ _ | (rw [tbl_regs_update]; exact setTbl_tbl_ne hk' _ _)
    · simp at hm
  | unregistered id' reg =>
    simp only [replyOf] at hm
    split at hm
    · simp at hm
    · next hne =>
      simp only [Option.some.injEq, Prod.mk.injEq] at hm
      obtain ⟨rfl, rfl, rfl⟩ := hm
      simp only [onEstablished, hne, if_false, popReply, hr, hcalled _ (setTbl_futs _ _ _), Bool.false_eq_true, ↓reduceIte]
      refine ⟨completions_settle (by simpa using hx) hopen _, ?_, fun k' hk' => ?_⟩
      · rw [settle_tbl]; first | exact setTbl_tbl_self _ _ _ | (rw [tbl_regs_update]; exact setTbl_tbl_self _ _ _)
      · rw [settle_tbl]; first | exact setTbl_tbl_ne hk' _ _ | (rw [tbl_regs_update]; exact setTbl_tbl_ne hk' _ _)
  | error t id' uri p =>
    simp only [replyOf, Option.map_eq_some_iff] at hm
    obtain ⟨k0, hk0, heq⟩ := hm
    simp only [Prod.mk.injEq] at heq
    obtain ⟨rfl, rfl, rfl⟩ := heq
    simp only [onEstablished, errorKind_eq hk0 hr, hr, hcalled _ (setTbl_futs _ _ _), Bool.false_eq_true, ↓reduceIte]
    refine ⟨completions_settle (by simpa using hx) hopen _, ?_, fun k' hk' => ?_⟩
    · rw [settle_tbl]; first | exact setTbl_tbl_self _ _ _ | (rw [tbl_subs_update]; exact setTbl_tbl_self _ _ _)
    · rw [settle_tbl]; first | exact setTbl_tbl_ne hk' _ _ | (rw [tbl_subs_update]; exact setTbl_tbl_ne hk' _ _)
  | welcome _ => simp [replyOf] at hm
  | goodbye => simp [replyOf] at hm
  | event _ _ _ => simp [replyOf] at hm
  | invocation _ _ _ _ => simp [replyOf] at hm
  | interrupt _ => simp [replyOf] at hm
  | abort => simp [replyOf] at hm
  | challenge => simp [replyOf] at hm
  | other => simp [replyOf] at hm


/-- non-vacuity of `reply_routing`: three requests of different kinds outstanding, answered out of order -/
example : completions (runOuts (init .deferred) [.open_ [], .pump, .msg (.welcome 1) [], .pump, .api (.call 1 [] [] none .ok),
      .api (.subscribe 5 2 none .ok), .api (.publish 3 [] [] (some { acknowledge := some true }) .ok),
      .msg (.published 3 9) [], .msg (.error 48 1 4 { args := some [7] }) [], .msg (.subscribed 2 50) []]) =
    [(2, .value (.publication 9)), (0, .error 4 [7] []), (1, .value (.subscription 50))] := by decide

/-! ## unknown_reply_is_violation -/

/-- the `(kind, id)` a message claims to answer (progressive results included; ERROR by its `request_type`) -/
def claims : InMsg → Option (Option Kind × ReqId)
  | .published id _ => some (some .publish, id)
  | .subscribed id _ => some (some .subscribe, id)
  | .unsubscribed id => some (some .unsubscribe, id)
  | .result id _ _ => some (some .call, id)
  | .registered id _ => some (some .register, id)
  | .unregistered id _ => if id = 0 then none else some (some .unregister, id)
  | .error t id _ _ => some (kindOfCode t, id)
  | _ => none

theorem errorKind_none {s : Sess} {t : Nat} {id : ReqId}
    (h : ∀ k, kindOfCode t = some k → alookup id (s.tbl k) = none) : errorKind s t id = none := by
  simp only [errorKind, List.find?_eq_none]
  intro k _ hk
  simp only [Bool.and_eq_true, beq_iff_eq] at hk
  have := h k (hk.1 ▸ kindOfCode_code k)
  rw [this] at hk; simp at hk

/-- `unknown_reply_is_violation`: a reply whose `(kind, id)` is in no table — unknown id, id of a request of another
kind, duplicate of an already answered reply, ERROR whose `request_type` is not the kind recorded under the id or is
no request type at all — raises `ProtocolError` out of `onMessage` and changes *nothing*: no future, no table, no
handler list. -/
theorem unknown_reply_is_violation (s : Sess) (sid : Nat) (hs : s.sessionId = some sid) (beh : List HAct) (m : InMsg)
    (k : Option Kind) (id : ReqId) (hm : claims m = some (k, id))
    (hnone : ∀ k', k = some k' → alookup id (s.tbl k') = none) :
    step s (.msg m beh) = (s, [.raise_ .protocolError]) := by
  simp only [step, onMessage, hs]
  cases m with
  | published id' pub =>
    simp only [claims, Option.some.injEq, Prod.mk.injEq] at hm; obtain ⟨rfl, rfl⟩ := hm
    simp [onEstablished, popReply, hnone _ rfl]
  | subscribed id' sub =>
    simp only [claims, Option.some.injEq, Prod.mk.injEq] at hm; obtain ⟨rfl, rfl⟩ := hm
    simp [onEstablished, popReply, hnone _ rfl]
  | unsubscribed id' =>
    simp only [claims, Option.some.injEq, Prod.mk.injEq] at hm; obtain ⟨rfl, rfl⟩ := hm
    simp [onEstablished, popReply, hnone _ rfl]
  | result id' p progress =>
    simp only [claims, Option.some.injEq, Prod.mk.injEq] at hm; obtain ⟨rfl, rfl⟩ := hm
    have : alookup id' s.tCall = none := hnone _ rfl
    simp [onEstablished, this]
  | registered id' reg =>
    simp only [claims, Option.some.injEq, Prod.mk.injEq] at hm; obtain ⟨rfl, rfl⟩ := hm
    simp [onEstablished, popReply, hnone _ rfl]
  | unregistered id' reg =>
    simp only [claims] at hm
    split at hm
    · simp at hm
    · next hne =>
      simp only [Option.some.injEq, Prod.mk.injEq] at hm; obtain ⟨rfl, rfl⟩ := hm
      simp [onEstablished, hne, popReply, hnone _ rfl]
  | error t id' uri p =>
    simp only [claims, Option.some.injEq, Prod.mk.injEq] at hm; obtain ⟨rfl, rfl⟩ := hm
    simp [onEstablished, errorKind_none hnone]
  | welcome _ => simp [claims] at hm
  | goodbye => simp [claims] at hm
  | event _ _ _ => simp [claims] at hm
  | invocation _ _ _ _ => simp [claims] at hm
  | interrupt _ => simp [claims] at hm
  | abort => simp [claims] at hm
  | challenge => simp [claims] at hm
  | other => simp [claims] at hm

/-- messages that are never legal inside an established session are protocol violations as well -/
theorem unexpected_message_is_violation (s : Sess) (sid : Nat) (hs : s.sessionId = some sid) (beh : List HAct) :
    step s (.msg (.welcome 1) beh) = (s, [.raise_ .protocolError]) ∧ step s (.msg .other beh) = (s, [.raise_ .protocolError]) ∧
    step s (.msg .abort beh) = (s, [.raise_ .protocolError]) ∧ step s (.msg .challenge beh) = (s, [.raise_ .protocolError]) := by
  simp [step, onMessage, hs, onEstablished]

/-- non-vacuity: RESULT for an id that only a subscribe request holds; ERROR(SUBSCRIBE) for a call's id; duplicate -/
example : runOuts (init .sync) [.open_ [], .msg (.welcome 1) [], .api (.subscribe 5 2 none .ok), .api (.call 1 [] [] none .ok),
      .msg (.result 1 {} false) [], .msg (.error 32 2 4 {}) [], .msg (.error 99 2 4 {}) [], .msg (.published 7 1) []] =
    started ++ [.send { typ := .subscribe, req := 1, uri := 2 }, .ret 0, .send { typ := .call, req := 2, uri := 1 }, .ret 1,
     .raise_ .protocolError, .raise_ .protocolError, .raise_ .protocolError, .raise_ .protocolError] := by decide

/-! ## progress_only_own_handler -/

/-- what the Spec says a progressive RESULT does: it calls the `on_progress` of the call recorded under its id
(if that call has one) — `CallResult(*args, **kwargs)` when `details` was requested, `(*args, **kwargs)` otherwise,
absent args/kwargs read as empty — and nothing else -/
def progressCalls (r : Req) (p : Payload) : List SOut :=
  match r.onProgress with
  | none => []
  | some h => [.progress h (if r.details then .result (p.args.getD []) (p.kwargs.getD []) else .plain (p.args.getD []) (p.kwargs.getD []))]

/-- `progress_only_own_handler`, the statement: a progressive RESULT for a pending call makes exactly the progress
calls above (when the handler itself does nothing), completes nothing and leaves the state alone. -/
def ProgressOnlyOwnHandler : Prop :=
  ∀ (s : Sess) (sid : Nat) (id : ReqId) (p : Payload) (r : Req),
    s.sessionId = some sid → alookup id s.tCall = some r →
    step s (.msg (.result id p true) []) = (s, progressCalls r p)

/-- a progressive RESULT calls the `on_progress` of *its own* call only (the handler recorded under that id), with the
payload as the Spec says (absent args/kwargs read as empty — since the repair of F10 also when `details` was requested,
and a call made without an options object simply has no handler), then runs that handler's behaviour; it completes no
future and touches no table. -/
theorem progress_only_own_handler_beh (s : Sess) (sid : Nat) (hs : s.sessionId = some sid) (id : ReqId) (p : Payload)
    (r : Req) (hr : alookup id s.tCall = some r) (beh : List HAct) :
    step s (.msg (.result id p true) beh) =
      match r.onProgress with
      | none => (s, [])
      | some _ => ((runAct s none (beh.headD {})).1, progressCalls r p ++ (runAct s none (beh.headD {})).2) := by
  simp only [step, onMessage, hs, onEstablished, hr, progressCalls]
  cases hop : r.onProgress with
  | none => simp
  | some h => simp

/-- `progress_only_own_handler`, in full: a progressive RESULT whose handler does nothing leaves the whole state
unchanged — in particular it does not complete the call, which stays pending for its final RESULT — and makes exactly
the progress calls of the Spec. -/
theorem progress_only_own_handler : ProgressOnlyOwnHandler := by
  intro s sid id p r hs hr
  rw [progress_only_own_handler_beh s sid hs id p r hr []]
  cases h : r.onProgress <;> simp [progressCalls, runAct, runCalls, h]

theorem progress_does_not_complete (s : Sess) (sid : Nat) (hs : s.sessionId = some sid) (id : ReqId) (p : Payload)
    (r : Req) (hr : alookup id s.tCall = some r) :
    step s (.msg (.result id p true) []) = (s, progressCalls r p) :=
  progress_only_own_handler s sid id p r hs hr

/-- non-vacuity on the inputs that broke the code before the repair (ledger F10 and its no-options variant): the
handler is called with `CallResult(1)`; a call made without options ignores the progressive RESULT -/
example : (runOuts (runState (init .sync) [.open_ [], .msg (.welcome 1) [],
      .api (.call 1 [] [] (some { onProgress := some 7, details := true }) .ok)]) [.msg (.result 1 { args := some [1] } true) []]) =
    [.progress 7 (.result [1] [])] := by decide
example : (runOuts (runState (init .sync) [.open_ [], .msg (.welcome 1) [], .api (.call 1 [] [] none .ok)])
      [.msg (.result 1 {} true) []]) = [] := by decide

/-- non-vacuity: two calls with different progress handlers; each progressive RESULT reaches its own handler -/
example : runOuts (init .sync) [.open_ [], .msg (.welcome 1) [],
      .api (.call 1 [] [] (some { onProgress := some 7 }) .ok), .api (.call 2 [] [] (some { onProgress := some 8, details := true }) .ok),
      .msg (.result 2 { args := some [5], kwargs := some [] } true) [], .msg (.result 1 { args := some [6] } true) [{ raises := true }],
      .msg (.result 1 {} false) []] =
    started ++ [.send { typ := .call, req := 1, opts := [(.receiveProgress, .b true)], uri := 1 }, .ret 0,
     .send { typ := .call, req := 2, opts := [(.receiveProgress, .b true)], uri := 2 }, .ret 1,
     .progress 8 (.result [5] []), .progress 7 (.plain [6] []), .userError,
     .complete 0 (.value .none_), .callback 0 (.value .none_)] := by decide


/-! ## when `send()` raises -/

/-- `call` (and acknowledged `publish`) forget the request when `send()` raises: the call raises what `send()` raised,
returns no future, and the table is as before (minus anything stale under that id). `subscribe` (likewise `register`,
`_unsubscribe`, `_unregister`) raise as well but *keep* their record: an orphan whose future nobody holds; a later
reply with that id is still routed to it, and it is failed at session end. -/
theorem send_failure (s : Sess) (ht : s.transport = true) :
    (∀ u a k o, (apiStep s (.call u a k o .raises)).1.tbl .call = adel s.drawId.2 (s.tbl .call) ∧
      (apiStep s (.call u a k o .raises)).2 =
        [.send { typ := .call, req := s.drawId.2, opts := optAttrs CallOpts.attrs o, uri := u, args := a, kwargs := k },
         .raise_ .sendFailed]) ∧
    (∀ h t o, alookup s.drawId.2 ((apiStep s (.subscribe h t o .raises)).1.tbl .subscribe) =
        some { fut := s.futs.length, uri := t, handler := h, detailsArg := o.bind (·.detailsArg) } ∧
      (apiStep s (.subscribe h t o .raises)).2 =
        [.send { typ := .subscribe, req := s.drawId.2, opts := optAttrs SubOpts.attrs o, uri := t }, .raise_ .sendFailed]) := by
  have hnt : (!s.transport) = false := by simp [ht]
  constructor
  · intro u a k o
    simp only [apiStep, apiCall, hnt, Bool.false_eq_true, ↓reduceIte, request, sendReq_fail_forget]
    refine ⟨?_, by simp⟩
    simp only [setTbl_tbl_self, unwatch_tbl, newFut_tbl, drawId_tbl, newFut_snd, drawId_futs]
    exact adel_aset_self _ _ _
  · intro h t o
    simp only [apiStep, apiSubscribe, hnt, Bool.false_eq_true, ↓reduceIte, request, sendReq_fail_keep]
    refine ⟨?_, by simp⟩
    simp only [unwatch_tbl, setTbl_tbl_self, newFut_tbl, drawId_tbl, newFut_snd, drawId_futs]
    exact alookup_aset_self _ _ _

end Abverif.Session
