import Abverif.Model.SessSpec
namespace Abverif.Session
theorem placeholder_c04 : True := trivial
end Abverif.Session
