import Abverif.Model.Utf8
/-
C09 — the shipped tables are the RFC automaton: all 9 × 256 cells of the Python tuple, of the C table and of the
C macro, each REGENERATED from /repo on every run, against the hand-written `rfcStep`. Kernel-evaluated
(`decide +kernel` on a Bool-valued sweep; no axioms beyond propext/Quot.sound).
-/
namespace Abverif.Utf8

/-- the 9 × 256 sweep -/
def agree (f g : Nat → Nat → Nat) : Bool :=
  (List.range 9).all fun s => (List.range 256).all fun o => f s o == g s o

theorem agree_spec (f g : Nat → Nat → Nat) (h : agree f g = true) :
    ∀ s, s < 9 → ∀ o, o < 256 → f s o = g s o := by
  intro s hs o ho
  simp only [agree, List.all_eq_true, List.mem_range, beq_iff_eq] at h
  exact h s hs o ho

/-- `UTF8VALIDATOR_DFA` of utf8validator.py, indexed as `validate` indexes it -/
theorem tablePy_eq_rfc : ∀ s, s < 9 → ∀ o, o < 256 → pyStep s o = rfcStep s o :=
  agree_spec _ _ (by decide +kernel)

/-- `UTF8VALIDATOR_DFA[]` of _utf8validator.c, indexed as `_nvx_utf8vld_validate_table` indexes it -/
theorem tableC_eq_rfc : ∀ s, s < 9 → ∀ o, o < 256 → cTableStep s o = rfcStep s o :=
  agree_spec _ _ (by decide +kernel)

/-- the `DFA_TRANSITION` macro of _utf8validator.c -/
theorem unrolledC_eq_rfc : ∀ s, s < 9 → ∀ o, o < 256 → cUnrolledStep s o = rfcStep s o :=
  agree_spec _ _ (by decide +kernel)

/-- `UTF8_ACCEPT` / `UTF8_REJECT` in both sources, and the table sizes -/
theorem consts_eq_rfc : Gen.pyAccept = 0 ∧ Gen.pyReject = 1 ∧ Gen.cAccept = 0 ∧ Gen.cReject = 1 ∧
    Gen.tablePyLen = 400 ∧ Gen.tableCLen = 400 := by decide

/-- the C loops run their body also when entered in the reject state (`while (i < length)`, no `&& state != 1`):
the repair of finding F1 (/repo c2c187d5). Re-introducing the guard flips a generated constant and breaks `nvx_eq_py`. -/
theorem loops_run_in_reject : Gen.tableLoopGuardsReject = false ∧ Gen.unrolledLoopGuardsReject = false := by decide

end Abverif.Utf8
