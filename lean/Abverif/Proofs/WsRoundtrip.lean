import Abverif.Proofs.Lemmas.WsEncode
import Abverif.Proofs.WsRefinement
/-
# What `sendMessage` writes is judged as exactly the message sent (C01), and therefore delivered as such by any
receiving engine under any segmentation (with `recv_refines_judge`).
-/
namespace Abverif.Ws
open Abverif.WsSpec

/-- `judgeData` when nothing is objectionable -/
theorem judgeData_next (c : Ctx) (j : J) (len : Nat) (h : Hd) (pl after : Bytes)
    (hmsg : ¬ (0 < c.maxMsg ∧ c.maxMsg < (j.enter c h pl.length).total))
    (hfrm : ¬ (0 < c.maxFrame ∧ c.maxFrame < pl.length))
    (hu : uAfter (j.enter c h pl.length) pl ≠ .rej)
    (hend : h.fin = true → ¬ (((j.enter c h pl.length).after pl).validate = true ∧
      ((j.enter c h pl.length).after pl).compressed = false ∧ uAfter (j.enter c h pl.length) pl ≠ .s0)) :
    judgeData c j len h pl.length pl true after =
      .next (if h.fin then ((j.enter c h pl.length).after pl).deliver else (j.enter c h pl.length).after pl) after := by
  unfold judgeData
  have h1 : (decide (0 < c.maxMsg) && decide (c.maxMsg < (j.enter c h pl.length).total)) = false := by
    simpa using hmsg
  have h2 : (decide (0 < c.maxFrame) && decide (c.maxFrame < pl.length)) = false := by
    simpa using hfrm
  simp only [h1, h2, Bool.false_eq_true, if_false, Bool.not_true]
  have hu' : (if ((j.enter c h pl.length).validate && !(j.enter c h pl.length).compressed) = true
      then u8run (j.enter c h pl.length).utf8 pl else (j.enter c h pl.length).utf8) ≠ .rej := hu
  simp only [hu', if_false]
  cases hfin : h.fin with
  | false => simp only [Bool.false_eq_true, if_false]; rfl
  | true =>
    simp only [if_true]
    have hb := hend hfin
    have : (((j.enter c h pl.length).after pl).validate && !((j.enter c h pl.length).after pl).compressed
        && decide (uAfter (j.enter c h pl.length) pl ≠ .s0)) = false := by
      simp only [Bool.and_eq_false_iff, Bool.not_eq_false', decide_eq_false_iff_not]
      by_cases a : ((j.enter c h pl.length).after pl).validate = true
      · by_cases b : ((j.enter c h pl.length).after pl).compressed = false
        · right; intro hx; exact hb ⟨a, b, hx⟩
        · left; right; simpa using b
      · left; left; simpa using a
    have this' : ((j.enter c h pl.length).validate && !(j.enter c h pl.length).compressed &&
        decide ((if ((j.enter c h pl.length).validate && !(j.enter c h pl.length).compressed) = true
          then u8run (j.enter c h pl.length).utf8 pl else (j.enter c h pl.length).utf8) ≠ .s0)) = false := this
    simp only [this', Bool.false_eq_true, if_false]
    rfl

/-! ### runs of the judge over complete frames (fuel-free) -/

/-- the judge gets from `(j, buf)` to `(j', rest)` by judging complete, unobjectionable frames -/
inductive JRuns (c : Ctx) : J → Bytes → J → Bytes → Prop
  | refl (j : J) (buf : Bytes) : JRuns c j buf j buf
  | step {j : J} {buf : Bytes} {j1 : J} {r1 : Bytes} {j2 : J} {r2 : Bytes} :
      judgeStep c j buf = .next j1 r1 → r1.length + 2 ≤ buf.length → JRuns c j1 r1 j2 r2 → JRuns c j buf j2 r2

theorem JRuns.trans {c : Ctx} {j1 j2 j3 : J} {b1 b2 b3 : Bytes} (h1 : JRuns c j1 b1 j2 b2) (h2 : JRuns c j2 b2 j3 b3) :
    JRuns c j1 b1 j3 b3 := by
  induction h1 with
  | refl => exact h2
  | step hs hl _ ih => exact JRuns.step hs hl (ih h2)

theorem JRuns.judgeFrom {c : Ctx} {j j' : J} {buf rest : Bytes} (h : JRuns c j buf j' rest) :
    ∀ n, buf.length < 2 * n → ∃ m, rest.length < 2 * m ∧ judgeFrom c n j buf = judgeFrom c m j' rest := by
  induction h with
  | refl j buf => intro n hn; exact ⟨n, hn, rfl⟩
  | step hs hl _ ih =>
    intro n hn
    obtain ⟨n, rfl⟩ : ∃ n', n = n' + 1 := ⟨n - 1, by omega⟩
    obtain ⟨m, hm, e⟩ := ih n (by omega)
    refine ⟨m, hm, ?_⟩
    rw [WsSpec.judgeFrom, hs]
    exact e

/-- a stream of complete frames: the judge's verdict is `ok` with the accumulated events -/
theorem JRuns.judge {c : Ctx} {j' : J} {stream : Bytes} (h : JRuns c {} stream j' []) :
    judge c stream = (j'.evs, .ok, 0) := by
  obtain ⟨m, hm, e⟩ := h.judgeFrom (stream.length / 2 + 1) (by omega)
  unfold WsSpec.judge
  rw [e]
  obtain ⟨m, rfl⟩ : ∃ m', m = m' + 1 := ⟨m - 1, by simp at hm; omega⟩
  rw [WsSpec.judgeFrom]
  rfl

theorem encodeFrame_len2 (fin : Bool) (rsv opcode : Nat) (key : Option Abverif.Xor.Key) (am : Bool) (pl raw : Bytes)
    (h : encodeFrame fin rsv opcode key am pl = some raw) : 2 ≤ raw.length := by
  unfold encodeFrame at h
  split at h
  · cases h
  · split at h <;> (cases h; simp)

/-! ### the frames of one message -/

/-- the masking the receiving role demands (RFC 6455 §5.1, with autobahn's two options) -/
def maskOk (c : Ctx) (masked : Bool) : Bool :=
  if c.isServer then (masked || !c.requireMasked) else (!masked || c.acceptMasked)

theorem headerOk_data (c : Ctx) (inside fin : Bool) (op : Nat) (masked : Bool) (l7 : Nat)
    (hop : op = 0 ∨ op = 1 ∨ op = 2) (hin : (op = 0 ↔ inside = true)) (hm : maskOk c masked = true) :
    headerOk c inside fin 0 op masked l7 = true := by
  unfold headerOk okFlags
  unfold maskOk at hm
  have h4 : (decide (op = 0) = inside) := by
    cases inside with
    | true => simp [hin.mpr rfl]
    | false =>
      have : ¬ op = 0 := fun h => by have := hin.mp h; cases this
      simp [this]
  rcases hop with h | h | h <;> subst h <;> simp_all

/-- the judge's bookkeeping while a message of `acc` octets so far is open -/
structure InMsg (c : Ctx) (j : J) (binary : Bool) (acc : Bytes) (evs0 : List Ev) : Prop where
  hinside : j.inside = true
  hevs : j.evs = evs0
  hbinary : j.binary = binary
  hcompressed : j.compressed = false
  hvalidate : j.validate = (!binary && c.utf8validate)
  hacc : j.acc = acc
  htotal : j.total = acc.length
  hutf8 : j.utf8 = (if (!binary && c.utf8validate) then u8run .s0 acc else .s0)

/-- where the judge stands before a frame of a message: between messages, or inside one -/
def Pre (c : Ctx) (j : J) (binary : Bool) (acc : Bytes) (evs0 : List Ev) (first : Bool) : Prop :=
  if first then j.inside = false ∧ j.evs = evs0 ∧ acc = [] else InMsg c j binary acc evs0

/-- the judge's state after the frame -/
def Post (c : Ctx) (j : J) (binary : Bool) (acc : Bytes) (evs0 : List Ev) (fin : Bool) : Prop :=
  if fin then j.inside = false ∧ j.evs = evs0 ++ [.message acc binary false] else InMsg c j binary acc evs0

theorem enter_after (c : Ctx) (j : J) (h : Hd) (binary first : Bool) (acc p : Bytes) (evs0 : List Ev)
    (hpmce : c.pmce = false)
    (hpre : Pre c j binary acc evs0 first) (hrsv : h.rsv = 0)
    (hop : h.opcode = (if first then (if binary then 2 else 1) else 0)) :
    InMsg c ((j.enter c h p.length).after p) binary (acc ++ p) evs0 ∧
    (j.enter c h p.length).total = acc.length + p.length ∧
    uAfter (j.enter c h p.length) p = (if (!binary && c.utf8validate) then u8run .s0 (acc ++ p) else .s0) := by
  unfold Pre at hpre
  cases first with
  | true =>
    simp only [if_true] at hpre hop
    obtain ⟨hin, hev, hacc⟩ := hpre
    subst hacc
    cases binary <;>
      (simp only [J.enter, hin, J.after, uAfter, hop, hrsv, hpmce]
       refine ⟨⟨?_, ?_, ?_, ?_, ?_, ?_, ?_, ?_⟩, ?_, ?_⟩ <;> simp [hev] <;> (try split) <;> simp_all)
  | false =>
    simp only [Bool.false_eq_true, if_false] at hpre hop
    have hi := hpre.hinside
    simp only [J.enter, hi, J.after, uAfter]
    refine ⟨⟨?_, ?_, ?_, ?_, ?_, ?_, ?_, ?_⟩, ?_, ?_⟩ <;>
      simp [hpre.hevs, hpre.hbinary, hpre.hcompressed, hpre.hvalidate, hpre.hacc, hpre.htotal, hpre.hutf8, hi]
    all_goals (first | omega | (split <;> simp_all [u8run_append]) | skip)

/-- conditions on one frame of a message under the receiver's configuration -/
structure FrameOk (c : Ctx) (binary : Bool) (acc p : Bytes) (fin : Bool) : Prop where
  msgLimit : ¬ (0 < c.maxMsg ∧ c.maxMsg < acc.length + p.length)
  frameLimit : ¬ (0 < c.maxFrame ∧ c.maxFrame < p.length)
  utf8Prefix : (!binary && c.utf8validate) = true → u8run .s0 (acc ++ p) ≠ .rej
  utf8End : fin = true → (!binary && c.utf8validate) = true → u8run .s0 (acc ++ p) = .s0

/-- **one frame of a message**, as written by `encodeFrame`, moves the judge from `Pre` to `Post` -/
theorem frame_run (c : Ctx) (j : J) (binary first fin : Bool) (acc p raw : Bytes) (evs0 : List Ev)
    (key : Option Abverif.Xor.Key) (am : Bool)
    (hpmce : c.pmce = false) (ham : c.applyMask = am) (hmask : maskOk c key.isSome = true)
    (hpre : Pre c j binary acc evs0 first)
    (henc : encodeFrame fin 0 (if first then (if binary then 2 else 1) else 0) key am p = some raw)
    (hok : FrameOk c binary acc p fin) :
    ∃ jn, Post c jn binary (acc ++ p) evs0 fin ∧ ∀ after, judgeStep c j (raw ++ after) = .next jn after := by
  have hop3 : (if first then (if binary then 2 else 1) else 0) < 16 := by
    cases first <;> cases binary <;> simp
  obtain ⟨l7, el, hel, _⟩ := judgeStep_encodeFrame c j fin 0 _ key am p raw [] (by omega) hop3 henc ham
  have hin : ((if first then (if binary then 2 else 1) else 0) = 0 ↔ j.inside = true) := by
    unfold Pre at hpre
    cases first with
    | true => simp only [if_true] at hpre ⊢; rw [hpre.1]; cases binary <;> simp
    | false => simp only [Bool.false_eq_true, if_false] at hpre ⊢; rw [hpre.hinside]; simp
  have hhok := headerOk_data c j.inside fin (if first then (if binary then 2 else 1) else 0) key.isSome l7
    (by cases first <;> cases binary <;> simp) hin hmask
  have hnc : ¬ (if first then (if binary then 2 else 1) else 0) ≥ 8 := by
    cases first <;> cases binary <;> simp
  have ea := enter_after c j
    { fin := fin, rsv := 0, opcode := (if first then (if binary then 2 else 1) else 0), masked := key.isSome, len7 := l7 }
    binary first acc p evs0 hpmce hpre rfl rfl
  refine ⟨(if fin then ((j.enter c
      { fin := fin, rsv := 0, opcode := (if first then (if binary then 2 else 1) else 0), masked := key.isSome, len7 := l7 }
      p.length).after p).deliver else (j.enter c
      { fin := fin, rsv := 0, opcode := (if first then (if binary then 2 else 1) else 0), masked := key.isSome, len7 := l7 }
      p.length).after p), ?_, fun after => ?_⟩
  rotate_left
  · obtain ⟨l7', el', hel', hjs⟩ := judgeStep_encodeFrame c j fin 0 _ key am p raw after (by omega) hop3 henc ham
    have : l7' = l7 := by rw [hel] at hel'; cases hel'; rfl
    subst this
    rw [hjs]
    simp only [hhok, Bool.not_true, Bool.false_eq_true, if_false, hnc]
    rw [judgeData_next c j _ _ p after (by rw [ea.2.1]; exact hok.msgLimit) hok.frameLimit
      (by
        rw [ea.2.2]
        by_cases hv : (!binary && c.utf8validate) = true
        · simp only [hv, if_true]; exact hok.utf8Prefix hv
        · have hv' : (!binary && c.utf8validate) = false := by simpa using hv
          simp only [hv', Bool.false_eq_true, if_false]
          intro hx; cases hx)
      (by
        intro hf ⟨hval, _, hne⟩
        apply hne
        rw [ea.2.2]
        have hv : (!binary && c.utf8validate) = true := by rw [← ea.1.hvalidate]; exact hval
        simp only [hv, if_true]
        exact hok.utf8End hf hv)]
  · unfold Post
    cases fin with
    | false => simp only [Bool.false_eq_true, if_false]; exact ea.1
    | true =>
      simp only [if_true]
      refine ⟨rfl, ?_⟩
      simp only [J.deliver, ea.1.hevs, ea.1.hacc, ea.1.hbinary, ea.1.hcompressed]

/-! ### the sender -/

theorem sendFrame_wire (s : S) (op : Nat) (pl : Bytes) (fin : Bool) (rsv : Nat) (sync : Bool) (chop : Nat) (raw : Bytes)
    (hst : s.st ≠ .closed) (hl : ¬ (s.lost = true ∧ s.cfg.asyncio = true))
    (henc : encodeFrame fin rsv op (drawKey s).2 s.cfg.applyMask pl = some raw) :
    wire (sendFrame s op pl fin rsv sync chop) = wire s ++ raw := by
  have hk := drawKey_SendEq s
  unfold sendFrame
  simp only [hk.cfg, henc]
  rw [sendData_wire _ _ _ _ (by show (drawKey s).1.st ≠ .closed; rw [hk.st]; exact hst)
    (by show ¬ ((drawKey s).1.lost = true ∧ (drawKey s).1.cfg.asyncio = true); rw [hk.lost, hk.cfg]; exact hl)]
  have : wire (recordOp (drawKey s).1 op) = wire s := by
    unfold drawKey recordOp
    split <;> rfl
  rw [this]

/-- what the sender must be for its frames to be acceptable to a receiver with context `c` -/
structure SenderOk (c : Ctx) (s : S) : Prop where
  st : s.st = .opened
  conn : ¬ (s.lost = true ∧ s.cfg.asyncio = true)
  am : c.applyMask = s.cfg.applyMask
  mask : maskOk c s.masksFrames = true

theorem drawKey_isSome (s : S) : (drawKey s).2.isSome = s.masksFrames := by
  unfold drawKey; split <;> simp_all

theorem SenderOk.sendFrame {c : Ctx} {s : S} (h : SenderOk c s) (op : Nat) (pl : Bytes) (fin : Bool) (rsv : Nat)
    (sync : Bool) (chop : Nat) : SenderOk c (sendFrame s op pl fin rsv sync chop) := by
  have e := sendFrame_SendEq s op pl fin rsv sync chop
  refine ⟨by rw [e.st]; exact h.st, by rw [e.lost, e.cfg]; exact h.conn, by rw [e.cfg]; exact h.am, ?_⟩
  have : (Ws.sendFrame s op pl fin rsv sync chop).masksFrames = s.masksFrames := by
    unfold S.masksFrames; rw [e.cfg]
  rw [this]; exact h.mask

theorem u8_prefix_alive (a b : Bytes) (h : u8run .s0 (a ++ b) = .s0) : u8run .s0 a ≠ .rej := by
  intro hr
  rw [u8run_append, hr, u8run_rej] at h
  cases h

theorem encodeFrame_some (fin : Bool) (rsv op : Nat) (key : Option Abverif.Xor.Key) (am : Bool) (pl : Bytes)
    (h : pl.length < 2 ^ 63) : ∃ raw, encodeFrame fin rsv op key am pl = some raw := by
  unfold encodeFrame
  have : ∃ p, encodeLen pl.length = some p := by
    unfold encodeLen
    by_cases a : pl.length ≤ 125
    · exact ⟨(pl.length, []), by simp [a]⟩
    · by_cases b : pl.length ≤ 0xFFFF
      · exact ⟨(126, beBytes 2 pl.length), by simp [a, b]⟩
      · have d : pl.length ≤ 0x7FFFFFFFFFFFFFFF := by omega
        exact ⟨(127, beBytes 8 pl.length), by simp [a, b, d]⟩
  obtain ⟨p, hp⟩ := this
  rw [hp]
  cases key <;> exact ⟨_, rfl⟩

/-- **the frames of one message, as sent, are judged as that message** -/
theorem sendFrags_run (c : Ctx) (binary sync : Bool) (hpmce : c.pmce = false) (last : Bytes) :
    ∀ (init : List (Bytes × Bool)) (s : S) (j : J) (acc : Bytes) (evs0 : List Ev) (first : Bool),
      SenderOk c s → Pre c j binary acc evs0 first →
      (∀ x ∈ init, x.2 = false) →
      (∀ x ∈ init ++ [(last, true)], x.1.length < 2 ^ 63) →
      ¬ (0 < c.maxMsg ∧ c.maxMsg < (acc ++ ((init ++ [(last, true)]).map (·.1)).flatten).length) →
      (∀ x ∈ init ++ [(last, true)], ¬ (0 < c.maxFrame ∧ c.maxFrame < x.1.length)) →
      ((!binary && c.utf8validate) = true → u8run .s0 (acc ++ ((init ++ [(last, true)]).map (·.1)).flatten) = .s0) →
      ∃ W jn, wire (sendFrags s (if binary then 2 else 1) sync (init ++ [(last, true)]) first) = wire s ++ W ∧
        jn.inside = false ∧
        jn.evs = evs0 ++ [.message (acc ++ ((init ++ [(last, true)]).map (·.1)).flatten) binary false] ∧
        ∀ after, JRuns c j (W ++ after) jn after := by
  intro init
  induction init with
  | nil =>
    intro s j acc evs0 first hs hpre _ hlen hmsg hfrm hutf
    simp only [List.nil_append, List.map_cons, List.map_nil, List.flatten_cons, List.flatten_nil, List.append_nil] at *
    obtain ⟨raw, henc⟩ := encodeFrame_some true 0 (if first then (if binary then 2 else 1) else 0) (drawKey s).2
      s.cfg.applyMask last (hlen (last, true) (by simp))
    have hw := sendFrame_wire s _ last true 0 sync 0 raw (by rw [hs.st]; decide) hs.conn henc
    obtain ⟨jn, hpost, hstep⟩ := frame_run c j binary first true acc last raw evs0 (drawKey s).2 s.cfg.applyMask
      hpmce hs.am (by rw [drawKey_isSome]; exact hs.mask) hpre henc
      ⟨by simpa using hmsg, hfrm (last, true) (by simp), fun hv => by rw [hutf hv]; decide, fun _ hv => hutf hv⟩
    unfold Post at hpost
    simp only [if_true] at hpost
    refine ⟨raw, jn, ?_, hpost.1, hpost.2, fun after => JRuns.step (hstep after) ?_ (JRuns.refl _ _)⟩
    · unfold sendFrags sendFrags
      exact hw
    · have := encodeFrame_len2 _ _ _ _ _ _ _ henc
      simp only [List.length_append]; omega
  | cons x rest ih =>
    intro s j acc evs0 first hs hpre hfins hlen hmsg hfrm hutf
    obtain ⟨p, f⟩ := x
    have hf : f = false := hfins (p, f) (by simp)
    subst hf
    simp only [List.cons_append, List.map_cons, List.flatten_cons] at hmsg hutf ⊢
    obtain ⟨raw, henc⟩ := encodeFrame_some false 0 (if first then (if binary then 2 else 1) else 0) (drawKey s).2
      s.cfg.applyMask p (hlen (p, false) (by simp))
    have hw := sendFrame_wire s _ p false 0 sync 0 raw (by rw [hs.st]; decide) hs.conn henc
    have hmsg1 : ¬ (0 < c.maxMsg ∧ c.maxMsg < acc.length + p.length) := by
      intro hx; apply hmsg
      refine ⟨hx.1, ?_⟩
      simp only [List.length_append] at *
      omega
    obtain ⟨jn, hpost, hstep⟩ := frame_run c j binary first false acc p raw evs0 (drawKey s).2 s.cfg.applyMask
      hpmce hs.am (by rw [drawKey_isSome]; exact hs.mask) hpre henc
      ⟨hmsg1, hfrm (p, false) (by simp), fun hv => by
          have := hutf hv
          rw [← List.append_assoc] at this
          exact u8_prefix_alive _ _ this, fun hx => by cases hx⟩
    unfold Post at hpost
    simp only [Bool.false_eq_true, if_false] at hpost
    obtain ⟨W, jf, hwire, hin, hevs, hruns⟩ := ih (sendFrame s (if first then (if binary then 2 else 1) else 0) p false 0 sync)
      jn (acc ++ p) evs0 false (hs.sendFrame _ _ _ _ _ _) (by unfold Pre; simpa using hpost)
      (fun x hx => hfins x (by simp [hx]))
      (fun x hx => hlen x (by simp only [List.cons_append, List.mem_cons]; exact Or.inr hx))
      (by rw [List.append_assoc]; exact hmsg)
      (fun x hx => hfrm x (by simp only [List.cons_append, List.mem_cons]; exact Or.inr hx))
      (fun hv => by rw [List.append_assoc]; exact hutf hv)
    refine ⟨raw ++ W, jf, ?_, hin, by rw [hevs, List.append_assoc], fun after => ?_⟩
    · unfold sendFrags
      rw [hwire, hw, List.append_assoc]
    · rw [List.append_assoc]
      refine JRuns.step (hstep (W ++ after)) ?_ (hruns after)
      have := encodeFrame_len2 _ _ _ _ _ _ _ henc
      simp only [List.length_append]; omega

/-- the effective fragment size of `sendMessage` -/
def effFrag (s : S) (fs : Option Nat) : Option Nat :=
  match fs with
  | some f => some f
  | none => if s.cfg.autoFragment > 0 then some s.cfg.autoFragment else none

/-- what makes a message acceptable: to the sender's own limit, to the encoder, and to the receiver `c` -/
structure MsgOk (c : Ctx) (s : S) (pl : Bytes) (binary : Bool) (fs : Option Nat) : Prop where
  own : ¬ (0 < s.cfg.maxMsg ∧ s.cfg.maxMsg < pl.length)
  frag : fs ≠ some 0
  len : pl.length < 2 ^ 63
  msgLimit : ¬ (0 < c.maxMsg ∧ c.maxMsg < pl.length)
  frameLimit : ¬ (0 < c.maxFrame ∧ c.maxFrame < pl.length)
  utf8 : (!binary && c.utf8validate) = true → utf8Valid pl = true

theorem mem_fragments_len (pfs : Nat) : ∀ (fuel : Nat) (pl : Bytes), ∀ x ∈ fragments pfs fuel pl, x.1.length ≤ pl.length := by
  intro fuel
  induction fuel with
  | zero => intro pl x hx; simp [fragments] at hx; subst hx; exact Nat.le_refl _
  | succ n ih =>
    intro pl x hx
    unfold fragments at hx
    split at hx
    · simp at hx; subst hx; exact Nat.le_refl _
    · rcases List.mem_cons.mp hx with h | h
      · subst h; simp only [List.length_take]; omega
      · have := ih _ x h
        simp only [List.length_drop] at this
        omega

/-- **C01, sender side**: the octets `sendMessage` puts on the wire — one frame or any fragmentation, masked or
not — are judged by the receiving side's RFC 6455 judge as exactly the message sent -/
theorem sendMessage_judged (c : Ctx) (s : S) (j : J) (pl : Bytes) (binary : Bool) (fs : Option Nat) (sync : Bool)
    (hpmce : c.pmce = false) (hs : SenderOk c s) (hm : MsgOk c s pl binary fs) (hj : j.inside = false) :
    ∃ W jn, wire (sendMessage s pl binary fs sync) = wire s ++ W ∧ jn.inside = false ∧
      jn.evs = j.evs ++ [.message pl binary false] ∧ ∀ after, JRuns c j (W ++ after) jn after := by
  have hpre : Pre c j binary [] j.evs true := by unfold Pre; simp [hj]
  have hutf : (!binary && c.utf8validate) = true → u8run .s0 pl = .s0 := by
    intro hv
    have := hm.utf8 hv
    unfold utf8Valid at this
    simpa using this
  -- one frame
  have single : ∃ W jn, wire (sendFrame s (if binary then 2 else 1) pl true 0 sync) = wire s ++ W ∧ jn.inside = false ∧
      jn.evs = j.evs ++ [.message pl binary false] ∧ ∀ after, JRuns c j (W ++ after) jn after := by
    obtain ⟨W, jn, h1, h2, h3, h4⟩ := sendFrags_run c binary sync hpmce pl [] s j [] j.evs true hs hpre
      (by simp) (by simp; exact hm.len) (by simpa using hm.msgLimit)
      (by intro x hx; simp at hx; subst hx; exact hm.frameLimit) (by simpa using hutf)
    refine ⟨W, jn, ?_, h2, by simpa using h3, h4⟩
    have : sendFrags s (if binary then 2 else 1) sync ([] ++ [(pl, true)]) true
        = sendFrame s (if binary then 2 else 1) pl true 0 sync := by
      simp only [List.nil_append]
      unfold sendFrags sendFrags
      simp
    rw [← this]; exact h1
  unfold sendMessage
  have hst : ¬ s.st ≠ .opened := by rw [hs.st]; simp
  have hown : (decide (0 < s.cfg.maxMsg) && decide (s.cfg.maxMsg < pl.length)) = false := by
    simpa using hm.own
  simp only [hst, if_false, hown, Bool.false_eq_true]
  split
  · exact single
  · rename_i f hfs
    by_cases hle : pl.length ≤ f
    · simp only [hle, if_true]; exact single
    · simp only [hle, if_false]
      have hf1 : ¬ f < 1 := by
        intro hlt
        have hf0 : f = 0 := by omega
        subst hf0
        cases fs with
        | some g => simp at hfs; subst hfs; exact hm.frag rfl
        | none =>
          simp only at hfs
          split at hfs
          · rename_i hpos; simp at hfs; omega
          · cases hfs
      simp only [hf1, if_false]
      obtain ⟨init, last, efr, hall⟩ := fragments_fin f pl.length pl
      have hcat := fragments_concat f (by omega) pl.length pl (Nat.le_refl _)
      rw [efr] at hcat ⊢
      have hmem : ∀ x ∈ init ++ [(last, true)], x.1.length ≤ pl.length := by
        intro x hx
        rw [← efr] at hx
        exact mem_fragments_len f pl.length pl x hx
      obtain ⟨W, jn, h1, h2, h3, h4⟩ := sendFrags_run c binary sync hpmce last init s j [] j.evs true hs hpre
        (fun x hx => (hall x hx).1)
        (fun x hx => by have := hmem x hx; have := hm.len; omega)
        (by simp only [List.nil_append]; rw [hcat]; exact hm.msgLimit)
        (fun x hx => by have := hmem x hx; have := hm.frameLimit; omega)
        (by simp only [List.nil_append]; rw [hcat]; exact hutf)
      refine ⟨W, jn, h1, h2, ?_, h4⟩
      rw [h3]; simp only [List.nil_append]; rw [hcat]

/-! ### prepared messages (`factory.prepareMessage` + `sendPreparedMessage`) -/

theorem prepareKey_isSome (s : S) : (prepareKey s).2.isSome = !s.cfg.isServer := by
  unfold prepareKey; split <;> simp_all

/-- **C01, prepared messages**: the single frame built at prepare time (masked iff the factory is a client factory) is
judged as exactly the message -/
theorem sendPrepared_judged (c : Ctx) (s : S) (j : J) (pl : Bytes) (binary : Bool)
    (hpmce : c.pmce = false) (hst : s.st = .opened) (hconn : ¬ (s.lost = true ∧ s.cfg.asyncio = true))
    (ham : c.applyMask = true) (hmask : maskOk c (!s.cfg.isServer) = true)
    (hlen : pl.length < 2 ^ 63) (hmsg : ¬ (0 < c.maxMsg ∧ c.maxMsg < pl.length))
    (hfrm : ¬ (0 < c.maxFrame ∧ c.maxFrame < pl.length))
    (hutf : (!binary && c.utf8validate) = true → utf8Valid pl = true) (hj : j.inside = false) :
    ∃ W jn, wire (sendPrepared s pl binary) = wire s ++ W ∧ jn.inside = false ∧
      jn.evs = j.evs ++ [.message pl binary false] ∧ ∀ after, JRuns c j (W ++ after) jn after := by
  have hpre : Pre c j binary [] j.evs true := by unfold Pre; simp [hj]
  obtain ⟨raw, henc⟩ := encodeFrame_some true 0 (if binary then 2 else 1) (prepareKey s).2 true pl hlen
  have hu : (!binary && c.utf8validate) = true → u8run .s0 pl = .s0 := by
    intro hv; have := hutf hv; unfold utf8Valid at this; simpa using this
  obtain ⟨jn, hpost, hstep⟩ := frame_run c j binary true true [] pl raw j.evs (prepareKey s).2 true
    hpmce ham (by rw [prepareKey_isSome]; exact hmask) hpre (by simpa using henc)
    ⟨by simpa using hmsg, hfrm, fun hv => by simp only [List.nil_append]; rw [hu hv]; decide,
     fun _ hv => by simp only [List.nil_append]; exact hu hv⟩
  unfold Post at hpost
  simp only [if_true, List.nil_append] at hpost
  refine ⟨raw, jn, ?_, hpost.1, hpost.2, fun after => JRuns.step (hstep after) ?_ (JRuns.refl _ _)⟩
  · have hk : (prepareKey s).1.st = s.st ∧ (prepareKey s).1.lost = s.lost ∧ (prepareKey s).1.cfg = s.cfg ∧
        wire (recordOp (prepareKey s).1 (if binary then 2 else 1)) = wire s := by
      unfold prepareKey recordOp; split <;> exact ⟨rfl, rfl, rfl, rfl⟩
    unfold sendPrepared
    simp only [henc]
    have : ¬ (prepareKey s).1.st ≠ .opened := by rw [hk.1, hst]; simp
    simp only [this, if_false]
    rw [sendData_wire _ _ _ _ (by show (prepareKey s).1.st ≠ .closed; rw [hk.1, hst]; decide)
      (by show ¬ ((prepareKey s).1.lost = true ∧ (prepareKey s).1.cfg.asyncio = true); rw [hk.2.1, hk.2.2.1]; exact hconn),
      hk.2.2.2]
  · have := encodeFrame_len2 _ _ _ _ _ _ _ henc
    simp only [List.length_append]; omega

/-! ### the streaming API (`beginMessage`, `sendMessageFrame`*, `endMessage`) -/

/-- the send-side frame state is not touched by the queue machinery -/
theorem SendEq.frameFields {a b : S} (h : SendEq a b) :
    b.frameLen = a.frameLen ∧ b.frameKey = a.frameKey ∧ b.frameMasking = a.frameMasking ∧ b.framePtr = a.framePtr ∧
    b.sendSt = a.sendSt ∧ b.sendOpcode = a.sendOpcode ∧ b.begun = a.begun := by
  unfold SendEq at h
  refine ⟨?_, ?_, ?_, ?_, ?_, ?_, ?_⟩ <;> rw [h]

/-- the sender is inside a streamed message -/
structure StreamSt (c : Ctx) (s : S) (binary first : Bool) : Prop where
  ok : SenderOk c s
  begun : s.begun = true
  op : s.sendOpcode = (if binary then 2 else 1)
  st : s.sendSt = (if first then .messageBegin else .insideMessage)

theorem drawKey_fields (s : S) :
    (drawKey s).1.sendSt = s.sendSt ∧ (drawKey s).1.sendOpcode = s.sendOpcode ∧ (drawKey s).1.begun = s.begun ∧
    (drawKey s).1.cfg = s.cfg ∧ (drawKey s).1.st = s.st ∧ (drawKey s).1.lost = s.lost ∧ wire (drawKey s).1 = wire s := by
  unfold drawKey; split <;> exact ⟨rfl, rfl, rfl, rfl, rfl, rfl, rfl⟩

/-- header octets written by `beginMessageFrame` -/
def frameHeader (op : Nat) (key : Option Abverif.Xor.Key) (l7 : Nat) (el : Bytes) : Bytes :=
  [b0 false 0 op, b1 key.isSome l7] ++ el ++ (match key with | some k => Key.bytes k | none => [])

/-- one `sendMessageFrame(payload)` writes exactly the frame `encodeFrame` would build (FIN clear) -/
theorem sendMessageFrame_wire (c : Ctx) (s : S) (binary first sync : Bool) (pl : Bytes) (h : StreamSt c s binary first)
    (hlen : pl.length < 2 ^ 63) :
    ∃ raw, encodeFrame false 0 (if first then (if binary then 2 else 1) else 0) (drawKey s).2 s.cfg.applyMask pl = some raw ∧
      wire (sendMessageFrame s pl sync) = wire s ++ raw ∧ StreamSt c (sendMessageFrame s pl sync) binary false := by
  have hk := drawKey_fields s
  have hst : ¬ s.st ≠ .opened := by rw [h.ok.st]; simp
  have hopen : s.st ≠ .closed := by rw [h.ok.st]; decide
  -- the length encodes
  obtain ⟨l7, el, hel⟩ : ∃ l7 el, encodeLen pl.length = some (l7, el) := by
    unfold encodeLen
    by_cases a : pl.length ≤ 125
    · exact ⟨pl.length, [], by simp [a]⟩
    · by_cases b : pl.length ≤ 0xFFFF
      · exact ⟨126, beBytes 2 pl.length, by simp [a, b]⟩
      · have d : pl.length ≤ 0x7FFFFFFFFFFFFFFF := by omega
        exact ⟨127, beBytes 8 pl.length, by simp [a, b, d]⟩
  have hsst : (s.sendSt = .messageBegin ∨ s.sendSt = .insideMessage) := by
    rw [h.st]; cases first <;> simp
  have hop : (if (drawKey s).1.sendSt = .messageBegin then (drawKey s).1.sendOpcode else 0)
      = (if first then (if binary then 2 else 1) else 0) := by
    rw [hk.1, hk.2.1, h.st, h.op]; cases first <;> simp
  -- the state after the header went out
  generalize hhdr : frameHeader (if first then (if binary then 2 else 1) else 0) (drawKey s).2 l7 el = header
  have hcore : beginMessageFrameCore s pl.length
      = some (enterFrame (sendData (setFrameState (drawKey s).1 pl.length (drawKey s).2
          (if first then (if binary then 2 else 1) else 0)) header)) := by
    unfold beginMessageFrameCore
    have c1 : (!(decide (s.sendSt = .messageBegin) || decide (s.sendSt = .insideMessage))) = false := by
      rcases hsst with e | e <;> simp [e]
    have c2 : ¬ pl.length > 0x7FFFFFFFFFFFFFFF := by omega
    simp only [c1, Bool.false_eq_true, if_false, c2, hel, hop]
    rw [← hhdr]
    rfl
  generalize hs1 : setFrameState (drawKey s).1 pl.length (drawKey s).2 (if first then (if binary then 2 else 1) else 0) = s1 at hcore
  have hs1f : s1.st = s.st ∧ s1.lost = s.lost ∧ s1.cfg = s.cfg ∧ wire s1 = wire s ∧ s1.begun = s.begun ∧
      s1.sendOpcode = s.sendOpcode ∧ s1.frameLen = pl.length ∧ s1.frameKey = (drawKey s).2 ∧ s1.framePtr = 0 ∧
      s1.frameMasking = ((drawKey s).2.isSome && decide (pl.length > 0) && s.cfg.applyMask) := by
    rw [← hs1]
    exact ⟨hk.2.2.2.2.1, hk.2.2.2.2.2.1, hk.2.2.2.1, hk.2.2.2.2.2.2, hk.2.2.1, hk.2.1, rfl, rfl, rfl, by
      show ((drawKey s).2.isSome && decide (pl.length > 0) && (drawKey s).1.cfg.applyMask) = _; rw [hk.2.2.2.1]⟩
  have e1 := sendData_SendEq s1 header false 0
  have w1 := sendData_wire s1 header false 0 (by rw [hs1f.1]; exact hopen) (by rw [hs1f.2.1, hs1f.2.2.1]; exact h.ok.conn)
  generalize hs2 : sendData s1 header false 0 = s2 at hcore e1 w1
  have f2 := e1.frameFields
  -- the payload part
  have hs3 : sendMessageFrame s pl sync
      = leaveFrameIfDone (sendData (advanceFramePtr (enterFrame s2) pl.length) (maskFrameChunk (enterFrame s2) pl) sync) := by
    unfold sendMessageFrame
    simp only [hst, if_false, h.begun, Bool.not_true, Bool.false_eq_true, hcore]
    unfold sendMessageFrameData
    have a1 : ¬ (enterFrame s2).st ≠ .opened := by
      show ¬ s2.st ≠ .opened; rw [e1.st, hs1f.1, h.ok.st]; simp
    have a2 : (enterFrame s2).begun = true := by
      show s2.begun = true; rw [f2.2.2.2.2.2.2, hs1f.2.2.2.2.1]; exact h.begun
    have a3 : ¬ (enterFrame s2).sendSt ≠ .insideFrame := by simp [enterFrame]
    have a4 : ¬ ((enterFrame s2).framePtr + pl.length > (enterFrame s2).frameLen) := by
      show ¬ (s2.framePtr + pl.length > s2.frameLen)
      rw [f2.2.2.2.1, f2.1, hs1f.2.2.2.2.2.2.2.2.1, hs1f.2.2.2.2.2.2.1]; omega
    simp only [a1, if_false, a2, Bool.not_true, Bool.false_eq_true, a3, a4]
  have hmask : maskFrameChunk (enterFrame s2) pl
      = (match (drawKey s).2 with
         | some k => if decide (pl.length > 0) && s.cfg.applyMask then (Abverif.Xor.spec k 0 pl).1 else pl
         | none => pl) := by
    unfold maskFrameChunk
    show (if s2.frameMasking = true then (match s2.frameKey with | some k => (Abverif.Xor.spec k s2.framePtr pl).1 | none => pl) else pl) = _
    rw [f2.2.2.1, f2.2.1, f2.2.2.2.1, hs1f.2.2.2.2.2.2.2.2.2, hs1f.2.2.2.2.2.2.2.1, hs1f.2.2.2.2.2.2.2.2.1]
    cases hkk : (drawKey s).2 with
    | none => simp
    | some k => cases hq : (decide (pl.length > 0) && s.cfg.applyMask) <;> simp [hq]
  have hraw : encodeFrame false 0 (if first then (if binary then 2 else 1) else 0) (drawKey s).2 s.cfg.applyMask pl
      = some (header ++ maskFrameChunk (enterFrame s2) pl) := by
    unfold encodeFrame
    rw [hel, hmask, ← hhdr]
    unfold frameHeader
    cases hkk : (drawKey s).2 with
    | none => simp [List.append_assoc]
    | some k => simp [List.append_assoc]
  have e3 := sendData_SendEq (advanceFramePtr (enterFrame s2) pl.length) (maskFrameChunk (enterFrame s2) pl) sync 0
  have w3 := sendData_wire (advanceFramePtr (enterFrame s2) pl.length) (maskFrameChunk (enterFrame s2) pl) sync 0
    (by show s2.st ≠ .closed; rw [e1.st, hs1f.1]; exact hopen)
    (by show ¬ (s2.lost = true ∧ s2.cfg.asyncio = true); rw [e1.lost, e1.cfg, hs1f.2.1, hs1f.2.2.1]; exact h.ok.conn)
  have f3 := e3.frameFields
  generalize hs4 : sendData (advanceFramePtr (enterFrame s2) pl.length) (maskFrameChunk (enterFrame s2) pl) sync 0 = s4
    at hs3 e3 w3 f3
  refine ⟨_, hraw, ?_, ?_⟩
  · rw [hs3]
    have : wire (leaveFrameIfDone s4) = wire s4 := by unfold leaveFrameIfDone; split <;> rfl
    rw [this, w3]
    show wire s2 ++ _ = _
    rw [w1, hs1f.2.2.2.1, List.append_assoc]
  · rw [hs3]
    have hdone : s4.framePtr ≥ s4.frameLen := by
      rw [f3.2.2.2.1, f3.1]
      show s2.framePtr + pl.length ≥ s2.frameLen
      rw [f2.2.2.2.1, f2.1, hs1f.2.2.2.2.2.2.2.2.1, hs1f.2.2.2.2.2.2.1]; omega
    have hl : leaveFrameIfDone s4 = { s4 with sendSt := .insideMessage } := by
      unfold leaveFrameIfDone; simp [hdone]
    rw [hl]
    have hsok : SenderOk c s4 := by
      refine ⟨?_, ?_, ?_, ?_⟩
      · rw [e3.st]; show s2.st = .opened; rw [e1.st, hs1f.1]; exact h.ok.st
      · rw [e3.lost, e3.cfg]; show ¬ (s2.lost = true ∧ s2.cfg.asyncio = true)
        rw [e1.lost, e1.cfg, hs1f.2.1, hs1f.2.2.1]; exact h.ok.conn
      · rw [e3.cfg]; show c.applyMask = s2.cfg.applyMask; rw [e1.cfg, hs1f.2.2.1]; exact h.ok.am
      · have : s4.masksFrames = s.masksFrames := by
          unfold S.masksFrames; rw [e3.cfg]; show _ = _
          have : (advanceFramePtr (enterFrame s2) pl.length).cfg = s.cfg := by
            show s2.cfg = s.cfg; rw [e1.cfg, hs1f.2.2.1]
          rw [this]
        rw [this]; exact h.ok.mask
    refine ⟨⟨hsok.st, hsok.conn, hsok.am, ?_⟩, ?_, ?_, rfl⟩
    · have : ({ s4 with sendSt := .insideMessage } : S).masksFrames = s4.masksFrames := rfl
      rw [this]; exact hsok.mask
    · show s4.begun = true
      rw [f3.2.2.2.2.2.2]; show s2.begun = true
      rw [f2.2.2.2.2.2.2, hs1f.2.2.2.2.1]; exact h.begun
    · show s4.sendOpcode = _
      rw [f3.2.2.2.2.2.1]; show s2.sendOpcode = _
      rw [f2.2.2.2.2.2.1, hs1f.2.2.2.2.2.1]; exact h.op

/-- the frames of a streamed message, as sent, move the judge along -/
theorem stream_frames_run (c : Ctx) (binary sync : Bool) (hpmce : c.pmce = false) :
    ∀ (ps : List Bytes) (s : S) (j : J) (acc : Bytes) (evs0 : List Ev) (first : Bool),
      StreamSt c s binary first → Pre c j binary acc evs0 first →
      (∀ p ∈ ps, p.length < 2 ^ 63) →
      ¬ (0 < c.maxMsg ∧ c.maxMsg < (acc ++ ps.flatten).length) →
      (∀ p ∈ ps, ¬ (0 < c.maxFrame ∧ c.maxFrame < p.length)) →
      ((!binary && c.utf8validate) = true → u8run .s0 (acc ++ ps.flatten) ≠ .rej) →
      ∃ W jn, wire (ps.foldl (fun s p => sendMessageFrame s p sync) s) = wire s ++ W ∧
        StreamSt c (ps.foldl (fun s p => sendMessageFrame s p sync) s) binary (first && ps.isEmpty) ∧
        Pre c jn binary (acc ++ ps.flatten) evs0 (first && ps.isEmpty) ∧
        ∀ after, JRuns c j (W ++ after) jn after := by
  intro ps
  induction ps with
  | nil =>
    intro s j acc evs0 first hs hpre _ _ _ _
    refine ⟨[], j, by simp, by simpa using hs, by simpa using hpre, fun after => JRuns.refl _ _⟩
  | cons p rest ih =>
    intro s j acc evs0 first hs hpre hlen hmsg hfrm hutf
    simp only [List.flatten_cons] at hmsg hutf
    obtain ⟨raw, henc, hw, hs'⟩ := sendMessageFrame_wire c s binary first sync p hs (hlen p (by simp))
    have hmsg1 : ¬ (0 < c.maxMsg ∧ c.maxMsg < acc.length + p.length) := by
      intro hx; apply hmsg
      refine ⟨hx.1, ?_⟩
      simp only [List.length_append] at *
      omega
    obtain ⟨jn, hpost, hstep⟩ := frame_run c j binary first false acc p raw evs0 (drawKey s).2 s.cfg.applyMask
      hpmce hs.ok.am (by rw [drawKey_isSome]; exact hs.ok.mask) hpre henc
      ⟨hmsg1, hfrm p (by simp), fun hv => by
          intro hr
          apply hutf hv
          rw [← List.append_assoc, u8run_append, hr, u8run_rej], fun hx => by cases hx⟩
    unfold Post at hpost
    simp only [Bool.false_eq_true, if_false] at hpost
    obtain ⟨W, jf, hwire, hst, hpre', hruns⟩ := ih (sendMessageFrame s p sync) jn (acc ++ p) evs0 false hs'
      (by unfold Pre; simpa using hpost)
      (fun q hq => hlen q (by simp [hq]))
      (by rw [List.append_assoc]; exact hmsg)
      (fun q hq => hfrm q (by simp [hq]))
      (fun hv => by rw [List.append_assoc]; exact hutf hv)
    refine ⟨raw ++ W, jf, ?_, by simpa using hst, ?_, fun after => ?_⟩
    · simp only [List.foldl_cons]
      rw [hwire, hw, List.append_assoc]
    · simp only [List.flatten_cons, ← List.append_assoc]
      simpa using hpre'
    · rw [List.append_assoc]
      refine JRuns.step (hstep (W ++ after)) ?_ (hruns after)
      have := encodeFrame_len2 _ _ _ _ _ _ _ henc
      simp only [List.length_append]; omega

/-- **C01, streaming API**: `beginMessage`, any non-empty sequence of `sendMessageFrame(payload)` calls, `endMessage`
put on the wire what the judge reads as exactly one message: the concatenation of the frame payloads -/
theorem stream_judged (c : Ctx) (s : S) (j : J) (ps : List Bytes) (binary sync : Bool) (hpmce : c.pmce = false)
    (hs : SenderOk c s) (hg : s.sendSt = .ground) (hne : ps ≠ [])
    (hlen : ∀ p ∈ ps, p.length < 2 ^ 63)
    (hmsg : ¬ (0 < c.maxMsg ∧ c.maxMsg < ps.flatten.length))
    (hfrm : ∀ p ∈ ps, ¬ (0 < c.maxFrame ∧ c.maxFrame < p.length))
    (hutf : (!binary && c.utf8validate) = true → utf8Valid ps.flatten = true) (hj : j.inside = false) :
    ∃ W jn, wire (endMessage (ps.foldl (fun s p => sendMessageFrame s p sync) (beginMessage s binary))) = wire s ++ W ∧
      jn.inside = false ∧ jn.evs = j.evs ++ [.message ps.flatten binary false] ∧
      ∀ after, JRuns c j (W ++ after) jn after := by
  have hu : (!binary && c.utf8validate) = true → u8run .s0 ps.flatten = .s0 := by
    intro hv; have := hutf hv; unfold utf8Valid at this; simpa using this
  -- beginMessage
  have hb : beginMessage s binary = { s with sendOpcode := if binary then 2 else 1, sendSt := .messageBegin, begun := true } := by
    unfold beginMessage; simp [hs.st, hg]
  have hsb : StreamSt c (beginMessage s binary) binary true := by
    rw [hb]
    exact ⟨⟨hs.st, hs.conn, hs.am, hs.mask⟩, rfl, rfl, rfl⟩
  have hwb : wire (beginMessage s binary) = wire s := by rw [hb]; rfl
  have hpre : Pre c j binary [] j.evs true := by unfold Pre; simp [hj]
  obtain ⟨W, jn, hw, hst, hpre', hruns⟩ := stream_frames_run c binary sync hpmce ps (beginMessage s binary) j [] j.evs true
    hsb hpre hlen (by simpa using hmsg) hfrm (fun hv => by simp only [List.nil_append]; rw [hu hv]; decide)
  have hemp : ps.isEmpty = false := by
    cases ps with
    | nil => exact absurd rfl hne
    | cons _ _ => rfl
  simp only [hemp, Bool.and_false, List.nil_append] at hst hpre'
  generalize ps.foldl (fun s p => sendMessageFrame s p sync) (beginMessage s binary) = s2 at hw hst
  -- endMessage: an empty final continuation frame
  obtain ⟨raw, henc⟩ := encodeFrame_some true 0 0 (drawKey s2).2 s2.cfg.applyMask [] (by simp)
  have hwe := sendFrame_wire s2 0 [] true 0 false 0 raw (by rw [hst.ok.st]; decide) hst.ok.conn henc
  obtain ⟨jf, hpost, hstep⟩ := frame_run c jn binary false true ps.flatten [] raw j.evs (drawKey s2).2 s2.cfg.applyMask
    hpmce hst.ok.am (by rw [drawKey_isSome]; exact hst.ok.mask) hpre' (by simpa using henc)
    ⟨by simpa using hmsg, by simp, fun hv => by rw [List.append_nil, hu hv]; decide,
     fun _ hv => by rw [List.append_nil]; exact hu hv⟩
  unfold Post at hpost
  simp only [if_true, List.append_nil] at hpost
  refine ⟨W ++ raw, jf, ?_, hpost.1, hpost.2, fun after => ?_⟩
  · have : wire (endMessage s2) = wire (sendFrame s2 0 [] true 0 false 0) := by
      unfold endMessage
      simp [hst.ok.st, hst.begun]
      rfl
    rw [this, hwe, hw, hwb, List.append_assoc]
  · rw [List.append_assoc]
    refine (hruns (raw ++ after)).trans (JRuns.step (hstep after) ?_ (JRuns.refl _ _))
    have := encodeFrame_len2 _ _ _ _ _ _ _ henc
    simp only [List.length_append]; omega

/-! ### many messages, and the round trip through a receiving engine -/

theorem sendFrags_SendEq (op : Nat) (sync : Bool) : ∀ (frs : List (Bytes × Bool)) (s : S) (first : Bool),
    SendEq s (sendFrags s op sync frs first) := by
  intro frs
  induction frs with
  | nil => intro s first; unfold sendFrags; exact SendEq.refl s
  | cons x rest ih =>
    intro s first
    obtain ⟨p, f⟩ := x
    unfold sendFrags
    exact (sendFrame_SendEq s _ p f 0 sync 0).trans (ih _ false)

theorem sendMessage_SendEq (s : S) (pl : Bytes) (binary : Bool) (fs : Option Nat) (sync : Bool) :
    SendEq s (sendMessage s pl binary fs sync) := by
  unfold sendMessage
  split
  · exact emit_SendEq _ _
  · split
    · exact emit_SendEq _ _
    · dsimp only
      split
      · exact sendFrame_SendEq _ _ _ _ _ _ _
      · split
        · exact sendFrame_SendEq _ _ _ _ _ _ _
        · split
          · exact emit_SendEq _ _
          · exact sendFrags_SendEq _ _ _ _ _

theorem SenderOk.of_SendEq {c : Ctx} {a b : S} (h : SenderOk c a) (e : SendEq a b) : SenderOk c b := by
  refine ⟨by rw [e.st]; exact h.st, by rw [e.lost, e.cfg]; exact h.conn, by rw [e.cfg]; exact h.am, ?_⟩
  have : b.masksFrames = a.masksFrames := by unfold S.masksFrames; rw [e.cfg]
  rw [this]; exact h.mask

/-- a message: payload, binary?, explicit fragment size, synchronous write? -/
abbrev Msg := Bytes × Bool × Option Nat × Bool

def sendAll (s : S) (msgs : List Msg) : S := msgs.foldl (fun s m => sendMessage s m.1 m.2.1 m.2.2.1 m.2.2.2) s

def evOfMsg (m : Msg) : Ev := .message m.1 m.2.1 false

theorem sendAll_judged (c : Ctx) (hpmce : c.pmce = false) : ∀ (msgs : List Msg) (s : S) (j : J),
    SenderOk c s → (∀ m ∈ msgs, MsgOk c s m.1 m.2.1 m.2.2.1) → j.inside = false →
    ∃ W jn, wire (sendAll s msgs) = wire s ++ W ∧ jn.inside = false ∧ jn.evs = j.evs ++ msgs.map evOfMsg ∧
      ∀ after, JRuns c j (W ++ after) jn after := by
  intro msgs
  induction msgs with
  | nil =>
    intro s j _ _ hj
    exact ⟨[], j, by simp [sendAll], hj, by simp, fun after => JRuns.refl _ _⟩
  | cons m rest ih =>
    intro s j hs hm hj
    obtain ⟨W1, j1, hw1, hin1, hev1, hr1⟩ := sendMessage_judged c s j m.1 m.2.1 m.2.2.1 m.2.2.2 hpmce hs
      (hm m (by simp)) hj
    have e := sendMessage_SendEq s m.1 m.2.1 m.2.2.1 m.2.2.2
    obtain ⟨W2, j2, hw2, hin2, hev2, hr2⟩ := ih (sendMessage s m.1 m.2.1 m.2.2.1 m.2.2.2) j1 (hs.of_SendEq e)
      (fun m' hm' => by
        have h0 := hm m' (by simp [hm'])
        exact ⟨by rw [e.cfg]; exact h0.own, h0.frag, h0.len, h0.msgLimit, h0.frameLimit, h0.utf8⟩) hin1
    refine ⟨W1 ++ W2, j2, ?_, hin2, ?_, fun after => ?_⟩
    · show wire (sendAll (sendMessage s m.1 m.2.1 m.2.2.1 m.2.2.2) rest) = _
      rw [hw2, hw1, List.append_assoc]
    · rw [hev2, hev1, List.append_assoc]; rfl
    · rw [List.append_assoc]
      exact (hr1 (W2 ++ after)).trans (hr2 after)

theorem wire_start (cfg : Cfg) : wire (start cfg) = [] := by
  unfold start
  simp only []
  split <;> rfl

/-- **C01, end to end.** Whatever messages a fresh endpoint sends with `sendMessage` (text or binary, any length
below 2^63, in one frame or fragmented with any fragment size, written directly or through the send queue), when its
octets reach a fresh receiving engine (failing by drop, no compression) in ANY segmentation, that engine delivers
exactly those messages, in order, with payload and type, and stays OPEN.  Conditions (`SenderOk`, `MsgOk`): the two
endpoints agree on masking, the messages respect the size limits of both sides, text payloads are valid UTF-8 when
the receiver validates, the fragment size is not 0. -/
theorem send_recv_roundtrip (cs cr : Cfg) (msgs : List Msg) (chunks : List Bytes)
    (hf : cr.failByDrop = true) (hpmce : cr.pmce = false)
    (hs : SenderOk (Ctx.ofCfg cr) (start cs))
    (hm : ∀ m ∈ msgs, MsgOk (Ctx.ofCfg cr) (start cs) m.1 m.2.1 m.2.2.1)
    (hne : ∀ ch ∈ chunks, ch ≠ []) (hnil : chunks ≠ [])
    (hw : chunks.flatten = wire (sendAll (start cs) msgs)) :
    evsOf (feed (start cr) chunks).log = msgs.map evOfMsg ∧ (feed (start cr) chunks).st = .opened := by
  obtain ⟨W, jn, hwire, _, hevs, hruns⟩ := sendAll_judged (Ctx.ofCfg cr) hpmce msgs (start cs) {} hs hm rfl
  rw [wire_start, List.nil_append] at hwire
  have hj := (hruns []).judge
  rw [List.append_nil, ← hwire, ← hw] at hj
  have hre := (recv_events cr hf chunks hne hnil).1 (by rw [hj])
  rw [hj] at hre
  refine ⟨?_, hre.2⟩
  rw [hre.1, hevs]
  rfl

/-- the hypotheses are satisfiable: a default client sending to a default server -/
example : SenderOk (Ctx.ofCfg {}) (start { isServer := false }) :=
  ⟨rfl, by simp [start], rfl, rfl⟩

example : MsgOk (Ctx.ofCfg {}) (start { isServer := false }) [0x48, 0x69] false none := by
  refine ⟨by simp [start], by simp, by simp, by simp [Ctx.ofCfg], by simp [Ctx.ofCfg], fun _ => by decide⟩

/-- `stream_judged` on a concrete run (client, two frames "He" + "llo" of a text message): the judge in the server's role
reads the octets written as exactly that one message, stays OPEN and consumes everything -/
example : WsSpec.judge (Ctx.ofCfg {})
    (wire (endMessage ([[0x48, 0x65], [0x6c, 0x6c, 0x6f]].foldl (fun s p => sendMessageFrame s p false)
      (beginMessage (start { isServer := false }) false))))
    = ([.message [0x48, 0x65, 0x6c, 0x6c, 0x6f] false false], .ok, 0) := by
  decide

end Abverif.Ws
