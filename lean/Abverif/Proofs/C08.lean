import Abverif.Proofs.C03
import Abverif.Proofs.Lemmas.SchemaTotal
import Abverif.Proofs.Lemmas.SchemaStrict
import Abverif.Proofs.Lemmas.SchemaCtor
import Abverif.Proofs.Lemmas.SchemaSpecClean
import Abverif.Proofs.Lemmas.SchemaRolesSpec
import Abverif.Proofs.Lemmas.UriGrammar
/-
C08 — untrusted WAMP input is either a valid message or a protocol error.  Property theorems.

The Model is the schema engine (`unserializeOne` = envelope checks + `MESSAGE_TYPE_MAP` dispatch + `Klass.parse`,
with every exception class the real code raises, including the constructor `assert`s); the Spec is
"only ProtocolError / InvalidUriError, and what is accepted is strictly well-formed".  Statements that today's code
violates are kept as `def … : Prop` (full strength), proved in `_partial` form, and the violation is witnessed.
-/
namespace Abverif.Wamp
open Generated.WampCodes

/-! ## totality: which exception classes can leave `unserialize` -/

/-- **full statement** (C08): parsing any deserialized structure yields a message or one of the library's own
protocol-level errors. -/
def ParseTotalTyped (O : Oracles) : Prop := ∀ v : WVal, ErrIn Allowed (unserializeOne O v)

/-- in all 25 classes every constructor assertion is covered by a check of `parse`: an asserted option has the
parse-time type that implies the assertion, a cross-field assertion concerns the tail of a class that has one
(payload is bytes, `enc_*` valid, `enc_key`/`enc_serializer` only with `enc_algo`) or is checked by `parse` itself
(UNSUBSCRIBED / UNREGISTERED).  Decided on the concrete schemas. -/
theorem schemas_ctorCovered : ∀ σ ∈ all25, σ.ctorCovered = true := by
  have h : all25.all (fun σ => σ.ctorCovered) = true := by decide
  exact fun σ hσ => List.all_eq_true.mp h σ hσ

theorem schemas_wf_all : ∀ σ ∈ all25, σ.wf = true := by
  have h : all25.all (fun σ => σ.wf) = true := by decide
  exact fun σ hσ => List.all_eq_true.mp h σ hσ

/-- **the constructor assertions are unreachable from `parse`** (all 25 classes, all inputs): once the part of
`parse` in front of the constructor call has succeeded, the constructor's `assert`s all hold and it does nothing but
`_validate_kwargs` (`ProtocolError`).  Before the F3 repair this was false at 29 sites (`enc_*`, `payload`,
UNSUBSCRIBED/UNREGISTERED ids, WELCOME `auth*`). -/
theorem ctor_assertions_unreachable (σ : Schema) (hσ : σ ∈ all25) (O : Oracles) (w : List WVal) (m : Msg)
    (h : σ.parseStage O w = .ok m) :
    σ.ctorStage O m = (if σ.tail.isSome then Schema.kwargsCheck m else pure ()) :=
  ctor_unreachable σ O w m (schemas_wf_all σ hσ) (schemas_ctorCovered σ hσ) h

/-- every class, every input: `Klass.parse` raises only `ProtocolError` / `InvalidUriError` -/
theorem parse_classes (σ : Schema) (hσ : σ ∈ all25) (O : Oracles) (w : List WVal) : ErrIn Allowed (σ.parse O w) :=
  parse_allowed_of_covered σ O w (schemas_wf_all σ hσ) (schemas_ctorCovered σ hσ)

theorem schemaOfCode_mem {code : Int} {σ : Schema} (h : schemaOfCode code = some σ) : σ ∈ all25 := by
  unfold schemaOfCode at h
  split at h
  · cases h
  · exact List.mem_of_find?_eq_some h

/-- **totality at full strength, all 25 classes, all inputs**: whatever deserialized structure reaches
`Serializer.unserialize`'s dispatch, the outcome is a message or `ProtocolError` / `InvalidUriError` — no
`AssertionError` (the constructor assertions are unreachable, `ctor_assertions_unreachable`), no `TypeError` (a role
feature named `self` is an unknown feature like any other), and nothing else (no IndexError, KeyError, …). -/
theorem parse_total_typed (O : Oracles) : ParseTotalTyped O := by
  intro v
  unfold unserializeOne
  split
  · exact ErrIn.fail _ rfl
  · split
    · exact ErrIn.fail _ rfl
    · rename_i σ hσ
      exact ErrIn.bind (parse_classes σ (schemaOfCode_mem hσ) O _) (fun _ _ => ErrIn.pure _)
  · exact ErrIn.fail _ rfl
  · exact ErrIn.fail _ rfl

/-- class of the error, if any -/
def errClass? (r : Except Err α) : Option ErrClass :=
  match r with
  | .ok _ => none
  | .error e => some e.cls

/-! ### the former F3 failing inputs: now `ProtocolError`

(before the repair each of these evaluated to `some .assertion`; should a check be removed from `parse` again the model
no longer matches the code — correspondence break — and the harness reports the `AssertionError` as a violation) -/

theorem f3_inputs_now_protocol_errors :
    -- `[8,48,1,{"enc_key":"k"},"a.b",b"xx"]`: `enc_key` without `enc_algo`
    errClass? (unserializeOne oracles (.list [.int 8, .int 48, .int 1,
      .dict [(cs!"enc_key", .str cs!"k")], .str cs!"a.b", .bytes [120, 120]])) = some .protocol ∧
    -- `[48,1,{"enc_algo":"","enc_serializer":"x_ser"},"a.b",b"zz"]`: a falsy `enc_algo` that is not None
    errClass? (unserializeOne oracles (.list [.int 48, .int 1,
      .dict [(cs!"enc_algo", .str []), (cs!"enc_serializer", .str cs!"x_ser")], .str cs!"a.b", .bytes [122, 122]])) = some .protocol ∧
    -- `[2,1,{"roles":{"broker":{}},"authid":1}]`: WELCOME `authid` of the wrong type
    errClass? (unserializeOne oracles (.list [.int 2, .int 1,
      .dict [(cs!"roles", .dict [(cs!"broker", .dict [])]), (cs!"authid", .int 1)]])) = some .protocol ∧
    -- `[35,5,{"subscription":7}]`: UNSUBSCRIBED with a subscription detail but request ≠ 0
    errClass? (unserializeOne oracles (.list [.int 35, .int 5, .dict [(cs!"subscription", .int 7)]])) = some .protocol ∧
    -- `[48,1,{},"a.b","x"]`: CALL with a `str` where the payload / args go
    errClass? (unserializeOne oracles (.list [.int 48, .int 1, .dict [], .str cs!"a.b", .str cs!"x"])) = some .protocol := by
  decide +kernel

/-- `[1,"realm1",{"roles":{"caller":{"features":{"self":true}}}}]` is accepted: `self` is an unknown feature name
(ignored), not a collision with the bound argument of `RoleCallerFeatures(**features)` -/
theorem hello_self_feature_ignored :
    errClass? (unserializeOne oracles (.list [.int 1, .str cs!"realm1",
      .dict [(cs!"roles", .dict [(cs!"caller", .dict [(cs!"features", .dict [(cs!"self", .bool true)])])])]])) = none := by
  decide +kernel

/-! ## strictness: what an accepted message satisfies -/

/-- the regenerated bound of `check_or_raise_id` is the protocol's 2^53 -/
theorem id_bound_is_2_53 : idBound = 2 ^ 53 := idBound_eq

theorem idOk_iff_spec (i : Int) : idOk i = specIdOk i := idOk_eq_spec i


/-- **full statement** (C08, in terms of the Spec): nothing is accepted that has an id outside [0, 2^53], a URI outside
the *intended* grammar, a wrongly typed option, or a type code that is not the protocol's.  Still FALSE of today's
code, for one reason only: PUBLISH admits `args` of type `str`/`bytes` (on purpose: the constructor does too; open
finding) — witness below.  The other former reasons are repaired: F2 (URIs), ids in options (now
`check_or_raise_id`), `force_reregister: 1`, UNREGISTER's unchecked `forward_for`. -/
def ParseStrictSpec : Prop :=
  ∀ (v : WVal) (σ : Schema) (m : Msg), unserializeOne oracles v = .ok (σ, m) → σ.specViolations Uri.Spec.ok m = []

/-- **partial form, proved for all inputs**: a message accepted by `parse` is `strict` — every positional id lies in
[0, 2^53] (regenerated bound = 2^53, `id_bound_is_2_53`), every URI is accepted by the regenerated recogniser
selected by its flags (REGISTER: by the `match` option), every positional `str`/`dict`/enum has its type, every
option holds its default or a value that passes its type check (`OTy.valid`), args/kwargs/payload and the `enc_*`
triple have the shapes the constructor asserts, and the attribute names are exactly the class's.
What is missing w.r.t. `ParseStrictSpec`: the recogniser is the regenerated regex (equal to the intended grammar by
`uri_equiv`), `forwardFor false` would admit any list (all 13 flags are `true`, `forward_for_loops_repaired`), and
PUBLISH's `args` may be `str`/`bytes`. -/
theorem parse_strict (σ : Schema) (hσ : σ ∈ roundTrip23) (O : Oracles) (w : List WVal) (m : Msg)
    (h : σ.parse O w = .ok m) : σ.strict O m = true := by
  have hall : σ ∈ all25 := (List.mem_filter.mp hσ).1
  have hnr : σ.noRoles = true := (List.mem_filter.mp hσ).2
  exact parse_strict_core σ O w m (schemas_wf_all σ hall) hnr h

/-- ids: a positional id of an accepted message is in the protocol's range -/
theorem parse_strict_ids (σ : Schema) (hσ : σ ∈ roundTrip23) (O : Oracles) (w : List WVal) (m : Msg)
    (h : σ.parse O w = .ok m) (f : Str) (hf : PosStep.id f ∈ σ.pos) :
    ∃ i, m.get f = .int i ∧ 0 ≤ i ∧ i ≤ 2 ^ 53 := by
  have hs := (strict_parts (parse_strict σ hσ O w m h)).2.1 _ hf
  simp only [PosStep.strict] at hs
  split at hs
  · rename_i i hi
    refine ⟨i, hi, ?_⟩
    rw [idOk_iff_spec] at hs
    simp only [specIdOk, Bool.and_eq_true, decide_eq_true_eq] at hs
    exact ⟨hs.1, by simpa using hs.2⟩
  · simp at hs

/-- URIs: a positional URI of an accepted message passed the regenerated pattern for its flags -/
theorem parse_strict_uris (σ : Schema) (hσ : σ ∈ roundTrip23) (O : Oracles) (w : List WVal) (m : Msg)
    (h : σ.parse O w = .ok m) (f : Str) (fl : UriFlags) (hf : PosStep.uri f fl ∈ σ.pos) :
    uriOk O fl (m.get f) = true :=
  (strict_parts (parse_strict σ hσ O w m h)).2.1 _ hf

/-- the regenerated flags: every one of the 13 `forward_for` loops of `parse` is a `for/else` (since /repo e992b44c) and
its entry check admits `authid: None` like the constructors and `marshal()` (since 5051ad59).  Re-introducing the
`for … break … valid = True` shape in any class makes this theorem fail to build. -/
theorem forward_for_loops_repaired :
    [ffFixed_Error, ffFixed_Publish, ffFixed_Subscribe, ffFixed_Unsubscribe, ffFixed_Event, ffFixed_Call, ffFixed_Cancel,
     ffFixed_Result, ffFixed_Register, ffFixed_Unregister, ffFixed_Invocation, ffFixed_Interrupt, ffFixed_Yield].all id = true ∧
    ffAuthidNoneOk = true := by decide

/-- hence an accepted `forward_for` is absent or a list of well-formed entries (dict with `session: int`,
`authid: str | None`, `authrole: str`) — in every class that has the option -/
theorem parse_strict_forward_for (σ : Schema) (hσ : σ ∈ roundTrip23) (O : Oracles) (w : List WVal) (m : Msg)
    (h : σ.parse O w = .ok m) (s : OptStep) (hs : s ∈ σ.opts) (hty : s.ty = .forwardFor true) (hd : s.dflt = .null) :
    m.get s.field = .null ∨ ∃ xs, m.get s.field = .list xs ∧ xs.all ffItemParseOk = true := by
  have hst := (strict_parts (parse_strict σ hσ O w m h)).2.2.1 s hs
  simp only [OptStep.strict, Bool.or_eq_true, hd, hty] at hst
  rcases hst with h0 | h1
  · exact Or.inl (isDflt_eq h0)
  · right
    cases hv : m.get s.field <;> simp_all [OTy.valid]

example : (Schemas.call.opts.filter (fun s => s.field == cs!"forward_for")).map (fun s => (s.ty matches .forwardFor true)) = [true] := by
  decide

/-- witnesses that `ParseStrictSpec` fails today (each is a concrete accepted input with a Spec violation) -/
theorem strict_witness_trailing_newline :
    (Rx._URI_PAT_LOOSE_NON_EMPTY).anchor = .dollar →
    (match unserializeOne oracles (.list [.int 48, .int 1, .dict [], .str cs!"a.b\n"]) with
     | .ok (σ, m) => !(σ.specViolations Uri.Spec.ok m).isEmpty
     | .error _ => false) = true := by decide +kernel

/-- ids inside the options of an accepted message are in the protocol's range too (`caller`, `callee`, `publisher`,
`subscription`, `registration`: since the repair they go through `check_or_raise_id`) -/
theorem parse_strict_option_ids (σ : Schema) (hσ : σ ∈ roundTrip23) (O : Oracles) (w : List WVal) (m : Msg)
    (h : σ.parse O w = .ok m) (s : OptStep) (hs : s ∈ σ.opts) (hty : s.ty = .id) (hd : s.dflt = .null) :
    m.get s.field = .null ∨ ∃ i, m.get s.field = .int i ∧ 0 ≤ i ∧ i ≤ 2 ^ 53 := by
  have hst := (strict_parts (parse_strict σ hσ O w m h)).2.2.1 s hs
  simp only [OptStep.strict, Bool.or_eq_true, hd, hty] at hst
  rcases hst with h0 | h1
  · exact Or.inl (isDflt_eq h0)
  · right
    cases hv : m.get s.field <;> rw [hv] at h1 <;> simp [OTy.valid] at h1
    rename_i i
    refine ⟨i, rfl, ?_⟩
    rw [idOk_iff_spec] at h1
    simp only [specIdOk, Bool.and_eq_true, decide_eq_true_eq] at h1
    exact ⟨h1.1, by simpa using h1.2⟩

/-- … and so is every element of PUBLISH's `exclude` / `eligible` lists -/
theorem parse_strict_option_id_lists (σ : Schema) (hσ : σ ∈ roundTrip23) (O : Oracles) (w : List WVal) (m : Msg)
    (h : σ.parse O w = .ok m) (s : OptStep) (hs : s ∈ σ.opts) (hty : s.ty = .listId) (hd : s.dflt = .null) :
    m.get s.field = .null ∨ ∃ xs, m.get s.field = .list xs ∧ allId xs = true := by
  have hst := (strict_parts (parse_strict σ hσ O w m h)).2.2.1 s hs
  simp only [OptStep.strict, Bool.or_eq_true, hd, hty] at hst
  rcases hst with h0 | h1
  · exact Or.inl (isDflt_eq h0)
  · right
    cases hv : m.get s.field <;> rw [hv] at h1 <;> simp [OTy.valid] at h1
    exact ⟨_, rfl, h1⟩

example : (Schemas.publish.opts.filter (fun s => s.ty matches .listId)).map (·.field) = [cs!"exclude", cs!"eligible"] := by
  decide

/-- which options are WAMP ids (checked with `check_or_raise_id`), per class -/
theorem id_options :
    (all25.map (fun σ => (σ.name, (σ.opts.filter (fun s => s.ty matches .id)).map (·.field)))).filter (fun e => !e.2.isEmpty) =
      [(cs!"Hello", [cs!"resume_session"]), (cs!"Error", [cs!"callee"]), (cs!"Unsubscribed", [cs!"subscription"]),
       (cs!"Event", [cs!"publisher"]), (cs!"Call", [cs!"caller"]), (cs!"Result", [cs!"callee"]),
       (cs!"Unregistered", [cs!"registration"]), (cs!"Invocation", [cs!"caller"]), (cs!"Yield", [cs!"callee"])] := by
  decide

/-- the former witnesses of `¬ ParseStrictSpec` are rejected with `ProtocolError` now: `force_reregister: 1`, a negative
session id in `exclude`, a `callee` above 2^53 -/
theorem former_strict_witnesses_rejected :
    errClass? (unserializeOne oracles (.list [.int 64, .int 1, .dict [(cs!"force_reregister", .int 1)], .str cs!"a.b"])) = some .protocol ∧
    errClass? (unserializeOne oracles (.list [.int 16, .int 1, .dict [(cs!"exclude", .list [.int (-1)])], .str cs!"a.b"])) = some .protocol ∧
    errClass? (unserializeOne oracles (.list [.int 8, .int 48, .int 1, .dict [(cs!"callee", .int 9007199254740993)], .str cs!"a.b"])) = some .protocol := by
  decide +kernel

/-- the remaining witness that `ParseStrictSpec` fails: `[16,1,{},"a.b","s",{}]` — PUBLISH accepts a `str` for `args` -/
theorem strict_witness_publish_args_str :
    (match unserializeOne oracles (.list [.int 16, .int 1, .dict [], .str cs!"a.b", .str cs!"s", .dict []]) with
     | .ok (σ, m) => !(σ.specViolations Uri.Spec.ok m).isEmpty
     | .error _ => false) = true := by decide +kernel

theorem strict_witness_unregister_forward_for :
    ffFixed_Unregister = false →
    (match unserializeOne oracles (.list [.int 66, .int 1, .int 2, .dict [(cs!"forward_for", .list [.int 1])]]) with
     | .ok (σ, m) => !(σ.specViolations Uri.Spec.ok m).isEmpty
     | .error _ => false) = true := by decide +kernel

/-- every schema has the protocol's type code, every `forward_for` loop is repaired and the types that admit `None`
default to `None` — what `specViolations_of_parse` needs of a schema; decided on the 25 concrete schemas -/
theorem schemas_specReady : ∀ σ ∈ all25, σ.specReady = true := by
  have h : all25.all (fun σ => σ.specReady) = true := by decide
  exact fun σ hσ => List.all_eq_true.mp h σ hσ

theorem unserializeOne_ok {O : Oracles} {v : WVal} {σ : Schema} {m : Msg} (h : unserializeOne O v = .ok (σ, m)) :
    ∃ code rest, v = .list (.int code :: rest) ∧ schemaOfCode code = some σ ∧ σ.parse O (.int code :: rest) = .ok m := by
  unfold unserializeOne at h
  split at h
  · simp [fail] at h
  · rename_i code rest
    split at h
    · simp [fail] at h
    · rename_i σ' hσ'
      cases hp : σ'.parse O (.int code :: rest) with
      | error e => rw [hp] at h; simp [bind, Except.bind] at h
      | ok m' =>
        rw [hp] at h
        simp only [bind, Except.bind, pure, Except.pure, Except.ok.injEq, Prod.mk.injEq] at h
        obtain ⟨rfl, rfl⟩ := h
        exact ⟨code, rest, rfl, hσ', hp⟩
  · simp [fail] at h
  · simp [fail] at h

/-- PUBLISH is the only class whose tail admits `str` / `bytes` arguments -/
theorem publish_only_variant :
    all25.all (fun σ => match σ.tail with
      | some t => (t.variant != .publish) || σ.name == cs!"Publish"
      | none => true) = true := by decide

/-- **`ParseStrictSpec` up to the one open finding, all 25 classes, all inputs**: in a message that `unserialize`
accepts the Spec (protocol id range, *intended* URI grammar, intended option types, protocol type codes — none of it
read off the code) objects to nothing except the `args` of a PUBLISH (which may be `str`/`bytes`).  Before the repairs
it also objected to ids inside options, `force_reregister: 1`, F2 URIs and unchecked `forward_for` lists. -/
theorem parse_strict_spec_partial (v : WVal) (σ : Schema) (m : Msg) (h : unserializeOne oracles v = .ok (σ, m)) :
    ∀ fr ∈ σ.specViolations Uri.Spec.ok m, fr = (cs!"args", cs!"type") ∧ σ.name = cs!"Publish" := by
  obtain ⟨code, rest, _, hσ, hp⟩ := unserializeOne_ok h
  have hmem := schemaOfCode_mem hσ
  intro fr hfr
  obtain ⟨hfr', t, ht, hv⟩ :=
    specViolations_of_parse σ (schemas_wf_all σ hmem) (schemas_specReady σ hmem) _ m hp fr hfr
  refine ⟨hfr', ?_⟩
  have := List.all_eq_true.mp publish_only_variant σ hmem
  rw [ht] at this
  simp only [hv, bne_self_eq_false, Bool.false_or, beq_iff_eq] at this
  exact this

/-- hence the full statement holds for the 24 other classes -/
theorem parse_strict_spec_but_publish (v : WVal) (σ : Schema) (m : Msg) (h : unserializeOne oracles v = .ok (σ, m))
    (hn : σ.name ≠ cs!"Publish") : σ.specViolations Uri.Spec.ok m = [] := by
  apply List.eq_nil_iff_forall_not_mem.mpr
  intro fr hfr
  exact hn (parse_strict_spec_partial v σ m h fr hfr).2

example : (match unserializeOne oracles (.list [.int 48, .int 1, .dict [(cs!"caller", .int 7)], .str cs!"a.b", .list [.int 1]]) with
    | .ok (σ, m) => σ.name == cs!"Call" && (σ.specViolations Uri.Spec.ok m).isEmpty
    | .error _ => false) = true := by decide +kernel

/-- details that the WAMP spec makes URIs are checked as URIs: WELCOME `realm` "not a uri!!", EVENT `topic` "a..b#",
INVOCATION `procedure` ".." are rejected with `InvalidUriError` (accepted as plain strings before the repair) -/
theorem uri_details_rejected :
    errClass? (unserializeOne oracles (.list [.int 2, .int 1,
      .dict [(cs!"roles", .dict [(cs!"broker", .dict [])]), (cs!"realm", .str cs!"not a uri!!")]])) = some .invalidUri ∧
    errClass? (unserializeOne oracles (.list [.int 36, .int 1, .int 2, .dict [(cs!"topic", .str cs!"a..b#")]])) = some .invalidUri ∧
    errClass? (unserializeOne oracles (.list [.int 68, .int 1, .int 2, .dict [(cs!"procedure", .str cs!"..")]])) = some .invalidUri := by
  decide +kernel

/-- the Spec's own field table (written from the WAMP spec by class and attribute name, not read from the schemas) is
honoured by the parser model: every entry is an option the model checks as that kind — part of `schemas_specReady`,
hence of `parse_strict_spec_partial`.  Classifying one of these fields as a plain `str`/`int` in Messages.lean (as
`Welcome.realm`, `Event.topic`, `Invocation.procedure` were) makes this fail to build. -/
theorem spec_table_covered : ∀ σ ∈ all25, σ.tableCovered = true := by
  have h : all25.all (fun σ => σ.tableCovered) = true := by decide
  exact fun σ hσ => List.all_eq_true.mp h σ hσ

/-- every class named in the table exists, and the table has 17 entries -/
theorem spec_table_classes :
    specDetailTable.all (fun e => all25.any (fun σ => σ.name == e.1 && σ.fieldNames.contains e.2.1)) = true ∧
    specDetailTable.length = 17 := by decide

theorem not_parseStrictSpec : ¬ ParseStrictSpec := by
  intro h
  have hw := strict_witness_publish_args_str
  split at hw
  · rename_i σ m he
    have := h _ σ m he
    simp [this] at hw
  · simp at hw

/-! ## HELLO / WELCOME role dictionaries -/

/-- **roles: accepted iff the Spec accepts.**  For any role-name list and feature table, the parse model's check of a
`roles` value succeeds exactly on the values `rolesAccept` describes: non-empty str-keyed dict, allowed role names,
dict-valued roles, `features` (if present) a str-keyed dict in which every *known* feature of that role is absent,
null or a JSON bool; unknown feature names ignored (one spelled `self` too). -/
theorem roles_accept_iff (site : Str) (allowed : List Str) (feats : List (Str × List Str)) (v : WVal) :
    isOkB (rolesCheck site allowed feats v) = rolesAccept allowed feats v :=
  rolesCheck_isOk_iff site allowed feats v

/-- HELLO: whatever `Hello.parse` accepts carries details whose `roles` satisfy the Spec for the client roles
(`subscriber`, `publisher`, `caller`, `callee`; names and features regenerated from message.py / role.py) -/
theorem hello_roles_spec (O : Oracles) (w : List WVal) (m : Msg) (h : Schemas.hello.parse O w = .ok m) :
    ∃ rv, Dict.get? (Schemas.hello.optsOf w) cs!"roles" = some rv ∧ rolesAccept helloRoles roleFeatures rv = true :=
  parse_roles_spec Schemas.hello O w m h
    { field := cs!"roles", key := cs!"roles", ty := .roles helloRoles roleFeatures, required := true, mm := .always }
    (by simp [Schemas.hello]) helloRoles roleFeatures rfl rfl

/-- WELCOME: the same for the router roles (`broker`, `dealer`) -/
theorem welcome_roles_spec (O : Oracles) (w : List WVal) (m : Msg) (h : Schemas.welcome.parse O w = .ok m) :
    ∃ rv, Dict.get? (Schemas.welcome.optsOf w) cs!"roles" = some rv ∧ rolesAccept welcomeRoles roleFeatures rv = true :=
  parse_roles_spec Schemas.welcome O w m h
    { field := cs!"roles", key := cs!"roles", ty := .roles welcomeRoles roleFeatures, required := true, mm := .always }
    (by simp [Schemas.welcome]) welcomeRoles roleFeatures rfl rfl

/-- every role that HELLO / WELCOME admit has its feature list in the regenerated table, and each list is non-empty -/
theorem role_tables_cover :
    (helloRoles ++ welcomeRoles).all (fun r => !(roleKnown roleFeatures r).isEmpty) = true := by decide

/-- instances: a falsy non-bool value of a known feature is rejected (ProtocolError), in HELLO and in WELCOME -/
theorem falsy_feature_rejected :
    errClass? (unserializeOne oracles (.list [.int 1, .str cs!"realm1",
      .dict [(cs!"roles", .dict [(cs!"caller", .dict [(cs!"features", .dict [(cs!"call_timeout", .int 0)])])])]])) = some .protocol ∧
    errClass? (unserializeOne oracles (.list [.int 2, .int 1,
      .dict [(cs!"roles", .dict [(cs!"dealer", .dict [(cs!"features", .dict [(cs!"call_timeout", .str [])])])])]])) = some .protocol := by
  decide +kernel

/-! ## re-parse: the re-marshalled form of an accepted message -/

/-- **full statement**: whatever is accepted re-marshals to a form that parses back to the same message
("equivalent to the input": equal up to omitted defaults, dropped unknown keys and key order).  FALSE today. -/
def ReparseEquiv (σ : Schema) : Prop :=
  ∀ (w : List WVal) (m : Msg), σ.parse oracles w = .ok m → σ.parse oracles (σ.marshal m) = .ok m

/-- **partial form**: it holds whenever the accepted message satisfies the residual conditions, i.e. carries none of
the values `marshal` does not write (a falsy value under an `if self.x:` option, empty args/kwargs/payload, a
non-list `args` of PUBLISH, …) -/
theorem reparse_equiv_partial (σ : Schema) (hσ : σ ∈ roundTrip23) (w : List WVal) (m : Msg)
    (h : σ.parse oracles w = .ok m) (hres : σ.residual oracles m = true) :
    σ.parse oracles (σ.marshal m) = .ok m := by
  apply parse_marshal σ oracles (schemas_wf σ (List.mem_filter.mp hσ).1) m
  unfold Schema.Valid Schema.valid
  rw [parse_strict σ hσ oracles w m h, hres]
  rfl

example : Schemas.call.parse oracles (Schemas.call.marshal exCall) = .ok exCall :=
  reparse_equiv_partial _ (mem_roundTrip23 (by simp [all25]) (by decide)) (Schemas.call.marshal exCall) exCall
    (parse_marshal _ _ (schemas_wf _ (by simp [all25])) _ (by decide +kernel))
    (by decide +kernel)

/-- witness: `[16,1,{},"a.b",b"\x00\xff",{}]` is accepted by PUBLISH (args may be `bytes` there) with `payload = None`,
re-marshals to `[16,1,{},"a.b",b"\x00\xff"]` (empty kwargs are not written), which is read as a transparent payload -/
theorem reparse_witness_publish :
    (match Schemas.publish.parse oracles [.int 16, .int 1, .dict [], .str cs!"a.b", .bytes [0, 255], .dict []] with
     | .ok m => (m.get cs!"payload").isNull &&
         (match Schemas.publish.parse oracles (Schemas.publish.marshal m) with
          | .ok m' => !(m'.get cs!"payload").isNull
          | .error _ => false)
     | .error _ => false) = true := by decide +kernel

theorem not_reparseEquiv_publish : ¬ ReparseEquiv Schemas.publish := by
  intro h
  have hw := reparse_witness_publish
  split at hw
  · rename_i m he
    rw [h _ m he] at hw
    cases hp : (m.get cs!"payload").isNull <;> simp [hp] at hw
  · simp at hw

/-! ## envelope: type codes and element counts -/

/-- an accepted object is a list whose first element is an `int` type code that `MESSAGE_TYPE_MAP` knows, dispatched
to the class with that code, with an element count in that class's set -/
theorem accepted_envelope (O : Oracles) (v : WVal) (σ : Schema) (m : Msg) (h : unserializeOne O v = .ok (σ, m)) :
    ∃ code rest, v = .list (.int code :: rest) ∧ schemaOfCode code = some σ ∧
      σ.lengths.contains (rest.length + 1) = true := by
  unfold unserializeOne at h
  split at h
  · simp [fail] at h
  · rename_i code rest
    split at h
    · simp [fail] at h
    · rename_i σ' hσ'
      cases hp : σ'.parse O (.int code :: rest) with
      | error e => rw [hp] at h; simp [bind, Except.bind] at h
      | ok m' =>
        rw [hp] at h
        simp only [bind, Except.bind, pure, Except.pure, Except.ok.injEq, Prod.mk.injEq] at h
        obtain ⟨rfl, rfl⟩ := h
        refine ⟨code, rest, rfl, hσ', ?_⟩
        -- the length check is the first thing `parse` does
        unfold Schema.parse at hp
        obtain ⟨m1, hps, _⟩ := bind_eq_ok hp
        have hf := (parseStage_fields hps).1
        unfold Schema.parseFields at hf
        by_cases hl : σ'.lengths.contains (rest.length + 1) = true
        · exact hl
        · have hneg : (!σ'.lengths.contains (List.length (WVal.int code :: rest))) = true := by
            simp only [List.length_cons]
            cases hc : σ'.lengths.contains (rest.length + 1) <;> simp_all
          rw [if_pos hneg] at hf
          simp [fail] at hf
  · simp [fail] at h
  · simp [fail] at h

/-- every code in the regenerated `MESSAGE_TYPE_MAP` is the `MESSAGE_TYPE` of the class it maps to, and there are 25 -/
theorem typeMap_consistent : typeMap.map (fun e => (e.2, e.1)) = messageTypes := by decide

/-! ## URI recognisers (regenerated from `_URI_PAT_*`): regex ⇔ intended grammar

FULL since /repo 8a098028 (patterns end in `\Z`, classes use `0-9`).  Before that fix these were `_partial` theorems with
the hypotheses "no trailing newline" / "no non-ASCII digit" (finding F2); re-introducing `$` or `\d` breaks them. -/

/-- **`check_or_raise_uri` accepts exactly the intended grammar**, for all six patterns (every flag triple) and every
string: components split on '.', characters `[0-9a-z_]` (strict) or anything but whitespace, '.', '#' (loose), emptiness
of components as the flags say -/
theorem uri_equiv (strict ae ale : Bool) (s : List Char) :
    Uri.check strict ae ale s = Uri.Spec.ok strict ae ale s :=
  Uri.uri_equiv strict ae ale s

example : Uri.check true false false cs!"com.example.topic1" = true := by
  rw [uri_equiv]; decide

/-- `_CUSTOM_ATTRIBUTE` (used by `is_valid_enc_algo` / `is_valid_enc_serializer` and WELCOME's custom attributes) -/
theorem custom_attr_equiv (s : List Char) : Uri.customAttr s = Uri.CustomAttr.Spec.ok s := Uri.custom_attr_equiv s

/-- the four realm-name patterns -/
theorem realm_name_equiv (s : List Char) : Uri.realmName s = Uri.Realm.Spec.name s := Uri.realm_name_equiv s
theorem realm_eth_equiv (s : List Char) : Uri.realmEth s = Uri.Realm.Spec.eth s := Uri.realm_eth_equiv s
theorem realm_ens_equiv (s : List Char) : Uri.realmEns s = Uri.Realm.Spec.ens s := Uri.realm_ens_equiv s
theorem realm_ens_reverse_equiv (s : List Char) : Uri.realmEnsReverse s = Uri.Realm.Spec.ensReverse s :=
  Uri.realm_ens_reverse_equiv s

/-- consequently an accepted positional URI lies in the **intended grammar** for its flags (not merely "passed the regex") -/
theorem parse_strict_uris_grammar (σ : Schema) (hσ : σ ∈ roundTrip23) (w : List WVal) (m : Msg)
    (h : σ.parse oracles w = .ok m) (f : Str) (fl : UriFlags) (hf : PosStep.uri f fl ∈ σ.pos) :
    specUriOk Uri.Spec.ok fl (m.get f) = true := by
  have hu := parse_strict_uris σ hσ oracles w m h f fl hf
  cases hv : m.get f <;> simp_all [uriOk, specUriOk, oracles, Uri.uri_equiv _ _ _ _]

/-- legacy F2 witnesses, guarded by the regenerated end anchor / character class: vacuous since 8a098028, they become
live again (and `uri_equiv` stops building) if `$` or `\d` return -/
theorem f2_trailing_newline_witness (strict ae ale : Bool) :
    (Uri.pat strict ae ale).anchor = .dollar →
      Uri.check strict ae ale cs!"a.b\n" = true ∧ Uri.Spec.ok strict ae ale cs!"a.b\n" = false :=
  Uri.f2_trailing_newline_witness strict ae ale

theorem f2_unicode_digit_witness (ae ale : Bool) :
    (Uri.uriClass true ae ale).usesDigit = true →
      Uri.check true ae ale ['a', '.', '٣'] = true ∧ Uri.Spec.ok true ae ale ['a', '.', '٣'] = false :=
  Uri.f2_unicode_digit_witness ae ale

end Abverif.Wamp
