import Abverif.Proofs.C03
import Abverif.Proofs.Lemmas.SchemaTotal
import Abverif.Proofs.Lemmas.SchemaStrict
import Abverif.Proofs.Lemmas.SchemaRolesSpec
import Abverif.Proofs.Lemmas.UriGrammar
/-
C08 — untrusted WAMP input is either a valid message or a protocol error.  Property theorems.

The Model is the schema engine (`unserializeOne` = envelope checks + `MESSAGE_TYPE_MAP` dispatch + `Klass.parse`,
with every exception class the real code raises, including the constructor `assert`s — finding F3); the Spec is
"only ProtocolError / InvalidUriError, and what is accepted is strictly well-formed".  Statements that today's code
violates are kept as `def … : Prop` (full strength), proved in `_partial` form, and the violation is witnessed.
-/
namespace Abverif.Wamp
open Generated.WampCodes

/-! ## totality: which exception classes can leave `unserialize` -/

/-- **full statement** (C08): parsing any deserialized structure yields a message or one of the library's own
protocol-level errors.  FALSE of today's code (F3): see the witnesses below. -/
def ParseTotalTyped (O : Oracles) : Prop := ∀ v : WVal, ErrIn Allowed (unserializeOne O v)

theorem parse_classes (σ : Schema) (O : Oracles) (w : List WVal) :
    ErrIn (fun c => Allowed c ∨ c = .assertion ∨ c = .typeError) (σ.parse O w) := by
  unfold Schema.parse
  apply ErrIn.bind ((parseStage_classes σ O w).mono (fun c h => h.elim Or.inl (fun h => Or.inr (Or.inr h))))
  intro m _
  apply ErrIn.bind ((ctorStage_classes σ O m).mono (fun c h => h.elim Or.inl (fun h => Or.inr (Or.inl h))))
  intro _ _
  exact ErrIn.pure _

/-- **partial form, all 25 classes, all inputs**: the only other exception classes are the two the model carries
explicitly — `AssertionError` (constructor assertions on values `parse` did not validate) and `TypeError`
(a HELLO/WELCOME role feature named `self`).  Nothing else (no IndexError, KeyError, ValueError, …) can leave. -/
theorem parse_total_typed_partial (O : Oracles) (v : WVal) :
    ErrIn (fun c => Allowed c ∨ c = .assertion ∨ c = .typeError) (unserializeOne O v) := by
  unfold unserializeOne
  split
  · exact ErrIn.fail _ (Or.inl rfl)
  · split
    · exact ErrIn.fail _ (Or.inl rfl)
    · exact ErrIn.bind (parse_classes _ O _) (fun _ _ => ErrIn.pure _)
  · exact ErrIn.fail _ (Or.inl rfl)
  · exact ErrIn.fail _ (Or.inl rfl)

/-- the excluded input class, exactly: a non-library exception out of a class without `roles` means that the input
passed every check of `parse` itself and then tripped a constructor assertion -/
theorem assertion_only_after_parse (σ : Schema) (O : Oracles) (w : List WVal) (hnr : σ.noRoles = true)
    (e : Err) (h : σ.parse O w = .error e) (hna : ¬ Allowed e.cls) :
    e.cls = .assertion ∧ ∃ m, σ.parseStage O w = .ok m ∧ σ.ctorStage O m = .error e := by
  unfold Schema.parse at h
  cases hps : σ.parseStage O w with
  | error e' =>
    rw [hps] at h
    have : e' = e := by simpa [bind, Except.bind] using h
    subst this
    exact absurd (parseStage_allowed σ O w hnr _ hps) hna
  | ok m =>
    rw [hps] at h
    simp only [bind, Except.bind] at h
    cases hcs : σ.ctorStage O m with
    | error e' =>
      rw [hcs] at h
      have : e' = e := by simpa using h
      subst this
      rcases ctorStage_classes σ O m _ hcs with ha | ha
      · exact absurd ha hna
      · exact ⟨ha, m, rfl, hcs⟩
    | ok u =>
      rw [hcs] at h
      simp [pure, Except.pure] at h

/-- **totality at full strength for the classes whose constructors assert nothing that `parse` leaves unchecked** -/
theorem parse_total_typed_assertFree (σ : Schema) (O : Oracles) (w : List WVal)
    (hnr : σ.noRoles = true) (haf : σ.assertFree = true) : ErrIn Allowed (σ.parse O w) := by
  unfold Schema.parse
  apply ErrIn.bind (parseStage_allowed σ O w hnr); intro m _
  apply ErrIn.bind (ctorStage_allowed_of_assertFree σ O m haf); intro _ _
  exact ErrIn.pure _

/-- today these are: ABORT, CHALLENGE, AUTHENTICATE, GOODBYE, PUBLISHED, SUBSCRIBED, EVENT_RECEIVED, REGISTERED and
UNREGISTER (whose constructor asserts nothing at all) -/
theorem assertFree_classes :
    (all25.filter (fun σ => σ.noRoles && σ.assertFree)).map (·.name) =
      [cs!"Abort", cs!"Challenge", cs!"Authenticate", cs!"Goodbye", cs!"Published", cs!"Subscribed",
       cs!"EventReceived", cs!"Registered", cs!"Unregister"] := by decide

/-- class of the error, if any -/
def errClass? (r : Except Err α) : Option ErrClass :=
  match r with
  | .ok _ => none
  | .error e => some e.cls

/-! ### F3 witnesses: today's failing inputs (the faithful model exhibits them) -/

/-- `Error.parse([8,48,1,{"forward_for":[1]},"a.b"])`: AssertionError as long as the `for … break … valid = True` loop of
Error.parse is not repaired (`ffFixed_Error`, regenerated from the source on every run) -/
theorem f3_forward_for_witness :
    ffFixed_Error = false → Schemas.error.ctorAsserts = true →
    errClass? (unserializeOne oracles (.list [.int 8, .int 48, .int 1,
      .dict [(cs!"forward_for", .list [.int 1])], .str cs!"a.b"])) = some .assertion := by decide +kernel

/-- `[8,48,1,{"enc_key":"k"},"a.b",b"xx"]`: `enc_key` without `enc_algo` trips the constructor's triple assertion -/
theorem f3_enc_key_witness :
    Schemas.error.ctorAsserts = true →
    errClass? (unserializeOne oracles (.list [.int 8, .int 48, .int 1,
      .dict [(cs!"enc_key", .str cs!"k")], .str cs!"a.b", .bytes [120, 120]])) = some .assertion := by decide +kernel

/-- `[2,1,{"roles":{"broker":{}},"realm":1}]`: WELCOME takes `realm` unvalidated -/
theorem f3_welcome_realm_witness :
    Schemas.welcome.ctorAsserts = true →
    errClass? (unserializeOne oracles (.list [.int 2, .int 1,
      .dict [(cs!"roles", .dict [(cs!"broker", .dict [])]), (cs!"realm", .int 1)]])) = some .assertion := by decide +kernel

/-- `[35,5,{"subscription":7}]`: UNSUBSCRIBED's constructor asserts request == 0 when a subscription is given -/
theorem f3_unsubscribed_witness :
    Schemas.unsubscribed.ctorAsserts = true →
    errClass? (unserializeOne oracles (.list [.int 35, .int 5, .dict [(cs!"subscription", .int 7)]])) = some .assertion := by
  decide +kernel

/-- `[16,1,{},"a.b","x"]`: PUBLISH accepts a `str` payload which the constructor then rejects -/
theorem f3_publish_str_payload_witness :
    Schemas.publish.ctorAsserts = true →
    errClass? (unserializeOne oracles (.list [.int 16, .int 1, .dict [], .str cs!"a.b", .str cs!"x"])) = some .assertion := by
  decide +kernel

/-- `[1,"realm1",{"roles":{"caller":{"features":{"self":true}}}}]`: TypeError out of `RoleCallerFeatures(**features)` -/
theorem hello_self_feature_witness :
    errClass? (unserializeOne oracles (.list [.int 1, .str cs!"realm1",
      .dict [(cs!"roles", .dict [(cs!"caller", .dict [(cs!"features", .dict [(cs!"self", .bool true)])])])]])) =
      some .typeError := by decide +kernel

/-- hence the full statement fails on the faithful model (as long as ERROR's constructor still asserts) -/
theorem not_parseTotalTyped (hflag : Schemas.error.ctorAsserts = true) : ¬ ParseTotalTyped oracles := by
  intro h
  have hw := f3_enc_key_witness hflag
  unfold errClass? at hw
  split at hw
  · simp at hw
  · rename_i e he
    have := h _ e he
    simp only [Option.some.injEq] at hw
    rw [hw] at this
    simp [Allowed, ErrClass.allowed] at this

/-! ## strictness: what an accepted message satisfies -/

/-- the regenerated bound of `check_or_raise_id` is the protocol's 2^53 -/
theorem id_bound_is_2_53 : idBound = 2 ^ 53 := by decide

theorem idOk_iff_spec (i : Int) : idOk i = specIdOk i := by
  simp [idOk, specIdOk, id_bound_is_2_53]


/-- **full statement** (C08, in terms of the Spec): nothing is accepted that has an id outside [0, 2^53], a URI outside
the *intended* grammar, a wrongly typed option, or a type code that is not the protocol's.  FALSE of today's code:
F2 (URIs), ids in options that are only checked for `int`, `force_reregister: 1`, UNREGISTER's unchecked
`forward_for` — witnesses below. -/
def ParseStrictSpec : Prop :=
  ∀ (v : WVal) (σ : Schema) (m : Msg), unserializeOne oracles v = .ok (σ, m) → σ.specViolations Uri.Spec.ok m = []

/-- every class with an args/kwargs/payload tail carries the three payload assertions -/
theorem schemas_wfCross : ∀ σ ∈ all25, σ.wfCross = true := by
  have h : all25.all (fun σ => σ.wfCross) = true := by decide
  exact fun σ hσ => List.all_eq_true.mp h σ hσ

/-- **partial form, proved for all inputs**: a message accepted by `parse` is `strict` — every positional id lies in
[0, 2^53] (regenerated bound = 2^53, `id_bound_is_2_53`), every URI is accepted by the regenerated recogniser
selected by its flags (REGISTER: by the `match` option), every positional `str`/`dict`/enum has its type, every
option holds its default or a value that passes its type check (`OTy.valid`), args/kwargs/payload and the `enc_*`
triple have the shapes the constructor asserts, and the attribute names are exactly the class's.
What is missing w.r.t. `ParseStrictSpec`: the recogniser is the regenerated regex (equal to the intended grammar by `uri_equiv`), and `OTy.valid` is the *checked* type: ids inside options are only `int`, `boolLoose` admits
0/1, `forwardFor false` admits any list (the witnesses below). -/
theorem parse_strict (σ : Schema) (hσ : σ ∈ roundTrip23) (O : Oracles) (w : List WVal) (m : Msg)
    (h : σ.parse O w = .ok m) : σ.strict O m = true := by
  have hall : σ ∈ all25 := (List.mem_filter.mp hσ).1
  have hnr : σ.noRoles = true := (List.mem_filter.mp hσ).2
  have hwf : σ.wf = true := by
    have hh : all25.all (fun σ => σ.wf) = true := by decide
    exact List.all_eq_true.mp hh σ hall
  exact parse_strict_core σ O w m hwf hnr (schemas_wfCross σ hall) h

/-- ids: a positional id of an accepted message is in the protocol's range -/
theorem parse_strict_ids (σ : Schema) (hσ : σ ∈ roundTrip23) (O : Oracles) (w : List WVal) (m : Msg)
    (h : σ.parse O w = .ok m) (f : Str) (hf : PosStep.id f ∈ σ.pos) :
    ∃ i, m.get f = .int i ∧ 0 ≤ i ∧ i ≤ 2 ^ 53 := by
  have hs := (strict_parts (parse_strict σ hσ O w m h)).2.1 _ hf
  simp only [PosStep.strict] at hs
  split at hs
  · rename_i i hi
    refine ⟨i, hi, ?_⟩
    rw [idOk_iff_spec] at hs
    simp only [specIdOk, Bool.and_eq_true, decide_eq_true_eq] at hs
    exact ⟨hs.1, by simpa using hs.2⟩
  · simp at hs

/-- URIs: a positional URI of an accepted message passed the regenerated pattern for its flags -/
theorem parse_strict_uris (σ : Schema) (hσ : σ ∈ roundTrip23) (O : Oracles) (w : List WVal) (m : Msg)
    (h : σ.parse O w = .ok m) (f : Str) (fl : UriFlags) (hf : PosStep.uri f fl ∈ σ.pos) :
    uriOk O fl (m.get f) = true :=
  (strict_parts (parse_strict σ hσ O w m h)).2.1 _ hf

/-- the regenerated flags: every one of the 13 `forward_for` loops of `parse` is a `for/else` (since /repo e992b44c) and
its entry check admits `authid: None` like the constructors and `marshal()` (since 5051ad59).  Re-introducing the
`for … break … valid = True` shape in any class makes this theorem fail to build. -/
theorem forward_for_loops_repaired :
    [ffFixed_Error, ffFixed_Publish, ffFixed_Subscribe, ffFixed_Unsubscribe, ffFixed_Event, ffFixed_Call, ffFixed_Cancel,
     ffFixed_Result, ffFixed_Register, ffFixed_Unregister, ffFixed_Invocation, ffFixed_Interrupt, ffFixed_Yield].all id = true ∧
    ffAuthidNoneOk = true := by decide

/-- hence an accepted `forward_for` is absent or a list of well-formed entries (dict with `session: int`,
`authid: str | None`, `authrole: str`) — in every class that has the option -/
theorem parse_strict_forward_for (σ : Schema) (hσ : σ ∈ roundTrip23) (O : Oracles) (w : List WVal) (m : Msg)
    (h : σ.parse O w = .ok m) (s : OptStep) (hs : s ∈ σ.opts) (hty : s.ty = .forwardFor true) (hd : s.dflt = .null) :
    m.get s.field = .null ∨ ∃ xs, m.get s.field = .list xs ∧ xs.all ffItemParseOk = true := by
  have hst := (strict_parts (parse_strict σ hσ O w m h)).2.2.1 s hs
  simp only [OptStep.strict, Bool.or_eq_true, hd, hty] at hst
  rcases hst with h0 | h1
  · exact Or.inl (isDflt_eq h0)
  · right
    cases hv : m.get s.field <;> simp_all [OTy.valid]

example : (Schemas.call.opts.filter (fun s => s.field == cs!"forward_for")).map (fun s => (s.ty matches .forwardFor true)) = [true] := by
  decide

/-- witnesses that `ParseStrictSpec` fails today (each is a concrete accepted input with a Spec violation) -/
theorem strict_witness_trailing_newline :
    (Rx._URI_PAT_LOOSE_NON_EMPTY).anchor = .dollar →
    (match unserializeOne oracles (.list [.int 48, .int 1, .dict [], .str cs!"a.b\n"]) with
     | .ok (σ, m) => !(σ.specViolations Uri.Spec.ok m).isEmpty
     | .error _ => false) = true := by decide +kernel

theorem strict_witness_force_reregister :
    (match unserializeOne oracles (.list [.int 64, .int 1, .dict [(cs!"force_reregister", .int 1)], .str cs!"a.b"]) with
     | .ok (σ, m) => !(σ.specViolations Uri.Spec.ok m).isEmpty
     | .error _ => false) = true := by decide +kernel

theorem strict_witness_option_id_range :
    (match unserializeOne oracles (.list [.int 16, .int 1, .dict [(cs!"exclude", .list [.int (-1)])], .str cs!"a.b"]) with
     | .ok (σ, m) => !(σ.specViolations Uri.Spec.ok m).isEmpty
     | .error _ => false) = true := by decide +kernel

theorem strict_witness_unregister_forward_for :
    ffFixed_Unregister = false →
    (match unserializeOne oracles (.list [.int 66, .int 1, .int 2, .dict [(cs!"forward_for", .list [.int 1])]]) with
     | .ok (σ, m) => !(σ.specViolations Uri.Spec.ok m).isEmpty
     | .error _ => false) = true := by decide +kernel

theorem not_parseStrictSpec : ¬ ParseStrictSpec := by
  intro h
  have hw := strict_witness_force_reregister
  split at hw
  · rename_i σ m he
    have := h _ σ m he
    simp [this] at hw
  · simp at hw

/-! ## HELLO / WELCOME role dictionaries -/

/-- **roles: accepted iff the Spec accepts.**  For any role-name list and feature table, the parse model's check of a
`roles` value succeeds exactly on the values `rolesAccept` describes: non-empty str-keyed dict, allowed role names,
dict-valued roles, `features` (if present) a str-keyed dict in which every *known* feature of that role is absent,
null or a JSON bool; unknown feature names ignored; a feature named `self` not accepted. -/
theorem roles_accept_iff (site : Str) (allowed : List Str) (feats : List (Str × List Str)) (v : WVal) :
    isOkB (rolesCheck site allowed feats v) = rolesAccept allowed feats v :=
  rolesCheck_isOk_iff site allowed feats v

/-- HELLO: whatever `Hello.parse` accepts carries details whose `roles` satisfy the Spec for the client roles
(`subscriber`, `publisher`, `caller`, `callee`; names and features regenerated from message.py / role.py) -/
theorem hello_roles_spec (O : Oracles) (w : List WVal) (m : Msg) (h : Schemas.hello.parse O w = .ok m) :
    ∃ rv, Dict.get? (Schemas.hello.optsOf w) cs!"roles" = some rv ∧ rolesAccept helloRoles roleFeatures rv = true :=
  parse_roles_spec Schemas.hello O w m h
    { field := cs!"roles", key := cs!"roles", ty := .roles helloRoles roleFeatures, required := true, mm := .always }
    (by simp [Schemas.hello]) helloRoles roleFeatures rfl rfl

/-- WELCOME: the same for the router roles (`broker`, `dealer`) -/
theorem welcome_roles_spec (O : Oracles) (w : List WVal) (m : Msg) (h : Schemas.welcome.parse O w = .ok m) :
    ∃ rv, Dict.get? (Schemas.welcome.optsOf w) cs!"roles" = some rv ∧ rolesAccept welcomeRoles roleFeatures rv = true :=
  parse_roles_spec Schemas.welcome O w m h
    { field := cs!"roles", key := cs!"roles", ty := .roles welcomeRoles roleFeatures, required := true, mm := .always }
    (by simp [Schemas.welcome]) welcomeRoles roleFeatures rfl rfl

/-- every role that HELLO / WELCOME admit has its feature list in the regenerated table, and each list is non-empty -/
theorem role_tables_cover :
    (helloRoles ++ welcomeRoles).all (fun r => !(roleKnown roleFeatures r).isEmpty) = true := by decide

/-- instances: a falsy non-bool value of a known feature is rejected (ProtocolError), in HELLO and in WELCOME -/
theorem falsy_feature_rejected :
    errClass? (unserializeOne oracles (.list [.int 1, .str cs!"realm1",
      .dict [(cs!"roles", .dict [(cs!"caller", .dict [(cs!"features", .dict [(cs!"call_timeout", .int 0)])])])]])) = some .protocol ∧
    errClass? (unserializeOne oracles (.list [.int 2, .int 1,
      .dict [(cs!"roles", .dict [(cs!"dealer", .dict [(cs!"features", .dict [(cs!"call_timeout", .str [])])])])]])) = some .protocol := by
  decide +kernel

/-! ## re-parse: the re-marshalled form of an accepted message -/

/-- **full statement**: whatever is accepted re-marshals to a form that parses back to the same message
("equivalent to the input": equal up to omitted defaults, dropped unknown keys and key order).  FALSE today. -/
def ReparseEquiv (σ : Schema) : Prop :=
  ∀ (w : List WVal) (m : Msg), σ.parse oracles w = .ok m → σ.parse oracles (σ.marshal m) = .ok m

/-- **partial form**: it holds whenever the accepted message satisfies the residual conditions, i.e. carries none of
the values `marshal` does not write (a falsy value under an `if self.x:` option, empty args/kwargs/payload, a
non-list `args` of PUBLISH, …) -/
theorem reparse_equiv_partial (σ : Schema) (hσ : σ ∈ roundTrip23) (w : List WVal) (m : Msg)
    (h : σ.parse oracles w = .ok m) (hres : σ.residual oracles m = true) :
    σ.parse oracles (σ.marshal m) = .ok m := by
  apply parse_marshal σ oracles (schemas_wf σ (List.mem_filter.mp hσ).1) m
  unfold Schema.Valid Schema.valid
  rw [parse_strict σ hσ oracles w m h, hres]
  rfl

example : Schemas.call.parse oracles (Schemas.call.marshal exCall) = .ok exCall :=
  reparse_equiv_partial _ (mem_roundTrip23 (by simp [all25]) (by decide)) (Schemas.call.marshal exCall) exCall
    (parse_marshal _ _ (schemas_wf _ (by simp [all25])) _ (by decide +kernel))
    (by decide +kernel)

/-- witness: `[16,1,{},"a.b","s",{}]` is accepted by PUBLISH (args may be a `str` there), re-marshals to
`[16,1,{},"a.b","s"]`, which is read as a `str` payload and trips the constructor -/
theorem reparse_witness_publish :
    Schemas.publish.ctorAsserts = true →
    (match Schemas.publish.parse oracles [.int 16, .int 1, .dict [], .str cs!"a.b", .str cs!"s", .dict []] with
     | .ok m => errClass? (Schemas.publish.parse oracles (Schemas.publish.marshal m)) == some .assertion
     | .error _ => false) = true := by decide +kernel

theorem not_reparseEquiv_publish (hflag : Schemas.publish.ctorAsserts = true) : ¬ ReparseEquiv Schemas.publish := by
  intro h
  have hw := reparse_witness_publish hflag
  split at hw
  · rename_i m he
    rw [h _ m he] at hw
    simp [errClass?] at hw
  · simp at hw

/-! ## envelope: type codes and element counts -/

/-- an accepted object is a list whose first element is an `int` type code that `MESSAGE_TYPE_MAP` knows, dispatched
to the class with that code, with an element count in that class's set -/
theorem accepted_envelope (O : Oracles) (v : WVal) (σ : Schema) (m : Msg) (h : unserializeOne O v = .ok (σ, m)) :
    ∃ code rest, v = .list (.int code :: rest) ∧ schemaOfCode code = some σ ∧
      σ.lengths.contains (rest.length + 1) = true := by
  unfold unserializeOne at h
  split at h
  · simp [fail] at h
  · rename_i code rest
    split at h
    · simp [fail] at h
    · rename_i σ' hσ'
      cases hp : σ'.parse O (.int code :: rest) with
      | error e => rw [hp] at h; simp [bind, Except.bind] at h
      | ok m' =>
        rw [hp] at h
        simp only [bind, Except.bind, pure, Except.pure, Except.ok.injEq, Prod.mk.injEq] at h
        obtain ⟨rfl, rfl⟩ := h
        refine ⟨code, rest, rfl, hσ', ?_⟩
        -- the length check is the first thing `parse` does
        unfold Schema.parse Schema.parseStage at hp
        by_cases hl : σ'.lengths.contains (rest.length + 1) = true
        · exact hl
        · have hneg : (!σ'.lengths.contains (List.length (WVal.int code :: rest))) = true := by
            simp only [List.length_cons]
            cases hc : σ'.lengths.contains (rest.length + 1) <;> simp_all
          rw [if_pos hneg] at hp
          simp [fail, bind, Except.bind] at hp
  · simp [fail] at h
  · simp [fail] at h

/-- every code in the regenerated `MESSAGE_TYPE_MAP` is the `MESSAGE_TYPE` of the class it maps to, and there are 25 -/
theorem typeMap_consistent : typeMap.map (fun e => (e.2, e.1)) = messageTypes := by decide

/-! ## URI recognisers (regenerated from `_URI_PAT_*`): regex ⇔ intended grammar

FULL since /repo 8a098028 (patterns end in `\Z`, classes use `0-9`).  Before that fix these were `_partial` theorems with
the hypotheses "no trailing newline" / "no non-ASCII digit" (finding F2); re-introducing `$` or `\d` breaks them. -/

/-- **`check_or_raise_uri` accepts exactly the intended grammar**, for all six patterns (every flag triple) and every
string: components split on '.', characters `[0-9a-z_]` (strict) or anything but whitespace, '.', '#' (loose), emptiness
of components as the flags say -/
theorem uri_equiv (strict ae ale : Bool) (s : List Char) :
    Uri.check strict ae ale s = Uri.Spec.ok strict ae ale s :=
  Uri.uri_equiv strict ae ale s

example : Uri.check true false false cs!"com.example.topic1" = true := by
  rw [uri_equiv]; decide

/-- `_CUSTOM_ATTRIBUTE` (used by `is_valid_enc_algo` / `is_valid_enc_serializer` and WELCOME's custom attributes) -/
theorem custom_attr_equiv (s : List Char) : Uri.customAttr s = Uri.CustomAttr.Spec.ok s := Uri.custom_attr_equiv s

/-- the four realm-name patterns -/
theorem realm_name_equiv (s : List Char) : Uri.realmName s = Uri.Realm.Spec.name s := Uri.realm_name_equiv s
theorem realm_eth_equiv (s : List Char) : Uri.realmEth s = Uri.Realm.Spec.eth s := Uri.realm_eth_equiv s
theorem realm_ens_equiv (s : List Char) : Uri.realmEns s = Uri.Realm.Spec.ens s := Uri.realm_ens_equiv s
theorem realm_ens_reverse_equiv (s : List Char) : Uri.realmEnsReverse s = Uri.Realm.Spec.ensReverse s :=
  Uri.realm_ens_reverse_equiv s

/-- consequently an accepted positional URI lies in the **intended grammar** for its flags (not merely "passed the regex") -/
theorem parse_strict_uris_grammar (σ : Schema) (hσ : σ ∈ roundTrip23) (w : List WVal) (m : Msg)
    (h : σ.parse oracles w = .ok m) (f : Str) (fl : UriFlags) (hf : PosStep.uri f fl ∈ σ.pos) :
    specUriOk Uri.Spec.ok fl (m.get f) = true := by
  have hu := parse_strict_uris σ hσ oracles w m h f fl hf
  cases hv : m.get f <;> simp_all [uriOk, specUriOk, oracles, Uri.uri_equiv _ _ _ _]

/-- legacy F2 witnesses, guarded by the regenerated end anchor / character class: vacuous since 8a098028, they become
live again (and `uri_equiv` stops building) if `$` or `\d` return -/
theorem f2_trailing_newline_witness (strict ae ale : Bool) :
    (Uri.pat strict ae ale).anchor = .dollar →
      Uri.check strict ae ale cs!"a.b\n" = true ∧ Uri.Spec.ok strict ae ale cs!"a.b\n" = false :=
  Uri.f2_trailing_newline_witness strict ae ale

theorem f2_unicode_digit_witness (ae ale : Bool) :
    (Uri.uriClass true ae ale).usesDigit = true →
      Uri.check true ae ale ['a', '.', '٣'] = true ∧ Uri.Spec.ok true ae ale ['a', '.', '٣'] = false :=
  Uri.f2_unicode_digit_witness ae ale

end Abverif.Wamp
