import Abverif.Proofs.Lemmas.WsReasonInv
import Abverif.Proofs.WsCleanClose
/-
# C05: every close frame we send carries a valid-UTF-8 reason of at most 123 octets — whole histories

`close_reasons_valid`: take any history in which the application passes valid UTF-8 text to `sendClose` (what the
Python API guarantees: the argument is a `str`, encoded by the library).  Then in every reachable state every reason
recorded with a close frame we sent is valid UTF-8 — whether it is the application's (truncated by `encode_truncate`),
or the peer's reason echoed back (stored only after it passed the check, truncated the same way), or absent (failures).
The length bound is `one_close_frame` (`LegalClose`).
-/
namespace Abverif.Ws

/-- the application hands `sendClose` text, i.e. valid UTF-8 once encoded -/
def Op.textOk : Op → Prop
  | .close _ (some r) => utf8Valid r = true
  | _ => True

/-- the data-API calls do not touch the close record or the peer's reason -/
theorem Keep.rcr_of_SendEq {a b : S} (h : SendEq a b) : b.remoteCloseReason = a.remoteCloseReason := h.remoteCloseReason

theorem VP.of_Keep {a b : S} (hk : Keep a b) (hr : b.remoteCloseReason = a.remoteCloseReason) : VP a b :=
  VP.of_same hk.1 hk.2.1 hr

theorem sendPrepared_rcr (s : S) (pl : Bytes) (b : Bool) : (sendPrepared s pl b).remoteCloseReason = s.remoteCloseReason := by
  unfold sendPrepared
  have hk : (prepareKey s).1.remoteCloseReason = s.remoteCloseReason := by unfold prepareKey; split <;> rfl
  dsimp only
  split
  · exact hk
  · split
    · exact hk
    · rw [(sendData_SendEq _ _ _ _).remoteCloseReason]; exact hk

theorem beginMessage_rcr (s : S) (b : Bool) : (beginMessage s b).remoteCloseReason = s.remoteCloseReason := by
  unfold beginMessage; split
  · rfl
  · split <;> rfl

theorem beginMessageFrameCore_rcr (s s' : S) (n : Nat) (h : beginMessageFrameCore s n = some s') :
    s'.remoteCloseReason = s.remoteCloseReason := by
  unfold beginMessageFrameCore at h
  split at h
  · cases h
  · split at h
    · cases h
    · dsimp only at h
      split at h
      · cases h
      · simp only [Option.some.injEq] at h
        subst h
        have hk : (drawKey s).1.remoteCloseReason = s.remoteCloseReason := by unfold drawKey; split <;> rfl
        show (sendData _ _ false 0).remoteCloseReason = s.remoteCloseReason
        rw [(sendData_SendEq _ _ _ _).remoteCloseReason]; exact hk

theorem beginMessageFrame_rcr (s : S) (n : Nat) : (beginMessageFrame s n).remoteCloseReason = s.remoteCloseReason := by
  unfold beginMessageFrame
  split
  · rfl
  · split
    · rename_i s' h; exact beginMessageFrameCore_rcr s s' n h
    · rfl

theorem leaveFrameIfDone_rcr (s : S) : (leaveFrameIfDone s).remoteCloseReason = s.remoteCloseReason := by
  unfold leaveFrameIfDone; split <;> rfl

theorem sendMessageFrameData_rcr (s : S) (pl : Bytes) (sync : Bool) :
    (sendMessageFrameData s pl sync).remoteCloseReason = s.remoteCloseReason := by
  unfold sendMessageFrameData
  split
  · rfl
  · split
    · rfl
    · split
      · rfl
      · dsimp only
        rw [leaveFrameIfDone_rcr, (sendData_SendEq _ _ _ _).remoteCloseReason]; rfl

theorem endMessage_rcr (s : S) : (endMessage s).remoteCloseReason = s.remoteCloseReason := by
  unfold endMessage
  split
  · rfl
  · split
    · rfl
    · exact (sendFrame_SendEq s 0 [] true 0 false 0).remoteCloseReason

theorem sendMessageFrame_rcr (s : S) (pl : Bytes) (sync : Bool) :
    (sendMessageFrame s pl sync).remoteCloseReason = s.remoteCloseReason := by
  unfold sendMessageFrame
  split
  · rfl
  · split
    · rfl
    · split
      · rename_i s' h
        rw [sendMessageFrameData_rcr, beginMessageFrameCore_rcr s s' _ h]
      · rfl

theorem stepCore_VP (s : S) (op : Op) (ht : op.textOk) : VP s (stepCore s op) := by
  cases op with
  | feed d => exact dataReceived_VP s d
  | lost => exact connectionLost_VP s
  | advance dt => exact advance_VP s dt
  | sendMessage pl b f sy => exact VP.of_SendEq (sendMessage_SendEq s pl b f sy)
  | sendPrepared pl b => exact VP.of_Keep (sendPrepared_Keep s pl b) (sendPrepared_rcr s pl b)
  | beginMessage b => exact VP.of_Keep (beginMessage_Keep s b) (beginMessage_rcr s b)
  | beginFrame n => exact VP.of_Keep (beginMessageFrame_Keep s n) (beginMessageFrame_rcr s n)
  | frameData pl sy => exact VP.of_Keep (sendMessageFrameData_Keep s pl sy) (sendMessageFrameData_rcr s pl sy)
  | endMessage => exact VP.of_Keep (endMessage_Keep s) (endMessage_rcr s)
  | messageFrame pl sy => exact VP.of_Keep (sendMessageFrame_Keep s pl sy) (sendMessageFrame_rcr s pl sy)
  | ping pl => exact sendPing_VP s pl
  | pong pl => exact sendPong_VP s pl
  | close c r =>
    exact sendClose_VP s c r (by
      intro x hx; subst hx; exact ht)
  | hsDone => exact handshakeDone_VP s
  | hsThenFeed d => exact (handshakeDone_VP s).trans (dataReceived_VP _ d)

theorem step_VP (s : S) (op : Op) (ht : op.textOk) : VP s (step s op) := (stepCore_VP s op ht).trans (pump_VP _)

theorem run_V (ops : List Op) : (∀ op ∈ ops, op.textOk) → ∀ s : S, V s → V (run s ops) := by
  induction ops with
  | nil => intro _ s h; exact h
  | cons op rest ih =>
    intro ht s h
    exact ih (fun o ho => ht o (List.mem_cons_of_mem _ ho)) _ (step_VP s op (ht op (List.mem_cons_self ..)) h)

theorem start_V (cfg : Cfg) : V (start cfg) := by
  unfold start V; dsimp only
  split <;> exact ⟨fun c r h => by simp [armPingNext, S.timer] at h, fun r h => by simp [armPingNext, S.timer] at h⟩

/-- **C05: every close frame we send carries a valid-UTF-8 reason** — every configuration, every history in which the
application passes text to `sendClose` -/
theorem close_reasons_valid (cfg : Cfg) (ops : List Op) (ht : ∀ op ∈ ops, op.textOk) (c : Option Nat) (r : Bytes)
    (h : (c, some r) ∈ (run (start cfg) ops).closeSent) : utf8Valid r = true ∧ r.length ≤ 123 := by
  refine ⟨(run_V ops ht _ (start_V cfg)).1 c r h, ?_⟩
  have := (one_close_frame cfg ops).2.2 (c, some r) h
  exact this.2 r rfl

end Abverif.Ws

namespace Abverif.Ws

/-- a history the theorem speaks about: the application closes with 42 "€" (126 octets of text): the frame carries the
first 41 of them (123 octets), valid UTF-8 -/
example : (run (start {}) [.close (some 1000) (some (List.replicate 42 [0xE2, 0x82, 0xAC]).flatten)]).closeSent
    = [(some 1000, some (List.replicate 41 [0xE2, 0x82, 0xAC]).flatten)] := by
  decide +kernel

end Abverif.Ws
