import Abverif.Proofs.Lemmas.WsOps
import Abverif.Proofs.C05
/-
# C02: failing by closing handshake announces the status code, failing by drop does not write at all

`violation s code` is what every detected protocol violation (code 1002: header checks, continuation errors, close
code rules) and every invalid payload (code 1007: invalid UTF-8 in a text message or a close reason) goes through.
On an OPEN connection:
* `failByDrop = false`: exactly one close frame is recorded, with that status code and no reason, the connection is
  CLOSING and marked as failed by us (`fail_by_close_announces`);
* `failByDrop = true`: nothing is sent, the connection is CLOSED, dropped with abort, reported unclean
  (`fail_by_drop_drops`).
A second violation while CLOSING drops the connection (`second_violation_drops`).
-/
namespace Abverif.Ws

theorem sendCloseFrame_opened_facts (s : S) (c : Option Nat) (r : Option Bytes) (i : Bool) (ho : s.st = .opened) :
    (sendCloseFrame s c r i).st = .closing ∧ (sendCloseFrame s c r i).failedByMe = s.failedByMe := by
  have e := sendFrame_SendEq s 8 (closePayload c r) true 0 false 0
  unfold sendCloseFrame
  simp only [ho]
  split
  · exact ⟨rfl, by show (sendFrame s 8 (closePayload c r)).failedByMe = _; rw [e.failedByMe]⟩
  · exact ⟨rfl, by show (sendFrame s 8 (closePayload c r)).failedByMe = _; rw [e.failedByMe]⟩

theorem fail_by_close_announces (s : S) (code : Nat) (ho : s.st = .opened) (hf : s.cfg.failByDrop = false) :
    (violation s code).1.closeSent = s.closeSent ++ [(some code, none)] ∧
    (violation s code).1.st = .closing ∧ (violation s code).1.failedByMe = true ∧
    (violation s code).2 = false := by
  have h1 : s.st ≠ .closed := by rw [ho]; decide
  have h2 : s.st ≠ .closing := by rw [ho]; decide
  have hv : (violation s code).1 = sendCloseFrame { s with failedByMe := true } (some code) none false := by
    unfold violation failConnection
    simp [h1, hf, h2]
  have hv2 : (violation s code).2 = false := by
    unfold violation; simp [hf]
  obtain ⟨_, _, _, hcs⟩ := close_frame_on_wire { s with failedByMe := true } (some code) none false ho
  have hf2 := sendCloseFrame_opened_facts { s with failedByMe := true } (some code) none false ho
  rw [hv]
  exact ⟨hcs, hf2.1, hf2.2, hv2⟩

theorem fail_by_drop_drops (s : S) (code : Nat) (ho : s.st = .opened) (hf : s.cfg.failByDrop = true) :
    (violation s code).1.closeSent = s.closeSent ∧ (violation s code).1.sentOps = s.sentOps ∧
    (violation s code).1.st = .closed ∧ (violation s code).1.wasClean = false ∧
    (violation s code).1.log = s.log ++ [.closedResolved, .closeConn true] ∧ (violation s code).2 = true := by
  unfold violation failConnection
  have h1 : s.st ≠ .closed := by rw [ho]; decide
  simp only [h1, ne_eq, not_false_eq_true, if_true, hf]
  unfold dropConnection
  simp [h1, S.emit, hf]

theorem second_violation_drops (s : S) (code : Nat) (hc : s.st = .closing) (hf : s.cfg.failByDrop = false) :
    (violation s code).1.st = .closed ∧ (violation s code).1.closeSent = s.closeSent := by
  unfold violation failConnection
  have h1 : s.st ≠ .closed := by rw [hc]; decide
  simp only [h1, ne_eq, not_false_eq_true, if_true, hf, Bool.false_eq_true, if_false, hc, not_true_eq_false]
  unfold dropConnection flushQueue
  simp [hc, S.emit]

end Abverif.Ws
