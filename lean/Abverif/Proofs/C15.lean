import Abverif.Model.Xor
/-
C15 — property theorems. Frame masking is exact XOR with the running key in every implementation.
Everything here is proved for all keys, offsets, alignments, payloads and chunkings (no bound).
-/
namespace Abverif.Xor

/-! ### helper lemmas -/

theorem and3 (i : Nat) : i &&& 3 = i % 4 := Nat.and_two_pow_sub_one_eq_mod i 2

theorem Key.get_mod (k : Key) (i : Nat) : k.get (i % 4) = k.get i := by
  unfold Key.get; rw [Nat.mod_mod]

theorem Key.get_congr (k : Key) {i j : Nat} (h : i % 4 = j % 4) : k.get i = k.get j := by
  unfold Key.get; rw [h]

theorem specBytes_length (k : Key) (p : Nat) (d : Bytes) : (specBytes k p d).length = d.length := by
  induction d generalizing p with
  | nil => rfl
  | cons b bs ih => simp [specBytes, ih]

theorem specBytes_append (k : Key) (p : Nat) (a b : Bytes) :
    specBytes k p (a ++ b) = specBytes k p a ++ specBytes k (p + a.length) b := by
  induction a generalizing p with
  | nil => simp [specBytes]
  | cons x xs ih =>
    simp only [List.cons_append, specBytes, ih, List.length_cons]
    rw [show p + (xs.length + 1) = p + 1 + xs.length by omega]

theorem specBytes_shift4 (k : Key) (p : Nat) (d : Bytes) : specBytes k (p + 4) d = specBytes k p d := by
  induction d generalizing p with
  | nil => rfl
  | cons b bs ih =>
    simp only [specBytes]
    rw [show p + 4 + 1 = (p + 1) + 4 by omega, ih, Nat.add_mod_right]

theorem specBytes_congr (k : Key) {p q : Nat} (h : p % 4 = q % 4) (d : Bytes) :
    specBytes k p d = specBytes k q d := by
  induction d generalizing p q with
  | nil => rfl
  | cons b bs ih =>
    simp only [specBytes, h]
    rw [ih (p := p + 1) (q := q + 1) (by omega)]

theorem simpleLoop_eq (k : Key) (p : Nat) (acc d : Bytes) :
    simpleLoop k p acc d = (acc.reverse ++ specBytes k p d, p + d.length) := by
  induction d generalizing p acc with
  | nil => simp [simpleLoop, specBytes]
  | cons b bs ih =>
    simp only [simpleLoop, ih, specBytes, and3, List.reverse_cons, List.append_assoc,
      List.singleton_append, List.length_cons]
    congr 1
    omega

theorem shiftedLoop_eq (k : Key) (p i : Nat) (d : Bytes) :
    shiftedLoop k (p &&& 3) i d = specBytes k (p + i) d := by
  induction d generalizing i with
  | nil => rfl
  | cons b bs ih =>
    simp only [shiftedLoop, specBytes, mskarray]
    rw [ih (i + 1), show p + (i + 1) = p + i + 1 by omega]
    congr 2
    simp only [and3]
    apply Key.get_congr
    omega

/-- one SSE2 block: XOR with the 16-byte pattern is the spec on up to 16 bytes -/
theorem zipPattern (k : Key) (p s n : Nat) (blk : Bytes) (h : blk.length ≤ n) :
    List.zipWith (· ^^^ ·) blk ((List.range' s n).map (fun i => k.get ((p + i) &&& 3)))
      = specBytes k (p + s) blk := by
  induction n generalizing s blk with
  | zero =>
    have : blk = [] := List.eq_nil_of_length_eq_zero (by omega)
    subst this; rfl
  | succ n ih =>
    cases blk with
    | nil => rfl
    | cons b bs =>
      simp only [List.range'_succ, List.map_cons, List.zipWith_cons_cons, specBytes]
      rw [ih (s + 1) bs (by simpa using h), and3, Key.get_mod]
      rfl

theorem xorBlock_eq (k : Key) (p : Nat) (blk : Bytes) (h : blk.length ≤ 16) :
    xorBlock blk (pattern16 k p) = specBytes k p blk := by
  unfold xorBlock pattern16
  rw [List.range_eq_range']
  simpa using zipPattern k p 0 16 blk h

theorem sse2Body_eq (k : Key) (p n : Nat) (d : Bytes) (h : 16 * n ≤ d.length) :
    sse2Body (pattern16 k p) n d = specBytes k p (d.take (16 * n)) := by
  induction n generalizing d with
  | zero => simp [sse2Body, specBytes]
  | succ n ih =>
    simp only [sse2Body]
    rw [xorBlock_eq k p _ (by simp; omega), ih (d.drop 16) (by simp; omega)]
    have h16 : (d.take 16).length = 16 := by simp; omega
    have : d.take (16 * (n + 1)) = d.take 16 ++ (d.drop 16).take (16 * n) := by
      rw [show 16 * (n + 1) = 16 + 16 * n by omega, List.take_add]
    rw [this, specBytes_append, h16]
    congr 1
    exact (specBytes_congr k (by omega) _)

/-! ### property theorems -/

/-- `XorMaskerSimple` and the native scalar loop are the spec. -/
theorem simple_eq_spec (k : Key) (p : Nat) (d : Bytes) : simple k p d = spec k p d := by
  simp [simple, spec, simpleLoop_eq]

/-- `XorMaskerShifted1` is the spec. -/
theorem shifted1_eq_spec (k : Key) (p : Nat) (d : Bytes) : shifted1 k p d = spec k p d := by
  simp only [shifted1, spec]
  rw [shiftedLoop_eq k p 0 d]; rfl

/-- the SIMD masker is the spec for every buffer alignment and every length:
the unaligned head, the aligned 16-byte blocks and the tail recombine to plain running XOR. -/
theorem sse2_eq_spec (k : Key) (p align : Nat) (d : Bytes) : sse2 k p align d = spec k p d := by
  unfold sse2
  simp only [simple_eq_spec, spec]
  generalize hH : (if d.length ≥ 16 then
      (if align % 16 ≠ 0 then (if 16 - align % 16 > d.length then d.length else 16 - align % 16) else 0)
    else 0) = H
  have hHle : H ≤ d.length := by
    subst hH; repeat' split
    all_goals omega
  have hlen1 : (d.take H).length = H := by simp; omega
  have hdrop : (d.drop H).length = d.length - H := by simp
  rw [hlen1]
  generalize hC : (d.drop H).length / 16 = C
  have hC16 : 16 * C ≤ (d.drop H).length := by subst hC; omega
  rw [sse2Body_eq k (p + H) C (d.drop H) hC16]
  have hlen2 : ((d.drop H).take (16 * C)).length = 16 * C := by simp; omega
  have e : d = d.take H ++ ((d.drop H).take (16 * C) ++ (d.drop H).drop (16 * C)) := by
    rw [List.take_append_drop, List.take_append_drop]
  have hmul : C * 16 = 16 * C := by omega
  rw [hmul]
  congr 1
  · conv => rhs; rw [e]
    rw [specBytes_append, specBytes_append, hlen1, hlen2, List.append_assoc]
  · simp; omega

/-- the pure-Python factory: whichever implementation the length threshold selects, the
behaviour is the spec. -/
theorem factory_irrelevant (len : Option Nat) (k : Key) (p : Nat) (d : Bytes) :
    process (create len) k p d = spec k p d := by
  cases h : create len <;> simp [process, simple_eq_spec, shifted1_eq_spec]

/-- the reported offset equals the number of bytes processed -/
theorem pointer_counts (k : Key) (p : Nat) (d : Bytes) : (spec k p d).2 = p + d.length := rfl

theorem xor_cancel (b x : UInt8) : b ^^^ x ^^^ x = b := by
  rw [UInt8.xor_assoc, UInt8.xor_self, UInt8.xor_zero]

/-- applying the mask twice (from the same offset) restores the input -/
theorem involutive (k : Key) (p : Nat) (d : Bytes) : (spec k p (spec k p d).1).1 = d := by
  simp only [spec]
  induction d generalizing p with
  | nil => rfl
  | cons b bs ih => simp [specBytes, xor_cancel, ih]

/-- any split into two chunks gives the same bytes and offset as one call -/
theorem process_append (k : Key) (p : Nat) (a b : Bytes) :
    (spec k p (a ++ b)).1 = (spec k p a).1 ++ (spec k (spec k p a).2 b).1
    ∧ (spec k p (a ++ b)).2 = (spec k (spec k p a).2 b).2 := by
  simp only [spec, specBytes_append, List.length_append]
  exact ⟨trivial, by omega⟩

/-- every chunking of a payload through one masker object yields the spec of the whole payload -/
theorem chunking_irrelevant (k : Key) (p : Nat) (cs : List Bytes) :
    ((processAll spec k p cs).1.flatten, (processAll spec k p cs).2) = spec k p cs.flatten := by
  induction cs generalizing p with
  | nil => simp [processAll, spec, specBytes]
  | cons c cs ih =>
    have := ih (p + c.length)
    simp only [processAll, spec, List.flatten_cons, specBytes_append, List.length_append] at this ⊢
    rw [Prod.mk.injEq] at this ⊢
    exact ⟨by rw [this.1], by rw [this.2]; omega⟩

/-- all four implementations agree on every call sequence -/
theorem implementations_agree (k : Key) (p align : Nat) (d : Bytes) :
    simple k p d = shifted1 k p d ∧ simple k p d = sse2 k p align d := by
  simp [simple_eq_spec, shifted1_eq_spec, sse2_eq_spec]

/-- the key really is the one selected by the running offset modulo 4 (reads off the spec) -/
theorem spec_getElem (k : Key) (p : Nat) (d : Bytes) (i : Nat) (h : i < d.length) :
    (spec k p d).1[i]'(by simp [spec, specBytes_length]; exact h) = d[i] ^^^ k.get ((p + i) % 4) := by
  simp only [spec]
  induction d generalizing p i with
  | nil => simp at h
  | cons b bs ih =>
    cases i with
    | zero => simp [specBytes]
    | succ i =>
      simp only [specBytes, List.getElem_cons_succ]
      rw [ih (p + 1) i (by simpa using h)]
      congr 3; omega

/-! ### the same facts for each real masker (corollaries through `*_eq_spec`) -/

theorem processAll_congr (f g : Key → Nat → Bytes → Bytes × Nat) (h : ∀ k p d, f k p d = g k p d) (k : Key) :
    ∀ (cs : List Bytes) (p : Nat), processAll f k p cs = processAll g k p cs := by
  intro cs
  induction cs with
  | nil => intro p; rfl
  | cons c cs ih => intro p; simp only [processAll, h, ih]

/-- `XorMaskerSimple`: pointer, involution, any chunking -/
theorem simple_laws (k : Key) (p : Nat) (d : Bytes) (cs : List Bytes) :
    (simple k p d).2 = p + d.length ∧ (simple k p (simple k p d).1).1 = d ∧
    ((processAll simple k p cs).1.flatten, (processAll simple k p cs).2) = simple k p cs.flatten := by
  refine ⟨by rw [simple_eq_spec]; rfl, by rw [simple_eq_spec, simple_eq_spec]; exact involutive k p d, ?_⟩
  rw [processAll_congr simple spec simple_eq_spec, simple_eq_spec]; exact chunking_irrelevant k p cs

/-- `XorMaskerShifted1` -/
theorem shifted1_laws (k : Key) (p : Nat) (d : Bytes) (cs : List Bytes) :
    (shifted1 k p d).2 = p + d.length ∧ (shifted1 k p (shifted1 k p d).1).1 = d ∧
    ((processAll shifted1 k p cs).1.flatten, (processAll shifted1 k p cs).2) = shifted1 k p cs.flatten := by
  refine ⟨by rw [shifted1_eq_spec]; rfl, by rw [shifted1_eq_spec, shifted1_eq_spec]; exact involutive k p d, ?_⟩
  rw [processAll_congr shifted1 spec shifted1_eq_spec, shifted1_eq_spec]; exact chunking_irrelevant k p cs

/-- the NVX SSE2 masker, with a DIFFERENT buffer alignment for every chunk (`aligns`; missing entries read as 0) -/
def processAllSse2 (k : Key) : Nat → List Nat → List Bytes → List Bytes × Nat
  | p, _, [] => ([], p)
  | p, as, c :: cs =>
    let r := sse2 k p (as.headD 0) c
    let rs := processAllSse2 k r.2 as.tail cs
    (r.1 :: rs.1, rs.2)

theorem sse2_laws (k : Key) (p align align2 : Nat) (d : Bytes) :
    (sse2 k p align d).2 = p + d.length ∧ (sse2 k p align2 (sse2 k p align d).1).1 = d := by
  refine ⟨by rw [sse2_eq_spec]; rfl, by rw [sse2_eq_spec, sse2_eq_spec]; exact involutive k p d⟩

theorem sse2_chunking_irrelevant (k : Key) (cs : List Bytes) :
    ∀ (p : Nat) (as : List Nat) (align : Nat),
      ((processAllSse2 k p as cs).1.flatten, (processAllSse2 k p as cs).2) = sse2 k p align cs.flatten := by
  induction cs with
  | nil => intro p as align; rw [sse2_eq_spec]; simp [processAllSse2, spec, specBytes]
  | cons c cs ih =>
    intro p as align
    have h := ih (sse2 k p (as.headD 0) c).2 as.tail align
    simp only [processAllSse2, List.flatten_cons]
    rw [Prod.mk.injEq] at h ⊢
    rw [h.1, h.2]
    simp only [sse2_eq_spec]
    have := process_append k p c cs.flatten
    exact ⟨this.1.symm, this.2.symm⟩

/-! non-vacuity: concrete instances -/
example : sse2 ⟨1, 2, 3, 4⟩ 1 5 ((List.range 40).map UInt8.ofNat)
    = spec ⟨1, 2, 3, 4⟩ 1 ((List.range 40).map UInt8.ofNat) := by decide
example : (spec ⟨1, 2, 3, 4⟩ 2 [0x10, 0x20, 0x30]).1 = [0x13, 0x24, 0x31] := by decide

end Abverif.Xor
