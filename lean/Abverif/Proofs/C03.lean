import Abverif.Proofs.Lemmas.SchemaRT6
import Abverif.Proofs.Lemmas.BatchLemmas
import Abverif.Model.WampInst
/-
C03 — WAMP messages survive every serializer unchanged.  Property theorems.

Spec ⇄ Model: the Model is the schema engine (`Schema.parse` / `Schema.marshal`, mirroring message.py) and the batching
functions (`Batch.*`, mirroring serializer.py); the Spec is "what comes back is what was sent".  The serializer
libraries (json / msgpack / cbor2 / bjdata) enter as an abstract `Codec` with the law `dec (enc v) = some v` on a
stated domain; that law is only tested (harness/c03.py), everything else here is proved for all messages, all
admissible option subsets, unbounded payload values and every batch size.
-/
namespace Abverif.Wamp
open Generated.WampCodes

/-- well-formed schema (decidable; `schemas_wf` checks it for the concrete schemas) -/
def Schema.WF (σ : Schema) (O : Oracles) : Prop := σ.wf = true ∧ σ.wfO O = true

/-- admissible message of class σ: strict (declared types, ids, URIs) and free of the values `marshal` drops -/
def Schema.Valid (σ : Schema) (O : Oracles) (m : Msg) : Prop := σ.valid O m = true

instance (σ : Schema) (O : Oracles) (m : Msg) : Decidable (σ.Valid O m) := by
  unfold Schema.Valid; infer_instance

/-- **parse ∘ marshal = id**, generic in the schema and in the URI recognisers: every message class described by a
well-formed schema, every admissible combination of options/details, payload values of any size. -/
theorem parse_marshal (σ : Schema) (O : Oracles) (hwf : σ.WF O) (m : Msg) (hv : σ.Valid O m) :
    σ.parse O (σ.marshal m) = .ok m :=
  parse_marshal_generic σ O hwf.1 hwf.2 m hv

/-- every one of the 25 schemas is well-formed (decided on the concrete schemas; codes, role names and feature lists
regenerated from the source) — so `parse_marshal` applies to all 25 message classes -/
theorem schemas_wf : ∀ σ ∈ all25, σ.WF oracles := by
  have h : all25.all (fun σ => σ.wf && σ.wfO oracles) = true := by decide
  intro σ hσ
  have := List.all_eq_true.mp h σ hσ
  simp only [Bool.and_eq_true] at this
  exact ⟨this.1, this.2⟩

/-- the 23 classes without a `roles` entry (all but HELLO and WELCOME); used by the C08 strictness theorems -/
def roundTrip23 : List Schema :=
  all25.filter (fun σ => σ.noRoles)

theorem mem_roundTrip23 {σ : Schema} (h : σ ∈ all25) (hn : σ.noRoles = true) : σ ∈ roundTrip23 :=
  List.mem_filter.mpr ⟨h, hn⟩

theorem roundTrip23_names :
    roundTrip23.map (·.name) =
      [cs!"Abort", cs!"Challenge", cs!"Authenticate", cs!"Goodbye", cs!"Error", cs!"Publish", cs!"Published",
       cs!"Subscribe", cs!"Subscribed", cs!"Unsubscribe", cs!"Unsubscribed", cs!"Event", cs!"EventReceived",
       cs!"Call", cs!"Cancel", cs!"Result", cs!"Register", cs!"Registered", cs!"Unregister", cs!"Unregistered",
       cs!"Invocation", cs!"Interrupt", cs!"Yield"] := by decide

/-- the admissible element counts of every schema are the ones written in the class's `parse` (regenerated) -/
theorem schema_lengths : all25.map (fun σ => (σ.name, σ.lengths)) = Generated.WampCodes.lengths := by decide

/-- the type code of every schema is the class's `MESSAGE_TYPE` (regenerated) -/
theorem schema_codes : all25.map (fun σ => (σ.name, σ.code)) = messageTypes := by decide

/-- the regenerated `MESSAGE_TYPE`s are the codes of the WAMP protocol (spec table in Model/SchemaSpec.lean) -/
theorem codes_match_protocol : messageTypes = specCodes := by decide

/-- **type dispatch**: the code `marshal` writes selects, through the regenerated `Serializer.MESSAGE_TYPE_MAP`, the
class the message came from — for all 25 classes -/
theorem type_dispatch : ∀ σ ∈ all25, schemaOfCode σ.code = some σ := by
  intro σ hσ
  simp only [all25, List.mem_cons, List.not_mem_nil, or_false] at hσ
  rcases hσ with rfl | rfl | rfl | rfl | rfl | rfl | rfl | rfl | rfl | rfl | rfl | rfl | rfl | rfl | rfl | rfl | rfl |
    rfl | rfl | rfl | rfl | rfl | rfl | rfl | rfl <;> rfl

theorem unserializeOne_cons (O : Oracles) (code : Int) (rest : List WVal) :
    unserializeOne O (.list (.int code :: rest)) =
      (match schemaOfCode code with
       | none => fail .protocol cs!"envelope:code"
       | some σ => do let m ← σ.parse O (.int code :: rest); pure (σ, m)) := rfl

/-- what `Serializer.unserialize` does with the object a round-tripped message deserializes to -/
theorem unserialize_marshal (σ : Schema) (hσ : σ ∈ all25) (O : Oracles) (m : Msg) :
    unserializeOne O (.list (σ.marshal m)) = (σ.parse O (σ.marshal m)).map (fun x => (σ, x)) := by
  have hd := type_dispatch σ hσ
  rw [marshal_eq, unserializeOne_cons, hd]
  simp only []
  cases σ.parse O _ <;> rfl

/-- **end to end for one message**, relative to the serializer library's law -/
structure Codec where
  enc : WVal → Bytes
  dec : Bytes → Option WVal
  dom : WVal → Prop
  law : ∀ v, dom v → dec (enc v) = some v

theorem serialize_unserialize_one (C : Codec) (σ : Schema) (hσ : σ ∈ all25) (m : Msg)
    (hv : σ.Valid oracles m) (hdom : C.dom (.list (σ.marshal m))) :
    (C.dec (C.enc (.list (σ.marshal m)))).map (unserializeOne oracles) = some (.ok (σ, m)) := by
  rw [C.law _ hdom, Option.map_some, unserialize_marshal σ hσ, parse_marshal σ oracles (schemas_wf σ hσ) m hv]
  rfl

/-! ### batching -/

/-- JSON batching (`b"\30"` after every message, `split(b"\30")[:-1]`): N messages come back as the same N messages
in order, for every N ≥ 1, provided no serialized message contains the octet 0x18 (JSON text never does:
control characters are escaped) -/
theorem unbatch_batch_json (ms : List Bytes) (hne : ms ≠ []) (h : ∀ m ∈ ms, Batch.SEP ∉ m) :
    Batch.unbatchJson (Batch.batchJson ms) = .ok ms := by
  unfold Batch.unbatchJson
  rw [Batch.splitSep_batchJson ms h]
  simp only [List.dropLast_concat]
  cases ms with
  | nil => exact absurd rfl hne
  | cons a t => rfl

example : Batch.unbatchJson (Batch.batchJson [[0x5b, 0x5d], [], [0x31]]) = .ok [[0x5b, 0x5d], [], [0x31]] :=
  unbatch_batch_json _ (by simp) (by decide)

/-- the hypothesis `ms ≠ []` is needed: an empty batch is a "batch format error" -/
theorem unbatch_batch_json_empty : Batch.unbatchJson (Batch.batchJson []) = .error .empty := rfl

/-- binary batching (u32 big-endian length prefix): N messages come back as the same N messages in order, for
every N ≥ 0, provided every serialized message is shorter than 2^32 octets (`struct.pack("!L", n)` raises otherwise) -/
theorem unbatch_batch_bin (ms : List Bytes) (h : ∀ m ∈ ms, m.length < 4294967296) :
    Batch.unbatchBin (Batch.batchBin ms) = .ok ms :=
  Batch.unbatchBinAux_batchBin ms h _ (Nat.le_succ_of_le (Batch.batchBin_length_ge ms))

example : Batch.unbatchBin (Batch.batchBin [[1, 2, 3], [], [0x18]]) = .ok [[1, 2, 3], [], [0x18]] :=
  unbatch_batch_bin _ (by decide)

/-- the text/binary flag: `BINARY` is false exactly for the JSON object serializer (regenerated table) -/
theorem binary_flag : ∀ e ∈ serializerBinary, e.2 = !(e.1 == cs!"json") := by decide

/-- the JSON object serializer is in the table (so the statement above is not vacuous for it) -/
theorem binary_flag_json : serializerBinary.find? (fun e => e.1 == cs!"json") = some (cs!"json", false) := by decide

/-! ### concrete instances of the hypotheses (non-trivial messages that are `Valid`) -/

def exCall : Msg :=
  [(cs!"request", .int 9007199254740992), (cs!"procedure", .str cs!"com.example.add2"),
   (cs!"args", .list [.int 1, .str cs!"x", .bytes [0, 255]]), (cs!"kwargs", .dict [(cs!"k", .list [.null, .bool true])]),
   (cs!"payload", .null), (cs!"enc_algo", .null), (cs!"enc_key", .null), (cs!"enc_serializer", .null),
   (cs!"timeout", .int 0), (cs!"receive_progress", .bool false), (cs!"transaction_hash", .null),
   (cs!"caller", .int 3), (cs!"caller_authid", .str cs!"joe"), (cs!"caller_authrole", .null),
   (cs!"forward_for", .list [.dict [(cs!"session", .int 1), (cs!"authid", .str cs!"a"), (cs!"authrole", .str cs!"r")]])]

example : Schemas.call.Valid oracles exCall := by decide +kernel
example : Schemas.call ∈ all25 := by simp [all25]
example : Schemas.call.parse oracles (Schemas.call.marshal exCall) = .ok exCall :=
  parse_marshal _ _ (schemas_wf _ (by simp [all25])) _ (by decide +kernel)

def exEventPayload : Msg :=
  [(cs!"subscription", .int 1), (cs!"publication", .int 0),
   (cs!"args", .null), (cs!"kwargs", .null), (cs!"payload", .bytes [1, 2]), (cs!"enc_algo", .str cs!"cryptobox"),
   (cs!"enc_key", .str cs!"k"), (cs!"enc_serializer", .str cs!"x_myser"),
   (cs!"publisher", .null), (cs!"publisher_authid", .null), (cs!"publisher_authrole", .null), (cs!"topic", .null),
   (cs!"retained", .bool true), (cs!"transaction_hash", .null), (cs!"x_acknowledged_delivery", .null),
   (cs!"forward_for", .null)]

example : Schemas.event.Valid oracles exEventPayload := by decide +kernel

def exRegister : Msg :=
  [(cs!"request", .int 1), (cs!"procedure", .str cs!"com.example."), (cs!"match", .str cs!"prefix"),
   (cs!"invoke", .str cs!"single"), (cs!"concurrency", .int 2), (cs!"force_reregister", .bool false),
   (cs!"forward_for", .null)]

example : Schemas.register.Valid oracles exRegister := by decide +kernel

def exHello : Msg :=
  [(cs!"realm", .str cs!"realm1"),
   (cs!"roles", .dict [(cs!"caller", .dict [(cs!"caller_identification", .bool true), (cs!"progressive_call_results", .bool false)]),
                       (cs!"subscriber", .dict [])]),
   (cs!"authmethods", .list [.str cs!"wampcra"]), (cs!"authid", .str cs!"joe"), (cs!"authrole", .null),
   (cs!"authextra", .dict [(cs!"k", .int 1)]), (cs!"resumable", .bool false), (cs!"resume_session", .int 77),
   (cs!"resume_token", .str cs!"tok")]

example : Schemas.hello.Valid oracles exHello := by decide +kernel

def exWelcome : Msg :=
  [(cs!"session", .int 9007199254740992), (cs!"realm", .str cs!"realm1"), (cs!"authid", .str cs!"joe"),
   (cs!"authrole", .str cs!"user"), (cs!"authmethod", .str cs!"ticket"), (cs!"authprovider", .null),
   (cs!"authextra", .dict [(cs!"k", .int 1)]), (cs!"resumed", .bool true), (cs!"resumable", .null),
   (cs!"resume_token", .null),
   (cs!"roles", .dict [(cs!"broker", .dict [(cs!"publisher_identification", .bool true)]), (cs!"dealer", .dict [])]),
   (cs!"custom", .dict [(cs!"x_cb_node", .str cs!"n1")])]

example : Schemas.welcome.Valid oracles exWelcome := by decide +kernel
example : Schemas.welcome.parse oracles (Schemas.welcome.marshal exWelcome) = .ok exWelcome :=
  parse_marshal _ _ (schemas_wf _ (by simp [all25])) _ (by decide +kernel)

/-- WELCOME with an `authmethod` but no `authrole` survives the round trip (before the repair of the copy/paste slip
`if self.authrole: details["authmethod"] = …` in `Welcome.marshal` the method was lost, and a WELCOME with an `authrole`
but no `authmethod` was written with `"authmethod": null`) -/
def exWelcomeMethodOnly : Msg :=
  [(cs!"session", .int 1), (cs!"realm", .str cs!"realm1"), (cs!"authid", .str cs!"joe"),
   (cs!"authrole", .null), (cs!"authmethod", .str cs!"ticket"), (cs!"authprovider", .null),
   (cs!"authextra", .null), (cs!"resumed", .null), (cs!"resumable", .null), (cs!"resume_token", .null),
   (cs!"roles", .dict [(cs!"broker", .dict [])]), (cs!"custom", .dict [])]

theorem welcome_authmethod_without_authrole :
    Schemas.welcome.parse oracles (Schemas.welcome.marshal exWelcomeMethodOnly) = .ok exWelcomeMethodOnly :=
  parse_marshal _ _ (schemas_wf _ (by simp [all25])) _ (by decide +kernel)

/-- values the hypotheses exclude really are lost by today's `marshal` (the model exhibits it): GOODBYE with
`resumable = False` comes back with `resumable = None` -/
theorem falsy_option_dropped :
    (Schemas.goodbye.parse oracles (Schemas.goodbye.marshal
        [(cs!"reason", .str cs!"wamp.close.normal"), (cs!"message", .null), (cs!"resumable", .bool false)])).toOption.map
      (fun m => (m.get cs!"resumable").isNull) = some true := by decide +kernel

end Abverif.Wamp
