import Abverif.Model.Handshake
import Abverif.Proofs.Lemmas.C07Str
/-!
C07 — `parseHttpHeader (render hs) = hs` for header maps that are safe to render (no CR/LF/`:` in names, no line
breaks in values, nothing `strip()` would remove, distinct names).  Used for the self-interoperation statements.
-/
namespace Abverif.Handshake
open Abverif Abverif.Http

/-- a header `(name, value)` that `renderHeaders` + `parseHttpHeader` reproduce (with the name lowered) -/
structure HeaderSafe (kv : Bytes × Bytes) : Prop where
  key_ne : kv.1 ≠ []
  key_chars : ∀ c ∈ kv.1, c ≠ 58 ∧ isBrk c = false ∧ isSpace c = false
  val_nobrk : ∀ c ∈ kv.2, isBrk c = false
  val_head : ∀ c, kv.2.head? = some c → isSpace c = false
  val_last : ∀ c, kv.2.getLast? = some c → isSpace c = false

theorem splitlinesGo_line (l rest cur : Bytes) (hl : ∀ c ∈ l, isBrk c = false) :
    splitlinesGo false (l ++ 13 :: 10 :: rest) cur = (cur.reverse ++ l) :: splitlinesGo false rest [] := by
  induction l generalizing cur with
  | nil =>
    simp [splitlinesGo, isBrk]
  | cons c l ih =>
    have hc : isBrk c = false := hl c (by simp)
    have := ih (c :: cur) (fun x hx => hl x (by simp [hx]))
    simp [splitlinesGo, hc, this]

theorem splitlines_line (l rest : Bytes) (hl : ∀ c ∈ l, isBrk c = false) :
    splitlines (l ++ 13 :: 10 :: rest) = l :: splitlines rest := by
  unfold splitlines
  rw [splitlinesGo_line l rest [] hl]
  simp

/-- one rendered header line -/
def headerLine (kv : Bytes × Bytes) : Bytes := kv.1 ++ b!": " ++ kv.2

theorem headerLine_nobrk {kv : Bytes × Bytes} (h : HeaderSafe kv) : ∀ c ∈ headerLine kv, isBrk c = false := by
  intro c hc
  simp [headerLine] at hc
  rcases hc with hc | hc | hc | hc
  · exact (h.key_chars c hc).2.1
  · subst hc; decide
  · subst hc; decide
  · exact h.val_nobrk c hc

theorem strip_space_cons (v : Bytes) : strip (32 :: v) = strip v := by
  simp [strip, stripBy, lstripBy, isSpace]

theorem parseLine_headerLine {kv : Bytes × Bytes} (h : HeaderSafe kv) :
    parseLine (headerLine kv) = some (lower kv.1, kv.2) := by
  obtain ⟨k, v⟩ := kv
  have hcut : cut 58 (k ++ 58 :: (32 :: v)) = some (k, 32 :: v) :=
    (cut_some_iff 58 _ k (32 :: v)).2 ⟨rfl, fun hm => (h.key_chars 58 hm).1 rfl⟩
  have hfind : findB 58 (headerLine (k, v)) = some k.length := by
    rw [findB_eq_cut]
    simp only [headerLine, List.append_assoc, List.cons_append, List.nil_append]
    rw [hcut]; rfl
  have hpos : k.length > 0 := List.length_pos_iff.mpr h.key_ne
  have hk : strip k = k := by
    apply strip_of_clean
    · intro c hc
      have : c ∈ k := List.mem_of_mem_head? hc
      exact (h.key_chars c this).2.2
    · intro c hc
      have : c ∈ k := List.mem_of_getLast? hc
      exact (h.key_chars c this).2.2
  have hv : strip (32 :: v) = v := by
    rw [strip_space_cons]
    exact strip_of_clean h.val_head h.val_last
  unfold parseLine
  rw [hfind]
  simp only [hpos, if_true]
  have h1 : (headerLine (k, v)).take k.length = k := by simp [headerLine]
  have h2 : (headerLine (k, v)).drop (k.length + 1) = 32 :: v := by
    simp [headerLine, List.drop_append]
  rw [h1, h2, hk, hv]

/-- rendering: each header on its own CRLF-terminated line -/
theorem renderHeaders_cons (kv : Bytes × Bytes) (hs : List (Bytes × Bytes)) :
    renderHeaders (kv :: hs) = headerLine kv ++ 13 :: 10 :: renderHeaders hs := by
  simp [renderHeaders, headerLine, crlf]

def keysOf (hs : List Hdr) : List Bytes := hs.map (·.key)

theorem hdrInsert_fresh {hs : List Hdr} {k : Bytes} (h : k ∉ keysOf hs) (v : Bytes) :
    hdrInsert hs k v = hs ++ [⟨k, v, 1⟩] := by
  induction hs with
  | nil => rfl
  | cons x xs ih =>
    simp [keysOf] at h
    unfold hdrInsert
    have : x.key ≠ k := fun e => h.1 e.symm
    simp [this]
    exact ih (by simpa [keysOf] using h.2)

/-- the parsed form of a header list -/
def parsedOf (hs : List (Bytes × Bytes)) : List Hdr := hs.map (fun kv => ⟨lower kv.1, kv.2, 1⟩)

theorem addLines_rendered (acc : List Hdr) (hs : List (Bytes × Bytes)) (hsafe : ∀ kv ∈ hs, HeaderSafe kv)
    (hnodup : (keysOf acc ++ hs.map (fun kv => lower kv.1)).Nodup) :
    addLines acc (splitlines (renderHeaders hs ++ [13, 10])) = acc ++ parsedOf hs := by
  induction hs generalizing acc with
  | nil =>
    have : splitlines [13, 10] = [[]] := by decide
    simp [renderHeaders, this, addLines, parseLine, findB, parsedOf]
  | cons kv hs ih =>
    have hs1 := hsafe kv (by simp)
    rw [renderHeaders_cons, List.append_assoc, List.cons_append, List.cons_append,
      splitlines_line _ _ (headerLine_nobrk hs1)]
    simp only [addLines, parseLine_headerLine hs1]
    have hfresh : lower kv.1 ∉ keysOf acc := by
      intro hm
      have := List.nodup_append.1 hnodup
      exact this.2.2 _ hm _ (by simp) rfl
    rw [hdrInsert_fresh hfresh]
    have := ih (acc ++ [⟨lower kv.1, kv.2, 1⟩]) (fun x hx => hsafe x (by simp [hx])) (by
      simp only [keysOf, List.map_append, List.map_cons, List.map_nil, List.append_assoc, List.singleton_append]
      simpa [keysOf] using hnodup)
    rw [this]
    simp [parsedOf]

/-- **parse_render_headers**: a first line without line breaks followed by rendered `HeaderSafe` headers with distinct
(case-insensitively) names and the blank line parses back to exactly those headers, each counted once. -/
theorem parse_render_headers (line0 : Bytes) (hs : List (Bytes × Bytes)) (h0 : ∀ c ∈ line0, isBrk c = false)
    (hsafe : ∀ kv ∈ hs, HeaderSafe kv) (hnodup : (hs.map (fun kv => lower kv.1)).Nodup) :
    parseHttpHeader (line0 ++ crlf ++ renderHeaders hs ++ crlf) = some (strip line0, parsedOf hs) := by
  unfold parseHttpHeader
  have : line0 ++ crlf ++ renderHeaders hs ++ crlf = line0 ++ 13 :: 10 :: (renderHeaders hs ++ [13, 10]) := by
    simp [crlf]
  rw [this, splitlines_line _ _ h0]
  simp only
  rw [addLines_rendered [] hs hsafe (by simpa [keysOf] using hnodup)]
  simp

end Abverif.Handshake
