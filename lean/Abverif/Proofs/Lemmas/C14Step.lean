import Abverif.Proofs.Lemmas.C14Rel
/-!
C14 — every step of the model is accepted by the Spec checks and re-establishes the relation.
-/
namespace Abverif.Comp
open Spec

/-- result of an emitter: checks pass along its output and the full relation holds afterwards -/
structure StepOK (c : Conf) (k : Core) (r : State × List Obs) : Prop where
  chk : ChecksOK c k r.2
  rel : Rel c r.1 (feedAll c k r.2)

/-! ### a connection attempt -/

theorem att_checks {c : Conf} {trs : List Tr} {done : Option Bool} {k : Core}
    (h : RelT c trs done k) (i : Nat) (t : Tr) (hg : trs[i]? = some t) (hcan : t.canReconnect = true)
    (w tm : Q)
    (hw : w = Q.zero ∨ (t.attempts ≠ 0 ∧ ((0 ≤ (c.maxD i).num) → w.le (c.maxD i) = true)))
    (hrr : firstElig c k (startOf k.last) = some i) :
    ChecksOK c k [.att i w tm] := by
  have r := h.tr i t hg
  have hc := hcan
  unfold Tr.canReconnect at hc
  have hpf : t.permFail = false := by
    cases hp : t.permFail <;> simp [hp] at hc ⊢
  simp only [hpf, Bool.false_eq_true, if_false] at hc
  refine ⟨?_, ?_, ?_, ?_, ?_, ?_, ?_⟩
  · simp only [specAll, finTrue, Bool.and_true, chkBudget, budgetOk, r.mr]
    by_cases h1 : t.maxRetries = -1
    · simp [h1]
    · simp only [h1, if_false, decide_eq_true_eq] at hc
      have := r.cnt_eq
      simp [h1]; omega
  · simp [specAll, finTrue, chkFatal, r.failed, hpf]
  · simp only [specAll, finTrue, Bool.and_true, chkFirst]
    rcases hw with rfl | ⟨h0, _⟩
    · simp [Q.zero_isZero]
    · have := r.ever
      have : k.ever i ≠ 0 := by omega
      simp [this]
  · simp [specAll, finTrue, chkDoneOnce]
  · intro hnn
    simp only [specAll, finTrue, Bool.and_true, chkDelay]
    rcases hw with rfl | ⟨_, hle⟩
    · exact Q.zero_le _ (hnn i)
    · exact hle (hnn i)
  · simp [specAll, finTrue, chkRoundRobin, hrr]
  · simp [specAll, finTrue, chkGiveUp]

/-- `attempt_connect` from a state in which transport `i` was legitimately chosen -/
theorem attempt_ok {c : Conf} {s : State} {k : Core} (h : RelT c s.trs s.done k)
    (i : Nat) (t : Tr) (hg : s.trs[i]? = some t) (hcan : t.canReconnect = true) (w : Q)
    (hw : w = Q.zero ∨ (t.attempts ≠ 0 ∧ ((0 ≤ (c.maxD i).num) → w.le (c.maxD i) = true)))
    (hrr : firstElig c k (startOf k.last) = some i)
    (hcur : s.cursor = (i + 1) % c.n) :
    StepOK c k (attemptConnect i w s) := by
  refine ⟨att_checks h i t hg hcan w s.now hw hrr, ?_⟩
  refine ⟨?_, ?_⟩
  · simpa [attemptConnect, feedAll] using h.att i w s.now
  · simp only [PhaseOK, attemptConnect, feedAll, List.foldl_cons, List.foldl_nil]
    refine ⟨⟨_, updAt_get_same _ _ _ _ hg⟩, ?_⟩
    simp [Core.feed, startOf, hcur]

/-! ### completions -/

theorem RelT.setDone {c : Conf} {trs : List Tr} {k : Core} {ok : Bool}
    (h : RelT c trs none k) : RelT c trs (some ok) (k.feed c (.done ok)) :=
  h.core_congr rfl rfl rfl rfl

theorem done_checks_true {c : Conf} {k : Core} (hd : k.done = none) :
    ChecksOK c k [.done true] := by
  refine ⟨?_, ?_, ?_, ?_, ?_, ?_, ?_⟩ <;>
    simp [specAll, finTrue, chkBudget, chkFatal, chkFirst, chkDoneOnce, chkDelay, chkRoundRobin, chkGiveUp, hd]

theorem done_checks_false {c : Conf} {trs : List Tr} {k : Core} (h : RelT c trs none k)
    (hany : trs.any Tr.canReconnect = false) : ChecksOK c k [.done false] := by
  refine ⟨?_, ?_, ?_, ?_, ?_, ?_, ?_⟩
  · simp [specAll, finTrue, chkBudget]
  · simp [specAll, finTrue, chkFatal]
  · simp [specAll, finTrue, chkFirst]
  · simp [specAll, finTrue, chkDoneOnce, h.done_eq]
  · intro _; simp [specAll, finTrue, chkDelay]
  · simp [specAll, finTrue, chkRoundRobin]
  · simp [specAll, finTrue, chkGiveUp, anyElig_eq h, hany]

/-! ### `transport_check` -/

theorem tc_ok {c : Conf} {s : State} {k : Core} (h : RelM c s k) :
    StepOK c k (transportCheck s) := by
  have hT := h.t
  have hcs := tc_cases s
  generalize transportCheck s = r at hcs ⊢
  cases hcs with
  | stopped hs =>
    unfold stopCheck
    cases hd : s.done with
    | none =>
      rw [hd] at hT
      refine ⟨done_checks_true (by rw [hT.done_eq]), ⟨?_, ?_⟩⟩
      · simpa [feedAll] using hT.setDone (ok := true)
      · simp [PhaseOK]
    | some b =>
      refine ⟨ChecksOK.nil _ _, ⟨?_, ?_⟩⟩
      · simpa [feedAll, hd] using hT
      · simp [PhaseOK, hd]
  | giveUp hany =>
    unfold Comp.setDone
    cases hd : s.done with
    | none =>
      rw [hd] at hT
      refine ⟨done_checks_false hT hany, ⟨?_, ?_⟩⟩
      · simpa [feedAll] using hT.setDone (ok := false)
      · simp [PhaseOK]
    | some b =>
      refine ⟨ChecksOK.quiet _ _ _ (by simp [Obs.quiet]), ⟨?_, ?_⟩⟩
      · simpa [feedAll, Core.feed, hd] using hT
      · simp [PhaseOK, hd]
  | wait i t t' d hpick hget hcan hnd hpos =>
    have nf := Tr.nextDelay_facts t t' _ d hnd
    have hT' : RelT c (updAt (fun _ => t') s.trs i) s.done k := by
      refine ⟨by rw [updAt_length]; exact hT.n_eq, ?_, hT.done_eq⟩
      intro j tj hg
      rw [updAt_get] at hg
      by_cases hji : j = i
      · subst hji
        simp only [if_true, hget, Option.map_some, Option.some.injEq] at hg
        subst hg
        exact (hT.tr _ t hget).of_eq rfl rfl rfl nf.mr nf.maxD nf.att nf.pf
      · simp only [hji, if_false] at hg
        exact hT.tr j tj hg
    refine ⟨ChecksOK.nil _ _, ⟨by simpa [tcState, feedAll] using hT', ?_⟩⟩
    simp only [PhaseOK, tcState, feedAll, List.foldl_nil]
    refine ⟨t', updAt_get_same _ _ _ _ hget, ?_, ?_, ?_, ?_, ?_⟩
    · rw [Tr.canReconnect_congr t t' nf.mr nf.att nf.pf]; exact hcan
    · rw [nf.att]; exact nf.pos hpos
    · intro hnn
      rw [(hT.tr i t hget).maxD] at hnn ⊢
      exact nf.le hnn
    · rw [firstElig_eq_pick hT, ← h.cur]; exact hpick
    · rw [hT.n_eq]
  | now i t t' d hpick hget hcan hnd hpos =>
    have nf := Tr.nextDelay_facts t t' _ d hnd
    have hT' : RelT c (tcState s i t t').trs (tcState s i t t').done k := by
      refine ⟨by simp only [tcState]; rw [updAt_length]; exact hT.n_eq, ?_, hT.done_eq⟩
      intro j tj hg
      simp only [tcState] at hg
      rw [updAt_get] at hg
      by_cases hji : j = i
      · subst hji
        simp only [if_true, hget, Option.map_some, Option.some.injEq] at hg
        subst hg
        exact (hT.tr _ t hget).of_eq rfl rfl rfl nf.mr nf.maxD nf.att nf.pf
      · simp only [hji, if_false] at hg
        exact hT.tr j tj hg
    have := attempt_ok (c := c) (s := tcState s i t t') (k := k) hT' i t'
      (by simp only [tcState]; exact updAt_get_same _ _ _ _ hget)
      (by rw [Tr.canReconnect_congr t t' nf.mr nf.att nf.pf]; exact hcan) Q.zero (Or.inl rfl)
      (by rw [firstElig_eq_pick hT, ← h.cur]; exact hpick)
      (by simp only [tcState]; rw [hT.n_eq])
    exact this

end Abverif.Comp

namespace Abverif.Comp
open Spec

/-! ### assembling step outputs -/

theorem all_neutral_iff (l : List Obs) : l.all Obs.neutral = true ↔ ∀ o ∈ l, o.neutral = true := by
  simp [List.all_eq_true]

theorem all_quiet_iff (l : List Obs) : l.all Obs.quiet = true ↔ ∀ o ∈ l, o.quiet = true := by
  simp [List.all_eq_true]

@[simp] theorem sfire_all_neutral (cfg : Cfg) (ev : Ev) (n : Nat) : (sfire cfg ev n).all Obs.neutral = true :=
  (all_neutral_iff _).mpr (sfire_neutral cfg ev n)

@[simp] theorem sfire_all_quiet (cfg : Cfg) (ev : Ev) (n : Nat) : (sfire cfg ev n).all Obs.quiet = true :=
  (all_quiet_iff _).mpr (fun o ho => neutral_quiet o (sfire_neutral cfg ev n o ho))

@[simp] theorem feedAll_sfire (c : Conf) (k : Core) (cfg : Cfg) (ev : Ev) (n : Nat) :
    feedAll c k (sfire cfg ev n) = k := feedAll_neutral c k _ (sfire_neutral cfg ev n)

@[simp] theorem feed_fail (c : Conf) (k : Core) (i : Nat) : k.feed c (.fail i) = k := rfl
@[simp] theorem feed_sess (c : Conf) (k : Core) (n i : Nat) : k.feed c (.sess n i) = k := rfl
@[simp] theorem feed_lateDone (c : Conf) (k : Core) (b : Bool) : k.feed c (.lateDone b) = k := rfl

@[simp] theorem feedAll_joinedPre (c : Conf) (k : Core) (cfg : Cfg) (n i : Nat) :
    feedAll c k (joinedPre cfg n i) = k.feed c (.join i) := by
  simp [joinedPre, feedAll_append, feedAll_cons]

@[simp] theorem joinedPre_all_quiet (cfg : Cfg) (n i : Nat) : (joinedPre cfg n i).all Obs.quiet = true := by
  simp [joinedPre, List.all_append, Obs.quiet]

theorem StepOK.wrap {c : Conf} {k k1 : Core} {r : State × List Obs} {out pre post : List Obs}
    (h : StepOK c k1 r) (hout : out = pre ++ r.2 ++ post) (hpre : pre.all Obs.quiet = true)
    (hk : feedAll c k pre = k1) (hpost : post.all Obs.neutral = true) : StepOK c k (r.1, out) := by
  subst hout
  have hpn := (all_neutral_iff _).mp hpost
  constructor
  · refine ChecksOK.append (ChecksOK.append (ChecksOK.quiet _ _ _ ((all_quiet_iff _).mp hpre)) ?_) ?_
    · rw [hk]; exact h.chk
    · exact ChecksOK.quiet _ _ _ (fun o ho => neutral_quiet o (hpn o ho))
  · show Rel c r.1 (feedAll c k (pre ++ r.2 ++ post))
    rw [feedAll_append, feedAll_append, hk, feedAll_neutral _ _ _ hpn]
    exact h.rel

theorem StepOK.stutter {c : Conf} {s : State} {k : Core} (h : Rel c s k) : StepOK c k (s, []) :=
  ⟨ChecksOK.nil _ _, h⟩

/-! ### cfg is never changed -/

theorem setDone_cfg (ok : Bool) (s : State) : (Comp.setDone ok s).1.cfg = s.cfg := by
  unfold Comp.setDone; split <;> rfl

theorem tc_cfg (s : State) : (transportCheck s).1.cfg = s.cfg := by
  have hcs := tc_cases s
  generalize transportCheck s = r at hcs ⊢
  cases hcs with
  | stopped _ => unfold stopCheck; split <;> rfl
  | giveUp _ => exact setDone_cfg _ _
  | wait => rfl
  | now => rfl

theorem failRetry_cfg (i : Nat) (f : Bool) (s : State) : (failRetry i f s).1.cfg = s.cfg := by
  unfold failRetry; split
  · exact tc_cfg _
  · exact tc_cfg _

theorem joinOn_cfg (i : Nat) (s : State) : (joinOn i s).cfg = s.cfg := rfl

theorem sessionDone_cfg (i : Nat) (f : Bool) (s : State) : (sessionDone i f s).1.cfg = s.cfg := by
  unfold sessionDone; split
  · rfl
  · split
    · exact failRetry_cfg _ _ _
    · rfl

theorem step_cfg (s : State) (e : Event) : (step s e).1.cfg = s.cfg := by
  cases e with
  | start => simp only [step]; split <;> first | exact tc_cfg _ | rfl
  | delayElapsed => simp only [step]; split <;> rfl
  | stop =>
    simp only [step, onStop]
    split <;> try rfl
    · exact setDone_cfg _ _
    · split <;> rfl
  | outcome o f =>
    simp only [step]
    split
    · simp only [onOutcome]
      cases o <;> simp only [] <;>
        first
        | exact failRetry_cfg _ _ _
        | (rw [failRetry_cfg, joinOn_cfg])
        | (rw [sessionDone_cfg, joinOn_cfg])
        | (split <;> first | rfl | (rw [sessionDone_cfg, joinOn_cfg]) | (rw [failRetry_cfg, joinOn_cfg]))
        | exact joinOn_cfg _ _
    · rfl
  | sess e f =>
    simp only [step, onSess]
    split <;> first | exact failRetry_cfg _ _ _ | exact sessionDone_cfg _ _ _ | rfl

end Abverif.Comp

namespace Abverif.Comp
open Spec

/-! ### error path, clean end -/

theorem failRetry_ok {c : Conf} {s : State} {k : Core} (h : RelM c s k) (i : Nat) (f : Bool) :
    StepOK c k (failRetry i f s) := by
  unfold failRetry
  split
  · have h1 : RelM c { s with trs := updAt Tr.failed s.trs i } (k.feed c (.fatal i)) :=
      ⟨h.t.fatal i, by simpa [Core.feed] using h.cur⟩
    have := (tc_ok h1).wrap (out := .fatal i :: (transportCheck { s with trs := updAt Tr.failed s.trs i }).2)
      (pre := [.fatal i]) (post := []) (k := k) (by simp) (by simp [Obs.quiet]) (by simp [feedAll]) (by simp)
    exact this
  · exact tc_ok h

theorem sessionDone_ok {c : Conf} {s : State} {k : Core} (h : RelM c s k) (i : Nat) (f : Bool) :
    StepOK c k (sessionDone i f s) := by
  unfold sessionDone
  cases hd : s.done with
  | none =>
    have hT := h.t
    rw [hd] at hT
    refine ⟨done_checks_true (by rw [hT.done_eq]), ⟨?_, ?_⟩⟩
    · simpa [feedAll] using hT.setDone (ok := true)
    · simp [PhaseOK]
  | some b =>
    simp only []
    split
    · have := (failRetry_ok h i f).wrap (out := .lateDone true :: (failRetry i f s).2)
        (pre := [.lateDone true]) (post := []) (k := k) (by simp) (by simp [Obs.quiet]) (by simp [feedAll]) (by simp)
      exact this
    · refine ⟨ChecksOK.quiet _ _ _ (by simp [Obs.quiet]), ⟨?_, ?_⟩⟩
      · have hT := h.t
        rw [hd] at hT
        simpa [feedAll] using hT
      · simp [PhaseOK, hd]

theorem joinOn_trs (i : Nat) (s : State) :
    (joinOn i s).trs = updAt (fun t => { t.reset with successes := 1 }) s.trs i := rfl

theorem joinOn_done (i : Nat) (s : State) : (joinOn i s).done = s.done := rfl

theorem joinOn_cursor (i : Nat) (s : State) : (joinOn i s).cursor = s.cursor := rfl

theorem joinOn_stopping (i : Nat) (s : State) : (joinOn i s).stopping = s.stopping := rfl

/-- after WELCOME on transport `i` -/
theorem RelM.join {c : Conf} {s : State} {k : Core} (h : RelM c s k) (i n : Nat) :
    RelM c (joinOn i { s with nsess := n }) (k.feed c (.join i)) := by
  constructor
  · rw [joinOn_trs, joinOn_done]
    exact h.t.join i
  · rw [joinOn_cursor]
    have : (k.feed c (.join i)).last = k.last := rfl
    rw [this]; exact h.cur

theorem RelM.core_congr {c : Conf} {s : State} {k k' : Core} (h : RelM c s k)
    (h1 : k'.cnt = k.cnt) (h2 : k'.ever = k.ever) (h3 : k'.failed = k.failed) (hd : k'.done = k.done)
    (hl : k'.last = k.last) : RelM c s k' :=
  ⟨h.t.core_congr h1 h2 h3 (by rw [hd, h.t.done_eq]), by rw [hl]; exact h.cur⟩

theorem Rel.toM {c : Conf} {s : State} {k : Core} (h : Rel c s k)
    (hp : s.cursor = startOf k.last % c.n) : RelM c s k := ⟨h.t, hp⟩

theorem firstElig_congr {c : Conf} {k k' : Core} (h1 : k'.cnt = k.cnt) (h3 : k'.failed = k.failed) (st : Nat) :
    firstElig c k' st = firstElig c k st := by
  have : elig c k' = elig c k := by
    funext j; simp [elig, budgetOk, h1, h3]
  simp [firstElig, this]

theorem PhaseOK.core_congr {c : Conf} {s : State} {k k' : Core} (h : PhaseOK c s k)
    (h1 : k'.cnt = k.cnt) (h3 : k'.failed = k.failed) (hl : k'.last = k.last) : PhaseOK c s k' := by
  unfold PhaseOK at *
  split <;> simp_all [firstElig_congr h1 h3]

theorem Rel.core_congr {c : Conf} {s : State} {k k' : Core} (h : Rel c s k)
    (h1 : k'.cnt = k.cnt) (h2 : k'.ever = k.ever) (h3 : k'.failed = k.failed) (hd : k'.done = k.done)
    (hl : k'.last = k.last) : Rel c s k' :=
  ⟨h.t.core_congr h1 h2 h3 (by rw [hd, h.t.done_eq]), h.ph.core_congr h1 h3 hl⟩

end Abverif.Comp

namespace Abverif.Comp
open Spec

/-! ### the step theorem -/

theorem phase_waiting {c : Conf} {s : State} {k : Core} (h : Rel c s k) {i : Nat} {d : Q}
    (hp : s.phase = .waiting i d) :
    ∃ t, s.trs[i]? = some t ∧ t.canReconnect = true ∧ t.attempts ≠ 0
        ∧ ((0 ≤ (c.maxD i).num) → d.le (c.maxD i) = true)
        ∧ firstElig c k (startOf k.last) = some i
        ∧ s.cursor = (i + 1) % c.n := by
  have := h.ph; unfold PhaseOK at this; rw [hp] at this; exact this

theorem phase_conn {c : Conf} {s : State} {k : Core} (h : Rel c s k) {i : Nat}
    (hp : s.phase = .connecting i ∨ s.phase = .up i ∨ s.phase = .closing i) :
    (∃ t, s.trs[i]? = some t) ∧ s.cursor = startOf k.last % c.n := by
  have := h.ph; unfold PhaseOK at this
  rcases hp with hp | hp | hp <;> (rw [hp] at this; exact this)

theorem onOutcome_ok {c : Conf} {s : State} {k : Core} (h : Rel c s k) (i : Nat) (hp : s.phase = .connecting i)
    (o : Outcome) (f : Bool) : StepOK c k (onOutcome i o f s) := by
  obtain ⟨_, hcur⟩ := phase_conn h (Or.inl hp)
  have hM : RelM c s k := h.toM hcur
  have hMn : ∀ n, RelM c { s with nsess := n } k := fun n => ⟨hM.t, hM.cur⟩
  have hJ : ∀ n, RelM c (joinOn i { s with nsess := n }) (k.feed c (.join i)) := fun n => hM.join i n
  cases o with
  | refused =>
    have h1 : RelM c { s with trs := updAt (fun t => { t with failures := t.failures + (if s.cfg.aio then 2 else 1) }) s.trs i } k :=
      ⟨hM.t.updAt_congr i _ (fun _ => rfl) (fun _ => rfl) (fun _ => rfl) (fun _ => rfl), hM.cur⟩
    exact (failRetry_ok h1 i f).wrap (pre := [.fail i]) (post := []) (by simp [onOutcome]) (by simp [Obs.quiet])
      (by simp [feedAll]) (by simp)
  | hsFail =>
    exact (failRetry_ok hM i f).wrap (pre := [.fail i]) (post := []) (by simp [onOutcome]) (by simp [Obs.quiet])
      (by simp [feedAll]) (by simp)
  | abort =>
    exact (failRetry_ok (hMn (s.nsess + 1)) i f).wrap
      (pre := [.fail i, .sess s.nsess i] ++ sfire s.cfg .connect s.nsess ++ sfire s.cfg .leave s.nsess)
      (post := sfire s.cfg .disconnect s.nsess) (by simp [onOutcome])
      (by simp [List.all_append, Obs.quiet]) (by simp [feedAll_append, feedAll_cons, feedAll_nil]) (by simp)
  | joinedLost =>
    have := (failRetry_ok (hJ (s.nsess + 1)) i f).wrap (k := k)
      (out := (onOutcome i .joinedLost f s).2)
      (pre := .fail i :: joinedPre s.cfg s.nsess i ++ sfire s.cfg .leave s.nsess)
      (post := sfire s.cfg .disconnect s.nsess) (by simp [onOutcome])
      (by simp [List.all_append, Obs.quiet]) (by simp [feedAll_append, feedAll_cons]) (by simp)
    exact this
  | joinedLeave =>
    have hC : RelM c (joinOn i { s with nsess := s.nsess + 1 }) ((k.feed c (.join i)).feed c (.cleanEnd i)) :=
      (hJ _).core_congr rfl rfl rfl rfl rfl
    have := (sessionDone_ok hC i f).wrap (k := k)
      (out := (onOutcome i .joinedLeave f s).2)
      (pre := joinedPre s.cfg s.nsess i ++ [.cleanEnd i] ++ sfire s.cfg .leave s.nsess)
      (post := sfire s.cfg .disconnect s.nsess) (by simp [onOutcome])
      (by simp [List.all_append, Obs.quiet]) (by simp [feedAll_append, feedAll_cons, feedAll_nil]) (by simp)
    exact this
  | mainReturns =>
    simp only [onOutcome]
    split
    · have hC : RelM c (joinOn i { s with nsess := s.nsess + 1 }) ((k.feed c (.join i)).feed c (.cleanEnd i)) :=
        (hJ _).core_congr rfl rfl rfl rfl rfl
      have := (sessionDone_ok hC i f).wrap (k := k)
        (out := joinedPre s.cfg s.nsess i ++ [.cleanEnd i] ++ sfire s.cfg .leave s.nsess
                ++ (sessionDone i f (joinOn i { s with nsess := s.nsess + 1 })).2 ++ sfire s.cfg .disconnect s.nsess)
        (pre := joinedPre s.cfg s.nsess i ++ [.cleanEnd i] ++ sfire s.cfg .leave s.nsess)
        (post := sfire s.cfg .disconnect s.nsess) (by simp)
        (by simp [List.all_append, Obs.quiet]) (by simp [feedAll_append, feedAll_cons, feedAll_nil]) (by simp)
      exact this
    · exact StepOK.stutter h
  | mainRaises =>
    simp only [onOutcome]
    split
    · have hC : RelM c (joinOn i { s with nsess := s.nsess + 1 }) ((k.feed c (.join i)).feed c (.mainRaised i)) :=
        (hJ _).core_congr rfl rfl rfl rfl rfl
      have := (failRetry_ok hC i f).wrap (k := k)
        (out := joinedPre s.cfg s.nsess i ++ [.mainRaised i]
                ++ (failRetry i f (joinOn i { s with nsess := s.nsess + 1 })).2
                ++ sfire s.cfg .leave s.nsess ++ sfire s.cfg .disconnect s.nsess)
        (pre := joinedPre s.cfg s.nsess i ++ [.mainRaised i])
        (post := sfire s.cfg .leave s.nsess ++ sfire s.cfg .disconnect s.nsess) (by simp)
        (by simp [List.all_append, Obs.quiet]) (by simp [feedAll_append, feedAll_cons, feedAll_nil])
        (by simp [List.all_append])
      exact this
    · exact StepOK.stutter h
  | joined =>
    simp only [onOutcome]
    have hj := hJ (s.nsess + 1)
    refine ⟨ChecksOK.quiet _ _ _ ((all_quiet_iff _).mp (by simp)), ⟨?_, ?_⟩⟩
    · simpa using hj.t
    · obtain ⟨⟨t, hg⟩, _⟩ := phase_conn h (Or.inl hp)
      simp only [PhaseOK, feedAll_joinedPre]
      refine ⟨?_, hj.cur⟩
      have hl : i < s.trs.length := by
        rcases Nat.lt_or_ge i s.trs.length with h | h
        · exact h
        · rw [List.getElem?_eq_none h] at hg; cases hg
      have : i < (joinOn i { s with nsess := s.nsess + 1 }).trs.length := by
        rw [joinOn_trs, updAt_length]; exact hl
      exact ⟨_, List.getElem?_eq_getElem this⟩

end Abverif.Comp

namespace Abverif.Comp
open Spec

theorem onSess_ok {c : Conf} {s : State} {k : Core} (h : Rel c s k) (e : SessEv) (f : Bool) :
    StepOK c k (onSess e f s) := by
  unfold onSess
  split
  · next i hp =>
    obtain ⟨_, hcur⟩ := phase_conn h (Or.inr (Or.inl hp))
    exact (failRetry_ok (h.toM hcur) i f).wrap (pre := .fail i :: sfire s.cfg .leave (s.nsess - 1))
      (post := sfire s.cfg .disconnect (s.nsess - 1)) (by simp)
      (by simp [Obs.quiet]) (by simp [feedAll_cons]) (by simp)
  · next i hp =>
    obtain ⟨_, hcur⟩ := phase_conn h (Or.inr (Or.inr hp))
    exact (failRetry_ok (h.toM hcur) i f).wrap (pre := .fail i :: sfire s.cfg .leave (s.nsess - 1))
      (post := sfire s.cfg .disconnect (s.nsess - 1)) (by simp)
      (by simp [Obs.quiet]) (by simp [feedAll_cons]) (by simp)
  · next i hp =>
    obtain ⟨_, hcur⟩ := phase_conn h (Or.inr (Or.inl hp))
    have hC : RelM c s (k.feed c (.cleanEnd i)) := (h.toM hcur).core_congr rfl rfl rfl rfl rfl
    exact (sessionDone_ok hC i f).wrap (pre := [.cleanEnd i] ++ sfire s.cfg .leave (s.nsess - 1))
      (post := sfire s.cfg .disconnect (s.nsess - 1)) (by simp)
      (by simp [Obs.quiet]) (by simp [feedAll_cons, feedAll_append, feedAll_nil]) (by simp)
  · next i hp =>
    obtain ⟨_, hcur⟩ := phase_conn h (Or.inr (Or.inr hp))
    have hC : RelM c s (k.feed c (.cleanEnd i)) := (h.toM hcur).core_congr rfl rfl rfl rfl rfl
    exact (sessionDone_ok hC i f).wrap (pre := [.cleanEnd i] ++ sfire s.cfg .leave (s.nsess - 1))
      (post := sfire s.cfg .disconnect (s.nsess - 1)) (by simp)
      (by simp [Obs.quiet]) (by simp [feedAll_cons, feedAll_append, feedAll_nil]) (by simp)
  · exact StepOK.stutter h

theorem Rel.feed_stop {c : Conf} {s : State} {k : Core} (h : Rel c s k) : Rel c s (k.feed c .stop) :=
  h.core_congr rfl rfl rfl rfl rfl

theorem Rel.set_stopping {c : Conf} {s : State} {k : Core} (h : Rel c s k) :
    Rel c { s with stopping := true } k := ⟨h.t, h.ph⟩

theorem onStop_ok {c : Conf} {s : State} {k : Core} (h : Rel c s k) :
    StepOK c k (onStop s) := by
  unfold onStop
  split
  · exact StepOK.stutter h
  · next i d hp =>
    unfold Comp.setDone
    dsimp only
    cases hd : s.done with
    | none =>
      have hT := h.feed_stop.t
      rw [hd] at hT
      refine ⟨ChecksOK.append (a := [.stop]) (b := [.done true]) (ChecksOK.quiet _ _ _ (by simp [Obs.quiet]))
        (done_checks_true (by simpa [feedAll] using hT.done_eq)), ⟨?_, ?_⟩⟩
      · simpa [feedAll] using hT.setDone (ok := true)
      · simp [PhaseOK]
    | some b =>
      refine ⟨ChecksOK.quiet _ _ _ (by simp [Obs.quiet]), ⟨?_, ?_⟩⟩
      · have hT := h.feed_stop.t
        simpa [feedAll, hd] using hT
      · simp [PhaseOK, hd]
  · next i hp =>
    cases hd : s.done with
    | none =>
      dsimp only
      have hT := h.feed_stop.t
      rw [hd] at hT
      refine ⟨ChecksOK.append (a := [.stop]) (b := [.done true]) (ChecksOK.quiet _ _ _ (by simp [Obs.quiet]))
        (done_checks_true (by simpa [feedAll] using hT.done_eq)), ⟨?_, ?_⟩⟩
      · simpa [feedAll] using hT.setDone (ok := true)
      · have := phase_conn h (Or.inl hp)
        simp only [PhaseOK, hp, feedAll, List.foldl_cons, List.foldl_nil]
        simpa [Core.feed] using this
    | some b =>
      dsimp only
      refine ⟨ChecksOK.quiet _ _ _ (by simp [Obs.quiet]), ?_⟩
      simpa [feedAll, hd] using h.feed_stop.set_stopping
  · next i hp =>
    refine ⟨ChecksOK.quiet _ _ _ (by simp [Obs.quiet]), ⟨?_, ?_⟩⟩
    · simpa [feedAll] using h.feed_stop.t
    · have := phase_conn h (Or.inr (Or.inl hp))
      simp only [PhaseOK, feedAll, List.foldl_cons, List.foldl_nil]
      simpa [Core.feed] using this
  · refine ⟨ChecksOK.quiet _ _ _ (by simp [Obs.quiet]), ?_⟩
    simpa [feedAll] using h.feed_stop.set_stopping

theorem step_ok {c : Conf} {s : State} {k : Core} (h : Rel c s k) (e : Event) :
    StepOK c k (step s e) := by
  cases e with
  | start =>
    simp only [step]
    split
    · next hp =>
      have := h.ph; unfold PhaseOK at this; rw [hp] at this
      exact tc_ok (h.toM this)
    · exact StepOK.stutter h
  | delayElapsed =>
    simp only [step]
    split
    · next i d hp =>
      obtain ⟨t, hg, hcan, h0, hle, hrr, hcur⟩ := phase_waiting h hp
      exact attempt_ok (s := { s with now := s.now.add d }) h.t i t hg hcan d (Or.inr ⟨h0, hle⟩) hrr hcur
    · exact StepOK.stutter h
  | stop => exact onStop_ok h
  | outcome o f =>
    simp only [step]
    split
    · next i hp => exact onOutcome_ok h i hp o f
    · exact StepOK.stutter h
  | sess e f => exact onSess_ok h e f

end Abverif.Comp
