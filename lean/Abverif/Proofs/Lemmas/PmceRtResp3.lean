import Abverif.Model.Pmce
/- C12 round trip, responses, slice server_no_context_takeover=true, client_no_context_takeover=true (kernel-checked) -/
namespace Abverif.Pmce
theorem parse_render_response_slice3 :
    ∀ sw ∈ winVals, ∀ cw ∈ winVals,
      (OfferAccept.reparse ⟨⟨true, true, true, sw⟩, true, cw, none, none, none⟩) = some ⟨cw, true, sw, true⟩ := by
  decide +kernel
end Abverif.Pmce
