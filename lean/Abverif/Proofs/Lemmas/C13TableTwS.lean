import Abverif.Proofs.Lemmas.C13TableDefs
/- C13: complete table of the 2^16 values of handshake octets 1–2 (reserved octets zero) for `twServerHs genIds 15`. -/
namespace Abverif.RawSocket.Table

def chkTwS (n : Nat) : Bool := ((twServerHs genIds 15 (o1 n) (o2 n) 0 0).accepted == specB genIds n)

theorem tableTwS : allRange chkTwS 0 16 = true := by decide +kernel

end Abverif.RawSocket.Table
