import Abverif.Proofs.Lemmas.C14Step
/-!
C14 — listener bubbling: `ObservableMixin.fire` on a session reaches the component's listeners; the log of every run
satisfies the `Fire` monitor.
-/
namespace Abverif.Comp
open Spec

/-! ### `fire` on the chain session → component -/

theorem userCalls_append (n : Nat) (a b : List Handler) :
    userCalls n (a ++ b) = userCalls n a ++ userCalls n b := by
  induction a with
  | nil => rfl
  | cons h r ih => cases h <;> simp [userCalls, ih]

theorem userCalls_own (n : Nat) (ev : Ev) :
    userCalls n (([(Ev.leave, Handler.onLeave), (Ev.join, Handler.onJoin),
        (Ev.disconnect, Handler.onDisconnect)].filter (fun p => p.1 = ev)).map (·.2)) = [] := by
  cases ev <;> simp [userCalls]

theorem userCalls_comp (n : Nat) (ls : List Ev) (ev : Ev) :
    userCalls n (((ls.map fun e => (e, Handler.user e)).filter (fun p => p.1 = ev)).map (·.2))
      = (ls.filter (fun e => e = ev)).map (fun e => Obs.call e n) := by
  induction ls with
  | nil => rfl
  | cons e r ih =>
    by_cases h : e = ev
    · simp [h, userCalls, ih]
    · simp [h, ih]

theorem filter_eq_nodup (ls : List Ev) (ev : Ev) (hnd : ls.Nodup) :
    ls.filter (fun e => e = ev) = if ls.contains ev then [ev] else [] := by
  induction ls with
  | nil => rfl
  | cons e r ih =>
    rw [List.nodup_cons] at hnd
    by_cases h : e = ev
    · subst h
      have : r.filter (fun x => x = e) = [] := by
        rw [List.filter_eq_nil_iff]; intro a ha; simp; intro hae; subst hae; exact hnd.1 ha
      simp [this]
    · have h' : ¬ ev = e := fun x => h x.symm
      simp [h, h', ih hnd.2]

/-- what a session firing puts on the log: the firing itself, then exactly one call of the component's listener for
that event if there is one -/
theorem sfire_eq (cfg : Cfg) (hnd : cfg.listeners.Nodup) (ev : Ev) (n : Nat) :
    sfire cfg ev n = .sfire ev n :: (if cfg.listeners.contains ev then [.call ev n] else []) := by
  unfold sfire
  congr 1
  have e1 : fireChain [sessionOwn, compNode cfg.listeners] ev
      = (([(Ev.leave, Handler.onLeave), (Ev.join, Handler.onJoin),
          (Ev.disconnect, Handler.onDisconnect)].filter (fun p => p.1 = ev)).map (·.2))
        ++ fireChain [compNode cfg.listeners] ev := rfl
  rw [e1, userCalls_append, userCalls_own, List.nil_append]
  cases hl : cfg.listeners with
  | nil => simp [compNode, fireChain, userCalls]
  | cons e r =>
    have e2 : fireChain [compNode (e :: r)] ev
        = (((e :: r).map fun x => (x, Handler.user x)).filter (fun p => p.1 = ev)).map (·.2) := by
      simp [compNode, fireChain]
    rw [e2, userCalls_comp, ← hl, filter_eq_nodup _ _ hnd]
    split <;> simp

/-- **bubbling at the source**: a listener registered on the component for `ev` is among the handlers run when a
session created by `_connect_once` fires `ev` (such a session always has own listeners, so `fire` does consult the
parent). -/
theorem fire_reaches_component (ls : List Ev) (ev : Ev) (h : ev ∈ ls) :
    Handler.user ev ∈ fireChain [sessionOwn, compNode ls] ev := by
  have e1 : fireChain [sessionOwn, compNode ls] ev
      = (([(Ev.leave, Handler.onLeave), (Ev.join, Handler.onJoin),
          (Ev.disconnect, Handler.onDisconnect)].filter (fun p => p.1 = ev)).map (·.2))
        ++ fireChain [compNode ls] ev := rfl
  rw [e1, List.mem_append]
  right
  cases ls with
  | nil => cases h
  | cons e r =>
    have e2 : fireChain [compNode (e :: r)] ev
        = (((e :: r).map fun x => (x, Handler.user x)).filter (fun p => p.1 = ev)).map (·.2) := by
      simp [compNode, fireChain]
    rw [e2, List.mem_map]
    exact ⟨(ev, Handler.user ev), List.mem_filter.mpr ⟨List.mem_map.mpr ⟨ev, h, rfl⟩, by simp⟩, rfl⟩

/-- the caveat in `ObservableMixin.fire`: an object that never had `.on()` called returns before looking at its
parent — nothing bubbles from it. -/
theorem fire_without_own_listeners (ls : List Ev) (ev : Ev) : fireChain [none, compNode ls] ev = [] := rfl

/-! ### the monitor along a log -/

def fireFeedAll (f : Fire) (l : List Obs) : Fire := l.foldl Fire.feed f

def bubbleRun (ls : List Ev) (f : Fire) : List Obs → Bool
  | [] => true
  | o :: r => chkBubble ls f o && bubbleRun ls (f.feed o) r

theorem bubbleAll_eq (ls : List Ev) (f : Fire) (l : List Obs) :
    bubbleAll ls f l = (bubbleRun ls f l && bubbleClosed ls (fireFeedAll f l)) := by
  induction l generalizing f with
  | nil => simp [bubbleAll, bubbleRun, fireFeedAll]
  | cons o r ih => simp [bubbleAll, bubbleRun, fireFeedAll, ih, Bool.and_assoc]

def Obs.isFire : Obs → Bool
  | .sfire _ _ | .call _ _ => true
  | _ => false

/-- logs made of session firings (as produced by `sfire`) and other observations -/
inductive Blocks (cfg : Cfg) : List Obs → Prop
  | nil : Blocks cfg []
  | other (o : Obs) (r : List Obs) (h : o.isFire = false) : Blocks cfg r → Blocks cfg (o :: r)
  | fire (ev : Ev) (n : Nat) (r : List Obs) : Blocks cfg r → Blocks cfg (sfire cfg ev n ++ r)

theorem Blocks.append {cfg : Cfg} {a b : List Obs} (ha : Blocks cfg a) (hb : Blocks cfg b) : Blocks cfg (a ++ b) := by
  induction ha with
  | nil => exact hb
  | other o r h _ ih => exact Blocks.other o _ h ih
  | fire ev n r _ ih => rw [List.append_assoc]; exact Blocks.fire ev n _ ih

theorem Blocks.sfire (cfg : Cfg) (ev : Ev) (n : Nat) : Blocks cfg (sfire cfg ev n) := by
  have := Blocks.fire ev n [] (Blocks.nil (cfg := cfg)); simpa using this

theorem Blocks.single (cfg : Cfg) (o : Obs) (h : o.isFire = false) : Blocks cfg [o] :=
  Blocks.other o [] h Blocks.nil

theorem blocks_ok (cfg : Cfg) (hnd : cfg.listeners.Nodup) (l : List Obs) (hb : Blocks cfg l) (f : Fire)
    (hf : bubbleClosed cfg.listeners f = true) :
    bubbleRun cfg.listeners f l = true ∧ bubbleClosed cfg.listeners (fireFeedAll f l) = true := by
  induction hb generalizing f with
  | nil => exact ⟨rfl, hf⟩
  | other o r h _ ih =>
    have hfeed : f.feed o = f := by cases o <;> simp [Obs.isFire] at h <;> rfl
    have hchk : chkBubble cfg.listeners f o = true := by cases o <;> simp [Obs.isFire] at h <;> rfl
    simp only [bubbleRun, fireFeedAll, List.foldl_cons, hfeed, hchk, Bool.true_and]
    exact ih f hf
  | fire ev n r _ ih =>
    rw [sfire_eq cfg hnd]
    by_cases hc : cfg.listeners.contains ev = true
    · simp only [hc, if_true, List.cons_append, List.nil_append, bubbleRun, fireFeedAll, List.foldl_cons,
        Fire.feed, chkBubble, hf, Bool.true_and]
      have hmem : ev ∈ cfg.listeners := by simpa using hc
      have := ih ⟨some (ev, n), 0 + 1⟩ (by simp [bubbleClosed, hmem])
      simpa [fireFeedAll, hmem] using this
    · have hc' : cfg.listeners.contains ev = false := by simpa using hc
      simp only [hc', Bool.false_eq_true, if_false, List.cons_append, List.nil_append, bubbleRun, fireFeedAll,
        List.foldl_cons, Fire.feed, chkBubble, hf, Bool.true_and]
      have hmem : ¬ ev ∈ cfg.listeners := by simpa using hc'
      have := ih ⟨some (ev, n), 0⟩ (by simp [bubbleClosed, hmem])
      simpa [fireFeedAll] using this

/-! ### every step's output is made of such blocks -/

theorem blocks_setDone (cfg : Cfg) (ok : Bool) (s : State) : Blocks cfg (Comp.setDone ok s).2 := by
  unfold Comp.setDone; split <;> exact Blocks.single _ _ rfl

theorem blocks_tc (cfg : Cfg) (s : State) : Blocks cfg (transportCheck s).2 := by
  have hcs := tc_cases s
  generalize transportCheck s = r at hcs ⊢
  cases hcs with
  | stopped _ => unfold stopCheck; split <;> first | exact Blocks.single _ _ rfl | exact Blocks.nil
  | giveUp _ => exact blocks_setDone _ _ _
  | wait => exact Blocks.nil
  | now => exact Blocks.single _ _ rfl

theorem blocks_failRetry (cfg : Cfg) (i : Nat) (f : Bool) (s : State) : Blocks cfg (failRetry i f s).2 := by
  unfold failRetry; split
  · exact Blocks.other _ _ rfl (blocks_tc _ _)
  · exact blocks_tc _ _

theorem blocks_sessionDone (cfg : Cfg) (i : Nat) (f : Bool) (s : State) : Blocks cfg (sessionDone i f s).2 := by
  unfold sessionDone; split
  · exact Blocks.single _ _ rfl
  · split
    · exact Blocks.other _ _ rfl (blocks_failRetry _ _ _ _)
    · exact Blocks.single _ _ rfl

theorem blocks_joinedPre (cfg : Cfg) (n i : Nat) : Blocks cfg (joinedPre cfg n i) := by
  unfold joinedPre
  exact ((((Blocks.single cfg _ rfl).append (Blocks.sfire _ _ _)).append (Blocks.single cfg _ rfl)).append
    (Blocks.sfire _ _ _)).append (Blocks.sfire _ _ _)

theorem blocks_step (s : State) (e : Event) : Blocks s.cfg (step s e).2 := by
  have S := fun ev n => Blocks.sfire s.cfg ev n
  have O := fun (o : Obs) (h : o.isFire = false) => Blocks.single s.cfg o h
  cases e with
  | start => simp only [step]; split <;> first | exact blocks_tc _ _ | exact Blocks.nil
  | delayElapsed => simp only [step]; split <;> first | exact Blocks.single _ _ rfl | exact Blocks.nil
  | stop =>
    simp only [step, onStop]
    split
    · exact Blocks.nil
    · exact Blocks.other _ _ rfl (blocks_setDone _ _ _)
    · split
      · exact Blocks.other _ _ rfl (O _ rfl)
      · exact O _ rfl
    · exact O _ rfl
    · exact O _ rfl
  | outcome o f =>
    simp only [step]
    split
    · next i _ =>
      cases o with
      | refused => exact Blocks.other _ _ rfl (blocks_failRetry _ _ _ _)
      | hsFail => exact Blocks.other _ _ rfl (blocks_failRetry _ _ _ _)
      | abort =>
        exact (((((O (.fail i) rfl).append (O (.sess s.nsess i) rfl)).append (S _ _)).append (S _ _)).append
          (blocks_failRetry _ _ _ _)).append (S _ _)
      | joinedLost =>
        exact Blocks.other _ _ rfl ((((blocks_joinedPre _ _ _).append (S _ _)).append
          (blocks_failRetry _ _ _ _)).append (S _ _))
      | joinedLeave =>
        exact ((((blocks_joinedPre _ _ _).append (O _ rfl)).append (S _ _)).append
          (blocks_sessionDone _ _ _ _)).append (S _ _)
      | mainReturns =>
        simp only [onOutcome]; split
        · exact ((((blocks_joinedPre _ _ _).append (O (.cleanEnd i) rfl)).append (S _ _)).append
            (blocks_sessionDone _ _ _ _)).append (S _ _)
        · exact Blocks.nil
      | mainRaises =>
        simp only [onOutcome]; split
        · exact ((((blocks_joinedPre _ _ _).append (O (.mainRaised i) rfl)).append
            (blocks_failRetry _ _ _ _)).append (S _ _)).append (S _ _)
        · exact Blocks.nil
      | joined => exact blocks_joinedPre _ _ _
    · exact Blocks.nil
  | sess e f =>
    simp only [step, onSess]
    split
    · exact Blocks.other _ _ rfl (((S _ _).append (blocks_failRetry _ _ _ _)).append (S _ _))
    · exact Blocks.other _ _ rfl (((S _ _).append (blocks_failRetry _ _ _ _)).append (S _ _))
    · next i _ => exact (((O (.cleanEnd i) rfl).append (S _ _)).append (blocks_sessionDone _ _ _ _)).append (S _ _)
    · next i _ => exact (((O (.cleanEnd i) rfl).append (S _ _)).append (blocks_sessionDone _ _ _ _)).append (S _ _)
    · exact Blocks.nil

theorem blocks_run (s : State) (es : List Event) : Blocks s.cfg (run s es).2 := by
  induction es generalizing s with
  | nil => exact Blocks.nil
  | cons e es ih =>
    simp only [run]
    have := ih (step s e).1
    rw [step_cfg] at this
    exact (blocks_step s e).append this

end Abverif.Comp
