import Abverif.Model.WampInst
import Abverif.Proofs.Lemmas.SchemaCtor
import Abverif.Proofs.Lemmas.UriGrammar
/-
The Spec's verdict on accepted messages (C08): `Schema.specViolations` of whatever `parse` accepts is empty, except
for the `args` of a class whose tail admits `str`/`bytes` arguments (PUBLISH).

This connects the *checked* types of the parse model (`OTy.valid`, `PosStep.strict`, the tail invariant) with the
*intended* types of the Spec (`specIdOk` = [0, 2^53] as the protocol defines it, `specUriOk` = the intended URI grammar,
the intended option types), which are written without reference to the code.
-/
namespace Abverif.Wamp
open Schema

theorem idBound_eq : Generated.WampCodes.idBound = 2 ^ 53 := by decide

theorem idOk_eq_spec (i : Int) : idOk i = specIdOk i := by
  simp [idOk, specIdOk, idBound_eq]

theorem uriOk_spec {fl : UriFlags} {v : WVal} (h : uriOk oracles fl v = true) : specUriOk Uri.Spec.ok fl v = true := by
  cases v <;> simp_all [uriOk, specUriOk, oracles, Uri.uri_equiv _ _ _ _]

theorem allId_spec : ∀ xs : List WVal, allId xs = true → allInt xs = true ∧ allIdOk xs = true := by
  intro xs
  induction xs with
  | nil => intro _; exact ⟨rfl, rfl⟩
  | cons x t ih =>
    intro h
    cases x <;> simp only [allId, Bool.false_eq_true, Bool.and_eq_true] at h
    rename_i i
    obtain ⟨h1, h2⟩ := ih h.2
    refine ⟨by simpa [allInt] using h1, ?_⟩
    simp only [allIdOk, Bool.and_eq_true]
    exact ⟨by rw [← idOk_eq_spec]; exact h.1, h2⟩

/-! ### positions -/

theorem pos_spec_clean {m : Msg} {p : PosStep} (h : PosStep.strict oracles m p = true) :
    p.specViolation Uri.Spec.ok m = none := by
  cases p with
  | id f =>
    simp only [PosStep.strict] at h
    simp only [PosStep.specViolation]
    split at h
    · rename_i i hi
      simp only [← idOk_eq_spec, h, if_true]
    · simp at h
  | uri f fl =>
    simp only [PosStep.strict] at h
    simp only [PosStep.specViolation, uriOk_spec h, if_true]
  | str f =>
    simp only [PosStep.strict] at h
    simp only [PosStep.specViolation, h, if_true]
  | extra f =>
    simp only [PosStep.strict] at h
    simp only [PosStep.specViolation]
    split at h
    · rfl
    · simp at h
  | intEnum f allowed =>
    simp only [PosStep.strict] at h
    simp only [PosStep.specViolation]
    split at h
    · rename_i i hi
      simp only [h, if_true]
    · simp at h
  | opts => rfl
  | uriByMatch f op key vals =>
    simp only [PosStep.strict] at h
    simp only [PosStep.specViolation, uriOk_spec h, if_true]

/-! ### typed entries -/

/-- what the Spec needs of an entry beyond its checked type: a repaired `forward_for` loop, and `None` as the default
of the types that admit `None` as a value -/
def OptStep.specReady (s : OptStep) : Bool :=
  match s.ty with
  | .forwardFor b => b
  | .boolOrNull => s.dflt.isNull
  | .strOrNull => s.dflt.isNull
  | .dictOrNull => s.dflt.isNull
  | .strUri _ => s.dflt.isNull
  | _ => true

theorem isDflt_null {d : WVal} (h : d.isNull = true) : isDflt d .null = true := by
  cases d <;> simp_all [WVal.isNull, isDflt]

/-- a value of the checked type is of the intended type -/
theorem opt_spec_of_valid {m : Msg} {s : OptStep} (hr : s.ty.isRoles = false) (hrd : s.specReady = true)
    (h : s.ty.valid oracles (m.get s.field) = true) : s.specViolation Uri.Spec.ok m = none := by
  unfold OptStep.specViolation
  simp only
  split
  · rfl
  · rename_i hnd
    unfold OptStep.specReady at hrd
    cases hty : s.ty with
    | bool =>
      rw [hty] at h
      cases hv : m.get s.field <;> rw [hv] at h <;> simp [OTy.valid, WVal.isBool] at h
      all_goals rfl
    | int lo =>
      rw [hty] at h
      cases hv : m.get s.field <;> rw [hv] at h <;> cases lo <;> simp [OTy.valid, WVal.isInt] at h <;> rfl
    | str =>
      rw [hty] at h
      cases hv : m.get s.field <;> rw [hv] at h <;> simp [OTy.valid, WVal.isStr] at h
      all_goals rfl
    | strEnum vals =>
      rw [hty] at h
      cases hv : m.get s.field <;> rw [hv] at h <;> simp only [OTy.valid, Bool.false_eq_true] at h
      simp only [h, if_true]
    | listInt =>
      rw [hty] at h
      cases hv : m.get s.field <;> rw [hv] at h <;> simp only [OTy.valid, Bool.false_eq_true] at h
      simp only [h, if_true]
    | id =>
      rw [hty] at h
      cases hv : m.get s.field <;> rw [hv] at h <;> simp only [OTy.valid, Bool.false_eq_true] at h
      simp only [← idOk_eq_spec, h, if_true]
    | listId =>
      rw [hty] at h
      cases hv : m.get s.field <;> rw [hv] at h <;> simp only [OTy.valid, Bool.false_eq_true] at h
      obtain ⟨h1, h2⟩ := allId_spec _ h
      simp [h1, h2]
    | listStr =>
      rw [hty] at h
      cases hv : m.get s.field <;> rw [hv] at h <;> simp only [OTy.valid, Bool.false_eq_true] at h
      simp only [h, if_true]
    | dict =>
      rw [hty] at h
      cases hv : m.get s.field <;> rw [hv] at h <;> simp [OTy.valid, WVal.isDict] at h <;> rfl
    | uri fl =>
      rw [hty] at h
      simp only [OTy.valid] at h
      simp only [uriOk_spec h, if_true]
    | strUri n =>
      rw [hty] at h hrd
      simp only at hrd
      cases hv : m.get s.field <;> rw [hv] at h hnd <;> simp only [OTy.valid, Bool.false_eq_true] at h
      · exact absurd (isDflt_null hrd) hnd
      · simp [oracles, Uri.uri_equiv _ _ _ _] at h
        simp [h]
    | forwardFor b =>
      rw [hty] at h hrd
      simp only at hrd
      subst hrd
      cases hv : m.get s.field <;> rw [hv] at h <;> simp only [OTy.valid, Bool.false_eq_true, Bool.not_true, Bool.false_or] at h
      simp only [all_ffItemCtorOk _ h, if_true]
    | boolOrNull =>
      rw [hty] at h hrd
      simp only at hrd
      cases hv : m.get s.field <;> rw [hv] at h hnd <;> simp [OTy.valid, WVal.isBool, WVal.isNull] at h
      all_goals first | rfl | exact absurd (isDflt_null hrd) hnd
    | strOrNull =>
      rw [hty] at h hrd
      simp only at hrd
      cases hv : m.get s.field <;> rw [hv] at h hnd <;> simp [OTy.valid, WVal.isStr, WVal.isNull] at h
      all_goals first | rfl | exact absurd (isDflt_null hrd) hnd
    | dictOrNull =>
      rw [hty] at h hrd
      simp only at hrd
      cases hv : m.get s.field <;> rw [hv] at h hnd <;> simp [OTy.valid, WVal.isDict, WVal.isNull] at h
      all_goals first | rfl | exact absurd (isDflt_null hrd) hnd
    | roles a f => rw [hty] at hr; simp [OTy.isRoles] at hr

theorem rolesCheck_dict {site : Str} {allowed : List Str} {feats : List (Str × List Str)} {x v : WVal}
    (h : rolesCheck site allowed feats x = .ok v) : ∃ d, v = .dict d := by
  unfold rolesCheck at h
  split at h
  · simp [fail] at h
  · obtain ⟨r, _, h⟩ := bind_eq_ok h
    simp only [pure, Except.pure, Except.ok.injEq] at h
    exact ⟨r, h.symm⟩
  · simp [fail] at h

/-- the Spec has no objection to the value an option entry was parsed to -/
theorem opt_spec_clean {m : Msg} {d : Dict} {s : OptStep} (hwf : OptStep.wf s = true) (hrd : s.specReady = true)
    (h : s.parse oracles d = .ok (m.get s.field)) : s.specViolation Uri.Spec.ok m = none := by
  by_cases hr : s.ty.isRoles = false
  · rcases OptStep.parse_ok hwf hr h with h0 | h1
    · unfold OptStep.specViolation
      simp only [h0, if_true]
    · exact opt_spec_of_valid hr hrd h1
  · cases hty : s.ty <;> rw [hty] at hr <;> simp [OTy.isRoles] at hr
    rename_i allowed feats
    unfold OptStep.parse at h
    have hreq : s.required = true := by
      simp only [OptStep.wf, Bool.and_eq_true] at hwf
      have := hwf.1.2
      rw [hty] at this
      simp only [Bool.and_eq_true] at this
      exact this.1
    split at h
    · simp [hreq, fail] at h
    · rw [hty] at h
      simp only [OTy.check] at h
      obtain ⟨dd, hd⟩ := rolesCheck_dict h
      unfold OptStep.specViolation
      simp only
      split
      · rfl
      · rw [hty, hd]

/-! ### the whole message -/

def Schema.codeOk (σ : Schema) : Bool :=
  match specCodes.find? (fun e => e.1 == σ.name) with
  | some e => e.2 == σ.code
  | none => false

/-- does the parser model check this option as the kind the Spec's own table gives the field? -/
def kindMatches : SpecKind → OTy → Bool
  | .uri, .uri fl => !fl.strict && !fl.allowEmpty && !fl.allowLastEmpty
  | .uri, .strUri _ => true
  | .id, .id => true
  | .idList, .listId => true
  | _, _ => false

/-- every entry of the Spec's field table for this class is an option the parser model checks as that kind -/
def Schema.tableCovered (σ : Schema) : Bool :=
  σ.tableEntries.all (fun e => σ.opts.any (fun s => s.field == e.2.1 && s.dflt.isNull && kindMatches e.2.2 s.ty))

def Schema.specReady (σ : Schema) : Bool := σ.codeOk && σ.opts.all OptStep.specReady && σ.tableCovered

theorem specKindOk_null (k : SpecKind) : specKindOk Uri.Spec.ok k .null = true := by cases k <;> rfl

theorem kind_ok_of_valid {k : SpecKind} {ty : OTy} {v : WVal} (hk : kindMatches k ty = true)
    (hv : ty.valid oracles v = true) : specKindOk Uri.Spec.ok k v = true := by
  cases k <;> cases ty <;> simp only [kindMatches, Bool.false_eq_true] at hk
  · rename_i fl
    simp only [Bool.and_eq_true, Bool.not_eq_true'] at hk
    obtain ⟨⟨h1, h2⟩, h3⟩ := hk
    cases v <;> simp only [OTy.valid, uriOk, Bool.false_eq_true] at hv
    · rfl
    · simp only [specKindOk]
      rw [h1, h2, h3] at hv
      simpa [oracles, Uri.uri_equiv _ _ _ _] using hv
  · cases v <;> simp only [OTy.valid, Bool.false_eq_true] at hv
    · rfl
    · simp only [specKindOk]
      simpa [oracles, Uri.uri_equiv _ _ _ _] using hv
  · cases v <;> simp only [OTy.valid, Bool.false_eq_true] at hv
    simp only [specKindOk, ← idOk_eq_spec, hv]
  · cases v <;> simp only [OTy.valid, Bool.false_eq_true] at hv
    simp only [specKindOk]
    exact (allId_spec _ hv).2

/-- positional strictness needs no assumption on the option types (HELLO / WELCOME included) -/
theorem pos_strict_of_inv {σ : Schema} {O : Oracles} {w : List WVal} {m' : Msg}
    (hwf : σ.wf = true) (inv : FieldsInv σ O w m') : ∀ p ∈ σ.pos, PosStep.strict O m' p = true := by
  intro p hp
  cases p with
  | id f =>
    obtain ⟨i, hi, hok⟩ := inv.pos _ hp f rfl
    simp only [PosStep.strict, hi, hok]
  | uri f fl =>
    simp only [PosStep.strict]
    exact inv.pos _ hp f rfl
  | str f =>
    simp only [PosStep.strict]
    exact inv.pos _ hp f rfl
  | extra f =>
    obtain ⟨d, hd⟩ := inv.pos _ hp f rfl
    simp only [PosStep.strict, hd]
  | intEnum f allowed =>
    obtain ⟨i, hi, hok⟩ := inv.pos _ hp f rfl
    simp only [PosStep.strict, hi, hok]
  | opts => rfl
  | uriByMatch f op key vals =>
    have hloc := inv.pos _ hp f rfl
    simp only [PosStep.strict]
    have hpw := (wf_parts hwf).2.2.2.2.2.2.1 _ hp
    simp only [PosStep.wf, Bool.and_eq_true, beq_iff_eq, List.any_eq_true] at hpw
    obtain ⟨hop, s, hs, ⟨hk, hf⟩, hty⟩ := hpw
    split at hty
    case h_2 => exact absurd hty (by simp)
    rename_i vs d0 d0' hsty hsd hsm
    simp only [Bool.and_eq_true, beq_iff_eq] at hty
    obtain ⟨⟨⟨hvs, hdd⟩, hfl⟩, hdm⟩ := hty
    subst hvs hdd
    have hfl' : matchFlags d0 = {} := by simpa using hfl
    have hswf := (wf_parts hwf).2.2.2.2.2.2.2.1 s hs
    have hp0 := inv.opts s hs
    have hoe : σ.optsOf w = (w.getD op .null).entries := by
      unfold Schema.optsOf; rw [hop]
    rw [hf] at hp0
    unfold OptStep.parse at hp0
    rw [hoe, hk] at hp0
    simp only [PosStep.local] at hloc
    cases hg : Dict.get? ((w.getD op .null).entries) key with
    | none =>
      rw [hg] at hp0 hloc
      have hreq : s.required = false := by
        simp only [OptStep.wf, Bool.and_eq_true] at hswf
        have h2 := hswf.1.2
        rw [hsty] at h2
        simpa using h2
      simp only [hreq] at hp0
      have : Msg.get m' key = s.dflt := by
        cases hab : s.absentErrIf with
        | none =>
          rw [hab] at hp0
          simp only [Bool.false_eq_true, if_false, Except.ok.injEq] at hp0
          exact hp0.symm
        | some k2 =>
          rw [hab] at hp0
          simp only [Bool.false_eq_true, if_false] at hp0
          split at hp0
          · simp [fail] at hp0
          · simp only [Except.ok.injEq] at hp0
            exact hp0.symm
      rw [this, hsd]
      simp only [strOf, hfl']
      exact hloc
    | some x =>
      rw [hg] at hp0 hloc
      simp only at hp0
      rw [hsty] at hp0
      cases x with
      | str sx =>
        simp only [OTy.check] at hp0
        split at hp0
        · simp only [Except.ok.injEq] at hp0
          rw [← hp0]
          simp only [strOf]
          exact hloc.2
        · simp [fail] at hp0
      | _ => simp at hloc

/-- **what the Spec can still object to in an accepted message**: nothing but the `args` of a class whose tail admits
`str` / `bytes` arguments -/
theorem specViolations_of_parse (σ : Schema) (hwf : σ.wf = true) (hrd : σ.specReady = true)
    (w : List WVal) (m : Msg) (h : σ.parse oracles w = .ok m) :
    ∀ fr ∈ σ.specViolations Uri.Spec.ok m,
      fr = (cs!"args", cs!"type") ∧ ∃ t, σ.tail = some t ∧ t.variant = .publish := by
  unfold Schema.parse at h
  obtain ⟨m', hps, h⟩ := bind_eq_ok h
  obtain ⟨u, hcs, h⟩ := bind_eq_ok h
  simp only [pure, Except.pure, Except.ok.injEq] at h
  subst h
  have inv := parseFields_inv hwf (parseStage_fields hps).1
  simp only [Schema.specReady, Bool.and_eq_true] at hrd
  obtain ⟨⟨hcode, hopts⟩, htab⟩ := hrd
  intro fr hfr
  unfold Schema.specViolations at hfr
  simp only [List.mem_append] at hfr
  rcases hfr with (((hfr | hfr) | hfr) | hfr) | hfr
  rotate_left 4
  · -- the Spec's own field table
    obtain ⟨e, he, hv⟩ := List.mem_filterMap.mp hfr
    have hcv := List.all_eq_true.mp htab e he
    simp only [List.any_eq_true, Bool.and_eq_true, beq_iff_eq] at hcv
    obtain ⟨s, hs, ⟨hf, hd⟩, hk⟩ := hcv
    have hr : s.ty.isRoles = false := by
      cases hty : s.ty <;> first | rfl | (rw [hty] at hk; cases e.2.2 <;> simp [kindMatches] at hk)
    have hok : specKindOk Uri.Spec.ok e.2.2 (Msg.get m' e.2.1) = true := by
      rw [← hf]
      rcases OptStep.parse_ok ((wf_parts hwf).2.2.2.2.2.2.2.1 s hs) hr (inv.opts s hs) with h0 | h1
      · rw [isDflt_eq h0, null_of_isNull hd]; exact specKindOk_null _
      · exact kind_ok_of_valid hk h1
    rw [hok] at hv
    simp at hv
  · -- type code
    unfold Schema.codeOk at hcode
    split at hfr
    · rename_i e he
      rw [he] at hcode
      simp only [hcode, if_true] at hfr
      cases hfr
    · rename_i he
      rw [he] at hcode
      cases hcode
  · -- positions
    obtain ⟨p, hp, hv⟩ := List.mem_filterMap.mp hfr
    rw [pos_spec_clean (pos_strict_of_inv hwf inv p hp)] at hv
    cases hv
  · -- typed entries
    obtain ⟨s, hs, hv⟩ := List.mem_filterMap.mp hfr
    rw [opt_spec_clean ((wf_parts hwf).2.2.2.2.2.2.2.1 s hs) (List.all_eq_true.mp hopts s hs) (inv.opts s hs)] at hv
    simp at hv
  · -- tail
    cases hts : σ.tail with
    | none => rw [hts] at hfr; cases hfr
    | some t =>
      rw [hts] at hfr
      obtain ⟨f1, f2, f3, _⟩ := inv.tail t hts
      have hkw : kwargsCheck m' = .ok () := by
        unfold Schema.ctorStage at hcs
        obtain ⟨_, _, hcs⟩ := bind_eq_ok hcs
        obtain ⟨_, _, hkw⟩ := bind_eq_ok hcs
        simpa [hts] using hkw
      simp only [List.mem_append] at hfr
      rcases hfr with (hfr | hfr) | hfr
      · have : ((m'.get cs!"payload").isNull || (m'.get cs!"payload").isBytes) = true := by
          simpa using f3
        rw [this] at hfr
        cases hfr
      · split at hfr
        · cases hfr
        · rename_i hna
          simp only [List.mem_singleton] at hfr
          refine ⟨hfr, t, rfl, ?_⟩
          cases hv : t.variant with
          | publish => rfl
          | std =>
            rw [hv] at f1
            simp only [argsShape] at f1
            exact absurd f1 hna
      · unfold kwargsCheck at hkw
        split at hkw
        · rename_i hk; rw [hk] at hfr; cases hfr
        · rename_i hk; rw [hk] at hfr; cases hfr
        · simp [fail] at hkw

end Abverif.Wamp
