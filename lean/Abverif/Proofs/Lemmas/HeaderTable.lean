import Abverif.Model.WsHeader
namespace Abverif.Ws

/-- the complete finite table: 2^9 flag combinations × 8 reserved-bit values × 16 opcodes (65 536 rows), checked
by kernel evaluation -/
theorem flags_table :
    ∀ (isServer requireMasked acceptMasked pmce inside fin masked tooLong isOne : Bool) (rsv : Fin 8) (opcode : Fin 16),
      (hvFlags isServer requireMasked acceptMasked pmce inside fin rsv.val opcode.val masked tooLong isOne).isEmpty
        = okFlags isServer requireMasked acceptMasked pmce inside fin rsv.val opcode.val masked tooLong isOne := by
  decide +kernel

end Abverif.Ws
