import Abverif.Proofs.Lemmas.SessEnd
import Abverif.Proofs.Lemmas.SessOrderSpec
/-
Model side of `callbacks_ordered_once` (Twisted scheduling): which functions of the session model produce no ranked
lifecycle callback / observer notification and leave `transport`, `sessionId`, `ended` alone (`Calm`), and the exact
shape of the outputs of those that do (`runHook`, `leaveHook`, `disconnectHook`).
-/
namespace Abverif.Session
open Abverif.SessCodes Abverif.SessTrace

/-- a lifecycle callback the Spec ranks, or an observer notification -/
def ranked : SOut → Bool
  | .hook h _ => hookRank h != 0
  | .fire _ => true
  | _ => false

def isHello : SOut → Bool
  | .send m => m.typ == .hello
  | _ => false

/-- a step that fires no ranked callback / observer, keeps mode, transport and session id, queues nothing but plain
callbacks, and keeps the record `ended` — always (`strict`: it sends no HELLO either), or at least when the record was
clear (`join()` can only clear it) -/
structure Calm (strict : Bool) (s : Sess) (o : List SOut) (s' : Sess) : Prop where
  mode : s'.mode = s.mode
  transport : s'.transport = s.transport
  sid : s'.sessionId = s.sessionId
  ended : (strict = true ∨ s.ended = false) → s'.ended = s.ended
  outs : ∀ x ∈ o, ranked x = false ∧ (strict = true → isHello x = false)
  queue : ∀ x ∈ s'.cbq, x ∈ s.cbq ∨ lifeOut x = false

namespace Calm

theorem refl (b : Bool) (s : Sess) : Calm b s [] s :=
  ⟨rfl, rfl, rfl, fun _ => rfl, by simp, fun x hx => Or.inl hx⟩

theorem trans {b : Bool} {s1 s2 s3 : Sess} {o1 o2 : List SOut} (h1 : Calm b s1 o1 s2) (h2 : Calm b s2 o2 s3) :
    Calm b s1 (o1 ++ o2) s3 := by
  refine ⟨h2.mode.trans h1.mode, h2.transport.trans h1.transport, h2.sid.trans h1.sid, fun hc => ?_, fun x hx => ?_, fun x hx => ?_⟩
  · have e1 := h1.ended hc
    have e2 := h2.ended (by rcases hc with hc | hc; exact Or.inl hc; exact Or.inr (e1.trans hc))
    exact e2.trans e1
  · rcases List.mem_append.mp hx with h | h
    · exact h1.outs x h
    · exact h2.outs x h
  · rcases h2.queue x hx with h | h
    · exact h1.queue x h
    · exact Or.inr h

theorem weaken {s s' : Sess} {o : List SOut} (h : Calm true s o s') : Calm false s o s' :=
  ⟨h.mode, h.transport, h.sid, fun _ => h.ended (Or.inl rfl), fun x hx => ⟨(h.outs x hx).1, by simp⟩, h.queue⟩

theorem lifeOut_false {x : SOut} (h : lifeOut x = false) : ranked x = false ∧ isHello x = false := by
  cases x <;> simp_all [lifeOut, ranked, isHello]
  next m => cases hm : m.typ <;> simp_all [lcMsg]

theorem ofQuiet {b : Bool} {s s' : Sess} {o : List SOut} (q : Quiet s o s') : Calm b s o s' := by
  have hl := q.life
  simp only [Sess.life, Life.mk.injEq] at hl
  obtain ⟨l1, l2, l3, _, _, _, _, l8⟩ := hl
  exact ⟨l1, l2, l3, fun _ => l8, fun x hx => ⟨(lifeOut_false (q.outs x hx)).1, fun _ => (lifeOut_false (q.outs x hx)).2⟩, q.queue⟩

/-- only a field the relation does not read changed -/
theorem same {b : Bool} {s s' : Sess} {o : List SOut} (hm : s'.mode = s.mode) (ht : s'.transport = s.transport)
    (hi : s'.sessionId = s.sessionId) (he : s'.ended = s.ended) (hq : s'.cbq = s.cbq)
    (ho : ∀ x ∈ o, ranked x = false ∧ isHello x = false) : Calm b s o s' :=
  ⟨hm, ht, hi, fun _ => he, fun x hx => ⟨(ho x hx).1, fun _ => (ho x hx).2⟩, fun x hx => Or.inl (hq ▸ hx)⟩

theorem congr_left {b : Bool} {s s1 s' : Sess} {o : List SOut} (c : Calm b s1 o s') (hm : s1.mode = s.mode)
    (ht : s1.transport = s.transport) (hi : s1.sessionId = s.sessionId) (he : s1.ended = s.ended) (hq : s1.cbq = s.cbq) :
    Calm b s o s' :=
  ⟨c.mode.trans hm, c.transport.trans ht, c.sid.trans hi, fun hc => (c.ended (by rw [he]; exact hc)).trans he, c.outs,
   fun x hx => hq ▸ c.queue x hx⟩

theorem cons {b : Bool} {s s' : Sess} {o : List SOut} {x : SOut} (hx : ranked x = false ∧ isHello x = false)
    (c : Calm b s o s') : Calm b s (x :: o) s' :=
  ⟨c.mode, c.transport, c.sid, c.ended, fun y hy => by
    rcases List.mem_cons.mp hy with h | h
    · subst h; exact ⟨hx.1, fun _ => hx.2⟩
    · exact c.outs y h, c.queue⟩

theorem map_toCaught {b : Bool} {s s' : Sess} {o : List SOut} (c : Calm b s o s') : Calm b s (o.map toCaught) s' := by
  refine ⟨c.mode, c.transport, c.sid, c.ended, fun x hx => ?_, c.queue⟩
  obtain ⟨y, hy, rfl⟩ := List.mem_map.mp hx
  have := c.outs y hy
  cases y <;> simp_all [toCaught, ranked, isHello]

theorem map_toLost {b : Bool} {s s' : Sess} {o : List SOut} (c : Calm b s o s') : Calm b s (o.map toLost) s' := by
  refine ⟨c.mode, c.transport, c.sid, c.ended, fun x hx => ?_, c.queue⟩
  obtain ⟨y, hy, rfl⟩ := List.mem_map.mp hx
  have := c.outs y hy
  cases y <;> simp_all [toLost, ranked, isHello]

end Calm

/-! ### user code: API calls -/

theorem apiJoin_calm (s : Sess) : Calm false s (apiJoin s).2 (apiJoin s).1 := by
  unfold apiJoin
  split
  · exact Calm.same rfl rfl rfl rfl rfl (by simp [ranked, isHello])
  · split
    · exact Calm.same rfl rfl rfl rfl rfl (by simp [ranked, isHello])
    · exact ⟨rfl, rfl, rfl, fun hc => by rcases hc with hc | hc; simp at hc; simp [hc], by simp [ranked], fun x hx => Or.inl hx⟩

theorem apiLeave_calm (b : Bool) (s : Sess) : Calm b s (apiLeave s).2 (apiLeave s).1 := by
  unfold apiLeave
  split
  · exact Calm.refl b s
  · split
    · exact Calm.refl b s
    · split
      · exact Calm.same rfl rfl rfl rfl rfl (by simp [ranked, isHello])
      · exact Calm.same rfl rfl rfl rfl rfl (by simp [ranked, isHello])

theorem apiDisconnect_calm (b : Bool) (s : Sess) : Calm b s (apiDisconnect s).2 (apiDisconnect s).1 := by
  unfold apiDisconnect
  split
  · exact Calm.same rfl rfl rfl rfl rfl (by simp [ranked, isHello])
  · exact Calm.refl b s

theorem calmLiftQ : LiftQ (Calm false) (fun _ => True) where
  refl := fun _ => Calm.refl false _
  trans := Calm.trans
  post := fun _ _ => trivial
  caught := Calm.map_toCaught
  quiet := fun _ q => Calm.ofQuiet q
  lifeApi := fun {s} a ha _ => by
    cases a <;> simp [Api.isLife] at ha
    · exact apiJoin_calm s
    · exact apiLeave_calm false s
    · exact apiDisconnect_calm false s

/-- every API but `join()` -/
theorem apiStep_strict (s : Sess) (a : Api) (ha : a ≠ .join) : Calm true s (apiStep s a).2 (apiStep s a).1 := by
  by_cases hl : a.isLife = true
  · cases a <;> simp [Api.isLife] at hl
    · exact absurd rfl ha
    · exact apiLeave_calm true s
    · exact apiDisconnect_calm true s
  · exact Calm.ofQuiet (apiStep_quiet s a (by simpa using hl))

def HCall.noJoin : HCall → Bool
  | .api .join => false
  | _ => true

def HAct.noJoin (a : HAct) : Bool := a.calls.all HCall.noJoin

theorem runCalls_strict (s : Sess) (self : Option FutId) (cs : List HCall) (h : cs.all HCall.noJoin = true) :
    Calm true s (runCalls s self cs).2 (runCalls s self cs).1 := by
  induction cs generalizing s with
  | nil => exact Calm.refl true s
  | cons c cs ih =>
    simp only [List.all_cons, Bool.and_eq_true] at h
    cases c with
    | api a =>
      rw [runCalls_api]
      have ha : a ≠ .join := by rintro rfl; simp [HCall.noJoin] at h
      exact (apiStep_strict s a ha).map_toCaught.trans (ih _ h.2)
    | unsubSelf =>
      cases self with
      | none => rw [runCalls_self_none]; exact ih s h.2
      | some o =>
        rw [runCalls_self_some]
        exact (apiStep_strict s _ (by simp)).map_toCaught.trans (ih _ h.2)

/-! ### the lifecycle functions on Twisted -/

theorem emitCb_sync {s : Sess} (hm : s.mode = .sync) (o : SOut) : emitCb s o = (s, [o]) := by
  simp [emitCb, hm]

theorem defer_sync {s : Sess} (hm : s.mode = .sync) (k : Cont) : defer s k = runCont s k := by
  simp [defer, hm]

theorem deferLeaf_sync {s : Sess} (hm : s.mode = .sync) (k : Cont) : deferLeaf s k = runLeaf s k := by
  simp [deferLeaf, hm]

theorem rejectAll_calm (b : Bool) (s : Sess) (o : Outcome) :
    Calm b s (rejectList s.clearTables o s.outstanding).2 (rejectList s.clearTables o s.outstanding).1 :=
  Calm.ofQuiet (Quiet.congr_left (rejectList_quiet _ _ _) rfl rfl)

theorem onLeaveDefault_calm (b : Bool) {s : Sess} (hm : s.mode = .sync) (reason : Nat) :
    Calm b s (onLeaveDefault s reason).2 (onLeaveDefault s reason).1 := by
  unfold onLeaveDefault
  have h1 := rejectAll_calm b s (.closed reason)
  refine h1.trans ?_
  have hm1 : (rejectList s.clearTables (.closed reason) s.outstanding).1.mode = .sync := h1.mode.trans hm
  unfold deferLeaf
  simp only [hm1, runLeaf]
  split
  · exact Calm.same rfl rfl rfl rfl rfl (by simp [ranked, isHello])
  · exact Calm.refl b _

theorem onDisconnectDefault_calm (b : Bool) (s : Sess) :
    Calm b s (onDisconnectDefault s).2 (onDisconnectDefault s).1 := rejectAll_calm b s (.closed 1)

/-- a lifecycle callback whose own calls do not include `join()`: the callback, then nothing ranked -/
theorem runHook_shape (b : Bool) (s : Sess) (h : Hook) (arg : Nat) (act : HAct) (body : Sess → Sess × List SOut)
    (hb : Calm b s (body s).2 (body s).1) (hj : act.noJoin = true) :
    ∃ mid, (runHook s h arg act body).2 = .hook h arg :: mid ∧ Calm b s mid (runHook s h arg act body).1 := by
  unfold runHook
  have hb1 : Calm b s (if act.dflt then body s else (s, [])).2 (if act.dflt then body s else (s, [])).1 := by
    split
    · exact hb
    · exact Calm.refl b s
  generalize (if act.dflt = true then body s else (s, [])) = r1 at hb1 ⊢
  simp only []
  split
  · exact ⟨_, rfl, hb1.map_toLost⟩
  · have h2 : Calm b r1.1 (runCalls r1.1 none act.calls).2 (runCalls r1.1 none act.calls).1 := by
      have := runCalls_strict r1.1 none act.calls hj
      cases b
      · exact this.weaken
      · exact this
    exact ⟨_, rfl, hb1.trans h2⟩

theorem leaveHook_shape (b : Bool) {s : Sess} (hm : s.mode = .sync) (reason : Nat) (act : HAct) (hj : act.noJoin = true) :
    ∃ mid last, (leaveHook s reason act).2 = .hook .onLeave reason :: (mid ++ [last]) ∧
      (last = .userError ∨ last = .fire .leave) ∧ Calm b s mid (leaveHook s reason act).1 := by
  unfold leaveHook
  obtain ⟨mid, h1, h2⟩ := runHook_shape b s .onLeave reason act (fun s => onLeaveDefault s reason) (onLeaveDefault_calm b hm reason) hj
  have hm1 : (runHook s .onLeave reason act (fun s => onLeaveDefault s reason)).1.mode = .sync := h2.mode.trans hm
  simp only [emitCb_sync hm1, h1]
  refine ⟨mid, _, rfl, ?_, h2⟩
  split
  · exact Or.inl rfl
  · exact Or.inr rfl

theorem disconnectHook_shape (b : Bool) {s : Sess} (hm : s.mode = .sync) (act : HAct) (hj : act.noJoin = true) :
    ∃ mid last, (disconnectHook s act).2 = .hook .onDisconnect 0 :: (mid ++ [last]) ∧
      (last = .userError ∨ last = .fire .disconnect) ∧ Calm b s mid (disconnectHook s act).1 := by
  unfold disconnectHook
  obtain ⟨mid, h1, h2⟩ := runHook_shape b s .onDisconnect 0 act onDisconnectDefault (onDisconnectDefault_calm b s) hj
  have hm1 : (runHook s .onDisconnect 0 act onDisconnectDefault).1.mode = .sync := h2.mode.trans hm
  simp only [emitCb_sync hm1, h1]
  refine ⟨mid, _, rfl, ?_, h2⟩
  split
  · exact Or.inl rfl
  · exact Or.inr rfl

/-! ### the callee side -/

theorem replySend_calm (b : Bool) (s : Sess) (m : OutMsg) (hm : m.typ ≠ .hello) :
    Calm b s (replySend s m).2.1 (replySend s m).1 := by
  have hs : ranked (SOut.send m) = false ∧ isHello (SOut.send m) = false := by
    refine ⟨rfl, ?_⟩; simp [isHello, hm]
  unfold replySend
  split
  · exact Calm.same rfl rfl rfl rfl rfl (by intro x hx; simp at hx; subst hx; exact hs)
  · exact Calm.same rfl rfl rfl rfl rfl (by intro x hx; simp at hx; subst hx; exact hs)
  · exact Calm.same rfl rfl rfl rfl rfl (by intro x hx; simp at hx; subst hx; exact ⟨rfl, rfl⟩)

theorem sendWithFallback_calm (b : Bool) (s : Sess) (r : ReqId) (m : OutMsg) (hm : m.typ ≠ .hello) :
    Calm b s (sendWithFallback s r m).2 (sendWithFallback s r m).1 := by
  unfold sendWithFallback
  have h1 := replySend_calm b s m hm
  simp only []
  split
  · exact h1
  · split
    · exact h1.trans (Calm.same rfl rfl rfl rfl rfl (by simp [ranked, isHello]))
    · next u _ =>
      have h2 := replySend_calm b (replySend s m).1 { typ := .error, req := r, uri := u } (by simp)
      refine (h1.trans h2).trans ?_
      split
      · exact Calm.refl b _
      · exact Calm.same rfl rfl rfl rfl rfl (by simp [ranked, isHello])

theorem invDone_calm (b : Bool) (s : Sess) (r : ReqId) (o : EOut) : Calm b s (invDone s r o).2 (invDone s r o).1 := by
  unfold invDone
  split
  · exact Calm.same rfl rfl rfl rfl rfl (by simp [ranked, isHello])
  · simp only []
    split
    · split
      · exact Calm.same rfl rfl rfl rfl rfl (by simp)
      · exact Calm.congr_left (sendWithFallback_calm b _ r _ (by simp)) rfl rfl rfl rfl rfl
    · split
      · exact Calm.same rfl rfl rfl rfl rfl (by simp [ranked, isHello])
      · exact Calm.cons ⟨rfl, rfl⟩ (Calm.congr_left (sendWithFallback_calm b _ r _ (by simp)) rfl rfl rfl rfl rfl)

theorem settleInv_calm (b : Bool) {s : Sess} (hm : s.mode = .sync) (r : ReqId) (o : EOut) :
    Calm b s (settleInv s r o).2 (settleInv s r o).1 := by
  unfold settleInv
  split
  · exact Calm.refl b s
  · split
    · exact Calm.refl b s
    · rw [defer_sync (by exact hm)]
      exact Calm.congr_left (invDone_calm b _ r o) rfl rfl rfl rfl rfl

theorem progressLoop_calm (b : Bool) (s : Sess) (r : ReqId) (vs : List Val) :
    Calm b s (progressLoop s r vs).2.1 (progressLoop s r vs).1 := by
  induction vs generalizing s with
  | nil => exact Calm.refl b s
  | cons v vs ih =>
    unfold progressLoop
    split
    · exact Calm.refl b s
    · have h1 : Calm b s (progressSend s r v).2.1 (progressSend s r v).1 := replySend_calm b s _ (by simp)
      simp only []
      split
      · exact h1.trans (ih _)
      · exact h1

theorem lateProgress_calm (b : Bool) (s : Sess) (r : ReqId) (v : Val) :
    Calm b s (lateProgress s r v).2 (lateProgress s r v).1 := by
  unfold lateProgress
  split
  · exact Calm.same rfl rfl rfl rfl rfl (by simp [ranked, isHello])
  · split
    · exact Calm.same rfl rfl rfl rfl rfl (by simp [ranked, isHello])
    · have h1 : Calm b s (progressSend s r v).2.1 (progressSend s r v).1 := replySend_calm b s _ (by simp)
      simp only []
      refine h1.trans ?_
      split
      · exact Calm.refl b _
      · exact Calm.same rfl rfl rfl rfl rfl (by simp [ranked, isHello])

theorem onInvocation_calm {s : Sess} (hm : s.mode = .sync) (beh : List HAct) (r : ReqId) (reg : RegId) (p : Payload) (rp : Bool) :
    Calm false s (onInvocation s beh r reg p rp).2 (onInvocation s beh r reg p rp).1 := by
  unfold onInvocation
  split
  · exact Calm.same rfl rfl rfl rfl rfl (by simp [ranked, isHello])
  · split
    · exact Calm.same rfl rfl rfl rfl rfl (by simp [ranked, isHello])
    · next g _ =>
      simp only []
      generalize hs0 : (if (g.detailsArg.isSome && rp) = true then { s with progs := r :: s.progs } else s) = s0
      have h0 : Calm false s ([] : List SOut) s0 := by
        subst hs0; split
        · exact Calm.same rfl rfl rfl rfl rfl (by simp)
        · exact Calm.refl false s
      have h1 := progressLoop_calm false s0 r (if (g.detailsArg.isSome && rp) = true then (beh.headD {}).progress else [])
      generalize (progressLoop s0 r (if (g.detailsArg.isSome && rp) = true then (beh.headD {}).progress else [])) = r1 at h1 ⊢
      have h2 : Calm false r1.1 (if r1.2.2 = true then (r1.1, []) else runCalls r1.1 none (beh.headD {}).calls).2
          (if r1.2.2 = true then (r1.1, []) else runCalls r1.1 none (beh.headD {}).calls).1 := by
        split
        · exact Calm.refl false _
        · exact calmLiftQ.toLift.runCalls trivial none _
      generalize (if r1.2.2 = true then (r1.1, []) else runCalls r1.1 none (beh.headD {}).calls) = r2 at h2 ⊢
      generalize (if r1.2.2 = true then some (EOut.raised .sendExc)
        else if (beh.headD {}).raises = true then some (EOut.raised (beh.headD {}).exc)
        else if (beh.headD {}).ret = Ret.pending then none else some (retOut (beh.headD {}).ret)) = outcome
      have h012 : Calm false s (r1.2.1 ++ r2.2) r2.1 := by
        have := (h0.trans h1).trans h2
        simpa using this
      have hm2 : r2.1.mode = .sync := h012.mode.trans hm
      refine Calm.cons ⟨rfl, rfl⟩ ?_
      refine h012.trans ?_
      cases outcome with
      | none => exact Calm.same rfl rfl rfl rfl rfl (by simp)
      | some o =>
        simp only []
        rw [defer_sync (by exact hm2)]
        exact Calm.congr_left (invDone_calm false _ r o) rfl rfl rfl rfl rfl

end Abverif.Session
