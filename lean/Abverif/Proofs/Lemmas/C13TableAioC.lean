import Abverif.Proofs.Lemmas.C13TableDefs
/- C13: complete table of the 2^16 values of handshake octets 1–2 (reserved octets zero) for `aioClientHs 1`. -/
namespace Abverif.RawSocket.Table

def chkAioC (n : Nat) : Bool := ((aioClientHs 1 (o1 n) (o2 n) 0 0).accepted == specB [1] n)

theorem tableAioC : allRange chkAioC 0 16 = true := by decide +kernel

end Abverif.RawSocket.Table
