import Abverif.Model.Rx
/-
Denotational semantics of the regex AST and correctness of the executable matcher:
  `matchesFull_iff : r.matchesFull s = true ↔ Rx.Lang r s`      (all `r`, all `s`)
plus rewrite-form characterisations of `Lang` for every constructor (`lang_seq`, `lang_star_cls`, …) that the
grammar proofs in `UriGrammar.lean` use.
-/
namespace Abverif.Rx

/-- the language of a regex (standard) -/
inductive Rx.Lang : Rx → List Char → Prop
  | eps : Rx.Lang .eps []
  | cls {C : CClass} {c : Char} : C.contains c = true → Rx.Lang (.cls C) [c]
  | seq {a b : Rx} {u v : List Char} : Rx.Lang a u → Rx.Lang b v → Rx.Lang (.seq a b) (u ++ v)
  | altL {a b : Rx} {u : List Char} : Rx.Lang a u → Rx.Lang (.alt a b) u
  | altR {a b : Rx} {u : List Char} : Rx.Lang b u → Rx.Lang (.alt a b) u
  | starNil {a : Rx} : Rx.Lang (.star a) []
  | starCons {a : Rx} {u v : List Char} : Rx.Lang a u → Rx.Lang (.star a) v → Rx.Lang (.star a) (u ++ v)
  | plus {a : Rx} {u v : List Char} : Rx.Lang a u → Rx.Lang (.star a) v → Rx.Lang (.plus a) (u ++ v)
  | optNil {a : Rx} : Rx.Lang (.opt a) []
  | optSome {a : Rx} {u : List Char} : Rx.Lang a u → Rx.Lang (.opt a) u
  | repNil {a : Rx} {n : Nat} : Rx.Lang (.rep a 0 n) []
  | repCons {a : Rx} {m n : Nat} {u v : List Char} :
      Rx.Lang a u → Rx.Lang (.rep a (m - 1) n) v → Rx.Lang (.rep a m (n + 1)) (u ++ v)

/-- `k`-fold concatenation of a language -/
def Pow (L : List Char → Prop) : Nat → List Char → Prop
  | 0, w => w = []
  | k + 1, w => ∃ u v, w = u ++ v ∧ L u ∧ Pow L k v

theorem pow_zero {L : List Char → Prop} {w : List Char} : Pow L 0 w ↔ w = [] := Iff.rfl

theorem pow_succ {L : List Char → Prop} {k : Nat} {w : List Char} :
    Pow L (k + 1) w ↔ ∃ u v, w = u ++ v ∧ L u ∧ Pow L k v := Iff.rfl

/-- empty pieces can be dropped: at most `w.length` pieces are needed -/
theorem pow_bound {L : List Char → Prop} : ∀ (k : Nat) (w : List Char), Pow L k w → ∃ j, j ≤ w.length ∧ Pow L j w
  | 0, w, h => ⟨0, Nat.zero_le _, h⟩
  | k + 1, w, h => by
    obtain ⟨u, v, rfl, hu, hv⟩ := h
    obtain ⟨j, hj, hp⟩ := pow_bound k v hv
    cases u with
    | nil => exact ⟨j, by simpa using hj, by simpa using hp⟩
    | cons c cs =>
      refine ⟨j + 1, ?_, (c :: cs), v, rfl, hu, hp⟩
      simp only [List.length_append, List.length_cons]
      omega

theorem pow_add {L : List Char → Prop} : ∀ (a b : Nat) (w : List Char),
    Pow L (a + b) w ↔ ∃ u v, w = u ++ v ∧ Pow L a u ∧ Pow L b v
  | 0, b, w => by
    rw [Nat.zero_add]
    constructor
    · intro h; exact ⟨[], w, rfl, rfl, h⟩
    · rintro ⟨u, v, rfl, hu, hv⟩
      rw [pow_zero] at hu
      subst hu
      exact hv
  | a + 1, b, w => by
    rw [show a + 1 + b = (a + b) + 1 by omega, pow_succ]
    constructor
    · rintro ⟨u, v, rfl, hu, hv⟩
      obtain ⟨x, y, rfl, hx, hy⟩ := (pow_add a b v).1 hv
      exact ⟨u ++ x, y, by rw [List.append_assoc], ⟨u, x, rfl, hu, hx⟩, hy⟩
    · rintro ⟨p, y, rfl, ⟨u, x, rfl, hu, hx⟩, hy⟩
      exact ⟨u, x ++ y, by rw [List.append_assoc], hu, (pow_add a b _).2 ⟨x, y, rfl, hx, hy⟩⟩

/-! ### inversion of `Lang`, in rewrite form -/

theorem lang_eps {w : List Char} : Rx.Lang .eps w ↔ w = [] := by
  constructor
  · intro h; cases h; rfl
  · rintro rfl; exact .eps

theorem lang_cls {C : CClass} {w : List Char} : Rx.Lang (.cls C) w ↔ ∃ c, w = [c] ∧ C.contains c = true := by
  constructor
  · intro h; cases h with | cls hc => exact ⟨_, rfl, hc⟩
  · rintro ⟨c, rfl, hc⟩; exact .cls hc

theorem lang_seq {a b : Rx} {w : List Char} :
    Rx.Lang (.seq a b) w ↔ ∃ u v, w = u ++ v ∧ Rx.Lang a u ∧ Rx.Lang b v := by
  constructor
  · intro h; cases h with | seq ha hb => exact ⟨_, _, rfl, ha, hb⟩
  · rintro ⟨u, v, rfl, ha, hb⟩; exact .seq ha hb

theorem lang_alt {a b : Rx} {w : List Char} : Rx.Lang (.alt a b) w ↔ Rx.Lang a w ∨ Rx.Lang b w := by
  constructor
  · intro h
    cases h with
    | altL h => exact .inl h
    | altR h => exact .inr h
  · rintro (h | h)
    · exact .altL h
    · exact .altR h

theorem lang_opt {a : Rx} {w : List Char} : Rx.Lang (.opt a) w ↔ w = [] ∨ Rx.Lang a w := by
  constructor
  · intro h
    cases h with
    | optNil => exact .inl rfl
    | optSome h => exact .inr h
  · rintro (rfl | h)
    · exact .optNil
    · exact .optSome h

theorem lang_star_of_pow {a : Rx} : ∀ (k : Nat) (w : List Char), Pow (Rx.Lang a) k w → Rx.Lang (.star a) w
  | 0, _, h => by rw [pow_zero] at h; subst h; exact .starNil
  | k + 1, _, h => by
    obtain ⟨u, v, rfl, hu, hv⟩ := h
    exact .starCons hu (lang_star_of_pow k v hv)

theorem pow_of_lang_star {a : Rx} {r : Rx} {w : List Char} (h : Rx.Lang r w) (hr : r = .star a) :
    ∃ k, Pow (Rx.Lang a) k w := by
  induction h with
  | starNil => exact ⟨0, rfl⟩
  | starCons hu _ _ ih2 =>
    cases hr
    obtain ⟨k, hk⟩ := ih2 rfl
    exact ⟨k + 1, _, _, rfl, hu, hk⟩
  | _ => cases hr

theorem lang_star {a : Rx} {w : List Char} : Rx.Lang (.star a) w ↔ ∃ k, Pow (Rx.Lang a) k w :=
  ⟨fun h => pow_of_lang_star h rfl, fun ⟨k, h⟩ => lang_star_of_pow k w h⟩

theorem lang_plus {a : Rx} {w : List Char} : Rx.Lang (.plus a) w ↔ ∃ k, Pow (Rx.Lang a) (k + 1) w := by
  constructor
  · intro h
    cases h with
    | plus hu hv =>
      obtain ⟨k, hk⟩ := lang_star.1 hv
      exact ⟨k, _, _, rfl, hu, hk⟩
  · rintro ⟨k, u, v, rfl, hu, hv⟩
    exact .plus hu (lang_star.2 ⟨k, hv⟩)

theorem pow_of_lang_rep {a : Rx} {r : Rx} {w : List Char} (h : Rx.Lang r w) :
    ∀ {m n : Nat}, r = .rep a m n → ∃ k, m ≤ k ∧ k ≤ n ∧ Pow (Rx.Lang a) k w := by
  induction h with
  | repNil =>
    intro m n hr
    cases hr
    exact ⟨0, Nat.le_refl _, Nat.zero_le _, rfl⟩
  | repCons hu _ _ ih2 =>
    intro m n hr
    cases hr
    obtain ⟨k, h1, h2, hk⟩ := ih2 rfl
    exact ⟨k + 1, by omega, by omega, _, _, rfl, hu, hk⟩
  | _ => intro m n hr; cases hr

theorem lang_rep_of_pow {a : Rx} : ∀ (k m n : Nat) (w : List Char), m ≤ k → k ≤ n → Pow (Rx.Lang a) k w →
    Rx.Lang (.rep a m n) w
  | 0, m, n, w, h1, _, h => by
    rw [pow_zero] at h
    subst h
    have : m = 0 := by omega
    subst this
    exact .repNil
  | k + 1, m, n, w, h1, h2, h => by
    obtain ⟨u, v, rfl, hu, hv⟩ := h
    cases n with
    | zero => omega
    | succ n => exact .repCons hu (lang_rep_of_pow k (m - 1) n v (by omega) (by omega) hv)

theorem lang_rep {a : Rx} {m n : Nat} {w : List Char} :
    Rx.Lang (.rep a m n) w ↔ ∃ k, m ≤ k ∧ k ≤ n ∧ Pow (Rx.Lang a) k w :=
  ⟨fun h => pow_of_lang_rep h rfl, fun ⟨k, h1, h2, h⟩ => lang_rep_of_pow k m n w h1 h2 h⟩

/-! ### position sets: which suffixes of `s` does a mask denote -/

/-- `Mem s m t`: `t` is the suffix of `s` at some live position of `m` -/
def Mem : List Char → Mask → List Char → Prop
  | _, [], _ => False
  | [], b :: _, t => b = true ∧ t = []
  | c :: cs, b :: bs, t => (b = true ∧ t = c :: cs) ∨ Mem cs bs t

theorem mem_nil_mask {s t : List Char} : Mem s [] t ↔ False := by
  cases s <;> simp [Mem]

theorem mem_nil_cons {b : Bool} {bs : Mask} {t : List Char} : Mem [] (b :: bs) t ↔ (b = true ∧ t = []) := by
  simp [Mem]

theorem mem_cons_cons {c : Char} {cs : List Char} {b : Bool} {bs : Mask} {t : List Char} :
    Mem (c :: cs) (b :: bs) t ↔ ((b = true ∧ t = c :: cs) ∨ Mem cs bs t) := by
  simp [Mem]

theorem mem_length : ∀ (s : List Char) (m : Mask) (t : List Char), Mem s m t → t.length ≤ s.length
  | s, [], t, h => (mem_nil_mask.1 h).elim
  | [], b :: _, t, h => by
    rw [mem_nil_cons] at h
    rw [h.2]
    exact Nat.le_refl _
  | c :: cs, b :: bs, t, h => by
    rw [mem_cons_cons] at h
    rcases h with ⟨_, rfl⟩ | h
    · exact Nat.le_refl _
    · have := mem_length cs bs t h
      simp only [List.length_cons]
      omega

theorem mem_single {s t : List Char} : Mem s [true] t ↔ t = s := by
  cases s with
  | nil => rw [mem_nil_cons]; simp
  | cons c cs => rw [mem_cons_cons, mem_nil_mask]; simp

theorem mem_none : ∀ (s : List Char) (m : Mask) (t : List Char), m.any id = false → ¬ Mem s m t
  | s, [], t, _ => fun h => mem_nil_mask.1 h
  | [], b :: bs, t, hm => by
    rw [mem_nil_cons]
    simp only [List.any_cons, id, Bool.or_eq_false_iff] at hm
    rintro ⟨hb, _⟩
    rw [hm.1] at hb
    cases hb
  | c :: cs, b :: bs, t, hm => by
    rw [mem_cons_cons]
    simp only [List.any_cons, id, Bool.or_eq_false_iff] at hm
    rintro (⟨hb, _⟩ | h)
    · rw [hm.1] at hb
      cases hb
    · exact mem_none cs bs t hm.2 h

theorem mem_union : ∀ (s : List Char) (a b : Mask) (t : List Char),
    Mem s (Mask.union a b) t ↔ (Mem s a t ∨ Mem s b t)
  | s, [], b, t => by
    rw [show Mask.union [] b = b by cases b <;> rfl, mem_nil_mask]
    simp
  | s, x :: xs, [], t => by
    rw [show Mask.union (x :: xs) [] = x :: xs by rfl, mem_nil_mask]
    simp
  | [], x :: xs, y :: ys, t => by
    rw [show Mask.union (x :: xs) (y :: ys) = (x || y) :: Mask.union xs ys by rfl]
    simp only [mem_nil_cons, Bool.or_eq_true]
    constructor
    · rintro ⟨h | h, ht⟩
      · exact .inl ⟨h, ht⟩
      · exact .inr ⟨h, ht⟩
    · rintro (⟨h, ht⟩ | ⟨h, ht⟩)
      · exact ⟨.inl h, ht⟩
      · exact ⟨.inr h, ht⟩
  | c :: cs, x :: xs, y :: ys, t => by
    rw [show Mask.union (x :: xs) (y :: ys) = (x || y) :: Mask.union xs ys by rfl]
    simp only [mem_cons_cons, Bool.or_eq_true, mem_union cs xs ys t]
    constructor
    · rintro (⟨h | h, ht⟩ | h | h)
      · exact .inl (.inl ⟨h, ht⟩)
      · exact .inr (.inl ⟨h, ht⟩)
      · exact .inl (.inr h)
      · exact .inr (.inr h)
    · rintro ((⟨h, ht⟩ | h) | (⟨h, ht⟩ | h))
      · exact .inl ⟨.inl h, ht⟩
      · exact .inr (.inl h)
      · exact .inl ⟨.inr h, ht⟩
      · exact .inr (.inr h)

theorem mem_stepGo (C : CClass) : ∀ (cs : List Char) (c0 : Char) (m : Mask) (t : List Char),
    Mem cs (stepGo C (c0 :: cs) m) t ↔ ∃ c, C.contains c = true ∧ Mem (c0 :: cs) m (c :: t)
  | cs, c0, [], t => by
    rw [show stepGo C (c0 :: cs) [] = [] by rfl, mem_nil_mask]
    simp [mem_nil_mask]
  | [], c0, b :: bs, t => by
    rw [show stepGo C [c0] (b :: bs) = (b && C.contains c0) :: stepGo C [] bs by rfl, mem_nil_cons]
    simp only [mem_cons_cons, Bool.and_eq_true]
    constructor
    · rintro ⟨⟨hb, hc⟩, rfl⟩
      exact ⟨c0, hc, .inl ⟨hb, rfl⟩⟩
    · rintro ⟨c, hc, ⟨hb, he⟩ | h⟩
      · injection he with h1 h2
        subst h1
        exact ⟨⟨hb, hc⟩, h2⟩
      · cases bs with
        | nil => exact (mem_nil_mask.1 h).elim
        | cons y ys => rw [mem_nil_cons] at h; cases h.2
  | c1 :: cs, c0, b :: bs, t => by
    rw [show stepGo C (c0 :: c1 :: cs) (b :: bs) = (b && C.contains c0) :: stepGo C (c1 :: cs) bs by rfl,
      mem_cons_cons, mem_stepGo C cs c1 bs t]
    simp only [mem_cons_cons (c := c0), Bool.and_eq_true]
    constructor
    · rintro (⟨⟨hb, hc⟩, rfl⟩ | ⟨c, hc, h⟩)
      · exact ⟨c0, hc, .inl ⟨hb, rfl⟩⟩
      · exact ⟨c, hc, .inr h⟩
    · rintro ⟨c, hc, ⟨hb, he⟩ | h⟩
      · injection he with h1 h2
        subst h1
        exact .inl ⟨⟨hb, hc⟩, h2⟩
      · exact .inr ⟨c, hc, h⟩

theorem mem_step (C : CClass) (s : List Char) (m : Mask) (t : List Char) :
    Mem s (step C s m) t ↔ ∃ c, C.contains c = true ∧ Mem s m (c :: t) := by
  unfold step
  cases s with
  | nil =>
    rw [mem_nil_cons]
    constructor
    · rintro ⟨h, _⟩; cases h
    · rintro ⟨c, _, h⟩
      cases m with
      | nil => exact (mem_nil_mask.1 h).elim
      | cons y ys => rw [mem_nil_cons] at h; cases h.2
  | cons c0 cs =>
    rw [mem_cons_cons, mem_stepGo]
    constructor
    · rintro (⟨h, _⟩ | h)
      · cases h
      · exact h
    · intro h; exact .inr h

theorem accepts_iff : ∀ (s : List Char) (m : Mask), accepts s m = true ↔ Mem s m []
  | s, [] => by
    rw [show accepts s [] = false by cases s <;> rfl, mem_nil_mask]
    simp
  | [], b :: bs => by
    rw [show accepts [] (b :: bs) = b by rfl, mem_nil_cons]
    simp
  | c :: cs, b :: bs => by
    rw [show accepts (c :: cs) (b :: bs) = accepts cs bs by rfl, mem_cons_cons, accepts_iff cs bs]
    simp

/-! ### the loops -/

section loops
variable {s : List Char} {f : Mask → Mask} {L : List Char → Prop}

theorem mem_iterN (hf : ∀ m t, Mem s (f m) t ↔ ∃ u, L u ∧ Mem s m (u ++ t)) :
    ∀ (k : Nat) (m : Mask) (t : List Char), Mem s (iterN f k m) t ↔ ∃ u, Pow L k u ∧ Mem s m (u ++ t)
  | 0, m, t => by
    rw [show iterN f 0 m = m by rfl]
    constructor
    · intro h; exact ⟨[], rfl, h⟩
    · rintro ⟨u, hu, h⟩
      rw [pow_zero] at hu
      subst hu
      exact h
  | k + 1, m, t => by
    rw [show iterN f (k + 1) m = iterN f k (f m) by rfl, mem_iterN hf k (f m) t]
    constructor
    · rintro ⟨u, hu, h⟩
      obtain ⟨v, hv, h⟩ := (hf m (u ++ t)).1 h
      exact ⟨v ++ u, ⟨v, u, rfl, hv, hu⟩, by rw [List.append_assoc]; exact h⟩
    · rintro ⟨w, ⟨v, u, rfl, hv, hu⟩, h⟩
      rw [List.append_assoc] at h
      exact ⟨u, hu, (hf m (u ++ t)).2 ⟨v, hv, h⟩⟩

theorem mem_iterU (hf : ∀ m t, Mem s (f m) t ↔ ∃ u, L u ∧ Mem s m (u ++ t)) :
    ∀ (k : Nat) (m : Mask) (t : List Char),
      Mem s (iterU f k m) t ↔ ∃ j, j ≤ k ∧ ∃ u, Pow L j u ∧ Mem s m (u ++ t)
  | 0, m, t => by
    rw [show iterU f 0 m = m by rfl]
    constructor
    · intro h; exact ⟨0, Nat.le_refl _, [], rfl, h⟩
    · rintro ⟨j, hj, u, hu, h⟩
      have : j = 0 := by omega
      subst this
      rw [pow_zero] at hu
      subst hu
      exact h
  | k + 1, m, t => by
    rw [show iterU f (k + 1) m = if m.any id then Mask.union m (iterU f k (f m)) else m by rfl]
    cases hm : m.any id with
    | false =>
      simp only [Bool.false_eq_true, if_false]
      constructor
      · intro h; exact (mem_none s m t hm h).elim
      · rintro ⟨j, _, u, _, h⟩; exact (mem_none s m _ hm h).elim
    | true =>
      simp only [if_true]
      rw [mem_union, mem_iterU hf k (f m) t]
      constructor
      · rintro (h | ⟨j, hj, u, hu, h⟩)
        · exact ⟨0, Nat.zero_le _, [], rfl, h⟩
        · obtain ⟨v, hv, h⟩ := (hf m (u ++ t)).1 h
          exact ⟨j + 1, by omega, v ++ u, ⟨v, u, rfl, hv, hu⟩, by rw [List.append_assoc]; exact h⟩
      · rintro ⟨j, hj, w, hw, h⟩
        cases j with
        | zero =>
          rw [pow_zero] at hw
          subst hw
          exact .inl h
        | succ j =>
          obtain ⟨v, u, rfl, hv, hu⟩ := hw
          rw [List.append_assoc] at h
          exact .inr ⟨j, by omega, u, hu, (hf m (u ++ t)).2 ⟨v, hv, h⟩⟩

end loops

/-! ### the matcher is the language -/

theorem mem_run : ∀ (r : Rx) (s : List Char) (m : Mask) (t : List Char),
    Mem s (run r s m) t ↔ ∃ u, Rx.Lang r u ∧ Mem s m (u ++ t)
  | .eps, s, m, t => by
    rw [show run .eps s m = m by rfl]
    constructor
    · intro h; exact ⟨[], .eps, h⟩
    · rintro ⟨u, hu, h⟩
      rw [lang_eps.1 hu] at h
      exact h
  | .cls C, s, m, t => by
    rw [show run (.cls C) s m = step C s m by rfl, mem_step]
    constructor
    · rintro ⟨c, hc, h⟩; exact ⟨[c], .cls hc, h⟩
    · rintro ⟨u, hu, h⟩
      obtain ⟨c, rfl, hc⟩ := lang_cls.1 hu
      exact ⟨c, hc, h⟩
  | .seq a b, s, m, t => by
    rw [show run (.seq a b) s m = run b s (run a s m) by rfl, mem_run b s (run a s m) t]
    constructor
    · rintro ⟨v, hv, h⟩
      obtain ⟨u, hu, h⟩ := (mem_run a s m (v ++ t)).1 h
      exact ⟨u ++ v, .seq hu hv, by rw [List.append_assoc]; exact h⟩
    · rintro ⟨w, hw, h⟩
      obtain ⟨u, v, rfl, hu, hv⟩ := lang_seq.1 hw
      rw [List.append_assoc] at h
      exact ⟨v, hv, (mem_run a s m (v ++ t)).2 ⟨u, hu, h⟩⟩
  | .alt a b, s, m, t => by
    rw [show run (.alt a b) s m = Mask.union (run a s m) (run b s m) by rfl, mem_union,
      mem_run a s m t, mem_run b s m t]
    constructor
    · rintro (⟨u, hu, h⟩ | ⟨u, hu, h⟩)
      · exact ⟨u, .altL hu, h⟩
      · exact ⟨u, .altR hu, h⟩
    · rintro ⟨u, hu, h⟩
      rcases lang_alt.1 hu with hu | hu
      · exact .inl ⟨u, hu, h⟩
      · exact .inr ⟨u, hu, h⟩
  | .opt a, s, m, t => by
    rw [show run (.opt a) s m = Mask.union m (run a s m) by rfl, mem_union, mem_run a s m t]
    constructor
    · rintro (h | ⟨u, hu, h⟩)
      · exact ⟨[], .optNil, h⟩
      · exact ⟨u, .optSome hu, h⟩
    · rintro ⟨u, hu, h⟩
      rcases lang_opt.1 hu with rfl | hu
      · exact .inl h
      · exact .inr ⟨u, hu, h⟩
  | .star a, s, m, t => by
    rw [show run (.star a) s m = iterU (run a s) s.length m by rfl,
      mem_iterU (L := Rx.Lang a) (fun m t => mem_run a s m t)]
    constructor
    · rintro ⟨j, _, u, hu, h⟩
      exact ⟨u, lang_star.2 ⟨j, hu⟩, h⟩
    · rintro ⟨u, hu, h⟩
      obtain ⟨k, hk⟩ := lang_star.1 hu
      obtain ⟨j, hj, hp⟩ := pow_bound k u hk
      have := mem_length s m _ h
      simp only [List.length_append] at this
      exact ⟨j, by omega, u, hp, h⟩
  | .plus a, s, m, t => by
    rw [show run (.plus a) s m = iterU (run a s) s.length (run a s m) by rfl,
      mem_iterU (L := Rx.Lang a) (fun m t => mem_run a s m t)]
    constructor
    · rintro ⟨j, _, u, hu, h⟩
      obtain ⟨v, hv, h⟩ := (mem_run a s m (u ++ t)).1 h
      exact ⟨v ++ u, lang_plus.2 ⟨j, v, u, rfl, hv, hu⟩, by rw [List.append_assoc]; exact h⟩
    · rintro ⟨w, hw, h⟩
      obtain ⟨k, v, u, rfl, hv, hu⟩ := lang_plus.1 hw
      obtain ⟨j, hj, hp⟩ := pow_bound k u hu
      rw [List.append_assoc] at h
      have := mem_length s m _ h
      simp only [List.length_append] at this
      exact ⟨j, by omega, u, hp, (mem_run a s m (u ++ t)).2 ⟨v, hv, h⟩⟩
  | .rep a lo hi, s, m, t => by
    rw [show run (.rep a lo hi) s m
        = if hi < lo then [] else iterU (run a s) (hi - lo) (iterN (run a s) lo m) by rfl]
    by_cases hlt : hi < lo
    · rw [if_pos hlt, mem_nil_mask]
      constructor
      · intro h; exact h.elim
      · rintro ⟨u, hu, _⟩
        obtain ⟨k, h1, h2, _⟩ := lang_rep.1 hu
        omega
    · rw [if_neg hlt, mem_iterU (L := Rx.Lang a) (fun m t => mem_run a s m t)]
      constructor
      · rintro ⟨j, hj, u, hu, h⟩
        obtain ⟨v, hv, h⟩ := (mem_iterN (L := Rx.Lang a) (fun m t => mem_run a s m t) lo m (u ++ t)).1 h
        refine ⟨v ++ u, lang_rep.2 ⟨lo + j, by omega, by omega, (pow_add lo j _).2 ⟨v, u, rfl, hv, hu⟩⟩, ?_⟩
        rw [List.append_assoc]
        exact h
      · rintro ⟨w, hw, h⟩
        obtain ⟨k, h1, h2, hk⟩ := lang_rep.1 hw
        rw [show k = lo + (k - lo) by omega] at hk
        obtain ⟨v, u, rfl, hv, hu⟩ := (pow_add lo (k - lo) w).1 hk
        rw [List.append_assoc] at h
        exact ⟨k - lo, by omega, u, hu,
          (mem_iterN (L := Rx.Lang a) (fun m t => mem_run a s m t) lo m (u ++ t)).2 ⟨v, hv, h⟩⟩

/-- the executable matcher decides the denotational semantics -/
theorem matchesFull_iff (r : Rx) (s : List Char) : r.matchesFull s = true ↔ Rx.Lang r s := by
  unfold Rx.matchesFull
  rw [accepts_iff, mem_run]
  constructor
  · rintro ⟨u, hu, h⟩
    rw [mem_single, List.append_nil] at h
    subst h
    exact hu
  · intro h
    exact ⟨s, h, by rw [mem_single, List.append_nil]⟩

end Abverif.Rx
